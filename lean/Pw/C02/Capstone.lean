import Pw.C02.Final
import Pw.C02.ObsFull

/-! # C02 capstone: for every history inside the universe, every read query of every live object
after every step equals the specification's answer (this is literally what the driver prints twice) -/
namespace C02

def GOp.Below (n m : Nat) : GOp → Prop
  | .addNode v _ => v < n
  | .addNodes vs _ => ∀ v ∈ vs, v < n
  | .addEdge u v _ _ => u < n ∧ v < n
  | .addEdges es _ _ => ∀ e ∈ es, e.1 < n ∧ e.2 < n
  | .addEdgeType t _ ns es => t < m ∧ (∀ v ∈ ns, v < n) ∧ ∀ e ∈ es, e.1 < n ∧ e.2 < n
  | _ => True

def Op.Below (n m : Nat) : Op → Prop
  | .new _ => 3 ≤ m
  | .on _ op => op.Below n m
  | .copy _ => True
  | .subgraph _ ns => ∀ v ∈ ns, v < n

namespace AG

/-- nodes and edge-type names are inside the universe -/
def Below (a : AG) (n m : Nat) : Prop :=
  (∀ v, a.node v = true → v < n) ∧ ∀ t, (a.kind t).isSome = true → t < m

theorem foldl_prop_mem {β} (P : AG → Prop) (l : List β) (f : AG → β → AG)
    (h : ∀ a, ∀ b ∈ l, P a → P (f a b)) (a : AG) (ha : P a) : P (l.foldl f a) := by
  induction l generalizing a with
  | nil => exact ha
  | cons b l ih =>
    exact ih (fun a b' hb' => h a b' (List.mem_cons_of_mem _ hb')) _ (h a b (by simp) ha)

theorem Below.addNodeS {a : AG} {n m : Nat} (h : a.Below n m) {v : Nat} (hv : v < n) (at' : Attr) :
    (a.addNodeS v at').Below n m := by
  refine ⟨fun x hx => ?_, h.2⟩
  simp only [AG.addNodeS, Bool.or_eq_true, beq_iff_eq] at hx
  rcases hx with hx | rfl
  · exact h.1 x hx
  · exact hv

theorem Below.ensureS {a : AG} {n m : Nat} (h : a.Below n m) {v : Nat} (hv : v < n) (at' : Attr) :
    (a.ensureS v at').Below n m := by
  unfold AG.ensureS; split
  · exact h
  · exact h.addNodeS hv at'

theorem Below.dropNodeS {a : AG} {n m : Nat} (h : a.Below n m) (v : Nat) : (a.dropNodeS v).Below n m := by
  refine ⟨fun x hx => ?_, h.2⟩
  simp only [AG.dropNodeS, Bool.and_eq_true] at hx
  exact h.1 x hx.1

theorem Below.step {a : AG} {n m : Nat} (h : a.Below n m) {op : GOp} (hb : op.Below n m) : (a.step op).1.Below n m := by
  cases op with
  | addNode v at' => exact h.addNodeS hb at'
  | addNodes vs at' =>
    exact foldl_prop_mem (·.Below n m) vs (fun a v => a.addNodeS v at') (fun a v hv ha => ha.addNodeS (hb v hv) at') a h
  | removeNode v => simp only [AG.step]; split; exact h.dropNodeS v; exact h
  | removeNodes vs => exact foldl_prop_mem (·.Below n m) vs AG.dropNodeS (fun a v _ ha => ha.dropNodeS v) a h
  | addEdge u v t at' =>
    simp only [AG.step]
    have h2 := (h.ensureS hb.1 []).ensureS hb.2 []
    split
    · exact h2
    · exact h2
  | addEdges es t at' =>
    simp only [AG.step]
    have h2 := foldl_prop_mem (·.Below n m) es (fun a e => (a.ensureS e.1 at').ensureS e.2 at')
      (fun a e he ha => (ha.ensureS (hb e he).1 at').ensureS (hb e he).2 at') a h
    split
    · exact foldl_prop_mem (·.Below n m) es (fun a e => a.putEdge t e.1 e.2 at') (fun a e _ ha => ha) _ h2
    · exact h2
  | removeEdge u v t =>
    simp only [AG.step]
    cases t with
    | all => exact h
    | one t' => simp only; split <;> exact h
  | removeEdges es t =>
    simp only [AG.step]
    split
    · exact foldl_prop_mem (·.Below n m) es (fun a e => a.dropEdgeS t e.1 e.2) (fun a e _ ha => ha) a h
    · exact h
  | clearEdges t => simp only [AG.step]; split <;> exact h
  | addEdgeType t k ns es =>
    simp only [AG.step]
    split
    · exact h
    · refine ⟨fun x hx => ?_, fun t' ht' => ?_⟩
      · simp only [Bool.or_eq_true, List.contains_eq_mem, decide_eq_true_eq, List.any_eq_true, beq_iff_eq] at hx
        rcases hx with (hx | hx) | ⟨e, he, hx | hx⟩
        · exact h.1 x hx
        · exact hb.2.1 x hx
        · rw [hx]; exact (hb.2.2 e he).1
        · rw [hx]; exact (hb.2.2 e he).2
      · simp only at ht'
        split at ht'
        · rename_i heq; simp only [beq_iff_eq] at heq; rw [heq]; exact hb.1
        · exact h.2 t' ht'
  | removeEdgeType t =>
    simp only [AG.step]
    split
    · refine ⟨h.1, fun t' ht' => ?_⟩
      simp only at ht'
      split at ht'
      · simp at ht'
      · exact h.2 t' ht'
    · exact h
  | setGAttr at' => exact h

theorem Below.empty (admg : Bool) {n m : Nat} (hm : 3 ≤ m) : (AG.empty admg).Below n m := by
  refine ⟨fun v hv => by simp [AG.empty] at hv, fun t ht => ?_⟩
  simp only [AG.empty] at ht
  split at ht
  · split at ht
    · omega
    · split at ht
      · omega
      · simp at ht
  · simp at ht

end AG

theorem MEG.below_of_abs {g : MEG} {n m : Nat} (h : g.abs.Below n m) : g.NodesBelow n ∧ g.NamesBelow m :=
  ⟨fun v hv => h.1 v (MEG.hasNode_iff.2 hv), fun t ht => h.2 t (by rw [MEG.abs_kind_isSome]; simpa [MEG.names] using ht)⟩

/-- the run invariant used by the capstone -/
structure Store.Good (s : Store) (n m : Nat) : Prop where
  inv : s.Inv
  kind : s.KindOK
  below : ∀ g ∈ s, g.abs.Below n m

theorem Store.Good.step {s : Store} {n m : Nat} (h : s.Good n m) {op : Op} (hw : op.WellKinded) (hb : op.Below n m) :
    (s.step op).1.Good n m := by
  refine ⟨h.inv.step op, h.kind.step h.inv hw, ?_⟩
  cases op with
  | new a =>
    intro g hg; simp only [Store.step, List.mem_append, List.mem_singleton] at hg
    rcases hg with hg | rfl
    · exact h.below g hg
    · rw [abs_fresh]; exact AG.Below.empty a hb
  | on i op =>
    simp only [Store.step]
    split
    · exact h.below
    · rename_i g hg
      intro g' hg'
      rcases List.mem_or_eq_of_mem_set hg' with h1 | rfl
      · exact h.below g' h1
      · have hmem := List.mem_of_getElem? hg
        rw [(MEG.abs_step (h.inv g hmem) op).1]
        exact (h.below g hmem).step hb
  | copy i =>
    simp only [Store.step]
    split
    · exact h.below
    · rename_i g hg
      intro g' hg'
      simp only [List.mem_append, List.mem_singleton] at hg'
      rcases hg' with h1 | rfl
      · exact h.below g' h1
      · have hmem := List.mem_of_getElem? hg
        rw [MEG.abs_copy (h.inv g hmem) (MEG.kindOK_of_abs (h.kind g hmem))]
        exact h.below g hmem
  | subgraph i ns =>
    simp only [Store.step]
    split
    · exact h.below
    · rename_i g hg
      intro g' hg'
      simp only [List.mem_append, List.mem_singleton] at hg'
      rcases hg' with h1 | rfl
      · exact h.below g' h1
      · have hmem := List.mem_of_getElem? hg
        rw [MEG.abs_subgraph (h.inv g hmem) (MEG.kindOK_of_abs (h.kind g hmem))]
        refine ⟨fun v hv => ?_, (h.below g hmem).2⟩
        simp only [AG.subgraphS, List.contains_eq_mem, decide_eq_true_eq] at hv
        exact hb v hv

theorem Store.good_run {n m : Nat} (ops : List Op) (hw : ∀ op ∈ ops, op.WellKinded) (hb : ∀ op ∈ ops, op.Below n m) :
    ∀ r ∈ Store.run [] ops, r.1.Good n m := by
  have : ∀ s : Store, s.Good n m → ∀ r ∈ Store.run s ops, r.1.Good n m := by
    induction ops with
    | nil => intro s _ r hr; simp [Store.run] at hr
    | cons op ops ih =>
      intro s h r hr
      have h1 := h.step (hw op (by simp)) (hb op (by simp))
      simp only [Store.run, List.mem_cons] at hr
      rcases hr with rfl | hr
      · exact h1
      · exact ih (fun o ho => hw o (by simp [ho])) (fun o ho => hb o (by simp [ho])) _ h1 r hr
  exact this [] ⟨by intro g hg; simp at hg, by intro g hg; simp at hg, by intro g hg; simp at hg⟩

/-- **C02, capstone**: for *every* history over the node universe `0..n-1` and the edge-type universe
    `0..m-1` (default kinds on the ADMG names), after *every* step – accepted or rejected – *every* read
    query of *every* live object of the model equals the answer the specification computes from the
    abstract node set and per-layer edge sets, and the same calls raise.  (The two sides are exactly the
    two traces `c02m` / `c02s` the driver prints.) -/
theorem Store.obs_run (ops : List Op) (n m : Nat) (hw : ∀ op ∈ ops, op.WellKinded) (hb : ∀ op ∈ ops, op.Below n m) :
    (Store.run [] ops).map (fun r => (r.1.map (·.obs n m), r.2)) =
      (AStore.run [] ops).map (fun r => (r.1.map (·.obs n m), r.2)) := by
  rw [← Store.run_refines ops hw, List.map_map]
  apply List.map_congr_left
  intro r hr
  have hg := Store.good_run ops hw hb r hr
  simp only [Function.comp, Prod.mk.injEq, and_true, Store.abs, List.map_map]
  apply List.map_congr_left
  intro g hgm
  have hbl := MEG.below_of_abs (hg.below g hgm)
  exact MEG.obs_eq (hg.inv g hgm) hbl.1 hbl.2

end C02
