import Pw.C02.Model
import Pw.C02.Spec

/-! # C02 observations

`GObs` is the canonical record of *every* read query of one object over the node universe `0..n-1`
and the edge-type universe `0..m-1`.  `MEG.obs` computes it from the model by mirroring the Python
query (set-valued answers are canonicalised to their characteristic list over the universe),
`AG.obs` computes it from the abstract edge sets.  The refinement theorem is `MEG.obs g = AG.obs (abs g)`. -/
namespace C02

/-- attribute keys that are observed -/
def akeys : List Nat := [0, 1]

structure LObs where
  name : Nat
  kind : Kind
  lnodes : List Nat                               -- `get_graphs(t).nodes`
  edges : List (Nat × Nat × List (Option Nat))    -- `edges(data=True)[t]`
  adj : List (Nat × List Nat)                     -- `adj[t]`
  degree : List (Nat × Nat)                       -- `degree()[t]`
  hasT : List Bool                                -- `has_edge(u, v, t)`, `get_edge_data(u, v)[t]`
  nEdges : Nat                                    -- `number_of_edges(edge_type=t)`
  sizeT : Nat                                     -- `size(edge_type=t)`
deriving DecidableEq, Repr

structure GObs where
  nodes : List (Nat × List (Option Nat))          -- `nodes(data=True)`
  gattr : List (Option Nat)                       -- `graph`
  layers : List LObs
  hasAny : List Bool                              -- `has_edge(u, v)`
  nEdgesAll : Nat                                 -- `number_of_edges()`
  nEdgesUV : List Nat                             -- `number_of_edges(u, v)` for u, v nodes
  sizeAll : Nat                                   -- `size()`
  nbrs : List (Nat × List Nat)                    -- `neighbors(v)`
  toUnd : List (Nat × Nat)                        -- `to_undirected().edges`
  toDir : List (Nat × Nat)                        -- `to_directed().edges`
deriving DecidableEq, Repr

def pairs (n : Nat) : List (Nat × Nat) := (List.range n).flatMap fun u => (List.range n).map fun v => (u, v)

/-- stored attribute dict of the edge `u,v` -/
def Layer.find (L : Layer) (u v : Nat) : Option Attr := (L.edges.find? fun e => same L.kind e.1 (u, v)).map (·.2)

def Layer.obs (L : Layer) (t n : Nat) : LObs :=
  { name := t, kind := L.kind,
    lnodes := (List.range n).filter L.nodes.contains,
    edges := (pairs n).filterMap fun p =>
      if L.kind == .und && p.2 < p.1 then none else (L.find p.1 p.2).map fun a => (p.1, p.2, akeys.map (Attr.get a)),
    adj := ((List.range n).filter L.nodes.contains).map fun v =>
      (v, (List.range n).filter fun w => (L.adj v).any (·.1 == w)),
    degree := ((List.range n).filter L.nodes.contains).map fun v => (v, L.degree v),
    hasT := (pairs n).map fun p => L.has p.1 p.2,
    nEdges := L.numEdges,
    sizeT := (L.nodes.map L.degree).sum / 2 }

def MEG.obs (g : MEG) (n m : Nat) : GObs :=
  let ns := (List.range n).filter g.nodeIds.contains
  { nodes := (List.range n).filterMap fun v => (List.lookup v g.nodes).map fun a => (v, akeys.map (Attr.get a)),
    gattr := akeys.map (Attr.get g.gattr),
    layers := (List.range m).filterMap fun t => (g.layer? t).map fun L => L.obs t n,
    hasAny := (pairs n).map fun p => g.hasEdgeAny p.1 p.2,
    nEdgesAll := g.numEdgesAll,
    nEdgesUV := ((pairs n).filter fun p => ns.contains p.1 && ns.contains p.2).map fun p => g.numEdgesUV p.1 p.2,
    sizeAll := g.sizeAll,
    nbrs := ns.map fun v => (v, (List.range n).filter (g.neighbors v).contains),
    toUnd := (pairs n).filter fun p => p.1 ≤ p.2 && (g.adjPairs.contains p || g.adjPairs.contains (p.2, p.1)),
    toDir := (pairs n).filter g.adjPairs.contains }

def AG.lobs (a : AG) (t : Nat) (k : Kind) (n : Nat) : LObs :=
  let ns := (List.range n).filter a.node
  { name := t, kind := k,
    lnodes := ns,
    edges := (pairs n).filterMap fun p =>
      if k == .und && p.2 < p.1 then none
      else if a.edge t p.1 p.2 then some (p.1, p.2, akeys.map (a.eattr t p.1 p.2)) else none,
    adj := ns.map fun v => (v, (List.range n).filter fun w => a.edge t v w),
    degree := ns.map fun v => (v, a.degreeT n t v),
    hasT := (pairs n).map fun p => a.edge t p.1 p.2,
    nEdges := a.numEdgesT n t,
    sizeT := a.numEdgesT n t }

def AG.obs (a : AG) (n m : Nat) : GObs :=
  let ns := (List.range n).filter a.node
  { nodes := (List.range n).filterMap fun v => if a.node v then some (v, akeys.map (a.nattr v)) else none,
    gattr := akeys.map a.gattr,
    layers := (List.range m).filterMap fun t => (a.kind t).map fun k => a.lobs t k n,
    hasAny := (pairs n).map fun p => a.hasEdgeAny m p.1 p.2,
    nEdgesAll := a.numEdgesAll n m,
    nEdgesUV := ((pairs n).filter fun p => ns.contains p.1 && ns.contains p.2).map fun p => a.numEdgesUV m p.1 p.2,
    sizeAll := a.sizeAll n m,
    nbrs := ns.map fun v => (v, (List.range n).filter fun w => a.neighbor m v w),
    toUnd := (pairs n).filter fun p => p.1 ≤ p.2 && a.toUndirected m p.1 p.2,
    toDir := (pairs n).filter fun p => a.toDirected m p.1 p.2 }

end C02
