"""C02: the mixed-edge container (MixedEdgeGraph, ADMG) is consistent after any history.

A *history* is a list of op tokens (see lean/Pw/C02/Driver.lean) over a store of live objects
addressed by handle.  The real classes and the compiled Lean driver execute the same history; after
every step *every read query* of *every live object* is taken and canonicalised into one string per
object.  The implementation is compared with the abstract specification (`c02s`: node set + per-layer
edge sets, every query defined on them; Lean `C02.AG`) and with the branch-by-branch model (`c02m`,
Lean `C02.MEG`, proved to refine the spec).  impl != spec => VIOLATION (shrunk by ddmin on the op
list); impl == spec but != model => correspondence break."""
import itertools
import os
import time

from . import common as C
from .shrink import shrink_ops

PID = "C02"
N = 4            # node universe 0..3
M = 5            # edge-type universe: the four default names + one name that never exists
NAMES = ["directed", "bidirected", "undirected", "circle", "foo"]
KIND = {0: "d", 1: "u", 2: "u", 3: "d"}
AKEYS = ["w", "c"]


# ----------------------------------------------------------------------------- op tokens
def t_attr(a):
    return "+".join("%d.%d" % (k, v) for k, v in sorted(a.items()))


def p_attr(s):
    return {AKEYS[int(kv.split(".")[0])]: int(kv.split(".")[1]) for kv in s.split("+") if kv}


def p_nats(s):
    return [int(x) for x in s.split(",") if x != ""]


def p_pairs(s):
    return [tuple(int(x) for x in p.split("-")) for p in s.split(",") if p]


def p_et(s):
    return "all" if s == "a" else NAMES[int(s)]


def line(fn, ops):
    return "%s n=%d m=%d ops=%s" % (fn, N, M, ";".join(ops))


# ----------------------------------------------------------------------------- implementation side
def _attrs(d):
    return ".".join(str(d[k]) if k in d else "_" for k in AKEYS)


def _bits(bs):
    return "".join("1" if b else "0" for b in bs)


def _adj(rows):
    return "/".join("%d:%s" % (v, ",".join(map(str, ws))) for v, ws in rows)


def observe(G):
    """every read query of one object, canonical; `!…` marks an exception or an internal
    inconsistency between two queries that must agree (never printed by the Lean side)"""
    import networkx as nx
    rng = range(N)
    bad = []

    def q(f, *a, **k):
        try:
            return f(*a, **k)
        except Exception as e:  # a read query inside the quantifier must not raise
            bad.append("%s:%s" % (getattr(f, "__name__", "q"), type(e).__name__))
            return None
    nlist = list(G.nodes)
    nodes = sorted(nlist)
    if len(nlist) != len(set(nlist)) or len(G) != len(nlist) or G.number_of_nodes() != len(nlist) \
            or G.order() != len(nlist):
        bad.append("node-count")
    if [v for v in rng if G.has_node(v)] != nodes or [v for v in rng if v in G] != nodes:
        bad.append("has_node")
    nd = dict(G.nodes(data=True))
    out = ["N:" + ",".join("%d@%s" % (v, _attrs(nd[v])) for v in nodes),
           "G:" + _attrs(G.graph),
           "HA:" + _bits(q(G.has_edge, u, v) for u in rng for v in rng),
           "NE:%s" % q(G.number_of_edges),
           "NUV:" + ",".join(str(q(G.number_of_edges, u, v)) for u in nodes for v in nodes),
           "SZ:%s" % q(G.size)]
    nb = []
    for v in nodes:
        r = q(lambda: list(G.neighbors(v)))
        if r is not None and len(r) != len(set(r)):
            bad.append("neighbors-dup")
        nb.append((v, sorted(r or [])))
    out.append("NB:" + _adj(nb))
    U = q(G.to_undirected)
    if U is not None:
        if sorted(U.nodes) != nodes or any(_attrs(U.nodes[v]) != _attrs(nd[v]) for v in nodes) \
                or U.is_directed() or _attrs(U.graph) != _attrs(G.graph):
            bad.append("to_undirected-nodes")
        es = sorted((min(a, b), max(a, b)) for a, b in U.edges)
        if len(es) != len(set(es)):
            bad.append("to_undirected-dup")
        out.append("TU:" + C.fmt_pairs(es))
    else:
        out.append("TU:!")
    D = q(G.to_directed)
    if D is not None:
        if sorted(D.nodes) != nodes or any(_attrs(D.nodes[v]) != _attrs(nd[v]) for v in nodes) \
                or not D.is_directed() or _attrs(D.graph) != _attrs(G.graph):
            bad.append("to_directed-nodes")
        out.append("TD:" + C.fmt_pairs(sorted(D.edges)))
    else:
        out.append("TD:!")
    ets = list(G.edge_types)
    if len(ets) != len(set(ets)) or any(e not in NAMES for e in ets) or G.number_of_edge_types() != len(ets):
        bad.append("edge_types")
    edata = q(G.edges, data=True) or {}
    eplain = q(G.edges) or {}
    adj = q(lambda: G.adj) or {}
    deg = q(G.degree) or {}
    for d, nm in ((edata, "edges(data)"), (eplain, "edges"), (adj, "adj"), (deg, "degree")):
        if sorted(d.keys()) != sorted(ets):
            bad.append(nm + "-keys")
    ged = {}
    for u in rng:
        for v in rng:
            r = q(G.get_edge_data, u, v)
            if r is None or sorted(r.keys()) != sorted(ets):
                bad.append("get_edge_data-keys")
                r = {}
            ged[u, v] = r
    for t, name in enumerate(NAMES):
        if name not in ets:
            continue
        L = G.get_graphs(name)
        und = not L.is_directed()
        lay = ["L%d=%s" % (t, "u" if und else "d"), "V:" + ",".join(map(str, sorted(L.nodes)))]
        if len(list(L.nodes)) != len(set(L.nodes)):
            bad.append("layer-node-dup")
        es = []
        for a, b, d in edata.get(name, []):
            if und and b < a:
                a, b = b, a
            es.append((a, b, _attrs(d)))
        es.sort()
        if len(set((a, b) for a, b, _ in es)) != len(es):
            bad.append("edges-dup")
        pl = sorted(((min(a, b), max(a, b)) if und else (a, b)) for a, b in eplain.get(name, []))
        if pl != [(a, b) for a, b, _ in es]:
            bad.append("edges-vs-edges(data)")
        lay.append("E:" + ",".join("%d-%d@%s" % e for e in es))
        ad = adj.get(name, {})
        lay.append("A:" + _adj((v, sorted(ad[v])) for v in sorted(ad)))
        dg = deg.get(name, [])
        lay.append("D:" + ",".join("%d:%d" % (v, d) for v, d in sorted(dg)))
        hs = [q(G.has_edge, u, v, name) for u in rng for v in rng]
        lay.append("H:" + _bits(hs))
        if [ged[u, v].get(name) is not None for u in rng for v in rng] != [bool(h) for h in hs]:
            bad.append("get_edge_data-vs-has_edge")
        if [q(G.number_of_edges, u, v, name) for u in nodes for v in nodes] != \
                [1 if q(G.has_edge, u, v, name) else 0 for u in nodes for v in nodes]:
            bad.append("number_of_edges(u,v,t)")
        lay.append("n:%s" % q(G.number_of_edges, edge_type=name))
        lay.append("s:%s" % q(G.size, edge_type=name))
        out.append(" ".join(lay))
    s = " ".join(out)
    if bad:
        s += " !" + ",".join(sorted(set(bad)))
    return s


def apply_op(store, tok):
    """execute one op on the real objects; returns ok (False = an exception escaped)"""
    import networkx as nx
    import pywhy_graphs.networkx as pywhy_nx
    f = tok.split(":")
    k = f[0]
    try:
        if k == "new":
            if f[1] == "1":
                from pywhy_graphs import ADMG
                store.append(ADMG())
            else:
                store.append(pywhy_nx.MixedEdgeGraph())
            return True
        h = int(f[1])
        if h >= len(store):
            return False
        G = store[h]
        if k == "an":
            G.add_node(int(f[2]), **p_attr(f[3]))
        elif k == "ans":
            ns = p_nats(f[2])
            if not p_attr(f[3]) and G.edge_types and sum(ns) % 3 == 0:
                G.update(nodes=ns)              # the same addition through update()
            else:
                G.add_nodes_from(ns, **p_attr(f[3]))
        elif k == "rn":
            G.remove_node(int(f[2]))
        elif k == "rns":
            ns = p_nats(f[2])
            if set(ns) >= set(range(N)) and not G.graph:
                # removing every node of the universe = clear() when there are no graph attributes (clear()
                # also empties G.graph); the model sees the same `rns` token
                G.clear()
            else:
                G.remove_nodes_from(ns)
        elif k == "ae":
            G.add_edge(int(f[2]), int(f[3]), p_et(f[4]), **p_attr(f[5]))
        elif k == "aes":
            es = p_pairs(f[2])
            if sum(a + b for a, b in es) % 2 == 0:     # same call with 3-tuples (u, v, {})
                es = [(a, b, {}) for a, b in es]
            if not p_attr(f[4]) and (len(es) + sum(e[0] for e in es)) % 3 == 1:
                G.update(edges=es, edge_type=p_et(f[3]))     # the same addition through update()
            else:
                G.add_edges_from(es, p_et(f[3]), **p_attr(f[4]))
        elif k == "re":
            G.remove_edge(int(f[2]), int(f[3]), p_et(f[4]))
        elif k == "res":
            es = p_pairs(f[2])
            if sum(a + b for a, b in es) % 2 == 1:     # 3-tuples (u, v, key): the key is ignored
                es = [(a, b, 0) for a, b in es]
            G.remove_edges_from(es, p_et(f[3]))
        elif k == "ce":
            G.clear_edges(p_et(f[2]))
        elif k == "aet":
            gr = nx.DiGraph() if f[3] == "d" else nx.Graph()
            gr.add_nodes_from(p_nats(f[4]))
            gr.add_edges_from(p_pairs(f[5]))
            if (len(f[4]) + len(f[5])) % 2 == 1:
                G.add_edge_types_from([gr], [NAMES[int(f[2])]])      # the bulk form with one member
            else:
                G.add_edge_type(gr, NAMES[int(f[2])])
        elif k == "ret":
            if list(G.edge_types) == [NAMES[int(f[2])]]:
                G.clear_edge_types()        # removing the last edge type = removing all of them
            else:
                G.remove_edge_type(NAMES[int(f[2])])
        elif k == "ga":
            G.graph.update(p_attr(f[2]))
        elif k == "cp":
            store.append(G.copy())
        elif k == "sg":
            store.append(G.subgraph(p_nats(f[2])))
        else:
            raise RuntimeError("bad token " + tok)
        return True
    except RuntimeError as e:
        if "bad token" in str(e):
            raise
        return False
    except Exception:
        return False


def compress(blocks):
    """same compression as the Lean driver: an object whose observation equals its previous one is `=`"""
    out, prev = [], []
    for ok, obs in blocks:
        cells = ["=" if i < len(prev) and prev[i] == o else o for i, o in enumerate(obs)]
        out.append(("ok" if ok else "err") + "".join("#" + c for c in cells))
        prev = obs
    return out


def impl(case):
    """run a history on the real classes; list of blocks (one per step).  `watch` (optional) lists
    the steps at which the objects are observed at all - at other steps no read query is issued, so
    that state which is only created by a read (cached views) is exercised both ways."""
    ops = case["ops"]
    watch = set(case["watch"]) if case.get("watch") is not None else None
    store, blocks = [], []
    for i, tok in enumerate(ops):
        ok = apply_op(store, tok)
        if watch is None or i in watch:
            blocks.append((ok, [observe(G) for G in store]))
        else:
            blocks.append((ok, None))
    return blocks


def lean_blocks(ans):
    """undo the compression of a driver answer -> list of (ok, [obs])"""
    out, prev = [], []
    for b in (ans.split("|") if ans else []):
        cells = b.split("#")
        obs = [prev[i] if c == "=" and i < len(prev) else c for i, c in enumerate(cells[1:])]
        out.append((cells[0] == "ok", obs))
        prev = obs
    return out


def diff(case, got, ref):
    """first step at which the implementation and a Lean trace differ, or None"""
    if len(ref) != len(got):
        return (0, "length", "driver answered %d steps for %d ops" % (len(ref), len(got)))
    for i, ((ok, obs), (rok, robs)) in enumerate(zip(got, ref)):
        if ok != rok:
            return (i, "outcome", "op %s: implementation %s, expected %s" % (
                case["ops"][i], "returned" if ok else "raised", "returns" if rok else "raises"))
        if obs is None:
            continue
        if len(obs) != len(robs):
            return (i, "objects", "%d live objects, expected %d" % (len(obs), len(robs)))
        for h, (a, b) in enumerate(zip(obs, robs)):
            if a != b:
                fa, fb = a.split(" "), b.split(" ")
                fields = [(x, y) for x, y in itertools.zip_longest(fa, fb) if x != y][:4]
                return (i, "observation", {"after_op": case["ops"][i], "handle": h,
                                           "differing_fields(impl,expected)": fields})
    return None


def evaluate(case, drv=None, answers=None):
    got = impl(case)
    if answers is None:
        answers = (drv.ask(line("c02s", case["ops"])), drv.ask(line("c02m", case["ops"])))
    spec, model = lean_blocks(answers[0]), lean_blocks(answers[1])
    return diff(case, got, spec), diff(case, got, model)


# ----------------------------------------------------------------------------- generators
def features(ops):
    """shapes named in why_tests_cant that a history contains"""
    f = set()
    seen_mut = False
    removed = set()
    copied = {}
    nobj = 0
    for i, tok in enumerate(ops):
        p = tok.split(":")
        k = p[0]
        if k == "new":
            nobj += 1
            continue
        if k in ("cp", "sg"):
            copied[nobj] = int(p[1])
            nobj += 1
            continue
        h = int(p[1])
        if k == "aet" and i > 1:
            f.add("late_layer")          # a layer added after the object has been queried
        if k in ("re", "res", "rn", "rns", "ce", "ret"):
            removed.add(h)
        if k in ("ae", "aes", "aet") and h in removed:
            f.add("remove_then_readd")
        if k not in ("cp", "sg", "new"):
            if h in copied:
                f.add("copy_mutated")
            if h in copied.values():
                f.add("original_mutated_after_copy")
        seen_mut = True
    return f


ATTRS = [{}, {}, {}, {0: 1}, {0: 2}, {1: 5}, {0: 3, 1: 4}]


def rand_history(rng, length, cls=None):
    """structured random history; keeps a light shadow (which layers exist per object) only to aim
    the ops - the expected results come from Lean"""
    cls = rng.choice((0, 1)) if cls is None else cls
    ops = ["new:%d" % cls]
    layers = [set([0, 1, 2]) if cls else set()]
    klass = [cls]

    def node():
        return rng.randrange(N)

    def pair():
        u = node()
        v = node() if rng.random() < 0.12 else rng.choice([x for x in range(N) if x != u])
        return u, v

    def et(h, bad=0.06):
        r = rng.random()
        if r < bad:
            return rng.choice([t for t in range(M) if t not in layers[h]] or [4])
        if r < 0.2 or not layers[h]:
            return "a"
        return rng.choice(sorted(layers[h]))

    def attr():
        return t_attr(rng.choice(ATTRS))
    while len(ops) < length:
        h = rng.randrange(len(layers))
        r = rng.random()
        if r < 0.05 and len(layers) < 4:
            c = rng.choice((0, 1))
            ops.append("new:%d" % c)
            layers.append(set([0, 1, 2]) if c else set())
            klass.append(c)
        elif r < 0.13:
            missing = [t for t in range(4) if t not in layers[h]]
            if missing and rng.random() < 0.9:
                t = rng.choice(missing)
                ns = rng.sample(range(N), rng.choice((0, 0, 1, 2)))
                es = [pair() for _ in range(rng.choice((0, 0, 1, 2)))]
                ops.append("aet:%d:%d:%s:%s:%s" % (h, t, KIND[t], ",".join(map(str, ns)), C.fmt_pairs(es)))
                layers[h].add(t)
            else:  # duplicate name -> rejected
                t = rng.randrange(4)
                if t in layers[h]:
                    ops.append("aet:%d:%d:%s::" % (h, t, KIND[t]))
        elif r < 0.17:
            t = rng.randrange(M) if rng.random() < 0.3 else (rng.choice(sorted(layers[h])) if layers[h] else 4)
            ops.append("ret:%d:%d" % (h, t))
            layers[h].discard(t)
        elif r < 0.40:
            u, v = pair()
            ops.append("ae:%d:%d:%d:%s:%s" % (h, u, v, et(h), attr()))
        elif r < 0.47:
            es = [pair() for _ in range(rng.choice((1, 2, 3)))]
            if rng.random() < 0.3:
                es.append((es[0][1], es[0][0]))
            ops.append("aes:%d:%s:%s:%s" % (h, C.fmt_pairs(es), et(h), attr()))
        elif r < 0.57:
            u, v = pair()
            ops.append("re:%d:%d:%d:%s" % (h, u, v, et(h)))
        elif r < 0.61:
            es = [pair() for _ in range(rng.choice((1, 2, 3)))]
            ops.append("res:%d:%s:%s" % (h, C.fmt_pairs(es), et(h)))
        elif r < 0.68:
            ops.append("an:%d:%d:%s" % (h, node(), attr()))
        elif r < 0.71:
            ops.append("ans:%d:%s:%s" % (h, ",".join(map(str, rng.sample(range(N), rng.choice((1, 2, 3))))), attr()))
        elif r < 0.78:
            ops.append("rn:%d:%d" % (h, node()))
        elif r < 0.81:
            if rng.random() < 0.25:
                ops.append("rns:%d:%s" % (h, ",".join(map(str, range(N)))))     # everything: run as clear()
            else:
                ops.append("rns:%d:%s" % (h, ",".join(map(str, rng.sample(range(N), rng.choice((1, 2)))))))
        elif r < 0.84:
            ops.append("ce:%d:%s" % (h, et(h)))
        elif r < 0.87:
            ops.append("ga:%d:%s" % (h, attr()))
        elif r < 0.94 and len(layers) < 4:
            ops.append("cp:%d" % h)
            layers.append(set(layers[h]))
            klass.append(klass[h])
        elif len(layers) < 4:
            # subgraph over nodes that are present: the harness does not know the node set, so it
            # first (re-)adds the nodes it is going to ask for (keeps the call inside the quantifier)
            ns = rng.sample(range(N), rng.choice((1, 2, 3)))
            ops.append("ans:%d:%s:" % (h, ",".join(map(str, ns))))
            ops.append("sg:%d:%s" % (h, ",".join(map(str, ns))))
            layers.append(set(layers[h]))
            klass.append(klass[h])
    return ops


ALPHABET = {
    0: ["aet:0:0:d::", "aet:0:1:u:2:", "ae:0:0:1:0:", "ae:0:1:0:1:0.1", "ae:0:0:1:a:", "ae:0:1:2:4:",
        "re:0:0:1:0", "re:0:1:0:a", "rn:0:0", "an:0:2:0.2", "ce:0:a", "ret:0:0", "cp:0", "sg:0:0,1",
        "ae:1:0:1:a:1.7", "rn:1:1"],
    1: ["aet:0:3:d::", "ret:0:0", "ae:0:0:1:0:", "ae:0:1:0:1:0.1", "ae:0:0:1:a:", "ae:0:1:2:4:",
        "re:0:0:1:0", "re:0:1:0:a", "rn:0:0", "an:0:2:0.2", "ce:0:a", "ae:0:1:0:3:", "cp:0", "sg:0:0,1",
        "ae:1:0:1:a:1.7", "rn:1:1"],
}


def exhaustive(depth):
    """all histories `new:c` + every word of length <= depth over the reduced alphabet"""
    for c in (0, 1):
        for d in range(1, depth + 1):
            for w in itertools.product(ALPHABET[c], repeat=d):
                # sg needs its nodes present (quantifier): 0 and 1 were put in before and 0 not removed
                if any(t.startswith("sg") and (not any(x.startswith(("ae:0:0:1", "ae:0:1:0")) for x in w[:i])
                                               or "rn:0:0" in w[:i]) for i, t in enumerate(w)):
                    continue
                yield {"ops": ["new:%d" % c] + list(w), "src": "exh"}


def _impl_chunk(case):
    try:
        return impl(case)
    except Exception as e:  # harness problem, not a finding
        return "crash:" + repr(e)


def known_match(ctx, case, d):
    return None


def run(ctx):
    ev, out, rng, tier = ctx["ev"], ctx["out"], ctx["rng"], ctx["tier"]
    ev.rule = ("histories over a store of MixedEdgeGraph/ADMG objects, node universe 0..3, edge types "
               "directed/circle (DiGraph) and bidirected/undirected (Graph) plus one never-existing name; after "
               "every op every read query of every live object is compared with the Lean spec and model. "
               "exhaustive: `new` + every word of length<=3 over a 16-letter alphabet, both classes (thorough adds the "
               "length-4 words in random order under a wall-clock budget); random: length<=40, a quarter with reads "
               "only at a random subset of steps; a guaranteed minimum always runs, the rest under the budget "
               "(counts of what ran are in input_histogram / histories_not_run_soft_budget). evaluations = histories; "
               "non-trivial = the history contains at least one of: a layer added after the object was queried, "
               "remove-then-re-add on one object, a copy/subgraph mutated afterwards, an original mutated after "
               "being copied (counted per distinct history)")
    ev.assumptions = ["subgraph is called with nodes present (the generator adds them first)",
                      "exception classes are not compared, only raised / returned",
                      "number_of_edges(u, v) and neighbors(v) are only queried for nodes of the graph",
                      "get_edge_data is read as present/absent per edge type (DESIGN C02)",
                      "attribute values are ints (aliasing of mutable attribute values is documented shallow-copy behaviour)"]
    nrand = 2000 if tier == "quick" else 50000
    nmin = 600 if tier == "quick" else 6000      # random histories that always run
    rnd = []
    for i in range(nrand):
        ops = rand_history(rng, rng.choice((8, 15, 25, 40)))
        case = {"ops": ops, "src": "rnd"}
        if i % 4 == 3:
            case["watch"] = sorted(rng.sample(range(len(ops)), max(1, len(ops) // 4)) + [len(ops) - 1])
            case["src"] = "rnd-sparse"
        rnd.append(case)
    fixed = [dict(c, src="corpus") for c in C.load_corpus(PID)]
    fixed += rnd[:nmin]
    fixed += list(exhaustive(3))
    # budgeted part: (thorough) the depth-4 words in a seeded random order, interleaved with the rest of
    # the random stream; cut at a soft wall-clock budget so that the tier's time bound holds on a loaded
    # machine - what was actually run is counted in the evidence
    extra = []
    if tier == "thorough":
        extra = [c for c in exhaustive(4) if len(c["ops"]) == 5]
        for c in extra:
            c["src"] = "exh4"
        rng.shuffle(extra)
    rest = rnd[nmin:]
    budget = []
    i = j = 0
    while i < len(extra) or j < len(rest):
        budget += extra[i:i + 2000] + rest[j:j + 500]
        i += 2000
        j += 500
    cases = fixed + budget
    n_fixed = len(fixed)
    # cross-check of the driver's tabulated specification run against `AStore.run` literally
    xs = rnd[:150 if tier == "quick" else 1500]
    a1 = C.lean_batch([line("c02s", c["ops"]) for c in xs], jobs=8)
    a2 = C.lean_batch([line("c02sraw", c["ops"]) for c in xs], jobs=8)
    if a1 != a2:
        raise RuntimeError("driver: tabulated spec run differs from AStore.run")
    ev.extra["spec_tabulation_crosschecked_histories"] = len(xs)
    bad_spec, bad_model = [], []
    steps = 0
    CH = 2000
    soft = time.time() + float(os.environ.get("VERIF_C02_SOFT_S") or (35 if tier == "quick" else 400))
    # Constructor stream (implementation vs implementation; the add_edges_from side is the kind of history that
    # the main stream compares with the Lean model): an ADMG built through its constructor from edge lists or
    # networkx graphs - including a DiGraph handed in for a symmetric layer - must observe exactly like the
    # ADMG built by adding the same edges.
    import networkx as _nx
    from pywhy_graphs import ADMG as _ADMG
    ctor_bad = None
    for t in range(60 if tier == "quick" else 600):
        D = sorted({tuple(sorted(rng.sample(range(N), 2))) for _ in range(rng.choice((0, 1, 2, 3)))})
        B = [tuple(rng.sample(range(N), 2)) for _ in range(rng.choice((0, 1, 2)))]
        Uu = [tuple(rng.sample(range(N), 2)) for _ in range(rng.choice((0, 0, 1)))]
        try:
            G1 = _ADMG()
            G1.add_edges_from(D, "directed")
            G1.add_edges_from(B, "bidirected")
            G1.add_edges_from(Uu, "undirected")
            mode = t % 3
            wrapB = (list, _nx.Graph, _nx.DiGraph)[mode]
            wrapU = (_nx.DiGraph, list, _nx.Graph)[mode]
            Dg = _nx.DiGraph(D) if mode else list(D)
            Bg = wrapB(B)
            G2 = _ADMG(incoming_directed_edges=Dg, incoming_bidirected_edges=Bg, incoming_undirected_edges=wrapU(Uu))
            o1, o2 = observe(G1), observe(G2)
            if o1 == o2:
                # the graph must not share structure with the objects it was built from
                for X in (Dg, Bg):
                    if hasattr(X, "add_edge"):
                        X.add_edge(0, N + 7)
                        X.add_node(N + 8)
                if observe(G2) != o2:
                    o2 = "aliased-with-constructor-argument:" + observe(G2)
        except Exception as e:
            o1, o2 = "ok", "raised:" + type(e).__name__
        ev.count("ctor-stream")
        if o1 != o2 and ctor_bad is None:
            ctor_bad = {"D": D, "B": B, "U": Uu, "bidirected_given_as": wrapB.__name__, "undirected_given_as": wrapU.__name__,
                        "built_by_add_edges_from": o1, "built_by_constructor": o2}
    if ctor_bad is not None:
        out.violation({"ops": ["ctor-stream"], "ctor": ctor_bad},
                      {"kind": "constructor", "detail": "ADMG(incoming_*_edges=...) does not observe like the ADMG built "
                       "by add_edges_from with the same edges", **{k: str(v)[:300] for k, v in ctor_bad.items()}})
    ev.extra["histories_generated"] = len(cases)
    bounds = list(range(0, n_fixed, CH)) + list(range(n_fixed, len(cases), 2500)) + [len(cases)]
    for lo, hi in zip(bounds, bounds[1:]):
        if time.time() > ctx["deadline"] or (lo >= n_fixed and time.time() > soft):
            ev.extra["histories_not_run_soft_budget"] = len(cases) - lo
            break
        chunk = cases[lo:min(hi, n_fixed) if lo < n_fixed else hi]
        ans = C.lean_batch([line("c02s", c["ops"]) for c in chunk] + [line("c02m", c["ops"]) for c in chunk],
                           jobs=16)
        gots = C.pmap(_impl_chunk, chunk, chunksize=32)
        for j, (case, got) in enumerate(zip(chunk, gots)):
            if isinstance(got, str):
                # the read queries of the implementation produced something that cannot even be
                # canonicalised (foreign / non-comparable "nodes", broken views): on the unchanged tree this
                # never happens, so it is reported as a failing history, not as an infrastructure error
                ops = case["ops"]
                k = len(ops)
                for kk in range(1, len(ops) + 1):
                    if isinstance(_impl_chunk(dict(case, ops=ops[:kk])), str):
                        k = kk
                        break
                out.violation(dict(case, ops=ops[:k]),
                              {"kind": "observation-crash", "detail": "a read query returned a value that could not be "
                               "canonicalised / raised inside the observation of the state: " + got})
                bad_spec.append((case, (k - 1, "observation-crash")))
                continue
            spec, model = lean_blocks(ans[j]), lean_blocks(ans[len(chunk) + j])
            ds, dm = diff(case, got, spec), diff(case, got, model)
            fs = features(case["ops"])
            ev.case(case, nontrivial=bool(fs), sample_every=3000)
            ev.count("src:" + case["src"])
            for f in fs:
                ev.count("shape:" + f)
            ev.count("ops", len(case["ops"]))
            ev.count("rejected_ops", sum(1 for ok, _ in got if not ok))
            steps += sum(len(o) for _, o in got if o is not None)
            if ds:
                bad_spec.append((case, ds))
            elif dm:
                bad_model.append((case, dm))
        if bad_spec:
            break
    ev.extra["object_observations_compared"] = steps
    ev.extra["queries_per_observation"] = "about 12 global + 9 per layer API calls x 16 node pairs where pair-indexed"
    ev.traces = ev.evaluations
    if bad_spec or bad_model:
        drv = C.Driver()
        try:
            seen = set()
            for which, bad in (("spec", bad_spec), ("model", bad_model)):
                # shrink the shortest few; report distinct signatures
                for case, d in sorted(bad, key=lambda cd: len(cd[0]["ops"]))[:6]:
                    idx = 0 if which == "spec" else 1

                    def fails(ops, watch=case.get("watch")):
                        return evaluate({"ops": ops}, drv)[idx] is not None
                    small = shrink_ops(case["ops"], fails)
                    c2 = {"ops": small}
                    d2 = evaluate(c2, drv)[idx]
                    if d2 is None:   # only reproducible with sparse reads
                        c2, d2 = case, d
                    sig = repr(d2[1:])[:200]
                    if sig in seen:
                        continue
                    seen.add(sig)
                    detail = {"against": which, "step": d2[0], "kind": d2[1], "detail": d2[2],
                              "lean_request": line("c02s" if which == "spec" else "c02m", c2["ops"]),
                              "original_length": len(case["ops"]), "disagreeing_histories": len(bad)}
                    if which == "spec":
                        out.violation(c2, detail)
                    else:
                        out.corr(c2, detail)
        finally:
            drv.close()


def replay(ctx, payload):
    case = payload.get("case") or payload.get("correspondence", {}).get("case")
    drv = C.Driver()
    try:
        ds, dm = evaluate(case, drv)
    finally:
        drv.close()
    print("history:", ";".join(case["ops"]))
    print("implementation vs spec :", ds)
    print("implementation vs model:", dm)
    bad = ds is not None or dm is not None
    print("REPRODUCED" if bad else "NOT-REPRODUCED")
    return 1 if bad else 0
