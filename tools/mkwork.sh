#!/bin/bash
# usage: tools/mkwork.sh <name>   -> /root/work/<name>/{verif,repo} worktrees on branches w-<name>, f-<name>
set -e
n=$1
mkdir -p /root/work/$n
git -C /verif worktree add -q /root/work/$n/verif -b w-$n
git -C /repo worktree add -q /root/work/$n/repo -b f-$n
cp -r /verif/lean/.lake /root/work/$n/verif/lean/.lake
echo "ready /root/work/$n"
