import Pw.C13.Spec

/-! # C13 — set-level lemmas about the node/edge helpers of the model -/
namespace C13

theorem mem_union {E new : List Edge} {e : Edge} : e ∈ union E new ↔ e ∈ E ∨ e ∈ new := by
  unfold union
  simp only [List.mem_append, List.mem_filter, Bool.not_eq_true', List.contains_eq_mem,
    decide_eq_false_iff_not]
  constructor
  · rintro (h | ⟨h, _⟩)
    · exact Or.inl h
    · exact Or.inr h
  · rintro (h | h)
    · exact Or.inl h
    · by_cases h' : e ∈ E
      · exact Or.inl h'
      · exact Or.inr ⟨h, h'⟩

theorem mem_diff {E rem : List Edge} {e : Edge} : e ∈ diff E rem ↔ e ∈ E ∧ e ∉ rem := by
  unfold diff
  simp [List.mem_filter]

theorem mem_homologous {m x d y : Nat} {p : Edge} :
    p ∈ homologous m x d y ↔ ∃ i, i + d ≤ m ∧ p = ((x, d + i), (y, i)) := by
  unfold homologous
  simp only [List.mem_map, List.mem_range]
  constructor
  · rintro ⟨i, hi, rfl⟩
    exact ⟨i, by omega, rfl⟩
  · rintro ⟨i, hi, rfl⟩
    exact ⟨i, by omega, rfl⟩

theorem mem_homologousBack {m x e y : Nat} {p : Edge} :
    p ∈ homologousBack m x e y ↔ ∃ k, k + e ≤ m ∧ p = ((x, k), (y, k + e)) := by
  unfold homologousBack
  simp only [List.mem_map, List.mem_range]
  constructor
  · rintro ⟨i, hi, rfl⟩
    exact ⟨i, by omega, rfl⟩
  · rintro ⟨i, hi, rfl⟩
    exact ⟨i, by omega, rfl⟩

theorem mem_addVarNodes {m : Nat} {nodes : List Node} {x : Nat} {n : Node} :
    n ∈ addVarNodes m nodes x ↔ n ∈ nodes ∨ (n.1 = x ∧ n.2 ≤ m) := by
  unfold addVarNodes
  simp only [List.mem_append, List.mem_filter, List.mem_map, List.mem_range, Bool.not_eq_true',
    List.contains_eq_mem, decide_eq_false_iff_not]
  constructor
  · rintro (h | ⟨⟨t, ht, rfl⟩, _⟩)
    · exact Or.inl h
    · exact Or.inr ⟨rfl, by simp; omega⟩
  · rintro (h | ⟨h1, h2⟩)
    · exact Or.inl h
    · by_cases h' : n ∈ nodes
      · exact Or.inl h'
      · refine Or.inr ⟨⟨n.2, by omega, ?_⟩, h'⟩
        cases n; simp_all

/-- a variable is present at every time point of the window -/
def HasVar (nodes : List Node) (m x : Nat) : Prop := ∀ b, b ≤ m → (x, b) ∈ nodes

theorem complete_addVarNodes {m : Nat} {nodes : List Node} {x : Nat} (h : Complete nodes m) :
    Complete (addVarNodes m nodes x) m := by
  intro y a hy
  rw [mem_addVarNodes] at hy
  rcases hy with hy | ⟨hy1, hy2⟩
  · obtain ⟨h1, h2⟩ := h y a hy
    exact ⟨h1, fun b hb => mem_addVarNodes.2 (Or.inl (h2 b hb))⟩
  · simp at hy1 hy2
    exact ⟨hy2, fun b hb => mem_addVarNodes.2 (Or.inr ⟨hy1, hb⟩)⟩

theorem hasVar_addVarNodes {m : Nat} {nodes : List Node} {x : Nat} :
    HasVar (addVarNodes m nodes x) m x := fun _ hb => mem_addVarNodes.2 (Or.inr ⟨rfl, hb⟩)

theorem subset_addVarNodes {m : Nat} {nodes : List Node} {x : Nat} {n : Node} (h : n ∈ nodes) :
    n ∈ addVarNodes m nodes x := mem_addVarNodes.2 (Or.inl h)

theorem HasVar.mono {nodes nodes' : List Node} {m x : Nat} (h : HasVar nodes m x)
    (hs : ∀ n, n ∈ nodes → n ∈ nodes') : HasVar nodes' m x := fun b hb => hs _ (h b hb)

theorem hasVar_of_mem {nodes : List Node} {m x a : Nat} (h : Complete nodes m) (hx : (x, a) ∈ nodes) :
    HasVar nodes m x := (h x a hx).2

/-! ## homologous copies -/

/-- every stored edge of an undirected-type layer is in storage form -/
def Canon (E : List Edge) : Prop := ∀ e ∈ E, canonUnd e = e

/-- all edges lie inside the window -/
def InWin (m : Nat) (E : List Edge) : Prop := ∀ e ∈ E, e.1.2 ≤ m ∧ e.2.2 ≤ m

theorem canonUnd_forward (e : Edge) : (canonUnd e).2.2 ≤ (canonUnd e).1.2 := by
  unfold canonUnd swap
  split
  · simp; omega
  · split
    · simp; omega
    · omega

theorem canonUnd_idem (e : Edge) : canonUnd (canonUnd e) = canonUnd e := by
  obtain ⟨⟨x, a⟩, ⟨y, b⟩⟩ := e
  unfold canonUnd swap
  simp only
  split
  · simp only; split
    · omega
    · split
      · omega
      · rfl
  · split
    · simp only; split
      · omega
      · split
        · omega
        · rfl
    · rename_i h1 h2
      simp

/-- the copies of an edge, described: a base edge `((x, d + i), (y, i))` (forward) or
`((x, k), (y, k + e))` (only for a directed-type layer asked about a backward edge) -/
theorem mem_copies_und {m : Nat} {e p : Edge} :
    p ∈ copies .und m e ↔ ∃ i, i + ((canonUnd e).1.2 - (canonUnd e).2.2) ≤ m ∧
      p = (((canonUnd e).1.1, ((canonUnd e).1.2 - (canonUnd e).2.2) + i), ((canonUnd e).2.1, i)) := by
  simp only [copies, mem_homologous]

theorem mem_copies_fwd {k : Kind} {m : Nat} {e p : Edge} (hk : k ≠ .und) (hf : e.2.2 ≤ e.1.2) :
    p ∈ copies k m e ↔ ∃ i, i + (e.1.2 - e.2.2) ≤ m ∧ p = ((e.1.1, (e.1.2 - e.2.2) + i), (e.2.1, i)) := by
  cases k <;> simp_all [copies, mem_homologous]

theorem shiftClosed_homologous (m x d y : Nat) : ShiftClosed m (homologous m x d y) := by
  intro x' a y' b h a' b' ha' hb' hab
  rw [mem_homologous] at h ⊢
  obtain ⟨i, hi, hp⟩ := h
  simp only [Prod.mk.injEq] at hp
  obtain ⟨⟨rfl, rfl⟩, rfl, rfl⟩ := hp
  exact ⟨b', by omega, by simp; omega⟩

theorem shiftClosed_homologousBack (m x e y : Nat) : ShiftClosed m (homologousBack m x e y) := by
  intro x' a y' b h a' b' ha' hb' hab
  rw [mem_homologousBack] at h ⊢
  obtain ⟨i, hi, hp⟩ := h
  simp only [Prod.mk.injEq] at hp
  obtain ⟨⟨rfl, rfl⟩, rfl, rfl⟩ := hp
  exact ⟨a', by omega, by simp; omega⟩

theorem shiftClosed_copies (k : Kind) (m : Nat) (e : Edge) : ShiftClosed m (copies k m e) := by
  cases k <;> simp only [copies]
  · split
    · exact shiftClosed_homologous _ _ _ _
    · exact shiftClosed_homologousBack _ _ _ _
  · split
    · exact shiftClosed_homologous _ _ _ _
    · exact shiftClosed_homologousBack _ _ _ _
  · exact shiftClosed_homologous _ _ _ _

theorem forward_homologous (m x d y : Nat) : Forward (homologous m x d y) := by
  intro x' a y' b h
  rw [mem_homologous] at h
  obtain ⟨i, _, hp⟩ := h
  simp only [Prod.mk.injEq] at hp
  omega

/-- copies of a forward edge (any edge, for an undirected-type layer) are forward -/
theorem forward_copies {k : Kind} {m : Nat} {e : Edge} (h : k = .und ∨ e.2.2 ≤ e.1.2) :
    Forward (copies k m e) := by
  cases k <;> simp only [copies]
  · simp at h; simp only [h, if_true]; exact forward_homologous _ _ _ _
  · simp at h; simp only [h, if_true]; exact forward_homologous _ _ _ _
  · exact forward_homologous _ _ _ _

theorem inWin_homologous (m x d y : Nat) : InWin m (homologous m x d y) := by
  intro p h
  rw [mem_homologous] at h
  obtain ⟨i, hi, rfl⟩ := h
  simp; omega

theorem inWin_homologousBack (m x e y : Nat) : InWin m (homologousBack m x e y) := by
  intro p h
  rw [mem_homologousBack] at h
  obtain ⟨i, hi, rfl⟩ := h
  simp; omega

theorem inWin_copies (k : Kind) (m : Nat) (e : Edge) : InWin m (copies k m e) := by
  cases k <;> simp only [copies]
  · split
    · exact inWin_homologous _ _ _ _
    · exact inWin_homologousBack _ _ _ _
  · split
    · exact inWin_homologous _ _ _ _
    · exact inWin_homologousBack _ _ _ _
  · exact inWin_homologous _ _ _ _

theorem canonUnd_vars (e : Edge) :
    ((canonUnd e).1.1 = e.1.1 ∧ (canonUnd e).2.1 = e.2.1) ∨
    ((canonUnd e).1.1 = e.2.1 ∧ (canonUnd e).2.1 = e.1.1) := by
  unfold canonUnd swap
  split
  · exact Or.inr ⟨rfl, rfl⟩
  · split
    · exact Or.inr ⟨rfl, rfl⟩
    · exact Or.inl ⟨rfl, rfl⟩

/-- the variables of a copy are the variables of the edge -/
theorem vars_copies {k : Kind} {m : Nat} {e p : Edge} (h : p ∈ copies k m e) :
    (p.1.1 = e.1.1 ∨ p.1.1 = e.2.1) ∧ (p.2.1 = e.1.1 ∨ p.2.1 = e.2.1) := by
  cases k <;> simp only [copies] at h
  · split at h
    · rw [mem_homologous] at h; obtain ⟨i, _, rfl⟩ := h; simp
    · rw [mem_homologousBack] at h; obtain ⟨i, _, rfl⟩ := h; simp
  · split at h
    · rw [mem_homologous] at h; obtain ⟨i, _, rfl⟩ := h; simp
    · rw [mem_homologousBack] at h; obtain ⟨i, _, rfl⟩ := h; simp
  · simp only [mem_homologous] at h
    obtain ⟨i, _, rfl⟩ := h
    rcases canonUnd_vars e with ⟨h1, h2⟩ | ⟨h1, h2⟩ <;> simp [h1, h2]

theorem endsIn_copies {nodes : List Node} {k : Kind} {m : Nat} {e : Edge}
    (h1 : HasVar nodes m e.1.1) (h2 : HasVar nodes m e.2.1) : EndsIn nodes (copies k m e) := by
  intro p hp
  obtain ⟨hw1, hw2⟩ := inWin_copies k m e p hp
  obtain ⟨hv1, hv2⟩ := vars_copies hp
  obtain ⟨⟨x, a⟩, ⟨y, b⟩⟩ := p
  simp only at hw1 hw2 hv1 hv2 ⊢
  constructor
  · rcases hv1 with rfl | rfl
    · exact h1 a hw1
    · exact h2 a hw1
  · rcases hv2 with rfl | rfl
    · exact h1 b hw2
    · exact h2 b hw2

theorem canon_copies_und (m : Nat) (e : Edge) : Canon (copies .und m e) := by
  intro p hp
  rw [mem_copies_und] at hp
  obtain ⟨i, _, rfl⟩ := hp
  have hc := canonUnd_idem e
  generalize canonUnd e = c at hc ⊢
  obtain ⟨⟨x, a⟩, ⟨y, b⟩⟩ := c
  unfold canonUnd swap at hc ⊢
  simp only at hc ⊢
  split at hc
  · simp only [Prod.mk.injEq] at hc; omega
  · split at hc
    · simp only [Prod.mk.injEq] at hc; omega
    · rename_i h1 h2
      split
      · omega
      · split
        · rename_i h3
          exfalso; apply h2
          refine ⟨by omega, h3.2⟩
        · rfl

/-! ## set operations and the per-layer invariant -/

theorem shiftClosed_union {m : Nat} {E C : List Edge} (h1 : ShiftClosed m E) (h2 : ShiftClosed m C) :
    ShiftClosed m (union E C) := by
  intro x a y b h a' b' ha' hb' hab
  rw [mem_union] at h ⊢
  rcases h with h | h
  · exact Or.inl (h1 x a y b h a' b' ha' hb' hab)
  · exact Or.inr (h2 x a y b h a' b' ha' hb' hab)

theorem shiftClosed_diff {m : Nat} {E C : List Edge} (h1 : ShiftClosed m E) (h2 : ShiftClosed m C)
    (hw : InWin m E) : ShiftClosed m (diff E C) := by
  intro x a y b h a' b' ha' hb' hab
  rw [mem_diff] at h ⊢
  obtain ⟨hE, hC⟩ := h
  refine ⟨h1 x a y b hE a' b' ha' hb' hab, fun hc => hC ?_⟩
  obtain ⟨hwa, hwb⟩ := hw _ hE
  exact h2 x a' y b' hc a b hwa hwb (by omega)

theorem forward_union {E C : List Edge} (h1 : Forward E) (h2 : Forward C) : Forward (union E C) := by
  intro x a y b h
  rw [mem_union] at h
  rcases h with h | h
  · exact h1 x a y b h
  · exact h2 x a y b h

theorem endsIn_union {nodes : List Node} {E C : List Edge} (h1 : EndsIn nodes E) (h2 : EndsIn nodes C) :
    EndsIn nodes (union E C) := by
  intro e h
  rw [mem_union] at h
  rcases h with h | h
  · exact h1 e h
  · exact h2 e h

theorem canon_union {E C : List Edge} (h1 : Canon E) (h2 : Canon C) : Canon (union E C) := by
  intro e h
  rw [mem_union] at h
  rcases h with h | h
  · exact h1 e h
  · exact h2 e h

end C13
