import Pw.C01.Symm
open Closure

/-! # T2 (moralisation criterion), part 1: generic open walks, anterior sets

`OpenP C Z e a hs`: on the walk `a, hs` every inner node that is a collider satisfies `C` and every
inner non-collider is outside `Z`.  `OpenS` is `OpenP (ColliderOpen G Z) Z`; the "semi-open" walks of
the moral-graph argument are `OpenP A Z` for the anterior set `A`. -/
namespace MG

def condP (C : Nat → Prop) (Z : List Nat) (mi mo : Mark) (v : Nat) : Prop :=
  if mi = .head ∧ mo = .head then C v else v ∉ Z

def condPO (C : Nat → Prop) (Z : List Nat) : Option Mark → Option Mark → Nat → Prop
  | some mi, some mo, v => condP C Z mi mo v
  | _, _, _ => True

def OpenP (C : Nat → Prop) (Z : List Nat) : Option Mark → Nat → List Hop → Prop
  | _, _, [] => True
  | e, a, h :: t => condPO C Z e (some h.mp) a ∧ OpenP C Z (some h.mn) h.nx t

theorem condP_symm {C : Nat → Prop} {Z : List Nat} {mi mo : Mark} {v : Nat} :
    condP C Z mi mo v ↔ condP C Z mo mi v := by
  unfold condP; cases mi <;> cases mo <;> simp

theorem condPO_symm {C : Nat → Prop} {Z : List Nat} {e x : Option Mark} {v : Nat} :
    condPO C Z e x v ↔ condPO C Z x e v := by
  cases e <;> cases x <;> simp [condPO]
  exact condP_symm

theorem openS_iff_openP {G : MG} {Z : List Nat} : ∀ (hs : List Hop) (e : Option Mark) (a : Nat),
    OpenS G Z e a hs ↔ OpenP (ColliderOpen G Z) Z e a hs
  | [], e, a => by cases e <;> simp [OpenS, OpenP]
  | h :: t, none, a => by
    simp only [OpenS, OpenP, condPO, true_and]; exact openS_iff_openP t _ _
  | h :: t, some m, a => by
    simp only [OpenS, OpenP, condPO, condS, condP]; rw [openS_iff_openP t _ _]

theorem openP_append {C : Nat → Prop} {Z : List Nat} : ∀ (P1 P2 : List Hop) (e : Option Mark) (w : Nat),
    OpenP C Z e w (P1 ++ P2) ↔
      OpenP C Z e w P1 ∧ OpenP C Z (exitMark e P1) (endNode w P1) P2
  | [], P2, e, w => by simp [OpenP, exitMark, endNode]
  | h :: t, P2, e, w => by
    have ih := openP_append (C := C) (Z := Z) t P2 (some h.mn) h.nx
    simp only [List.cons_append, OpenP, ih, and_assoc]
    have : exitMark (some h.mn) t = exitMark e (h :: t) := by
      cases t <;> simp [exitMark, lastMn]
    rw [this]; rfl

theorem openP_revHops {C : Nat → Prop} {Z : List Nat} : ∀ (hs : List Hop) (a : Nat) (e x : Option Mark),
    (OpenP C Z e a hs ∧ condPO C Z (exitMark e hs) x (endNode a hs)) ↔
      (OpenP C Z x (endNode a hs) (revHops a hs) ∧ condPO C Z (exitMark x (revHops a hs)) e a)
  | [], a, e, x => by
    simp only [OpenP, exitMark, endNode, revHops, true_and]
    exact condPO_symm
  | h :: t, a, e, x => by
    have ih := openP_revHops (C := C) (Z := Z) t h.nx (some h.mn) x
    have hx : exitMark e (h :: t) = exitMark (some h.mn) t := by
      cases t <;> simp [exitMark, lastMn]
    simp only [OpenP]
    rw [hx]
    simp only [revHops, endNode]
    rw [openP_append, exitMark_snoc, endNode_revHops, and_assoc, ih]
    simp only [OpenP, and_true]
    constructor
    · rintro ⟨h1, h2, h3⟩; exact ⟨⟨h2, h3⟩, condPO_symm.mp h1⟩
    · rintro ⟨⟨h2, h3⟩, h1⟩; exact ⟨condPO_symm.mp h1, h2, h3⟩

/-- weakening of the collider predicate -/
theorem OpenP.mono {C D : Nat → Prop} {Z : List Nat} (hCD : ∀ v, C v → D v) :
    ∀ (hs : List Hop) (e : Option Mark) (a : Nat), OpenP C Z e a hs → OpenP D Z e a hs
  | [], _, _, _ => trivial
  | h :: t, e, a, ho => by
    refine ⟨?_, OpenP.mono hCD t _ _ ho.2⟩
    have := ho.1
    cases e with
    | none => trivial
    | some m =>
      simp only [condPO, condP] at this ⊢
      split at this
      · rename_i hc; simp only [hc, and_self, if_true]; exact hCD _ this
      · rename_i hc; simp only [hc, if_false]; exact this

/-! ## anterior relation -/

/-- `Ant G a c`: a path from a to c each of whose edges has a tail at its source end
    (directed a -> b or undirected a - b). -/
inductive Ant (G : MG) : Nat → Nat → Prop
  | refl (a : Nat) : Ant G a a
  | step {a b c : Nat} {mb : Mark} : HasEdge G a b .tail mb → Ant G b c → Ant G a c

theorem Ant.of_anc {G : MG} {a c : Nat} (h : Anc G a c) : Ant G a c := by
  induction h with
  | refl => exact Ant.refl _
  | step e _ ih => exact Ant.step (Or.inl ⟨rfl, rfl, e⟩) ih

/-- a node that carries an arrowhead has no undirected edge, so from it anterior = ancestor -/
theorem Ant.anc_of_head {G : MG} (hb : NoUndirAtHead G) {a c : Nat} (h : Ant G a c) :
    (∃ p mp, HasEdge G p a mp .head) → Anc G a c := by
  induction h with
  | refl => intro _; exact Anc.refl _
  | @step a b c mb he _ ih =>
    rintro ⟨p, mp, hp⟩
    cases mb with
    | tail => exact absurd he (hb a p mp hp b)
    | head => exact Anc.step he.dir_of_tail_head (ih ⟨a, .tail, he⟩)

/-- the anterior set of a target list -/
def InAnt (G : MG) (T : List Nat) (v : Nat) : Prop := ∃ t ∈ T, Ant G v t

theorem InAnt.step {G : MG} {T : List Nat} {a b : Nat} {mb : Mark} (he : HasEdge G a b .tail mb)
    (hb : InAnt G T b) : InAnt G T a := by
  obtain ⟨t, ht, ha⟩ := hb
  exact ⟨t, ht, Ant.step he ha⟩

end MG
