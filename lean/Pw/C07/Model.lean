import Pw.C06.Model
import Pw.C01.Guard
open Closure

/-! # C07 model: `valid_mag`, `has_adc`, `is_maximal` (pywhy_graphs/algorithms/generic.py)

The four stages of `valid_mag` in the order of the code; `inducing_path` is the C06 model. -/
namespace C07
open MG C06

def biB (G : MG) (a b : Nat) : Bool := decide ((a, b) ∈ G.bi) || decide ((b, a) ∈ G.bi)
def unB (G : MG) (a b : Nat) : Bool := decide ((a, b) ∈ G.un) || decide ((b, a) ∈ G.un)

/-- first loop of `valid_mag`: some neighbour pair carries an undirected edge, or `node -> elem`
    together with `node <-> elem` -/
def edgeScanBad (G : MG) : Bool :=
  G.nodes.any fun node => (nbrs G node).any fun elem =>
    unB G node elem || (biB G node elem && decide ((node, elem) ∈ G.dir))

/-- `nx.descendants(G.sub_directed_graph(), v)`: strict descendants -/
def descStrict (G : MG) (v : Nat) : List Nat := closure G.nodes G.children (G.children v)

/-- `has_adc(G)`, literally: for some node `elem` a bidirected edge joins a strict ancestor of `elem`
    with a strict descendant of `elem`.  (It misses `a -> b, a <-> b`; `valid_mag` rejects those pairs
    in its first loop – theorem `C07.validMag_iff`.) -/
def hasAdc (G : MG) : Bool :=
  G.nodes.any fun elem =>
    G.bi.any fun e =>
      (decide (e.1 ∈ ancStrict G elem) && decide (e.2 ∈ descStrict G elem)) ||
      (decide (e.2 ∈ ancStrict G elem) && decide (e.1 ∈ descStrict G elem))

/-- the scan over non-adjacent ordered pairs shared by `valid_mag` and `is_maximal`:
    `cur_set = all_nodes - nb - {source}` -/
def indScan (G : MG) (L S : List Nat) : Bool :=
  G.nodes.any fun source =>
    (G.nodes.filter fun d => decide (d ∉ nbrs G source) && d != source).any fun dest =>
      hasInd G L S source dest

/-- `valid_mag(G)` (L = S = ∅) -/
def validMag (G : MG) : Bool :=
  if edgeScanBad G then false
  else if hasCycle G then false
  else if hasAdc G then false
  else if indScan G [] [] then false
  else true

/-- `is_maximal(G)` (L = S = ∅); `inducing_path` raises on a non-empty undirected layer as soon as
    one non-adjacent pair is examined -/
def isMaximal (G : MG) : Except String Bool :=
  if (G.un ≠ [] ∨ G.circ ≠ []) ∧
      (G.nodes.any fun s => (G.nodes.filter fun d => decide (d ∉ nbrs G s) && d != s).any fun _ => true)
  then .error "value"
  else .ok (!indScan G [] [])

end C07
