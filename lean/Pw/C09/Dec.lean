import Pw.C09.Spec
import Pw.C08.Dec
open Closure

/-! # C09 run-time oracle: the PAG of a MAG *from the definition* (enumerate every mixed graph on the
same skeleton, keep the ancestral ones with the same independence model – decided by the proved
`MG.mSeparated` – and keep the marks shared by all), plus executable versions of the spec clauses
used to validate the graph returned by the implementation. -/
namespace C09
open MG

def sublists : List Nat → List (List Nat)
  | [] => [[]]
  | a :: t => (sublists t).flatMap fun s => [s, a :: s]

/-- all queries `(x, y, Z)`, `x < y` in list order, `Z` over the other nodes -/
def queries (ns : List Nat) : List (Nat × Nat × List Nat) :=
  (C08.combos ns).flatMap fun (x, y) =>
    (sublists (ns.filter fun v => v != x && v != y)).map fun Z => (x, y, Z)

def sepOf (M : MG) (q : Nat × Nat × List Nat) : Bool := MG.mSeparated M [q.1] [q.2.1] q.2.2

def markB (G : MG) (a b : Nat) : Nat :=   -- 0 none, 1 tail, 2 head, 3 circle
  match markAt G a b with
  | none => 0 | some .tail => 1 | some .head => 2 | some .circle => 3

def adjB (G : MG) (a b : Nat) : Bool := markB G a b != 0

def ancestralB (M : MG) : Bool :=
  !hasCycle M && M.bi.all fun (a, b) => !(decide (a ∈ M.anc [b]) || decide (b ∈ M.anc [a]))

def maximalB (M : MG) : Bool :=
  (C08.combos M.nodes).all fun (x, y) =>
    x == y || adjB M x y || (sublists (M.nodes.filter fun v => v != x && v != y)).any fun Z => MG.mSeparated M [x] [y] Z

/-- valid MAG without undirected edges: simple, ancestral, maximal -/
def isMagB (M : MG) : Bool := M.un.isEmpty && M.circ.isEmpty && ancestralB M && maximalB M

/-- every assignment of `->`, `<-`, `<->` to the listed pairs: (dir, bi) -/
def assignments : List (Nat × Nat) → List (List (Nat × Nat) × List (Nat × Nat))
  | [] => [([], [])]
  | (a, b) :: t => (assignments t).flatMap fun (d, bi) => [((a, b) :: d, bi), ((b, a) :: d, bi), (d, (a, b) :: bi)]

def skelPairs (M : MG) : List (Nat × Nat) := (C08.combos M.nodes).filter fun (a, b) => adjB M a b

/-- candidate member: the nodes of `M` with the given directed and bidirected edges -/
def cand (M : MG) (d b : List (Nat × Nat)) : MG := { nodes := M.nodes, dir := d, bi := b }

/-- the Markov equivalence class of the MAG `M` (as graphs with directed and bidirected edges) -/
def equivClass (M : MG) : List MG :=
  let qs := queries M.nodes
  let ref := qs.map (sepOf M)
  ((assignments (skelPairs M)).map fun (d, b) => cand M d b).filter fun M' =>
    ancestralB M' && (qs.zip ref).all fun (q, r) => sepOf M' q == r

def headAt (M : MG) (a b : Nat) : Bool := markB M a b == 2

/-- the mark at `b` shared by the class: 2 head, 1 tail, 3 circle (not shared) -/
def sharedMark (cls : List MG) (a b : Nat) : Nat :=
  if cls.all (headAt · a b) then 2 else if cls.all (fun M' => !headAt M' a b) then 1 else 3

/-- the PAG of `M` from the definition: a mark is kept iff every member of the class has it -/
def pagOf (M : MG) : MG :=
  let mk := sharedMark (equivClass M)
  let ord := (skelPairs M).flatMap fun (a, b) => [(a, b), (b, a)]
  { nodes := M.nodes,
    circ := ord.filter fun (a, b) => mk a b == 3,
    dir := ord.filter fun (a, b) => mk a b == 2 && mk b a != 2,
    bi := (skelPairs M).filter fun (a, b) => mk a b == 2 && mk b a == 2,
    un := (skelPairs M).filter fun (a, b) => mk a b == 1 && mk b a == 1 }

def sameNodes (A B : List Nat) : Bool := A.all (· ∈ B) && B.all (· ∈ A)

/-- every endpoint of an edge of `G` (any layer) -/
def ends (G : MG) : List Nat := (G.dir ++ G.bi ++ G.un ++ G.circ).flatMap fun e => [e.1, e.2]

/-- executable `StructuralS` (over the node lists of `P` and `M` and every endpoint of an edge of
    either graph, so that an edge to a non-node cannot escape the comparison) -/
def structuralFails (P M : MG) : List String :=
  let ns := (P.nodes ++ M.nodes ++ ends P ++ ends M).eraseDups
  let prs := ns.flatMap fun a => ns.map fun b => (a, b)
  (if sameNodes P.nodes M.nodes then [] else ["nodes"]) ++
  (if prs.all (fun (a, b) => adjB M a b == adjB P a b) then [] else ["adjacency"]) ++
  (if prs.all (fun (a, b) => markB P a b != 2 || markB M a b == 2) then [] else ["arrowhead-lost"]) ++
  (if prs.all (fun (a, b) => markB P a b != 1 || markB M a b == 1) then [] else ["tail-lost"]) ++
  (if M.circ.isEmpty then [] else ["circle-left"])

def ucB (G : MG) (a c b : Nat) : Bool :=
  markB G a c == 2 && markB G b c == 2 && a != b && markB G a b == 0

def noNewUCB (P M : MG) : Bool :=
  M.nodes.all fun a => M.nodes.all fun c => M.nodes.all fun b => !ucB M a c b || ucB P a c b

/-- executable `WF4` -/
def wf4B (G : MG) : Bool :=
  (G.dir ++ G.bi ++ G.un ++ G.circ).all fun e => decide (e.1 ∈ G.nodes) && decide (e.2 ∈ G.nodes)

/-- executable `SourceOK` -/
def srcOkB (M0 : MG) : Bool :=
  wf4B M0 && M0.un.isEmpty && M0.circ.isEmpty && (M0.dir ++ M0.bi).all fun e => e.1 != e.2

/-- the requests the validator refuses to judge: a PAG or a source graph with an edge to a non-node, a
    source graph that is not a directed/bidirected graph without self loops (never sent by the harness) -/
def inputFails (P : MG) (S : Option MG) : List String :=
  if wf4B P && (match S with | some M0 => srcOkB M0 | none => true) then [] else ["bad-input"]

def firstFails (P M : MG) : List String :=
  structuralFails P M ++
  (if !hasCycle M then [] else ["directed-cycle"]) ++
  (if ancestralB M then [] else ["not-ancestral"]) ++
  (if noNewUCB P M then [] else ["new-unshielded-collider"])

/-- the two graphs answer every enumerated query alike -/
def sameSepB (M0 M : MG) : Bool := (queries M0.nodes).all fun q => sepOf M0 q == sepOf M q

def secondFails (M0 M : MG) : List String :=
  (if ancestralB M && M.un.isEmpty then [] else ["not-a-mag"]) ++
  (if maximalB M then [] else ["not-maximal"]) ++
  (if sameNodes M0.nodes M.nodes && sameSepB M0 M then [] else ["not-markov-equivalent"])

/-- everything `c09valid` reports: `P` the PAG, `M` the graph returned by the implementation, `S` the
    source MAG if one is given -/
def validFails (P M : MG) (S : Option MG) : List String :=
  inputFails P S ++ firstFails P M ++ (match S with | some M0 => secondFails M0 M | none => [])

end C09
