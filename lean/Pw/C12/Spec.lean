import Pw.T2.Main
import Pw.C12.Model
open Closure MG

/-! # C12 specification

"In mixed_edge_moral_graph(G) two nodes are adjacent iff they are joined in G by an edge or by a path
on which every inner node is a collider, and the result has exactly G's nodes.  Therefore X and Y are
m-separated by Z in G iff Z separates them, as an ordinary vertex cut, in the moral graph of the
subgraph induced by the anterior closure of X, Y and Z."

Paths are the hop lists of C01 (`ValidW`, `nodesOf … .Nodup`): on a pair carrying two edges a path
picks one edge per hop. -/
namespace C12

/-- u and v are joined by an edge of any kind -/
def Adj (G : MG) (u v : Nat) : Prop := ∃ mu mv, HasEdge G u v mu mv

/-- every inner node of the path is a collider: at every junction of two consecutive hops both
    marks at the junction node are arrowheads -/
def AllColl : List Hop → Prop
  | [] => True
  | [_] => True
  | h1 :: h2 :: t => h1.mn = .head ∧ h2.mp = .head ∧ AllColl (h2 :: t)

/-- adjacent, or joined by a path (no repeated node) whose inner nodes are all colliders -/
def ColliderConnected (G : MG) (u v : Nat) : Prop :=
  Adj G u v ∨
  ∃ hs, hs ≠ [] ∧ ValidW G u hs ∧ endNode u hs = v ∧ (nodesOf u hs).Nodup ∧ AllColl hs

/-- first sentence of C12 for an undirected graph `H` claimed to be the moral graph of `G` -/
def IsMoralOf (G : MG) (H : UG) : Prop :=
  (∀ v, v ∈ H.nodes ↔ v ∈ G.nodes) ∧
  (∀ u v, UAdj H.edges u v ↔ (u ≠ v ∧ ColliderConnected G u v))

/-- the definition of `networkx.moral_graph` on a DAG: skeleton plus married parents -/
def DagMoralAdj (G : MG) (u v : Nat) : Prop :=
  u ≠ v ∧ ((u, v) ∈ G.dir ∨ (v, u) ∈ G.dir ∨ ∃ c, (u, c) ∈ G.dir ∧ (v, c) ∈ G.dir)

/-! ## vertex cut, declaratively -/

/-- a walk from `a` to `b` in the undirected graph with node predicate `V` and adjacency `E`, all of
    whose nodes (end points included) avoid `Z` -/
inductive PathAvoid (V : Nat → Prop) (E : Nat → Nat → Prop) (Z : List Nat) : Nat → Nat → Prop
  | refl (a : Nat) : V a → a ∉ Z → PathAvoid V E Z a a
  | tail {a b c : Nat} : PathAvoid V E Z a b → E b c → V c → c ∉ Z → PathAvoid V E Z a c

/-- `Z` is a vertex cut between `X` and `Y` -/
def CutR (V : Nat → Prop) (E : Nat → Nat → Prop) (X Y Z : List Nat) : Prop :=
  ∀ x ∈ X, ∀ y ∈ Y, ¬ PathAvoid V E Z x y

/-- vertex cut in a concrete undirected graph -/
def VCut (H : UG) (X Y Z : List Nat) : Prop :=
  CutR (· ∈ H.nodes) (UAdj H.edges) X Y Z

/-- `A` lists exactly the nodes anterior to `S` -/
def IsAntSet (G : MG) (S A : List Nat) : Prop :=
  ∀ a, a ∈ A ↔ (a ∈ G.nodes ∧ ∃ s ∈ S, Ant G a s)

/-- `Z` cuts `X` from `Y` in the moral graph (adjacency = collider-connectedness) of the subgraph
    induced by the anterior closure of X ∪ Y ∪ Z -/
def AntMoralCut (G : MG) (X Y Z : List Nat) : Prop :=
  ∀ A, IsAntSet G (X ++ Y ++ Z) A →
    CutR (· ∈ A) (fun u v => u ≠ v ∧ ColliderConnected (restrict G A) u v) X Y Z

/-- second sentence of C12 for one query (the anterior relation `MG.Ant` is the one of Pw/T2) -/
def SepIffCut (G : MG) (X Y Z : List Nat) : Prop := MSep G X Y Z ↔ AntMoralCut G X Y Z

/-! ## executable brute-force decider of `ColliderConnected` (enumerates all simple paths) -/

def hopsFrom (G : MG) (a : Nat) : List Hop :=
  (G.children a).map (fun b => ⟨.tail, .head, b⟩) ++ (G.parents a).map (fun b => ⟨.head, .tail, b⟩) ++
  (G.spouses a).map (fun b => ⟨.head, .head, b⟩) ++ (G.unbrs a).map (fun b => ⟨.tail, .tail, b⟩)

/-- all simple paths (hop lists) of length ≤ fuel that start in `a` and avoid `vis` -/
def pathsFrom (G : MG) : Nat → List Nat → Nat → List (List Hop)
  | 0, _, _ => [[]]
  | f + 1, vis, a =>
    [] :: (hopsFrom G a).flatMap fun h =>
      if h.nx ∈ vis then [] else (pathsFrom G f (h.nx :: vis) h.nx).map (h :: ·)

def allCollB : List Hop → Bool
  | [] => true
  | [_] => true
  | h1 :: h2 :: t => decide (h1.mn = .head) && decide (h2.mp = .head) && allCollB (h2 :: t)

def adjB (G : MG) (u v : Nat) : Bool :=
  decide (v ∈ G.children u) || decide (v ∈ G.parents u) || decide (v ∈ G.spouses u) || decide (v ∈ G.unbrs u)

/-- brute force: some simple path from u ends in v and has only colliders inside -/
def ccDec (G : MG) (u v : Nat) : Bool :=
  adjB G u v ||
  (pathsFrom G G.nodes.length [u] u).any fun hs => !hs.isEmpty && decide (endNode u hs = v) && allCollB hs

/-- all unordered pairs u < v of nodes that the *specification* makes adjacent -/
def specEdges (G : MG) : List (Nat × Nat) :=
  G.nodes.flatMap fun u => (G.nodes.filter fun v => u < v && ccDec G u v).map fun v => (u, v)

end C12
