import Pw.C14.RoundTrip

/-! # C14 — Tetrad text format: the written file, read back, is the graph (any size) -/
namespace C14
set_option linter.unusedSimpArgs false

/-- an edge line `(node1, (mark1, mark2), node2)` as the reader sees it: first and last character of
    the edge string -/
def tetLine (l : Nat × (TM × TM) × Nat) : Nat × Char × Char × Nat := (l.1, l.2.1.1.left, l.2.1.2.right, l.2.2)

theorem mem_upperPairs {n a b : Nat} : (a, b) ∈ upperPairs n ↔ a < n ∧ b < n ∧ a < b := by
  simp [upperPairs, mem_allPairs, and_assoc]

theorem admits_mask : ∀ c ∈ allCls, ∀ p ∈ PB.empty :: admits c, p.mask c = p := by decide

theorem applyOpsG_append (c : Cls) (u v : Nat) (o1 o2 : List Op) (g : MG) :
    applyOpsG c u v g (o1 ++ o2) = (applyOpsG c u v g o1).bind fun h => applyOpsG c u v h o2 := by
  induction o1 generalizing g with
  | nil => rfl
  | cons o os ih =>
    simp only [List.cons_append, applyOpsG]
    cases applyOpG c u v g o with
    | none => rfl
    | some h => simp [ih]

/-- step of `tetrad_to_graph` for one edge line -/
def tetStep (c : Cls) (g : Option MG) (l : Nat × Char × Char × Nat) : Option MG :=
  g.bind fun g => applyOpsG c l.1 l.2.2.2 g (tetDecLine l.2.1 l.2.2.1)

theorem tetDec_eq (c : Cls) (n : Nat) (ls : List (Nat × Char × Char × Nat)) :
    tetDec c n ls = ls.foldl (tetStep c) (some (emptyG n)) := rfl

theorem foldl_tetStep_none (c : Cls) (ls : List (Nat × Char × Char × Nat)) : ls.foldl (tetStep c) none = none := by
  induction ls with
  | nil => rfl
  | cons l ls ih => simpa [List.foldl_cons, tetStep] using ih

/-- reading all lines written for one pair = performing the concatenated `add_edge` calls -/
theorem foldl_pair_lines (c : Cls) (u v : Nat) (es : List (TM × TM)) (g : Option MG) :
    (es.map fun e => tetLine (u, e, v)).foldl (tetStep c) g =
      g.bind fun g => applyOpsG c u v g (es.flatMap fun e => tetDecLine e.1.left e.2.right) := by
  induction es generalizing g with
  | nil => cases g <;> rfl
  | cons e es ih =>
    simp only [List.map_cons, List.foldl_cons, List.flatMap_cons]
    rw [ih]
    cases g with
    | none => rfl
    | some g =>
      simp only [tetStep, tetLine, Option.bind_some]
      rw [applyOpsG_append]

theorem foldl_tet_lines (c : Cls) (g0 : MG) (L : List (Nat × Nat)) (hL : ∀ x ∈ L, x.1 ≠ x.2) (s : Option MG) :
    ((L.flatMap fun ij => (tetPairEdges (bitsC c g0 ij.1 ij.2)).map fun e => (ij.1, e, ij.2)).map tetLine).foldl (tetStep c) s =
      L.foldl (pairStep c fun a b => some (tetOps (bitsC c g0 a b))) s := by
  induction L generalizing s with
  | nil => rfl
  | cons x L ih =>
    obtain ⟨u, v⟩ := x
    have huv : u ≠ v := hL (u, v) List.mem_cons_self
    simp only [List.flatMap_cons, List.map_append, List.foldl_append, List.foldl_cons, List.map_map]
    rw [ih (fun y hy => hL y (List.mem_cons_of_mem _ hy))]
    congr 1
    have := foldl_pair_lines c u v (tetPairEdges (bitsC c g0 u v)) s
    simp only [Function.comp_def] at this ⊢
    rw [this]
    cases s with
    | none => rfl
    | some g => simp [pairStep, huv, tetOps]

/-- `g` is a graph of class `c` all of whose pairs carry a configuration the class admits -/
def TetDom (c : Cls) (g : MG) (n : Nat) : Prop :=
  ∀ a b, a < n → b < n → a ≠ b → bits g a b ∈ PB.empty :: admits c

/-- **Tetrad**: reading the file written by `graph_to_tetrad` reproduces the graph — every class, every
    admitted configuration (including two edges on one pair), any number of nodes -/
theorem tetrad_export_import (c : Cls) (g : MG) (n : Nat) (hok : GraphOK g n) (hg : TetDom c g n) :
    ∃ h, tetDec c n ((tetEnc c g n).map tetLine) = some h ∧ Same g h := by
  let F : Nat → Nat → Bool → Bool → PB := fun a b s t =>
    if a < n ∧ b < n ∧ a ≠ b then fAny (bits g a b) s t else PB.empty
  have hsw : ∀ a b s t, (F a b s t).swap = F b a t s := by
    intro a b s t
    by_cases h : a < n ∧ b < n ∧ a ≠ b
    · have h' : b < n ∧ a < n ∧ b ≠ a := ⟨h.2.1, h.1, fun e => h.2.2 e.symm⟩
      simp only [F]; rw [if_pos h, if_pos h', fAny_swap, bits_swap g a b]
    · have h' : ¬(b < n ∧ a < n ∧ b ≠ a) := fun e => h ⟨e.2.1, e.1, fun x => e.2.2 x.symm⟩
      simp only [F]; rw [if_neg h, if_neg h']; rfl
  have hvisit : ∀ a b s t, (a, b) ∈ upperPairs n → a ≠ b →
      ∃ ops, (some (tetOps (bitsC c g a b)) : Option (List Op)) = some ops ∧
        applyOps c (F a b s t) ops = some (F a b true t) := by
    intro a b s t hm hab
    obtain ⟨ha, hb, _⟩ := mem_upperPairs.1 hm
    have hp := hg a b ha hb hab
    have hmk : bitsC c g a b = bits g a b := admits_mask c (mem_allCls c) _ hp
    have := tet_visit c (mem_allCls c) _ hp s (mem_allBools s) t (mem_allBools t)
    rw [show (bits g a b).mask c = bits g a b from hmk] at this
    refine ⟨_, rfl, ?_⟩
    simp only [F, ha, hb, hab, ne_eq, not_false_eq_true, and_self, if_true, hmk]
    exact this
  obtain ⟨h, hh, hn, hbits, hd⟩ := pairFold_spec c (fun a b => some (tetOps (bitsC c g a b))) F (upperPairs n) (emptyG n)
    hsw hvisit (fun a b _ => by simp only [F, bits_emptyG]; split <;> rfl)
  refine ⟨h, ?_, hn.trans hok.nodes.symm, ?_⟩
  · rw [tetDec_eq]
    unfold tetEnc
    rw [foldl_tet_lines c g (upperPairs n) (fun x hx => by
      obtain ⟨a, b⟩ := x; have := (mem_upperPairs.1 hx).2.2; exact Nat.ne_of_lt this)]
    exact hh
  · intro a b
    by_cases hab : a = b
    · subst hab; rw [hd a, bits_emptyG, hok.diag a]
    · rw [hbits a b hab]
      by_cases hr : a < n ∧ b < n
      · simp only [F, hr.1, hr.2, hab, ne_eq, not_false_eq_true, and_self, if_true, mem_upperPairs, true_and]
        rcases Nat.lt_or_gt_of_ne hab with hlt | hgt
        · simp [fAny, hlt]
        · simp [fAny, hgt]
      · simp only [F]; rw [if_neg (fun e => hr ⟨e.1, e.2.1⟩), hok.range a b hr]

end C14
