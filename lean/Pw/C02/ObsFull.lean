import Pw.C02.Count

/-! # C02: *every* read query of the model equals the specification query (`obs_eq`) -/
namespace C02

theorem sum_assoc {α} (l : List (Nat × α)) (m : Nat) (f : α → Nat) (hn : (l.map (·.1)).Nodup)
    (hm : ∀ t ∈ l.map (·.1), t < m) :
    (l.map fun q => f q.2).sum =
      ((List.range m).map fun t => ((List.lookup t l).map f).getD 0).sum := by
  induction l with
  | nil =>
    have : ∀ r : List Nat, (r.map fun _ => 0).sum = 0 := by intro r; induction r <;> simp_all
    simpa using (this (List.range m)).symm
  | cons q l ih =>
    obtain ⟨k, x⟩ := q
    simp only [List.map_cons, List.nodup_cons] at hn
    have hk : k < m := hm k (by simp)
    have ih' := ih hn.2 (fun t ht => hm t (by simp only [List.map_cons, List.mem_cons]; exact Or.inr ht))
    simp only [List.map_cons, List.sum_cons, ih']
    have hlk : List.lookup k l = none := MEG.lookup_none_of_not_mem hn.1
    have : ∀ t, ((List.lookup t ((k, x) :: l)).map f).getD 0 =
        ((List.lookup t l).map f).getD 0 + (if (k == t) = true then f x else 0) := by
      intro t
      simp only [List.lookup_cons]
      by_cases h : t = k
      · subst h; simp [hlk]
      · have h1 : (t == k) = false := by simpa using h
        have h2 : (k == t) = false := by simpa using fun hc : k = t => h hc.symm
        simp [h1, h2]
    simp only [this]
    rw [sum_add_map (List.range m)]
    have hind : ((List.range m).map fun t => if (k == t) = true then f x else 0).sum = f x := by
      have := sum_indicator (List.range m) k
      have hc : (List.range m).count k = 1 := by
        rw [List.Nodup.count List.nodup_range, if_pos (List.mem_range.2 hk)]
      have h2 : ((List.range m).map fun t => if (k == t) = true then f x else 0).sum =
          f x * ((List.range m).map fun t => if (k == t) = true then 1 else 0).sum := by
        generalize List.range m = r
        induction r with
        | nil => simp
        | cons a r ihr => simp only [List.map_cons, List.sum_cons, ihr]; split <;> simp [Nat.mul_add]
      rw [h2, this, hc, Nat.mul_one]
    rw [hind]; omega

theorem countP_eq_sum {α} (l : List α) (p : α → Bool) : l.countP p = (l.map fun x => if p x then 1 else 0).sum := by
  induction l with
  | nil => rfl
  | cons a l ih =>
    simp only [List.countP_cons, List.map_cons, List.sum_cons, ih]
    cases p a <;> simp <;> omega

theorem sum_two_mul {α} (l : List α) (f : α → Nat) : (l.map fun x => 2 * f x).sum = 2 * (l.map f).sum := by
  induction l with
  | nil => rfl
  | cons a l ih => simp only [List.map_cons, List.sum_cons, ih]; omega

namespace MEG

/-- the nodes of `g` are inside the node universe -/
def NodesBelow (g : MEG) (n : Nat) : Prop := ∀ v ∈ g.nodeIds, v < n

theorem layer_below {g : MEG} (hi : g.Inv) {n : Nat} (hn : g.NodesBelow n) {q : Nat × Layer} (hq : q ∈ g.layers) :
    q.2.Below n := fun v hv => hn v ((hi.sync q hq v).1 hv)

theorem sum_layers {g : MEG} (hi : g.Inv) {m : Nat} (hm : g.NamesBelow m) (f : Layer → Nat) :
    (g.layers.map fun q => f q.2).sum =
      ((List.range m).map fun t => ((g.layer? t).map f).getD 0).sum :=
  sum_assoc g.layers m f hi.names hm

theorem numEdgesT_eq {g : MEG} (hi : g.Inv) {n : Nat} (hn : g.NodesBelow n) (t : Nat) :
    g.abs.numEdgesT n t = ((g.layer? t).map (·.numEdges)).getD 0 := by
  simp only [AG.numEdgesT, abs]
  rcases Option.eq_none_or_eq_some (g.layer? t) with hL | ⟨L, hL⟩
  · simp [hL]
  · have hq := layer_mem hL
    simp only [hL, Option.map_some]
    rw [Layer.numEdges_eq (hi.wf _ hq) (layer_below hi hn hq)]
    cases hk : L.kind <;> simp [Layer.cnt, hk, show (Kind.und == Kind.dir) = false from rfl]

theorem numEdgesAll_eq {g : MEG} (hi : g.Inv) {n m : Nat} (hn : g.NodesBelow n) (hm : g.NamesBelow m) :
    g.numEdgesAll = g.abs.numEdgesAll n m := by
  simp only [numEdgesAll, AG.numEdgesAll]
  rw [sum_layers hi hm fun L => L.numEdges]
  congr 1
  apply List.map_congr_left
  intro t _
  rw [numEdgesT_eq hi hn]

theorem sizeAll_eq {g : MEG} (hi : g.Inv) {n m : Nat} (hn : g.NodesBelow n) (hm : g.NamesBelow m) :
    g.sizeAll = g.abs.sizeAll n m := by
  simp only [sizeAll, AG.sizeAll]
  rw [← numEdgesAll_eq hi hn hm, numEdgesAll]
  have : (g.layers.map fun p => (p.2.nodes.map p.2.degree).sum) = g.layers.map fun p => 2 * p.2.numEdges := by
    apply List.map_congr_left
    intro q hq
    exact Layer.degree_sum (hi.wf q hq)
  rw [this, sum_two_mul]
  omega

theorem numEdgesUV_eq {g : MEG} (hi : g.Inv) {m : Nat} (hm : g.NamesBelow m) (u v : Nat) :
    g.numEdgesUV u v = g.abs.numEdgesUV m u v := by
  simp only [numEdgesUV, AG.numEdgesUV]
  rw [sum_layers hi hm fun L => if L.has u v then 1 else 0, countP_eq_sum]
  congr 1
  apply List.map_congr_left
  intro t _
  simp only [abs]
  rcases Option.eq_none_or_eq_some (g.layer? t) with hL | ⟨L, hL⟩ <;> simp [hL]

theorem lobs_eq {g : MEG} (hi : g.Inv) {n : Nat} (hn : g.NodesBelow n) {t : Nat} {L : Layer}
    (hL : g.layer? t = some L) : L.obs t n = g.abs.lobs t L.kind n := by
  obtain ⟨h1, h2, h3, h4, h5, h6⟩ := lobs_eq_partial hi hL n
  have hq := layer_mem hL
  have hw : L.WF := hi.wf _ hq
  have hb : L.Below n := layer_below hi hn hq
  have hedge : ∀ u v, g.abs.edge t u v = L.has u v := by intro u v; simp [abs, hL]
  have hne : L.numEdges = g.abs.numEdgesT n t := by rw [numEdgesT_eq hi hn, hL]; rfl
  have hdeg : (L.obs t n).degree = (g.abs.lobs t L.kind n).degree := by
    have hl : (L.obs t n).lnodes = (g.abs.lobs t L.kind n).lnodes := h3
    simp only [Layer.obs, AG.lobs] at hl ⊢
    rw [hl]
    apply List.map_congr_left
    intro v _
    congr 1
    rw [Layer.degree_eq hw hb v]
    have hkind : g.abs.kind t = some L.kind := by simp [abs, hL]
    simp only [AG.degreeT, hkind, hedge]
    cases L.kind <;> rfl
  have hsz : (L.obs t n).sizeT = (g.abs.lobs t L.kind n).sizeT := by
    simp only [Layer.obs, AG.lobs]
    rw [Layer.degree_sum hw, ← hne, Layer.numEdges]; omega
  have hn' : (L.obs t n).nEdges = (g.abs.lobs t L.kind n).nEdges := hne
  cases ho : L.obs t n
  cases ha : g.abs.lobs t L.kind n
  simp only [ho, ha] at h1 h2 h3 h4 h5 h6 hdeg hsz hn'
  simp only [LObs.mk.injEq]
  exact ⟨h1, h2, h3, h4, h5, hdeg, h6, hn', hsz⟩

/-- **C02 observations**: for a state that satisfies the invariant and lies inside the universe
    (`nodes < n`, edge-type names `< m`), *every* read query – `nodes(data)`, `graph`, `has_edge`,
    `number_of_edges` (total, per type, per pair), `size`, `neighbors`, `edges(data)`, `adj`, `degree`,
    `get_edge_data`, `to_undirected`, `to_directed`, per-layer node sets – answers exactly what the
    specification computes from the abstract node set and per-layer edge sets. -/
theorem obs_eq {g : MEG} (hi : g.Inv) {n m : Nat} (hn : g.NodesBelow n) (hm : g.NamesBelow m) :
    g.obs n m = g.abs.obs n m := by
  obtain ⟨h1, h2, h3, h4, h5, h6, _⟩ := obs_eq_partial hi hm n
  have hl : (g.obs n m).layers = (g.abs.obs n m).layers := by
    simp only [MEG.obs, AG.obs]
    apply filterMap_congr'
    intro t _
    have hk : g.abs.kind t = (g.layer? t).map (·.kind) := rfl
    rw [hk]
    rcases Option.eq_none_or_eq_some (g.layer? t) with hL | ⟨L, hL⟩
    · simp [hL]
    · simp only [hL, Option.map_some, Option.some.injEq]
      exact lobs_eq hi hn hL
  have h7 : (g.obs n m).nEdgesAll = (g.abs.obs n m).nEdgesAll := numEdgesAll_eq hi hn hm
  have h8 : (g.obs n m).sizeAll = (g.abs.obs n m).sizeAll := sizeAll_eq hi hn hm
  have h9 : (g.obs n m).nEdgesUV = (g.abs.obs n m).nEdgesUV := by
    simp only [MEG.obs, AG.obs]
    have : ((List.range n).filter g.nodeIds.contains) = (List.range n).filter g.abs.node := rfl
    rw [this]
    apply List.map_congr_left
    intro p _
    exact numEdgesUV_eq hi hm p.1 p.2
  cases ho : g.obs n m
  cases ha : g.abs.obs n m
  simp only [ho, ha] at h1 h2 h3 h4 h5 h6 hl h7 h8 h9
  simp only [GObs.mk.injEq]
  exact ⟨h1, h2, hl, h3, h7, h9, h8, h4, h5, h6⟩

end MEG
end C02
