import Pw.Core.Proto
import Pw.C01.Guard
import Pw.C03.Model
open Proto

/-! C03 driver handlers.
  `c03run cls=P|C n=3 D= B= U= C= ops=a:directed:0-1|A:circle:0-1,1-0|r:all:0-1|R:directed:0-1|o:0-1`
     answers one observation per state, `;`-separated, the first one for the initial graph:
     `<raised: 0, 1 or - (initial)>~D=..~B=..~U=..~C=..~<is_valid 0 or 1>~<good 0 or 1>`
  `c03ctor cls=P|C D= B= U= C=`  →  `ok` | `err`      (constructor from edge lists)
  `c03good cls=P|C s=010010`     →  `T` | `F`         (the spec predicate on one pair state) -/
namespace C03

def parseET (s : String) : ET :=
  if s == "all" then .all else if s == "directed" then .directed else if s == "bidirected" then .bidirected
  else if s == "circle" then .circle else if s == "undirected" then .undirected else .other

def parseOp (s : String) : Option Op :=
  match s.splitOn ":" with
  | ["a", t, e] => match parsePairs e with | [(u, v)] => some (.add (parseET t) u v) | _ => none
  | ["r", t, e] => match parsePairs e with | [(u, v)] => some (.remove (parseET t) u v) | _ => none
  | ["A", t, es] => some (.addBulk (parseET t) (parsePairs es))
  | ["R", t, es] => some (.removeBulk (parseET t) (parsePairs es))
  | ["o", e] => match parsePairs e with | [(u, v)] => some (.orient u v) | _ => none
  | _ => none

def pairsBelow (n : Nat) : List (Nat × Nat) :=
  (List.range n).flatMap fun a => ((List.range n).filter (a < ·)).map fun b => (a, b)

def b01 (b : Bool) : String := if b then "1" else "0"

def obsP (n : Nat) (g : PairMap PBits) (raised : String) : String :=
  let ps := pairsBelow n
  let D := ps.flatMap fun (a, b) => (if (g a b).directed_uv then [(a, b)] else []) ++ (if (g a b).directed_vu then [(b, a)] else [])
  let C := ps.flatMap fun (a, b) => (if (g a b).circle_uv then [(a, b)] else []) ++ (if (g a b).circle_vu then [(b, a)] else [])
  let B := ps.filter fun (a, b) => (g a b).bi
  let U := ps.filter fun (a, b) => (g a b).un
  raised ++ "~D=" ++ fmtDirSet D ++ "~B=" ++ fmtUndSet B ++ "~U=" ++ fmtUndSet U ++ "~C=" ++ fmtDirSet C ++
    "~" ++ b01 (ps.all fun (a, b) => isValidP (g a b)) ++ "~" ++ b01 (ps.all fun (a, b) => GoodP (g a b))

def obsC (n : Nat) (g : PairMap CBits) (raised : String) : String :=
  let ps := pairsBelow n
  let D := ps.flatMap fun (a, b) => (if (g a b).directed_uv then [(a, b)] else []) ++ (if (g a b).directed_vu then [(b, a)] else [])
  let U := ps.filter fun (a, b) => (g a b).un
  raised ++ "~D=" ++ fmtDirSet D ++ "~B=~U=" ++ fmtUndSet U ++ "~C=" ++
    "~" ++ b01 (ps.all fun (a, b) => isValidC (g a b)) ++ "~" ++ b01 (ps.all fun (a, b) => GoodC (g a b))

def runObs {σ : Type} [PairState σ] (M : Sem σ) (obs : PairMap σ → String → String) :
    PairMap σ → List (Option Op) → List String
  | _, [] => []
  | g, none :: ops => "bad-op" :: runObs M obs g ops
  | g, some op :: ops =>
    let r := step M g op
    obs r.1 (b01 r.2) :: runObs M obs r.1 ops

def handleRun : Handler := fun a =>
  let n := a.nat "n"
  let ops := ((a.get "ops").splitOn "|").filter (· ≠ "") |>.map parseOp
  if a.get "cls" == "C" then
    let g := ofListsC (a.pairs "D") (a.pairs "U")
    ";".intercalate (obsC n g "-" :: runObs semC (obsC n) g ops)
  else
    let g := ofListsP (a.pairs "D") (a.pairs "B") (a.pairs "U") (a.pairs "C")
    ";".intercalate (obsP n g "-" :: runObs semP (obsP n) g ops)

/-- constructor: PAG (an ADMG) first demands an acyclic directed layer, then both classes run
    `is_valid_mec_graph` over the stored entries -/
def handleCtor : Handler := fun a =>
  let D := a.pairs "D"
  if a.get "cls" == "C" then
    let U := a.pairs "U"
    if ctorOk semC (ofListsC D U) (D ++ U) then "ok" else "err"
  else
    let B := a.pairs "B"; let U := a.pairs "U"; let C := a.pairs "C"
    let nodes := ((D ++ B ++ U ++ C).flatMap fun e => [e.1, e.2]).eraseDups
    if MG.hasCycle { nodes := nodes, dir := D } then "err"
    else if ctorOk semP (ofListsP D B U C) (D ++ B ++ U ++ C) then "ok" else "err"

def bit (s : String) (i : Nat) : Bool := (s.toList.getD i '0') == '1'

def handleGood : Handler := fun a =>
  let s := a.get "s"
  if a.get "cls" == "C" then fmtBool (GoodC ⟨bit s 0, bit s 1, bit s 2⟩)
  else fmtBool (GoodP ⟨bit s 0, bit s 1, bit s 2, bit s 3, bit s 4, bit s 5⟩)

/-- `c03orient cls=P s=<before> s2=<after>` → is the change what `orient_uncertain_edge(u,v)` may do? -/
def handleOrient : Handler := fun a =>
  let s := a.get "s"; let s2 := a.get "s2"
  if a.get "cls" == "C" then
    fmtBool (decide (OrientOnlyC ⟨bit s 0, bit s 1, bit s 2⟩ ⟨bit s2 0, bit s2 1, bit s2 2⟩))
  else
    fmtBool (decide (OrientOnlyP ⟨bit s 0, bit s 1, bit s 2, bit s 3, bit s 4, bit s 5⟩
      ⟨bit s2 0, bit s2 1, bit s2 2, bit s2 3, bit s2 4, bit s2 5⟩))

def handlers : List (String × Handler) :=
  [("c03run", handleRun), ("c03ctor", handleCtor), ("c03good", handleGood), ("c03orient", handleOrient)]
end C03
