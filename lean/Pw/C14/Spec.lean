import Pw.C14.Model

/-! # C14 — specification

"For every ADMG, CPDAG or PAG that a format can express, writing it … and reading it back yields a
graph of the same class with the same nodes and identical edges of every type; importing a
well-formed matrix and exporting it again returns the same matrix.  The matrices use the documented
endpoint codes."

The specification is a *table per class and format*, written down from the documentation (docstrings
of `graph_to_numpy`, `pcalg_to_graph`, the comments of `CLearnEndpoint` in `config.py`, the Tetrad
edge syntax `a --> b`), **not** derived from the encoders:

`table c f` lists, for every per-pair configuration of class `c` that format `f` can express, the
two matrix cells `(M[a,b], M[b,a])` of that pair.  A configuration is *expressible* iff it has an
entry.  A graph is in the domain iff every pair of distinct nodes is non-adjacent or expressible. -/

namespace C14

inductive Fmt | numpy | clearn | pcalg deriving DecidableEq, Repr

/-! pair configurations of an ordered pair `(a,b)` -/
def cRight : PB := { duv := true }                 -- a -> b
def cLeft : PB := { dvu := true }                  -- a <- b
def cBi : PB := { bi := true }                     -- a <-> b
def cUn : PB := { un := true }                     -- a -- b
def cCC : PB := { cuv := true, cvu := true }       -- a o-o b
def cCR : PB := { duv := true, cvu := true }       -- a o-> b
def cLC : PB := { dvu := true, cuv := true }       -- a <-o b
def cTC : PB := { cuv := true }                    -- a --o b
def cCT : PB := { cvu := true }                    -- a o-- b
def cRightBi : PB := { duv := true, bi := true }   -- a -> b and a <-> b   (ADMG)
def cLeftBi : PB := { dvu := true, bi := true }
def cRightUn : PB := { duv := true, un := true }   -- a -> b and a -- b    (ADMG)
def cLeftUn : PB := { dvu := true, un := true }
def cBiUn : PB := { bi := true, un := true }       -- a <-> b and a -- b   (ADMG)

/-- the per-pair configurations a class admits (quantifier of C14; `--o`/`o--` are included for the
    PAG because every matrix format documents the tail/circle combination) -/
def admits : Cls → List PB
  | .admg => [cRight, cLeft, cBi, cUn, cRightBi, cLeftBi, cRightUn, cLeftUn, cBiUn]
  | .cpdag => [cRight, cLeft, cUn]
  | .pag => [cRight, cLeft, cBi, cUn, cCC, cCR, cLC, cTC, cCT]

/-- documented code table: configuration of `(a,b)` ↦ `(M[a,b], M[b,a])`.

* numpy (`graph_to_numpy` notes): entry `[i,j]` is non-zero iff there is an edge from i to j,
  symmetric for undirected/bidirected; directed 1, circle endpoint 2, undirected 10, bidirected 20;
  several edges on a pair add up (`21` = directed + bidirected).
* causal-learn (`config.CLearnEndpoint`; `M[a,b]` is the endpoint at `a`): TAIL −1, ARROW 1,
  CIRCLE 2, TAIL_AND_ARROW 4, ARROW_AND_ARROW 5, TAIL_AND_TAIL 6.
* pcalg (`pcalg_to_graph` notes): `amat.pag` codes the mark at the *column* index
  (0 none, 1 circle, 2 arrowhead, 3 tail: `amat[a,b]=2, amat[b,a]=3` is `a --> b`); `amat.cpdag`
  codes the mark at the *row* index (`amat[a,b]=0, amat[b,a]=1` is `a --> b`, `1,1` is `a --- b`). -/
def table : Cls → Fmt → List (PB × Int × Int)
  | .admg, .numpy => [(cRight, 1, 0), (cLeft, 0, 1), (cBi, 20, 20), (cUn, 10, 10), (cRightBi, 21, 20),
      (cLeftBi, 20, 21), (cRightUn, 11, 10), (cLeftUn, 10, 11), (cBiUn, 30, 30)]
  | .cpdag, .numpy => [(cRight, 1, 0), (cLeft, 0, 1), (cUn, 10, 10)]
  | .pag, .numpy => [(cRight, 1, 0), (cLeft, 0, 1), (cBi, 20, 20), (cUn, 10, 10), (cCC, 2, 2), (cCR, 1, 2),
      (cLC, 2, 1), (cTC, 2, 0), (cCT, 0, 2)]
  | .admg, .clearn => [(cRight, -1, 1), (cLeft, 1, -1), (cBi, 1, 1), (cUn, -1, -1), (cRightBi, 4, 5),
      (cLeftBi, 5, 4), (cRightUn, 6, 4), (cLeftUn, 4, 6), (cBiUn, 4, 4)]
  | .cpdag, .clearn => [(cRight, -1, 1), (cLeft, 1, -1), (cUn, -1, -1)]
  | .pag, .clearn => [(cRight, -1, 1), (cLeft, 1, -1), (cBi, 1, 1), (cUn, -1, -1), (cCC, 2, 2), (cCR, 2, 1),
      (cLC, 1, 2), (cTC, -1, 2), (cCT, 2, -1)]
  | .admg, .pcalg => []
  | .cpdag, .pcalg => [(cRight, 0, 1), (cLeft, 1, 0), (cUn, 1, 1)]
  | .pag, .pcalg => [(cRight, 2, 3), (cLeft, 3, 2), (cBi, 2, 2), (cUn, 3, 3), (cCC, 1, 1), (cCR, 2, 1),
      (cLC, 1, 2), (cTC, 1, 3), (cCT, 3, 1)]

/-- Tetrad edge syntax: every edge is one line `a <m1>-<m2> b`; several edges on a pair are several
    lines, so every configuration a class admits is expressible -/
def tetTable : List (PB × List String) :=
  [(cRight, ["-->"]), (cLeft, ["<--"]), (cBi, ["<->"]), (cUn, ["---"]), (cCC, ["o-o"]), (cCR, ["o->"]),
   (cLC, ["<-o"]), (cTC, ["--o"]), (cCT, ["o--"]), (cRightBi, ["-->", "<->"]), (cLeftBi, ["<--", "<->"]),
   (cRightUn, ["-->", "---"]), (cLeftUn, ["<--", "---"]), (cBiUn, ["<->", "---"])]

def lookupCfg (t : List (PB × Int × Int)) (p : PB) : Option (Int × Int) :=
  (t.find? fun e => e.1 == p).map (·.2)

def lookupCells (t : List (PB × Int × Int)) (x y : Int) : Option PB :=
  (t.find? fun e => e.2.1 == x && e.2.2 == y).map (·.1)

/-- pair configuration expressible in the format -/
def expressible (c : Cls) (f : Fmt) (p : PB) : Bool := (lookupCfg (table c f) p).isSome

/-- `g` (nodes `0..n-1`) is a graph of class `c` in the domain of format `f` -/
def inDomain (c : Cls) (f : Fmt) (g : MG) (n : Nat) : Bool :=
  (allPairs n).all fun ij => ij.1 == ij.2 || bits g ij.1 ij.2 == PB.empty || expressible c f (bits g ij.1 ij.2)

/-- well-formed matrix: zero diagonal and every cell pair is `(0,0)` or a documented code pair -/
def wfMatrix (c : Cls) (f : Fmt) (A : Mat) (n : Nat) : Bool :=
  (allPairs n).all fun ij =>
    if ij.1 == ij.2 then A ij.1 ij.2 == 0
    else (A ij.1 ij.2 == 0 && A ij.2 ij.1 == 0) || (lookupCells (table c f) (A ij.1 ij.2) (A ij.2 ij.1)).isSome

/-- the matrix the documentation prescribes for `g` -/
def specEnc (c : Cls) (f : Fmt) (g : MG) : Mat := fun i j =>
  if i = j then 0 else ((lookupCfg (table c f) (bits g i j)).map (·.1)).getD 0

/-- the pair configuration the documentation prescribes for the cells of `(i,j)` -/
def specDecBits (c : Cls) (f : Fmt) (A : Mat) (i j : Nat) : PB :=
  if i = j then PB.empty else (lookupCells (table c f) (A i j) (A j i)).getD PB.empty

/-- same nodes, identical edges of every type -/
def SameGraph (g h : MG) (n : Nat) : Prop :=
  (∀ v, v ∈ g.nodes ↔ v ∈ h.nodes) ∧ ∀ i j, i < n → j < n → bits g i j = bits h i j

end C14
