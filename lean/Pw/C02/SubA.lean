import Pw.C02.CopyE

/-! # C02: `subgraph` – part A: the model's subgraph as a run of `add_edge` steps -/
namespace C02

theorem foldl_filterMap' {α β γ} (l : List α) (f : α → Option β) (g : γ → β → γ) (init : γ) :
    (l.filterMap f).foldl g init = l.foldl (fun acc x => match f x with | some b => g acc b | none => acc) init := by
  induction l generalizing init with
  | nil => rfl
  | cons a l ih =>
    simp only [List.filterMap_cons, List.foldl_cons]
    cases h : f a with
    | none => simp only [ih]
    | some b => simp only [List.foldl_cons, ih]

namespace MEG

/-- the direct layer insertion done by `subgraph` -/
def putDirect (G : MEG) (q : Quad) : MEG :=
  match G.layer? q.1 with
  | some LG => G.setLayer q.1 (LG.addEdge q.2.1 q.2.2.1 [])
  | none => G

def subQuads (g : MEG) (ns : List Nat) (ls : List (Nat × Layer)) : List Quad :=
  ls.flatMap fun p =>
    match g.layer? p.1 with
    | none => []
    | some L => ns.flatMap fun u => (L.adj u).filterMap fun va =>
        if ns.contains u && ns.contains va.1 then some (p.1, u, va.1, ([] : Attr)) else none

theorem subgraph_eq (g : MEG) (ns : List Nat) :
    g.subgraph ns =
      let G1 := (({ g.skeleton with gattr := Attr.upd [] g.gattr } : MEG).addNodes ns [])
      (subQuads g ns G1.layers).foldl putDirect G1 := by
  unfold subgraph subQuads
  simp only [foldl_flatMap']
  congr 1
  funext G p
  cases g.layer? p.1 with
  | none => rfl
  | some L =>
    simp only [foldl_flatMap', foldl_filterMap']
    congr 1
    funext G u
    congr 1
    funext G va
    split <;> simp_all [putDirect] <;> (cases G.layer? p.1 <;> rfl)

theorem nodeIds_setLayer (G : MEG) (t : Nat) (L : Layer) : (G.setLayer t L).nodeIds = G.nodeIds := rfl

/-- with both endpoints present, the direct insertion is the public `add_edge` -/
theorem putDirect_eq_step {G : MEG} {q : Quad} (hu : G.hasNode q.2.1 = true) (hw : G.hasNode q.2.2.1 = true) :
    G.putDirect q = (G.step (.addEdge q.2.1 q.2.2.1 (.one q.1) [])).1 := by
  simp only [putDirect, MEG.step, addEdge, ensureNode, hu, hw, ite_true]
  cases G.layer? q.1 <;> rfl

theorem foldl_putDirect (qs : List Quad) (G : MEG) (ns : List Nat) (hns : ∀ x ∈ ns, G.hasNode x = true)
    (hq : ∀ q ∈ qs, q.2.1 ∈ ns ∧ q.2.2.1 ∈ ns) :
    qs.foldl putDirect G = qs.foldl (fun G q => (G.step (.addEdge q.2.1 q.2.2.1 (.one q.1) [])).1) G := by
  induction qs generalizing G with
  | nil => rfl
  | cons q qs ih =>
    have h := hq q (by simp)
    simp only [List.foldl_cons]
    rw [← putDirect_eq_step (hns _ h.1) (hns _ h.2)]
    apply ih
    · intro x hx
      have := hns x hx
      unfold putDirect
      cases G.layer? q.1 with
      | none => exact this
      | some LG => simpa [hasNode, nodeIds_setLayer] using this
    · intro q' hq'; exact hq q' (List.mem_cons_of_mem _ hq')

theorem mem_subQuads {g : MEG} {ns : List Nat} {ls : List (Nat × Layer)} {q : Quad} :
    q ∈ subQuads g ns ls ↔ ∃ p ∈ ls, ∃ L, g.layer? p.1 = some L ∧ q.1 = p.1 ∧ q.2.1 ∈ ns ∧ q.2.2.1 ∈ ns ∧
      q.2.2.2 = [] ∧ ∃ a, (q.2.2.1, a) ∈ L.adj q.2.1 := by
  obtain ⟨t, u, w, a⟩ := q
  simp only [subQuads, List.mem_flatMap]
  constructor
  · rintro ⟨p, hp, h⟩
    rcases Option.eq_none_or_eq_some (g.layer? p.1) with hL | ⟨L, hL⟩
    · simp [hL] at h
    · simp only [hL, List.mem_flatMap, List.mem_filterMap] at h
      obtain ⟨u', hu', va, hva, h⟩ := h
      split at h
      · rename_i hc
        simp only [Option.some.injEq, Prod.mk.injEq] at h
        obtain ⟨rfl, rfl, rfl, rfl⟩ := h
        simp only [Bool.and_eq_true, List.contains_eq_mem, decide_eq_true_eq] at hc
        exact ⟨p, hp, L, hL, rfl, hc.1, hc.2, rfl, va.2, hva⟩
      · simp at h
  · rintro ⟨p, hp, L, hL, rfl, hu, hw, rfl, a', ha'⟩
    refine ⟨p, hp, ?_⟩
    simp only [hL, List.mem_flatMap, List.mem_filterMap]
    refine ⟨u, hu, (w, a'), ha', ?_⟩
    simp [hu, hw]

end MEG
end C02
