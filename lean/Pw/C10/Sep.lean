import Pw.C01.Full
import Pw.C10.Spec
open Closure

/-! # C10, second sentence (T9): replacing every `a <-> b` by `a <- U -> b` preserves separation

`IsConv G R asg` describes the relation "R is G with a latent parent per bidirected edge" by
memberships only; `asg` lists the pairs (latent, bidirected edge).  The theorem is proved at walk
level by translating `MG.Conn` derivations hop by hop and then lifted to the C01 model
(`MG.mSeparated`) and to the path-level specification (`MG.MSep`). -/
namespace C10
open MG

structure IsConv (G R : MG) (asg : List (Nat × (Nat × Nat))) : Prop where
  wf : G.WF
  un : G.un = []
  /-- a latent serves one bidirected edge -/
  fn : ∀ u e e', (u, e) ∈ asg → (u, e') ∈ asg → e = e'
  /-- latents are not nodes of G -/
  fresh : ∀ u e, (u, e) ∈ asg → u ∉ G.nodes
  bi_asg : ∀ e, e ∈ G.bi → ∃ u, (u, e) ∈ asg
  asg_bi : ∀ u e, (u, e) ∈ asg → e ∈ G.bi
  nodes : ∀ v, v ∈ R.nodes ↔ v ∈ G.nodes ∨ ∃ e, (v, e) ∈ asg
  dir : ∀ p c, (p, c) ∈ R.dir ↔ (p, c) ∈ G.dir ∨ ∃ e, (p, e) ∈ asg ∧ (c = e.1 ∨ c = e.2)
  rbi : R.bi = []
  run : R.un = []

variable {G R : MG} {asg : List (Nat × (Nat × Nat))}

theorem IsConv.wfR (h : IsConv G R asg) : R.WF := by
  refine ⟨?_, ?_, ?_⟩
  · intro e he
    obtain ⟨p, c⟩ := e
    rcases (h.dir p c).mp he with hd | ⟨e', ha, hc⟩
    · exact ⟨(h.nodes p).mpr (Or.inl (h.wf.1 _ hd).1), (h.nodes c).mpr (Or.inl (h.wf.1 _ hd).2)⟩
    · have hb := h.wf.2.1 _ (h.asg_bi _ _ ha)
      refine ⟨(h.nodes p).mpr (Or.inr ⟨e', ha⟩), (h.nodes c).mpr (Or.inl ?_)⟩
      rcases hc with rfl | rfl
      · exact hb.1
      · exact hb.2
  · rw [h.rbi]; intro e he; cases he
  · rw [h.run]; intro e he; cases he

theorem IsConv.anc_of_R (h : IsConv G R asg) {v z : Nat} (ha : Anc R v z) (hv : v ∈ G.nodes) :
    Anc G v z := by
  induction ha with
  | refl => exact Anc.refl _
  | step e _ ih =>
    rcases (h.dir _ _).mp e with hd | ⟨e', ha', _⟩
    · exact Anc.step hd (ih (h.wf.1 _ hd).2)
    · exact absurd hv (h.fresh _ _ ha')

theorem IsConv.anc_to_R (h : IsConv G R asg) {v z : Nat} (ha : Anc G v z) : Anc R v z := by
  induction ha with
  | refl => exact Anc.refl _
  | step e _ ih => exact Anc.step ((h.dir _ _).mpr (Or.inl e)) ih

/-- original nodes have the same directed descendants in both graphs -/
theorem IsConv.mem_anc_iff (h : IsConv G R asg) {Z : List Nat} (hZ : ∀ z ∈ Z, z ∈ G.nodes)
    {v : Nat} (hv : v ∈ G.nodes) : v ∈ R.anc Z ↔ v ∈ G.anc Z := by
  have hZR : ∀ z ∈ Z, z ∈ R.nodes := fun z hz => (h.nodes z).mpr (Or.inl (hZ z hz))
  rw [mem_anc h.wfR hZR, mem_anc h.wf hZ]
  constructor
  · rintro ⟨z, hz, ha⟩; exact ⟨z, hz, h.anc_of_R ha hv⟩
  · rintro ⟨z, hz, ha⟩; exact ⟨z, hz, h.anc_to_R ha⟩

/-- G-walk ⇒ R-walk: a hop `v <-> w` becomes `v <- U -> w`; U is a non-collider outside Z -/
theorem IsConv.conn_to_R (h : IsConv G R asg) {Z : List Nat} (hZ : ∀ z ∈ Z, z ∈ G.nodes) {x : Nat}
    (hx : x ∈ G.nodes) {v : Nat} {m : Mark} (hc : Conn G Z (G.anc Z) x v m) :
    v ∈ G.nodes ∧ Conn R Z (R.anc Z) x v m := by
  induction hc with
  | start => exact ⟨hx, Conn.start⟩
  | @step v w m mv mw hc he hcond ih =>
    obtain ⟨hv, ihc⟩ := ih
    have hw : w ∈ G.nodes := HasEdge.mem_nodes h.wf he
    refine ⟨hw, ?_⟩
    have hcondR : (if m = .head ∧ mv = .head then v ∈ R.anc Z else v ∉ Z) := by
      by_cases hh : m = .head ∧ mv = .head
      · rw [if_pos hh] at hcond ⊢; exact (h.mem_anc_iff hZ hv).mpr hcond
      · rw [if_neg hh] at hcond ⊢; exact hcond
    rcases he with ⟨rfl, rfl, hd⟩ | ⟨rfl, rfl, hd⟩ | ⟨rfl, rfl, hb⟩ | ⟨rfl, rfl, hu⟩
    · exact Conn.step ihc (Or.inl ⟨rfl, rfl, (h.dir _ _).mpr (Or.inl hd)⟩) hcondR
    · exact Conn.step ihc (Or.inr (Or.inl ⟨rfl, rfl, (h.dir _ _).mpr (Or.inl hd)⟩)) hcondR
    · have : ∃ u e, (u, e) ∈ asg ∧ ((v = e.1 ∧ w = e.2) ∨ (v = e.2 ∧ w = e.1)) := by
        rcases hb with hb | hb
        · obtain ⟨u, hu⟩ := h.bi_asg _ hb; exact ⟨u, (v, w), hu, Or.inl ⟨rfl, rfl⟩⟩
        · obtain ⟨u, hu⟩ := h.bi_asg _ hb; exact ⟨u, (w, v), hu, Or.inr ⟨rfl, rfl⟩⟩
      obtain ⟨u, e, hue, hvw⟩ := this
      have huv : (u, v) ∈ R.dir := by
        refine (h.dir _ _).mpr (Or.inr ⟨e, hue, ?_⟩)
        rcases hvw with ⟨a, _⟩ | ⟨a, _⟩
        · exact Or.inl a
        · exact Or.inr a
      have huw : (u, w) ∈ R.dir := by
        refine (h.dir _ _).mpr (Or.inr ⟨e, hue, ?_⟩)
        rcases hvw with ⟨_, a⟩ | ⟨_, a⟩
        · exact Or.inr a
        · exact Or.inl a
      have c1 : Conn R Z (R.anc Z) x u .tail :=
        Conn.step ihc (Or.inr (Or.inl ⟨rfl, rfl, huv⟩)) hcondR
      refine Conn.step c1 (Or.inl ⟨rfl, rfl, huw⟩) ?_
      have : u ∉ Z := fun hz => h.fresh _ _ hue (hZ _ hz)
      simpa using this
    · rw [h.un] at hu; simp at hu

/-- condition for leaving `v` through an arrowhead after having arrived with mark `m` -/
def condH (Z anZ : List Nat) (m : Mark) (v : Nat) : Prop := if m = .head then v ∈ anZ else v ∉ Z

/-- "the G-walk is at v as if it had arrived with mark m": either it did, or m is an arrowhead
    standing for a detour `v <- U -> v` of the R-walk, and leaving v through an arrowhead is known
    to be legal -/
def I (G : MG) (Z : List Nat) (x v : Nat) (m : Mark) : Prop :=
  ∃ m', Conn G Z (G.anc Z) x v m' ∧ (m' = m ∨ (m = .head ∧ condH Z (G.anc Z) m' v))

theorem I.step {G : MG} {Z : List Nat} {x v w : Nat} {m mv mw : Mark} (hi : I G Z x v m)
    (he : HasEdge G v w mv mw) (hc : if m = .head ∧ mv = .head then v ∈ G.anc Z else v ∉ Z) :
    Conn G Z (G.anc Z) x w mw := by
  obtain ⟨m', hconn, rfl | ⟨rfl, hcond⟩⟩ := hi
  · exact Conn.step hconn he hc
  · refine Conn.step hconn he ?_
    unfold condH at hcond
    cases m' <;> cases mv <;> simp_all

/-- R-walk ⇒ G-walk: a walk through a latent enters and leaves by its two out-edges -/
theorem IsConv.conn_of_R (h : IsConv G R asg) {Z : List Nat} (hZ : ∀ z ∈ Z, z ∈ G.nodes) {x : Nat}
    (hx : x ∈ G.nodes) {v : Nat} {m : Mark} (hc : Conn R Z (R.anc Z) x v m) :
    (v ∈ G.nodes → I G Z x v m) ∧
    (∀ e, (v, e) ∈ asg → ∃ a, (a = e.1 ∨ a = e.2) ∧ ∃ ma, I G Z x a ma ∧ condH Z (G.anc Z) ma a) := by
  induction hc with
  | start => exact ⟨fun _ => ⟨.tail, Conn.start, Or.inl rfl⟩, fun e he => absurd hx (h.fresh _ _ he)⟩
  | @step v w m mv mw hc he hcond ih =>
    obtain ⟨ihV, ihU⟩ := ih
    have hedge : (mv = .tail ∧ mw = .head ∧ (v, w) ∈ R.dir) ∨ (mv = .head ∧ mw = .tail ∧ (w, v) ∈ R.dir) := by
      rcases he with h1 | h1 | ⟨_, _, h3⟩ | ⟨_, _, h3⟩
      · exact Or.inl h1
      · exact Or.inr h1
      · rw [h.rbi] at h3; simp at h3
      · rw [h.run] at h3; simp at h3
    rcases hedge with ⟨rfl, rfl, hd⟩ | ⟨rfl, rfl, hd⟩
    · -- the walk follows an edge v -> w
      rcases (h.dir _ _).mp hd with hd | ⟨e, hue, hw⟩
      · have hv := (h.wf.1 _ hd).1
        have hw := (h.wf.1 _ hd).2
        constructor
        · intro _
          exact ⟨.head, (ihV hv).step (Or.inl ⟨rfl, rfl, hd⟩) (by simpa using hcond), Or.inl rfl⟩
        · intro e he; exact absurd hw (h.fresh _ _ he)
      · -- v is a latent: we came from an endpoint `a` of its edge and go to the endpoint `w`
        obtain ⟨a, ha, ma, hia, hca⟩ := ihU e hue
        have hbi := h.asg_bi _ _ hue
        have hwV : w ∈ G.nodes := by
          rcases hw with rfl | rfl
          · exact (h.wf.2.1 _ hbi).1
          · exact (h.wf.2.1 _ hbi).2
        constructor
        · intro _
          by_cases haw : a = w
          · subst haw
            obtain ⟨m', hconn, rfl | ⟨rfl, hcond'⟩⟩ := hia
            · exact ⟨m', hconn, Or.inr ⟨rfl, hca⟩⟩
            · exact ⟨m', hconn, Or.inr ⟨rfl, hcond'⟩⟩
          · have hedgeG : HasEdge G a w .head .head := by
              refine Or.inr (Or.inr (Or.inl ⟨rfl, rfl, ?_⟩))
              rcases ha with rfl | rfl <;> rcases hw with rfl | rfl
              · exact absurd rfl haw
              · exact Or.inl hbi
              · exact Or.inr hbi
              · exact absurd rfl haw
            exact ⟨.head, hia.step hedgeG (by simpa [condH] using hca), Or.inl rfl⟩
        · intro e' he'; exact absurd hwV (h.fresh _ _ he')
    · -- the walk goes against an edge w -> v
      rcases (h.dir _ _).mp hd with hd | ⟨e, hue, hv⟩
      · have hw := (h.wf.1 _ hd).1
        have hv := (h.wf.1 _ hd).2
        constructor
        · intro _
          refine ⟨.tail, (ihV hv).step (Or.inr (Or.inl ⟨rfl, rfl, hd⟩)) ?_, Or.inl rfl⟩
          by_cases hh : m = .head ∧ Mark.head = .head
          · rw [if_pos hh] at hcond ⊢; exact (h.mem_anc_iff hZ hv).mp hcond
          · rw [if_neg hh] at hcond ⊢; exact hcond
        · intro e he; exact absurd hw (h.fresh _ _ he)
      · -- w is a latent, v an endpoint of its edge
        have hbi := h.asg_bi _ _ hue
        have hvV : v ∈ G.nodes := by
          rcases hv with rfl | rfl
          · exact (h.wf.2.1 _ hbi).1
          · exact (h.wf.2.1 _ hbi).2
        constructor
        · intro hwV; exact absurd hwV (h.fresh _ _ hue)
        · intro e' he'
          have := h.fn _ _ _ hue he'
          subst this
          refine ⟨v, hv, m, ihV hvV, ?_⟩
          unfold condH
          by_cases hm : m = .head
          · simp only [hm, and_self, if_true] at hcond ⊢; exact (h.mem_anc_iff hZ hvV).mp hcond
          · simp only [hm, false_and, if_false] at hcond ⊢; exact hcond

/-- T9, walk level -/
theorem IsConv.conn_iff (h : IsConv G R asg) {Z : List Nat} (hZ : ∀ z ∈ Z, z ∈ G.nodes) {x y : Nat}
    (hx : x ∈ G.nodes) (hy : y ∈ G.nodes) :
    (∃ m, Conn R Z (R.anc Z) x y m) ↔ (∃ m, Conn G Z (G.anc Z) x y m) := by
  constructor
  · rintro ⟨m, hc⟩
    obtain ⟨m', hconn, _⟩ := (h.conn_of_R hZ hx hc).1 hy
    exact ⟨m', hconn⟩
  · rintro ⟨m, hc⟩
    exact ⟨m, (h.conn_to_R hZ hx hc).2⟩

/-- **C10, second sentence for the models.** The C01 model answers the same on the converted
    graph and on G, for X, Y, Z sets of original nodes. -/
theorem mSeparated_of_isConv (h : IsConv G R asg) (X Y Z : List Nat) (hX : ∀ x ∈ X, x ∈ G.nodes)
    (hY : ∀ y ∈ Y, y ∈ G.nodes) (hZ : ∀ z ∈ Z, z ∈ G.nodes) :
    mSeparated R X Y Z = mSeparated G X Y Z := by
  have hXR : ∀ x ∈ X, x ∈ R.nodes := fun x hx => (h.nodes x).mpr (Or.inl (hX x hx))
  rw [Bool.eq_iff_iff, mSeparated_eq_noWalk R h.wfR X Y Z hXR, mSeparated_eq_noWalk G h.wf X Y Z hX]
  apply not_congr
  constructor
  · rintro ⟨x, hx, y, hy, hm⟩
    exact ⟨x, hx, y, hy, (h.conn_iff hZ (hX x hx) (hY y hy)).mp hm⟩
  · rintro ⟨x, hx, y, hy, hm⟩
    exact ⟨x, hx, y, hy, (h.conn_iff hZ (hX x hx) (hY y hy)).mpr hm⟩

theorem IsConv.noSelfLoopR (h : IsConv G R asg) (hsl : NoSelfLoop G) : NoSelfLoop R := by
  intro a ma mb he
  have hd : (a, a) ∈ R.dir := by
    rcases he with ⟨_, _, h3⟩ | ⟨_, _, h3⟩ | ⟨_, _, h3⟩ | ⟨_, _, h3⟩
    · exact h3
    · exact h3
    · rw [h.rbi] at h3; simp at h3
    · rw [h.run] at h3; simp at h3
  rcases (h.dir _ _).mp hd with hd | ⟨e, hue, ha⟩
  · exact hsl a .tail .head (Or.inl ⟨rfl, rfl, hd⟩)
  · have hbi := h.wf.2.1 _ (h.asg_bi _ _ hue)
    apply h.fresh _ _ hue
    rcases ha with ha | ha
    · rw [ha]; exact hbi.1
    · rw [ha]; exact hbi.2

/-- **C10, second sentence, path level.** d-separation (by simple paths) in the converted graph
    equals m-separation (by simple paths) in G, for all X, Y, Z of original nodes with X ∩ Z = ∅. -/
theorem sepPreserved_of_isConv (h : IsConv G R asg) (hsl : NoSelfLoop G) : SepPreserved G R := by
  intro X Y Z hX hY hZ hXZ _
  have hXR : ∀ x ∈ X, x ∈ R.nodes := fun x hx => (h.nodes x).mpr (Or.inl (hX x hx))
  have hZR : ∀ z ∈ Z, z ∈ R.nodes := fun z hz => (h.nodes z).mpr (Or.inl (hZ z hz))
  rw [← mSeparated_iff_MSep R h.wfR (noUndirAtHead_of_un_nil R h.run) (h.noSelfLoopR hsl) X Y Z hXR hZR hXZ,
    ← mSeparated_iff_MSep G h.wf (noUndirAtHead_of_un_nil G h.un) hsl X Y Z hX hZ hXZ,
    mSeparated_of_isConv h X Y Z hX hY hZ]

/-- the converted graph has directed edges only, so m-separation in it *is* d-separation: every hop
    of a walk in `R` follows or opposes a directed edge -/
theorem IsConv.edges_directed (h : IsConv G R asg) {a b : Nat} {ma mb : Mark} (he : HasEdge R a b ma mb) :
    (ma = .tail ∧ mb = .head ∧ (a, b) ∈ R.dir) ∨ (ma = .head ∧ mb = .tail ∧ (b, a) ∈ R.dir) := by
  rcases he with h1 | h1 | ⟨_, _, h3⟩ | ⟨_, _, h3⟩
  · exact Or.inl h1
  · exact Or.inr h1
  · rw [h.rbi] at h3; simp at h3
  · rw [h.run] at h3; simp at h3

end C10
