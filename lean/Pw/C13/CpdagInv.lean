import Pw.C13.Cpdag

/-! # C13 — the CPDAG mark guard keeps `NoConf` along every history

`NoConf` (no node pair with a directed edge and an opposite directed or an undirected edge) holds in
the empty CPDAG and is preserved by every operation of the C13 model of the
StationaryTimeSeriesCPDAG that stays inside the calling convention `Op.CpdagSafe` (no
`edge_type='all'` additions, no self loops, bulk additions name pairwise different variable pairs –
the three restrictions are recorded known findings / outside C03's quantifier):

* the guard looks at the *named* node pair only, the edge is then stored on every homologous copy;
  that the copies are conflict free as well is where `ShiftClosed` (the C13 invariant) is used;
* `set_max_lag` growth re-adds every edge in the larger window: every new edge is a time shift of an
  old one, and a conflict between shifted edges shifts back to a conflict at lag 0.

Together with `copy_same_cpdag`: `C13_copy_cpdag`. -/
namespace C13

/-! ## time shifts -/

/-- `e'` is a time shift of `e` -/
def Shift (e e' : Edge) : Prop :=
  e'.1.1 = e.1.1 ∧ e'.2.1 = e.2.1 ∧ e'.1.2 + e.2.2 = e.1.2 + e'.2.2

theorem Shift.symm {e e' : Edge} (h : Shift e e') : Shift e' e := ⟨h.1.symm, h.2.1.symm, by have := h.2.2; omega⟩

theorem Shift.swap {e e' : Edge} (h : Shift e e') : Shift (swap e) (swap e') :=
  ⟨h.2.1, h.1, by have := h.2.2; simp only [C13.swap]; omega⟩

theorem ShiftClosed.shift {m : Nat} {E : List Edge} (h : ShiftClosed m E) {e e' : Edge} (he : e ∈ E)
    (hs : Shift e e') (h1 : e'.1.2 ≤ m) (h2 : e'.2.2 ≤ m) : e' ∈ E := by
  obtain ⟨⟨x, a⟩, ⟨y, b⟩⟩ := e
  obtain ⟨⟨x', a'⟩, ⟨y', b'⟩⟩ := e'
  obtain ⟨hx, hy, hl⟩ := hs
  simp only at hx hy hl h1 h2
  subst hx hy
  exact h x' a y' b he a' b' h1 h2 hl

theorem shift_of_mem_copies_fwd {k : Kind} {m : Nat} {e p : Edge} (hk : k ≠ .und) (hf : e.2.2 ≤ e.1.2)
    (hp : p ∈ copies k m e) : Shift e p ∧ p.1.2 ≤ m ∧ p.2.2 ≤ m := by
  rw [mem_copies_fwd hk hf] at hp
  obtain ⟨i, hi, rfl⟩ := hp
  exact ⟨⟨rfl, rfl, by simp only; omega⟩, by simp only; omega, by simp only; omega⟩

theorem shift_of_mem_copies_und {m : Nat} {e p : Edge} (hp : p ∈ copies .und m e) :
    Shift (canonUnd e) p ∧ p.1.2 ≤ m ∧ p.2.2 ≤ m := by
  rw [mem_copies_und] at hp
  obtain ⟨i, hi, rfl⟩ := hp
  have := canonUnd_forward e
  exact ⟨⟨rfl, rfl, by simp only; omega⟩, by simp only; omega, by simp only; omega⟩

theorem canonUnd_cases (e : Edge) : canonUnd e = e ∨ canonUnd e = swap e := by
  unfold canonUnd
  split
  · exact Or.inr rfl
  · split
    · exact Or.inr rfl
    · exact Or.inl rfl

theorem swap_swap (e : Edge) : swap (swap e) = e := rfl

/-! ## the invariant on the two edge lists -/

def NoConfL (D U : List Edge) : Prop :=
  ∀ p q, (p, q) ∈ D → (q, p) ∉ D ∧ (p, q) ∉ U ∧ (q, p) ∉ U

theorem noConf_iff {s : St} {D U : List Edge} (h : s.layers = [⟨.dir, D⟩, ⟨.und, U⟩]) :
    NoConf s ↔ NoConfL D U := by
  simp [NoConf, NoConfL, layerEdges, h]

theorem shape_of {s : St} {D U : List Edge} (h : s.layers = [⟨.dir, D⟩, ⟨.und, U⟩]) : Shape s := by
  simp [Shape, h]

theorem NoConfL.mono {D U D' U' : List Edge} (h : NoConfL D U) (hD : ∀ e ∈ D', e ∈ D)
    (hU : ∀ e ∈ U', e ∈ U) : NoConfL D' U' := by
  intro p q hpq
  obtain ⟨h1, h2, h3⟩ := h p q (hD _ hpq)
  exact ⟨fun hh => h1 (hD _ hh), fun hh => h2 (hU _ hh), fun hh => h3 (hU _ hh)⟩

/-- a guarded directed addition: the guard has looked at the named pair `(a, b)` only -/
theorem noConfL_add_dir {m : Nat} {D U : List Edge} (hD : ShiftClosed m D) (hU : ShiftClosed m U)
    (h : NoConfL D U) {a b : Node} (ha : a.2 ≤ m) (hb : b.2 ≤ m) (hf : b.2 ≤ a.2) (hab : a ≠ b)
    (g1 : (b, a) ∉ D) (g2 : (a, b) ∉ U) (g3 : (b, a) ∉ U) :
    NoConfL (union D (copies .dir m (a, b))) U := by
  have hcp : ∀ p, p ∈ copies .dir m (a, b) → Shift (a, b) p ∧ p.1.2 ≤ m ∧ p.2.2 ≤ m :=
    fun p hp => shift_of_mem_copies_fwd (by simp) hf hp
  intro p q hpq
  rw [mem_union] at hpq
  refine ⟨fun hqp => ?_, ?_, ?_⟩
  · rw [mem_union] at hqp
    rcases hpq with hpq | hpq <;> rcases hqp with hqp | hqp
    · exact (h p q hpq).1 hqp
    · -- (q,p) is a shift of (a,b), so (p,q) ∈ D shifts to (b,a) ∈ D
      obtain ⟨hs, _, _⟩ := hcp _ hqp
      exact g1 (hD.shift hpq hs.swap.symm hb ha)
    · obtain ⟨hs, _, _⟩ := hcp _ hpq
      exact g1 (hD.shift hqp hs.swap.symm hb ha)
    · obtain ⟨hs1, _, _⟩ := hcp _ hpq
      obtain ⟨hs2, _, _⟩ := hcp _ hqp
      obtain ⟨x, i⟩ := a
      obtain ⟨y, j⟩ := b
      obtain ⟨⟨x1, i1⟩, ⟨y1, j1⟩⟩ := (p, q)
      obtain ⟨c1, c2, c3⟩ := hs1
      obtain ⟨d1, d2, d3⟩ := hs2
      simp only [Prod.mk.injEq, ne_eq, not_and] at *
      apply hab
      · omega
      · omega
  · intro hpu
    rcases hpq with hpq | hpq
    · exact (h p q hpq).2.1 hpu
    · obtain ⟨hs, _, _⟩ := hcp _ hpq
      exact g2 (hU.shift hpu hs.symm ha hb)
  · intro hqu
    rcases hpq with hpq | hpq
    · exact (h p q hpq).2.2 hqu
    · obtain ⟨hs, _, _⟩ := hcp _ hpq
      exact g3 (hU.shift hqu hs.swap.symm hb ha)

/-- a guarded undirected addition -/
theorem noConfL_add_und {m : Nat} {D U : List Edge} (hD : ShiftClosed m D)
    (h : NoConfL D U) {a b : Node} (ha : a.2 ≤ m) (hb : b.2 ≤ m)
    (g1 : (a, b) ∉ D) (g2 : (b, a) ∉ D) :
    NoConfL D (union U (copies .und m (a, b))) := by
  have hcp : ∀ p, p ∈ copies .und m (a, b) → (Shift (a, b) p ∨ Shift (b, a) p) := by
    intro p hp
    obtain ⟨hs, _, _⟩ := shift_of_mem_copies_und hp
    rcases canonUnd_cases (a, b) with hc | hc
    · rw [hc] at hs; exact Or.inl hs
    · rw [hc] at hs; exact Or.inr hs
  intro p q hpq
  obtain ⟨h1, h2, h3⟩ := h p q hpq
  refine ⟨h1, fun hpu => ?_, fun hqu => ?_⟩
  · rw [mem_union] at hpu
    rcases hpu with hpu | hpu
    · exact h2 hpu
    · rcases hcp _ hpu with hs | hs
      · exact g1 (hD.shift hpq hs.symm ha hb)
      · exact g2 (hD.shift hpq hs.symm hb ha)
  · rw [mem_union] at hqu
    rcases hqu with hqu | hqu
    · exact h3 hqu
    · rcases hcp _ hqu with hs | hs
      · exact g2 (hD.shift hpq hs.swap.symm hb ha)
      · exact g1 (hD.shift hpq hs.swap.symm ha hb)

/-! ## the combined invariant of a CPDAG state -/

/-- C13 invariant + two CPDAG edge types + C03's CPDAG invariant -/
def CInv (s : St) : Prop := Inv s ∧ Shape s ∧ NoConf s

theorem CInv.layerInv {s : St} (h : CInv s) :
    LayerInv s.nodes s.maxLag ⟨.dir, layerEdges s 0⟩ ∧ LayerInv s.nodes s.maxLag ⟨.und, layerEdges s 1⟩ := by
  have hl := h.2.1.layers
  exact ⟨h.1.2 _ (by rw [hl]; simp), h.1.2 _ (by rw [hl]; simp)⟩

theorem CInv.noConfL {s : St} (h : CInv s) : NoConfL (layerEdges s 0) (layerEdges s 1) :=
  (noConf_iff h.2.1.layers).1 h.2.2

/-- the CPDAG part of the invariant only depends on the layers -/
theorem cinv_of_layers {s t : St} (hi : Inv t) (h : CInv s) (hl : t.layers = s.layers) : CInv t := by
  refine ⟨hi, ?_, ?_⟩
  · have := h.2.1; unfold Shape at this ⊢; rw [hl]; exact this
  · have := h.2.2; unfold NoConf layerEdges at this ⊢; rw [hl]; exact this

/-- … and survives when both edge lists shrink -/
theorem cinv_of_sub {s t : St} (hi : Inv t) (h : CInv s) {D' U' : List Edge}
    (hl : t.layers = [⟨.dir, D'⟩, ⟨.und, U'⟩]) (hD : ∀ e ∈ D', e ∈ layerEdges s 0)
    (hU : ∀ e ∈ U', e ∈ layerEdges s 1) : CInv t :=
  ⟨hi, shape_of hl, (noConf_iff hl).2 (h.noConfL.mono hD hU)⟩

theorem init_cinv (m : Nat) : CInv (init cfgCpdag m) := by
  refine ⟨init_inv _ _, by simp [Shape, init, cfgCpdag], ?_⟩
  intro p q h
  simp [layerEdges, init, cfgCpdag] at h

/-! ## a single guarded addition -/

/-- what an accepted `add_edge` of a mixed-edge class has checked and done -/
theorem addEdgeMixed_acc {cfg : Cfg} {s : St} {sel : Sel} {u v : TNode}
    (h : (addEdgeMixed cfg s sel u v).2 = false) :
    guardBad cfg s sel u v = false ∧ okEdge s.maxLag u v = true ∧ selOk s.layers.length sel = true ∧
      (addEdgeMixed cfg s sel u v).1.layers = mapSel sel (·.add s.maxLag u v) 0 s.layers := by
  unfold addEdgeMixed at h ⊢
  cases hg : guardBad cfg s sel u v with
  | true => simp [hg] at h
  | false =>
    simp only [hg, Bool.false_eq_true, if_false] at h ⊢
    cases h1 : ensureNode s u with
    | none => simp [h1] at h
    | some s1 =>
      obtain ⟨a1, b1⟩ := ensureNode_frame h1
      simp only [h1] at h ⊢
      cases h2 : ensureNode s1 v with
      | none => simp [h2] at h
      | some s2 =>
        obtain ⟨a2, b2⟩ := ensureNode_frame h2
        simp only [h2] at h ⊢
        cases hs : selOk s2.layers.length sel with
        | false => simp [hs] at h
        | true =>
          cases hok : okEdge s2.maxLag u v with
          | false => simp [hs, hok] at h
          | true =>
            simp only [Bool.not_true, Bool.false_eq_true, if_false]
            rw [b2, b1] at hs
            rw [a2, a1] at hok
            exact ⟨trivial, hok, hs, by rw [b2, b1, a2, a1]⟩

theorem toNode_inj {u v : TNode} (hu : u.2 ≤ 0) (hv : v.2 ≤ 0) (h : toNode u = toNode v) : u = v := by
  obtain ⟨x, a⟩ := u
  obtain ⟨y, b⟩ := v
  simp only [toNode, lag, Prod.mk.injEq] at h ⊢
  simp only at hu hv
  exact ⟨h.1, by omega⟩

theorem okEdge_nonpos {m : Nat} {u v : TNode} (h : okEdge m u v = true) : u.2 ≤ 0 ∧ v.2 ≤ 0 := by
  simp only [okEdge, valid, Bool.and_eq_true, decide_eq_true_eq] at h
  exact ⟨h.1.1.1, h.1.2.1⟩

theorem hasDir_eq {E : List Edge} {u v : TNode} (hu : u.2 ≤ 0) (hv : v.2 ≤ 0) :
    hasDir E u v = E.contains (toNode u, toNode v) := by simp [hasDir, hu, hv]

/-- **the CPDAG guard keeps the invariant** (`add_edge(u, v, edge_type)` with a named edge type,
`u ≠ v`; accepted or not) -/
theorem cinv_addEdge {s : St} (h : CInv s) (i : Nat) (u v : TNode) (huv : u ≠ v) :
    CInv (addEdge cfgCpdag s (.one i) u v).1 := by
  have hi' : Inv (addEdge cfgCpdag s (.one i) u v).1 := inv_addEdge cfgCpdag h.1 _ _ _
  have hadd : addEdge cfgCpdag s (.one i) u v = addEdgeMixed cfgCpdag s (.one i) u v := by
    simp [addEdge, cfgCpdag]
  rw [hadd] at hi' ⊢
  cases hr : (addEdgeMixed cfgCpdag s (.one i) u v).2 with
  | true => exact cinv_of_layers hi' h (addEdgeMixed_rej cfgCpdag s _ u v hr).1
  | false =>
    obtain ⟨hg, hok, hsel, hlay⟩ := addEdgeMixed_acc hr
    obtain ⟨hu0, hv0⟩ := okEdge_nonpos hok
    obtain ⟨hlu, hlv, hfw⟩ := okEdge_lags hok
    have hne : toNode u ≠ toNode v := fun hh => huv (toNode_inj hu0 hv0 hh)
    obtain ⟨⟨_, hD, _, _⟩, ⟨_, hU, _, _⟩⟩ := h.layerInv
    have hl := h.2.1.layers
    rw [hl] at hlay hsel
    match i with
    | 0 =>
      simp only [guardBad, cfgCpdag, hasUnd, hasDir_eq hu0 hv0, hasDir_eq hv0 hu0, Bool.or_eq_false_iff,
        List.contains_eq_mem, decide_eq_false_iff_not] at hg
      simp only [mapSel, selHas, beq_self_eq_true, if_true, Layer.add] at hlay
      have hlay' : (addEdgeMixed cfgCpdag s (.one 0) u v).1.layers =
          [⟨.dir, union (layerEdges s 0) (copies .dir s.maxLag (toNode u, toNode v))⟩,
           ⟨.und, layerEdges s 1⟩] := by rw [hlay]; rfl
      exact ⟨hi', shape_of hlay', (noConf_iff hlay').2
        (noConfL_add_dir hD hU h.noConfL hlu hlv hfw hne hg.2 hg.1.1 hg.1.2)⟩
    | 1 =>
      simp only [guardBad, cfgCpdag, hasDir_eq hu0 hv0, hasDir_eq hv0 hu0, Bool.or_eq_false_iff,
        List.contains_eq_mem, decide_eq_false_iff_not] at hg
      simp only [mapSel, selHas, Layer.add] at hlay
      have hlay' : (addEdgeMixed cfgCpdag s (.one 1) u v).1.layers =
          [⟨.dir, layerEdges s 0⟩,
           ⟨.und, union (layerEdges s 1) (copies .und s.maxLag (toNode u, toNode v))⟩] := by rw [hlay]; rfl
      exact ⟨hi', shape_of hlay', (noConf_iff hlay').2
        (noConfL_add_und hD h.noConfL hlu hlv hg.1 hg.2)⟩
    | _ + 2 => simp [selOk] at hsel; omega

/-! ## removals, variables, shrinking: both edge lists only shrink -/

theorem cinv_of_sub' {s t : St} (hi : Inv t) (h : CInv s) {A B : Layer} (hl : t.layers = [A, B])
    (hA : A.kind = .dir) (hB : B.kind = .und) (hD : ∀ e ∈ A.edges, e ∈ layerEdges s 0)
    (hU : ∀ e ∈ B.edges, e ∈ layerEdges s 1) : CInv t := by
  obtain ⟨kA, D'⟩ := A
  obtain ⟨kB, U'⟩ := B
  simp only at hA hB
  subst hA hB
  exact cinv_of_sub hi h hl hD hU

theorem mapSel_two (sel : Sel) (f : Layer → Layer) (A B : Layer) :
    mapSel sel f 0 [A, B] = [if selHas sel 0 then f A else A, if selHas sel 1 then f B else B] := rfl

theorem cinv_removeEdge {s : St} (h : CInv s) (sel : Sel) (u v : TNode) :
    CInv (removeEdge cfgCpdag s sel u v).1 := by
  have hi' := inv_removeEdge cfgCpdag h.1 sel u v
  have hl := h.2.1.layers
  unfold removeEdge at hi' ⊢
  simp only [cfgCpdag, if_true] at hi' ⊢
  split
  · exact h
  · split
    · exact h
    · rename_i h1 h2
      simp only [h1, h2] at hi'
      rw [hl, mapSel_two] at hi' ⊢
      refine cinv_of_sub' hi' h rfl ?_ ?_ ?_ ?_
      · split <;> rfl
      · split <;> rfl
      · intro e he
        split at he
        · exact (mem_diff.1 he).1
        · exact he
      · intro e he
        split at he
        · exact (mem_diff.1 he).1
        · exact he

theorem foldl_cinv {α : Type} {f : St → α → St} (hf : ∀ s a, CInv s → CInv (f s a)) :
    ∀ (l : List α) (s : St), CInv s → CInv (l.foldl f s)
  | [], _, h => h
  | a :: l, s, h => foldl_cinv hf l (f s a) (hf s a h)

theorem cinv_removeEdges {s : St} (h : CInv s) (sel : Sel) (es : List (TNode × TNode)) :
    CInv (removeEdges cfgCpdag s sel es).1 := by
  unfold removeEdges
  split
  · exact h
  · simp only []
    generalize (if cfgCpdag.mixed = true then sel else Sel.all) = sel'
    split
    · exact h
    · exact foldl_cinv (fun s e hs => cinv_removeEdge hs sel' e.1 e.2) es s h

theorem cinv_addVar {s : St} (h : CInv s) (x : Nat) : CInv (s.addVar x) :=
  cinv_of_layers (inv_addVar h.1 x) h rfl

theorem cinv_removeVar {s : St} (h : CInv s) (x : Nat) : CInv (s.removeVar x) := by
  have hi' := inv_removeVar h.1 x
  have hl := h.2.1.layers
  refine cinv_of_sub' hi' h (A := ⟨.dir, _⟩) (B := ⟨.und, _⟩)
    (by simp only [St.removeVar]; rw [hl]; rfl) rfl rfl ?_ ?_
  · intro e he; exact (List.mem_filter.1 he).1
  · intro e he; exact (List.mem_filter.1 he).1

theorem cinv_shrink {s : St} (h : CInv s) {k : Nat} (hk : k < s.maxLag) : CInv (shrink s k) := by
  have hi' := inv_shrink h.1 hk
  have hl := h.2.1.layers
  refine cinv_of_sub' hi' h (A := ⟨.dir, _⟩) (B := ⟨.und, _⟩)
    (by simp only [shrink]; rw [hl]; rfl) rfl rfl ?_ ?_
  · intro e he; exact (List.mem_filter.1 he).1
  · intro e he; exact (List.mem_filter.1 he).1

/-! ## growing the window: every new edge is a time shift of an old one -/

/-- the lag-0-anchored representative of a (forward) edge -/
def anchor (e : Edge) : Edge := ((e.1.1, e.1.2 - e.2.2), (e.2.1, 0))

/-- the edges of a grown layer are forward and their anchored representative is an old edge -/
theorem grow_anchor {nodes : List Node} {m k : Nat} {L : Layer} (hc : Complete nodes m)
    (hL : LayerInv nodes m L) {p : Edge}
    (hp : p ∈ L.edges.foldl (fun acc e => union acc (copies L.kind k (sortedByTime e))) L.edges) :
    anchor p ∈ L.edges ∧ p.2.2 ≤ p.1.2 := by
  obtain ⟨h1, h2, h3, h4⟩ := hL
  have hw := inWin_of hc h1
  have base : ∀ e ∈ L.edges, ∀ q, Shift e q → q.2.2 ≤ q.1.2 → anchor q ∈ L.edges := by
    intro e he q hs hq
    obtain ⟨hwa, hwb⟩ := hw e he
    refine h2.shift he (e' := anchor q) ⟨hs.1, hs.2.1, ?_⟩ ?_ (Nat.zero_le _)
    · have := hs.2.2; simp only [anchor]; omega
    · have := hs.2.2; simp only [anchor]; omega
  rcases (mem_foldl_union _ _).1 hp with hp | ⟨e, he, hp⟩
  · obtain ⟨⟨x, a⟩, ⟨y, b⟩⟩ := p
    have hf := h3 x a y b hp
    exact ⟨base _ hp _ ⟨rfl, rfl, rfl⟩ hf, hf⟩
  · obtain ⟨⟨x, a⟩, ⟨y, b⟩⟩ := e
    have hf := h3 x a y b he
    rw [sortedByTime_of_forward (by simpa using hf)] at hp
    by_cases hk : L.kind = .und
    · rw [hk] at hp
      obtain ⟨hs, _, _⟩ := shift_of_mem_copies_und hp
      rw [h4 hk _ he] at hs
      have hq : p.2.2 ≤ p.1.2 := by have := hs.2.2; simp only at this hf; omega
      exact ⟨base _ he _ hs hq, hq⟩
    · obtain ⟨hs, _, _⟩ := shift_of_mem_copies_fwd hk (by simpa using hf) hp
      have hq : p.2.2 ≤ p.1.2 := by have := hs.2.2; simp only at this hf; omega
      exact ⟨base _ he _ hs hq, hq⟩

theorem cinv_grow {s : St} (h : CInv s) {k : Nat} (hk : s.maxLag < k) : CInv (grow s k) := by
  have hi' := inv_grow h.1 hk
  have hl := h.2.1.layers
  obtain ⟨hLD, hLU⟩ := h.layerInv
  have hc := h.noConfL
  have hlay : (grow s k).layers =
      [⟨.dir, (layerEdges s 0).foldl (fun acc e => union acc (copies .dir k (sortedByTime e))) (layerEdges s 0)⟩,
       ⟨.und, (layerEdges s 1).foldl (fun acc e => union acc (copies .und k (sortedByTime e))) (layerEdges s 1)⟩] := by
    simp only [grow]; rw [hl]; rfl
  refine ⟨hi', shape_of hlay, (noConf_iff hlay).2 ?_⟩
  intro p q hpq
  obtain ⟨x, i⟩ := p
  obtain ⟨y, j⟩ := q
  obtain ⟨a1, f1⟩ := grow_anchor h.1.1 hLD (p := ((x, i), (y, j))) hpq
  simp only [anchor] at a1 f1
  refine ⟨fun hqp => ?_, fun hpu => ?_, fun hqu => ?_⟩
  · obtain ⟨a2, f2⟩ := grow_anchor h.1.1 hLD (p := ((y, j), (x, i))) hqp
    simp only [anchor] at a2 f2
    have : i = j := by omega
    subst this
    simp only [Nat.sub_self] at a1 a2
    exact (hc _ _ a1).1 a2
  · obtain ⟨a2, _⟩ := grow_anchor h.1.1 hLU (p := ((x, i), (y, j))) hpu
    simp only [anchor] at a2
    exact (hc _ _ a1).2.1 a2
  · obtain ⟨a2, f2⟩ := grow_anchor h.1.1 hLU (p := ((y, j), (x, i))) hqu
    simp only [anchor] at a2 f2
    have : i = j := by omega
    subst this
    simp only [Nat.sub_self] at a1 a2
    exact (hc _ _ a1).2.2 a2

theorem cinv_setMaxLag {s : St} (h : CInv s) (k : Int) : CInv (setMaxLag s k).1 := by
  unfold setMaxLag
  split
  · exact h
  · simp only
    split
    · rename_i hk; exact cinv_grow h hk
    · split
      · rename_i hk; exact cinv_shrink h hk
      · exact h

/-! ## copy -/

theorem cinv_of_same {s t : St} (hi : Inv t) (h : CInv s) (hs : Same t s) : CInv t := by
  obtain ⟨_, _, hlen, hlay⟩ := hs
  have hl := h.2.1.layers
  rw [hl] at hlen hlay
  match ht : t.layers, hlen with
  | [A, B], _ =>
    rw [ht] at hlay
    obtain ⟨kA, eA⟩ := hlay 0 A _ rfl rfl
    obtain ⟨kB, eB⟩ := hlay 1 B _ rfl rfl
    exact cinv_of_sub' hi h ht kA kB (fun e he => (eA e).1 he) (fun e he => (eB e).1 he)

theorem cinv_copyStep {s : St} (h : CInv s) : CInv (step cfgCpdag s .copy).1 := by
  obtain ⟨h1, h2⟩ := copy_same_cpdag s h.1 h.2.1 h.2.2
  simp only [step, h1, Bool.false_eq_true, if_false]
  exact cinv_of_same (inv_copy cfgCpdag s) h h2

/-! ## bulk additions (`add_edges_from`): every member is checked against the graph before the call -/

theorem cinv_mk {t : St} (hi : Inv t) {A B : Layer} (hl : t.layers = [A, B]) (hA : A.kind = .dir)
    (hB : B.kind = .und) (hc : NoConfL A.edges B.edges) : CInv t := by
  obtain ⟨kA, D'⟩ := A
  obtain ⟨kB, U'⟩ := B
  simp only at hA hB
  subst hA hB
  exact ⟨hi, shape_of hl, (noConf_iff hl).2 hc⟩

/-- two members of a bulk list name different (unordered) variable pairs -/
def VarDistinct (e e' : TNode × TNode) : Prop :=
  ¬ ((e.1.1 = e'.1.1 ∧ e.2.1 = e'.2.1) ∨ (e.1.1 = e'.2.1 ∧ e.2.1 = e'.1.1))

theorem foldl_addT_kind (m : Nat) : ∀ (es : List (TNode × TNode)) (L : Layer),
    (es.foldl (fun L e => L.add m e.1 e.2) L).kind = L.kind
  | [], _ => rfl
  | _ :: es, L => by
    simp only [List.foldl_cons]
    rw [foldl_addT_kind m es]; rfl

theorem noConfL_bulk_dir {m : Nat} {U : List Edge} (hU : ShiftClosed m U) :
    ∀ (es : List (TNode × TNode)) (D : List Edge), ShiftClosed m D → NoConfL D U →
    (∀ e ∈ es, okEdge m e.1 e.2 = true ∧ e.1 ≠ e.2 ∧ (toNode e.2, toNode e.1) ∉ D ∧
      (toNode e.1, toNode e.2) ∉ U ∧ (toNode e.2, toNode e.1) ∉ U) →
    es.Pairwise VarDistinct →
    NoConfL (es.foldl (fun L e => L.add m e.1 e.2) (⟨.dir, D⟩ : Layer)).edges U
  | [], _, _, h, _, _ => h
  | e :: es, D, hD, h, hes, hpw => by
    obtain ⟨hok, hne, g1, g2, g3⟩ := hes e (List.mem_cons_self ..)
    obtain ⟨hu0, hv0⟩ := okEdge_nonpos hok
    obtain ⟨hlu, hlv, hfw⟩ := okEdge_lags hok
    have hne' : toNode e.1 ≠ toNode e.2 := fun hh => hne (toNode_inj hu0 hv0 hh)
    have hpw' := List.pairwise_cons.1 hpw
    simp only [List.foldl_cons]
    refine noConfL_bulk_dir hU es _ (shiftClosed_union hD (shiftClosed_copies _ _ _))
      (noConfL_add_dir hD hU h hlu hlv hfw hne' g1 g2 g3) ?_ hpw'.2
    intro e' he'
    obtain ⟨hok', hne2, k1, k2, k3⟩ := hes e' (List.mem_cons_of_mem _ he')
    refine ⟨hok', hne2, ?_, k2, k3⟩
    intro hmem
    rw [mem_union] at hmem
    rcases hmem with hmem | hmem
    · exact k1 hmem
    · obtain ⟨hs, _, _⟩ := shift_of_mem_copies_fwd (k := .dir) (by simp) hfw hmem
      exact hpw'.1 e' he' (Or.inr ⟨hs.1.symm, hs.2.1.symm⟩)

theorem noConfL_bulk_und {m : Nat} {D : List Edge} (hD : ShiftClosed m D) :
    ∀ (es : List (TNode × TNode)) (U : List Edge), NoConfL D U →
    (∀ e ∈ es, lag e.1 ≤ m ∧ lag e.2 ≤ m ∧ (toNode e.1, toNode e.2) ∉ D ∧ (toNode e.2, toNode e.1) ∉ D) →
    NoConfL D (es.foldl (fun L e => L.add m e.1 e.2) (⟨.und, U⟩ : Layer)).edges
  | [], _, h, _ => h
  | e :: es, U, h, hes => by
    obtain ⟨hlu, hlv, g1, g2⟩ := hes e (List.mem_cons_self ..)
    simp only [List.foldl_cons]
    exact noConfL_bulk_und hD es _ (noConfL_add_und hD h hlu hlv g1 g2)
      (fun e' he' => hes e' (List.mem_cons_of_mem _ he'))

/-- what an accepted `add_edges_from` of a mixed-edge class has checked and done -/
theorem addEdgesMixed_acc {cfg : Cfg} {s : St} {sel : Sel} {es : List (TNode × TNode)}
    (h : (addEdgesMixed cfg s sel es).2 = false) :
    (∀ e ∈ es, guardBad cfg s sel e.1 e.2 = false) ∧ (∀ e ∈ es, okEdge s.maxLag e.1 e.2 = true) ∧
      selOk s.layers.length sel = true ∧
      (addEdgesMixed cfg s sel es).1.layers =
        mapSel sel (fun L => es.foldl (fun L e => L.add s.maxLag e.1 e.2) L) 0 s.layers := by
  unfold addEdgesMixed at h ⊢
  obtain ⟨a, b⟩ := ensureAll_frame es s
  cases hg : es.any (fun e => guardBad cfg s sel e.1 e.2) with
  | true => simp [hg] at h
  | false =>
    simp only [hg, Bool.false_eq_true, if_false] at h ⊢
    cases hr : (ensureAll s es).2 with
    | true => simp [hr] at h
    | false =>
      simp only [hr, Bool.false_eq_true, if_false] at h ⊢
      cases hs : selOk (ensureAll s es).1.layers.length sel with
      | false => simp [hs] at h
      | true =>
        cases hok : es.any (fun e => !okEdge (ensureAll s es).1.maxLag e.1 e.2) with
        | true => simp [hs, hok] at h
        | false =>
          simp only [Bool.not_true, Bool.false_eq_true, if_false]
          rw [b] at hs
          rw [a] at hok
          rw [List.any_eq_false] at hg hok
          refine ⟨fun e he => by simpa using hg e he, fun e he => by simpa using hok e he, hs, ?_⟩
          rw [a, b]

theorem cinv_addEdges {s : St} (h : CInv s) (i : Nat) (es : List (TNode × TNode))
    (hne : ∀ e ∈ es, e.1 ≠ e.2) (hpw : es.Pairwise VarDistinct) :
    CInv (addEdges cfgCpdag s (.one i) es).1 := by
  have hi' : Inv (addEdges cfgCpdag s (.one i) es).1 := inv_addEdges cfgCpdag h.1 _ _
  have hadd : addEdges cfgCpdag s (.one i) es = addEdgesMixed cfgCpdag s (.one i) es := by
    simp [addEdges, cfgCpdag]
  rw [hadd] at hi' ⊢
  cases hr : (addEdgesMixed cfgCpdag s (.one i) es).2 with
  | true => exact cinv_of_layers hi' h (addEdgesMixed_rej cfgCpdag s _ es hr).1
  | false =>
    obtain ⟨hg, hok, hsel, hlay⟩ := addEdgesMixed_acc hr
    obtain ⟨⟨_, hD, _, _⟩, ⟨_, hU, _, _⟩⟩ := h.layerInv
    have hl := h.2.1.layers
    rw [hl] at hlay hsel
    match i with
    | 0 =>
      rw [mapSel_two] at hlay
      simp only [selHas, beq_self_eq_true, if_true] at hlay
      refine cinv_mk hi' hlay (foldl_addT_kind _ _ _) rfl ?_
      refine noConfL_bulk_dir hU es _ hD h.noConfL (fun e he => ?_) hpw
      have hg' := hg e he
      obtain ⟨hu0, hv0⟩ := okEdge_nonpos (hok e he)
      simp only [guardBad, cfgCpdag, hasUnd, hasDir_eq hu0 hv0, hasDir_eq hv0 hu0, Bool.or_eq_false_iff,
        List.contains_eq_mem, decide_eq_false_iff_not] at hg'
      exact ⟨hok e he, hne e he, hg'.2, hg'.1.1, hg'.1.2⟩
    | 1 =>
      rw [mapSel_two] at hlay
      simp only [selHas] at hlay
      refine cinv_mk hi' hlay rfl (foldl_addT_kind _ _ _) ?_
      refine noConfL_bulk_und hD es _ h.noConfL (fun e he => ?_)
      have hg' := hg e he
      obtain ⟨hu0, hv0⟩ := okEdge_nonpos (hok e he)
      obtain ⟨hlu, hlv, _⟩ := okEdge_lags (hok e he)
      simp only [guardBad, cfgCpdag, hasDir_eq hu0 hv0, hasDir_eq hv0 hu0, Bool.or_eq_false_iff,
        List.contains_eq_mem, decide_eq_false_iff_not] at hg'
      exact ⟨hlu, hlv, hg'.1, hg'.2⟩
    | _ + 2 => simp [selOk] at hsel; omega

/-! ## every operation, every history -/

/-- the calling convention under which the CPDAG guard protects the invariant: additions name one
edge type (`edge_type='all'` bypasses the guard – known finding C03-all-bypasses-guards), no self
loops (outside C03's node-pair quantifier), the members of a bulk addition name pairwise different
variable pairs (the bulk call checks its members against the old graph only – known finding
C03-tscpdag-bulk-self-conflict).  Removals, variables, `set_max_lag`, `copy` are unrestricted. -/
def Op.CpdagSafe : Op → Prop
  | .addEdge l u v => (∃ i, l = .one i) ∧ u ≠ v
  | .addEdges l es => (∃ i, l = .one i) ∧ (∀ e ∈ es, e.1 ≠ e.2) ∧ es.Pairwise VarDistinct
  | _ => True

theorem cinv_step {s : St} (h : CInv s) (op : Op) (hop : op.CpdagSafe) : CInv (step cfgCpdag s op).1 := by
  cases op with
  | addEdge l u v =>
    obtain ⟨⟨i, rfl⟩, huv⟩ := hop
    exact cinv_addEdge h i u v huv
  | addEdges l es =>
    obtain ⟨⟨i, rfl⟩, hne, hpw⟩ := hop
    exact cinv_addEdges h i es hne hpw
  | removeEdge l u v => exact cinv_removeEdge h l u v
  | removeEdges l es => exact cinv_removeEdges h l es
  | addVar x => exact cinv_addVar h x
  | removeVar x => exact cinv_removeVar h x
  | setMaxLag k => exact cinv_setMaxLag h k
  | copy => exact cinv_copyStep h

theorem cinv_run : ∀ (ops : List Op) (s : St), CInv s → (∀ op ∈ ops, op.CpdagSafe) →
    ∀ r ∈ run cfgCpdag s ops, CInv r.1
  | [], _, _, _, r, hr => by simp [run] at hr
  | op :: ops, s, h, hops, r, hr => by
    simp only [run, List.mem_cons] at hr
    have h1 := cinv_step h op (hops op (List.mem_cons_self ..))
    rcases hr with rfl | hr
    · exact h1
    · exact cinv_run ops _ h1 (fun o ho => hops o (List.mem_cons_of_mem _ ho)) r hr

/-- **the reachable-state invariant of the StationaryTimeSeriesCPDAG**: after any history of public
operations inside the calling convention, started from the empty CPDAG, no node pair carries a
directed edge together with an undirected or an opposite directed edge -/
theorem C13_cpdag_noConf (m : Nat) (ops : List Op) (hops : ∀ op ∈ ops, op.CpdagSafe) :
    ∀ r ∈ run cfgCpdag (init cfgCpdag m) ops, NoConf r.1 :=
  fun r hr => (cinv_run ops _ (init_cinv m) hops r hr).2.2

/-- **C13, copy clause for the StationaryTimeSeriesCPDAG along histories**: in every state reached
from the empty CPDAG `copy()` (which goes through the mark guard) does not raise and returns a graph
with the same nodes, max_lag and edge sets of both edge types -/
theorem C13_copy_cpdag (m : Nat) (ops : List Op) (hops : ∀ op ∈ ops, op.CpdagSafe) :
    ∀ r ∈ run cfgCpdag (init cfgCpdag m) ops,
      (copy cfgCpdag r.1).2 = false ∧ Same (copy cfgCpdag r.1).1 r.1 := by
  intro r hr
  obtain ⟨h1, h2, h3⟩ := cinv_run ops _ (init_cinv m) hops r hr
  exact copy_same_cpdag r.1 h1 h2 h3

/-! ## non-vacuity, and why the hypothesis is needed (kernel-checked *tests* on concrete histories) -/

/-- lagged directed edge, contemporaneous undirected edge, a guard rejection, growth, copy, shrink, copy -/
def exCpdag : List Op :=
  [.addEdge (.one 0) (0, -1) (1, 0), .addEdge (.one 1) (0, 0) (2, 0), .addEdge (.one 1) (0, -2) (1, -1),
   .addEdges (.one 0) [((2, -2), (1, 0)), ((1, -1), (1, 0))], .setMaxLag 3, .copy, .setMaxLag 1, .copy]

example : ∀ op ∈ exCpdag, op.CpdagSafe := by
  intro op hop
  simp only [exCpdag, List.mem_cons, List.not_mem_nil, or_false] at hop
  rcases hop with rfl | rfl | rfl | rfl | rfl | rfl | rfl | rfl <;>
    simp [Op.CpdagSafe, VarDistinct]

example : (run cfgCpdag (init cfgCpdag 2) exCpdag).map (fun r => (r.2, r.1.layers.map (·.edges.length))) =
    [(false, [2, 0]), (false, [2, 3]), (true, [2, 3]), (false, [5, 3]), (false, [8, 4]), (false, [8, 4]),
     (false, [2, 2]), (false, [2, 2])] := by decide

/-- the hypothesis `NoConf` of `copy_same_cpdag` cannot be dropped: the bulk addition
`[x(0) -> y(0), y(0) -> x(0)]` is accepted (its members are checked against the old graph only – known
finding C03-tscpdag-bulk-self-conflict, outside `Op.CpdagSafe`) and `copy()` of the state it leaves raises -/
theorem C13_counterexample_copy_conflict :
    (run cfgCpdag (init cfgCpdag 1) [.addEdges (.one 0) [((0, 0), (1, 0)), ((1, 0), (0, 0))], .copy]).map (·.2) =
      [false, true] := by decide

end C13
