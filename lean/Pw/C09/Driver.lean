import Pw.Core.Proto
import Pw.C09.Dec
open Proto

namespace C09
/-- graph with prefixed keys (`mN= mD= …`) -/
def graphP (a : Args) (p : String) : MG :=
  { nodes := a.nats (p ++ "N"), dir := a.pairs (p ++ "D"), bi := a.pairs (p ++ "B"),
    un := a.pairs (p ++ "U"), circ := a.pairs (p ++ "C") }

def innerOf (a : Args) (G : MG) : List Nat := if a.has "J" then a.nats "J" else sortNats G.nodes

/-- `c09model N=.. D= B= U= C=<iteration order of the circle-edge set> [J=]` → result of the model -/
def hModel : Handler := fun a =>
  let P := a.graph
  fmtGraph (pagToMag P (innerOf a P))

/-- `c09pag n=.. D= B=` → `notmag` | `cls=<size of the equivalence class> <PAG from the definition>` -/
def hPag : Handler := fun a =>
  let M := a.graph
  if !isMagB M then "notmag" else "cls=" ++ toString (equivClass M).length ++ " " ++ fmtGraph (pagOf M)

def fmtFails (l : List String) : String := if l.isEmpty then "ok" else "fail:" ++ ",".intercalate l

/-- `c09valid N=.. D= B= U= C=  mN= mD= mB= mU= mC=  [sN= sD= sB=]` → `ok` | `fail:<clauses>`;
    first graph = the PAG, `m…` = the graph returned by the implementation, `s…` = the source MAG -/
def hValid : Handler := fun a =>
  fmtFails (validFails a.graph (graphP a "m") (if a.has "sN" then some (graphP a "s") else none))

/-- `c09struct …` → only the structural clauses (any well-formed PAG instance) -/
def hStruct : Handler := fun a => fmtFails (structuralFails a.graph (graphP a "m"))

def handlers : List (String × Handler) :=
  [("c09model", hModel), ("c09pag", hPag), ("c09valid", hValid), ("c09struct", hStruct)]
end C09
