import Pw.C07.Proofs
import Pw.T5.Main
open Closure

/-! # C07, full statement, unconditional (T5a discharged by `T5.c07_T5`, proved on /verif main) -/
namespace C07
open MG C06

variable {G : MG}

/-- **C07, valid_mag.**  For every graph (no self loops): the model of `valid_mag` returns True iff
    there is no undirected edge, at most one edge per node pair, no directed cycle, no bidirected edge
    between a node and one of its ancestors, and every non-adjacent pair of nodes is m-separated by
    some set of other nodes. -/
theorem validMag_iff_ValidMAG (hwf : G.WF) (hcirc : G.circ = []) (hsl : NoSelfLoop G) :
    validMag G = true ↔ ValidMAG G := by
  by_cases hun : G.un = []
  · exact validMag_iff_ValidMAG_of_T5 hwf hcirc (T5.c07_T5 hwf hun hsl)
  · rw [validMag_false_of_undirected hwf hun]
    constructor
    · intro h; cases h
    · intro h; exact absurd h.1 hun

/-- **C07, is_maximal.**  For every graph with directed and bidirected edges only (no self loop, no
    2-cycle): `is_maximal` returns True iff every non-adjacent pair is m-separated by some set of other
    nodes. -/
theorem isMaximal_iff_Maximal (hwf : G.WF) (hun : G.un = []) (hcirc : G.circ = [])
    (no2 : ∀ a b, (a, b) ∈ G.dir → (b, a) ∉ G.dir) (hsl : NoSelfLoop G) :
    ∃ b, isMaximal G = .ok b ∧ (b = true ↔ Maximal G) :=
  isMaximal_iff_Maximal_of_T5 hwf hun hcirc no2 (T5.c07_T5 hwf hun hsl)

end C07
