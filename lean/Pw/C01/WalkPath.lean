import Pw.C01.Walk
open Closure

namespace MG

structure Hop where
  mp : Mark   -- mark at the previous node
  mn : Mark   -- mark at the next node
  nx : Nat
deriving Repr

def ValidW (G : MG) : Nat → List Hop → Prop
  | _, [] => True
  | a, h :: t => HasEdge G a h.nx h.mp h.mn ∧ ValidW G h.nx t

def condAt (Z anZ : List Nat) (min mout : Mark) (v : Nat) : Prop :=
  if min = .head ∧ mout = .head then v ∈ anZ else v ∉ Z

def condE (Z anZ : List Nat) : Option Mark → Mark → Nat → Prop
  | none, _, _ => True
  | some m, mo, v => condAt Z anZ m mo v

/-- conditions at every node that has an outgoing hop; `e` is the entry mark at the first node
    (`none`: the first node is the walk's endpoint and carries no condition). -/
def OpenW (Z anZ : List Nat) : Option Mark → Nat → List Hop → Prop
  | _, _, [] => True
  | e, a, h :: t => condE Z anZ e h.mp a ∧ OpenW Z anZ (some h.mn) h.nx t

def endNode : Nat → List Hop → Nat
  | a, [] => a
  | _, h :: t => endNode h.nx t

def lastMn : Mark → List Hop → Mark
  | m, [] => m
  | _, h :: t => lastMn h.mn t

def nodesOf (a : Nat) (hs : List Hop) : List Nat := a :: hs.map (·.nx)

theorem HasEdge.symm {G : MG} {a b : Nat} {ma mb : Mark} (h : HasEdge G a b ma mb) : HasEdge G b a mb ma := by
  rcases h with ⟨h1, h2, h3⟩ | ⟨h1, h2, h3⟩ | ⟨h1, h2, h3⟩ | ⟨h1, h2, h3⟩
  · exact Or.inr (Or.inl ⟨h2, h1, h3⟩)
  · exact Or.inl ⟨h2, h1, h3⟩
  · exact Or.inr (Or.inr (Or.inl ⟨h2, h1, h3.symm⟩))
  · exact Or.inr (Or.inr (Or.inr ⟨h2, h1, h3.symm⟩))

theorem HasEdge.dir_of_tail_head {G : MG} {a b : Nat} (h : HasEdge G a b .tail .head) : (a, b) ∈ G.dir := by
  rcases h with ⟨_, _, h3⟩ | ⟨h1, _, _⟩ | ⟨h1, _, _⟩ | ⟨_, h2, _⟩
  · exact h3
  · cases h1
  · cases h1
  · cases h2

/-- ancestral-graph side condition (b): a node with an arrowhead has no undirected edge -/
def NoUndirAtHead (G : MG) : Prop :=
  ∀ a p mp, HasEdge G p a mp .head → ∀ c, ¬ HasEdge G a c .tail .tail

def NoSelfLoop (G : MG) : Prop := ∀ a ma mb, ¬ HasEdge G a a ma mb

def AncClosed (G : MG) (anZ : List Nat) : Prop := ∀ p c, (p, c) ∈ G.dir → c ∈ anZ → p ∈ anZ

theorem validW_append {G : MG} : ∀ (P1 P2 : List Hop) (w : Nat),
    ValidW G w (P1 ++ P2) ↔ ValidW G w P1 ∧ ValidW G (endNode w P1) P2
  | [], P2, w => by simp [ValidW, endNode]
  | h :: t, P2, w => by
    simp only [List.cons_append, ValidW, endNode, validW_append t P2 h.nx, and_assoc]

theorem openW_append {Z anZ : List Nat} : ∀ (P1 P2 : List Hop) (e : Option Mark) (w : Nat),
    OpenW Z anZ e w (P1 ++ P2) ↔
      OpenW Z anZ e w P1 ∧
      OpenW Z anZ (match P1 with | [] => e | h :: t => some (lastMn h.mn t)) (endNode w P1) P2
  | [], P2, e, w => by simp [OpenW, endNode]
  | [h], P2, e, w => by simp [OpenW, endNode, lastMn]
  | h :: h2 :: t, P2, e, w => by
    have := openW_append (Z := Z) (anZ := anZ) (h2 :: t) P2 (some h.mn) h.nx
    simp only [List.cons_append, OpenW, endNode, lastMn] at this ⊢
    rw [this]; simp only [and_assoc]

theorem endNode_append : ∀ (P1 P2 : List Hop) (w : Nat), endNode w (P1 ++ P2) = endNode (endNode w P1) P2
  | [], _, _ => rfl
  | h :: t, P2, _ => by simp [endNode, endNode_append t P2 h.nx]

/-- chain lemma: a segment entered through an arrowhead whose last hop leaves its source through an
    arrowhead contains a collider below the entry node. -/
theorem chain {G : MG} {Z anZ : List Nat} (hb : NoUndirAtHead G) (hcl : AncClosed G anZ) :
    ∀ (hs : List Hop) (w : Nat), (∃ p mp, HasEdge G p w mp .head) → ValidW G w hs →
      OpenW Z anZ (some .head) w hs → hs ≠ [] → (∀ h ∈ hs.getLast?, h.mp = .head) → w ∈ anZ
  | [], _, _, _, _, hne, _ => absurd rfl hne
  | h :: t, w, hw, hv, ho, _, hl => by
    obtain ⟨hv1, hv2⟩ := hv
    obtain ⟨ho1, ho2⟩ := ho
    cases hmp : h.mp with
    | head =>
      simp only [condE, condAt, hmp, and_self, if_true] at ho1
      exact ho1
    | tail =>
      cases t with
      | nil =>
        have := hl h (by simp)
        rw [hmp] at this; cases this
      | cons h2 t2 =>
        obtain ⟨p, mp', hp⟩ := hw
        rw [hmp] at hv1
        cases hmn : h.mn with
        | tail =>
          rw [hmn] at hv1
          exact absurd hv1 (hb w p mp' hp h.nx)
        | head =>
          rw [hmn] at hv1 ho2
          have hnx : h.nx ∈ anZ := by
            refine chain hb hcl (h2 :: t2) h.nx ⟨w, .tail, hv1⟩ hv2 ho2 (by simp) ?_
            intro h' hh'
            apply hl h'
            simpa [List.getLast?_cons_cons] using hh'
          exact hcl w h.nx hv1.dir_of_tail_head hnx

end MG

namespace MG

def exitMark (e : Option Mark) : List Hop → Option Mark
  | [] => e
  | h :: t => some (lastMn h.mn t)

theorem openW_append' {Z anZ : List Nat} (P1 P2 : List Hop) (e : Option Mark) (w : Nat) :
    OpenW Z anZ e w (P1 ++ P2) ↔
      OpenW Z anZ e w P1 ∧ OpenW Z anZ (exitMark e P1) (endNode w P1) P2 := by
  have := openW_append (Z := Z) (anZ := anZ) P1 P2 e w
  cases P1 <;> simpa [exitMark] using this

theorem lastMn_snoc : ∀ (s : List Hop) (m : Mark) (hop : Hop), lastMn m (s ++ [hop]) = hop.mn
  | [], _, _ => rfl
  | h :: t, _, hop => by simp [lastMn, lastMn_snoc t h.mn hop]

theorem exitMark_snoc (e : Option Mark) (s : List Hop) (hop : Hop) :
    exitMark e (s ++ [hop]) = some hop.mn := by
  cases s with
  | nil => rfl
  | cons h t => simp [exitMark, lastMn_snoc]

theorem endNode_snoc : ∀ (s : List Hop) (w : Nat) (hop : Hop), endNode w (s ++ [hop]) = hop.nx
  | [], _, _ => rfl
  | h :: t, _, hop => by simp [endNode, endNode_snoc t h.nx hop]

def EntryOK (G : MG) (e : Option Mark) (a : Nat) : Prop :=
  ∀ m, e = some m → ∃ p mp, HasEdge G p a mp m

/-- T1: every m-connecting walk can be shortened to an m-connecting path with the same end points
    (and the same condition at the first node). -/
theorem walk_to_path {G : MG} {Z anZ : List Nat}
    (hb : NoUndirAtHead G) (hsl : NoSelfLoop G) (hcl : AncClosed G anZ) :
    ∀ (hs : List Hop) (e : Option Mark) (a : Nat), EntryOK G e a → ValidW G a hs → OpenW Z anZ e a hs →
      ∃ ps, ValidW G a ps ∧ OpenW Z anZ e a ps ∧ endNode a ps = endNode a hs ∧ (nodesOf a ps).Nodup
  | [], e, a, _, _, _ => ⟨[], trivial, trivial, rfl, by simp [nodesOf]⟩
  | h :: t, e, a, he, hv, ho => by
    obtain ⟨hv1, hv2⟩ := hv
    obtain ⟨ho1, ho2⟩ := ho
    have hentry : EntryOK G (some h.mn) h.nx := by
      intro m hm; cases hm; exact ⟨a, h.mp, hv1⟩
    obtain ⟨ps, pv, po, pe, pn⟩ := walk_to_path hb hsl hcl t (some h.mn) h.nx hentry hv2 ho2
    have hne : a ≠ h.nx := by
      intro heq
      apply hsl a h.mp h.mn
      have := hv1
      rwa [← heq] at this
    by_cases hmem : a ∈ ps.map (·.nx)
    · obtain ⟨hop, hhop, hnx⟩ := List.mem_map.mp hmem
      obtain ⟨s, t2, rfl⟩ := List.append_of_mem hhop
      have hsplit : s ++ hop :: t2 = (s ++ [hop]) ++ t2 := by simp
      rw [hsplit] at pv po pe pn
      rw [validW_append] at pv
      rw [openW_append'] at po
      rw [endNode_append] at pe
      rw [endNode_snoc, hnx] at pv po pe
      rw [exitMark_snoc] at po
      obtain ⟨pv1, pv2⟩ := pv
      obtain ⟨po1, po2⟩ := po
      -- nodup facts
      have hnod : (nodesOf a t2).Nodup := by
        simp only [nodesOf, List.map_append, List.map_cons, List.map_nil, List.nodup_cons,
          List.nodup_append, List.mem_append, List.mem_cons, List.mem_map] at pn ⊢
        obtain ⟨_, ⟨_, hn2, hdisj⟩⟩ := pn
        refine ⟨?_, hn2⟩
        rintro ⟨x, hx, hxa⟩
        exact hdisj a (Or.inr (Or.inl hnx.symm)) x.nx (⟨x, hx, rfl⟩) hxa.symm
      refine ⟨t2, pv2, ?_, ?_, hnod⟩
      · -- openness at a with the original entry mark
        cases t2 with
        | nil => trivial
        | cons h2 t3 =>
          obtain ⟨c2, po3⟩ := po2
          refine ⟨?_, po3⟩
          cases e with
          | none => trivial
          | some m =>
            simp only [condE, condAt] at ho1 c2 ⊢
            -- last hop of P1 arrives at a
            have hlast : HasEdge G a (endNode h.nx s) hop.mn hop.mp := by
              have := (validW_append s [hop] h.nx).mp pv1
              obtain ⟨_, hl, _⟩ := this
              rw [hnx] at hl
              exact hl.symm
            cases m with
            | tail =>
              simp at ho1 ⊢; exact ho1
            | head =>
              cases hm2 : h2.mp with
              | tail =>
                simp [hm2] at c2 ⊢; exact c2
              | head =>
                cases hmp : h.mp with
                | head =>
                  simp [hmp] at ho1; simp; exact ho1
                | tail =>
                  cases hm3 : hop.mn with
                  | head =>
                    simp [hm3, hm2] at c2; simp; exact c2
                  | tail =>
                    simp
                    obtain ⟨p, mp', hp⟩ := he .head rfl
                    have hhmn : h.mn = .head := by
                      cases hmn : h.mn with
                      | head => rfl
                      | tail =>
                        rw [hmn, hmp] at hv1
                        exact absurd hv1 (hb a p mp' hp h.nx)
                    have hhopmp : hop.mp = .head := by
                      cases hq : hop.mp with
                      | head => rfl
                      | tail =>
                        rw [hq, hm3] at hlast
                        exact absurd hlast (hb a p mp' hp _)
                    rw [hmp, hhmn] at hv1
                    rw [hhmn] at po1
                    have hw1 : h.nx ∈ anZ := by
                      refine chain hb hcl (s ++ [hop]) h.nx ⟨a, .tail, hv1⟩ pv1 po1 (by simp) ?_
                      intro h' hh'
                      simp at hh'
                      rw [← hh']; exact hhopmp
                    exact hcl a h.nx hv1.dir_of_tail_head hw1
      · rw [pe]; simp [endNode]
    · refine ⟨h :: ps, ⟨hv1, pv⟩, ⟨ho1, po⟩, by simp [endNode, pe], ?_⟩
      simp only [nodesOf, List.map_cons, List.nodup_cons, List.mem_cons, not_or] at pn ⊢
      exact ⟨⟨hne, hmem⟩, pn⟩

end MG
