import Pw.T3.LabelSound
open Closure

/-! # C04 unconditionally: Chickering's `dag_to_cpdag` returns the essential graph -/
namespace T3
open C04

/-- **C04, first sentence**: the model of `dag_to_cpdag` returns the essential graph of the DAG -/
theorem c04_full : C04_full := C04_full_of_T3 c04_T3

/-- **C04, second sentence**: two DAGs receive equal CPDAGs iff they are Markov equivalent -/
theorem c04_markov (G1 G2 : MG) (t1 t2 : List Nat)
    (hd1 : IsDag G1) (hw1 : G1.WF) (hn1 : G1.dir.Nodup) (ht1 : IsTopo G1 t1)
    (hd2 : IsDag G2) (hw2 : G2.WF) (hn2 : G2.dir.Nodup) (ht2 : IsTopo G2 t2) :
    SameGraph (dagToCpdag G1 t1) (dagToCpdag G2 t2) ↔ MarkovEquiv G1 G2 :=
  C04_markov_of_T3 c04_T3 G1 G2 t1 t2 hd1 hw1 hn1 ht1 hd2 hw2 hn2 ht2

/-- the result does not depend on the topological order -/
theorem c04_order_irrelevant (G : MG) (t1 t2 : List Nat)
    (hd : IsDag G) (hw : G.WF) (hn : G.dir.Nodup) (ht1 : IsTopo G t1) (ht2 : IsTopo G t2) :
    SameGraph (dagToCpdag G t1) (dagToCpdag G t2) :=
  C04_order_irrelevant_of_T3 c04_T3 G t1 t2 hd hw hn ht1 ht2

end T3
