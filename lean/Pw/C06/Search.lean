import Pw.C06.Basic
open Closure

/-! # C06: the depth-first search returns a path iff a (model-level) valid node path exists

`NodeOK` is the model-level notion: consecutive nodes are neighbours and every node that is left passes
the per-triple test of `_shortest_valid_path`.  Soundness and completeness of `dfs` / `search` against
`NodeOK` are pure search-correctness facts; the bridge `NodeOK ↔ InducingPath` is in `Bridge.lean`. -/
namespace C06
open MG

/-- the test applied to `cur` (entered from `prev`) before moving on to `nx` -/
def passes (G : MG) (L S A : List Nat) (prev cur nx : Nat) : Bool :=
  !(isCollider G prev cur nx && !decide (cur ∈ A) && !decide (cur ∈ S)) &&
  !(!isCollider G prev cur nx && !decide (cur ∈ L))

theorem passes_iff {G : MG} {L S A : List Nat} {prev cur nx : Nat} :
    passes G L S A prev cur nx = true ↔
      (if isCollider G prev cur nx = true then (cur ∈ A ∨ cur ∈ S) else cur ∈ L) := by
  unfold passes
  cases isCollider G prev cur nx <;> by_cases h1 : cur ∈ A <;> by_cases h2 : cur ∈ S <;>
    by_cases h3 : cur ∈ L <;> simp [h1, h2, h3]

/-- `cur :: rest` is a valid continuation towards `y` when `cur` was entered from `prev` -/
def NodeOK (G : MG) (y : Nat) (L S A : List Nat) : Nat → Nat → List Nat → Prop
  | _, cur, [] => cur = y
  | prev, cur, nx :: rest =>
    cur ≠ y ∧ nx ∈ nbrs G cur ∧ passes G L S A prev cur nx = true ∧ NodeOK G y L S A cur nx rest

theorem dfs_sound (G : MG) (y : Nat) (L S A : List Nat) :
    ∀ (fuel : Nat) (visited : List Nat) (cur prev : Nat) (p : List Nat),
      dfs G y L S A fuel visited cur prev = some p →
      ∃ rest, p = cur :: rest ∧ NodeOK G y L S A prev cur rest ∧ (cur :: rest).Nodup ∧
        ∀ v ∈ rest, v ∉ cur :: visited := by
  intro fuel
  induction fuel with
  | zero => intro visited cur prev p h; simp [dfs] at h
  | succ fuel ih =>
    intro visited cur prev p h
    simp only [dfs] at h
    by_cases hy : cur = y
    · simp only [hy, if_true, Option.some.injEq] at h
      subst h
      exact ⟨[], by rw [hy], hy, by simp, by simp⟩
    · simp only [hy, if_false] at h
      obtain ⟨elem, helem, hres⟩ := List.exists_of_findSome?_eq_some h
      by_cases hv : elem ∈ cur :: visited
      · simp [hv] at hres
      · simp only [hv, if_false] at hres
        by_cases c1 : (isCollider G prev cur elem && !decide (cur ∈ A) && !decide (cur ∈ S)) = true
        · simp [c1] at hres
        · simp only [c1] at hres
          by_cases c2 : (!isCollider G prev cur elem && !decide (cur ∈ L)) = true
          · simp [c2] at hres
          · simp only [c2] at hres
            simp only [Bool.false_eq_true, if_false, Option.map_eq_some_iff] at hres
            obtain ⟨q, hq, rfl⟩ := hres
            obtain ⟨rest, rfl, hok, hnd, havoid⟩ := ih (cur :: visited) elem cur q hq
            refine ⟨elem :: rest, rfl, ⟨hy, helem, ?_, hok⟩, ?_, ?_⟩
            · unfold passes
              simp only [Bool.not_eq_true] at c1 c2
              rw [c1, c2]; rfl
            · rw [List.nodup_cons]
              refine ⟨?_, hnd⟩
              intro hc
              rcases List.mem_cons.mp hc with rfl | hc
              · exact hv List.mem_cons_self
              · exact havoid cur hc (List.mem_cons_of_mem _ List.mem_cons_self)
            · intro v hvm
              rcases List.mem_cons.mp hvm with rfl | hvm
              · exact hv
              · intro hc
                exact havoid v hvm (List.mem_cons_of_mem _ hc)

theorem dfs_complete (G : MG) (y : Nat) (L S A : List Nat) :
    ∀ (fuel : Nat) (visited : List Nat) (cur prev : Nat) (rest : List Nat),
      NodeOK G y L S A prev cur rest → (cur :: rest).Nodup → (∀ v ∈ rest, v ∉ cur :: visited) →
      rest.length < fuel → (dfs G y L S A fuel visited cur prev).isSome = true := by
  intro fuel
  induction fuel with
  | zero => intro visited cur prev rest _ _ _ h; omega
  | succ fuel ih =>
    intro visited cur prev rest hok hnd havoid hlen
    simp only [dfs]
    cases rest with
    | nil =>
      have : cur = y := hok
      simp [this]
    | cons nx rest =>
      obtain ⟨hy, hadj, hpass, hok'⟩ := hok
      simp only [hy, if_false]
      rw [List.findSome?_isSome_iff]
      refine ⟨nx, hadj, ?_⟩
      have hv : nx ∉ cur :: visited := havoid nx List.mem_cons_self
      simp only [hv, if_false]
      unfold passes at hpass
      simp only [Bool.and_eq_true, Bool.not_eq_true'] at hpass
      rw [hpass.1, hpass.2]
      simp only [Bool.false_eq_true, if_false, Option.isSome_map]
      apply ih (cur :: visited) nx cur rest hok' (List.nodup_cons.mp hnd).2
      · intro v hvm hc
        rcases List.mem_cons.mp hc with rfl | hc
        · exact (List.nodup_cons.mp (List.nodup_cons.mp hnd).2).1 hvm
        · exact havoid v (List.mem_cons_of_mem _ hvm) hc
      · simp only [List.length_cons] at hlen; omega

/-- a duplicate-free list inside `U` is no longer than `U` -/
theorem nodup_length_le : ∀ (l U : List Nat), l.Nodup → (∀ a ∈ l, a ∈ U) → l.length ≤ U.length
  | [], _, _, _ => by simp
  | a :: l, U, hnd, hsub => by
    have ha : a ∈ U := hsub a List.mem_cons_self
    have hnd' := List.nodup_cons.mp hnd
    have := nodup_length_le l (U.erase a) hnd'.2 (by
      intro b hb
      have hne : b ≠ a := fun h => hnd'.1 (h ▸ hb)
      exact (List.mem_erase_of_ne hne).mpr (hsub b (List.mem_cons_of_mem _ hb)))
    rw [List.length_erase_of_mem ha] at this
    have hpos : 0 < U.length := List.length_pos_of_mem ha
    simp only [List.length_cons]; omega

/-- the search from `x`: soundness -/
theorem search_sound {G : MG} {x y : Nat} {L S : List Nat} {p : List Nat}
    (h : search G x y L S = some p) :
    ∃ v rest, p = x :: v :: rest ∧ v ∈ nbrs G x ∧ NodeOK G y L S (allAnc G x y S) x v rest ∧
      (x :: v :: rest).Nodup := by
  unfold search at h
  obtain ⟨elem, helem, hres⟩ := List.exists_of_findSome?_eq_some h
  by_cases hv : elem ∈ [x]
  · simp [hv] at hres
  · simp only [hv, if_false, Option.map_eq_some_iff] at hres
    obtain ⟨q, hq, rfl⟩ := hres
    obtain ⟨rest, rfl, hok, hnd, havoid⟩ := dfs_sound G y L S _ _ _ _ _ _ hq
    refine ⟨elem, rest, rfl, helem, hok, ?_⟩
    rw [List.nodup_cons]
    refine ⟨?_, hnd⟩
    intro hc
    rcases List.mem_cons.mp hc with rfl | hc
    · exact hv List.mem_cons_self
    · exact havoid x hc (List.mem_cons_of_mem _ List.mem_cons_self)

/-- the search from `x`: completeness (the fuel `|V|` suffices for every simple path inside `V`) -/
theorem search_complete {G : MG} {x y : Nat} {L S : List Nat} {v : Nat} {rest : List Nat}
    (hadj : v ∈ nbrs G x) (hok : NodeOK G y L S (allAnc G x y S) x v rest)
    (hnd : (x :: v :: rest).Nodup) (hsub : ∀ a ∈ x :: v :: rest, a ∈ G.nodes) :
    (search G x y L S).isSome = true := by
  unfold search
  rw [List.findSome?_isSome_iff]
  refine ⟨v, hadj, ?_⟩
  have hnd' := List.nodup_cons.mp hnd
  have hv : v ∉ [x] := by
    intro hc; rw [List.mem_singleton] at hc; subst hc
    exact hnd'.1 List.mem_cons_self
  simp only [hv, if_false, Option.isSome_map]
  apply dfs_complete G y L S _ _ _ _ _ rest hok hnd'.2
  · intro a ha hc
    rcases List.mem_cons.mp hc with rfl | hc
    · exact (List.nodup_cons.mp hnd'.2).1 ha
    · rw [List.mem_singleton] at hc; subst hc
      exact hnd'.1 (List.mem_cons_of_mem _ ha)
  · have := nodup_length_le _ _ hnd hsub
    simp only [List.length_cons] at this; omega

end C06
