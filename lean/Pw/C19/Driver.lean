import Pw.Core.Proto
import Pw.C19.Spec
open Proto

namespace C19
def orderOf (a : Args) : List Nat := if a.has "O" then a.nats "O" else a.graph.nodes

/-- `acy n=.. D= B= O=<node order>` → canonical graph of the model -/
def hAcy : Handler := fun a => fmtGraph (acy a.graph (orderOf a))
/-- the unchanged code's loop (before the fixes) -/
def hAcyOld : Handler := fun a => fmtGraph (acyOld a.graph (orderOf a))
/-- the graph defined by the edge characterisation -/
def hAcySpec : Handler := fun a => fmtGraph (acySpecG a.graph)
/-- `sigsep … O= X= Y= Z=` → model of sigma_separated: `T` | `F` | `err:cyclic` -/
def hSigSep : Handler := fun a =>
  match sigmaSeparatedE a.graph (orderOf a) (a.nats "X") (a.nats "Y") (a.nats "Z") with
  | .ok b => fmtBool b
  | .error e => "err:" ++ e
/-- `sigdec … X= Y= Z=` → brute-force decider of sigma-separation over the simple paths of G -/
def hSigDec : Handler := fun a => fmtBool (sigmaSepDec a.graph (a.nats "X") (a.nats "Y") (a.nats "Z"))

def handlers : List (String × Handler) :=
  [("acy", hAcy), ("acyold", hAcyOld), ("acyspec", hAcySpec), ("sigsep", hSigSep), ("sigdec", hSigDec)]
end C19
