#!/bin/bash
# usage: tools/integrate.sh <agent-name>   merge w-<name> into /verif main (index files regenerated), show f-<name> commits
n=$1
cd /verif
if ! git diff --quiet || ! git diff --cached --quiet; then git add -A; git commit -qm "wip before merging w-$n"; fi
git merge --no-commit --no-ff w-$n > /tmp/merge-$n.log 2>&1
# evidence and index files: ours / regenerated
for f in $(git diff --name-only --diff-filter=U); do
  case $f in
    lean/Pw.lean|lean/Pw/Driver.lean|evidence/*) git checkout --ours -- $f; git add $f;;
  esac
done
tools/gen_lean_index.py
git add -A
if git ls-files -u | grep -q .; then echo "UNRESOLVED CONFLICTS:"; git ls-files -u | cut -f2 | sort -u; exit 1; fi
git commit -qm "merge w-$n" && echo "merged w-$n"
echo "--- fix commits on f-$n:"
git -C /repo log --reverse --format='%h %s' main..f-$n
