#!/venv/bin/python
"""Systematic (syntactic) mutation run - a complement to the hand-made seeded changes.

usage: tools/automut.py gen  <seed> <per_file>         -> /root/work/automut/mutants.json
       tools/automut.py run  <jobs> [first] [last]     -> /root/work/automut/results.jsonl (appends; resumable)
       tools/automut.py report                         -> table on stdout

gen : for every source file a property is anchored in, enumerate AST mutation sites (comparison operator flips,
      and/or swap, `not` insertion on an if-test, constant flips 0<->1 / True<->False, +/- swap, `continue`/`break`
      -> `pass`, dropped expression statement such as x.add(..)/x.append(..)/x.remove(..)/x.update(..)) inside
      the functions the properties name, and sample <per_file> of them.
run : each mutant is written into its own scratch worktree of /repo HEAD (outside /repo and /verif, removed
      afterwards); the unedited test suite is run (tools/baseline.py); if it still passes, the quick checks mapped
      to the file (tools/harmless_checks.py) are run with PW_REPO pointing at the worktree.
Nothing here is registered in MANIFEST.json; it only measures the checks."""
import ast
import json
import os
import random
import subprocess
import sys

V = os.path.dirname(os.path.dirname(os.path.abspath(__file__)))
OUT = os.environ.get("AUTOMUT_OUT", "/root/work/automut")
FILES = [
    "pywhy_graphs/networkx/algorithms/causal/m_separation.py",
    "pywhy_graphs/networkx/algorithms/causal/mixed_edge_moral.py",
    "pywhy_graphs/networkx/algorithms/causal/convert.py",
    "pywhy_graphs/networkx/classes/mixededge.py",
    "pywhy_graphs/algorithms/generic.py",
    "pywhy_graphs/algorithms/cyclic.py",
    "pywhy_graphs/algorithms/cpdag.py",
    "pywhy_graphs/algorithms/pag.py",
    "pywhy_graphs/algorithms/semi_directed_paths.py",
    "pywhy_graphs/classes/admg.py",
    "pywhy_graphs/classes/pag.py",
    "pywhy_graphs/classes/cpdag.py",
    "pywhy_graphs/classes/base.py",
    "pywhy_graphs/classes/augmented.py",
    "pywhy_graphs/classes/timeseries/base.py",
    "pywhy_graphs/classes/timeseries/mixededge.py",
    "pywhy_graphs/classes/timeseries/conversion.py",
    "pywhy_graphs/export/numpy.py",
    "pywhy_graphs/export/causallearn.py",
    "pywhy_graphs/export/pcalg.py",
    "pywhy_graphs/export/tetrad.py",
]
# functions outside every property (no check can be expected to notice a change there)
SKIP_FUNCS = {"__str__", "__repr__", "draw", "set_nodes_as_latent_confounders", "is_node_common_cause",
              "_recursively_find_pd_paths", "proper_possibly_directed_path", "_get_neighbors_of_set",
              "compute_invariant_domains_per_node", "find_connected_pairs", "_add_domain_snode",
              "check_pag_definition", "valid_pag", "mag_to_pag", "graph_to_ananke", "all_vstructures",
              "is_definite_noncollider", "is_definite_collider"}
CMP = {ast.Eq: ast.NotEq, ast.NotEq: ast.Eq, ast.Lt: ast.LtE, ast.LtE: ast.Lt, ast.Gt: ast.GtE, ast.GtE: ast.Gt,
       ast.In: ast.NotIn, ast.NotIn: ast.In, ast.Is: ast.IsNot, ast.IsNot: ast.Is}
DROP_CALLS = {"add", "append", "remove", "update", "discard", "add_edge", "add_node", "remove_edge", "remove_node",
              "add_edges_from", "add_nodes_from", "remove_edges_from", "remove_nodes_from", "pop", "extend", "clear"}


class Sites(ast.NodeVisitor):
    def __init__(self):
        self.sites = []
        self.fn = []

    def visit_FunctionDef(self, node):
        self.fn.append(node.name)
        if node.name not in SKIP_FUNCS:
            # skip the docstring
            body = node.body[1:] if (node.body and isinstance(node.body[0], ast.Expr)
                                     and isinstance(getattr(node.body[0], "value", None), ast.Constant)
                                     and isinstance(node.body[0].value.value, str)) else node.body
            for st in body:
                self.visit(st)
        self.fn.pop()

    def add(self, node, kind, extra=None):
        if self.fn:
            self.sites.append({"fn": ".".join(self.fn), "line": node.lineno, "col": node.col_offset,
                               "kind": kind, "extra": extra})

    def visit_Compare(self, node):
        for i, op in enumerate(node.ops):
            if type(op) in CMP:
                self.add(node, "cmp", i)
        self.generic_visit(node)

    def visit_BoolOp(self, node):
        self.add(node, "boolop")
        self.generic_visit(node)

    def visit_If(self, node):
        self.add(node, "negate-if")
        self.generic_visit(node)

    def visit_While(self, node):
        self.generic_visit(node)

    def visit_Constant(self, node):
        if node.value is True or node.value is False or (isinstance(node.value, int) and node.value in (0, 1)):
            self.add(node, "const")

    def visit_BinOp(self, node):
        if isinstance(node.op, (ast.Add, ast.Sub)):
            self.add(node, "arith")
        self.generic_visit(node)

    def visit_Continue(self, node):
        self.add(node, "continue->pass")

    def visit_Break(self, node):
        self.add(node, "break->pass")

    def visit_Expr(self, node):
        c = node.value
        if isinstance(c, ast.Call) and isinstance(c.func, ast.Attribute) and c.func.attr in DROP_CALLS:
            self.add(node, "drop-call", c.func.attr)
        self.generic_visit(node)

    def visit_Raise(self, node):
        pass        # error paths: messages / exception construction are not property matter

    def visit_Assert(self, node):
        pass


class Apply(ast.NodeTransformer):
    def __init__(self, site):
        self.s = site
        self.done = False

    def hit(self, node):
        return (not self.done and getattr(node, "lineno", None) == self.s["line"]
                and getattr(node, "col_offset", None) == self.s["col"])

    def visit_Compare(self, node):
        self.generic_visit(node)
        if self.s["kind"] == "cmp" and self.hit(node):
            i = self.s["extra"]
            node.ops[i] = CMP[type(node.ops[i])]()
            self.done = True
        return node

    def visit_BoolOp(self, node):
        self.generic_visit(node)
        if self.s["kind"] == "boolop" and self.hit(node):
            node.op = ast.Or() if isinstance(node.op, ast.And) else ast.And()
            self.done = True
        return node

    def visit_If(self, node):
        self.generic_visit(node)
        if self.s["kind"] == "negate-if" and self.hit(node):
            node.test = ast.UnaryOp(op=ast.Not(), operand=node.test)
            self.done = True
        return node

    def visit_Constant(self, node):
        if self.s["kind"] == "const" and self.hit(node):
            self.done = True
            v = node.value
            return ast.copy_location(ast.Constant(value=(not v) if isinstance(v, bool) else 1 - v), node)
        return node

    def visit_BinOp(self, node):
        self.generic_visit(node)
        if self.s["kind"] == "arith" and self.hit(node):
            node.op = ast.Sub() if isinstance(node.op, ast.Add) else ast.Add()
            self.done = True
        return node

    def visit_Continue(self, node):
        if self.s["kind"] == "continue->pass" and self.hit(node):
            self.done = True
            return ast.copy_location(ast.Pass(), node)
        return node

    def visit_Break(self, node):
        if self.s["kind"] == "break->pass" and self.hit(node):
            self.done = True
            return ast.copy_location(ast.Pass(), node)
        return node

    def visit_Expr(self, node):
        self.generic_visit(node)
        if self.s["kind"] == "drop-call" and self.hit(node):
            self.done = True
            return ast.copy_location(ast.Pass(), node)
        return node


def mutate_source(src, site):
    tree = ast.parse(src)
    ap = Apply(site)
    tree = ap.visit(tree)
    if not ap.done:
        return None
    ast.fix_missing_locations(tree)
    return ast.unparse(tree)


def gen(seed, per_file):
    rng = random.Random(seed)
    out = []
    for f in FILES:
        src = open(os.path.join("/repo", f)).read()
        v = Sites()
        v.visit(ast.parse(src))
        sites = v.sites
        rng.shuffle(sites)
        for s in sites[:per_file]:
            out.append(dict(s, file=f))
    os.makedirs(OUT, exist_ok=True)
    for i, m in enumerate(out):
        m["id"] = "am%04d" % i
    json.dump(out, open(os.path.join(OUT, "mutants.json"), "w"), indent=0)
    print("mutants:", len(out))


def run_one(m):
    wt = "/tmp/am-%s" % m["id"]
    res = dict(m)
    if subprocess.run(["git", "-C", "/repo", "worktree", "add", "-q", "--detach", wt, "HEAD"],
                      capture_output=True).returncode != 0:
        res["status"] = "worktree-failed"
        return res
    try:
        subprocess.run(["cp", "-r", "/repo/pywhy_graphs.egg-info", wt + "/"])
        p = os.path.join(wt, m["file"])
        src = open(p).read()
        new = mutate_source(src, m)
        if new is None:
            res["status"] = "not-applied"
            return res
        # ast.unparse drops comments / formatting, which no check depends on; first make sure the unparsed but
        # UNMUTATED file is not what changes behaviour: the mutant differs from it in one place only
        open(p, "w").write(new)
        line = [l for l in subprocess.run(["git", "-C", wt, "diff", "-U0", "--stat"], capture_output=True, text=True).stdout.splitlines()]
        res["diffstat"] = line[-1].strip() if line else ""
        import signal
        bp = subprocess.Popen([os.path.join(V, "tools", "baseline.py"), wt], stdout=subprocess.PIPE, stderr=subprocess.DEVNULL,
                              text=True, start_new_session=True)
        try:
            bout, _ = bp.communicate(timeout=420)       # the unchanged suite takes about 80 s
        except subprocess.TimeoutExpired:
            os.killpg(bp.pid, signal.SIGKILL)
            bp.wait()
            res["suite"] = "hangs (> 420 s)"
            res["status"] = "killed-by-test-suite"
            return res
        res["suite"] = bout.splitlines()[0] if bout else "?"
        if bp.returncode != 0:
            res["status"] = "killed-by-test-suite"
            return res
        open(p + ".am.diff", "w").write("")
        checks = subprocess.run([os.path.join(V, "tools", "harmless_checks.py"), "/dev/stdin"],
                                input="diff --git a/%s b/%s\n" % (m["file"], m["file"]), capture_output=True, text=True).stdout.split()
        res["checks"] = {}
        env = dict(os.environ, PW_REPO=wt)
        for c in checks:
            r = subprocess.run([os.path.join(V, "check"), c, "--tier", "quick"], capture_output=True, text=True, cwd=V, env=env)
            v = [l for l in r.stdout.splitlines() if l.startswith("VIOLATION")]
            res["checks"][c] = {"rc": r.returncode, "viol": (v[0] if v else "")[:160]}
            if r.returncode == 1:
                break       # one report is enough
        res["status"] = ("caught" if any(x["rc"] == 1 for x in res["checks"].values())
                         else "infra" if any(x["rc"] not in (0, 1) for x in res["checks"].values()) else "survived")
        return res
    finally:
        subprocess.run(["git", "-C", "/repo", "worktree", "remove", "--force", wt], capture_output=True)


def run(jobs, first, last):
    import concurrent.futures as cf
    ms = json.load(open(os.path.join(OUT, "mutants.json")))[first:last]
    done = set()
    rp = os.path.join(OUT, "results.jsonl")
    if os.path.exists(rp):
        done = set(json.loads(l)["id"] for l in open(rp))
    ms = [m for m in ms if m["id"] not in done]
    with cf.ThreadPoolExecutor(max_workers=jobs) as ex:
        for fut in cf.as_completed([ex.submit(run_one, m) for m in ms]):
            r = fut.result()
            with open(rp, "a") as f:
                f.write(json.dumps(r) + "\n")
            print(r["id"], r["file"].split("/")[-1], r["fn"], r["line"], r["kind"], r["status"],
                  " ".join("%s:%d" % (k, v["rc"]) for k, v in (r.get("checks") or {}).items()), flush=True)


def report():
    rs = [json.loads(l) for l in open(os.path.join(OUT, "results.jsonl"))]
    import collections
    c = collections.Counter(r["status"] for r in rs)
    print(dict(c))
    for r in rs:
        if r["status"] in ("survived", "infra"):
            print(r["id"], r["file"], r["fn"], "line", r["line"], r["kind"], r.get("extra"), r["status"])


if __name__ == "__main__":
    cmd = sys.argv[1]
    if cmd == "gen":
        gen(int(sys.argv[2]), int(sys.argv[3]))
    elif cmd == "run":
        run(int(sys.argv[2]), int(sys.argv[3]) if len(sys.argv) > 3 else 0, int(sys.argv[4]) if len(sys.argv) > 4 else None)
    else:
        report()
