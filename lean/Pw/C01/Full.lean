import Pw.C01.Spec
open Closure

/-! # C01: model = path-level specification -/
namespace MG

theorem Anc.trans {G : MG} {a b c : Nat} (h1 : Anc G a b) (h2 : Anc G b c) : Anc G a c := by
  induction h1 with
  | refl => exact h2
  | step e _ ih => exact Anc.step e (ih h2)

theorem Anc.tail {G : MG} {a b c : Nat} (h1 : Anc G a b) (e : (b, c) ∈ G.dir) : Anc G a c :=
  h1.trans (Anc.step e (Anc.refl c))

theorem reach_parents_anc {G : MG} {z v : Nat} (h : Reach G.nodes G.parents z v) : Anc G v z := by
  induction h with
  | refl => exact Anc.refl _
  | tail _ s ih => exact Anc.step (mem_parents.mp s.1) ih

theorem anc_reach_parents {G : MG} (hwf : G.WF) {z v : Nat} (h : Anc G v z) :
    Reach G.nodes G.parents z v := by
  induction h with
  | refl => exact Reach.refl _
  | step e _ ih => exact Reach.tail ih ⟨mem_parents.mpr e, (hwf.1 _ e).1⟩

/-- `anc` (the model's `an_z`) is exactly the set of nodes with a directed descendant in Z -/
theorem mem_anc {G : MG} (hwf : G.WF) {Z : List Nat} (hZ : ∀ z ∈ Z, z ∈ G.nodes) {v : Nat} :
    v ∈ G.anc Z ↔ ColliderOpen G Z v := by
  unfold anc ColliderOpen
  rw [mem_closure]
  constructor
  · rintro ⟨z, hz, _, hr⟩; exact ⟨z, hz, reach_parents_anc hr⟩
  · rintro ⟨z, hz, ha⟩; exact ⟨z, hz, hZ z hz, anc_reach_parents hwf ha⟩

theorem ancClosed_anc {G : MG} (hwf : G.WF) (Z : List Nat) : AncClosed G (G.anc Z) := by
  intro p c hpc hc
  unfold anc at *
  rw [mem_closure] at *
  obtain ⟨z, hz, hzU, hr⟩ := hc
  exact ⟨z, hz, hzU, Reach.tail hr ⟨mem_parents.mpr hpc, (hwf.1 _ hpc).1⟩⟩

/-- model-side openness (list `anZ`) and spec-side openness coincide -/
theorem openW_iff_openS {G : MG} (hwf : G.WF) {Z : List Nat} (hZ : ∀ z ∈ Z, z ∈ G.nodes) :
    ∀ (hs : List Hop) (e : Option Mark) (a : Nat),
      OpenW Z (G.anc Z) e a hs ↔ OpenS G Z e a hs
  | [], e, a => by cases e <;> simp [OpenW, OpenS]
  | h :: t, none, a => by
    simp only [OpenW, OpenS, condE, true_and]
    exact openW_iff_openS hwf hZ t _ _
  | h :: t, some m, a => by
    simp only [OpenW, OpenS, condE, condAt, condS, mem_anc hwf hZ]
    rw [openW_iff_openS hwf hZ t _ _]

/-- a walk given as a hop list extends a `Conn` derivation -/
theorem conn_of_walk {G : MG} {Z anZ : List Nat} {x : Nat} :
    ∀ (hs : List Hop) (a : Nat) (m0 : Mark), Conn G Z anZ x a m0 → ValidW G a hs →
      OpenW Z anZ (some m0) a hs → Conn G Z anZ x (endNode a hs) (lastMn m0 hs)
  | [], _, _, hc, _, _ => hc
  | h :: t, a, m0, hc, hv, ho => by
    obtain ⟨hv1, hv2⟩ := hv
    obtain ⟨ho1, ho2⟩ := ho
    have hc' : Conn G Z anZ x h.nx h.mn := Conn.step hc hv1 (by simpa [condE, condAt] using ho1)
    exact conn_of_walk t h.nx h.mn hc' hv2 ho2

theorem openW_none_of_tail {Z anZ : List Nat} {a : Nat} (ha : a ∉ Z) :
    ∀ hs : List Hop, OpenW Z anZ none a hs → OpenW Z anZ (some .tail) a hs
  | [], _ => trivial
  | h :: t, ho => by
    obtain ⟨_, ho2⟩ := ho
    refine ⟨?_, ho2⟩
    simp [condE, condAt]; exact ha

/-- every `Conn` derivation is a walk given as a hop list -/
theorem walk_of_conn {G : MG} {Z anZ : List Nat} {x v : Nat} {m : Mark} (hc : Conn G Z anZ x v m) :
    ∃ hs, ValidW G x hs ∧ OpenW Z anZ none x hs ∧ endNode x hs = v ∧
      (hs = [] ∧ m = .tail ∨ exitMark none hs = some m) := by
  induction hc with
  | start => exact ⟨[], trivial, trivial, rfl, Or.inl ⟨rfl, rfl⟩⟩
  | @step u w m0 mv mw _ he hcond ih =>
    obtain ⟨hs, hv, ho, hend, hm⟩ := ih
    refine ⟨hs ++ [⟨mv, mw, w⟩], ?_, ?_, ?_, Or.inr (exitMark_snoc _ _ _)⟩
    · rw [validW_append]; exact ⟨hv, by rw [hend]; exact ⟨he, trivial⟩⟩
    · rw [openW_append']
      refine ⟨ho, ?_⟩
      rw [hend]
      rcases hm with ⟨rfl, rfl⟩ | hm
      · simp [exitMark, OpenW, condE]
      · rw [hm]; simp only [OpenW, condE, condAt, and_true]; exact hcond
    · exact endNode_snoc _ _ _

/-- Walk-level and path-level m-connection coincide on the property's domain (T1). -/
theorem walk_iff_path {G : MG} (hwf : G.WF) (hb : NoUndirAtHead G) (hsl : NoSelfLoop G)
    {Z : List Nat} (hZ : ∀ z ∈ Z, z ∈ G.nodes) {x y : Nat} (hx : x ∉ Z) :
    (∃ m, Conn G Z (G.anc Z) x y m) ↔ MConnPath G Z x y := by
  constructor
  · rintro ⟨m, hc⟩
    obtain ⟨hs, hv, ho, hend, _⟩ := walk_of_conn hc
    obtain ⟨ps, pv, po, pe, pn⟩ :=
      walk_to_path hb hsl (ancClosed_anc hwf Z) hs none x (by intro m hm; cases hm) hv ho
    exact ⟨ps, pv, by rw [pe, hend], pn, (openW_iff_openS hwf hZ ps none x).mp po⟩
  · rintro ⟨hs, hv, hend, _, ho⟩
    have ho' := (openW_iff_openS hwf hZ hs none x).mpr ho
    have := conn_of_walk hs x .tail Conn.start hv (openW_none_of_tail hx hs ho')
    rw [hend] at this
    exact ⟨_, this⟩

/-- **C01 (main clause).** On every well-formed mixed graph without self loops in which no node
    carries both an arrowhead and an undirected edge (this covers all ADMGs, where there is no
    undirected edge at all), for X ⊆ V, Z ⊆ V and X ∩ Z = ∅, the model of `m_separated` answers
    `true` exactly when no path between X and Y is m-connecting given Z. -/
theorem mSeparated_iff_MSep (G : MG) (hwf : G.WF) (hb : NoUndirAtHead G) (hsl : NoSelfLoop G)
    (X Y Z : List Nat) (hX : ∀ x ∈ X, x ∈ G.nodes) (hZ : ∀ z ∈ Z, z ∈ G.nodes)
    (hXZ : ∀ x ∈ X, x ∉ Z) :
    mSeparated G X Y Z = true ↔ MSep G X Y Z := by
  rw [mSeparated_eq_noWalk G hwf X Y Z hX]
  unfold MSep
  constructor
  · intro h x hx y hy hp
    exact h ⟨x, hx, y, hy, (walk_iff_path hwf hb hsl hZ (hXZ x hx)).mpr hp⟩
  · rintro h ⟨x, hx, y, hy, hm⟩
    exact h x hx y hy ((walk_iff_path hwf hb hsl hZ (hXZ x hx)).mp hm)

/-- ADMGs (no undirected edge) satisfy the ancestral side condition trivially. -/
theorem noUndirAtHead_of_un_nil (G : MG) (h : G.un = []) : NoUndirAtHead G := by
  intro a p mp _ c hc
  rcases hc with ⟨_, h1, _⟩ | ⟨h1, _, _⟩ | ⟨h1, _, _⟩ | ⟨_, _, h3⟩
  · cases h1
  · cases h1
  · cases h1
  · rw [h] at h3; simp at h3

end MG
