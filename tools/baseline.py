#!/venv/bin/python
"""Run the library's test suite (guard OFF) in a given tree and compare the passing set with
/root/.vp/BASELINE.json.  usage: tools/baseline.py [repo_dir]   exit 0 iff every stable_pass test passes."""
import json, os, subprocess, sys, tempfile
import xml.etree.ElementTree as ET
repo = sys.argv[1] if len(sys.argv) > 1 else "/repo"
base = json.load(open("/root/.vp/BASELINE.json"))
want = set(base["stable_pass"])
fd, xml = tempfile.mkstemp(suffix=".xml"); os.close(fd)
env = dict(os.environ); env.pop("PYWHY_GRAPHS_VERIF", None)
subprocess.run(["/venv/bin/python", "-m", "pytest", "-q", "-p", "no:cacheprovider", "--timeout=900",
                "--continue-on-collection-errors", "--junitxml=" + xml, "-x" if False else "-q"],
               cwd=repo, env=env, stdout=subprocess.DEVNULL, stderr=subprocess.DEVNULL)
passed = set()
for tc in ET.parse(xml).getroot().iter("testcase"):
    if not any(ch.tag in ("failure", "error", "skipped") for ch in tc):
        passed.add("%s::%s" % (tc.get("classname"), tc.get("name")))
os.unlink(xml)
missing = sorted(want - passed)
print("stable_pass: %d  passing now: %d  missing: %d" % (len(want), len(passed & want), len(missing)))
for m in missing[:40]:
    print("  MISSING", m)
sys.exit(1 if missing else 0)
