import Pw.C01.Guard
import Pw.C09.Model
import Pw.C08.Spec
open Closure

/-! # C09 specification: what `pag_to_mag(P)` must return -/
namespace C09
open MG

inductive Mark3 | tail | head | circle deriving DecidableEq, Repr

/-- the mark at `b` of the edge between `a` and `b` (`none`: not adjacent); this is the layer
    combination table of the `PAG` class docstring -/
def markAt (G : MG) (a b : Nat) : Option Mark3 :=
  if (a, b) ∈ G.circ then some .circle
  else if (a, b) ∈ G.dir ∨ (a, b) ∈ G.bi ∨ (b, a) ∈ G.bi then some .head
  else if (b, a) ∈ G.dir ∨ (a, b) ∈ G.un ∨ (b, a) ∈ G.un ∨ (b, a) ∈ G.circ then some .tail
  else none

/-- well-formed PAG instance: at most one edge per pair, in one of the encodings of the class docstring -/
structure PagWF (P : MG) : Prop where
  dirCirc : ∀ a b, (a, b) ∈ P.dir → (a, b) ∉ P.circ
  dirDir : ∀ a b, (a, b) ∈ P.dir → (b, a) ∉ P.dir
  biNone : ∀ a b, ((a, b) ∈ P.bi ∨ (b, a) ∈ P.bi) → (a, b) ∉ P.dir ∧ (a, b) ∉ P.circ
  unNone : ∀ a b, ((a, b) ∈ P.un ∨ (b, a) ∈ P.un) →
    (a, b) ∉ P.dir ∧ (a, b) ∉ P.circ ∧ (a, b) ∉ P.bi ∧ (b, a) ∉ P.bi

/-- the structural clauses: same nodes, same adjacencies, every arrowhead and tail kept, every circle
    replaced by an arrowhead or a tail -/
structure Structural (P M : MG) : Prop where
  nodes : M.nodes = P.nodes
  adj : ∀ a b, (markAt M a b).isSome ↔ (markAt P a b).isSome
  keepHead : ∀ a b, markAt P a b = some .head → markAt M a b = some .head
  keepTail : ∀ a b, markAt P a b = some .tail → markAt M a b = some .tail
  noCircle : ∀ a b, markAt M a b ≠ some .circle

/-- unshielded collider `a *-> c <-* b` read off the marks -/
def UC (G : MG) (a c b : Nat) : Prop :=
  markAt G a c = some .head ∧ markAt G b c = some .head ∧ a ≠ b ∧ markAt G a b = none

/-- no directed cycle, no bidirected edge between a node and its ancestor -/
def Ancestral (M : MG) : Prop :=
  Acyclic M ∧ ∀ a b, ((a, b) ∈ M.bi ∨ (b, a) ∈ M.bi) → ¬ Anc M a b

/-- same independence model -/
def MarkovEquiv (M1 M2 : MG) : Prop :=
  ∀ x y Z, x ∈ M1.nodes → y ∈ M1.nodes → x ≠ y → (∀ z ∈ Z, z ∈ M1.nodes ∧ z ≠ x ∧ z ≠ y) →
    (MSep M1 [x] [y] Z ↔ MSep M2 [x] [y] Z)

/-- every non-adjacent pair is separated by some set -/
def Maximal (M : MG) : Prop :=
  ∀ x y, x ∈ M.nodes → y ∈ M.nodes → x ≠ y → markAt M x y = none →
    ∃ Z, (∀ z ∈ Z, z ∈ M.nodes ∧ z ≠ x ∧ z ≠ y) ∧ MSep M [x] [y] Z

/-- first sentence of C09 -/
structure FirstClause (P M : MG) : Prop where
  structural : Structural P M
  ancestral : Ancestral M
  noNewUC : ∀ a c b, UC M a c b → UC P a c b

/-- second sentence of C09 (`P` is the PAG of the MAG `M0`) -/
structure SecondClause (M0 M : MG) : Prop where
  ancestral : Ancestral M
  maximal : Maximal M
  equiv : MarkovEquiv M0 M

end C09
