import Pw.T5b.Descend
open Closure MG

/-! # T5b, part 3c: a semi-open D-walk is cut into a chain of links between observed anchors

Anchors are (i) observed non-colliders of the walk (flag `false`; they are outside Z), (ii) observed
colliders that are not ancestors of S, and (iii) for every latent collider that is not an ancestor of S
the first observed node below it (flag `true`: both adjacent links end with an arrowhead of `D`). -/
namespace T5b
open C06

variable {D M : MG} {L S : List Nat}

structure Good (D : MG) (L S Z T : List Nat) (o : Nat) (co : Bool) : Prop where
  obs : Obs D L S o
  tgt : AnS D S o ∨ ∃ t ∈ T, Anc D o t
  col : co = true → ¬ AnS D S o
  free : co = false → o ∉ Z

def ChainOK (D : MG) (L S Z T : List Nat) : Nat → Bool → List (Nat × Bool) → Prop
  | _, _, [] => True
  | u, cu, (v, cv) :: rest => Lk D L S u v cu cv ∧ Good D L S Z T v cv ∧ ChainOK D L S Z T v cv rest

def endOf : Nat → List (Nat × Bool) → Nat
  | u, [] => u
  | _, (v, _) :: rest => endOf v rest

def lastFlag : Bool → List (Nat × Bool) → Bool
  | c, [] => c
  | _, (_, cv) :: rest => lastFlag cv rest

theorem exitMark_cons (e : Option Mark) (h : Hop) (t : List Hop) :
    exitMark e (h :: t) = exitMark (some h.mn) t := by
  cases t <;> rfl

theorem anS_ancOf {u v w : Nat} (h : AnS D S w) : AncOf D u v S w := by
  obtain ⟨s, hs, ha⟩ := h
  exact ⟨s, by simp [hs], ha⟩

/-- an anchor, one hop and a pending walk form a link -/
theorem lk_of_pending {v o : Nat} {h : Hop} {π : List Hop} {cv co : Bool}
    (hv1 : HasEdge D v h.nx h.mp h.mn) (pv : ValidW D h.nx π) (pe : endNode h.nx π = o)
    (po : OpenP (AnS D S) (NL D L) (some h.mn) h.nx π)
    (hex : co = true → exitMark (some h.mn) π = some .head) (hcv : cv = true → h.mp = .head) :
    Lk D L S v o cv co := by
  refine ⟨h :: π, by simp, ⟨⟨hv1, pv⟩, pe, ⟨trivial, ?_⟩⟩, ?_, ?_⟩
  · exact OpenP.mono (fun w hw => anS_ancOf hw) π _ _ po
  · intro hc p hp
    simp at hp; subst hp; exact hcv hc
  · intro hc
    rw [exitMark_cons]; exact hex hc

/-- the first observed node below a latent collider, the walk back up, one hop and a pending walk
    form a link -/
theorem lk_of_detour {v o : Nat} {h : Hop} {π δ : List Hop} {co : Bool} (dv : ValidW D v δ)
    (dd : DownW δ) (dl : SrcL L v δ) (hne : δ ≠ []) (hvL : v ∈ L)
    (hv1 : HasEdge D v h.nx h.mp h.mn) (pv : ValidW D h.nx π) (pe : endNode h.nx π = o)
    (po : OpenP (AnS D S) (NL D L) (some h.mn) h.nx π)
    (hex : co = true → exitMark (some h.mn) π = some .head) :
    Lk D L S (endNode v δ) o true co := by
  have hrne := revHops_ne_nil δ v hne
  refine ⟨revHops v δ ++ h :: π, by simp, ⟨?_, ?_, ?_⟩, ?_, ?_⟩
  · rw [validW_append, endNode_revHops]
    exact ⟨validW_revHops δ v dv, hv1, pv⟩
  · rw [endNode_append, endNode_revHops]; exact pe
  · rw [openP_append, endNode_revHops, rev_down_exit δ v dd hne none]
    refine ⟨openP_up δ v dd dl, ?_, OpenP.mono (fun w hw => anS_ancOf hw) π _ _ po⟩
    simp only [condPO, condP]
    have : ¬ (Mark.tail = .head ∧ h.mp = .head) := by rintro ⟨h, _⟩; cases h
    simp only [this, if_false]
    exact not_mem_NL hvL
  · intro _ p hp
    apply rev_down_head δ v dd p
    cases hr : revHops v δ with
    | nil => exact absurd hr hrne
    | cons a b => rw [hr] at hp; simpa using hp
  · intro hc
    rw [exitMark_append none none _ (h :: π) (by simp), exitMark_cons]
    exact hex hc

theorem walk_to_chain (su : Setup D L S M) {Z T : List Nat} (hT : ∀ t ∈ T, Obs D L S t) {y : Nat}
    (hy : Good D L S Z T y false) :
    ∀ (hs : List Hop) (v : Nat) (m : Mark), ValidW D v hs → OpenP Tr (Z ++ S) (some m) v hs →
      (∀ w ∈ nodesOf v hs, w ∈ D.nodes ∧ (AnS D S w ∨ ∃ t ∈ T, Anc D w t)) → endNode v hs = y →
      ∃ o co π l, ValidW D v π ∧ endNode v π = o ∧ OpenP (AnS D S) (NL D L) (some m) v π ∧
        (co = true → exitMark (some m) π = some .head) ∧ Good D L S Z T o co ∧
        ChainOK D L S Z T o co l ∧ endOf o l = y ∧ lastFlag co l = false
  | [], v, m, _, _, _, hend => by
    simp only [endNode] at hend
    subst hend
    exact ⟨v, false, [], [], trivial, rfl, trivial, (by intro h; cases h), hy, trivial, rfl, rfl⟩
  | h :: t, v, m, hv, ho, hall, hend => by
    obtain ⟨hv1, hv2⟩ := hv
    obtain ⟨ho1, ho2⟩ := ho
    have htall : ∀ w ∈ nodesOf h.nx t, w ∈ D.nodes ∧ (AnS D S w ∨ ∃ t ∈ T, Anc D w t) := by
      intro w hw
      apply hall w
      simp only [nodesOf, List.map_cons, List.mem_cons] at hw ⊢
      exact Or.inr hw
    obtain ⟨o, co, π, l, pv, pe, po, pex, pgood, pchain, pend, plast⟩ :=
      walk_to_chain su hT hy t h.nx h.mn hv2 ho2 htall (by simpa [endNode] using hend)
    obtain ⟨hvn, hvtgt⟩ := hall v (by simp [nodesOf])
    simp only [condPO, condP] at ho1
    -- the two ways of continuing
    have pass : condP (AnS D S) (NL D L) m h.mp v →
        ∃ o co π l, ValidW D v π ∧ endNode v π = o ∧ OpenP (AnS D S) (NL D L) (some m) v π ∧
          (co = true → exitMark (some m) π = some .head) ∧ Good D L S Z T o co ∧
          ChainOK D L S Z T o co l ∧ endOf o l = y ∧ lastFlag co l = false := by
      intro hc
      exact ⟨o, co, h :: π, l, ⟨hv1, pv⟩, pe, ⟨hc, po⟩, by rw [exitMark_cons]; exact pex, pgood,
        pchain, pend, plast⟩
    have anchor : ∀ cv : Bool, Good D L S Z T v cv → (cv = true → m = .head ∧ h.mp = .head) →
        ∃ o co π l, ValidW D v π ∧ endNode v π = o ∧ OpenP (AnS D S) (NL D L) (some m) v π ∧
          (co = true → exitMark (some m) π = some .head) ∧ Good D L S Z T o co ∧
          ChainOK D L S Z T o co l ∧ endOf o l = y ∧ lastFlag co l = false := by
      intro cv hg hcv
      refine ⟨v, cv, [], (o, co) :: l, trivial, rfl, trivial, ?_, hg, ⟨?_, pgood, pchain⟩, pend, plast⟩
      · intro hc; simp only [exitMark]; rw [(hcv hc).1]
      · exact lk_of_pending hv1 pv pe po pex (fun hc => (hcv hc).2)
    by_cases hcol : m = .head ∧ h.mp = .head
    · simp only [hcol, and_self, if_true] at ho1
      by_cases hS : AnS D S v
      · apply pass
        simp only [condP, hcol, and_self, if_true]; exact hS
      · by_cases hobs : Obs D L S v
        · exact anchor true ⟨hobs, hvtgt, fun _ => hS, (by intro h; cases h)⟩ (fun _ => hcol)
        · -- latent collider outside An(S): descend to the first observed node
          have hvL : v ∈ L := by
            apply Classical.byContradiction
            intro hn
            exact hobs ⟨hvn, hn, not_mem_S_of_not_anS hS⟩
          rcases hvtgt with hvt | ⟨tt, htt, hanc⟩
          · exact absurd hvt hS
          · obtain ⟨δ, o', dv, rfl, dd, dl, ho', hot⟩ := descend su hanc (hT tt htt) hS
            have hne : δ ≠ [] := by
              rintro rfl
              exact hobs ho'
            refine ⟨endNode v δ, true, δ, (o, co) :: l, dv, rfl, openP_down δ v _ dd dl,
              fun _ => exitMark_down δ _ dd hne, ?_, ⟨?_, pgood, pchain⟩, pend, plast⟩
            · exact ⟨ho', Or.inr ⟨tt, htt, hot⟩,
                fun _ => not_anS_of_anc (anc_of_down δ v dv dd) hS, (by intro h; cases h)⟩
            · exact lk_of_detour dv dd dl hne hvL hv1 pv pe po pex
    · simp only [hcol, if_false] at ho1
      have hvZ : v ∉ Z := fun hz => ho1 (List.mem_append_left _ hz)
      have hvS : v ∉ S := fun hz => ho1 (List.mem_append_right _ hz)
      by_cases hobs : Obs D L S v
      · exact anchor false ⟨hobs, hvtgt, (by intro h; cases h), fun _ => hvZ⟩ (by intro h; cases h)
      · have hvL : v ∈ L := by
          apply Classical.byContradiction
          intro hn
          exact hobs ⟨hvn, hn, hvS⟩
        apply pass
        simp only [condP, hcol, if_false]
        exact not_mem_NL hvL

end T5b
