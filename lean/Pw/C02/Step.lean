import Pw.C02.Refine

/-! # C02: `abs (g.step op) = (abs g).step op` for every public mutation -/
namespace C02
namespace MEG

theorem lookup_filter_ne {α} (l : List (Nat × α)) (t x : Nat) :
    List.lookup x (l.filter (·.1 != t)) = if x == t then none else List.lookup x l := by
  induction l with
  | nil => simp
  | cons p l ih =>
    obtain ⟨k, b⟩ := p
    simp only [List.filter_cons]
    by_cases hk : k = t
    · subst hk
      simp only [bne_self_eq_false, Bool.false_eq_true, ite_false, ih, List.lookup_cons]
      by_cases hx : x = k
      · simp [hx]
      · have : (x == k) = false := by simpa using hx
        simp [this]
    · have hk' : (k != t) = true := by simpa using hk
      simp only [hk', ite_true, List.lookup_cons, ih]
      by_cases hx : x = k
      · subst hx
        have : (x == t) = false := by simpa using hk
        simp [this]
      · have : (x == k) = false := by simpa using hx
        simp [this]

theorem abs_addNodes (g : MEG) (vs : List Nat) (a : Attr) :
    (g.addNodes vs a).abs = vs.foldl (fun s v => s.addNodeS v a) g.abs := by
  unfold addNodes
  induction vs generalizing g with
  | nil => rfl
  | cons v vs ih => simp only [List.foldl_cons, ih, abs_addNode]

theorem abs_ensureNodes (g : MEG) (es : List (Nat × Nat)) (a : Attr) :
    (es.foldl (fun g e => (g.ensureNode e.1 a).ensureNode e.2 a) g).abs =
      es.foldl (fun s e => (s.ensureS e.1 a).ensureS e.2 a) g.abs := by
  induction es generalizing g with
  | nil => rfl
  | cons e es ih => simp only [List.foldl_cons, ih, abs_ensureNode]

/-- closed form of removing a set of nodes -/
def _root_.C02.AG.dropNodesS (a : AG) (vs : List Nat) : AG :=
  { a with node := fun x => a.node x && !vs.contains x,
           nattr := fun x => if vs.contains x then .empty else a.nattr x,
           edge := fun t x y => a.edge t x y && !vs.contains x && !vs.contains y,
           eattr := fun t x y => if vs.contains x || vs.contains y then .empty else a.eattr t x y }

theorem foldl_dropNodeS (a : AG) (vs : List Nat) : vs.foldl AG.dropNodeS a = a.dropNodesS vs := by
  induction vs generalizing a with
  | nil => apply AG.ext' <;> simp [AG.dropNodesS]
  | cons v vs ih =>
    simp only [List.foldl_cons, ih]
    apply AG.ext'
    · rfl
    · intro x; simp only [AG.dropNodesS, AG.dropNodeS, List.contains_cons]
      cases a.node x <;> cases hx : x == v <;> simp [bne, hx]
    · intro t; rfl
    · intro t x y; simp only [AG.dropNodesS, AG.dropNodeS, List.contains_cons]
      cases a.edge t x y <;> cases hx : x == v <;> cases hy : y == v <;> simp [bne, hx, hy]
    · intro x; simp only [AG.dropNodesS, AG.dropNodeS, List.contains_cons]
      cases hx : x == v <;> simp
    · intro t x y; simp only [AG.dropNodesS, AG.dropNodeS, List.contains_cons]
      cases hx : x == v <;> cases hy : y == v <;> simp
    · rfl

theorem _root_.C02.Layer.find_removeNodes (L : Layer) (vs : List Nat) (x y : Nat) :
    (L.removeNodes vs).find x y = if vs.contains x || vs.contains y then none else L.find x y := by
  unfold Layer.removeNodes
  induction vs generalizing L with
  | nil => simp
  | cons v vs ih =>
    simp only [List.foldl_cons, ih, Layer.find_dropNode, List.contains_cons]
    cases hx : x == v <;> cases hy : y == v <;> simp

theorem lookup_filter_not_contains {α} (l : List (Nat × α)) (vs : List Nat) (x : Nat) :
    List.lookup x (l.filter fun p => !vs.contains p.1) = if vs.contains x then none else List.lookup x l := by
  induction l with
  | nil => simp
  | cons p l ih =>
    obtain ⟨k, b⟩ := p
    simp only [List.filter_cons]
    by_cases hk : vs.contains k = true
    · simp only [hk, Bool.not_true, Bool.false_eq_true, ite_false, ih, List.lookup_cons]
      by_cases hx : x = k
      · subst hx; simp only [List.contains_eq_mem, decide_eq_true_eq] at hk; simp [hk]
      · have : (x == k) = false := by simpa using hx
        simp [this]
    · have hk' : vs.contains k = false := by simpa using hk
      simp only [hk', Bool.not_false, ite_true, List.lookup_cons, ih]
      by_cases hx : x = k
      · subst hx; simp only [List.contains_eq_mem, decide_eq_true_eq] at hk; simp [hk]
      · have : (x == k) = false := by simpa using hx
        simp [this]

theorem abs_removeNodes (g : MEG) (vs : List Nat) : (g.removeNodes vs).abs = g.abs.dropNodesS vs := by
  unfold removeNodes
  have h : LayersBy { g with nodes := g.nodes.filter fun p => !vs.contains p.1 }
      (({ g with nodes := g.nodes.filter fun p => !vs.contains p.1 } : MEG).applyAll (·.removeNodes vs))
      (selF .all (·.removeNodes vs)) := LayersBy.applyAll _ _
  refine h.abs_eq (a := g.abs.dropNodesS vs) rfl ?_ ?_ rfl ?_ ?_ ?_
  · funext x
    simp only [AG.dropNodesS, abs, hasNode, nodeIds, filter_ids g.nodes (fun x => !vs.contains x)]
    rw [Bool.eq_iff_iff]; simp [List.mem_filter]
  · funext x
    simp only [AG.dropNodesS, abs, lookup_filter_not_contains]
    split <;> simp
  · intro t; simp only [AG.dropNodesS, abs, selF, layer?]; cases List.lookup t g.layers <;> simp [AG.sel]
  · intro t x y; simp only [AG.dropNodesS, abs, selF, layer?]
    cases List.lookup t g.layers <;> simp [AG.sel, Layer.has_removeNodes]
  · intro t x y; simp only [AG.dropNodesS, abs, selF, layer?]
    rcases Option.eq_none_or_eq_some (List.lookup t g.layers) with hL | ⟨L, hL⟩ <;> simp only [hL]
    · simp
    · simp only [AG.sel, ite_true, Layer.find_removeNodes]; split <;> simp

theorem abs_removeNode {g : MEG} (hi : g.Inv) (v : Nat) (hv : g.hasNode v = true) :
    (g.removeNode v).1.abs = g.abs.dropNodeS v := by
  unfold removeNode; simp only [hv, ite_true]
  have hf : (({ g with nodes := g.nodes.filter (·.1 != v) } : MEG).applyAll fun L => (L.removeNode v).getD L) =
      ({ g with nodes := g.nodes.filter (·.1 != v) } : MEG).applyAll (·.dropNode v) := by
    simp only [applyAll]
    congr 1
    apply List.map_congr_left
    intro p hp
    rw [Layer.removeNode_eq _ _ (hi.wf p hp)]
  rw [hf]
  have h : LayersBy { g with nodes := g.nodes.filter (·.1 != v) }
      (({ g with nodes := g.nodes.filter (·.1 != v) } : MEG).applyAll (·.dropNode v))
      (selF .all (·.dropNode v)) := LayersBy.applyAll _ _
  refine h.abs_eq (a := g.abs.dropNodeS v) rfl ?_ ?_ rfl ?_ ?_ ?_
  · funext x
    simp only [AG.dropNodeS, abs, hasNode, nodeIds, filter_ids g.nodes (· != v)]
    rw [Bool.eq_iff_iff]; simp [List.mem_filter]
  · funext x
    simp only [AG.dropNodeS, abs, lookup_filter_ne]
    split <;> simp
  · intro t; simp only [AG.dropNodeS, abs, selF, layer?]; cases List.lookup t g.layers <;> simp [AG.sel]
  · intro t x y; simp only [AG.dropNodeS, abs, selF, layer?]
    cases List.lookup t g.layers <;> simp [AG.sel, Layer.has_dropNode]
  · intro t x y; simp only [AG.dropNodeS, abs, selF, layer?]
    rcases Option.eq_none_or_eq_some (List.lookup t g.layers) with hL | ⟨L, hL⟩ <;> simp only [hL]
    · simp
    · simp only [AG.sel, ite_true, Layer.find_dropNode]; split <;> simp

theorem abs_removeEdgeType (g : MEG) (t : Nat) :
    ({ g with layers := g.layers.filter (·.1 != t) } : MEG).abs =
      { g.abs with kind := fun t' => if t' == t then none else g.abs.kind t',
                   edge := fun t' x y => g.abs.edge t' x y && t' != t,
                   eattr := fun t' x y => if t' == t then .empty else g.abs.eattr t' x y } := by
  apply AG.ext'
  · rfl
  · intro x; rfl
  · intro t'; simp only [abs, layer?, lookup_filter_ne]; split <;> simp
  · intro t' x y; simp only [abs, layer?, lookup_filter_ne]
    by_cases h : (t' == t) = true
    · simp [h, bne]
    · have h' : (t' == t) = false := by simpa using h
      simp only [h', Bool.false_eq_true, ite_false, bne, Bool.not_false, Bool.and_true]
  · intro x; rfl
  · intro t' x y; simp only [abs, layer?, lookup_filter_ne]
    by_cases h : (t' == t) = true
    · simp [h]
    · have h' : (t' == t) = false := by simpa using h
      simp only [h', Bool.false_eq_true, ite_false]
  · rfl

theorem abs_setGAttr (g : MEG) (a : Attr) : (g.setGAttr a).abs = { g.abs with gattr := g.abs.gattr.upd a } := by
  apply AG.ext' <;> try (intros; rfl)
  exact attrOf_upd (some g.gattr) a

/-! ### add_edge_type -/
theorem AAttr.upd_nil (a : AAttr) : a.upd [] = a := by funext k; simp [AAttr.upd, Attr.get]

theorem foldl_addNodeS_nil (a : AG) (vs : List Nat) :
    vs.foldl (fun s v => s.addNodeS v []) a = { a with node := fun x => a.node x || vs.contains x } := by
  induction vs generalizing a with
  | nil => simp
  | cons v vs ih =>
    simp only [List.foldl_cons, ih]
    apply AG.ext' <;> try (intros; rfl)
    · intro x; simp only [AG.addNodeS, List.contains_cons, Bool.or_assoc]
    · intro x; simp only [AG.addNodeS, AAttr.upd_nil]; split <;> rfl

theorem lookup_append_single {α} (l : List (Nat × α)) (t x : Nat) (b : α) (ht : t ∉ l.map (·.1)) :
    List.lookup x (l ++ [(t, b)]) = if x == t then some b else List.lookup x l := by
  rw [List.lookup_append]
  by_cases hx : x = t
  · subst hx; rw [lookup_none_of_not_mem ht]; simp
  · have : (x == t) = false := by simpa using hx
    simp [List.lookup_cons, this]

theorem _root_.C02.Layer.attrs_nil_addEdge {L : Layer} (h : ∀ e ∈ L.edges, e.2 = []) (u v : Nat) :
    ∀ e ∈ (L.addEdge u v []).edges, e.2 = [] := by
  unfold Layer.addEdge; simp only
  split
  · intro e he
    simp only [Layer.edges_addNode, List.mem_map] at he
    obtain ⟨e0, he0, rfl⟩ := he
    have := h e0 he0
    split <;> simp [Attr.upd, this]
  · intro e he
    simp only [Layer.edges_addNode, List.mem_append, List.mem_singleton] at he
    rcases he with he | rfl
    · exact h e he
    · rfl
theorem _root_.C02.Layer.attrs_nil_build (k : Kind) (ns : List Nat) (es : List (Nat × Nat)) :
    ∀ e ∈ (Layer.build k ns es).edges, e.2 = [] := by
  unfold Layer.build Layer.addEdges
  have h0 : ∀ e ∈ (({ kind := k } : Layer).addNodes ns).edges, e.2 = [] := by simp
  generalize ({ kind := k } : Layer).addNodes ns = L at h0
  induction es generalizing L with
  | nil => exact h0
  | cons e es ih => exact ih _ (Layer.attrs_nil_addEdge h0 e.1 e.2)
theorem _root_.C02.Layer.find_attrs_nil {L : Layer} (h : ∀ e ∈ L.edges, e.2 = []) (x y : Nat) :
    attrOf (L.find x y) = AAttr.empty := by
  unfold Layer.find
  cases hf : L.edges.find? (fun e => same L.kind e.1 (x, y)) with
  | none => rfl
  | some e =>
    have := h e (List.mem_of_find?_eq_some hf)
    funext k; simp [attrOf, Attr.get, this, AAttr.empty]

theorem abs_addEdgeType {g : MEG} (t : Nat) (k : Kind) (ns : List Nat) (es : List (Nat × Nat))
    (ht : g.names.contains t = false) :
    (g.addEdgeType t (Layer.build k ns es)).1.abs =
      { g.abs with kind := fun t' => if t' == t then some k else g.abs.kind t',
                   node := fun x => g.abs.node x || ns.contains x || es.any fun e => x == e.1 || x == e.2,
                   edge := fun t' x y => if t' == t then es.any fun e => sameP k x y e.1 e.2 else g.abs.edge t' x y } := by
  unfold addEdgeType
  simp only [ht, Bool.false_eq_true, ite_false, abs_addNodes, foldl_addNodeS_nil]
  have htn : t ∉ g.layers.map (·.1) := by simpa [names] using ht
  have hlt : List.lookup t g.layers = none := lookup_none_of_not_mem htn
  apply AG.ext'
  · rfl
  · intro x
    simp only [abs, hasNode, nodeIds]
    rw [Bool.eq_iff_iff]
    simp only [Bool.or_eq_true, List.contains_eq_mem, decide_eq_true_eq, Layer.mem_addNodes, Layer.mem_build_nodes,
      List.any_eq_true, beq_iff_eq]
    grind
  · intro t'; simp only [abs, layer?, lookup_append_single _ _ _ _ htn]; split <;> simp [Layer.build]
  · intro t' x y; simp only [abs, layer?, lookup_append_single _ _ _ _ htn]
    by_cases h : (t' == t) = true
    · simp only [h, ite_true, Layer.has_addNodes, Layer.has_build]
      rfl
    · have h' : (t' == t) = false := by simpa using h
      simp only [h', Bool.false_eq_true, ite_false]
  · intro x; rfl
  · intro t' x y; simp only [abs, layer?, lookup_append_single _ _ _ _ htn]
    by_cases h : (t' == t) = true
    · simp only [h, ite_true]
      have : t' = t := by simpa using h
      subst this
      rw [hlt]
      -- every stored attribute dict of the fresh layer is empty
      exact Layer.find_attrs_nil (by simpa using Layer.attrs_nil_build k ns es) x y
    · have h' : (t' == t) = false := by simpa using h
      simp only [h', Bool.false_eq_true, ite_false]
  · rfl

/-! ### the refinement step -/
theorem abs_kind_isSome (g : MEG) (t : Nat) : (g.abs.kind t).isSome = g.names.contains t := by
  simp only [abs, Option.isSome_map, layer?, names]; exact lookup_isSome_iff t g.layers

theorem abs_known (g : MEG) (t : Nat) : g.abs.known (.one t) = (g.layer? t).isSome := by
  simp [AG.known, abs]

/-- **C02 refinement (one step)**: every public mutation of a `MixedEdgeGraph`/`ADMG` object acts on
    the abstract state (node set, per-layer edge sets, attributes) exactly as the specification says,
    and it raises exactly when the specification says so. -/
theorem abs_step {g : MEG} (hi : g.Inv) (op : GOp) :
    (g.step op).1.abs = (g.abs.step op).1 ∧ (g.step op).2 = (g.abs.step op).2 := by
  cases op with
  | addNode v a => exact ⟨abs_addNode g v a, rfl⟩
  | addNodes vs a => exact ⟨abs_addNodes g vs a, rfl⟩
  | removeNode v =>
    simp only [MEG.step, AG.step]
    by_cases hv : g.hasNode v = true
    · have : g.abs.node v = true := hv
      simp only [this, ite_true]
      exact ⟨abs_removeNode hi v hv, by simp [removeNode, hv]⟩
    · have hv' : g.hasNode v = false := by simpa using hv
      have : g.abs.node v = false := hv'
      simp [this, removeNode, hv']
  | removeNodes vs =>
    simp only [MEG.step, AG.step, foldl_dropNodeS]
    exact ⟨abs_removeNodes g vs, trivial⟩
  | addEdge u v t a =>
    simp only [MEG.step, AG.step, addEdge]
    rw [← abs_ensureNode, ← abs_ensureNode]
    generalize (g.ensureNode u []).ensureNode v [] = g2
    cases t with
    | all =>
      simp only [AG.known, ite_true, and_true]
      exact abs_putEdge (LayersBy.applyAll g2 (·.addEdge u v a))
    | one t =>
      simp only [abs_known]
      cases hL : g2.layer? t with
      | none => simp
      | some L =>
        simp only [Option.isSome_some, ite_true, and_true]
        exact abs_putEdge (LayersBy.setLayer hL (·.addEdge u v a))
  | addEdges es t a =>
    simp only [MEG.step, AG.step, addEdges]
    rw [← abs_ensureNodes]
    generalize es.foldl (fun g e => (g.ensureNode e.1 a).ensureNode e.2 a) g = g2
    cases t with
    | all =>
      simp only [AG.known, ite_true, and_true]
      exact abs_addEdges (LayersBy.applyAll g2 (·.addEdges es a))
    | one t =>
      simp only [abs_known]
      cases hL : g2.layer? t with
      | none => simp
      | some L =>
        simp only [Option.isSome_some, ite_true, and_true]
        exact abs_addEdges (LayersBy.setLayer hL (·.addEdges es a))
  | removeEdge u v t =>
    simp only [MEG.step, AG.step, removeEdge]
    cases t with
    | all =>
      simp only [and_true]
      have : (g.applyAll fun L => (L.removeEdge u v).getD L) = g.applyAll (·.dropEdge u v) := by
        simp only [applyAll]; congr 1; apply List.map_congr_left; intro p _; rw [Layer.removeEdge_eq]
      rw [this]
      exact abs_dropEdge (LayersBy.applyAll g (·.dropEdge u v))
    | one t =>
      simp only
      cases hL : g.layer? t with
      | none => simp [abs, hL]
      | some L =>
        have hk : (g.abs.kind t).isSome = true := by simp [abs, hL]
        have he : g.abs.edge t u v = L.has u v := by simp [abs, hL]
        simp only [hk, he, Bool.true_and]
        unfold Layer.removeEdge
        by_cases hh : L.has u v = true
        · simp only [hh, ite_true, and_true]
          exact abs_dropEdge (LayersBy.setLayer hL (·.dropEdge u v))
        · simp [hh]
  | removeEdges es t =>
    simp only [MEG.step, AG.step, removeEdges]
    cases t with
    | all =>
      simp only [AG.known, ite_true, and_true]
      exact abs_removeEdges (LayersBy.applyAll g (·.removeEdges es))
    | one t =>
      simp only [abs_known]
      cases hL : g.layer? t with
      | none => simp
      | some L =>
        simp only [Option.isSome_some, ite_true, and_true]
        exact abs_removeEdges (LayersBy.setLayer hL (·.removeEdges es))
  | clearEdges t =>
    simp only [MEG.step, AG.step, clearEdges]
    cases t with
    | all =>
      simp only [AG.known, ite_true, and_true]
      exact abs_clearEdges (LayersBy.applyAll g (·.clearEdges))
    | one t =>
      simp only [abs_known]
      cases hL : g.layer? t with
      | none => simp
      | some L =>
        simp only [Option.isSome_some, ite_true, and_true]
        exact abs_clearEdges (LayersBy.setLayer hL (·.clearEdges))
  | addEdgeType t k ns es =>
    simp only [MEG.step, AG.step, abs_kind_isSome]
    by_cases ht : g.names.contains t = true
    · have hm : t ∈ g.names := by simpa using ht
      simp [hm, addEdgeType]
    · have ht' : g.names.contains t = false := by simpa using ht
      have hm : t ∉ g.names := by simpa using ht
      simp only [ht', Bool.false_eq_true, ite_false]
      exact ⟨abs_addEdgeType t k ns es ht', by simp [addEdgeType, hm]⟩
  | removeEdgeType t =>
    simp only [MEG.step, AG.step, abs_kind_isSome, removeEdgeType]
    by_cases ht : g.names.contains t = true
    · simp only [ht, ite_true, and_true]; exact abs_removeEdgeType g t
    · have hm : t ∉ g.names := by simpa using ht
      simp [hm]
  | setGAttr a => exact ⟨abs_setGAttr g a, rfl⟩

end MEG
end C02
