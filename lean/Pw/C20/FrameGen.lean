import Pw.C20.Proofs

/-!
C20 — Frame depends on the two aliasing repairs only.  In EVERY model in which `copy()` does not
share the registry and `domains` is not a class attribute (whatever the naming scheme, and whether
or not `AugmentedGraph.remove_node` forgets S-nodes), no two live objects share a registry cell and
an operation leaves every object it is not called on unchanged.  Together with
`counterexample_shared_copy_frame` and `counterexample_class_domains` this says: exactly the two
aliasing defects break Frame.
-/
namespace C20

/-- the aliasing part of the heap invariant -/
structure HSep (s : State) : Prop where
  valid : ∀ (g : Nat) (o : Obj), s.objs[g]? = some o → o.reg < s.regs.length
  sep : ∀ (g h : Nat) (o p : Obj), s.objs[g]? = some o → s.objs[h]? = some p → g ≠ h → o.reg ≠ p.reg

theorem HInv.toSep {s : State} (h : HInv s) : HSep s := ⟨h.valid, h.sep⟩

theorem viewOf_noClass {c : Cfg} (hc : c.classDoms = false) (s : State) (o : Obj) :
    viewOf c s o = lview (localOf s o) := by
  simp [viewOf, lview, localOf, hc]

theorem stepAt_sep (c : Cfg) {s : State} (hs : HSep s) (g : Nat) (op : LOp) : HSep (stepAt c s g op).1 := by
  cases h : s.objs[g]? with
  | none => rw [stepAt_none op h]; exact hs
  | some o =>
    have hv := hs.valid g o h
    have href : _ = o.reg ∧ _ = o.cls := stepLocal_ref c (localOf s o) op
    have hlen : (stepAt c s g op).1.regs.length = s.regs.length := by
      rw [stepAt_some op h]; simp
    refine ⟨?_, ?_⟩
    · intro j q hq
      rw [stepAt_objs op h] at hq
      rw [hlen]
      by_cases hj : j = g
      · simp [hj] at hq; subst hq; rw [href.1]; exact hv
      · simp [hj] at hq; exact hs.valid j q hq
    · intro j k q p hq hp hne
      rw [stepAt_objs op h] at hq hp
      by_cases hj : j = g
      · by_cases hk : k = g
        · exact absurd (hj.trans hk.symm) hne
        · simp [hj] at hq; simp [hk] at hp; subst hq
          rw [href.1]; exact hs.sep g k o p h hp (fun e => hk e.symm)
      · by_cases hk : k = g
        · simp [hj] at hq; simp [hk] at hp; subst hp
          rw [href.1]; exact hs.sep j g q o hq h hj
        · simp [hj] at hq; simp [hk] at hp
          exact hs.sep j k q p hq hp hne

theorem stepAt_frame_gen {c : Cfg} (hc : c.classDoms = false) {s : State} (hs : HSep s) (g : Nat) (op : LOp)
    (j : Nat) (hj : j ≠ g) : view c (stepAt c s g op).1 j = view c s j := by
  cases h : s.objs[g]? with
  | none => rw [stepAt_none op h]
  | some o =>
    have hv := hs.valid g o h
    unfold view
    rw [stepAt_objs op h, if_neg hj]
    cases hq : s.objs[j]? with
    | none => rfl
    | some q =>
      simp only [Option.map_some, viewOf_noClass hc]
      congr 1
      have : (stepAt c s g op).1.cell q = s.cell q := by
        rw [stepAt_cell op h hv, if_neg (hs.sep j g q o hq h hj)]
      simp [lview, localOf, this]

theorem alloc_sep {s : State} (hs : HSep s) (o : Obj) (r : Registry) : HSep (alloc s o r) := by
  have hlen : (alloc s o r).regs.length = s.regs.length + 1 := by simp [alloc]
  have old : ∀ {j : Nat} {q : Obj}, j < s.objs.length → (alloc s o r).objs[j]? = some q → s.objs[j]? = some q := by
    intro j q h1 hq; rw [alloc_objs, if_pos h1] at hq; exact hq
  have new : ∀ {j : Nat} {q : Obj}, ¬ j < s.objs.length → (alloc s o r).objs[j]? = some q →
      j = s.objs.length ∧ q = { o with reg := s.regs.length } := by
    intro j q h1 hq
    rw [alloc_objs, if_neg h1] at hq
    by_cases h2 : j = s.objs.length
    · rw [if_pos h2] at hq; injection hq with hq; exact ⟨h2, hq.symm⟩
    · rw [if_neg h2] at hq; cases hq
  refine ⟨?_, ?_⟩
  · intro j q hq
    rw [hlen]
    by_cases h1 : j < s.objs.length
    · have := hs.valid j q (old h1 hq); omega
    · obtain ⟨_, rfl⟩ := new h1 hq; simp
  · intro j k q p hq hp hne
    by_cases hj : j < s.objs.length
    · have vq := hs.valid j q (old hj hq)
      by_cases hk : k < s.objs.length
      · exact hs.sep j k q p (old hj hq) (old hk hp) hne
      · obtain ⟨_, rfl⟩ := new hk hp; simp; omega
    · obtain ⟨hj2, rfl⟩ := new hj hq
      by_cases hk : k < s.objs.length
      · have vp := hs.valid k p (old hk hp); simp; omega
      · obtain ⟨hk2, _⟩ := new hk hp
        exact absurd (hj2.trans hk2.symm) hne

theorem alloc_frame_gen {c : Cfg} (hc : c.classDoms = false) {s : State} (hs : HSep s) (o : Obj) (r : Registry)
    (j : Nat) (hj : j < s.objs.length) : view c (alloc s o r) j = view c s j := by
  unfold view
  rw [alloc_objs, if_pos hj]
  cases hq : s.objs[j]? with
  | none => rfl
  | some q =>
    simp only [Option.map_some, viewOf_noClass hc]
    congr 1
    have := alloc_cell_old s o r q (hs.valid j q hq)
    simp only [lview, localOf] at this ⊢
    rw [this]

theorem stepCopy_some_gen {c : Cfg} (hc : c.sharedCopy = false) {s : State} {g : Nat} {o : Obj}
    (h : s.objs[g]? = some o) : stepCopy c s g = (alloc s o (s.cell o), .ok) := by
  unfold stepCopy; rw [h]; simp [hc, alloc]

theorem allSLoop_gen {c : Cfg} (hc : c.classDoms = false) (g : Nat) :
    ∀ (ds : List (Nat × Nat)) (s : State) (k : Nat), HSep s →
      HSep (allSLoop c s g ds k).1 ∧ (allSLoop c s g ds k).1.objs.length = s.objs.length ∧
      ∀ j, j ≠ g → view c (allSLoop c s g ds k).1 j = view c s j := by
  intro ds
  induction ds with
  | nil => intro s k hs; exact ⟨hs, rfl, fun _ _ => rfl⟩
  | cons d rest ih =>
    intro s k hs
    unfold allSLoop
    have h1 := stepAt_sep c hs g (.rawS k d)
    have h2 := stepAt_len c s g (.rawS k d)
    have h3 := fun j hj => stepAt_frame_gen hc hs g (.rawS k d) j hj
    rcases hst : stepAt c s g (.rawS k d) with ⟨s', st⟩
    rw [hst] at h1 h2 h3
    cases st with
    | ok =>
      obtain ⟨i1, i2, i3⟩ := ih s' (k + 1) h1
      exact ⟨i1, i2.trans h2, fun j hj => (i3 j hj).trans (h3 j hj)⟩
    | err => exact ⟨h1, h2, h3⟩

theorem take_sep {s : State} (hs : HSep s) (n : Nat) : HSep { s with objs := s.objs.take n } := by
  have sub : ∀ {j : Nat} {q : Obj}, ({ s with objs := s.objs.take n } : State).objs[j]? = some q → s.objs[j]? = some q := by
    intro j q hq
    rw [take_objs] at hq
    by_cases h : j < n
    · rw [if_pos h] at hq; exact hq
    · rw [if_neg h] at hq; cases hq
  exact ⟨fun j q hq => hs.valid j q (sub hq), fun j k q p hq hp hne => hs.sep j k q p (sub hq) (sub hp) hne⟩

theorem take_view_gen (c : Cfg) (s : State) (n j : Nat) (hj : j < n) :
    view c { s with objs := s.objs.take n } j = view c s j := by
  unfold view
  rw [take_objs, if_pos hj]
  rfl

theorem step_allS_some_gen {c : Cfg} (hc : c.sharedCopy = false) {s : State} {g : Nat} {o : Obj} (n : Nat)
    (h : s.objs[g]? = some o) :
    step c s (.allS g n) =
      match allSLoop c (alloc s o (s.cell o)) s.objs.length (domPairs n) 0 with
      | (s2, .ok) => (s2, .ok)
      | (s2, .err) => ({ s2 with objs := s2.objs.take s.objs.length }, .err) := by
  simp only [step]; rw [stepCopy_some_gen hc h]; rfl

theorem step_allS_none_gen {c : Cfg} {s : State} {g : Nat} (n : Nat) (h : s.objs[g]? = none) :
    step c s (.allS g n) = (s, .err) := by
  simp only [step]; rw [stepCopy_none h]

/-- separation, Frame and monotone object count for one step, in every model without the two
aliasing defects -/
theorem step_gen {c : Cfg} (h1 : c.sharedCopy = false) (h2 : c.classDoms = false) {s : State} (hs : HSep s) (op : Op) :
    HSep (step c s op).1 ∧ Frame op (view c s) (view c (step c s op).1) s.objs.length ∧
    s.objs.length ≤ (step c s op).1.objs.length := by
  cases op with
  | new cls =>
    have e : step c s (.new cls) = (alloc s { cls := cls, reg := 0 } {}, .ok) := rfl
    rw [e]
    exact ⟨alloc_sep hs _ _, fun j hj _ => alloc_frame_gen h2 hs _ _ j hj, by rw [alloc_len]; omega⟩
  | copy g =>
    show HSep (stepCopy c s g).1 ∧ Frame (.copy g) _ (view c (stepCopy c s g).1) _ ∧ _ ≤ (stepCopy c s g).1.objs.length
    cases h : s.objs[g]? with
    | none => rw [stepCopy_none h]; exact ⟨hs, fun _ _ _ => rfl, Nat.le_refl _⟩
    | some o =>
      rw [stepCopy_some_gen h1 h]
      exact ⟨alloc_sep hs _ _, fun j hj _ => alloc_frame_gen h2 hs _ _ j hj, by rw [alloc_len]; omega⟩
  | «at» g lop =>
    refine ⟨stepAt_sep c hs g lop, fun j _ hne => ?_, ?_⟩
    · have : j ≠ g := fun e => hne (by rw [e]; rfl)
      exact stepAt_frame_gen h2 hs g lop j this
    · show _ ≤ (stepAt c s g lop).1.objs.length; rw [stepAt_len]; exact Nat.le_refl _
  | allS g n =>
    cases h : s.objs[g]? with
    | none => rw [step_allS_none_gen n h]; exact ⟨hs, fun _ _ _ => rfl, Nat.le_refl _⟩
    | some o =>
      rw [step_allS_some_gen h1 n h]
      have a1 := alloc_sep hs o (s.cell o)
      obtain ⟨i1, len, fr⟩ := allSLoop_gen h2 s.objs.length (domPairs n) _ 0 a1
      rw [alloc_len] at len
      rcases hl : allSLoop c (alloc s o (s.cell o)) s.objs.length (domPairs n) 0 with ⟨s2, st⟩
      rw [hl] at i1 len fr
      dsimp only at len i1 fr
      cases st with
      | ok =>
        refine ⟨i1, fun j hj _ => ?_, by show _ ≤ s2.objs.length; omega⟩
        exact (fr j (by omega)).trans (alloc_frame_gen h2 hs o (s.cell o) j hj)
      | err =>
        refine ⟨take_sep i1 _, fun j hj _ => ?_, by show _ ≤ (s2.objs.take s.objs.length).length; rw [List.length_take]; omega⟩
        exact (take_view_gen c s2 _ j hj).trans ((fr j (by omega)).trans (alloc_frame_gen h2 hs o (s.cell o) j hj))

theorem init_sep : HSep init := by
  refine ⟨?_, ?_⟩ <;> intro g <;> simp [init]

theorem run_sep {c : Cfg} (h1 : c.sharedCopy = false) (h2 : c.classDoms = false) :
    ∀ (ops : List Op) {s : State}, HSep s → HSep (run c s ops) := by
  intro ops
  induction ops with
  | nil => intro s hs; exact hs
  | cons op rest ih => intro s hs; exact ih (step_gen h1 h2 hs op).1

/-- **Frame holds in every model without the two aliasing defects**, over whole histories -/
theorem frame_run_gen {c : Cfg} (h1 : c.sharedCopy = false) (h2 : c.classDoms = false) :
    ∀ (ops : List Op) {s : State}, HSep s → ∀ g, g < s.objs.length →
      (∀ op ∈ ops, some g ≠ op.target) → view c (run c s ops) g = view c s g := by
  intro ops
  induction ops with
  | nil => intro s _ g _ _; rfl
  | cons op rest ih =>
    intro s hs g hg hne
    obtain ⟨s1, f1, l1⟩ := step_gen h1 h2 hs op
    have e1 := f1 g hg (hne op (List.mem_cons_self ..))
    have e2 := ih s1 g (Nat.lt_of_lt_of_le hg l1) (fun op' h' => hne op' (List.mem_cons_of_mem _ h'))
    exact e2.trans e1

/-- the naming defect and the forgotten S-branch do not break Frame -/
example (ops : List Op) (g : Nat) (hg : g < (init : State).objs.length) (h : ∀ op ∈ ops, some g ≠ op.target) :
    view ⟨true, false, true, false⟩ (run ⟨true, false, true, false⟩ init ops) g = view ⟨true, false, true, false⟩ init g :=
  frame_run_gen rfl rfl ops init_sep g hg h

end C20
