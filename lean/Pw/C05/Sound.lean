import Pw.C05.Model
import Pw.C05.Spec

/-! # C05 soundness: whatever `pdag_to_dag` returns is a consistent extension -/
namespace C05

/-- the part of the quantifier soundness needs: endpoints are nodes, no undirected self loop -/
structure PWF (P : MG) : Prop where
  dirNodes : ∀ e ∈ P.dir, e.1 ∈ P.nodes ∧ e.2 ∈ P.nodes
  unNodes : ∀ e ∈ P.un, e.1 ∈ P.nodes ∧ e.2 ∈ P.nodes
  unLoop : ∀ e ∈ P.un, e.1 ≠ e.2

theorem Dom.pwf {P : MG} (h : Dom P) : PWF P := ⟨h.dirNodes, h.unNodes, h.unLoop⟩

theorem mem_rm_dir {G : MG} {x a b : Nat} :
    (a, b) ∈ (removeNode G x).dir ↔ (a, b) ∈ G.dir ∧ a ≠ x ∧ b ≠ x := by
  simp [removeNode]

theorem mem_rm_un {G : MG} {x a b : Nat} :
    (a, b) ∈ (removeNode G x).un ↔ (a, b) ∈ G.un ∧ a ≠ x ∧ b ≠ x := by
  simp [removeNode]

theorem mem_rm_nodes {G : MG} {x v : Nat} : v ∈ (removeNode G x).nodes ↔ v ∈ G.nodes ∧ v ≠ x := by
  simp [removeNode]

theorem adj_rm {G : MG} {x a b : Nat} : Adj (removeNode G x) a b ↔ Adj G a b ∧ a ≠ x ∧ b ≠ x := by
  simp only [Adj, mem_rm_dir, mem_rm_un]
  constructor
  · rintro (h | h | h | h) <;> simp [h]
  · rintro ⟨h | h | h | h, ha, hb⟩ <;> simp [h, ha, hb]

theorem Adj.symm {G : MG} {a b : Nat} (h : Adj G a b) : Adj G b a := by
  rcases h with h | h | h | h
  · exact Or.inr (Or.inl h)
  · exact Or.inl h
  · exact Or.inr (Or.inr (Or.inr h))
  · exact Or.inr (Or.inr (Or.inl h))

theorem adjB_iff {G : MG} {a b : Nat} : adjB G a b = true ↔ Adj G a b := by
  simp [adjB, Adj, or_assoc]

theorem pwf_rm {G : MG} (h : PWF G) (x : Nat) : PWF (removeNode G x) := by
  refine ⟨?_, ?_, ?_⟩
  · rintro ⟨a, b⟩ he
    obtain ⟨he, ha, hb⟩ := mem_rm_dir.mp he
    exact ⟨mem_rm_nodes.mpr ⟨(h.dirNodes _ he).1, ha⟩, mem_rm_nodes.mpr ⟨(h.dirNodes _ he).2, hb⟩⟩
  · rintro ⟨a, b⟩ he
    obtain ⟨he, ha, hb⟩ := mem_rm_un.mp he
    exact ⟨mem_rm_nodes.mpr ⟨(h.unNodes _ he).1, ha⟩, mem_rm_nodes.mpr ⟨(h.unNodes _ he).2, hb⟩⟩
  · rintro ⟨a, b⟩ he
    exact h.unLoop _ (mem_rm_un.mp he).1

/-- what the eligibility test says -/
theorem eligible_iff {G : MG} {x : Nat} :
    eligible G x = true ↔
      (∀ c, (x, c) ∉ G.dir) ∧
      ∀ y, ((x, y) ∈ G.un ∨ (y, x) ∈ G.un) →
        ∀ z, (((x, z) ∈ G.un ∨ (z, x) ∈ G.un) ∨ (z, x) ∈ G.dir) → z ≠ y → Adj G y z := by
  simp only [eligible, Bool.and_eq_true, List.isEmpty_iff, List.all_eq_true, List.mem_append,
    Bool.or_eq_true, beq_iff_eq, adjB_iff, MG.unbrs, MG.mem_sym, MG.mem_parents]
  constructor
  · rintro ⟨h1, h2⟩
    refine ⟨?_, ?_⟩
    · intro c hc
      have : c ∈ G.children x := MG.mem_children.mpr hc
      rw [h1] at this; cases this
    · intro y hy z hz hzy
      rcases h2 y hy z hz with h | h
      · exact absurd h hzy
      · exact h
  · rintro ⟨h1, h2⟩
    refine ⟨?_, ?_⟩
    · apply List.eq_nil_iff_forall_not_mem.mpr
      intro c hc
      exact h1 c (MG.mem_children.mp hc)
    · intro y hy z hz
      by_cases hzy : z = y
      · exact Or.inl hzy
      · exact Or.inr (h2 y hy z hz hzy)

/-- invariant of the elimination: `R` are the edges added to `dag` for the (sub)graph `G` -/
structure Good (G : MG) (R : List (Nat × Nat)) : Prop where
  orient : ∀ a b, (a, b) ∈ R → ((a, b) ∈ G.un ∨ (b, a) ∈ G.un)
  all : ∀ a b, (a, b) ∈ G.un → ((a, b) ∈ R ∨ (b, a) ∈ R)
  rank : ∃ pos : Nat → Nat, ∀ a b, ((a, b) ∈ G.dir ∨ (a, b) ∈ R) → pos b < pos a
  coll : ∀ a b c, ((a, c) ∈ G.dir ∨ (a, c) ∈ R) → ((b, c) ∈ G.dir ∨ (b, c) ∈ R) → a ≠ b →
    ¬ Adj G a b → (a, c) ∈ G.dir ∧ (b, c) ∈ G.dir

theorem good_step {G : MG} (hwf : PWF G) {x : Nat} (hel : eligible G x = true) {r : List (Nat × Nat)}
    (ih : Good (removeNode G x) r) : Good G ((G.unbrs x).map (·, x) ++ r) := by
  obtain ⟨hsink, hnb⟩ := eligible_iff.mp hel
  have hmap : ∀ a b, (a, b) ∈ (G.unbrs x).map (·, x) ↔ b = x ∧ ((x, a) ∈ G.un ∨ (a, x) ∈ G.un) := by
    intro a b
    simp only [List.mem_map, MG.unbrs, MG.mem_sym, Prod.mk.injEq]
    constructor
    · rintro ⟨w, hw, rfl, rfl⟩; exact ⟨rfl, hw⟩
    · rintro ⟨rfl, hw⟩; exact ⟨a, hw, rfl, rfl⟩
  have hr_nox : ∀ a b, (a, b) ∈ r → a ≠ x ∧ b ≠ x := by
    intro a b hab
    rcases ih.orient a b hab with h | h
    · exact ⟨(mem_rm_un.mp h).2.1, (mem_rm_un.mp h).2.2⟩
    · exact ⟨(mem_rm_un.mp h).2.2, (mem_rm_un.mp h).2.1⟩
  have hnbr_ne : ∀ a, ((x, a) ∈ G.un ∨ (a, x) ∈ G.un) → a ≠ x := by
    rintro a (h | h) rfl
    · exact hwf.unLoop _ h rfl
    · exact hwf.unLoop _ h rfl
  refine ⟨?_, ?_, ?_, ?_⟩
  · intro a b hab
    rcases List.mem_append.mp hab with h | h
    · obtain ⟨rfl, h⟩ := (hmap a b).mp h
      exact h.symm
    · rcases ih.orient a b h with h | h
      · exact Or.inl (mem_rm_un.mp h).1
      · exact Or.inr (mem_rm_un.mp h).1
  · intro a b hab
    by_cases ha : a = x
    · subst ha
      exact Or.inr (List.mem_append_left _ ((hmap b a).mpr ⟨rfl, Or.inl hab⟩))
    · by_cases hb : b = x
      · subst hb
        exact Or.inl (List.mem_append_left _ ((hmap a b).mpr ⟨rfl, Or.inr hab⟩))
      · rcases ih.all a b (mem_rm_un.mpr ⟨hab, ha, hb⟩) with h | h
        · exact Or.inl (List.mem_append_right _ h)
        · exact Or.inr (List.mem_append_right _ h)
  · obtain ⟨pos', hpos'⟩ := ih.rank
    refine ⟨fun v => if v = x then 0 else pos' v + 1, ?_⟩
    intro a b hab
    have hax : a ≠ x := by
      intro h0
      rw [h0] at hab
      rcases hab with h | h
      · exact hsink b h
      · rcases List.mem_append.mp h with h | h
        · exact hnbr_ne x ((hmap x b).mp h).2 rfl
        · exact (hr_nox x b h).1 rfl
    by_cases hbx : b = x
    · simp [hax, hbx]
    · have : pos' b < pos' a := by
        apply hpos'
        rcases hab with h | h
        · exact Or.inl (mem_rm_dir.mpr ⟨h, hax, hbx⟩)
        · rcases List.mem_append.mp h with h | h
          · exact absurd ((hmap a b).mp h).1 hbx
          · exact Or.inr h
      simp [hax, hbx]; omega
  · intro a b c hac hbc hab hnadj
    -- an edge into x of the result is a parent edge or an oriented undirected edge at x
    have into_x : ∀ a, ((a, x) ∈ G.dir ∨ (a, x) ∈ (G.unbrs x).map (·, x) ++ r) →
        ((a, x) ∈ G.dir ∨ ((x, a) ∈ G.un ∨ (a, x) ∈ G.un)) := by
      intro a h
      rcases h with h | h
      · exact Or.inl h
      · rcases List.mem_append.mp h with h | h
        · exact Or.inr ((hmap a x).mp h).2
        · exact absurd rfl (hr_nox a x h).2
    by_cases hcx : c = x
    · subst hcx
      have ha := into_x a hac
      have hb := into_x b hbc
      rcases ha with ha | ha
      · rcases hb with hb | hb
        · exact ⟨ha, hb⟩
        · exact absurd (hnb b hb a (Or.inr ha) hab).symm hnadj
      · have hb' : ((c, b) ∈ G.un ∨ (b, c) ∈ G.un) ∨ (b, c) ∈ G.dir := by
          rcases hb with hb | hb
          · exact Or.inr hb
          · exact Or.inl hb
        exact absurd (hnb a ha b hb' (Ne.symm hab)) hnadj
    · have src_ne : ∀ a, ((a, c) ∈ G.dir ∨ (a, c) ∈ (G.unbrs x).map (·, x) ++ r) → a ≠ x ∧
          ((a, c) ∈ (removeNode G x).dir ∨ (a, c) ∈ r) := by
        intro a h
        rcases h with h | h
        · have hax : a ≠ x := by rintro rfl; exact hsink c h
          exact ⟨hax, Or.inl (mem_rm_dir.mpr ⟨h, hax, hcx⟩)⟩
        · rcases List.mem_append.mp h with h | h
          · exact absurd ((hmap a c).mp h).1 hcx
          · exact ⟨(hr_nox a c h).1, Or.inr h⟩
      obtain ⟨hax, ha⟩ := src_ne a hac
      obtain ⟨hbx, hb⟩ := src_ne b hbc
      have := ih.coll a b c ha hb hab (fun h => hnadj (adj_rm.mp h).1)
      exact ⟨(mem_rm_dir.mp this.1).1, (mem_rm_dir.mp this.2).1⟩

theorem elim_good (G : MG) : PWF G → ∀ R, elim G = .ok R → Good G R := by
  unfold elim
  induction G using elimWith.induct (el := eligible) with
  | case1 G hemp =>
    intro hwf R h
    rw [elimWith, if_pos hemp] at h
    cases h
    have hnil : G.nodes = [] := List.isEmpty_iff.mp hemp
    refine ⟨?_, ?_, ⟨fun _ => 0, ?_⟩, ?_⟩
    · intro a b h; cases h
    · intro a b h; have := (hwf.unNodes _ h).1; rw [hnil] at this; cases this
    · intro a b h
      rcases h with h | h
      · have := (hwf.dirNodes _ h).1; rw [hnil] at this; cases this
      · cases h
    · intro a b c h
      rcases h with h | h
      · have := (hwf.dirNodes _ h).1; rw [hnil] at this; cases this
      · cases h
  | case2 G hemp hfind =>
    intro _ R h
    rw [elimWith, if_neg hemp] at h
    split at h
    · cases h
    · rename_i x hx; rw [hfind] at hx; cases hx
  | case3 G hemp x hfind e herr _ =>
    intro _ R h
    rw [elimWith, if_neg hemp] at h
    split at h
    · cases h
    · rename_i y hy
      rw [hfind] at hy; cases hy
      rw [herr] at h; cases h
  | case4 G hemp x hfind r hok ih =>
    intro hwf R h
    rw [elimWith, if_neg hemp] at h
    split at h
    · cases h
    · rename_i y hy
      rw [hfind] at hy; cases hy
      rw [hok] at h
      cases h
      exact good_step hwf (List.find?_some hfind) (ih (pwf_rm hwf x) r hok)

theorem acyclic_of_rank {D : MG} (pos : Nat → Nat) (h : ∀ a b, (a, b) ∈ D.dir → pos b < pos a) :
    D.Acyclic := by
  have hanc : ∀ a c, MG.Anc D a c → pos c ≤ pos a := by
    intro a c hac
    induction hac with
    | refl => exact Nat.le_refl _
    | step e _ ih => exact Nat.le_trans ih (Nat.le_of_lt (h _ _ e))
  intro a b hab hba
  have := hanc b a hba
  have := h a b hab
  omega

/-- **C05 soundness.** If the model of `pdag_to_dag` returns `D`, then `D` is a consistent extension
    of `P` – for every node order (the order is `P.nodes`). -/
theorem pdagToDag_sound (P D : MG) (hwf : PWF P) (h : pdagToDag P = .ok D) : ConsistentExt P D := by
  unfold pdagToDag at h
  cases hr : elim P with
  | error e => rw [hr] at h; cases h
  | ok R =>
    rw [hr] at h
    cases h
    have g := elim_good P hwf R hr
    have hskel : ∀ a b, Adj { nodes := P.nodes, dir := P.dir ++ R : MG } a b ↔ Adj P a b := by
      intro a b
      simp only [Adj, List.mem_append, List.not_mem_nil, or_false]
      constructor
      · rintro ((h | h) | (h | h))
        · exact Or.inl h
        · rcases g.orient a b h with h | h
          · exact Or.inr (Or.inr (Or.inl h))
          · exact Or.inr (Or.inr (Or.inr h))
        · exact Or.inr (Or.inl h)
        · rcases g.orient b a h with h | h
          · exact Or.inr (Or.inr (Or.inr h))
          · exact Or.inr (Or.inr (Or.inl h))
      · rintro (h | h | h | h)
        · exact Or.inl (Or.inl h)
        · exact Or.inr (Or.inl h)
        · rcases g.all a b h with h | h
          · exact Or.inl (Or.inr h)
          · exact Or.inr (Or.inr h)
        · rcases g.all b a h with h | h
          · exact Or.inr (Or.inr h)
          · exact Or.inl (Or.inr h)
    refine ⟨fun v => Iff.rfl, ⟨rfl, rfl, rfl⟩, ?_, hskel, ?_, ?_⟩
    · obtain ⟨pos, hpos⟩ := g.rank
      apply acyclic_of_rank pos
      intro a b hab
      exact hpos a b (List.mem_append.mp hab)
    · intro e he; exact List.mem_append_left _ he
    · intro a c b
      constructor
      · rintro ⟨hac, hbc, hab, hn⟩
        have hn' : ¬ Adj P a b := fun h => hn ((hskel a b).mpr h)
        have := g.coll a b c (List.mem_append.mp hac) (List.mem_append.mp hbc) hab hn'
        exact ⟨this.1, this.2, hab, hn'⟩
      · rintro ⟨hac, hbc, hab, hn⟩
        exact ⟨List.mem_append_left _ hac, List.mem_append_left _ hbc, hab, fun h => hn ((hskel a b).mp h)⟩

end C05
