import Pw.C08.Complete

/-! # C08: the full statement, the conditional theorem and the unconditional part -/
namespace C08
open MG

/-- second sentence of C08 for one input -/
def SoundOn (P : MG) (inner : List Nat) : Prop :=
  (meek P inner).nodes = P.nodes ∧
  (∀ a b, Skel (meek P inner) a b ↔ Skel P a b) ∧
  (∀ e ∈ P.dir, e ∈ (meek P inner).dir) ∧
  (∀ e ∈ (meek P inner).un, e ∈ P.un) ∧
  (∀ e ∈ (meek P inner).dir, e ∈ P.dir ∨ (HasUn P e.1 e.2 ∧ Compelled P e.1 e.2)) ∧
  (∀ D, ConsistentExt P D → ConsistentExt (meek P inner) D) ∧
  Simple (meek P inner) ∧
  pass (meek P inner) inner = (meek P inner, false)

/-- **C08, full statement**: on the pattern of every DAG the closure returns the essential graph; on
    every PDAG of the CPDAG class it is sound, monotone and terminates in a fixpoint – for every
    node order (`P.nodes`) and every set-iteration order (`inner`). -/
def C08_full : Prop :=
  (∀ (D Pt : MG) (inner : List Nat), IsDAG D → IsPattern D Pt → Pt.WF → inner.Nodup →
      (∀ v ∈ Pt.nodes, v ∈ inner) → IsEssential D Pt (meek Pt inner)) ∧
  (∀ (P : MG) (inner : List Nat), Simple P → inner.Nodup → SoundOn P inner)

/-- the unconditional part (everything except completeness on patterns) -/
theorem C08_sound_partial : ∀ (P : MG) (inner : List Nat), Simple P → inner.Nodup → SoundOn P inner :=
  fun P inner hs hin => meek_sound P inner hs hin

/-- C08 in full, conditional on Meek's theorem -/
theorem C08_full_of_T3 (hT3 : MeekT3) : C08_full :=
  ⟨fun D Pt inner hd hp hwf hin hcov => meek_pattern_essential_of_T3 hT3 D Pt inner hd hp hwf hin hcov,
   C08_sound_partial⟩

end C08
