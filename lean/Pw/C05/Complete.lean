import Pw.C05.Sound

/-! # C05 completeness (Dor–Tarsi, hypothesis T4 of DESIGN §5 – proved here)

If the PDAG has a consistent extension, the sink elimination never gets stuck, whatever node order
it follows: (1) the restriction of an extension to `V∖{x}` is an extension of `P−x` for *every* x,
(2) a finite DAG has a sink, (3) a sink of an extension passes the eligibility test. -/
namespace C05
open MG (Anc)

/-- a finite acyclic graph has a sink among any non-empty list of nodes -/
theorem sink_aux (D : MG) (hac : D.Acyclic) (ns : List Nat) :
    ∀ (k : Nat) (vis : List Nat) (v : Nat), v ∈ ns →
      (∀ u ∈ vis, ∃ m, (u, m) ∈ D.dir ∧ Anc D m v) →
      ns.countP (fun u => decide (u ∉ vis)) ≤ k →
      ∃ s ∈ ns, ∀ c ∈ ns, (s, c) ∉ D.dir := by
  intro k
  induction k with
  | zero =>
    intro vis v hv hvis hk
    have hnv : v ∉ vis := by
      intro h
      obtain ⟨m, hm, ha⟩ := hvis v h
      exact hac v m hm ha
    have : 0 < ns.countP (fun u => decide (u ∉ vis)) :=
      List.countP_pos_iff.mpr ⟨v, hv, by simpa using hnv⟩
    omega
  | succ k ih =>
    intro vis v hv hvis hk
    have hnv : v ∉ vis := by
      intro h
      obtain ⟨m, hm, ha⟩ := hvis v h
      exact hac v m hm ha
    by_cases hex : ∃ c ∈ ns, (v, c) ∈ D.dir
    · obtain ⟨c, hc, hvc⟩ := hex
      apply ih (v :: vis) c hc
      · intro u hu
        rcases List.mem_cons.mp hu with rfl | hu
        · exact ⟨c, hvc, Anc.refl c⟩
        · obtain ⟨m, hm, ha⟩ := hvis u hu
          exact ⟨m, hm, ha.tail hvc⟩
      · have := Closure.countP_lt' (fun u => decide (u ∉ v :: vis)) (fun u => decide (u ∉ vis))
          (by intro a; simp) ns v hv (by simpa using hnv) (by simp)
        omega
    · refine ⟨v, hv, ?_⟩
      intro c hc hvc
      exact hex ⟨c, hc, hvc⟩

theorem exists_sink (D : MG) (hac : D.Acyclic) (ns : List Nat) (hne : ns ≠ []) :
    ∃ s ∈ ns, ∀ c ∈ ns, (s, c) ∉ D.dir := by
  cases ns with
  | nil => exact absurd rfl hne
  | cons v t =>
    exact sink_aux D hac (v :: t) _ [] v List.mem_cons_self (by intro u hu; cases hu) (Nat.le_refl _)

theorem anc_rm {D : MG} {x a b : Nat} (h : Anc (removeNode D x) a b) : Anc D a b := by
  induction h with
  | refl => exact Anc.refl _
  | step e _ ih => exact Anc.step (mem_rm_dir.mp e).1 ih

theorem vstruct_rm {H : MG} {x a c b : Nat} :
    VStruct (removeNode H x) a c b ↔ VStruct H a c b ∧ a ≠ x ∧ b ≠ x ∧ c ≠ x := by
  simp only [VStruct, mem_rm_dir, adj_rm]
  constructor
  · rintro ⟨⟨h1, ha, hc⟩, ⟨h2, hb, _⟩, hab, hn⟩
    exact ⟨⟨h1, h2, hab, fun h => hn ⟨h, ha, hb⟩⟩, ha, hb, hc⟩
  · rintro ⟨⟨h1, h2, hab, hn⟩, ha, hb, hc⟩
    exact ⟨⟨h1, ha, hc⟩, ⟨h2, hb, hc⟩, hab, fun h => hn h.1⟩

/-- (1) the restriction of a consistent extension to `V∖{x}` is a consistent extension of `P−x` -/
theorem ext_rm {P D : MG} (h : ConsistentExt P D) (x : Nat) :
    ConsistentExt (removeNode P x) (removeNode D x) := by
  refine ⟨?_, ?_, ?_, ?_, ?_, ?_⟩
  · intro v; simp only [mem_rm_nodes, h.nodes v]
  · obtain ⟨h1, h2, h3⟩ := h.plain
    refine ⟨?_, h2, h3⟩
    simp [removeNode, h1]
  · intro a b hab hba
    exact h.acyclic a b (mem_rm_dir.mp hab).1 (anc_rm hba)
  · intro a b; simp only [adj_rm, h.skel a b]
  · rintro ⟨a, b⟩ he
    obtain ⟨he, ha, hb⟩ := mem_rm_dir.mp he
    exact mem_rm_dir.mpr ⟨h.keeps _ he, ha, hb⟩
  · intro a c b; simp only [vstruct_rm, h.vstructs a c b]

theorem dom_rm {G : MG} (h : Dom G) (x : Nat) : Dom (removeNode G x) := by
  have := pwf_rm h.pwf x
  refine ⟨this.dirNodes, this.unNodes, this.unLoop, ?_⟩
  intro a b hab
  obtain ⟨hab, _, _⟩ := mem_rm_un.mp hab
  exact ⟨fun h' => (h.simple a b hab).1 (mem_rm_dir.mp h').1, fun h' => (h.simple a b hab).2 (mem_rm_dir.mp h').1⟩

/-- (3) a sink of a consistent extension passes the eligibility test of the code -/
theorem sink_eligible {P D : MG} (hd : Dom P) (h : ConsistentExt P D) (s : Nat)
    (hs : ∀ c, (s, c) ∉ D.dir) : eligible P s = true := by
  rw [eligible_iff]
  have hun := h.plain.1
  -- every node adjacent to s in P is a parent of s in D
  have into : ∀ y, Adj P s y → (y, s) ∈ D.dir := by
    intro y hy
    have := (h.skel s y).mpr hy
    simp only [Adj, hun, List.not_mem_nil, or_false] at this
    rcases this with h1 | h1
    · exact absurd h1 (hs y)
    · exact h1
  refine ⟨fun c hc => hs c (h.keeps _ hc), ?_⟩
  intro y hy z hz hzy
  have hy' : Adj P s y := Or.inr (Or.inr hy)
  have hz' : Adj P s z := by
    rcases hz with hz | hz
    · exact Or.inr (Or.inr hz)
    · exact Or.inr (Or.inl hz)
  apply Classical.byContradiction
  intro hn
  have hvs : VStruct D y s z :=
    ⟨into y hy', into z hz', Ne.symm hzy, fun hadj => hn ((h.skel y z).mp hadj)⟩
  have := ((h.vstructs y s z).mp hvs).1
  rcases hy with hy | hy
  · exact (hd.simple s y hy).2 this
  · exact (hd.simple y s hy).1 this

/-- edges of a consistent extension stay inside P's nodes -/
theorem ext_edge_nodes {P D : MG} (hd : PWF P) (h : ConsistentExt P D) {a b : Nat} (hab : (a, b) ∈ D.dir) :
    a ∈ P.nodes ∧ b ∈ P.nodes := by
  have : Adj P a b := (h.skel a b).mp (Or.inl hab)
  rcases this with h1 | h1 | h1 | h1
  · exact hd.dirNodes _ h1
  · exact ⟨(hd.dirNodes _ h1).2, (hd.dirNodes _ h1).1⟩
  · exact hd.unNodes _ h1
  · exact ⟨(hd.unNodes _ h1).2, (hd.unNodes _ h1).1⟩

/-- some node of a non-empty extendable PDAG is eligible -/
theorem exists_eligible {P D : MG} (hd : Dom P) (h : ConsistentExt P D) (hne : P.nodes ≠ []) :
    ∃ s ∈ P.nodes, eligible P s = true := by
  obtain ⟨s, hs, hsink⟩ := exists_sink D h.acyclic P.nodes hne
  refine ⟨s, hs, sink_eligible hd h s ?_⟩
  intro c hc
  exact hsink c (ext_edge_nodes hd.pwf h hc).2 hc

theorem elim_complete (G : MG) : Dom G → (∃ D, ConsistentExt G D) → ∃ R, elim G = .ok R := by
  unfold elim
  induction G using elimWith.induct (el := eligible) with
  | case1 G hemp =>
    intro _ _
    exact ⟨[], by rw [elimWith, if_pos hemp]⟩
  | case2 G hemp hfind =>
    intro hd ⟨D, hD⟩
    have hne : G.nodes ≠ [] := fun h => hemp (List.isEmpty_iff.mpr h)
    obtain ⟨s, hs, hel⟩ := exists_eligible hd hD hne
    exact absurd hel (List.find?_eq_none.mp hfind s hs)
  | case3 G hemp x hfind e herr ih =>
    intro hd ⟨D, hD⟩
    obtain ⟨R, hR⟩ := ih (dom_rm hd x) ⟨_, ext_rm hD x⟩
    rw [herr] at hR; cases hR
  | case4 G hemp x hfind r hok _ =>
    intro _ _
    refine ⟨(G.unbrs x).map (·, x) ++ r, ?_⟩
    rw [elimWith, if_neg hemp]
    split
    · rename_i hx; rw [hfind] at hx; cases hx
    · rename_i y hy
      rw [hfind] at hy; cases hy
      rw [hok]

/-- **C05 completeness (Dor–Tarsi).** On the property's domain, if a consistent extension exists the
    model of `pdag_to_dag` returns (does not raise) – for every node order. -/
theorem pdagToDag_complete (P : MG) (hd : Dom P) (h : ∃ D, ConsistentExt P D) :
    ∃ D', pdagToDag P = .ok D' := by
  obtain ⟨R, hR⟩ := elim_complete P hd h
  exact ⟨{ nodes := P.nodes, dir := P.dir ++ R }, by simp [pdagToDag, hR]⟩

/-- **C05, both directions.** `pdag_to_dag` (model) raises iff no consistent extension exists, and
    whatever it returns is one. -/
theorem pdagToDag_spec (P : MG) (hd : Dom P) :
    (∀ D, pdagToDag P = .ok D → ConsistentExt P D) ∧
    ((∃ e, pdagToDag P = .error e) ↔ ¬ ∃ D, ConsistentExt P D) := by
  refine ⟨fun D h => pdagToDag_sound P D hd.pwf h, ?_⟩
  constructor
  · rintro ⟨e, he⟩ hex
    obtain ⟨D', hD'⟩ := pdagToDag_complete P hd hex
    rw [he] at hD'; cases hD'
  · intro hn
    cases hr : pdagToDag P with
    | error e => exact ⟨e, rfl⟩
    | ok D => exact absurd ⟨D, pdagToDag_sound P D hd.pwf hr⟩ hn

/-- the result does not depend on the node order as far as *existence* is concerned -/
theorem pdagToDag_order_irrelevant (P : MG) (hd : Dom P) (order : List Nat)
    (hperm : ∀ v, v ∈ order ↔ v ∈ P.nodes) :
    (∃ D, pdagToDag P = .ok D) ↔ ∃ D, pdagToDag { P with nodes := order } = .ok D := by
  have hd' : Dom { P with nodes := order } :=
    ⟨fun e he => ⟨(hperm _).mpr (hd.dirNodes e he).1, (hperm _).mpr (hd.dirNodes e he).2⟩,
     fun e he => ⟨(hperm _).mpr (hd.unNodes e he).1, (hperm _).mpr (hd.unNodes e he).2⟩,
     hd.unLoop, hd.simple⟩
  have key : ∀ D, ConsistentExt P D → ConsistentExt { P with nodes := order } D := by
    intro D h
    exact ⟨fun v => (h.nodes v).trans (hperm v).symm, h.plain, h.acyclic, h.skel, h.keeps, h.vstructs⟩
  have key' : ∀ D, ConsistentExt { P with nodes := order } D → ConsistentExt P D := by
    intro D h
    exact ⟨fun v => (h.nodes v).trans (hperm v), h.plain, h.acyclic, h.skel, h.keeps, h.vstructs⟩
  constructor
  · rintro ⟨D, hD⟩
    exact pdagToDag_complete _ hd' ⟨D, key D (pdagToDag_sound P D hd.pwf hD)⟩
  · rintro ⟨D, hD⟩
    exact pdagToDag_complete _ hd ⟨D, key' D (pdagToDag_sound _ D hd'.pwf hD)⟩

end C05
