import Pw.C16.Base
import Pw.Core.Closure
open Closure C16

/-! # C17 model: `pds`, `pds_path`, `pds_t`, `pds_t_path` (`pywhy_graphs/algorithms/pag.py`)

`pds` mirrors the code literally, including its defect (known finding
`C17-pds-queues-prev-next`): the successor edge is built as `(prev_node, next_node)` instead of
`(this_node, next_node)`.  The one-token repair cannot be committed as a `fix:` because two tests of
the suite (`test_pds_path`, `test_pdst`) assert the defective output.  `pdsW` is the same search with
`(this_node, next_node)` – what the code is meant to do; all positive theorems are about `pdsW`, the
literal model gets an exact characterisation and counterexample theorems.
`max_path_length` is `None` (the property's quantifier): the level counter never reaches 1000.

Abstractions (recorded, validated by the correspondence run):
* the deque + `seen_edges` BFS over ordered edges `(prev_node, this_node)` is the worklist closure
  (marks on pop instead of on push; same reachable set – proved: `Pw/C17/Bfs.lean` writes the loop out
  with marking on push and `C17.mem_pdsLoop` shows it returns the same set as this model);
* `nx.has_path(adj_graph, a, b)` is reachability in the adjacency graph (closure under `nbrs`);
* `nx.biconnected_component_edges`: the component that contains the edge x–y is modelled by its
  definition – the two endpoints plus every node that lies on a simple x…y path with at least two
  edges (i.e. on a common simple cycle with the edge x–y); no such component if x, y are not adjacent. -/
namespace C17

/-- `is_definite_collider(G, a, b, c)`: `a *-> b <-* c` -/
def Collider (G : MG) (a b c : Nat) : Prop := Arrow G a b ∧ Arrow G c b

instance (G : MG) (a b c : Nat) : Decidable (Collider G a b c) := by unfold Collider; infer_instance

/-- `nx.has_path(adj_graph, a, b)` -/
def hasPath (G : MG) (a b : Nat) : Bool := decide (b ∈ closure G.nodes (nbrs G) [a])

/-- BFS state: the ordered edge `(prev_node, this_node)` -/
abbrev St := Nat × Nat

def states (G : MG) : List St := G.nodes.flatMap fun a => G.nodes.map fun b => (a, b)

/-- `if node_y is not None: if not nx.has_path(adj_graph, v, node_y): continue` -/
def reachesY (G : MG) (y : Option Nat) (v : Nat) : Bool :=
  match y with
  | none => true
  | some y => hasPath G v y

/-- the candidate test inside `for next_node in graph.neighbors(this_node)` -/
def candidate (G : MG) (x : Nat) (y : Option Nat) (prev this next : Nat) : Bool :=
  -- `if next_node in (prev_node, node_x, node_y): continue`
  !(next == prev || next == x || some next == y) &&
  -- `is_def_collider or is_triangle`
  (decide (Collider G prev this next) || decide (next ∈ nbrs G prev))

/-- body of the `while` loop for one popped edge: the queued successors.
    `carry = false`: `next_edge = (prev_node, next_node)` (the code as it is);
    `carry = true`: `next_edge = (this_node, next_node)` (the intended search). -/
def expand (carry : Bool) (G : MG) (x : Nat) (y : Option Nat) : St → List St
  | (prev, this) =>
    if !reachesY G y this then []
    else ((nbrs G this).filter (candidate G x y prev this)).map fun next =>
      (if carry then this else prev, next)

/-- the edges queued before the loop -/
def initEdges (G : MG) (x : Nat) (y : Option Nat) : List St :=
  ((nbrs G x).filter fun v => !(some v == y) && reachesY G y v).map fun v => (x, v)

/-- the search of `pds(graph, node_x, node_y)`, `max_path_length=None` -/
def pdsGen (carry : Bool) (G : MG) (x : Nat) (y : Option Nat) : List Nat :=
  if !reachesY G y x then []
  else
    let reach := closure (states G) (expand carry G x y) (initEdges G x y)
    -- `dsep.add(node_v)` for every queued neighbour, `dsep.add(this_node)` for every popped edge that
    -- passes the has_path test
    (initEdges G x y).map (·.2) ++ (reach.filter fun st => reachesY G y st.2).map (·.2)

/-- `pds(graph, node_x, node_y)` as the code is -/
def pds (G : MG) (x : Nat) (y : Option Nat) : List Nat := pdsGen false G x y
/-- the intended edge-state search (successor edge `(this_node, next_node)`) -/
def pdsW (G : MG) (x : Nat) (y : Option Nat) : List Nat := pdsGen true G x y

/-- node set of the biconnected component containing the edge x–y (see the header) -/
def bicomp (G : MG) (x y : Nat) : List Nat :=
  if ¬ Adj G x y then []
  else x :: y :: ((simplePaths G x).filter fun p => decide (p.getLast? = some y) && decide (3 ≤ p.length)).flatten

/-- `pds_path(graph, node_x, node_y)` -/
def pdsPath (G : MG) (x y : Nat) : List Nat := (pds G x (some y)).filter fun v => decide (v ∈ bicomp G x y)

/-- absolute lag of node `v` (`L[v]`, nodes are `0..n-1`) -/
def lagOf (L : List Nat) (v : Nat) : Nat := L.getD v 0

/-- `pds_t(graph, node_x, node_y)`: keep nodes whose |lag| ≤ max(|lag x|, |lag y|) -/
def pdsT (G : MG) (L : List Nat) (x y : Nat) : List Nat :=
  (pds G x (some y)).filter fun v => decide (lagOf L v ≤ max (lagOf L x) (lagOf L y))

/-- `pds_t_path(graph, node_x, node_y)` -/
def pdsTPath (G : MG) (L : List Nat) (x y : Nat) : List Nat :=
  (pdsPath G x y).filter fun v => decide (lagOf L v ≤ max (lagOf L x) (lagOf L y))

end C17
