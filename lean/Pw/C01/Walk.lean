import Pw.C01.Model
open Closure

namespace MG
/-- `Conn x v m`: an m-connecting walk from x reaches v, last edge having mark m at v
    (for the empty walk we use `tail`: the start node imposes no collider condition). -/
inductive Conn (G : MG) (Z anZ : List Nat) (x : Nat) : Nat → Mark → Prop
  | start : Conn G Z anZ x x .tail
  | step {v w : Nat} {m mv mw : Mark} : Conn G Z anZ x v m → HasEdge G v w mv mw →
      (if m = .head ∧ mv = .head then v ∈ anZ else v ∉ Z) → Conn G Z anZ x w mw

def Mark.ofBool : Bool → Mark | true => .head | false => .tail

/-- the successor function is exactly "one more legal edge of an m-connecting walk" -/
theorem mem_expand (G : MG) (Z anZ : List Nat) (v w : Nat) (a b : Bool) :
    (w, b) ∈ expand G Z anZ (v, a) ↔
      ∃ mv mw, HasEdge G v w mv mw ∧ mw = Mark.ofBool b ∧
        (if Mark.ofBool a = .head ∧ mv = .head then v ∈ anZ else v ∉ Z) := by
  cases a <;> cases b <;>
  simp only [expand, Mark.ofBool, HasEdge, spouses, unbrs] <;>
  by_cases hz : v ∈ Z <;> by_cases ha : v ∈ anZ <;>
  simp [hz, ha, mem_parents, mem_children, mem_sym] <;>
  first
  | (constructor
     · intro h
       first
       | (rcases h with h | h
          · first | exact ⟨.tail, by simpa using h⟩ | exact ⟨.head, by simpa using h⟩
          · first | exact ⟨.head, by simpa using h⟩ | exact ⟨.tail, by simpa using h⟩)
       | exact ⟨.tail, by simpa using h⟩ | exact ⟨.head, by simpa using h⟩
     · rintro ⟨mv, h⟩; cases mv <;> simp_all)
  | (intro mv; cases mv <;> simp_all)

theorem mem_states {G : MG} {v : Nat} {b : Bool} : (v, b) ∈ G.states ↔ v ∈ G.nodes := by
  cases b <;> simp [states]

theorem ofBool_head {b : Bool} : (Mark.ofBool b = Mark.head) ↔ b = true := by cases b <;> simp [Mark.ofBool]

/-- closure-reachability in the state graph is exactly `Conn` -/
theorem reach_iff_conn (G : MG) (hwf : G.WF) (Z anZ : List Nat) (x : Nat) (v : Nat) (b : Bool) :
    Reach G.states (expand G Z anZ) (x, false) (v, b) ↔ Conn G Z anZ x v (Mark.ofBool b) := by
  constructor
  · intro h
    generalize hs : (x, false) = s at h
    generalize ht : (v, b) = t at h
    induction h generalizing v b with
    | refl =>
      cases hs; cases ht; exact Conn.start
    | tail hr hstep ih =>
      rename_i mid _
      obtain ⟨u, a⟩ := mid
      cases ht
      have := ih u a rfl
      obtain ⟨hmem, _⟩ := hstep
      obtain ⟨mv, mw, he, hmw, hc⟩ := (mem_expand G Z anZ u v a b).mp hmem
      subst hmw
      exact Conn.step this he hc
  · intro h
    generalize hm : Mark.ofBool b = m at h
    induction h generalizing b with
    | start =>
      cases b
      · exact Reach.refl _
      · simp [Mark.ofBool] at hm
    | step hc he hcond ih =>
      rename_i u w m0 mv mw
      have hb0 : ∃ a, Mark.ofBool a = m0 := by
        cases m0
        · exact ⟨false, rfl⟩
        · exact ⟨true, rfl⟩
      obtain ⟨a, ha⟩ := hb0
      have hr := ih a ha
      refine Reach.tail hr ⟨?_, ?_⟩
      · refine (mem_expand G Z anZ u w a b).mpr ⟨mv, mw, he, hm.symm, ?_⟩
        rw [ha]; exact hcond
      · exact mem_states.mpr (HasEdge.mem_nodes hwf he)

/-- C01, walk level: the model answers `true` iff no m-connecting walk from X reaches Y. -/
theorem mSeparated_eq_noWalk (G : MG) (hwf : G.WF) (X Y Z : List Nat) (hX : ∀ x ∈ X, x ∈ G.nodes) :
    mSeparated G X Y Z = true ↔
      ¬ ∃ x ∈ X, ∃ y ∈ Y, ∃ m, Conn G Z (G.anc Z) x y m := by
  simp only [mSeparated, Bool.not_eq_true', List.any_eq_false]
  constructor
  · intro h
    rintro ⟨x, hx, y, hy, m, hc⟩
    have hb : ∃ b, Mark.ofBool b = m := by
      cases m
      · exact ⟨false, rfl⟩
      · exact ⟨true, rfl⟩
    obtain ⟨b, rfl⟩ := hb
    have hr := (reach_iff_conn G hwf Z (G.anc Z) x y b).mpr hc
    have hmem : (y, b) ∈ closure G.states (expand G Z (G.anc Z)) (X.map (·, false)) :=
      (mem_closure _ _ _ _).mpr ⟨(x, false), List.mem_map.mpr ⟨x, hx, rfl⟩, mem_states.mpr (hX x hx), hr⟩
    have := h (y, b) hmem
    simp at this
    exact this hy
  · intro h s hs
    obtain ⟨w, hw, _, hr⟩ := (mem_closure _ _ _ _).mp hs
    obtain ⟨x, hx, rfl⟩ := List.mem_map.mp hw
    obtain ⟨v, b⟩ := s
    have hc := (reach_iff_conn G hwf Z (G.anc Z) x v b).mp hr
    simp
    intro hy
    exact h ⟨x, hx, v, hy, _, hc⟩
end MG
