import Pw.C09.ValidStruct
import Pw.C07.DecProofs
import Pw.C01.Symm
import Pw.C08.Complete
import Pw.T5.Main
open Closure

/-! # C09 validator, part 2: acyclic / ancestral / maximal / Markov equivalent

* `acyclicB_iff`, `ancestralB_iff` (DecCorrect): the cycle and ancestrality tests;
* `maximalB_iff`: the all-subsets test over `combos nodes` decides `C09.Maximal` (one orientation per pair
  suffices because m-separation is symmetric: `MG.MSep.symm`);
* `sameSepB_iff`: comparing the proved `MG.mSeparated` over the enumerated queries decides
  `MarkovEquiv` (every `(x, y, Z)` of the declarative statement is, up to the order of `x`, `y` and up to
  the listing of `Z`, one of the enumerated queries). -/
namespace C09
open MG

/-! ## enumeration lemmas -/

theorem sublists_sub : ∀ (l Z : List Nat), Z ∈ sublists l → ∀ z ∈ Z, z ∈ l
  | [], Z, h, z, hz => by simp [sublists] at h; subst h; cases hz
  | a :: t, Z, h, z, hz => by
    simp only [sublists, List.mem_flatMap, List.mem_cons, List.not_mem_nil, or_false] at h
    obtain ⟨s, hs, rfl | rfl⟩ := h
    · exact List.mem_cons_of_mem _ (sublists_sub t _ hs z hz)
    · rcases List.mem_cons.mp hz with rfl | hz
      · exact List.mem_cons_self
      · exact List.mem_cons_of_mem _ (sublists_sub t s hs z hz)

theorem filter_mem_sublists (p : Nat → Bool) : ∀ l : List Nat, l.filter p ∈ sublists l
  | [] => by simp [sublists]
  | a :: t => by
    simp only [sublists, List.mem_flatMap, List.mem_cons, List.not_mem_nil, or_false,
      List.filter_cons]
    cases p a
    · exact ⟨_, filter_mem_sublists p t, Or.inl rfl⟩
    · exact ⟨_, filter_mem_sublists p t, Or.inr rfl⟩

/-- both components of a `combos` pair are in the list (no `Nodup` needed) -/
theorem mem_of_mem_combos {l : List Nat} {a b : Nat} (h : (a, b) ∈ C08.combos l) : a ∈ l ∧ b ∈ l := by
  induction l with
  | nil => simp [C08.combos] at h
  | cons x t ih =>
    simp only [C08.combos, List.mem_append, List.mem_map, Prod.mk.injEq] at h
    rcases h with ⟨y, hy, rfl, rfl⟩ | h
    · exact ⟨List.mem_cons_self, List.mem_cons_of_mem _ hy⟩
    · exact ⟨List.mem_cons_of_mem _ (ih h).1, List.mem_cons_of_mem _ (ih h).2⟩

/-- the other nodes, as the validator lists them -/
def others (ns : List Nat) (x y : Nat) : List Nat := ns.filter fun v => v != x && v != y

theorem mem_others {ns : List Nat} {x y v : Nat} : v ∈ others ns x y ↔ v ∈ ns ∧ v ≠ x ∧ v ≠ y := by
  simp [others, List.mem_filter]

/-- canonical listing of a conditioning set `Z ⊆ ns \ {x, y}` : an enumerated sublist with the same members -/
def canon (ns : List Nat) (x y : Nat) (Z : List Nat) : List Nat :=
  (others ns x y).filter fun v => decide (v ∈ Z)

theorem canon_mem_sublists (ns : List Nat) (x y : Nat) (Z : List Nat) :
    canon ns x y Z ∈ sublists (others ns x y) := filter_mem_sublists _ _

theorem mem_canon {ns : List Nat} {x y : Nat} {Z : List Nat}
    (hZ : ∀ z ∈ Z, z ∈ ns ∧ z ≠ x ∧ z ≠ y) (v : Nat) : v ∈ canon ns x y Z ↔ v ∈ Z := by
  simp only [canon, List.mem_filter, mem_others, decide_eq_true_eq]
  exact ⟨fun h => h.2, fun h => ⟨hZ v h, h⟩⟩

theorem mem_queries {ns : List Nat} {x y : Nat} {Z : List Nat} :
    (x, y, Z) ∈ queries ns ↔ (x, y) ∈ C08.combos ns ∧ Z ∈ sublists (others ns x y) := by
  unfold queries others
  simp only [List.mem_flatMap, List.mem_map, Prod.mk.injEq, Prod.exists]
  constructor
  · rintro ⟨a, b, hab, Z', hZ', rfl, rfl, rfl⟩; exact ⟨hab, hZ'⟩
  · rintro ⟨h1, h2⟩; exact ⟨x, y, h1, Z, h2, rfl, rfl, rfl⟩

/-! ## graph side conditions that follow from the clauses -/

/-- an ancestral graph without undirected edges has no self loop -/
theorem noSelfLoop_of_ancestral {M : MG} (ha : Ancestral M) (hun : M.un = []) : NoSelfLoop M := by
  intro a ma mb he
  rcases he with ⟨_, _, h⟩ | ⟨_, _, h⟩ | ⟨_, _, h⟩ | ⟨_, _, h⟩
  · exact ha.1 a a h (Anc.refl a)
  · exact ha.1 a a h (Anc.refl a)
  · exact ha.2 a a h (Anc.refl a)
  · rw [hun] at h; simp at h

theorem markAt_none_symm {G : MG} {a b : Nat} (h : markAt G a b = none) : markAt G b a = none := by
  rw [markAt_none_iff] at h ⊢
  obtain ⟨h1, h2, h3, h4, h5, h6, h7, h8⟩ := h
  exact ⟨h8, h5, h4, h3, h2, h7, h6, h1⟩

/-- a node is never m-separated from itself (the empty path connects) -/
theorem not_mSep_self (G : MG) (x : Nat) (Z : List Nat) : ¬ MSep G [x] [x] Z := by
  intro h
  exact h x List.mem_cons_self x List.mem_cons_self
    ⟨[], trivial, rfl, by simp [nodesOf], trivial⟩

/-! ## piece 3: acyclicity (ancestrality is `ancestralB_iff`) -/

theorem acyclicB_iff {M : MG} (hwf : M.WF) : (!hasCycle M) = true ↔ Acyclic M := by
  rw [Bool.not_eq_true']; exact hasCycle_false_iff M hwf

/-! ## single queries -/

/-- a query over nodes is the path-level statement -/
theorem sepOf_iff' {M : MG} (hwf : M.WF) (hun : M.un = []) (hsl : NoSelfLoop M) {ns : List Nat}
    (hns : ∀ v ∈ ns, v ∈ M.nodes) {x y : Nat} {Z : List Nat} (hx : x ∈ ns)
    (hZ : ∀ z ∈ Z, z ∈ ns ∧ z ≠ x ∧ z ≠ y) :
    sepOf M (x, y, Z) = true ↔ MSep M [x] [y] Z :=
  sepOf_iff hwf hun hsl x y Z (hns x hx) (fun z hz => hns z (hZ z hz).1)
    (fun hxz => (hZ x hxz).2.1 rfl)

/-! ## piece 4: maximality -/

/-- **piece 4.** `maximalB` decides `C09.Maximal`. -/
theorem maximalB_iff {M : MG} (hwf : M.WF) (hun : M.un = []) (hsl : NoSelfLoop M) :
    maximalB M = true ↔ Maximal M := by
  unfold maximalB Maximal
  simp only [List.all_eq_true, Bool.or_eq_true, beq_iff_eq, List.any_eq_true, Prod.forall]
  have key : ∀ x y, x ∈ M.nodes → y ∈ M.nodes →
      ((∃ Z, Z ∈ sublists (M.nodes.filter fun v => v != x && v != y) ∧ mSeparated M [x] [y] Z = true) ↔
        ∃ Z, (∀ z ∈ Z, z ∈ M.nodes ∧ z ≠ x ∧ z ≠ y) ∧ MSep M [x] [y] Z) := by
    intro x y hx hy
    constructor
    · rintro ⟨Z, hZ, hs⟩
      have hm : ∀ z ∈ Z, z ∈ M.nodes ∧ z ≠ x ∧ z ≠ y := fun z hz =>
        mem_others.mp (sublists_sub _ Z hZ z hz)
      exact ⟨Z, hm, (sepOf_iff' hwf hun hsl (fun v hv => hv) hx hm).mp hs⟩
    · rintro ⟨Z, hZ, hs⟩
      refine ⟨canon M.nodes x y Z, canon_mem_sublists _ _ _ _, ?_⟩
      have hm : ∀ z ∈ canon M.nodes x y Z, z ∈ M.nodes ∧ z ≠ x ∧ z ≠ y := fun z hz =>
        hZ z ((mem_canon hZ z).mp hz)
      exact (sepOf_iff' hwf hun hsl (fun v hv => hv) hx hm).mpr
        ((C07.mSep_congr (mem_canon hZ) [x] [y]).mpr hs)
  constructor
  · intro h x y hx hy hxy hnone
    rcases C08.combos_complete hx hy hxy with hc | hc
    · rcases h x y hc with (h1 | h1) | h1
      · exact absurd h1 hxy
      · rw [adjB_iff, hnone] at h1; cases h1
      · exact (key x y hx hy).mp h1
    · rcases h y x hc with (h1 | h1) | h1
      · exact absurd h1.symm hxy
      · rw [adjB_iff, markAt_none_symm hnone] at h1; cases h1
      · obtain ⟨Z, hZ, hs⟩ := (key y x hy hx).mp h1
        exact ⟨Z, fun z hz => ⟨(hZ z hz).1, (hZ z hz).2.2, (hZ z hz).2.1⟩, hs.symm⟩
  · intro h x y hc
    obtain ⟨hx, hy⟩ := mem_of_mem_combos hc
    by_cases hxy : x = y
    · exact Or.inl (Or.inl hxy)
    · by_cases hadj : adjB M x y = true
      · exact Or.inl (Or.inr hadj)
      · right
        rw [Bool.not_eq_true, adjB_false_iff] at hadj
        exact (key x y hx hy).mpr (h x y hx hy hxy hadj)

/-- `C09.Maximal` (adjacency read off the marks) is `C07.Maximal` on graphs without circle edges … -/
theorem maximal_iff_c07 {M : MG} (hc : M.circ = []) : Maximal M ↔ C07.Maximal M := by
  have hadj : ∀ a b, markAt M a b = none ↔ ¬ C07.Adjacent M a b := by
    intro a b
    rw [markAt_none_iff, hc]
    unfold C07.Adjacent C07.Dir C07.Bi C07.Un
    simp only [List.not_mem_nil, not_false_eq_true, true_and, and_true, not_or]
    constructor
    · rintro ⟨h1, h2, h3, h4, h5, h6⟩; exact ⟨h1, h4, ⟨h2, h3⟩, h5, h6⟩
    · rintro ⟨h1, h4, ⟨h2, h3⟩, h5, h6⟩; exact ⟨h1, h2, h3, h4, h5, h6⟩
  unfold Maximal C07.Maximal
  constructor
  · intro h a ha b hb hab hn; exact h a b ha hb hab ((hadj a b).mpr hn)
  · intro h a b ha hb hab hn; exact h a ha b hb hab ((hadj a b).mp hn)

/-- … hence (Richardson–Spirtes, proved as `T5.c07_T5`) `maximalB` also decides "no inducing path
    between non-adjacent nodes", the test `is_maximal` of the library implements -/
theorem maximalB_iff_noInducingPath {M : MG} (hwf : M.WF) (hun : M.un = []) (hc : M.circ = [])
    (hsl : NoSelfLoop M) : maximalB M = true ↔ C07.NoInducingPathBetweenNonAdjacent M := by
  rw [maximalB_iff hwf hun hsl, maximal_iff_c07 hc]
  exact T5.c07_T5 hwf hun hsl

/-- `maximalB` agrees with the all-ordered-pairs decider of C07 -/
theorem maximalB_eq_c07 {M : MG} (hwf : M.WF) (hun : M.un = []) (hc : M.circ = [])
    (hsl : NoSelfLoop M) : maximalB M = C07.maximalDec M := by
  have h1 := maximalB_iff hwf hun hsl
  have h2 := C07.maximalDec_iff (G := M) hwf hun hsl
  rw [maximal_iff_c07 hc] at h1
  cases ha : maximalB M <;> cases hb : C07.maximalDec M <;> simp_all

/-! ## piece 5: Markov equivalence -/

/-- **piece 5.** Agreement of the proved m-separation model over the enumerated queries decides
    `MarkovEquiv` (both graphs: directed/bidirected edges between nodes, no self loop, same node set). -/
theorem sameSepB_iff {M0 M : MG} (h0 : M0.WF) (u0 : M0.un = []) (s0 : NoSelfLoop M0)
    (h1 : M.WF) (u1 : M.un = []) (s1 : NoSelfLoop M) (hn : SameNodes M0.nodes M.nodes) :
    sameSepB M0 M = true ↔ MarkovEquiv M0 M := by
  unfold sameSepB MarkovEquiv
  simp only [List.all_eq_true, beq_iff_eq, Prod.forall, mem_queries]
  have hsub : ∀ v ∈ M0.nodes, v ∈ M.nodes := fun v hv => (hn v).mp hv
  -- one enumerated query: equality of the two answers is equivalence of the two path statements
  have key : ∀ x y Z, x ∈ M0.nodes → (∀ z ∈ Z, z ∈ M0.nodes ∧ z ≠ x ∧ z ≠ y) →
      (sepOf M0 (x, y, Z) = sepOf M (x, y, Z) ↔ (MSep M0 [x] [y] Z ↔ MSep M [x] [y] Z)) := by
    intro x y Z hx hZ
    rw [← sepOf_iff' h0 u0 s0 (fun v hv => hv) hx hZ, ← sepOf_iff' h1 u1 s1 hsub hx hZ]
    cases sepOf M0 (x, y, Z) <;> cases sepOf M (x, y, Z) <;> simp
  constructor
  · intro h x y Z hx hy hxy hZ
    rcases C08.combos_complete hx hy hxy with hc | hc
    · have hm : ∀ z ∈ canon M0.nodes x y Z, z ∈ M0.nodes ∧ z ≠ x ∧ z ≠ y := fun z hz =>
        hZ z ((mem_canon hZ z).mp hz)
      have := (key x y _ hx hm).mp (h x y _ ⟨hc, canon_mem_sublists _ _ _ _⟩)
      rw [C07.mSep_congr (mem_canon hZ) [x] [y], C07.mSep_congr (mem_canon hZ) [x] [y]] at this
      exact this
    · have hZ' : ∀ z ∈ Z, z ∈ M0.nodes ∧ z ≠ y ∧ z ≠ x := fun z hz =>
        ⟨(hZ z hz).1, (hZ z hz).2.2, (hZ z hz).2.1⟩
      have hm : ∀ z ∈ canon M0.nodes y x Z, z ∈ M0.nodes ∧ z ≠ y ∧ z ≠ x := fun z hz =>
        hZ' z ((mem_canon hZ' z).mp hz)
      have := (key y x _ hy hm).mp (h y x _ ⟨hc, canon_mem_sublists _ _ _ _⟩)
      rw [C07.mSep_congr (mem_canon hZ') [y] [x], C07.mSep_congr (mem_canon hZ') [y] [x]] at this
      exact ⟨fun hs => (this.mp hs.symm).symm, fun hs => (this.mpr hs.symm).symm⟩
  · intro h x y Z ⟨hc, hZ⟩
    obtain ⟨hx, hy⟩ := mem_of_mem_combos hc
    have hm : ∀ z ∈ Z, z ∈ M0.nodes ∧ z ≠ x ∧ z ≠ y := fun z hz =>
      mem_others.mp (sublists_sub _ Z hZ z hz)
    rw [key x y Z hx hm]
    by_cases hxy : x = y
    · subst hxy
      exact ⟨fun hs => absurd hs (not_mSep_self _ _ _), fun hs => absurd hs (not_mSep_self _ _ _)⟩
    · exact h x y Z hx hy hxy hm

end C09
