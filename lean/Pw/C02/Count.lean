import Pw.C02.ObsEq

/-! # C02: the counting queries (`number_of_edges`, `size`, `degree`) -/
namespace C02

/-- a duplicate-free list inside a duplicate-free universe has as many elements as the universe has
    members of it -/
theorem length_eq_countP {α} [DecidableEq α] {l U : List α} (hl : l.Nodup) (hU : U.Nodup) (hsub : ∀ x ∈ l, x ∈ U) :
    l.length = U.countP (fun x => decide (x ∈ l)) := by
  rw [List.countP_eq_length_filter]
  apply List.Perm.length_eq
  rw [List.perm_ext_iff_of_nodup hl (hU.filter _)]
  intro x
  simp only [List.mem_filter, decide_eq_true_eq]
  exact ⟨fun h => ⟨hsub x h, h⟩, fun h => h.2⟩

theorem sum_indicator (vs : List Nat) (x : Nat) :
    (vs.map fun v => if (x == v) = true then 1 else 0).sum = vs.count x := by
  induction vs with
  | nil => rfl
  | cons v vs ih =>
    simp only [List.map_cons, List.sum_cons, ih, List.count_cons]
    by_cases h : x = v
    · subst h; simp; omega
    · have h1 : (x == v) = false := by simpa using h
      have h2 : (v == x) = false := by simpa using fun hc : v = x => h hc.symm
      simp [h1, h2]

theorem sum_add_map (vs : List Nat) (f g : Nat → Nat) :
    (vs.map fun v => f v + g v).sum = (vs.map f).sum + (vs.map g).sum := by
  induction vs with
  | nil => rfl
  | cons v vs ih => simp only [List.map_cons, List.sum_cons, ih]; omega

/-- every element of `es` is charged to exactly one node -/
theorem sum_countP_eq_length {β} (nodes : List Nat) (hn : nodes.Nodup) (es : List β) (f : β → Nat)
    (hf : ∀ e ∈ es, f e ∈ nodes) :
    (nodes.map fun v => es.countP fun e => f e == v).sum = es.length := by
  induction es with
  | nil => simp; induction nodes <;> simp_all
  | cons e es ih =>
    have ih' := ih fun e he => hf e (List.mem_cons_of_mem _ he)
    have he : f e ∈ nodes := hf e (by simp)
    simp only [List.countP_cons, List.length_cons]
    rw [sum_add_map nodes (fun v => es.countP fun e => f e == v) (fun v => if (f e == v) = true then 1 else 0),
      ih', sum_indicator, List.Nodup.count hn, if_pos he]

/-- fiber counting: the selected elements of `es` are in bijection with their values -/
theorem fiber_count {β} (es : List β) (q : β → Bool) (val : β → Nat) (n : Nat)
    (hinj : es.Pairwise fun e f => q e = true → q f = true → val e ≠ val f)
    (hb : ∀ e ∈ es, q e = true → val e < n) (p : Nat → Bool)
    (hp : ∀ w, p w = true ↔ ∃ e ∈ es, q e = true ∧ val e = w) :
    es.countP q = (List.range n).countP p := by
  have hrow : ((es.filter q).map val).Nodup := by
    rw [List.Nodup, List.pairwise_map]
    refine (hinj.filter _).imp_of_mem ?_
    intro e f he hf hef hv
    simp only [List.mem_filter] at he hf
    exact hef he.2 hf.2 hv
  have hlen := length_eq_countP hrow (List.nodup_range (n := n)) (by
    intro w hw
    simp only [List.mem_map, List.mem_filter] at hw
    obtain ⟨e, ⟨he, hk⟩, rfl⟩ := hw
    exact List.mem_range.2 (hb e he hk))
  rw [List.length_map, ← List.countP_eq_length_filter] at hlen
  rw [hlen]
  apply List.countP_congr
  intro w _
  rw [hp w]
  simp only [decide_eq_true_eq, List.mem_map, List.mem_filter]
  constructor
  · rintro ⟨e, ⟨he, hk⟩, rfl⟩; exact ⟨e, he, hk, rfl⟩
  · rintro ⟨e, he, hk, rfl⟩; exact ⟨e, ⟨he, hk⟩, rfl⟩

theorem countP_or_and {β} (es : List β) (p q : β → Bool) :
    es.countP p + es.countP q = es.countP (fun e => p e || q e) + es.countP (fun e => p e && q e) := by
  induction es with
  | nil => rfl
  | cons e es ih =>
    simp only [List.countP_cons]
    cases p e <;> cases q e <;> simp <;> omega

/-! ### canonical form of a stored key -/
def cfst (k : Kind) (e : Nat × Nat) : Nat := if k == .und then min e.1 e.2 else e.1
def csnd (k : Kind) (e : Nat × Nat) : Nat := if k == .und then max e.1 e.2 else e.2

theorem same_iff_canon (k : Kind) (e f : Nat × Nat) :
    same k e f = true ↔ cfst k e = cfst k f ∧ csnd k e = csnd k f := by
  obtain ⟨a, b⟩ := e; obtain ⟨c, d⟩ := f
  cases k <;> simp [same, cfst, csnd] <;> omega

namespace Layer

/-- all nodes of the layer are inside the node universe -/
def Below (L : Layer) (n : Nat) : Prop := ∀ v ∈ L.nodes, v < n

theorem keys_inj {L : Layer} (hw : L.WF) :
    L.edges.Pairwise fun e f => ¬(cfst L.kind e.1 = cfst L.kind f.1 ∧ csnd L.kind e.1 = csnd L.kind f.1) := by
  refine hw.keys.imp ?_
  intro e f h hc
  rw [← same_iff_canon] at hc
  simp [hc] at h

/-- the counting predicate of the specification: ordered pairs for a directed layer, pairs `u ≤ v` otherwise -/
def cnt (L : Layer) (u v : Nat) : Bool := (L.kind == .dir || decide (u ≤ v)) && L.has u v

theorem cnt_iff (L : Layer) (u w : Nat) :
    L.cnt u w = true ↔ ∃ e ∈ L.edges, cfst L.kind e.1 = u ∧ csnd L.kind e.1 = w := by
  simp only [cnt, Bool.and_eq_true, Bool.or_eq_true, beq_iff_eq, decide_eq_true_eq, has_iff]
  constructor
  · rintro ⟨hk, e, he, hs⟩
    refine ⟨e, he, ?_⟩
    have := (same_iff_canon L.kind e.1 (u, w)).1 hs
    rcases hk with hk | hk
    · simp [cfst, csnd, hk] at this ⊢; exact this
    · cases hkk : L.kind <;> simp [cfst, csnd, hkk] at this ⊢ <;> omega
  · rintro ⟨e, he, h1, h2⟩
    cases hkk : L.kind
    · simp only [cfst, csnd, hkk, beq_self_eq_true, ite_true] at h1 h2
      refine ⟨Or.inr (by omega), e, he, ?_⟩
      rw [same_iff_canon]; simp [cfst, csnd]; omega
    · simp only [cfst, csnd, hkk] at h1 h2
      refine ⟨Or.inl rfl, e, he, ?_⟩
      rw [same_iff_canon]; simp [cfst, csnd] at h1 h2 ⊢; exact ⟨h1, h2⟩

/-- **number_of_edges of one layer** = number of (canonical) pairs of the universe in the edge set -/
theorem numEdges_eq {L : Layer} (hw : L.WF) {n : Nat} (hb : L.Below n) :
    L.numEdges = ((List.range n).map fun u => (List.range n).countP fun v => L.cnt u v).sum := by
  have hlt : ∀ e ∈ L.edges, e.1.1 < n ∧ e.1.2 < n := fun e he =>
    ⟨hb _ (hw.ends e he).1, hb _ (hw.ends e he).2⟩
  rw [numEdges, ← sum_countP_eq_length (List.range n) List.nodup_range L.edges (fun e => cfst L.kind e.1)
    (by intro e he; have := hlt e he; simp only [List.mem_range, cfst]; split <;> omega)]
  congr 1
  apply List.map_congr_left
  intro u _
  apply fiber_count L.edges (fun e => cfst L.kind e.1 == u) (fun e => csnd L.kind e.1) n
    ((keys_inj hw).imp fun h h1 h2 h3 => h ⟨by simp only [beq_iff_eq] at h1 h2; rw [h1, h2], h3⟩)
  · intro e he _; have := hlt e he; simp only [csnd]; split <;> omega
  · intro w; rw [cnt_iff L u w]; simp

/-- handshake: the degree sum of a layer is twice its number of edges -/
theorem degree_sum {L : Layer} (hw : L.WF) : (L.nodes.map L.degree).sum = 2 * L.edges.length := by
  unfold degree
  rw [sum_add_map L.nodes (fun v => L.edges.countP fun e => e.1.1 == v) (fun v => L.edges.countP fun e => e.1.2 == v),
    sum_countP_eq_length L.nodes hw.nodup L.edges (fun e => e.1.1) (fun e he => (hw.ends e he).1),
    sum_countP_eq_length L.nodes hw.nodup L.edges (fun e => e.1.2) (fun e he => (hw.ends e he).2)]
  omega

/-- **degree of one layer**: directed = out + in; undirected = incident edges, a self loop twice -/
theorem degree_eq {L : Layer} (hw : L.WF) {n : Nat} (hb : L.Below n) (v : Nat) :
    L.degree v = match L.kind with
      | .dir => (List.range n).countP (fun w => L.has v w) + (List.range n).countP (fun w => L.has w v)
      | .und => (List.range n).countP (fun w => L.has v w) + (if L.has v v then 1 else 0) := by
  have hlt : ∀ e ∈ L.edges, e.1.1 < n ∧ e.1.2 < n := fun e he =>
    ⟨hb _ (hw.ends e he).1, hb _ (hw.ends e he).2⟩
  cases hk : L.kind with
  | dir =>
    simp only [degree]
    congr 1
    · apply fiber_count L.edges (fun e => e.1.1 == v) (fun e => e.1.2) n
      · refine hw.keys.imp ?_
        intro e f h h1 h2 h3
        simp only [beq_iff_eq] at h1 h2
        simp [same, hk] at h; exact h (by rw [h1, h2]) h3
      · intro e he _; exact (hlt e he).2
      · intro w; rw [has_iff]; simp [same, hk]
    · apply fiber_count L.edges (fun e => e.1.2 == v) (fun e => e.1.1) n
      · refine hw.keys.imp ?_
        intro e f h h1 h2 h3
        simp only [beq_iff_eq] at h1 h2
        simp [same, hk] at h; exact h h3 (by rw [h1, h2])
      · intro e he _; exact (hlt e he).1
      · intro w; rw [has_iff]; simp [same, hk]; grind
  | und =>
    simp only [degree]
    rw [countP_or_and]
    congr 1
    · apply fiber_count L.edges (fun e => e.1.1 == v || e.1.2 == v)
        (fun e => if e.1.1 == v then e.1.2 else e.1.1) n
      · refine hw.keys.imp ?_
        intro e f h h1 h2 h3
        simp [same, hk] at h
        simp only [Bool.or_eq_true, beq_iff_eq] at h1 h2
        split at h3 <;> split at h3 <;> grind
      · intro e he _; have := hlt e he; split <;> omega
      · intro w; rw [has_iff]
        simp only [same, hk, beq_self_eq_true, Bool.true_and, Bool.or_eq_true, Bool.and_eq_true, beq_iff_eq]
        constructor
        · rintro ⟨e, he, h⟩; refine ⟨e, he, ?_⟩; split <;> grind
        · rintro ⟨e, he, h1, h2⟩; refine ⟨e, he, ?_⟩
          split at h2 <;> grind
    · have := fiber_count L.edges (fun e => e.1.1 == v && e.1.2 == v) (fun _ => 0) 1
        (by
          refine hw.keys.imp ?_
          intro e f h h1 h2 _
          simp [same, hk] at h
          simp only [Bool.and_eq_true, beq_iff_eq] at h1 h2
          grind)
        (by intros; omega) (fun w => w == 0 && L.has v v)
        (by
          intro w
          simp only [Bool.and_eq_true, beq_iff_eq, has_iff, same, hk, beq_self_eq_true, Bool.true_and,
            Bool.or_eq_true]
          constructor
          · rintro ⟨hw0, e, he, h⟩; exact ⟨e, he, by grind, hw0.symm⟩
          · rintro ⟨e, he, h1, h2⟩; exact ⟨h2.symm, e, he, by grind⟩)
      have h2 : (List.range 1).countP (fun w => w == 0 && L.has v v) = if L.has v v then 1 else 0 := by
        cases L.has v v <;> simp [List.range_succ]
      rw [← h2, ← this]

end Layer
end C02
