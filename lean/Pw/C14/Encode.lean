import Pw.C14.Decode

/-! # C14 — the exporters on every graph of the documented domain (whole graph, any size) -/
namespace C14
set_option linter.unusedSimpArgs false

/-- documented cells of a configuration (`(0,0)` for anything not in the table) -/
def cellOf (c : Cls) (f : Fmt) (p : PB) : Int × Int := (lookupCfg (tableZ c f) p).getD (0, 0)

theorem cellOf_tableZ : ∀ c ∈ allCls, ∀ f ∈ [Fmt.numpy, .clearn, .pcalg], ∀ e ∈ tableZ c f, cellOf c f e.1 = e.2 := by decide

/-- `g` is a graph of class `c` in the domain of format `f` (hypothesis form): every pair of distinct
    nodes is non-adjacent or carries a configuration of the documented table -/
def InDom (c : Cls) (f : Fmt) (g : MG) (n : Nat) : Prop :=
  ∀ a b, a < n → b < n → a ≠ b → ∃ x y, (bits g a b, x, y) ∈ tableZ c f

/-- the documented matrix of `g` -/
def docMat (c : Cls) (f : Fmt) (g : MG) (n : Nat) : Mat := fun a b =>
  if a < n ∧ b < n ∧ a ≠ b then (cellOf c f (bits g a b)).1 else 0

theorem InDom.cells {c f g n} (h : InDom c f g n) {a b : Nat} (ha : a < n) (hb : b < n) (hab : a ≠ b) :
    (bits g a b, docMat c f g n a b, docMat c f g n b a) ∈ tableZ c f := by
  obtain ⟨x, y, he⟩ := h a b ha hb hab
  have h1 := cellOf_tableZ c (mem_allCls c) f (mem_fmts f) _ he
  have he' := tableZ_swap_closed c (mem_allCls c) f (mem_fmts f) _ he
  have h2 := cellOf_tableZ c (mem_allCls c) f (mem_fmts f) _ he'
  have hba : b ≠ a := fun e => hab e.symm
  simp only [docMat, ha, hb, hab, hba, ne_eq, not_false_eq_true, and_self, if_true, bits_swap g a b, h1, h2]
  exact he

theorem Mat.set_apply (m : Mat) (i j : Nat) (x : Int) (a b : Nat) :
    (m.set i j x) a b = if a = i ∧ b = j then x else m a b := rfl

theorem adjacent_empty : PB.empty.adjacent = false := by decide

/-- **`graph_to_clearn`** writes the documented endpoint matrix for every graph in the domain -/
theorem clEnc_spec (c : Cls) (g : MG) (n : Nat) (hg : InDom c .clearn g n) :
    ∃ m, clEnc c g n = some m ∧ m = docMat c .clearn g n := by
  let W := docMat c .clearn g n
  have aux : ∀ (rest done : List (Nat × Nat)) (m : Mat), (∀ x ∈ rest, x ∈ allPairs n) →
      (∀ a b, m a b = W a b ∨ (m a b = 0 ∧ (a, b) ∉ done ∧ (b, a) ∉ done)) →
      ∃ m', rest.foldl (clEncStep c g) (some m) = some m' ∧
        ∀ a b, m' a b = W a b ∨ (m' a b = 0 ∧ (a, b) ∉ done ++ rest ∧ (b, a) ∉ done ++ rest) := by
    intro rest
    induction rest with
    | nil => intro done m _ h; exact ⟨m, rfl, by simpa using h⟩
    | cons x rest ih =>
      intro done m hmem hinv
      obtain ⟨u, v⟩ := x
      obtain ⟨hu, hv⟩ := mem_allPairs.1 (hmem _ List.mem_cons_self)
      have key : ∃ m1, clEncStep c g (some m) (u, v) = some m1 ∧
          ∀ a b, m1 a b = W a b ∨ (m1 a b = 0 ∧ (a, b) ∉ done ++ [(u, v)] ∧ (b, a) ∉ done ++ [(u, v)]) := by
        by_cases huv : u = v
        · subst huv
          refine ⟨m, by simp [clEncStep], ?_⟩
          intro a b
          rcases hinv a b with h | ⟨h0, h1, h2⟩
          · exact Or.inl h
          · by_cases e : a = u ∧ b = u
            · obtain ⟨rfl, rfl⟩ := e
              left; rw [h0]; simp [W, docMat]
            · right
              refine ⟨h0, ?_, ?_⟩
              · simp [List.mem_append, h1, e]
              · have e' : ¬(b = u ∧ a = u) := fun x => e ⟨x.2, x.1⟩
                simp [List.mem_append, h2, e']
        · have hvu : v ≠ u := fun e => huv e.symm
          have hcell := hg.cells hu hv huv
          have hmask : bitsC c g u v = bits g u v := table_mask c (mem_allCls c) .clearn (mem_fmts _) _ hcell
          have upd : ∀ (m1 : Mat), (∀ a b, m1 a b = if a = u ∧ b = v then W u v else if a = v ∧ b = u then W v u else m a b) →
              ∀ a b, m1 a b = W a b ∨ (m1 a b = 0 ∧ (a, b) ∉ done ++ [(u, v)] ∧ (b, a) ∉ done ++ [(u, v)]) := by
            intro m1 hm1 a b
            rw [hm1 a b]
            by_cases c1 : a = u ∧ b = v
            · obtain ⟨rfl, rfl⟩ := c1; simp
            · by_cases c2 : a = v ∧ b = u
              · obtain ⟨rfl, rfl⟩ := c2; simp [c1]
              · simp only [c1, c2, if_false]
                rcases hinv a b with h | ⟨h0, h1, h2⟩
                · exact Or.inl h
                · right
                  have c2' : ¬(b = u ∧ a = v) := fun x => c2 ⟨x.2, x.1⟩
                  exact ⟨h0, by simp [List.mem_append, h1, c1], by simp [List.mem_append, h2, c2']⟩
          rcases List.mem_cons.1 hcell with he | he
          · -- non-adjacent pair: nothing is written, the documented cells are zero
            have hp : bits g u v = PB.empty := by injection he with h1 h2
            have hW1 : W u v = 0 := by injection he with h1 h2; injection h2 with h3 h4
            have hW2 : W v u = 0 := by injection he with h1 h2; injection h2 with h3 h4
            refine ⟨m, by simp [clEncStep, huv, hmask, hp, adjacent_empty], ?_⟩
            apply upd m
            intro a b
            by_cases c1 : a = u ∧ b = v
            · obtain ⟨rfl, rfl⟩ := c1
              rcases hinv a b with h | ⟨h0, _, _⟩
              · simp [h]
              · simp [h0, hW1]
            · by_cases c2 : a = v ∧ b = u
              · obtain ⟨rfl, rfl⟩ := c2
                rcases hinv a b with h | ⟨h0, _, _⟩
                · simp [c1, h]
                · simp [c1, h0, hW2]
              · simp [c1, c2]
          · have henc := clEncPair_table c (mem_allCls c) _ he
            have hadj := clEncPair_adjacent c (mem_allCls c) _ he
            have hmk : (bits g u v).mask c = bits g u v := hmask
            simp only [hmk] at henc hadj
            refine ⟨(m.set u v (W u v)).set v u (W v u), ?_, ?_⟩
            · simp [clEncStep, huv, hmask, hadj, henc, W]
            · apply upd
              intro a b
              simp only [Mat.set_apply]
              by_cases c1 : a = u ∧ b = v
              · obtain ⟨rfl, rfl⟩ := c1
                have : ¬(a = b ∧ b = a) := fun e => huv e.1
                simp [this]
              · by_cases c2 : a = v ∧ b = u
                · obtain ⟨rfl, rfl⟩ := c2
                  have : ¬(a = b ∧ b = a) := fun e => huv e.2
                  simp [this]
                · simp [c1, c2]
      obtain ⟨m1, hm1, hinv1⟩ := key
      obtain ⟨m2, hm2, hinv2⟩ := ih (done ++ [(u, v)]) m1 (fun y hy => hmem y (List.mem_cons_of_mem _ hy)) hinv1
      exact ⟨m2, by rw [List.foldl_cons, hm1, hm2], by simpa [List.append_assoc] using hinv2⟩
  obtain ⟨m, hm, hfin⟩ := aux (allPairs n) [] Mat.zero (fun _ h => h) (fun a b => Or.inr ⟨rfl, by simp, by simp⟩)
  refine ⟨m, hm, ?_⟩
  funext a b
  rcases hfin a b with h | ⟨h0, h1, _⟩
  · exact h
  · rw [h0]
    by_cases hr : a < n ∧ b < n
    · exact absurd (by simpa using mem_allPairs.2 hr) h1
    · simp only [docMat]; rw [if_neg (fun e => hr ⟨e.1, e.2.1⟩)]

/-- **`graph_to_numpy`** writes the documented matrix for every graph in the domain -/
theorem npEnc_spec (c : Cls) (g : MG) (n : Nat) (hg : InDom c .numpy g n) (hd : ∀ a, bits g a a = PB.empty) :
    ∀ a b, a < n → b < n → npEnc c g n a b = docMat c .numpy g n a b := by
  intro a b ha hb
  by_cases hab : a = b
  · subst hab
    simp only [npEnc, bitsC, hd a, docMat]
    rw [if_neg (fun e => e.2.2 rfl)]
    cases c <;> decide
  · have hcell := hg.cells ha hb hab
    have h1 := npEncCell_table c (mem_allCls c) _ hcell
    simp only [npEnc, bitsC]
    exact h1.1

/-- pcalg domain ⊆ causal-learn domain, and the remap of the causal-learn cells gives the pcalg cells -/
theorem pcalg_via_clearn : ∀ c ∈ [Cls.cpdag, .pag], ∀ e ∈ tableZ c .pcalg,
    ∃ e' ∈ tableZ c .clearn, e'.1 = e.1 ∧ (e.1 ≠ PB.empty → pcRemap c e'.2.2 e'.2.1 = (e.2.1, e.2.2)) ∧
      (e'.2.1 = 0 → e.2.1 = 0) ∧ (e'.2.2 = 0 → e.2.2 = 0) ∧ (e.1 ≠ PB.empty → e'.2.1 ≠ 0 ∧ e'.2.2 ≠ 0) := by decide

theorem InDom.pcalg_clearn {c g n} (hc : c ∈ [Cls.cpdag, .pag]) (h : InDom c .pcalg g n) : InDom c .clearn g n := by
  intro a b ha hb hab
  obtain ⟨x, y, he⟩ := h a b ha hb hab
  obtain ⟨⟨p, x', y'⟩, he', h1, _⟩ := pcalg_via_clearn c hc _ he
  have h1' : p = bits g a b := h1
  subst h1'
  exact ⟨x', y', he'⟩

/-- invariant of the remap loop of `graph_to_pcalg`: pairs in `seen_idx` carry the pcalg codes `R`, all
    other cells still hold the transposed causal-learn codes `T0`; every visited non-zero cell is seen -/
def PcEncInv (n : Nat) (R T0 : Mat) (done : List (Nat × Nat)) (st : Mat × List (Nat × Nat)) : Prop :=
  (∀ a b, st.1 a b = if (a, b) ∈ st.2 ∨ (b, a) ∈ st.2 then R a b else T0 a b) ∧
  (∀ a b, (a, b) ∈ st.2 → a < n ∧ b < n ∧ a ≠ b) ∧
  (∀ a b, (a, b) ∈ done → T0 a b ≠ 0 → (a, b) ∈ st.2 ∨ (b, a) ∈ st.2)

/-- **`graph_to_pcalg`** writes the documented adjacency matrix for every CPDAG / PAG in the domain -/
theorem pcEnc_spec (c : Cls) (hc : c ∈ [Cls.cpdag, .pag]) (g : MG) (n : Nat) (hg : InDom c .pcalg g n) :
    ∃ m, pcEnc c g n = some m ∧ m = docMat c .pcalg g n := by
  have hgc := hg.pcalg_clearn hc
  obtain ⟨mc, hmc, hmceq⟩ := clEnc_spec c g n hgc
  let T0 : Mat := mc.transpose
  let R := docMat c .pcalg g n
  -- facts about one pair
  have pairfact : ∀ a b, a < n → b < n → a ≠ b →
      (bits g a b = PB.empty ∧ T0 a b = 0 ∧ T0 b a = 0 ∧ R a b = 0 ∧ R b a = 0) ∨
      (T0 a b ≠ 0 ∧ T0 b a ≠ 0 ∧ pcRemap c (T0 a b) (T0 b a) = (R a b, R b a)) := by
    intro a b ha hb hab
    have hp := hg.cells ha hb hab
    have hcl := hgc.cells ha hb hab
    obtain ⟨e', he', h1, h2, h3, h4, h5⟩ := pcalg_via_clearn c hc _ hp
    have hsame : e'.2 = (docMat c .clearn g n a b, docMat c .clearn g n b a) :=
      tableZ_cfg_inj c (mem_allCls c) .clearn (mem_fmts _) _ he' _ hcl h1
    have hT1 : T0 a b = e'.2.2 := by simp [T0, Mat.transpose, hmceq, hsame]
    have hT2 : T0 b a = e'.2.1 := by simp [T0, Mat.transpose, hmceq, hsame]
    by_cases hemp : bits g a b = PB.empty
    · left
      have hz : (PB.empty, (0 : Int), (0 : Int)) ∈ tableZ c .clearn := by simp [tableZ]
      have : e'.2 = ((0 : Int), (0 : Int)) :=
        tableZ_cfg_inj c (mem_allCls c) .clearn (mem_fmts _) _ he' _ hz (by rw [h1]; exact hemp)
      have e1 : e'.2.1 = 0 := by rw [this]
      have e2 : e'.2.2 = 0 := by rw [this]
      exact ⟨hemp, by rw [hT1, e2], by rw [hT2, e1], h3 e1, h4 e2⟩
    · right
      obtain ⟨n1, n2⟩ := h5 hemp
      exact ⟨by rw [hT1]; exact n2, by rw [hT2]; exact n1, by rw [hT1, hT2]; exact h2 hemp⟩
  have hdiag : ∀ a, T0 a a = 0 := by
    intro a; simp [T0, Mat.transpose, hmceq, docMat]
  have hout : ∀ a b, ¬(a < n ∧ b < n) → T0 a b = 0 ∧ R a b = 0 := by
    intro a b h
    have h' : ¬(b < n ∧ a < n ∧ b ≠ a) := fun e => h ⟨e.2.1, e.1⟩
    have h'' : ¬(a < n ∧ b < n ∧ a ≠ b) := fun e => h ⟨e.1, e.2.1⟩
    simp [T0, R, Mat.transpose, hmceq, docMat, h', h'']
  have aux : ∀ (rest done : List (Nat × Nat)) (st : Mat × List (Nat × Nat)), (∀ x ∈ rest, x ∈ allPairs n) →
      PcEncInv n R T0 done st → PcEncInv n R T0 (done ++ rest) (rest.foldl (pcEncStep c T0) st) := by
    intro rest
    induction rest with
    | nil => intro done st _ h; rw [List.append_nil]; exact h
    | cons x rest ih =>
      intro done st hmem hinv
      obtain ⟨u, v⟩ := x
      obtain ⟨hu, hv⟩ := mem_allPairs.1 (hmem _ List.mem_cons_self)
      obtain ⟨hM, hS, hD⟩ := hinv
      have key : PcEncInv n R T0 (done ++ [(u, v)]) (pcEncStep c T0 st (u, v)) := by
        by_cases hz : T0 u v = 0
        · have : pcEncStep c T0 st (u, v) = st := by simp [pcEncStep, hz]
          rw [this]
          refine ⟨hM, hS, ?_⟩
          intro a b hab hnz
          rcases List.mem_append.1 hab with h | h
          · exact hD a b h hnz
          · simp at h; obtain ⟨rfl, rfl⟩ := h; exact absurd hz hnz
        · by_cases hseen : (u, v) ∈ st.2 ∨ (v, u) ∈ st.2
          · have : pcEncStep c T0 st (u, v) = st := by
              rcases hseen with h | h <;> simp [pcEncStep, hz, h]
            rw [this]
            refine ⟨hM, hS, ?_⟩
            intro a b hab hnz
            rcases List.mem_append.1 hab with h | h
            · exact hD a b h hnz
            · simp at h; obtain ⟨rfl, rfl⟩ := h; exact hseen
          · have huv : u ≠ v := by intro e; subst e; exact hz (hdiag u)
            have hs1 : (u, v) ∉ st.2 := fun h => hseen (Or.inl h)
            have hs2 : (v, u) ∉ st.2 := fun h => hseen (Or.inr h)
            have hcur1 : st.1 u v = T0 u v := by rw [hM u v, if_neg hseen]
            have hcur2 : st.1 v u = T0 v u := by rw [hM v u, if_neg (fun h => hseen h.symm)]
            have hrem : pcRemap c (T0 u v) (T0 v u) = (R u v, R v u) := by
              rcases pairfact u v hu hv huv with h | h
              · exact absurd h.2.1 hz
              · exact h.2.2
            have hstep : pcEncStep c T0 st (u, v) = ((st.1.set u v (R u v)).set v u (R v u), (u, v) :: st.2) := by
              simp [pcEncStep, hz, hs1, hs2, hcur1, hcur2, hrem]
            rw [hstep]
            refine ⟨?_, ?_, ?_⟩
            · intro a b
              simp only [Mat.set_apply, List.mem_cons, Prod.mk.injEq]
              by_cases c1 : a = u ∧ b = v
              · obtain ⟨rfl, rfl⟩ := c1
                have : ¬(a = b ∧ b = a) := fun e => huv e.1
                simp [this]
              · by_cases c2 : a = v ∧ b = u
                · obtain ⟨rfl, rfl⟩ := c2
                  simp
                · have c2' : ¬(b = u ∧ a = v) := fun e => c2 ⟨e.2, e.1⟩
                  simp only [c1, c2, c2', if_false, false_or]
                  exact hM a b
            · intro a b hab
              simp only [List.mem_cons, Prod.mk.injEq] at hab
              rcases hab with ⟨rfl, rfl⟩ | h
              · exact ⟨hu, hv, huv⟩
              · exact hS a b h
            · intro a b hab hnz
              simp only [List.mem_cons, Prod.mk.injEq]
              rcases List.mem_append.1 hab with h | h
              · rcases hD a b h hnz with h' | h'
                · exact Or.inl (Or.inr h')
                · exact Or.inr (Or.inr h')
              · simp at h; exact Or.inl (Or.inl h)
      have := ih (done ++ [(u, v)]) (pcEncStep c T0 st (u, v)) (fun y hy => hmem y (List.mem_cons_of_mem _ hy)) key
      rw [List.append_assoc] at this
      exact this
  have fin := aux (allPairs n) [] (T0, []) (fun _ h => h) ⟨by simp, by simp, by simp⟩
  rw [List.nil_append] at fin
  obtain ⟨fM, fS, fD⟩ := fin
  have hne : c ≠ .admg := by intro e; subst e; simp at hc
  refine ⟨((allPairs n).foldl (pcEncStep c T0) (T0, [])).1, by simp [pcEnc, hne, hmc, T0], ?_⟩
  funext a b
  rw [fM a b]
  by_cases hr : a < n ∧ b < n
  · by_cases hab : a = b
    · subst hab
      rw [if_neg]
      · rw [hdiag a]; simp [R, docMat]
      · intro h; rcases h with h | h <;> exact (fS a a h).2.2 rfl
    · split
      · rfl
      · rename_i hns
        rcases pairfact a b hr.1 hr.2 hab with h | h
        · rw [h.2.1]; exact h.2.2.2.1.symm
        · exact absurd (fD a b (by simpa using mem_allPairs.2 hr) h.1) hns
  · have := hout a b hr
    rw [if_neg]
    · rw [this.1]; exact this.2.symm
    · intro h; rcases h with h | h
      · exact hr ⟨(fS a b h).1, (fS a b h).2.1⟩
      · exact hr ⟨(fS b a h).2.1, (fS b a h).1⟩

end C14
