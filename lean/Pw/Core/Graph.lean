import Pw.Core.Closure
open Closure

/-- mixed graph over Nat-labelled nodes; every layer is a plain edge list.
    `dir`/`circ` hold ordered pairs (u,v) meaning u -> v resp. u -o v (circle mark at v);
    `bi`/`un` hold unordered pairs (either orientation may be stored). -/
structure MG where
  nodes : List Nat
  dir : List (Nat × Nat) := []
  bi  : List (Nat × Nat) := []
  un  : List (Nat × Nat) := []
  circ : List (Nat × Nat) := []
deriving Repr, DecidableEq

namespace MG
def parents (G : MG) (v : Nat) : List Nat := (G.dir.filter (·.2 == v)).map (·.1)
def children (G : MG) (v : Nat) : List Nat := (G.dir.filter (·.1 == v)).map (·.2)
def sym (es : List (Nat × Nat)) (v : Nat) : List Nat :=
  (es.filter (·.1 == v)).map (·.2) ++ (es.filter (·.2 == v)).map (·.1)
def spouses (G : MG) (v : Nat) : List Nat := sym G.bi v
def unbrs (G : MG) (v : Nat) : List Nat := sym G.un v

/-- ancestors of Z (including Z): closure under `parents` -/
def anc (G : MG) (Z : List Nat) : List Nat := closure G.nodes G.parents Z

inductive Mark | tail | head deriving DecidableEq, Repr

/-- there is an edge between a and b whose mark at a is `ma` and at b is `mb` -/
def HasEdge (G : MG) (a b : Nat) (ma mb : Mark) : Prop :=
  (ma = .tail ∧ mb = .head ∧ (a, b) ∈ G.dir) ∨
  (ma = .head ∧ mb = .tail ∧ (b, a) ∈ G.dir) ∨
  (ma = .head ∧ mb = .head ∧ ((a, b) ∈ G.bi ∨ (b, a) ∈ G.bi)) ∨
  (ma = .tail ∧ mb = .tail ∧ ((a, b) ∈ G.un ∨ (b, a) ∈ G.un))

theorem mem_parents {G : MG} {v p : Nat} : p ∈ G.parents v ↔ (p, v) ∈ G.dir := by
  simp only [parents, List.mem_map, List.mem_filter, beq_iff_eq]
  constructor
  · rintro ⟨⟨a, b⟩, ⟨h, rfl⟩, rfl⟩; exact h
  · intro h; exact ⟨(p, v), ⟨h, rfl⟩, rfl⟩

theorem mem_children {G : MG} {v c : Nat} : c ∈ G.children v ↔ (v, c) ∈ G.dir := by
  simp only [children, List.mem_map, List.mem_filter, beq_iff_eq]
  constructor
  · rintro ⟨⟨a, b⟩, ⟨h, rfl⟩, rfl⟩; exact h
  · intro h; exact ⟨(v, c), ⟨h, rfl⟩, rfl⟩

theorem mem_sym {es : List (Nat × Nat)} {v w : Nat} : w ∈ sym es v ↔ ((v, w) ∈ es ∨ (w, v) ∈ es) := by
  simp only [sym, List.mem_append, List.mem_map, List.mem_filter, beq_iff_eq]
  constructor
  · rintro (⟨⟨a, b⟩, ⟨h, rfl⟩, rfl⟩ | ⟨⟨a, b⟩, ⟨h, rfl⟩, rfl⟩)
    · exact Or.inl h
    · exact Or.inr h
  · rintro (h | h)
    · exact Or.inl ⟨(v, w), ⟨h, rfl⟩, rfl⟩
    · exact Or.inr ⟨(w, v), ⟨h, rfl⟩, rfl⟩

/-- well-formed: endpoints of all edges are nodes -/
def WF (G : MG) : Prop :=
  (∀ e ∈ G.dir, e.1 ∈ G.nodes ∧ e.2 ∈ G.nodes) ∧
  (∀ e ∈ G.bi, e.1 ∈ G.nodes ∧ e.2 ∈ G.nodes) ∧
  (∀ e ∈ G.un, e.1 ∈ G.nodes ∧ e.2 ∈ G.nodes)

theorem HasEdge.mem_nodes {G : MG} (h : G.WF) {a b : Nat} {ma mb : Mark} (he : HasEdge G a b ma mb) :
    b ∈ G.nodes := by
  obtain ⟨hd, hb, hu⟩ := h
  rcases he with ⟨_, _, h⟩ | ⟨_, _, h⟩ | ⟨_, _, h | h⟩ | ⟨_, _, h | h⟩
  · exact (hd _ h).2
  · exact (hd _ h).1
  · exact (hb _ h).2
  · exact (hb _ h).1
  · exact (hu _ h).2
  · exact (hu _ h).1
end MG
