import Pw.C02.SubA

/-! # C02: `abs (subgraph g ns) = induced abstract state` -/
namespace C02

theorem foldl_congr_mem {α β} (l : List α) (f g : β → α → β) (h : ∀ b, ∀ a ∈ l, f b a = g b a) (init : β) :
    l.foldl f init = l.foldl g init := by
  induction l generalizing init with
  | nil => rfl
  | cons a l ih =>
    simp only [List.foldl_cons, h init a (by simp)]
    exact ih (fun b a' ha' => h b a' (List.mem_cons_of_mem _ ha')) _

namespace MEG

theorem sub_hits {g : MEG} (hi : g.Inv) {ns : List Nat} {ls : List (Nat × Layer)} {S : AG}
    (hk : S.kind = g.abs.kind) (hls : ∀ t, (g.layer? t).isSome = true → ∃ p ∈ ls, p.1 = t)
    {t : Nat} {L : Layer} (hL : g.layer? t = some L) (x y : Nat) :
    ((subQuads g ns ls).any fun q => S.hit q t x y) = (L.has x y && ns.contains x && ns.contains y) := by
  have hSk : S.kind t = some L.kind := by rw [hk]; simp [abs, hL]
  rw [Bool.eq_iff_iff, List.any_eq_true]
  simp only [Bool.and_eq_true, List.contains_eq_mem, decide_eq_true_eq]
  constructor
  · rintro ⟨q, hq, hh⟩
    obtain ⟨p, _, L', hL', h1, hu, hw, _, a, hadj⟩ := mem_subQuads.1 hq
    simp only [AG.hit, hSk, Bool.and_eq_true, beq_iff_eq] at hh
    have : L' = L := by
      rw [← h1, hh.1, hL] at hL'; exact (Option.some.inj hL').symm
    subst this
    obtain ⟨e, he, _, hs⟩ := Layer.adj_same hadj
    have h3 : same L'.kind (x, y) (q.2.1, q.2.2.1) = true := by rw [same_eq_sameP]; exact hh.2
    have hxy := same_ends h3
    refine ⟨⟨Layer.has_iff.2 ⟨e, he, same_trans hs (by rw [same_symm]; exact h3)⟩, ?_⟩, ?_⟩
    · rcases hxy with ⟨h, _⟩ | ⟨h, _⟩ <;> simp only at h <;> rw [h] <;> assumption
    · rcases hxy with ⟨_, h⟩ | ⟨_, h⟩ <;> simp only at h <;> rw [h] <;> assumption
  · rintro ⟨⟨hh, hx⟩, hy⟩
    obtain ⟨e, he, hs⟩ := Layer.has_iff.1 hh
    obtain ⟨p, hp, hpt⟩ := hls t (by simp [hL])
    have hends := same_ends hs
    have hu : e.1.1 ∈ ns := by rcases hends with ⟨h, _⟩ | ⟨h, _⟩ <;> rw [h] <;> assumption
    have hw : e.1.2 ∈ ns := by rcases hends with ⟨_, h⟩ | ⟨_, h⟩ <;> rw [h] <;> assumption
    refine ⟨(t, e.1.1, e.1.2, []), mem_subQuads.2 ⟨p, hp, L, by rw [hpt]; exact hL, hpt.symm, hu, hw, rfl, e.2, ?_⟩, ?_⟩
    · exact Layer.mem_adj.2 ⟨e, he, rfl, Or.inl ⟨rfl, rfl⟩⟩
    · simp only [AG.hit, hSk, beq_self_eq_true, Bool.true_and]
      rw [← same_eq_sameP, same_symm]; exact hs

/-- **subgraph(nodes) has exactly the given nodes and the edges of every type between them** (same edge
    types and kinds, graph attributes kept, no node or edge attributes) -/
theorem abs_subgraph {g : MEG} (hi : g.Inv) (hk : g.KindOK) (ns : List Nat) :
    (g.subgraph ns).abs = g.abs.subgraphS ns := by
  obtain ⟨hb, ha, _, hkind, hinv⟩ := skeleton_abs hk
  have hi0 : ({ g.skeleton with gattr := Attr.upd [] g.gattr } : MEG).Inv := ⟨hinv.nodup, hinv.names, hinv.sync, hinv.wf⟩
  rw [subgraph_eq]
  simp only
  generalize hG0 : ({ g.skeleton with gattr := Attr.upd [] g.gattr } : MEG) = G0 at hi0
  have hS0 : G0.abs = { g.skeleton.abs with gattr := attrOf (some (Attr.upd [] g.gattr)) } := by
    rw [← hG0]; rfl
  -- stage 1: the given nodes
  have hi1 := hi0.addNodes ns []
  have habs1 : (G0.addNodes ns []).abs = { G0.abs with node := fun x => G0.abs.node x || ns.contains x } := by
    rw [abs_addNodes, foldl_addNodeS_nil]
  have hnodes1 : ∀ x ∈ ns, (G0.addNodes ns []).hasNode x = true := by
    intro x hx; exact hasNode_iff.2 (mem_nodeIds_addNodes.2 (Or.inr hx))
  generalize hG1 : G0.addNodes ns [] = G1 at hi1 habs1 hnodes1
  have hS1kind : G1.abs.kind = g.abs.kind := by rw [habs1, hS0]; exact hkind
  have hS1node : ∀ x, G1.abs.node x = ns.contains x := by
    intro x; rw [habs1, hS0]
    show (g.skeleton.abs.node x || _) = _
    rw [hb.node]; rfl
  have hS1admg : G1.abs.admg = g.admg := by rw [habs1, hS0]; exact ha
  have hS1edge : G1.abs.edge = fun _ _ _ => false := by rw [habs1, hS0]; exact hb.edge
  have hS1nattr : G1.abs.nattr = fun _ => AAttr.empty := by rw [habs1, hS0]; exact hb.nattr
  have hS1eattr : G1.abs.eattr = fun _ _ _ => AAttr.empty := by rw [habs1, hS0]; exact hb.eattr
  have hS1gattr : G1.abs.gattr = attrOf (some (Attr.upd [] g.gattr)) := by rw [habs1, hS0]
  have hls : ∀ t, (g.layer? t).isSome = true → ∃ p ∈ G1.layers, p.1 = t := by
    intro t ht
    have h1 : (G1.abs.kind t).isSome = true := by rw [hS1kind]; simpa [abs] using ht
    rw [abs_kind_isSome] at h1
    simp only [names, List.contains_eq_mem, List.mem_map, decide_eq_true_eq] at h1
    exact h1
  -- stage 2: the induced edges
  have hqns : ∀ q ∈ subQuads g ns G1.layers, q.2.1 ∈ ns ∧ q.2.2.1 ∈ ns := by
    intro q hq
    obtain ⟨_, _, _, _, _, hu, hw, _⟩ := mem_subQuads.1 hq
    exact ⟨hu, hw⟩
  rw [foldl_putDirect _ _ ns hnodes1 hqns]
  obtain ⟨habs2, _⟩ := abs_foldl_step
    ((subQuads g ns G1.layers).map fun q => GOp.addEdge q.2.1 q.2.2.1 (.one q.1) []) hi1
  simp only [List.foldl_map] at habs2
  rw [habs2]
  have hqattr : ∀ q ∈ subQuads g ns G1.layers, q.2.2.2 = [] := by
    intro q hq
    obtain ⟨_, _, _, _, _, _, _, h, _⟩ := mem_subQuads.1 hq
    exact h
  have hfold : (subQuads g ns G1.layers).foldl (fun S q => (S.step (.addEdge q.2.1 q.2.2.1 (.one q.1) [])).1) G1.abs =
      (subQuads g ns G1.layers).foldl (fun S q => (S.step (.addEdge q.2.1 q.2.2.1 (.one q.1) q.2.2.2)).1) G1.abs := by
    apply foldl_congr_mem
    intro S q hq; rw [hqattr q hq]
  rw [hfold]
  have hq : ∀ q ∈ subQuads g ns G1.layers,
      G1.abs.node q.2.1 = true ∧ G1.abs.node q.2.2.1 = true ∧ (G1.abs.kind q.1).isSome = true := by
    intro q hq
    obtain ⟨p, hp, L, hL, h1, hu, hw, _⟩ := mem_subQuads.1 hq
    refine ⟨by rw [hS1node]; simpa using hu, by rw [hS1node]; simpa using hw, ?_⟩
    rw [hS1kind, h1]; simp [abs, hL]
  rw [AG.foldl_step_addEdge _ _ hq]
  obtain ⟨e1, e2, e3, e4, e5, e6, e7⟩ := AG.foldl_putEdge (subQuads g ns G1.layers) G1.abs
  apply AG.ext'
  · rw [e1, hS1admg]; rfl
  · intro v; rw [e2, hS1node]; rfl
  · intro t; rw [e3, hS1kind]; rfl
  · intro t x y
    rw [e6, hS1edge]
    simp only [Bool.false_or, AG.subgraphS]
    rcases Option.eq_none_or_eq_some (g.layer? t) with hL | ⟨L, hL⟩
    · have : g.abs.edge t x y = false := by simp [abs, hL]
      rw [this, Bool.false_and, Bool.false_and, List.any_eq_false]
      intro q _ hh
      have hkn : G1.abs.kind t = none := by rw [hS1kind]; simp [abs, hL]
      simp [AG.hit, hkn] at hh
    · have : g.abs.edge t x y = L.has x y := by simp [abs, hL]
      rw [this]
      exact sub_hits hi hS1kind hls hL x y
  · intro v
    rw [e4, hS1nattr]; rfl
  · intro t x y
    rw [e7, hS1eattr]
    rw [AG.foldl_upd_same (subQuads g ns G1.layers) (fun q => G1.abs.hit q t x y) [] (fun q hq _ => hqattr q hq)]
    simp only [AG.subgraphS, AAttr.upd_nil]
    split <;> rfl
  · rw [e5, hS1gattr]
    show attrOf (some (Attr.upd [] g.gattr)) = attrOf (some g.gattr)
    simp [Attr.upd]

end MEG
end C02
