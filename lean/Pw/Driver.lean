import Pw.C01.Driver
import Pw.C08.Driver
import Pw.C09.Driver
open Proto

/-- all request handlers; each property contributes `CNN.handlers` -/
def handlers : List (String × Handler) :=
  C01.handlers
  ++ C08.handlers
  ++ C09.handlers

def dispatch (line : String) : String :=
  let (fn, args) := parseLine line
  match handlers.lookup fn with
  | some h => h args
  | none => "bad-op"
