"""C15: results do not depend on node names, label types, insertion order or hash seed.

Every algorithm property's adapter (c15_cases / c15_eval / c15_expected in harness/cNN.py) is run on
its own cases under every label family x several insertion orders x several PYTHONHASHSEED values
(sub-processes); each result, mapped back to indices, must equal the label-free Lean model's answer.
The Lean theorems registered for C15 prove the invariance for the models/specs; the hash-seed and
object-identity dimension is runtime behaviour that only this correspondence covers."""
import importlib
import json
import os
import subprocess
import sys

from . import common as C

PID = "C15"
MODULES = ["c01", "c04", "c05", "c06", "c07", "c08", "c09", "c10", "c11", "c12", "c16", "c17", "c18", "c19", "c15x"]


def available():
    mods = []
    for m in MODULES:
        if not os.path.exists(os.path.join(C.VERIF, "harness", m + ".py")):
            continue
        mod = importlib.import_module("harness." + m)
        if all(hasattr(mod, f) for f in ("c15_cases", "c15_eval", "c15_expected")):
            mods.append((m, mod))
    return mods


def run_worker(jobs, hashseed):
    env = dict(os.environ)
    env["PYTHONHASHSEED"] = str(hashseed)
    env["PYTHONPATH"] = C.REPO + os.pathsep + C.VERIF + os.pathsep + env.get("PYTHONPATH", "")
    p = subprocess.run([sys.executable, "-m", "harness.c15_worker"], input=json.dumps({"jobs": jobs}),
                       capture_output=True, text=True, cwd=C.VERIF, env=env)
    if p.returncode != 0:
        raise RuntimeError("c15 worker failed: " + p.stderr[-2000:])
    return json.loads(p.stdout)


def plan(ctx, only=None):
    tier, rng = ctx["tier"], ctx["rng"]
    k = 100 if tier == "quick" else 600
    nseeds = 3 if tier == "quick" else 8
    fams = C.Labels.FAMILIES
    jobs, meta = [], []
    for name, mod in available():
        if only and name != only:
            continue
        cases = mod.c15_cases(rng, k)
        exp = mod.c15_expected(cases)
        for ci, (case, e) in enumerate(zip(cases, exp)):
            for fi, fam in enumerate(fams):
                oseed = rng.randrange(1 << 30)
                jobs.append([name, case, fam, oseed])
                meta.append((name, ci, fam, oseed, e))
    return jobs, meta, nseeds


def run(ctx):
    ev, out = ctx["ev"], ctx["out"]
    jobs, meta, nseeds = plan(ctx)
    ev.rule = ("for each algorithm adapter (%s): random cases from that property's own generator x 5 label families "
               "(small int, large int built at run time, multi-character str built at run time, tuple, frozenset) x a "
               "fresh shuffled node/edge insertion order per evaluation x %d PYTHONHASHSEED values (sub-processes); node "
               "arguments are passed as equal-but-not-identical objects; every result mapped back to indices must equal "
               "the label-free Lean model answer. non-trivial = the case's expected answer is not an error and the "
               "label family is not the small-int family the test-suite already uses" % (
                   ",".join(n for n, _ in available()), nseeds))
    ev.assumptions = ["adapters validate witnesses instead of comparing them",
                      "adapter c15x (public algorithms without a Lean model: proper_possibly_directed_path, all_vstructures, "
                      "is_node_common_cause, set_nodes_as_latent_confounders, is_definite_noncollider, "
                      "single_source_shortest_mixed_path) is purely metamorphic: expected = the implementation's own answer under "
                      "the canonical naming; a TEST of the relation, no theorem behind it",
                      "hash-seed / identity behaviour is covered only by this correspondence (DESIGN.md C15)"]
    seeds = [0] + [ctx["rng"].randrange(1, 1 << 31) for _ in range(nseeds - 1)]
    # split jobs over worker processes per hash seed
    import concurrent.futures as cf
    chunks = []
    for hs in seeds:
        per = max(1, len(jobs) // 5 + 1)
        for i in range(0, len(jobs), per):
            chunks.append((hs, i, jobs[i:i + per]))
    results = {}
    with cf.ThreadPoolExecutor(max_workers=min(16, len(chunks) or 1)) as ex:
        futs = {ex.submit(run_worker, ch[2], ch[0]): ch for ch in chunks}
        for f in cf.as_completed(futs):
            hs, i, js = futs[f]
            res = f.result()
            for j, r in enumerate(res):
                results[(hs, i + j)] = r
    ev.extra["hash_seeds"] = seeds
    ev.extra["adapters"] = [n for n, _ in available()]
    bad = {}
    for (hs, idx), r in sorted(results.items()):
        name, ci, fam, oseed, e = meta[idx]
        case = jobs[idx][1]
        ev.case({"adapter": name, "case": case, "fam": fam, "order_seed": oseed, "hashseed": hs},
                nontrivial=(fam != "int" and not str(e).startswith("err")), sample_every=3000)
        ev.count("adapter:" + name)
        ev.count("fam:" + fam)
        if r != e:
            bad.setdefault(name, []).append((case, fam, oseed, hs, r, e))
    for name, lst in bad.items():
        lst.sort(key=lambda t: len(json.dumps(t[0])))
        case, fam, oseed, hs, r, e = lst[0]
        out.violation({"adapter": name, "case": case, "fam": fam, "order_seed": oseed, "hashseed": hs},
                      {"implementation": r,
                       ("expected_from_canonical_naming(no Lean model)" if name == "c15x" else "expected_from_lean_model"): e,
                       "disagreements_for_adapter": len(lst),
                       "label_families_failing": sorted(set(t[1] for t in lst))})


def replay(ctx, payload):
    c = payload["case"]
    r = run_worker([[c["adapter"], c["case"], c["fam"], c["order_seed"]]], c["hashseed"])[0]
    mod = importlib.import_module("harness." + c["adapter"])
    e = mod.c15_expected([c["case"]])[0]
    print("implementation:", r, " expected:", e)
    print("REPRODUCED" if r != e else "NOT-REPRODUCED")
    return 1 if r != e else 0
