import Pw.C01.Spec
import Pw.C11.Model
open Closure MG

/-! # C11 specification

"minimal_m_separator(G, x, y, I, R) returns None iff no set Z with I ⊆ Z ⊆ R m-separates x and y, and
otherwise returns such a Z none of whose proper subsets that still contain I is a separator.
is_minimal_m_separator(G, x, y, Z, I, R) is True exactly for the sets Z with that property."

Sets are lists read up to membership. -/
namespace C11

/-- Z is an admissible separator: I ⊆ Z ⊆ R and x, y are m-separated given Z (C01's `MSep`) -/
def Sep (G : MG) (x y : Nat) (I R Z : List Nat) : Prop :=
  (∀ i ∈ I, i ∈ Z) ∧ (∀ z ∈ Z, z ∈ R) ∧ MSep G [x] [y] Z

/-- Z is an I-minimal separator: no proper subset that still contains I is a separator -/
def MinSep (G : MG) (x y : Nat) (I R Z : List Nat) : Prop :=
  Sep G x y I R Z ∧
  ∀ Z' : List Nat, (∀ z ∈ Z', z ∈ Z) → (∃ z ∈ Z, z ∉ Z') → ¬ Sep G x y I R Z'

/-- what `minimal_m_separator` must return -/
def MinimalSpec (G : MG) (x y : Nat) (I R : List Nat) : Option (List Nat) → Prop
  | none => ¬ ∃ Z, Sep G x y I R Z
  | some Z => MinSep G x y I R Z

/-! ## brute-force deciders over all subsets, with C01's verified `mSeparated` as the m-separation test -/

/-- all sublists -/
def subl : List Nat → List (List Nat)
  | [] => [[]]
  | a :: l => subl l ++ (subl l).map (a :: ·)

def sepDec (G : MG) (x y : Nat) (I R Z : List Nat) : Bool :=
  subset I Z && subset Z R && mSeparated G [x] [y] Z

def existsSepDec (G : MG) (x y : Nat) (I R : List Nat) : Bool :=
  (subl R).any (sepDec G x y I R)

def minSepDec (G : MG) (x y : Nat) (I R Z : List Nat) : Bool :=
  sepDec G x y I R Z &&
  (subl Z).all fun Z' => subset Z Z' || !sepDec G x y I R Z'

/-- every minimal separator (as a sublist of the duplicate-free `R`) -/
def allMinSeps (G : MG) (x y : Nat) (I R : List Nat) : List (List Nat) :=
  (subl R.eraseDups).filter (minSepDec G x y I R)

end C11
