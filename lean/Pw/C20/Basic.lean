import Pw.C20.Spec

/-! C20 — lemmas about the dict / set primitives and the name generation -/
namespace C20

theorem mem_insertNew [DecidableEq α] {l : List α} {a x : α} : x ∈ insertNew l a ↔ x ∈ l ∨ x = a := by
  unfold insertNew
  split
  · constructor
    · intro h; exact Or.inl h
    · rintro (h | rfl) <;> assumption
  · simp

theorem mem_addAll [DecidableEq α] {as l : List α} {x : α} : x ∈ addAll l as ↔ x ∈ l ∨ x ∈ as := by
  unfold addAll
  induction as generalizing l with
  | nil => simp
  | cons a t ih =>
    simp only [List.foldl_cons, ih, mem_insertNew, List.mem_cons]
    constructor
    · rintro ((h | h) | h)
      · exact Or.inl h
      · exact Or.inr (Or.inl h)
      · exact Or.inr (Or.inr h)
    · rintro (h | h | h)
      · exact Or.inl (Or.inl h)
      · exact Or.inl (Or.inr h)
      · exact Or.inr h

theorem mem_dKeys {d : List (Nat × α)} {k : Nat} : k ∈ dKeys d ↔ ∃ v, (k, v) ∈ d := by
  unfold dKeys
  simp only [List.mem_map]
  constructor
  · rintro ⟨p, hp, rfl⟩; exact ⟨p.2, hp⟩
  · rintro ⟨v, hv⟩; exact ⟨(k, v), hv, rfl⟩

theorem mem_dKeys_of_mem {d : List (Nat × α)} {p : Nat × α} (h : p ∈ d) : p.1 ∈ dKeys d :=
  mem_dKeys.2 ⟨p.2, h⟩

theorem mem_dErase {d : List (Nat × α)} {k : Nat} {p : Nat × α} : p ∈ dErase d k ↔ p ∈ d ∧ p.1 ≠ k := by
  unfold dErase; simp

theorem dKeys_dErase {d : List (Nat × α)} {k k' : Nat} : k' ∈ dKeys (dErase d k) ↔ k' ∈ dKeys d ∧ k' ≠ k := by
  simp only [mem_dKeys, mem_dErase]
  constructor
  · rintro ⟨v, hv, hne⟩; exact ⟨⟨v, hv⟩, hne⟩
  · rintro ⟨⟨v, hv⟩, hne⟩; exact ⟨v, hv, hne⟩

/-- `d[k] = v` for a key that is not in the dict appends the entry -/
theorem dSet_new {d : List (Nat × α)} {k : Nat} {v : α} (h : k ∉ dKeys d) : dSet d k v = d ++ [(k, v)] := by
  unfold dSet; simp [h]

theorem mem_dSet_new {d : List (Nat × α)} {k : Nat} {v : α} (h : k ∉ dKeys d) {p : Nat × α} :
    p ∈ dSet d k v ↔ p ∈ d ∨ p = (k, v) := by
  rw [dSet_new h]; simp

theorem dKeys_dSet {d : List (Nat × α)} {k k' : Nat} {v : α} : k' ∈ dKeys (dSet d k v) ↔ k' ∈ dKeys d ∨ k' = k := by
  unfold dSet
  split
  · rename_i hk
    unfold dKeys
    simp only [List.map_map, List.mem_map, Function.comp]
    constructor
    · rintro ⟨p, hp, rfl⟩
      by_cases h : p.1 = k
      · simp [h]
      · simp only [h, if_false]; exact Or.inl ⟨p, hp, rfl⟩
    · rintro (⟨p, hp, rfl⟩ | rfl)
      · refine ⟨p, hp, ?_⟩
        by_cases h : p.1 = k <;> simp [h]
      · unfold dKeys at hk
        obtain ⟨p, hp, rfl⟩ := List.mem_map.1 hk
        exact ⟨p, hp, by simp⟩
  · unfold dKeys; simp [eq_comm]

theorem mem_fNames {ns : List Node} {k : Nat} : k ∈ fNames ns ↔ Node.f k ∈ ns := by
  unfold fNames
  simp only [List.mem_filterMap]
  constructor
  · rintro ⟨n, hn, h⟩
    cases n <;> simp at h
    subst h; exact hn
  · intro h; exact ⟨_, h, rfl⟩

theorem mem_sNames {ns : List Node} {k : Nat} : k ∈ sNames ns ↔ Node.s k ∈ ns := by
  unfold sNames
  simp only [List.mem_filterMap]
  constructor
  · rintro ⟨n, hn, h⟩
    cases n <;> simp at h
    subst h; exact hn
  · intro h; exact ⟨_, h, rfl⟩

theorem mem_children {v : View} {n : Node} {t : Nat} : t ∈ v.children n ↔ (n, t) ∈ v.aedges := by
  unfold View.children
  simp only [List.mem_filterMap]
  constructor
  · rintro ⟨e, he, h⟩
    by_cases h1 : e.1 = n
    · simp [h1] at h; subst h; subst h1; exact he
    · simp [h1] at h
  · intro h; exact ⟨(n, t), h, by simp⟩

theorem sameSet_iff {a b : List Nat} : sameSet a b = true ↔ (∀ x, x ∈ a ↔ x ∈ b) := by
  unfold sameSet
  simp only [Bool.and_eq_true, List.all_eq_true, decide_eq_true_eq]
  constructor
  · rintro ⟨h1, h2⟩ x; exact ⟨h1 x, h2 x⟩
  · intro h; exact ⟨fun x hx => (h x).1 hx, fun x hx => (h x).2 hx⟩

theorem sameSet_refl (a : List Nat) : sameSet a a = true := sameSet_iff.2 fun _ => Iff.rfl

theorem sameEntry_refl (e : FEntry) : sameEntry e e = true := by
  simp [sameEntry, sameSet_refl]

/-! ### name generation: the loop returns the first index ≥ start that is not used -/

theorem filter_le_length (used : List Nat) (i : Nat) :
    (used.filter (fun x => decide (i ≤ x))).length ≤ used.length := List.length_filter_le _ _

theorem freshAux_spec (used : List Nat) :
    ∀ fuel i, (used.filter (fun x => decide (i ≤ x))).length < fuel →
      freshAux used fuel i ∉ used ∧ i ≤ freshAux used fuel i ∧
      ∀ j, i ≤ j → j < freshAux used fuel i → j ∈ used := by
  intro fuel
  induction fuel with
  | zero => intro i h; omega
  | succ n ih =>
    intro i h
    unfold freshAux
    by_cases hi : i ∈ used
    · rw [if_pos hi]
      have hlt := filter_le_lt used i hi
      obtain ⟨h1, h2, h3⟩ := ih (i + 1) (by omega)
      refine ⟨h1, by omega, fun j hj hj2 => ?_⟩
      by_cases hji : j = i
      · subst hji; exact hi
      · exact h3 j (by omega) hj2
    · rw [if_neg hi]
      exact ⟨hi, Nat.le_refl _, fun j h1 h2 => by omega⟩

/-- exact specification of the repaired naming loop -/
theorem freshIdx_spec (used : List Nat) (i : Nat) :
    freshIdx used i ∉ used ∧ i ≤ freshIdx used i ∧ ∀ j, i ≤ j → j < freshIdx used i → j ∈ used :=
  freshAux_spec used (used.length + 1) i (by have := filter_le_length used i; omega)

theorem freshIdx_not_mem (used : List Nat) (i : Nat) : freshIdx used i ∉ used := (freshIdx_spec used i).1

end C20
