import Pw.C02.Step
import Pw.C02.Frame

/-! # C02: refinement at the level of the store (whole histories) -/
namespace C02

def Store.abs (s : Store) : AStore := s.map MEG.abs

theorem abs_fresh (a : Bool) : (MEG.fresh a).abs = AG.empty a := by
  apply AG.ext'
  · cases a <;> rfl
  · intro v; cases a <;> rfl
  · intro t
    cases a
    · rfl
    · simp only [MEG.abs, MEG.fresh, MEG.layer?, AG.empty, ite_true]
      by_cases h0 : t = 0
      · subst h0; rfl
      · by_cases h1 : t = 1
        · subst h1; rfl
        · by_cases h2 : t = 2
          · subst h2; rfl
          · have e0 : (t == 0) = false := by simpa using h0
            have e1 : (t == 1) = false := by simpa using h1
            have e2 : (t == 2) = false := by simpa using h2
            simp [List.lookup_cons, e0, e1, e2, h0, h1, h2]
  · intro t u v
    cases a
    · rfl
    · simp only [MEG.abs, MEG.fresh, MEG.layer?, AG.empty, ite_true]
      rcases Option.eq_none_or_eq_some (List.lookup t [(0, ({ kind := .dir } : Layer)), (1, { kind := .und }), (2, { kind := .und })])
        with hL | ⟨L, hL⟩ <;> simp only [hL]
      have := mem_of_lookup hL
      simp at this
      rcases this with ⟨_, rfl⟩ | ⟨_, rfl⟩ | ⟨_, rfl⟩ <;> rfl
  · intro v; cases a <;> rfl
  · intro t u v
    cases a
    · rfl
    · simp only [MEG.abs, MEG.fresh, MEG.layer?, AG.empty, ite_true]
      rcases Option.eq_none_or_eq_some (List.lookup t [(0, ({ kind := .dir } : Layer)), (1, { kind := .und }), (2, { kind := .und })])
        with hL | ⟨L, hL⟩ <;> simp only [hL]
      have := mem_of_lookup hL
      simp at this
      rcases this with ⟨_, rfl⟩ | ⟨_, rfl⟩ | ⟨_, rfl⟩ <;> rfl
  · cases a <;> rfl

/-- what is needed of `copy` / `subgraph` for the store refinement -/
structure CopyRefines : Prop where
  copy : ∀ g : MEG, g.Inv → g.copy.abs = g.abs.copyS
  subgraph : ∀ (g : MEG) (ns : List Nat), g.Inv → (g.subgraph ns).abs = g.abs.subgraphS ns

def Op.allocates : Op → Bool
  | .copy _ => true
  | .subgraph _ _ => true
  | _ => false

theorem Store.abs_step_core {s : Store} (hi : s.Inv) (op : Op)
    (hc : CopyRefines ∨ op.allocates = false) :
    (s.step op).1.abs = (s.abs.step op).1 ∧ (s.step op).2 = (s.abs.step op).2 := by
  cases op with
  | new a => simp [Store.step, AStore.step, Store.abs, abs_fresh]
  | on h op =>
    simp only [Store.step, AStore.step, Store.abs, List.getElem?_map]
    cases hg : s[h]? with
    | none => simp
    | some g =>
      have := MEG.abs_step (hi g (List.mem_of_getElem? hg)) op
      simp only [Option.map_some, List.map_set, this.1, this.2, and_self]
  | copy h =>
    simp only [Store.step, AStore.step, Store.abs, List.getElem?_map]
    cases hg : s[h]? with
    | none => simp
    | some g =>
      rcases hc with hc | hc
      · simp [hc.copy g (hi g (List.mem_of_getElem? hg))]
      · simp [Op.allocates] at hc
  | subgraph h ns =>
    simp only [Store.step, AStore.step, Store.abs, List.getElem?_map]
    cases hg : s[h]? with
    | none => simp
    | some g =>
      rcases hc with hc | hc
      · simp [hc.subgraph g ns (hi g (List.mem_of_getElem? hg))]
      · simp [Op.allocates] at hc

/-- **C02 refinement over histories, conditional on the two allocation lemmas**: the model run and
    the abstract run agree step by step (states related by `abs`, same raised/returned flag). -/
theorem Store.run_refines_of (hc : CopyRefines) (ops : List Op) :
    (Store.run [] ops).map (fun r => (r.1.abs, r.2)) = AStore.run [] ops := by
  have : ∀ s : Store, s.Inv → (Store.run s ops).map (fun r => (r.1.abs, r.2)) = AStore.run s.abs ops := by
    induction ops with
    | nil => intro s _; rfl
    | cons op ops ih =>
      intro s hi
      have h := Store.abs_step_core hi op (Or.inl hc)
      simp only [Store.run, AStore.run, List.map_cons, List.cons.injEq]
      refine ⟨Prod.ext h.1 h.2, ?_⟩
      rw [ih _ (hi.step op), h.1]
  exact this [] (by intro g hg; simp at hg)

/-- **C02 refinement over histories (unconditional part)**: for every history of `new` and the twelve
    public mutations on any number of objects (no `copy`/`subgraph`), model and specification agree
    after every step. -/
theorem Store.run_refines_partial (ops : List Op) (hops : ∀ op ∈ ops, op.allocates = false) :
    (Store.run [] ops).map (fun r => (r.1.abs, r.2)) = AStore.run [] ops := by
  have : ∀ s : Store, s.Inv → (Store.run s ops).map (fun r => (r.1.abs, r.2)) = AStore.run s.abs ops := by
    induction ops with
    | nil => intro s _; rfl
    | cons op ops ih =>
      intro s hi
      have h := Store.abs_step_core hi op (Or.inr (hops op (by simp)))
      simp only [Store.run, AStore.run, List.map_cons, List.cons.injEq]
      refine ⟨Prod.ext h.1 h.2, ?_⟩
      rw [ih (fun o ho => hops o (by simp [ho])) _ (hi.step op), h.1]
  exact this [] (by intro g hg; simp at hg)

end C02
