import Pw.C01.Driver
import Pw.C06.Driver
import Pw.C07.Driver
open Proto

/-- all request handlers; each property contributes `CNN.handlers` -/
def handlers : List (String × Handler) :=
  C01.handlers
  ++ C06.handlers
  ++ C07.handlers

def dispatch (line : String) : String :=
  let (fn, args) := parseLine line
  match handlers.lookup fn with
  | some h => h args
  | none => "bad-op"
