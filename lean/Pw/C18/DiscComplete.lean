import Pw.C18.Complete

/-! # C18: completeness of `discriminating_path` (after the fixes) — if a discriminating path
`(v,…,a,u,c)` exists, the search reports one, for every iteration order.  Together with
`discPath_sound` this is `found = True ↔ a discriminating path exists` for the model. -/
namespace C18

theorem inner_explored_mono {cls : Option Nat → Nat → Nat → Cls} (this : Nat) (prev : Option Nat) :
    ∀ (l : List Nat) (s : St) (x : Nat), x ∈ s.explored → x ∈ (inner cls this prev l s).explored := by
  intro l
  induction l with
  | nil => intro s x h; simpa [inner] using h
  | cons next rest ih =>
    intro s x h
    unfold inner
    split
    · exact ih s x h
    · split
      · exact ih s x h
      · exact List.mem_cons_of_mem _ h
      · exact ih _ x (List.mem_cons_of_mem _ h)

theorem loop_explored_mono {cls : Option Nat → Nat → Nat → Cls} {iter : Nat → List Nat} (cont : Bool) :
    ∀ (fuel : Nat) (s : St) (x : Nat), x ∈ s.explored → x ∈ (loop iter cls cont fuel s).explored := by
  intro fuel
  induction fuel with
  | zero => intro s x h; unfold loop; split <;> exact h
  | succ n ih =>
    intro s x h
    unfold loop
    cases hq : s.queue with
    | nil => exact h
    | cons this q =>
      simp only
      have h1 := inner_explored_mono (cls := cls) this (s.desc.lookup this) (iter this) { s with queue := q } x h
      split
      · exact h1
      · exact ih _ x h1

/-- the reconstruction succeeds on a state that satisfies the soundness invariant -/
theorem discFinish_found {G : MG} {u a c : Nat} {s : St}
    (hi : Inv c (DPre G u a c) (DFin G u a c) s) (hf : s.found = true) (hl : s.limit = false) :
    ∃ p, p ≠ [] ∧ discFinish c s = .ok (true, p, s.explored) := by
  unfold discFinish
  rw [if_neg (by simp [hl]), if_pos hf]
  obtain ⟨e, hlast, l, htr, _, _, hlen⟩ := hi.fin hf
  rw [hlast]
  simp only
  rw [recon_of_Tr htr _ [] (by omega)]
  exact ⟨_, by simpa using htr.ne_nil, rfl⟩

theorem hB_of_heads {G : MG} (hS : Simple G) {y z : Nat} (h1 : headAt G z y = true) (h2 : headAt G y z = true) :
    hB G z y = true := by
  rw [headAt_eq] at h1 h2
  obtain ⟨hb, _, hd, _⟩ := hS z y
  rw [hB_comm G y z] at h2
  revert h1 h2 hb hd
  cases hD G z y <;> cases hD G y z <;> cases hB G z y <;> simp

theorem isParent_of_parentOf {G : MG} (hS : Simple G) {y c : Nat} (h : parentOf G y c = true) :
    isParent G c y = true := by
  obtain ⟨_, hu, _, _⟩ := hS y c
  unfold parentOf mark at h
  unfold isParent possParent
  rw [hB_comm G c y, hU_comm G c y] at h
  revert h hu
  cases hD G y c <;> cases hD G c y <;> cases hB G y c <;> cases hU G y c <;> cases hC G c y <;>
    cases hC G y c <;> simp

theorem possParent_of_hD {G : MG} (hS : Simple G) {w v : Nat} (h : hD G v w = true) :
    possParent G w v = true := by
  obtain ⟨hb, hu, hd, _⟩ := hS v w
  unfold possParent
  revert hb hu hd
  rw [h]
  cases hD G w v <;> cases hB G v w <;> cases hU G v w <;> simp

theorem innerColl_last (G : MG) (par : Nat → Bool) (a u : Nat) : ∀ (l : List Nat) (x : Nat),
    l.getLast? = some a → innerColl G par (x :: l ++ [u]) = true → par a = true ∧ headAt G u a = true := by
  intro l
  induction l with
  | nil => intro x h; cases h
  | cons y t ih =>
    intro x hl hic
    cases t with
    | nil =>
      simp at hl; subst hl
      simp only [List.cons_append, List.nil_append, innerColl, Bool.and_eq_true] at hic
      exact ⟨hic.1.2, hic.1.1.2⟩
    | cons z t' =>
      have hl' : (z :: t').getLast? = some a := by rw [List.getLast?_cons_cons] at hl; exact hl
      simp only [List.cons_append, innerColl, Bool.and_eq_true] at hic
      exact ih y hl' (by simpa using hic.2)

theorem hD_of_parentOf {G : MG} (hS : Simple G) {y c : Nat} (h : parentOf G y c = true) :
    hD G y c = true ∧ hC G c y = false := by
  have := isParent_of_parentOf hS h
  unfold isParent at this
  simp only [Bool.and_eq_true, Bool.not_eq_true'] at this
  exact ⟨this.2, this.1.2⟩

theorem discIter_nodes {G : MG} (hW : WFG G) {nb bnb : Nat → List Nat}
    (hnb : ∀ x y, y ∈ nb x ↔ adj G x y = true) (hbnb : ∀ x y, y ∈ bnb x ↔ hB G x y = true)
    (x y : Nat) (h : y ∈ discIter G nb bnb x) : y ∈ G.nodes := by
  unfold discIter at h
  simp only [List.mem_append, List.mem_filter] at h
  rcases h with (h | h) | h
  · exact (hW x y ((hnb x y).mp h.1)).2
  · exact (hW x y ((hnb x y).mp h.1.1)).2
  · have : adj G x y = true := by
      unfold adj; rw [(hbnb x y).mp h]; simp
    exact (hW x y this).2

/-- completeness for a general parent test `par` that implies "parent of c" away from `a` and
    "arrowhead at c" at `a` (instances: the specification's test and the code's weaker one) -/
theorem discPath_complete_gen (G : MG) (hS : Simple G) (hW : WFG G) (nb bnb : Nat → List Nat)
    (hnb : ∀ x y, y ∈ nb x ↔ adj G x y = true) (hbnb : ∀ x y, y ∈ bnb x ↔ hB G x y = true)
    (u a c maxLen : Nat) (hlen : G.nodes.length < maxLen) (par : Nat → Bool)
    (hpar : ∀ y, y ≠ a → par y = true → parentOf G y c = true) (hpara : par a = true → hD G a c = true)
    (hex : ∃ p, DiscPathP G par u a c p) :
    par a = true ∧ ∃ p ex, p ≠ [] ∧ discPath G nb bnb u a c maxLen = .ok (true, p, ex) := by
  obtain ⟨p0, hp0⟩ := hex
  obtain ⟨h4, hnd, hlast, hlast2, hlast3, hch, hin, hvc⟩ := hp0
  -- decompose p0 = v :: (ws ++ [a]) ++ [u] ++ [c]
  obtain ⟨p1, rfl⟩ := List.getLast?_eq_some_iff.mp hlast
  rw [List.dropLast_concat] at hlast2 hlast3 hin
  obtain ⟨p2, rfl⟩ := List.getLast?_eq_some_iff.mp hlast2
  rw [List.dropLast_concat] at hlast3
  obtain ⟨p3, rfl⟩ := List.getLast?_eq_some_iff.mp hlast3
  cases p3 with
  | nil => simp at h4
  | cons v ws =>
  have hvc' : adj G v c = false := hvc v rfl
  -- adjacency of u and c
  have huc : adj G u c = true := by
    rw [chainB_append_singleton] at hch
    simp only [Bool.and_eq_true] at hch
    have := hch.2
    rw [glc] at this; exact this
  -- distinctness facts
  obtain ⟨hn1, _, hc_ne⟩ := List.nodup_append.mp hnd
  obtain ⟨hn2, _, hu_ne⟩ := List.nodup_append.mp hn1
  have hv_notin : v ∉ ws ++ [a] := by
    have := hn2; rw [List.cons_append, List.nodup_cons] at this; exact this.1
  -- facts along the inner nodes, by induction on the path-order list l = ws ++ [a]
  have key : ∀ (D : List Nat) (s : St), InvC (discCls G c) (discIter G nb bnb) [u, c] [a] D s →
      s.queue = [] → a ∈ s.explored →
      ∀ (l : List Nat) (x : Nat), l.getLast? = some a → l.Nodup →
        innerColl G par (x :: l ++ [u]) = true →
        (∀ w ∈ l, w ≠ u ∧ w ≠ c) →
        (∀ w ∈ l, w ∈ D) ∧ (∀ w, l.head? = some w → headAt G x w = true) ∧
          hD G a c = true ∧ headAt G u a = true := by
    intro D s hi hq0 hae l
    induction l with
    | nil => intro x h; cases h
    | cons y t ih =>
      intro x hl hlnd hic hne
      cases t with
      | nil =>
        simp at hl; subst hl
        simp only [List.cons_append, List.nil_append, innerColl, Bool.and_eq_true] at hic
        have haD : y ∈ D := by
          rcases hi.prov y hae with h | h | h
          · simp at h; exact absurd h (by have := hne y (by simp); exact fun e => e.elim this.1 this.2)
          · rw [hq0] at h; cases h
          · exact h
        refine ⟨by intro w hw; simp at hw; subst hw; exact haD, ?_, ?_, hic.1.1.2⟩
        · intro w hw; simp at hw; subst hw; exact hic.1.1.1
        · exact hpara hic.1.2
      | cons z t' =>
        have hl' : (z :: t').getLast? = some a := by rw [List.getLast?_cons_cons] at hl; exact hl
        simp only [List.cons_append, innerColl, Bool.and_eq_true] at hic
        obtain ⟨⟨⟨hxy, hzy⟩, hpy⟩, hrest⟩ := hic
        obtain ⟨hD', hhead, hac, hua⟩ := ih y hl' (List.nodup_cons.mp hlnd).2 (by simpa using hrest)
          (fun w hw => hne w (List.mem_cons_of_mem _ hw))
        have hya : y ≠ a := by
          intro e; subst e
          exact (List.nodup_cons.mp hlnd).1 (List.mem_of_getLast? hl')
        have hyz : headAt G y z = true := hhead z rfl
        have hb : hB G z y = true := hB_of_heads hS hzy hyz
        have hpar : isParent G c y = true := isParent_of_parentOf hS (hpar y hya hpy)
        have hzD : z ∈ D := hD' z (by simp)
        have hyit : y ∈ discIter G nb bnb z := by
          unfold discIter; simp only [List.mem_append]; right; exact (hbnb z y).mpr hb
        have hcls : discCls G c (s.desc.lookup z) z y = .push := by
          unfold discCls
          have hady : adj G y c = true := isParent_adj hpar
          simp [hb, hady, hpar]
        have hyD : y ∈ D := by
          rcases hi.closed z hzD y hyit with h | h
          · rcases hi.prov y h with h | h | h
            · simp at h; have := hne y (by simp); exact absurd h (fun e => e.elim this.1 this.2)
            · rw [hq0] at h; cases h
            · exact h
          · rw [hcls] at h; cases h
        refine ⟨?_, ?_, hac, hua⟩
        · intro w hw
          rcases List.mem_cons.mp hw with rfl | hw
          · exact hyD
          · exact hD' w hw
        · intro w hw; simp at hw; subst hw; exact hxy
  have hl_last : (ws ++ [a]).getLast? = some a := glc ws a
  have hne_l : ∀ w ∈ ws ++ [a], w ≠ u ∧ w ≠ c := by
    intro w hw
    have hwA : w ∈ v :: ws ++ [a] := by
      rcases List.mem_append.mp hw with h | h
      · simp [h]
      · simp at h; simp [h]
    exact ⟨hu_ne w hwA u (by simp), hc_ne w (List.mem_append_left _ hwA) c (by simp)⟩
  have hvu : v ≠ u := hu_ne v (by simp) u (by simp)
  have hvc_ne : v ≠ c := hc_ne v (by simp) c (by simp)
  have hva : v ≠ a := fun e => hv_notin (by simp [e])
  have hin' : innerColl G par (v :: (ws ++ [a]) ++ [u]) = true := by
    simpa using hin
  obtain ⟨hpa, hua⟩ := innerColl_last G _ a u (ws ++ [a]) v hl_last hin'
  have hac : hD G a c = true := hpara hpa
  have hl_nd : (ws ++ [a]).Nodup := by
    have := hn2; rw [List.cons_append, List.nodup_cons] at this; exact this.2
  refine ⟨hpa, ?_⟩
  -- the entry tests pass
  have hentry : discEntry G u a c = true := by
    rw [headAt_eq, hB_comm G u a] at hua
    unfold discEntry
    rw [huc, hac]
    revert hua; cases hD G u a <;> cases hB G a u <;> simp
  have hres : discPath G nb bnb u a c maxLen =
      discFinish c (loop (discIter G nb bnb) (discCls G c) false maxLen (discInit u a c)) := by
    unfold discPath; rw [hentry]; simp
  -- soundness invariant, no limit, closedness
  have hi := loop_inv (disc_hpush G u a c) (disc_hfin G u a c) (discIter G nb bnb) false maxLen _
    (discInit_inv hS hentry)
  have ha_nodes : a ∈ G.nodes := (hW a c (by unfold adj; rw [hac]; simp)).1
  have hlim : (loop (discIter G nb bnb) (discCls G c) false maxLen (discInit u a c)).limit = false := by
    refine loop_no_limit_aux (U := G.nodes) (discIter G nb bnb) false (discIter_nodes hW hnb hbnb) maxLen _ rfl ?_
    have : G.nodes.countP (fun x => decide (x ∉ (discInit u a c).explored)) < G.nodes.countP (fun _ => true) := by
      refine Closure.countP_lt' _ _ (by intro _ _; rfl) G.nodes a ha_nodes rfl ?_
      simp [discInit]
    rw [List.countP_true] at this
    simp only [meas, discInit, List.length_cons, List.length_nil] at this ⊢
    omega
  have hend := loop_end (cls := discCls G c) (iter := discIter G nb bnb) false maxLen (discInit u a c)
  have hC0 : InvC (discCls G c) (discIter G nb bnb) [u, c] [a] [] (discInit u a c) := by
    refine ⟨?_, (by intro x hx; cases hx), ?_, ?_⟩
    · intro x hx
      simp [discInit] at hx ⊢
      rcases hx with h | h | h
      · exact Or.inr h
      · exact Or.inl (Or.inl h)
      · exact Or.inl (Or.inr h)
    · intro x hx; left; simpa [discInit] using hx
    · intro x hx; simp [discInit] at hx ⊢; simp [hx]
  have hcl := loop_invC (cls := discCls G c) (iter := discIter G nb bnb) (init := [u, c]) (initQ := [a])
    false maxLen (discInit u a c) [] hC0
  have hae := loop_explored_mono (cls := discCls G c) (iter := discIter G nb bnb) false maxLen
    (discInit u a c) a (by simp [discInit])
  generalize loop (discIter G nb bnb) (discCls G c) false maxLen (discInit u a c) = s at hres hi hlim hend hcl hae
  -- it suffices that something was found
  have hfound : s.found = true := by
    rcases hcl with h | ⟨D, hDv⟩
    · exact h
    · cases hfd : s.found with
      | true => rfl
      | false =>
        exfalso
        have hq0 : s.queue = [] := by
          simp only at hend
          rcases hend with h | h | h
          · rw [hlim] at h; cases h
          · exact h
          · rw [hfd] at h; cases h.2
        obtain ⟨hallD, hhead, _, _⟩ := key D s hDv hq0 hae (ws ++ [a]) v hl_last hl_nd hin' hne_l
        -- the first inner node w and the far end v
        cases hw : (ws ++ [a]).head? with
        | none => simp at hw
        | some w =>
          have hwmem : w ∈ ws ++ [a] := List.mem_of_mem_head? hw
          have hwD : w ∈ D := hallD w hwmem
          have hvw : headAt G v w = true := hhead w hw
          rw [headAt_eq] at hvw
          have hvit : v ∈ discIter G nb bnb w := by
            unfold discIter
            simp only [List.mem_append, List.mem_filter]
            cases hd : hD G v w with
            | true =>
              left; left
              refine ⟨(hnb w v).mpr ?_, possParent_of_hD hS hd⟩
              rw [adj_comm]; unfold adj; rw [hd]; simp
            | false =>
              right
              rw [hd] at hvw
              exact (hbnb w v).mpr (by rw [hB_comm]; simpa using hvw)
          have hcls : discCls G c (s.desc.lookup w) w v = .fin := by
            unfold discCls
            have h1 : (hD G v w || hB G w v) = true := by rw [hB_comm G w v]; exact hvw
            simp [h1, hvc', hvc_ne]
          rcases hDv.closed w hwD v hvit with h | h
          · rcases hDv.prov v h with h | h | h
            · simp at h; exact h.elim hvu hvc_ne
            · rw [hq0] at h; cases h
            · rcases hDv.pushP v (Or.inr h) with h | ⟨y, _, _, hy⟩
              · simp at h; exact hva h
              · obtain ⟨_, _, hp⟩ := discCls_cases hy (by simp)
                have := isParent_adj (hp rfl).1
                rw [hvc'] at this; cases this
          · rw [hcls] at h; cases h
  obtain ⟨p, hpne, hp⟩ := discFinish_found hi hfound hlim
  rw [← hres] at hp
  exact ⟨p, _, hpne, hp⟩

/-- **Completeness of `discriminating_path`.**  On every graph of the domain (one edge kind per
    pair, edges join nodes, fewer nodes than the pop limit), for every iteration order of the
    neighbour sets and of the bidirected layer, and all u, a, c: if a discriminating path
    `(v,…,a,u,c)` exists, the model returns `found = True` together with a discriminating path. -/
theorem discPath_complete (G : MG) (hS : Simple G) (hW : WFG G) (nb bnb : Nat → List Nat)
    (hnb : ∀ x y, y ∈ nb x ↔ adj G x y = true) (hbnb : ∀ x y, y ∈ bnb x ↔ hB G x y = true)
    (u a c maxLen : Nat) (hlen : G.nodes.length < maxLen) (hex : ∃ p, DiscPath G u a c p) :
    ∃ p ex, discPath G nb bnb u a c maxLen = .ok (true, p, ex) ∧ DiscPath G u a c p := by
  obtain ⟨hpa, p, ex, hpne, hp⟩ := discPath_complete_gen G hS hW nb bnb hnb hbnb u a c maxLen hlen
    (fun y => parentOf G y c) (fun _ _ h => h) (fun h => (hD_of_parentOf hS h).1) hex
  exact ⟨p, ex, hp, discPath_sound G hS nb bnb u a c maxLen p ex hp hpne (hD_of_parentOf hS hpa).2⟩

/-- **the model of `discriminating_path` decides exactly the weak specification** (no side
    condition): found ⇔ a path exists that satisfies every clause of the property with "a is a parent
    of c" weakened to "the edge a *-* c has an arrowhead at c".  This is the precise content of the
    known finding `C18-disc-a-possible-parent`. -/
theorem discPath_found_iff_weak (G : MG) (hS : Simple G) (hW : WFG G) (nb bnb : Nat → List Nat)
    (hnb : ∀ x y, y ∈ nb x ↔ adj G x y = true) (hbnb : ∀ x y, y ∈ bnb x ↔ hB G x y = true)
    (u a c maxLen : Nat) (hlen : G.nodes.length < maxLen) :
    (∃ p ex, p ≠ [] ∧ discPath G nb bnb u a c maxLen = .ok (true, p, ex)) ↔ ∃ p, DiscPathWeak G u a c p := by
  constructor
  · rintro ⟨p, ex, hp, h⟩
    exact ⟨p, discPath_sound_weak G hS nb bnb u a c maxLen p ex h hp⟩
  · intro hex
    refine (discPath_complete_gen G hS hW nb bnb hnb hbnb u a c maxLen hlen
      (fun y => parentOf G y c || (y == a && hD G y c)) ?_ ?_ hex).2
    · intro y hya h
      simp only [Bool.or_eq_true, Bool.and_eq_true, beq_iff_eq] at h
      rcases h with h | ⟨h, _⟩
      · exact h
      · exact absurd h hya
    · intro h
      simp only [Bool.or_eq_true, Bool.and_eq_true, beq_iff_eq] at h
      rcases h with h | ⟨_, h⟩
      · exact (hD_of_parentOf hS h).1
      · exact h

/-- **`discriminating_path`: found ⇔ a discriminating path exists** (model = spec), outside the known
    finding (`a o-> c`): for every graph of the domain, all iteration orders and all node triples. -/
theorem discPath_found_iff (G : MG) (hS : Simple G) (hW : WFG G) (nb bnb : Nat → List Nat)
    (hnb : ∀ x y, y ∈ nb x ↔ adj G x y = true) (hbnb : ∀ x y, y ∈ bnb x ↔ hB G x y = true)
    (u a c maxLen : Nat) (hlen : G.nodes.length < maxLen) (hcirc : hC G c a = false) :
    (∃ p ex, p ≠ [] ∧ discPath G nb bnb u a c maxLen = .ok (true, p, ex)) ↔ ∃ p, DiscPath G u a c p := by
  constructor
  · rintro ⟨p, ex, hp, h⟩
    exact ⟨p, discPath_sound G hS nb bnb u a c maxLen p ex h hp hcirc⟩
  · intro hex
    obtain ⟨p, ex, h, hd⟩ := discPath_complete G hS hW nb bnb hnb hbnb u a c maxLen hlen hex
    refine ⟨p, ex, ?_, h⟩
    intro e; subst e; have := hd.1; simp at this

end C18
