import Pw.C09.Cond

/-! # C09: the full statement and the proved part -/
namespace C09
open MG C08

/-- **C09, full statement.** -/
def C09_full : Prop :=
  (∀ (P : MG) (inner : List Nat), inner.Nodup → Structural P (pagToMag P inner)) ∧
  (∀ (M0 P : MG) (inner : List Nat), IsMAG M0 → IsPagOf M0 P → inner.Nodup →
      (∀ v ∈ P.nodes, v ∈ inner) →
      FirstClause P (pagToMag P inner) ∧ SecondClause M0 (pagToMag P inner))

/-- the proved part: the structural clauses, for every input -/
theorem C09_structural_partial :
    ∀ (P : MG) (inner : List Nat), inner.Nodup → Structural P (pagToMag P inner) :=
  pagToMag_structural

/-- C09 in full from its class clause (Zhang 2008, Theorem 2 applied to the orientation produced by
    the loop – see `pagToMag_circle_component_of_T3` for the part of the premise that is proved) -/
theorem C09_full_of_class
    (hclass : ∀ (M0 P : MG) (inner : List Nat), IsMAG M0 → IsPagOf M0 P → inner.Nodup →
      (∀ v ∈ P.nodes, v ∈ inner) →
      FirstClause P (pagToMag P inner) ∧ SecondClause M0 (pagToMag P inner)) : C09_full :=
  ⟨C09_structural_partial, hclass⟩

end C09
