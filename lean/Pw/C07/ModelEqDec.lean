import Pw.C07.Full
import Pw.C07.DecProofs
import Pw.C06.DecProofs
open Closure

/-! # model = run-time oracle, for all inputs (corollaries)

The differential harness compares the implementation both with the model and with the definitional
decider; these corollaries say the two Lean sides can never disagree. -/
namespace C07
open MG C06

variable {G : MG}

theorem bool_eq_of_iff {a b : Bool} (h : a = true ↔ b = true) : a = b := by
  cases a <;> cases b <;> simp_all

/-- the model of `valid_mag` and the all-subsets decider of the definition agree on every graph
    without self loops -/
theorem validMag_eq_validMagDec (hwf : G.WF) (hcirc : G.circ = []) (hsl : NoSelfLoop G) :
    validMag G = validMagDec G :=
  bool_eq_of_iff ((validMag_iff_ValidMAG hwf hcirc hsl).trans (validMagDec_iff hwf hsl).symm)

theorem isMaximal_eq_maximalDec (hwf : G.WF) (hun : G.un = []) (hcirc : G.circ = [])
    (no2 : ∀ a b, (a, b) ∈ G.dir → (b, a) ∉ G.dir) (hsl : NoSelfLoop G) :
    isMaximal G = .ok (maximalDec G) := by
  obtain ⟨b, hb, h⟩ := isMaximal_iff_Maximal hwf hun hcirc no2 hsl
  rw [hb, bool_eq_of_iff (h.trans (maximalDec_iff hwf hun hsl).symm)]

end C07

namespace C06
open MG

/-- the model of `inducing_path(...)[0]` and the brute-force decider agree inside the quantifier -/
theorem hasInd_eq_inducingDec {G : MG} {L S : List Nat} {x y : Nat} (dom : Dom G L S x y)
    (hS : ∀ s ∈ S, s ∈ G.nodes) : hasInd G L S x y = inducingDec G L S x y := by
  apply C07.bool_eq_of_iff
  rw [hasInd_iff dom, inducingDec_iff dom.wf]
  intro z hz
  simp only [List.mem_cons] at hz
  rcases hz with rfl | rfl | hz
  · exact dom.hx
  · exact dom.hy
  · exact hS z hz

end C06
