import Pw.C01.Full
open Closure

/-! Acyclicity guard of `m_separated` (`nx.is_directed_acyclic_graph` on the directed layer). -/
namespace MG

/-- some node is reachable from one of its own children -/
def hasCycle (G : MG) : Bool :=
  G.nodes.any fun v => decide (v ∈ closure G.nodes G.children (G.children v))

/-- the model including the guard: `error` iff the directed layer is cyclic -/
def mSeparatedE (G : MG) (X Y Z : List Nat) : Except String Bool :=
  if hasCycle G then .error "cyclic" else .ok (mSeparated G X Y Z)

theorem reach_children_anc {G : MG} {a b : Nat} (h : Reach G.nodes G.children a b) : Anc G a b := by
  induction h with
  | refl => exact Anc.refl _
  | tail _ s ih => exact ih.tail (mem_children.mp s.1)

theorem anc_reach_children {G : MG} (hwf : G.WF) {a b : Nat} (h : Anc G a b) :
    Reach G.nodes G.children a b := by
  induction h with
  | refl => exact Reach.refl _
  | step e _ ih => exact Reach.head ⟨mem_children.mpr e, (hwf.1 _ e).2⟩ ih

theorem hasCycle_false_iff (G : MG) (hwf : G.WF) : hasCycle G = false ↔ Acyclic G := by
  unfold hasCycle Acyclic
  rw [List.any_eq_false]
  constructor
  · intro h a b hab hba
    apply h a (hwf.1 _ hab).1
    simp only [decide_eq_true_eq]
    rw [mem_closure]
    exact ⟨b, mem_children.mpr hab, (hwf.1 _ hab).2, anc_reach_children hwf hba⟩
  · intro h v _ hv
    simp only [decide_eq_true_eq] at hv
    rw [mem_closure] at hv
    obtain ⟨c, hc, _, hr⟩ := hv
    exact h v c (mem_children.mp hc) (reach_children_anc hr)

/-- **C01 with guard.** The guarded model returns a value exactly on acyclic directed layers, and the
    value is the path-level m-separation relation. -/
theorem mSeparatedE_spec (G : MG) (hwf : G.WF) (hb : NoUndirAtHead G) (hsl : NoSelfLoop G)
    (X Y Z : List Nat) (hX : ∀ x ∈ X, x ∈ G.nodes) (hZ : ∀ z ∈ Z, z ∈ G.nodes)
    (hXZ : ∀ x ∈ X, x ∉ Z) (b : Bool) :
    mSeparatedE G X Y Z = .ok b ↔ (Acyclic G ∧ (b = true ↔ MSep G X Y Z)) := by
  unfold mSeparatedE
  cases hc : hasCycle G with
  | true =>
    simp only [if_true]
    constructor
    · intro h; cases h
    · rintro ⟨ha, _⟩
      rw [← hasCycle_false_iff G hwf, hc] at ha; cases ha
  | false =>
    have hac := (hasCycle_false_iff G hwf).mp hc
    simp only [Bool.false_eq_true, if_false, Except.ok.injEq]
    rw [← mSeparated_iff_MSep G hwf hb hsl X Y Z hX hZ hXZ]
    constructor
    · rintro rfl; exact ⟨hac, Iff.rfl⟩
    · rintro ⟨_, h⟩
      cases b <;> cases hm : mSeparated G X Y Z <;> simp_all

end MG
