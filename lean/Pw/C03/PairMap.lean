/-! C03 — a graph as a finite map  unordered pair ↦ pair state.

`g a b` is meaningful for `a < b` only and holds the marks of {a,b} *relative to (a,b)*.
`rd g u v` reads the marks relative to the ordered pair (u,v) the caller names, `wr` writes them
back.  An operation that names (u,v) goes through `rd`/`wr` and therefore touches exactly one key
(`wr_other`). -/
namespace C03

class PairState (σ : Type) where
  swap : σ → σ
  swap_swap : ∀ s, swap (swap s) = s
  empty : σ
  swap_empty : swap empty = empty

def PairMap (σ : Type) := Nat → Nat → σ

namespace PairMap
variable {σ : Type} [PairState σ]
open PairState

def emp : PairMap σ := fun _ _ => empty

def rd (g : PairMap σ) (u v : Nat) : σ := if u < v then g u v else swap (g v u)

def wr (g : PairMap σ) (u v : Nat) (s : σ) : PairMap σ := fun a b =>
  if u < v then (if a = u ∧ b = v then s else g a b)
  else (if a = v ∧ b = u then swap s else g a b)

/-- the stored key of the pair named (u,v) -/
def key (u v : Nat) : Nat × Nat := if u < v then (u, v) else (v, u)

theorem wr_key (g : PairMap σ) (u v : Nat) (s : σ) :
    wr g u v s (key u v).1 (key u v).2 = if u < v then s else swap s := by
  unfold wr key; split <;> simp

/-- an operation touches only the pair it names -/
theorem wr_other (g : PairMap σ) (u v : Nat) (s : σ) (a b : Nat) (h : (a, b) ≠ key u v) :
    wr g u v s a b = g a b := by
  unfold wr; unfold key at h
  split
  · rename_i huv; simp only [huv, if_true] at h
    have : ¬ (a = u ∧ b = v) := fun ⟨h1, h2⟩ => h (by rw [h1, h2])
    simp [this]
  · rename_i huv; simp only [huv, if_false] at h
    have : ¬ (a = v ∧ b = u) := fun ⟨h1, h2⟩ => h (by rw [h1, h2])
    simp [this]

theorem rd_wr (g : PairMap σ) (u v : Nat) (s : σ) : rd (wr g u v s) u v = s := by
  unfold rd wr
  by_cases huv : u < v
  · simp [huv]
  · simp [huv, swap_swap]

theorem rd_emp (u v : Nat) : rd (emp : PairMap σ) u v = empty := by
  unfold rd emp; split <;> simp [swap_empty]

/-- graph-level invariant: every stored pair satisfies `P` -/
def All (P : σ → Prop) (g : PairMap σ) : Prop := ∀ a b, a < b → P (g a b)

theorem All.rd {P : σ → Prop} (hsw : ∀ s, P s → P (swap s)) {g : PairMap σ} (h : All P g)
    (u v : Nat) (huv : u ≠ v) : P (rd g u v) := by
  unfold PairMap.rd
  by_cases hlt : u < v
  · simpa [hlt] using h u v hlt
  · have : v < u := by omega
    simpa [hlt] using hsw _ (h v u this)

theorem All.wr {P : σ → Prop} (hsw : ∀ s, P s → P (swap s)) {g : PairMap σ} (h : All P g)
    (u v : Nat) (s : σ) (hs : P s) : All P (wr g u v s) := by
  intro a b hab
  unfold PairMap.wr
  by_cases hlt : u < v
  · simp only [hlt, if_true]; split
    · exact hs
    · exact h a b hab
  · simp only [hlt, if_false]; split
    · exact hsw _ hs
    · exact h a b hab

theorem All.emp {P : σ → Prop} (h0 : P (empty : σ)) : All P (emp : PairMap σ) := fun _ _ _ => h0

end PairMap
end C03
