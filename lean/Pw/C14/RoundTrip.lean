import Pw.C14.Encode

/-! # C14 — round trips for whole graphs / matrices of every size -/
namespace C14
set_option linter.unusedSimpArgs false

/-- `g` is a graph on the nodes `0..n-1` without self loops -/
structure GraphOK (g : MG) (n : Nat) : Prop where
  nodes : g.nodes = List.range n
  diag : ∀ a, bits g a a = PB.empty
  range : ∀ a b, ¬(a < n ∧ b < n) → bits g a b = PB.empty

/-- same nodes, identical edges of every type -/
def Same (g h : MG) : Prop := h.nodes = g.nodes ∧ ∀ a b, bits h a b = bits g a b

theorem Decodes.same {g h : MG} {n : Nat} (hd : Decodes h n (bits g)) (hok : GraphOK g n) : Same g h := by
  obtain ⟨h1, h2, h3, h4⟩ := hd
  refine ⟨h1.trans hok.nodes.symm, ?_⟩
  intro a b
  by_cases hr : a < n ∧ b < n
  · by_cases hab : a = b
    · subst hab; rw [h3 a, hok.diag a]
    · exact h2 a b hr.1 hr.2 hab
  · rw [h4 a b hr, hok.range a b hr]

theorem Decodes.graphOK {h : MG} {n : Nat} {T : Nat → Nat → PB} (hd : Decodes h n T) : GraphOK h n :=
  ⟨hd.1, hd.2.2.1, hd.2.2.2⟩

theorem InDom.denotes {c f g n} (hg : InDom c f g n) : Denotes c f (docMat c f g n) n (bits g) :=
  ⟨fun a _ => by simp [docMat], fun a b ha hb hab => hg.cells ha hb hab⟩

theorem Decodes.inDom {c f A n T} {h : MG} (hd : Decodes h n T) (hT : Denotes c f A n T) : InDom c f h n := by
  intro a b ha hb hab
  exact ⟨A a b, A b a, by rw [hd.2.1 a b ha hb hab]; exact hT.2 a b ha hb hab⟩

theorem Decodes.docMat {c f A n T} {h : MG} (hd : Decodes h n T) (hT : Denotes c f A n T) :
    ∀ a b, a < n → b < n → docMat c f h n a b = A a b := by
  intro a b ha hb
  by_cases hab : a = b
  · subst hab; simp [C14.docMat, hT.1 a ha]
  · have := cellOf_tableZ c (mem_allCls c) f (mem_fmts f) _ (hT.2 a b ha hb hab)
    simp only [C14.docMat, ha, hb, hab, ne_eq, not_false_eq_true, and_self, if_true, hd.2.1 a b ha hb hab, this]

/-! ## export ∘ import = id, import ∘ export = id  (every class, every size) -/

/-- causal-learn: writing a graph of the domain and reading the matrix back reproduces the graph -/
theorem clearn_export_import (c : Cls) (g : MG) (n : Nat) (hok : GraphOK g n) (hg : InDom c .clearn g n) :
    ∃ m h, clEnc c g n = some m ∧ clDec c m n = some h ∧ Same g h := by
  obtain ⟨m, hm, rfl⟩ := clEnc_spec c g n hg
  obtain ⟨h, hh, hd⟩ := clDec_spec c _ n (bits g) hg.denotes
  exact ⟨_, h, hm, hh, hd.same hok⟩

/-- causal-learn: reading a well-formed matrix and writing the graph again returns the matrix -/
theorem clearn_import_export (c : Cls) (A : Mat) (n : Nat) (T : Nat → Nat → PB) (hT : Denotes c .clearn A n T) :
    ∃ h m, clDec c A n = some h ∧ clEnc c h n = some m ∧ ∀ a b, a < n → b < n → m a b = A a b := by
  obtain ⟨h, hh, hd⟩ := clDec_spec c A n T hT
  obtain ⟨m, hm, rfl⟩ := clEnc_spec c h n (hd.inDom hT)
  exact ⟨h, _, hh, hm, hd.docMat hT⟩

theorem pcalg_export_import (c : Cls) (hc : c ∈ [Cls.cpdag, .pag]) (g : MG) (n : Nat) (hok : GraphOK g n)
    (hg : InDom c .pcalg g n) :
    ∃ m h, pcEnc c g n = some m ∧ pcDec c m n = some h ∧ Same g h := by
  obtain ⟨m, hm, rfl⟩ := pcEnc_spec c hc g n hg
  obtain ⟨h, hh, hd⟩ := pcDec_spec c hc _ n (bits g) hg.denotes
  exact ⟨_, h, hm, hh, hd.same hok⟩

theorem pcalg_import_export (c : Cls) (hc : c ∈ [Cls.cpdag, .pag]) (A : Mat) (n : Nat) (T : Nat → Nat → PB)
    (hT : Denotes c .pcalg A n T) :
    ∃ h m, pcDec c A n = some h ∧ pcEnc c h n = some m ∧ ∀ a b, a < n → b < n → m a b = A a b := by
  obtain ⟨h, hh, hd⟩ := pcDec_spec c hc A n T hT
  obtain ⟨m, hm, rfl⟩ := pcEnc_spec c hc h n (hd.inDom hT)
  exact ⟨h, _, hh, hm, hd.docMat hT⟩

/-- `numpy_to_graph` reads only the cells inside the matrix -/
theorem npDec_congr (c : Cls) (A B : Mat) (n : Nat) (h : ∀ a b, a < n → b < n → A a b = B a b) :
    npDec c A n = npDec c B n := by
  unfold npDec
  apply foldl_congr_mem
  intro s x hx
  obtain ⟨a, b⟩ := x
  obtain ⟨ha, hb⟩ := mem_allPairs.1 hx
  simp only [npDecStep, h a b ha hb]

theorem numpy_export_import (c : Cls) (g : MG) (n : Nat) (hok : GraphOK g n) (hg : InDom c .numpy g n) :
    ∃ h, npDec c (npEnc c g n) n = some h ∧ Same g h := by
  obtain ⟨h, hh, hd⟩ := npDec_spec c _ n (bits g) hg.denotes
  rw [npDec_congr c (npEnc c g n) (docMat c .numpy g n) n (npEnc_spec c g n hg hok.diag)]
  exact ⟨h, hh, hd.same hok⟩

theorem numpy_import_export (c : Cls) (A : Mat) (n : Nat) (T : Nat → Nat → PB) (hT : Denotes c .numpy A n T) :
    ∃ h, npDec c A n = some h ∧ ∀ a b, a < n → b < n → npEnc c h n a b = A a b := by
  obtain ⟨h, hh, hd⟩ := npDec_spec c A n T hT
  refine ⟨h, hh, fun a b ha hb => ?_⟩
  rw [npEnc_spec c h n (hd.inDom hT) hd.graphOK.diag a b ha hb]
  exact hd.docMat hT a b ha hb

/-! non-vacuity: a PAG on three nodes with `0 o-> 1 <-> 2`, and the PAG `0 --> 1` with its documented
pcalg code points -/
def exPag : MG := { nodes := [0, 1, 2], dir := [(0, 1)], bi := [(1, 2)], circ := [(1, 0)] }
example : inDomain .pag .pcalg exPag 3 = true ∧ inDomain .pag .clearn exPag 3 = true ∧ inDomain .pag .numpy exPag 3 = true := by
  decide
example : (pcEnc .pag exPag 3).map (Mat.toLists 3) = some [[0, 2, 0], [1, 0, 2], [0, 2, 0]] := by decide
example : (pcEnc .pag { nodes := [0, 1], dir := [(0, 1)] } 2).map (Mat.toLists 2) = some [[0, 2], [3, 0]] := by decide
example : (pcDec .pag (Mat.ofLists [[0, 2], [3, 0]]) 2).map (·.dir) = some [(0, 1)] := by decide
example : (pcEnc .cpdag { nodes := [0, 1], dir := [(0, 1)] } 2).map (Mat.toLists 2) = some [[0, 0], [1, 0]] := by decide

theorem lookupCfg_mem {t : List (PB × Int × Int)} {p : PB} {xy : Int × Int} (h : lookupCfg t p = some xy) :
    (p, xy.1, xy.2) ∈ t := by
  unfold lookupCfg at h
  cases hf : t.find? (fun e => e.1 == p) with
  | none => simp [hf] at h
  | some e =>
    simp [hf] at h
    have hm := List.mem_of_find?_eq_some hf
    have hp := List.find?_some hf
    simp at hp
    obtain ⟨p', x, y⟩ := e
    simp at hp h
    subst hp; subst h
    exact hm

theorem lookupCells_mem {t : List (PB × Int × Int)} {x y : Int} {p : PB} (h : lookupCells t x y = some p) :
    (p, x, y) ∈ t := by
  unfold lookupCells at h
  cases hf : t.find? (fun e => e.2.1 == x && e.2.2 == y) with
  | none => simp [hf] at h
  | some e =>
    simp [hf] at h
    have hm := List.mem_of_find?_eq_some hf
    have hp := List.find?_some hf
    obtain ⟨p', x', y'⟩ := e
    simp at hp h
    obtain ⟨rfl, rfl⟩ := hp
    subst h
    exact hm

/-- the executable domain test of the driver implies the hypothesis of the theorems -/
theorem inDomain_sound {c f g n} (h : inDomain c f g n = true) : InDom c f g n := by
  intro a b ha hb hab
  have := (List.all_eq_true.1 h) (a, b) (mem_allPairs.2 ⟨ha, hb⟩)
  simp only [Bool.or_eq_true, beq_iff_eq, hab, false_or] at this
  rcases this with he | he
  · exact ⟨0, 0, by rw [he]; simp [tableZ]⟩
  · unfold expressible at he
    cases hl : lookupCfg (table c f) (bits g a b) with
    | none => simp [hl] at he
    | some xy => exact ⟨xy.1, xy.2, List.mem_cons_of_mem _ (lookupCfg_mem hl)⟩

/-- the executable well-formedness test of the driver implies the hypothesis of the theorems, with
    the documented reading `specDecBits` -/
theorem wfMatrix_sound {c f A n} (h : wfMatrix c f A n = true) : Denotes c f A n (specDecBits c f A) := by
  have hall := List.all_eq_true.1 h
  refine ⟨fun a ha => ?_, fun a b ha hb hab => ?_⟩
  · have := hall (a, a) (mem_allPairs.2 ⟨ha, ha⟩)
    simpa using this
  · have := hall (a, b) (mem_allPairs.2 ⟨ha, hb⟩)
    simp only [beq_iff_eq, hab, if_false, Bool.or_eq_true, Bool.and_eq_true] at this
    simp only [specDecBits, hab, if_false]
    cases hl : lookupCells (table c f) (A a b) (A b a) with
    | some p => exact List.mem_cons_of_mem _ (by simpa using lookupCells_mem hl)
    | none =>
      rcases this with ⟨h1, h2⟩ | h3
      · simp [h1, h2, tableZ]
      · simp [hl] at h3

example : InDom .pag .pcalg exPag 3 ∧ GraphOK exPag 3 :=
  ⟨inDomain_sound (by decide), ⟨rfl, by intro a; simp [bits, exPag, PB.empty]; omega, by
    intro a b h; simp [bits, exPag, PB.empty]; omega⟩⟩
example : Denotes .pag .pcalg (Mat.ofLists [[0, 2, 0], [1, 0, 2], [0, 2, 0]]) 3
    (specDecBits .pag .pcalg (Mat.ofLists [[0, 2, 0], [1, 0, 2], [0, 2, 0]])) := wfMatrix_sound (by decide)

end C14
