import Pw.Core.Proto
import Pw.C01.Guard
import Pw.C10.Spec
import Pw.C10.SepAll
open Proto

/-! Driver handlers of C10.

* `c10conv L=<labels> A=<attr ids> D=<i-j,…> B=<i-j,…>` – the model `convS` on string labels;
  answer `N=<label:attr;…> E=<p>c;…> chk=<T|F>` (nodes in dict order, edges sorted, `chk` = the
  model's own output passes `Struct ∧ Exact`)
* `c10valid L= A= D= B= RL=<labels> RA=<attr ids> RE=<i-j,…>` – the specification decided on the
  implementation's output: `T`, `F:<failed Struct clauses>` or `X:<only Exact fails>`
  (`err:input-not-in-domain` if G is outside the quantifier: a harness bug)
* `c10sep n= D= B= X= Y= Z=` – `<mSeparated G>/<mSeparated (convMG G)>/<mSeparated (G without
  bidirected edges)>` (or `err:cyclic`)
* `c10sepall n= D= B= RN=<k> RE=<i-j,…>` – second sentence for *all* disjoint X,Y,Z of original
  nodes: `mSeparated R = mSeparated G` where R is the implementation's result on indices
  (original nodes keep `0..n-1`); answer `ok:<queries>:<queries on which the bidirected edges matter>`
  or `bad:<X>|<Y>|<Z>:<G>:<R>` -/
namespace C10

def strs (a : Args) (k : String) : List String :=
  let s := a.get k
  if s == "" then [] else s.splitOn ","

def mkLG (a : Args) : LG String :=
  let labs := strs a "L"
  let lab (i : Nat) : String := labs.getD i ("?" ++ toString i)
  let attrs := a.nats "A"
  { nodes := (List.range labs.length).map fun i => (lab i, attrs.getD i emptyAttr),
    dir := (a.pairs "D").map fun e => (lab e.1, lab e.2),
    bi := (a.pairs "B").map fun e => (lab e.1, lab e.2) }

def mkDG (a : Args) : DG String :=
  let labs := strs a "RL"
  let lab (i : Nat) : String := labs.getD i ("?" ++ toString i)
  let attrs := a.nats "RA"
  { nodes := (List.range labs.length).map fun i => (lab i, attrs.getD i emptyAttr),
    edges := (a.pairs "RE").map fun e => (lab e.1, lab e.2) }

def strLe (a b : String) : Bool := a < b || a == b
def fmtDG (R : DG String) : String :=
  "N=" ++ ";".intercalate (R.nodes.map fun p => p.1 ++ ":" ++ toString p.2) ++
  " E=" ++ ";".intercalate (((R.edges.map fun e => e.1 ++ ">" ++ e.2).eraseDups).mergeSort strLe)

def handleConv : Handler := fun a =>
  let G := mkLG a
  let R := convS G
  fmtDG R ++ " chk=" ++ fmtBool (decide (Struct G R) && decide (Exact G R))

/-- the input is inside the quantifier of C10 (hypotheses of `C10_full`, `sepPreserved_of_valid`):
    distinct node names, endpoints are nodes, no self loops, one bidirected edge per pair, acyclic
    directed layer -/
def inDomain (G : LG String) : Bool :=
  decide (G.names.Nodup) && (({ nodes := G.nodes, edges := G.dir } : DG String).hasCycle == false) &&
  decide (∀ e ∈ G.dir, e.1 ∈ G.names ∧ e.2 ∈ G.names ∧ e.1 ≠ e.2) &&
  decide (∀ e ∈ G.bi, e.1 ∈ G.names ∧ e.2 ∈ G.names ∧ e.1 ≠ e.2) &&
  decide (G.bi.Pairwise fun e e' => ¬ ((e.1 = e'.1 ∧ e.2 = e'.2) ∨ (e.1 = e'.2 ∧ e.2 = e'.1)))

def handleValid : Handler := fun a =>
  let G := mkLG a
  let R := mkDG a
  if !inDomain G then "err:input-not-in-domain" else
  let cl : List (String × Bool) :=
    [("closed", decide (∀ e ∈ R.edges, e.1 ∈ R.names ∧ e.2 ∈ R.names)),
     ("dag", R.hasCycle == false), ("nodes-kept", decide (NodesKept G R)),
     ("dir-kept", decide (DirKept G R)), ("latent-per-bi", decide (LatentPerBi G R))]
  let failed := (cl.filter (!·.2)).map (·.1)
  if failed ≠ [] then "F:" ++ "+".intercalate failed
  else if decide (Exact G R) then "T" else "X:exact"

def handleSep : Handler := fun a =>
  let G := a.graph
  if MG.hasCycle G then "err:cyclic" else
  let X := a.nats "X"; let Y := a.nats "Y"; let Z := a.nats "Z"
  fmtBool (MG.mSeparated G X Y Z) ++ "/" ++ fmtBool (MG.mSeparated (convMG G) X Y Z) ++ "/" ++
    fmtBool (MG.mSeparated { G with bi := [] } X Y Z)

/-- `sepAllBad` (complete by `C10.sepAllBad_none`) decides; on agreement the answer also counts the
    queries and those on which the bidirected edges matter -/
def handleSepAll : Handler := fun a =>
  let G := a.graph
  let R : MG := { nodes := List.range (a.nat "RN"), dir := a.pairs "RE" }
  let G0 : MG := { G with bi := [] }
  match sepAllBad G R with
  | some (X, Y, Z) =>
    "bad:" ++ fmtSet X ++ "|" ++ fmtSet Y ++ "|" ++ fmtSet Z ++ ":" ++ fmtBool (MG.mSeparated G X Y Z) ++
      ":" ++ fmtBool (MG.mSeparated R X Y Z)
  | none =>
    let qs := properQueries G.nodes
    "ok:" ++ toString qs.length ++ ":" ++
      toString (qs.countP fun q => MG.mSeparated G0 q.1 q.2.1 q.2.2 != MG.mSeparated G q.1 q.2.1 q.2.2)

def handlers : List (String × Handler) :=
  [("c10conv", handleConv), ("c10valid", handleValid), ("c10sep", handleSep), ("c10sepall", handleSepAll)]
end C10
