import Pw.C05.Complete

/-! # C05: kernel-evaluable form of the model, non-vacuity examples, counterexample for the unchanged code -/
namespace C05

/-- structurally recursive twin of `elimWith` (fuel = number of nodes) so that concrete instances can be
    evaluated by `decide` -/
def elimF (el : MG → Nat → Bool) : Nat → MG → Except String (List (Nat × Nat))
  | 0, _ => .ok []
  | n + 1, G =>
    if G.nodes.isEmpty then .ok []
    else
      match G.nodes.find? (el G) with
      | none => .error "no-extension"
      | some x =>
        match elimF el n (removeNode G x) with
        | .error e => .error e
        | .ok r => .ok ((G.unbrs x).map (·, x) ++ r)

theorem elimWith_eq_elimF (el : MG → Nat → Bool) (G : MG) :
    ∀ n, G.nodes.length ≤ n → elimWith el G = elimF el n G := by
  induction G using elimWith.induct (el := el) with
  | case1 G hemp =>
    intro n _
    rw [elimWith, if_pos hemp]
    cases n with
    | zero => rfl
    | succ n => rw [elimF, if_pos hemp]
  | case2 G hemp hfind =>
    intro n hn
    have hne : G.nodes ≠ [] := fun h => hemp (List.isEmpty_iff.mpr h)
    cases n with
    | zero => exact absurd (List.length_eq_zero_iff.mp (Nat.le_zero.mp hn)) hne
    | succ n =>
      rw [elimF, if_neg hemp, hfind, elimWith, if_neg hemp]
      split
      · rfl
      · rename_i x hx; rw [hfind] at hx; cases hx
  | case3 G hemp x hfind e herr ih =>
    intro n hn
    have hne : G.nodes ≠ [] := fun h => hemp (List.isEmpty_iff.mpr h)
    cases n with
    | zero => exact absurd (List.length_eq_zero_iff.mp (Nat.le_zero.mp hn)) hne
    | succ n =>
      have hlt := length_removeNode_lt (List.mem_of_find?_eq_some hfind)
      rw [elimF, if_neg hemp, hfind]
      dsimp only
      rw [← ih n (by omega), herr, elimWith, if_neg hemp]
      split
      · rename_i hx; rw [hfind] at hx; cases hx
      · rename_i y hy; rw [hfind] at hy; cases hy; rw [herr]
  | case4 G hemp x hfind r hok ih =>
    intro n hn
    have hne : G.nodes ≠ [] := fun h => hemp (List.isEmpty_iff.mpr h)
    cases n with
    | zero => exact absurd (List.length_eq_zero_iff.mp (Nat.le_zero.mp hn)) hne
    | succ n =>
      have hlt := length_removeNode_lt (List.mem_of_find?_eq_some hfind)
      rw [elimF, if_neg hemp, hfind]
      dsimp only
      rw [← ih n (by omega), hok, elimWith, if_neg hemp]
      split
      · rename_i hx; rw [hfind] at hx; cases hx
      · rename_i y hy; rw [hfind] at hy; cases hy; rw [hok]

theorem pdagToDag_eq_fuel (P : MG) :
    pdagToDag P = match elimF eligible P.nodes.length P with
      | .error e => .error e
      | .ok r => .ok { nodes := P.nodes, dir := P.dir ++ r } := by
  rw [pdagToDag, elim, elimWith_eq_elimF eligible P _ (Nat.le_refl _)]
  cases elimF eligible P.nodes.length P <;> rfl

theorem pdagToDagOld_eq_fuel (P : MG) :
    pdagToDagOld P = match elimF eligibleOld P.nodes.length P with
      | .error e => .error e
      | .ok r => .ok { nodes := P.nodes, dir := P.dir ++ r } := by
  rw [pdagToDagOld, elimWith_eq_elimF eligibleOld P _ (Nat.le_refl _)]
  cases elimF eligibleOld P.nodes.length P <;> rfl

/-- witness of the repaired defect: `0->2, 0->3, 1->2, 1->3, 2--3` -/
def witness : MG := { nodes := [0, 1, 2, 3], dir := [(0, 2), (0, 3), (1, 2), (1, 3)], un := [(2, 3)] }
/-- the witness named in DESIGN §7: `p1->x<-p2, u--x, u->p1, u->p2` with p1=0, p2=1, x=2, u=3 -/
def witness2 : MG := { nodes := [0, 1, 2, 3], dir := [(0, 2), (1, 2), (3, 0), (3, 1)], un := [(3, 2)] }

theorem witness_dom : Dom witness := by
  refine ⟨by decide, by decide, by decide, ?_⟩
  intro a b h
  simp only [witness, List.mem_singleton, Prod.mk.injEq] at h
  obtain ⟨rfl, rfl⟩ := h
  decide

theorem witness_model : pdagToDag witness =
    .ok { nodes := [0, 1, 2, 3], dir := [(0, 2), (0, 3), (1, 2), (1, 3), (3, 2)] } := by
  rw [pdagToDag_eq_fuel]; rfl

/-- non-vacuity of `pdagToDag_sound` and `pdagToDag_complete`: the witness is in the domain, the model
    returns, hence (soundness) a consistent extension exists -/
example : ∃ D, ConsistentExt witness D :=
  ⟨_, pdagToDag_sound witness _ witness_dom.pwf witness_model⟩

example : ∃ D', pdagToDag witness = .ok D' :=
  pdagToDag_complete witness witness_dom ⟨_, pdagToDag_sound witness _ witness_dom.pwf witness_model⟩

/-- an input without consistent extension (the suite's "inconsistent" case 1--3, 1->4, 2->3, 4->3):
    non-vacuity of the error direction of `pdagToDag_spec` -/
def noExt : MG := { nodes := [1, 2, 3, 4], dir := [(1, 4), (2, 3), (4, 3)], un := [(1, 3)] }

theorem noExt_dom : Dom noExt := by
  refine ⟨by decide, by decide, by decide, ?_⟩
  intro a b h
  simp only [noExt, List.mem_singleton, Prod.mk.injEq] at h
  obtain ⟨rfl, rfl⟩ := h
  decide

theorem noExt_model : pdagToDag noExt = .error "no-extension" := by
  rw [pdagToDag_eq_fuel]; rfl

example : ¬ ∃ D, ConsistentExt noExt D :=
  ((pdagToDag_spec noExt noExt_dom).2).mp ⟨_, noExt_model⟩

/-- **Counterexample for the unchanged code** (known finding C05-pdag-to-dag-clique-test-too-strong,
    fixed): with the clique test the model raises on both witnesses although consistent extensions
    exist. -/
theorem counterexample_old_clique_test :
    pdagToDagOld witness = .error "no-extension" ∧ (∃ D, ConsistentExt witness D) ∧
    pdagToDagOld witness2 = .error "no-extension" ∧ (∃ D, ConsistentExt witness2 D) := by
  have hd2 : Dom witness2 := by
    refine ⟨by decide, by decide, by decide, ?_⟩
    intro a b h
    simp only [witness2, List.mem_singleton, Prod.mk.injEq] at h
    obtain ⟨rfl, rfl⟩ := h
    decide
  have hm2 : pdagToDag witness2 =
      .ok { nodes := [0, 1, 2, 3], dir := [(0, 2), (1, 2), (3, 0), (3, 1), (3, 2)] } := by
    rw [pdagToDag_eq_fuel]; rfl
  refine ⟨?_, ⟨_, pdagToDag_sound witness _ witness_dom.pwf witness_model⟩, ?_,
    ⟨_, pdagToDag_sound witness2 _ hd2.pwf hm2⟩⟩
  · rw [pdagToDagOld_eq_fuel]; rfl
  · rw [pdagToDagOld_eq_fuel]; rfl

end C05
