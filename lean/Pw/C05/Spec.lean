import Pw.C01.Guard

/-! # C05 specification: consistent extensions of a PDAG

Interpretation (DESIGN §6, choice 4): the v-structures of a PDAG are its directed–directed unshielded
colliders; skeleton = adjacency in any layer. -/
namespace C05

/-- adjacent in any layer, either orientation -/
def Adj (G : MG) (a b : Nat) : Prop :=
  (a, b) ∈ G.dir ∨ (b, a) ∈ G.dir ∨ (a, b) ∈ G.un ∨ (b, a) ∈ G.un

/-- `a -> c <- b` with directed edges, `a` and `b` distinct and non-adjacent -/
def VStruct (G : MG) (a c b : Nat) : Prop :=
  (a, c) ∈ G.dir ∧ (b, c) ∈ G.dir ∧ a ≠ b ∧ ¬ Adj G a b

/-- `D` is a DAG on P's nodes with P's skeleton that keeps every directed edge of P and has exactly
    P's v-structures -/
structure ConsistentExt (P D : MG) : Prop where
  nodes : ∀ v, v ∈ D.nodes ↔ v ∈ P.nodes
  plain : D.un = [] ∧ D.bi = [] ∧ D.circ = []
  acyclic : D.Acyclic
  skel : ∀ a b, Adj D a b ↔ Adj P a b
  keeps : ∀ e ∈ P.dir, e ∈ D.dir
  vstructs : ∀ a c b, VStruct D a c b ↔ VStruct P a c b

/-- the property's quantifier: endpoints are nodes, no self loops, at most one edge per pair
    (the directed layer being acyclic is not needed by any theorem and therefore not required) -/
structure Dom (P : MG) : Prop where
  dirNodes : ∀ e ∈ P.dir, e.1 ∈ P.nodes ∧ e.2 ∈ P.nodes
  unNodes : ∀ e ∈ P.un, e.1 ∈ P.nodes ∧ e.2 ∈ P.nodes
  unLoop : ∀ e ∈ P.un, e.1 ≠ e.2
  simple : ∀ a b, (a, b) ∈ P.un → (a, b) ∉ P.dir ∧ (b, a) ∉ P.dir

/-! ## executable deciders -/

def adjB' (G : MG) (a b : Nat) : Bool :=
  G.dir.contains (a, b) || G.dir.contains (b, a) || G.un.contains (a, b) || G.un.contains (b, a)

/-- all v-structures `(a, c, b)` (both orders of a, b are listed) -/
def vstructs (G : MG) : List (Nat × Nat × Nat) :=
  G.dir.flatMap fun e1 => (G.dir.filter fun e2 => e2.2 == e1.2 && e2.1 != e1.1 && !adjB' G e1.1 e2.1).map
    fun e2 => (e1.1, e1.2, e2.1)

def subsetB {α : Type} [BEq α] (l1 l2 : List α) : Bool := l1.all l2.contains

/-- decidable version of `ConsistentExt` (the `valid` command of the driver) -/
def isConsistentExt (P D : MG) : Bool :=
  subsetB D.nodes P.nodes && subsetB P.nodes D.nodes &&
  D.un.isEmpty && D.bi.isEmpty && D.circ.isEmpty &&
  D.dir.all (fun e => P.nodes.contains e.1 && P.nodes.contains e.2) &&
  !D.hasCycle &&
  D.dir.all (fun e => adjB' P e.1 e.2) &&
  (P.dir ++ P.un).all (fun e => adjB' D e.1 e.2) &&
  subsetB P.dir D.dir &&
  subsetB (vstructs D) (vstructs P) && subsetB (vstructs P) (vstructs D)

/-- all orientations of a list of unordered pairs -/
def orientations : List (Nat × Nat) → List (List (Nat × Nat))
  | [] => [[]]
  | (a, b) :: es => (orientations es).flatMap fun o => [(a, b) :: o, (b, a) :: o]

/-- brute force: some orientation of the undirected edges is a consistent extension -/
def extDec (P : MG) : Bool :=
  (orientations P.un).any fun o => isConsistentExt P { nodes := P.nodes, dir := P.dir ++ o }

/-- all consistent extensions that arise from orienting the undirected edges -/
def allExts (P : MG) : List (List (Nat × Nat)) :=
  ((orientations P.un).map (P.dir ++ ·)).filter fun d => isConsistentExt P { nodes := P.nodes, dir := d }

end C05
