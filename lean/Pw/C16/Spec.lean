import Pw.C16.Base

/-! # C16 specification

"all_semi_directed_paths(G, s, t, cutoff) yields each simple path from s to t of at most cutoff
edges on which no edge has an arrowhead at its end nearer to s – exactly the paths for which
is_semi_directed_path is True – once each and nothing else.  possible_descendants(G, s) and
possible_ancestors(G, s) are exactly s together with the nodes reachable from s, respectively
reaching s, along such paths." -/
namespace C16

/-- one hop `u … v` of a semi-directed path: adjacent, and no arrowhead at `u` (the end nearer to
    the start) -/
def Hop (G : MG) (u v : Nat) : Prop := Adj G u v ∧ ¬ Arrow G v u

instance (G : MG) (u v : Nat) : Decidable (Hop G u v) := by unfold Hop; infer_instance

/-- `p` is a semi-directed path of `G`: a non-empty duplicate-free list of nodes, consecutive nodes
    adjacent, no edge with an arrowhead at its end nearer to the start -/
def SemiDirected (G : MG) (p : List Nat) : Prop :=
  p ≠ [] ∧ (∀ v ∈ p, v ∈ G.nodes) ∧ p.Nodup ∧ ChainP (Hop G) p

instance (G : MG) (p : List Nat) : Decidable (SemiDirected G p) := by unfold SemiDirected; infer_instance

/-- `p` is one of the paths `all_semi_directed_paths(G, s, T, cutoff)` has to yield: semi-directed,
    from `s` to a member of `T`, with between 1 and `c` edges -/
def Wanted (G : MG) (s : Nat) (T : List Nat) (c : Nat) (p : List Nat) : Prop :=
  SemiDirected G p ∧ p.head? = some s ∧ (∃ t ∈ T, p.getLast? = some t) ∧ 2 ≤ p.length ∧ p.length ≤ c + 1

instance (G : MG) (s : Nat) (T : List Nat) (c : Nat) (p : List Nat) : Decidable (Wanted G s T c p) := by
  unfold Wanted; infer_instance

/-- the cutoff the property means for `cutoff=None`: no bound (every simple path has ≤ |V|-1 edges) -/
def effCutoff (G : MG) : Option Nat → Nat
  | none => G.nodes.length - 1
  | some c => c

/-- **oracle**: enumerate every simple path from `s`, keep the wanted ones -/
def wantedDec (G : MG) (s : Nat) (T : List Nat) (cutoff : Option Nat) : List (List Nat) :=
  (simplePaths G s).filter fun p => decide (Wanted G s T (effCutoff G cutoff) p)

/-- `v` is a possible descendant of `s`: `s` itself or the end of a semi-directed path from `s` -/
def PossDesc (G : MG) (s v : Nat) : Prop :=
  v = s ∨ ∃ p, SemiDirected G p ∧ p.head? = some s ∧ p.getLast? = some v

/-- `v` is a possible ancestor of `s`: `s` itself or the start of a semi-directed path to `s` -/
def PossAnc (G : MG) (s v : Nat) : Prop :=
  v = s ∨ ∃ p, SemiDirected G p ∧ p.head? = some v ∧ p.getLast? = some s

/-- **oracle** for possible descendants / ancestors by simple-path enumeration -/
def possDescDec (G : MG) (s : Nat) : List Nat :=
  (simplePaths G s).filterMap fun p => if ChainP (Hop G) p then p.getLast? else none
def possAncDec (G : MG) (s : Nat) : List Nat :=
  (simplePaths G s).filterMap fun p => if ChainP (fun a b => Hop G b a) p then p.getLast? else none

/-- the pair kinds of the property's quantifier never leave a lone circle mark: a circle at `b` on the
    edge from `a` comes with a circle (`o-o`) or an arrowhead (`o->`) at `a` -/
def CircOK (G : MG) : Prop := ∀ e ∈ G.circ, (e.2, e.1) ∈ G.circ ∨ (e.2, e.1) ∈ G.dir

instance (G : MG) : Decidable (CircOK G) := by unfold CircOK; infer_instance

end C16
