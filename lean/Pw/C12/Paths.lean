import Pw.C12.District
open Closure MG

/-! # C12, part 2: collider-connectedness, by walks and by paths, is the district relation

* a walk all of whose inner nodes are colliders stays inside one district and ends in the district or
  in one of its parents (`district_of_walk`);
* conversely two different nodes of district ∪ parents are joined by a *path* (no repeated node) whose
  inner nodes are all colliders (`cc_of_district`) – loop cutting inside the bidirected layer. -/
namespace C12

theorem HasEdge.bi_of_head_head {G : MG} {a b : Nat} (h : HasEdge G a b .head .head) : Bi G a b := by
  rcases h with ⟨h1, _, _⟩ | ⟨_, h2, _⟩ | ⟨_, _, h3⟩ | ⟨h1, _, _⟩
  · cases h1
  · cases h2
  · exact h3
  · cases h1

theorem HasEdge.dir_of_head_tail {G : MG} {a b : Nat} (h : HasEdge G a b .head .tail) : (b, a) ∈ G.dir := by
  rcases h with ⟨h1, _, _⟩ | ⟨_, _, h3⟩ | ⟨_, h2, _⟩ | ⟨h1, _, _⟩
  · cases h1
  · exact h3
  · cases h2
  · cases h1

theorem hasEdge_of_bi {G : MG} {a b : Nat} (h : Bi G a b) : HasEdge G a b .head .head :=
  Or.inr (Or.inr (Or.inl ⟨rfl, rfl, h⟩))

theorem hasEdge_of_dir {G : MG} {a b : Nat} (h : (a, b) ∈ G.dir) : HasEdge G a b .tail .head :=
  Or.inl ⟨rfl, rfl, h⟩

theorem hasEdge_of_dir' {G : MG} {a b : Nat} (h : (b, a) ∈ G.dir) : HasEdge G a b .head .tail :=
  Or.inr (Or.inl ⟨rfl, rfl, h⟩)

/-! ## `AllColl` versus the `CollW` of Pw/T2 -/

theorem allColl_iff_collW : ∀ hs : List Hop, AllColl hs ↔ CollW none hs
  | [] => by simp [AllColl, CollW]
  | [_] => by simp [AllColl, CollW]
  | h1 :: h2 :: t => by
    have ih := allColl_iff_collW (h2 :: t)
    simp only [AllColl, CollW, and_assoc] at ih ⊢
    rw [ih]

/-! ## walks ⇒ district -/

/-- a walk that leaves `a` through an arrowhead and has only colliders inside ends in the district of
    `a` or in a parent of that district -/
theorem inDP_of_collW {G : MG} (hwf : G.WF) : ∀ (hs : List Hop) (a : Nat), hs ≠ [] → ValidW G a hs →
    CollW (some .head) hs → InDP G a (endNode a hs)
  | [], _, hne, _, _ => absurd rfl hne
  | [h], a, _, hv, hc => by
    obtain ⟨hv1, _⟩ := hv
    obtain ⟨⟨_, hmp⟩, _⟩ := hc
    rw [hmp] at hv1
    simp only [endNode]
    cases hmn : h.mn with
    | head => rw [hmn] at hv1; exact Or.inl (breach_step hwf (HasEdge.bi_of_head_head hv1))
    | tail => rw [hmn] at hv1; exact Or.inr ⟨a, Reach.refl a, HasEdge.dir_of_head_tail hv1⟩
  | h :: h2 :: t, a, _, hv, hc => by
    obtain ⟨hv1, hv2⟩ := hv
    obtain ⟨⟨_, hmp⟩, hc2⟩ := hc
    have hmn : h.mn = .head := hc2.1.1
    rw [hmp, hmn] at hv1
    rw [hmn] at hc2
    have ih := inDP_of_collW hwf (h2 :: t) h.nx (by simp) hv2 hc2
    simp only [endNode] at ih ⊢
    exact ih.of_reach (breach_step hwf (HasEdge.bi_of_head_head hv1))

/-- a walk with only colliders inside joins two nodes that are adjacent or lie in district ∪ parents of
    one district -/
theorem district_of_walk {G : MG} (hwf : G.WF) {u v : Nat} {hs : List Hop} (hne : hs ≠ [])
    (hv : ValidW G u hs) (hend : endNode u hs = v) (hc : CollW none hs) :
    Adj G u v ∨ ∃ r ∈ G.nodes, InDP G r u ∧ InDP G r v := by
  match hs, hne, hv, hend, hc with
  | [h], _, hv, hend, _ =>
    simp only [endNode] at hend
    subst hend
    exact Or.inl ⟨h.mp, h.mn, hv.1⟩
  | h :: h2 :: t, _, hv, hend, hc =>
    obtain ⟨hv1, hv2⟩ := hv
    simp only [CollW] at hc
    have hmn : h.mn = .head := hc.1.1
    have hc2 : CollW (some .head) (h2 :: t) := ⟨⟨rfl, hc.1.2⟩, hc.2⟩
    have hnx : h.nx ∈ G.nodes := HasEdge.mem_nodes hwf hv1
    have hv' := inDP_of_collW hwf (h2 :: t) h.nx (by simp) hv2 hc2
    simp only [endNode] at hend hv'
    rw [hend] at hv'
    refine Or.inr ⟨h.nx, hnx, ?_, hv'⟩
    rw [hmn] at hv1
    cases hmp : h.mp with
    | tail => rw [hmp] at hv1; exact Or.inr ⟨h.nx, Reach.refl _, hv1.dir_of_tail_head⟩
    | head =>
      rw [hmp] at hv1
      exact Or.inl (breach_step hwf (HasEdge.bi_of_head_head hv1).symm)

/-! ## district ⇒ path -/

/-- all hops are bidirected -/
def AllBi (hs : List Hop) : Prop := ∀ h ∈ hs, h.mp = .head ∧ h.mn = .head

theorem split_at : ∀ (hs : List Hop) (b n : Nat), n ∈ nodesOf b hs →
    ∃ pre suf, hs = pre ++ suf ∧ endNode b pre = n
  | [], b, n, h => by
    simp only [nodesOf, List.map_nil, List.mem_singleton] at h
    exact ⟨[], [], rfl, by simp [endNode, h]⟩
  | h :: t, b, n, hn => by
    simp only [nodesOf, List.map_cons, List.mem_cons] at hn
    rcases hn with rfl | hn
    · exact ⟨[], h :: t, rfl, rfl⟩
    · have : n ∈ nodesOf h.nx t := by simpa [nodesOf] using hn
      obtain ⟨pre, suf, hps, he⟩ := split_at t h.nx n this
      exact ⟨h :: pre, suf, by simp [hps], by simpa [endNode] using he⟩

/-- loop cutting: reachability in the bidirected layer gives a bidirected *path* (back to the start) -/
theorem exists_bipath {G : MG} {a b : Nat} (ha : a ∈ G.nodes) (h : BReach G a b) :
    ∃ hs, ValidW G b hs ∧ endNode b hs = a ∧ (nodesOf b hs).Nodup ∧ AllBi hs ∧
      ∀ n ∈ nodesOf b hs, BReach G a n := by
  induction h with
  | refl =>
    exact ⟨[], trivial, rfl, by simp [nodesOf], (by intro h hh; cases hh),
      (by intro n hn; simp [nodesOf] at hn; subst hn; exact Reach.refl _)⟩
  | @tail b c hr s ih =>
    obtain ⟨hs, hv, hend, hnd, hbi, hre⟩ := ih
    have hbc : Bi G c b := (mem_spouses.mp s.1).symm
    by_cases hc : c ∈ nodesOf b hs
    · obtain ⟨pre, suf, rfl, hpre⟩ := split_at hs b c hc
      rw [validW_append, hpre] at hv
      rw [endNode_append, hpre] at hend
      rw [nodesOf_append, List.nodup_append] at hnd
      have hcpre : c ∈ nodesOf b pre := by rw [← hpre]; exact endNode_mem_nodesOf pre b
      refine ⟨suf, hv.2, hend, ?_, fun h hh => hbi h (List.mem_append_right _ hh), ?_⟩
      · simp only [nodesOf, List.nodup_cons]
        exact ⟨fun hmem => hnd.2.2 c hcpre c hmem rfl, hnd.2.1⟩
      · intro n hn
        apply hre n
        rw [nodesOf_append]
        simp only [nodesOf, List.mem_cons] at hn
        rcases hn with rfl | hn
        · exact List.mem_append_left _ hcpre
        · exact List.mem_append_right _ hn
    · refine ⟨⟨.head, .head, b⟩ :: hs, ⟨hasEdge_of_bi hbc, hv⟩, by simpa [endNode] using hend, ?_, ?_, ?_⟩
      · have : nodesOf c (⟨.head, .head, b⟩ :: hs) = c :: nodesOf b hs := by simp [nodesOf]
        rw [this, List.nodup_cons]
        exact ⟨hc, hnd⟩
      · intro h hh
        rcases List.mem_cons.mp hh with rfl | hh
        · exact ⟨rfl, rfl⟩
        · exact hbi h hh
      · intro n hn
        have : nodesOf c (⟨.head, .head, b⟩ :: hs) = c :: nodesOf b hs := by simp [nodesOf]
        rw [this] at hn
        rcases List.mem_cons.mp hn with rfl | hn
        · exact Reach.tail hr s
        · exact hre n hn

/-! ### assembling `AllColl` -/

theorem allColl_of_allBi : ∀ hs : List Hop, AllBi hs → AllColl hs
  | [], _ => trivial
  | [_], _ => trivial
  | h1 :: h2 :: t, hb => by
    refine ⟨(hb h1 (by simp)).2, (hb h2 (by simp)).1, ?_⟩
    exact allColl_of_allBi (h2 :: t) (fun h hh => hb h (List.mem_cons_of_mem _ hh))

theorem allColl_snoc : ∀ (hs : List Hop) (l : Hop), AllBi hs → l.mp = .head → AllColl (hs ++ [l])
  | [], _, _, _ => trivial
  | [h], l, hb, hl => ⟨(hb h (by simp)).2, hl, trivial⟩
  | h1 :: h2 :: t, l, hb, hl => by
    refine ⟨(hb h1 (by simp)).2, (hb h2 (by simp)).1, ?_⟩
    exact allColl_snoc (h2 :: t) l (fun h hh => hb h (List.mem_cons_of_mem _ hh)) hl

theorem allColl_cons (f : Hop) : ∀ hs : List Hop, f.mn = .head → (∀ h ∈ hs.head?, h.mp = .head) →
    AllColl hs → AllColl (f :: hs)
  | [], _, _, _ => trivial
  | h :: t, hf, hh, hc => ⟨hf, hh h (by simp), hc⟩

/-- **district ⇒ path**: two different nodes of one district ∪ its parents are collider connected -/
theorem cc_of_district {G : MG} (hwf : G.WF) {u v r : Nat} (hne : u ≠ v) (hr : r ∈ G.nodes)
    (hu : InDP G r u) (hv : InDP G r v) : ColliderConnected G u v := by
  -- normal form: either in the district, or a parent outside the district
  have norm : ∀ w, InDP G r w → BReach G r w ∨ (¬ BReach G r w ∧ ∃ c, BReach G r c ∧ (w, c) ∈ G.dir) := by
    intro w hw
    by_cases h : BReach G r w
    · exact Or.inl h
    · rcases hw with hw | hw
      · exact absurd hw h
      · exact Or.inr ⟨h, hw⟩
  have inD : ∀ {a n}, BReach G r a → BReach G a n → BReach G r n := fun h1 h2 => reach_trans h1 h2
  rcases norm u hu with hDu | ⟨hnu, cu, hcu, hdu⟩ <;> rcases norm v hv with hDv | ⟨hnv, cv, hcv, hdv⟩
  · -- both in the district
    have hvn : v ∈ G.nodes := reach_mem hr hDv
    have : BReach G v u := reach_trans (breach_symm hr hDv) hDu
    obtain ⟨hs, hval, hend, hnd, hbi, _⟩ := exists_bipath hvn this
    refine Or.inr ⟨hs, ?_, hval, hend, hnd, allColl_of_allBi hs hbi⟩
    rintro rfl; exact hne (by simpa [endNode] using hend)
  · -- u in the district, v a parent outside
    have hcn : cv ∈ G.nodes := reach_mem hr hcv
    have : BReach G cv u := reach_trans (breach_symm hr hcv) hDu
    obtain ⟨hs, hval, hend, hnd, hbi, hre⟩ := exists_bipath hcn this
    refine Or.inr ⟨hs ++ [⟨.head, .tail, v⟩], by simp, ?_, endNode_snoc _ _ _, ?_, allColl_snoc hs _ hbi rfl⟩
    · rw [validW_append, hend]; exact ⟨hval, hasEdge_of_dir' hdv, trivial⟩
    · rw [nodesOf_append, List.nodup_append]
      refine ⟨hnd, by simp, ?_⟩
      intro a ha b hb
      simp only [List.map_cons, List.map_nil, List.mem_singleton] at hb
      subst hb
      rintro rfl
      exact hnv (inD hcv (hre _ ha))
  · -- u a parent outside, v in the district
    have hvn : v ∈ G.nodes := reach_mem hr hDv
    have : BReach G v cu := reach_trans (breach_symm hr hDv) hcu
    obtain ⟨hs, hval, hend, hnd, hbi, hre⟩ := exists_bipath hvn this
    refine Or.inr ⟨⟨.tail, .head, cu⟩ :: hs, by simp, ⟨hasEdge_of_dir hdu, hval⟩,
      by simpa [endNode] using hend, ?_, ?_⟩
    · have : nodesOf u (⟨.tail, .head, cu⟩ :: hs) = u :: nodesOf cu hs := by simp [nodesOf]
      rw [this, List.nodup_cons]
      exact ⟨fun hmem => hnu (inD hDv (hre _ hmem)), hnd⟩
    · refine allColl_cons _ hs rfl ?_ (allColl_of_allBi hs hbi)
      intro h hh
      exact (hbi h (List.mem_of_mem_head? hh)).1
  · -- both parents outside the district
    have hcn : cv ∈ G.nodes := reach_mem hr hcv
    have : BReach G cv cu := reach_trans (breach_symm hr hcv) hcu
    obtain ⟨hs, hval, hend, hnd, hbi, hre⟩ := exists_bipath hcn this
    refine Or.inr ⟨⟨.tail, .head, cu⟩ :: (hs ++ [⟨.head, .tail, v⟩]), by simp, ⟨hasEdge_of_dir hdu, ?_⟩,
      by simp [endNode, endNode_snoc], ?_, ?_⟩
    · rw [validW_append, hend]; exact ⟨hval, hasEdge_of_dir' hdv, trivial⟩
    · have : nodesOf u (⟨.tail, .head, cu⟩ :: (hs ++ [⟨.head, .tail, v⟩])) =
          u :: (nodesOf cu hs ++ [v]) := by simp [nodesOf]
      rw [this, List.nodup_cons, List.nodup_append]
      refine ⟨?_, hnd, by simp, ?_⟩
      · rw [List.mem_append]
        rintro (hmem | hmem)
        · exact hnu (inD hcv (hre _ hmem))
        · simp only [List.mem_singleton] at hmem; exact hne hmem
      · intro a ha b hb
        simp only [List.mem_singleton] at hb
        subst hb
        rintro rfl
        exact hnv (inD hcv (hre _ ha))
    · refine allColl_cons _ _ rfl ?_ (allColl_snoc hs _ hbi rfl)
      intro h hh
      cases hs with
      | nil => simp at hh; subst hh; rfl
      | cons h0 t => simp at hh; subst hh; exact (hbi _ (by simp)).1

end C12
