namespace Closure
variable {α : Type} [DecidableEq α]

theorem countP_mono' (p q : α → Bool) (h : ∀ a, p a = true → q a = true) (U : List α) :
    U.countP p ≤ U.countP q := by
  induction U with
  | nil => simp
  | cons a U ih =>
    simp only [List.countP_cons]
    by_cases hp : p a = true
    · simp [hp, h a hp]; exact ih
    · simp [hp]; omega

theorem countP_lt' (p q : α → Bool) (h : ∀ a, p a = true → q a = true) (U : List α) (x : α)
    (hx : x ∈ U) (hq : q x = true) (hp : ¬ p x = true) : U.countP p < U.countP q := by
  induction U with
  | nil => cases hx
  | cons a U ih =>
    simp only [List.countP_cons]
    by_cases hax : a = x
    · subst hax
      have := countP_mono' p q h U
      simp [hp, hq]; omega
    · have hxU : x ∈ U := by
        cases hx with
        | head => exact absurd rfl hax
        | tail _ h => exact h
      have := ih hxU
      by_cases hpa : p a = true
      · simp [hpa, h a hpa]; omega
      · simp [hpa]; omega

/-- Worklist closure of `work` under `step`, restricted to universe `U`, starting from `seen`. -/
def go (U : List α) (step : α → List α) (work seen : List α) : List α :=
  match work with
  | [] => seen
  | x :: work =>
    if x ∈ seen then go U step work seen
    else if x ∈ U then go U step (step x ++ work) (x :: seen)
    else go U step work seen
termination_by (U.countP (fun u => decide (u ∉ seen)), work.length)
decreasing_by
  · exact Prod.Lex.right _ (by simp)
  · rename_i hs hu
    refine Prod.Lex.left _ _ (countP_lt' _ _ ?_ U x hu (by simpa using hs) (by simp))
    intro a; simp
  · exact Prod.Lex.right _ (by simp)

/-- one-step relation inside U -/
def Step (U : List α) (step : α → List α) (a b : α) : Prop := b ∈ step a ∧ b ∈ U

inductive Reach (U : List α) (step : α → List α) : α → α → Prop
  | refl (a) : Reach U step a a
  | tail {a b c} : Reach U step a b → Step U step b c → Reach U step a c

theorem Reach.head {U : List α} {step : α → List α} {a b c : α}
    (h1 : Step U step a b) (h2 : Reach U step b c) : Reach U step a c := by
  induction h2 with
  | refl => exact Reach.tail (Reach.refl a) h1
  | tail _ s ih => exact Reach.tail ih s

/-- soundness: everything in the result is in `seen` or reachable from a work item in U -/
theorem go_sound (U : List α) (step : α → List α) (work seen : List α) :
    ∀ r ∈ go U step work seen, r ∈ seen ∨ ∃ w ∈ work, w ∈ U ∧ Reach U step w r := by
  fun_induction go U step work seen with
  | case1 seen => intro r hr; exact Or.inl hr
  | case2 seen x work hs ih =>
    intro r hr
    rcases ih r hr with h | ⟨w, hw, hwU, hreach⟩
    · exact Or.inl h
    · exact Or.inr ⟨w, List.mem_cons_of_mem _ hw, hwU, hreach⟩
  | case3 seen x work hs hu ih =>
    intro r hr
    rcases ih r hr with h | ⟨w, hw, hwU, hreach⟩
    · rcases List.mem_cons.mp h with rfl | h
      · exact Or.inr ⟨r, List.mem_cons_self, hu, Reach.refl r⟩
      · exact Or.inl h
    · rcases List.mem_append.mp hw with hw | hw
      · exact Or.inr ⟨x, List.mem_cons_self, hu, Reach.head ⟨hw, hwU⟩ hreach⟩
      · exact Or.inr ⟨w, List.mem_cons_of_mem _ hw, hwU, hreach⟩
  | case4 seen x work hs hu ih =>
    intro r hr
    rcases ih r hr with h | ⟨w, hw, hwU, hreach⟩
    · exact Or.inl h
    · exact Or.inr ⟨w, List.mem_cons_of_mem _ hw, hwU, hreach⟩

/-- the result extends seen, contains U-members of work, and is closed provided seen was closed modulo work -/
theorem go_complete (U : List α) (step : α → List α) (work seen : List α)
    (hinv : ∀ a ∈ seen, ∀ b, Step U step a b → b ∈ seen ∨ b ∈ work) :
    (∀ a ∈ seen, a ∈ go U step work seen) ∧
    (∀ w ∈ work, w ∈ U → w ∈ go U step work seen) ∧
    (∀ a ∈ go U step work seen, ∀ b, Step U step a b → b ∈ go U step work seen) := by
  fun_induction go U step work seen with
  | case1 seen =>
    refine ⟨fun a h => h, (fun w h _ => by cases h), ?_⟩
    intro a ha b hb
    rcases hinv a ha b hb with h | h
    · exact h
    · cases h
  | case2 seen x work hs ih =>
    have hinv' : ∀ a ∈ seen, ∀ b, Step U step a b → b ∈ seen ∨ b ∈ work := by
      intro a ha b hb
      rcases hinv a ha b hb with h | h
      · exact Or.inl h
      · rcases List.mem_cons.mp h with rfl | h
        · exact Or.inl hs
        · exact Or.inr h
    obtain ⟨h1, h2, h3⟩ := ih hinv'
    refine ⟨h1, ?_, h3⟩
    intro w hw hwU
    rcases List.mem_cons.mp hw with rfl | hw
    · exact h1 _ hs
    · exact h2 w hw hwU
  | case3 seen x work hs hu ih =>
    have hinv' : ∀ a ∈ x :: seen, ∀ b, Step U step a b → b ∈ x :: seen ∨ b ∈ step x ++ work := by
      intro a ha b hb
      rcases List.mem_cons.mp ha with rfl | ha
      · exact Or.inr (List.mem_append_left _ hb.1)
      · rcases hinv a ha b hb with h | h
        · exact Or.inl (List.mem_cons_of_mem _ h)
        · rcases List.mem_cons.mp h with rfl | h
          · exact Or.inl List.mem_cons_self
          · exact Or.inr (List.mem_append_right _ h)
    obtain ⟨h1, h2, h3⟩ := ih hinv'
    refine ⟨fun a ha => h1 a (List.mem_cons_of_mem _ ha), ?_, h3⟩
    intro w hw hwU
    rcases List.mem_cons.mp hw with rfl | hw
    · exact h1 _ List.mem_cons_self
    · exact h2 w (List.mem_append_right _ hw) hwU
  | case4 seen x work hs hu ih =>
    have hinv' : ∀ a ∈ seen, ∀ b, Step U step a b → b ∈ seen ∨ b ∈ work := by
      intro a ha b hb
      rcases hinv a ha b hb with h | h
      · exact Or.inl h
      · rcases List.mem_cons.mp h with rfl | h
        · exact absurd hb.2 hu
        · exact Or.inr h
    obtain ⟨h1, h2, h3⟩ := ih hinv'
    refine ⟨h1, ?_, h3⟩
    intro w hw hwU
    rcases List.mem_cons.mp hw with rfl | hw
    · exact absurd hwU hu
    · exact h2 w hw hwU

/-- closure of an initial list -/
def closure (U : List α) (step : α → List α) (init : List α) : List α := go U step init []

theorem mem_closure (U : List α) (step : α → List α) (init : List α) (r : α) :
    r ∈ closure U step init ↔ ∃ w ∈ init, w ∈ U ∧ Reach U step w r := by
  constructor
  · intro h
    rcases go_sound U step init [] r h with h | h
    · cases h
    · exact h
  · rintro ⟨w, hw, hwU, hreach⟩
    obtain ⟨_, h2, h3⟩ := go_complete U step init [] (by intro a ha; cases ha)
    induction hreach with
    | refl => exact h2 w hw hwU
    | tail _ s ih => exact h3 _ ih _ s

end Closure
