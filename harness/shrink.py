"""Delta-debugging style shrinking of graph cases and operation lists."""
import copy


def _graph_variants(g):
    for k in ("D", "B", "U", "C"):
        for i in range(len(g.get(k, []))):
            h = copy.deepcopy(g)
            del h[k][i]
            yield h


def _drop_node(case, v, setkeys):
    """remove node v (must not be in any of the set arguments that have to stay non-empty)"""
    g = case["g"]
    nodes = g.get("N", list(range(g["n"])))
    if v not in nodes:
        return None
    ren = {}
    keep = [u for u in nodes if u != v]
    for i, u in enumerate(sorted(keep)):
        ren[u] = i
    h = {"n": g["n"] - 1}
    if "N" in g:
        h["N"] = [ren[u] for u in g["N"] if u != v]
    for k in ("D", "B", "U", "C"):
        h[k] = [[ren[a], ren[b]] for a, b in g.get(k, []) if a != v and b != v]
    c = copy.deepcopy(case)
    c["g"] = h
    for sk in setkeys:
        if sk in c and isinstance(c[sk], list):
            if v in c[sk]:
                return None
            c[sk] = [ren[u] for u in c[sk]]
        elif sk in c and isinstance(c[sk], int):
            if c[sk] == v:
                return None
            c[sk] = ren[c[sk]]
    return c


def _bounded(fails, budget_s=90.0, per_call_cpu_s=20.0):
    """`fails` under a CPU-time limit per evaluation (a call that does not return still FAILS) and a wall-clock budget
    for the whole shrink (afterwards every candidate is rejected, i.e. the current case is kept)"""
    import time
    from . import common as C
    t_end = time.time() + budget_s

    def f(c):
        if time.time() > t_end:
            return False
        try:
            with C.time_limit(per_call_cpu_s):
                return fails(c)
        except C.CallTimeout:
            return True
    return f



def shrink_case(case, fails, setkeys=("X", "Y", "Z", "L", "S", "I", "R", "x", "y", "u", "a", "c", "s", "t"),
                optional_sets=("Z", "L", "S", "I"), max_rounds=200):
    """greedy shrink while `fails(case)` stays true"""
    fails = _bounded(fails)
    cur = copy.deepcopy(case)
    for k in ("layers", "cls", "fam", "names"):
        if k in cur:
            c = copy.deepcopy(cur)
            del c[k]
            try:
                if fails(c):
                    cur = c
            except Exception:
                pass
    rounds = 0
    progress = True
    while progress and rounds < max_rounds:
        progress = False
        rounds += 1
        cands = []
        for h in _graph_variants(cur["g"]):
            c = copy.deepcopy(cur)
            c["g"] = h
            cands.append(c)
        for sk in optional_sets:
            if isinstance(cur.get(sk), list):
                for i in range(len(cur[sk])):
                    c = copy.deepcopy(cur)
                    del c[sk][i]
                    cands.append(c)
        for v in list(cur["g"].get("N", range(cur["g"]["n"]))):
            c = _drop_node(cur, v, setkeys)
            if c is not None:
                cands.append(c)
        for c in cands:
            try:
                if fails(c):
                    cur = c
                    progress = True
                    break
            except Exception:
                continue
    return cur


def shrink_ops(ops, fails, max_rounds=400):
    fails = _bounded(fails)
    """ddmin-lite on an operation list"""
    cur = list(ops)
    n = 2
    rounds = 0
    while len(cur) >= 2 and rounds < max_rounds:
        rounds += 1
        chunk = max(1, len(cur) // n)
        reduced = False
        for i in range(0, len(cur), chunk):
            cand = cur[:i] + cur[i + chunk:]
            try:
                if cand and fails(cand):
                    cur = cand
                    n = max(n - 1, 2)
                    reduced = True
                    break
            except Exception:
                continue
        if not reduced:
            if chunk == 1:
                break
            n = min(len(cur), n * 2)
    return cur
