#!/bin/bash
# usage: tools/eval_seeded.sh [jobs] [ids...]  — run each seeded change against its property's quick check in its own
# scratch worktree (PW_REPO), record the outcome in seeded/<id>/result.txt.  Evidence files get overwritten: re-run
# the checks on the clean tree afterwards.
jobs=${1:-4}; shift
cd /verif
ids=${@:-$(ls seeded | grep '^C')}
ev1() {
  id=$1; p=${id%%-*}; wt=/tmp/ev-$id
  git -C /repo worktree add -q --detach $wt HEAD 2>/dev/null || { echo "$id: worktree failed"; return; }
  cp -r /repo/pywhy_graphs.egg-info $wt/ 2>/dev/null
  if git -C $wt apply /verif/seeded/$id/patch.diff 2>/dev/null; then
    PW_REPO=$wt ./check $p --tier quick > /tmp/ev-$id.log 2>&1; rc=$?
    line=$(grep -h '^VIOLATION' /tmp/ev-$id.log | head -1)
    echo "$id check=$p rc=$rc $line" | tee seeded/$id/result.txt
  else
    echo "$id PATCH-DOES-NOT-APPLY" | tee seeded/$id/result.txt
  fi
  git -C /repo worktree remove --force $wt
}
export -f ev1
echo $ids | tr ' ' '\n' | xargs -P $jobs -I{} bash -c 'ev1 {}'
