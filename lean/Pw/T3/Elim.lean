import Pw.T3.Bucket
open Closure

/-! # T3, part 3: sinks relative to a set `A` of alive nodes; the key lemma `qc`

`GSink G A t`: `t ∈ A` has no `G`-child in `A`.  `Elig G A t`: moreover the neighbours of `t` in `A`
are pairwise adjacent (an "eligible sink" of the induced subgraph in the Dor–Tarsi sense, in a graph
without v-structures). -/
namespace T3
open C08 MG

variable {G D : MG}

def GSink (G : MG) (A : List Nat) (t : Nat) : Prop := t ∈ A ∧ ∀ c ∈ A, (t, c) ∉ G.dir

def Elig (G : MG) (A : List Nat) (t : Nat) : Prop :=
  GSink G A t ∧ ∀ u ∈ A, ∀ w ∈ A, Skel G t u → Skel G t w → u ≠ w → Skel G u w

/-- no v-structure of `G` among the nodes of `A` -/
def NoV (G : MG) (A : List Nat) : Prop :=
  ∀ p ∈ A, ∀ x ∈ A, ∀ p' ∈ A, ¬ C08.VStruct G p x p'

/-- `A` without `s` -/
def rm (A : List Nat) (s : Nat) : List Nat := A.filter (· != s)

theorem mem_rm {A : List Nat} {s v : Nat} : v ∈ rm A s ↔ v ∈ A ∧ v ≠ s := by
  simp [rm]

theorem length_rm_lt {A : List Nat} {s : Nat} (h : s ∈ A) : (rm A s).length < A.length := by
  have h1 := List.countP_eq_length_filter (p := (· != s)) (l := A)
  have h2 : A.countP (· != s) < A.countP (fun _ => true) :=
    Closure.countP_lt' _ _ (by intros; rfl) A s h rfl (by simp)
  simp only [List.countP_true] at h2
  unfold rm
  omega

theorem NoV.rm {A : List Nat} (h : NoV G A) (s : Nat) : NoV G (rm A s) :=
  fun p hp x hx p' hp' => h p (mem_rm.mp hp).1 x (mem_rm.mp hx).1 p' (mem_rm.mp hp').1

/-- a sink of `D` within `A` is eligible -/
theorem Ctx.dsink_elig (h : Ctx G D) {A : List Nat} (hv : NoV G A) {s : Nat} (hs : s ∈ A)
    (hsink : ∀ c ∈ A, (s, c) ∉ D.dir) : Elig G A s := by
  refine ⟨⟨hs, fun c hc e => hsink c hc (h.sub e)⟩, ?_⟩
  intro u hu w hw hsu hsw huw
  have into : ∀ y ∈ A, Skel G s y → (y, s) ∈ D.dir := by
    intro y hy hsy
    rcases ext_dir_of_skel h.ext hsy with a | a
    · exact absurd a (hsink y hy)
    · exact a
  apply Classical.byContradiction
  intro hn
  have : C08.VStruct D u s w :=
    ⟨into u hu hsu, into w hw hsw, huw, fun a => hn ((h.ext.skel u w).mp a)⟩
  exact hv u hu s hs w hw ((h.ext.vstruct u s w).mp this)

theorem Ctx.exists_elig (h : Ctx G D) {A : List Nat} (hv : NoV G A) (hne : A ≠ []) :
    ∃ s, Elig G A s := by
  obtain ⟨s, hs, hsink⟩ := C05.exists_sink D h.ext.acyclic A hne
  exact ⟨s, h.dsink_elig hv hs hsink⟩

/-! ## directed paths inside `A` -/

/-- a directed edge of `G` whose head lies in `A` -/
def drIn (G : MG) (A : List Nat) (a b : Nat) : Prop := (a, b) ∈ G.dir ∧ b ∈ A

theorem tc_drIn_mem {A : List Nat} {a b : Nat} (h : TC (drIn G A) a b) : b ∈ A := by
  cases h with
  | base e => exact e.2
  | snoc _ e => exact e.2

theorem tc_drIn_dr {A : List Nat} {a b : Nat} (h : TC (drIn G A) a b) : TC (dr G) a b :=
  h.mono fun _ _ e => e.1

open Classical in
/-- every node of `A` reaches a `G`-sink of `A` by a directed path inside `A` -/
theorem Ctx.reach_sink (h : Ctx G D) {A : List Nat} {u : Nat} (hu : u ∈ A) :
    ∃ t, GSink G A t ∧ (u = t ∨ TC (drIn G A) u t) := by
  let R := A.filter fun v => decide (u = v ∨ TC (drIn G A) u v)
  have huR : u ∈ R := List.mem_filter.mpr ⟨hu, by simp⟩
  obtain ⟨t, ht, hsink⟩ := C05.exists_sink G (acyclic_of_ext h.ext) R (List.ne_nil_of_mem huR)
  obtain ⟨htA, hr⟩ := List.mem_filter.mp ht
  have hr' : u = t ∨ TC (drIn G A) u t := by simpa using hr
  refine ⟨t, ⟨htA, fun c hc e => hsink c ?_ e⟩, hr'⟩
  refine List.mem_filter.mpr ⟨hc, ?_⟩
  have : u = c ∨ TC (drIn G A) u c := by
    rcases hr' with rfl | hr'
    · exact Or.inr (TC.base ⟨e, hc⟩)
    · exact Or.inr (TC.snoc hr' ⟨e, hc⟩)
  simpa using this

/-- a path inside `A` from a node outside `P` to a node in `P` has a step that enters `P` -/
theorem crossing {A : List Nat} {P : Nat → Prop} {u t : Nat} (hu : u ∈ A) (hp : TC (drIn G A) u t)
    (hnu : ¬ P u) (ht : P t) :
    ∃ w l, (u = w ∨ TC (dr G) u w) ∧ w ∈ A ∧ l ∈ A ∧ ¬ P w ∧ P l ∧ (w, l) ∈ G.dir := by
  induction hp with
  | base e => exact ⟨u, _, Or.inl rfl, hu, e.2, hnu, ht, e.1⟩
  | @snoc b c hub e ih =>
    by_cases hb : P b
    · exact ih hb
    · exact ⟨b, c, Or.inr (tc_drIn_dr hub), tc_drIn_mem hub, e.2, hb, ht, e.1⟩

/-- if every `G`-sink of `A − s` is adjacent to the `G`-sink `s`, then every neighbour in `A` of a
    `G`-sink `t0` with `s - t0` is adjacent to `s` -/
theorem Ctx.caseB (h : Ctx G D) {A : List Nat} {s t0 u : Nat} (hs : GSink G A s)
    (hall : ∀ t1, GSink G (rm A s) t1 → Skel G s t1) (ht0 : GSink G A t0) (hst : HasUn G s t0)
    (huA : u ∈ A) (hus : u ≠ s) (htu : Skel G t0 u) : Skel G s u := by
  apply Classical.byContradiction
  intro hn
  have hn' : ¬ Skel G u s := fun a => hn a.symm
  have htu' : HasUn G t0 u := by
    rcases skel_cases htu with a | a | a
    · exact absurd a (ht0.2 u huA)
    · exact absurd (h.r1 a hst.symm) hn'
    · exact a
  have hu' : u ∈ rm A s := mem_rm.mpr ⟨huA, hus⟩
  obtain ⟨t', ht', hr⟩ := h.reach_sink hu'
  rcases hr with rfl | hr
  · exact hn (hall _ ht')
  obtain ⟨w, l, huw, hw, hl, hnw, hsl, hwl⟩ := crossing (P := fun v => Skel G s v) hu' hr hn (hall _ ht')
  have hwA := (mem_rm.mp hw).1
  have hlA := (mem_rm.mp hl).1
  have hnw' : ¬ Skel G w s := fun a => hnw a.symm
  have hul : TC (dr G) u l := by
    rcases huw with rfl | huw
    · exact TC.base hwl
    · exact TC.snoc huw hwl
  have hls : (l, s) ∈ G.dir := by
    rcases skel_cases hsl with a | a | a
    · exact absurd a (hs.2 l hlA)
    · exact a
    · exact absurd (h.r1 hwl a.symm) hnw'
  rcases skel_cases (h.r1 hls hst) with a | a | a
  · rcases skel_cases (h.r1 a htu') with b | b | b
    · exact h.no_cycle u (TC.snoc hul b)
    · exact h.r4 hus htu' b hls hn' hst.symm
    · exact h.chain hul b.symm
  · exact ht0.2 l hlA a
  · rcases skel_cases (h.r1 hwl a) with b | b | b
    · exact hnw' (h.r1 b hst.symm)
    · exact ht0.2 w hwA b
    · exact h.r4 (mem_rm.mp hw).2 b.symm hwl hls hnw' hst.symm

/-- **key lemma.** In a set `A` without v-structures, if some `G`-sink of `A` lies outside the clique
    `C`, then some eligible sink of `A` lies outside `C`. -/
theorem Ctx.qc (h : Ctx G D) : ∀ (n : Nat) (A : List Nat), A.length ≤ n → NoV G A →
    ∀ (C : Nat → Prop), (∀ u w, C u → C w → u ≠ w → Skel G u w) →
    ∀ t0, GSink G A t0 → ¬ C t0 → ∃ t, Elig G A t ∧ ¬ C t := by
  intro n
  induction n with
  | zero =>
    intro A hlen _ C _ t0 ht0 _
    have : A = [] := List.eq_nil_of_length_eq_zero (Nat.le_zero.mp hlen)
    rw [this] at ht0
    cases ht0.1
  | succ n ih =>
    intro A hlen hv C hC t0 ht0 hCt0
    obtain ⟨s, hsE⟩ := h.exists_elig hv (List.ne_nil_of_mem ht0.1)
    by_cases hCs' : ¬ C s
    · exact ⟨s, hsE, hCs'⟩
    have hCs : C s := Classical.not_not.mp hCs'
    have hs0 : t0 ≠ s := fun e => hCt0 (e ▸ hCs)
    by_cases hA : ∃ t1, GSink G (rm A s) t1 ∧ ¬ Skel G s t1
    · obtain ⟨t1, ht1, hn1⟩ := hA
      have hl : (rm A s).length ≤ n := by
        have := length_rm_lt hsE.1.1
        omega
      obtain ⟨t, htE, hCt⟩ := ih (rm A s) hl (hv.rm s) (fun v => v ∈ A ∧ Skel G s v)
        (fun u w hu hw huw => hsE.2 u hu.1 w hw.1 hu.2 hw.2 huw) t1 ht1
        (fun a => hn1 a.2)
      obtain ⟨htA, hts⟩ := mem_rm.mp htE.1.1
      have hnst : ¬ Skel G s t := fun a => hCt ⟨htA, a⟩
      have hnts : ¬ Skel G t s := fun a => hnst a.symm
      refine ⟨t, ⟨⟨htA, ?_⟩, ?_⟩, ?_⟩
      · intro c hc e
        by_cases hcs : c = s
        · exact hnts (hcs ▸ skel_of_dir e)
        · exact htE.1.2 c (mem_rm.mpr ⟨hc, hcs⟩) e
      · intro u hu w hw htu htw huw
        have hus : u ≠ s := fun e => hnts (e ▸ htu)
        have hws : w ≠ s := fun e => hnts (e ▸ htw)
        exact htE.2 u (mem_rm.mpr ⟨hu, hus⟩) w (mem_rm.mpr ⟨hw, hws⟩) htu htw huw
      · exact fun a => hnts (hC t s a hCs hts)
    · have hall : ∀ t1, GSink G (rm A s) t1 → Skel G s t1 := fun t1 ht1 =>
        Classical.byContradiction fun hn => hA ⟨t1, ht1, hn⟩
      have ht0' : GSink G (rm A s) t0 :=
        ⟨mem_rm.mpr ⟨ht0.1, hs0⟩, fun c hc => ht0.2 c (mem_rm.mp hc).1⟩
      have hst : HasUn G s t0 := by
        rcases skel_cases (hall t0 ht0') with a | a | a
        · exact absurd a (hsE.1.2 t0 ht0.1)
        · exact absurd a (ht0.2 s hsE.1.1)
        · exact a
      refine ⟨t0, ⟨ht0, ?_⟩, hCt0⟩
      intro u hu w hw htu htw huw
      by_cases hus : u = s
      · have hws : w ≠ s := fun e => huw (hus.trans e.symm)
        exact hus ▸ h.caseB hsE.1 hall ht0 hst hw hws htw
      · by_cases hws : w = s
        · exact hws ▸ (h.caseB hsE.1 hall ht0 hst hu hus htu).symm
        · exact hsE.2 u hu w hw (h.caseB hsE.1 hall ht0 hst hu hus htu)
            (h.caseB hsE.1 hall ht0 hst hw hws htw) huw

end T3
