import Pw.T5b.Reduce
open Closure MG

/-! # T5b, part 3e: an m-connection in `D` given `Z ∪ S` yields an m-connection in the MAG given `Z` -/
namespace T5b
open C06

variable {D M : MG} {L S : List Nat}

theorem obs_of_mem (hs : MagStructure D L S M) {v : Nat} (h : v ∈ M.nodes) : Obs D L S v :=
  (hs.nodes v).mp h

/-- **T5b, direction "D ⇒ M".** -/
theorem not_msep_M_of_not_msep_D (su : Setup D L S M) {x y : Nat} {Z : List Nat}
    (hx : x ∈ M.nodes) (hy : y ∈ M.nodes) (hZ : ∀ z ∈ Z, z ∈ M.nodes ∧ z ≠ x ∧ z ≠ y)
    (h : ¬ MSep D [x] [y] (Z ++ S)) : ¬ MSep M [x] [y] Z := by
  have hMwf := mag_wf su.hs
  have hMb := mag_noUndirAtHead su.hs su.acy
  have hMsl := mag_noSelfLoop su.hs
  have hDb : NoUndirAtHead D := noUndirAtHead_of_un_nil D su.un
  have hxo := obs_of_mem su.hs hx
  have hyo := obs_of_mem su.hs hy
  have hxZ : ∀ a ∈ [x], a ∉ Z := by
    intro a ha hz; simp at ha; subst ha; exact (hZ a hz).2.1 rfl
  have hyZ : ∀ a ∈ [y], a ∉ Z := by
    intro a ha hz; simp at ha; subst ha; exact (hZ a hz).2.2 rfl
  have hZs : ∀ z ∈ Z ++ S, z ∈ D.nodes := by
    intro z hz
    rcases List.mem_append.mp hz with hz | hz
    · exact ((su.hs.nodes z).mp (hZ z hz).1).1
    · exact su.hSn z hz
  have hxZs : ∀ a ∈ [x], a ∉ Z ++ S := by
    intro a ha hz; simp at ha; subst ha
    rcases List.mem_append.mp hz with hz | hz
    · exact (hZ a hz).2.1 rfl
    · exact hxo.2.2 hz
  have hyZs : ∀ a ∈ [y], a ∉ Z ++ S := by
    intro a ha hz; simp at ha; subst ha
    rcases List.mem_append.mp hz with hz | hz
    · exact (hZ a hz).2.2 rfl
    · exact hyo.2.2 hz
  rw [mSep_iff_moral_cut D su.wf hDb su.sl [x] [y] (Z ++ S) hZs hxZs hyZs] at h
  rw [mSep_iff_moral_cut M hMwf hMb hMsl [x] [y] Z (fun z hz => (hZ z hz).1) hxZ hyZ]
  intro hno
  apply h
  rintro ⟨x', hx', y', hy', hh⟩
  simp at hx' hy'; subst hx'; subst hy'
  apply hno
  obtain ⟨hs, hv, hend, ho, hall⟩ := semiOpen_of_hconn hh ⟨x', by simp, Ant.refl x'⟩
  have hxA : AntSet M [x'] [y'] Z x' := ⟨x', by simp, Ant.refl x'⟩
  cases hs with
  | nil =>
    simp only [endNode] at hend
    subst hend
    exact ⟨x', by simp, x', by simp, HConn.refl _⟩
  | cons hop t =>
    obtain ⟨hv1, hv2⟩ := hv
    obtain ⟨_, ho2⟩ := ho
    -- targets
    have hT : ∀ t ∈ [x'] ++ [y'] ++ Z, Obs D L S t ∧ t ∈ [x'] ++ [y'] ++ Z := by
      intro t ht
      refine ⟨?_, ht⟩
      simp only [List.mem_append, List.mem_cons, List.mem_nil_iff, or_false] at ht
      rcases ht with (rfl | rfl) | ht
      · exact hxo
      · exact hyo
      · exact obs_of_mem su.hs (hZ t ht).1
    have hnodes := nodesOf_mem_nodes su.wf hxo.1 (hs := hop :: t) ⟨hv1, hv2⟩
    have hall' : ∀ w ∈ nodesOf hop.nx t,
        w ∈ D.nodes ∧ (AnS D S w ∨ ∃ t ∈ [x'] ++ [y'] ++ Z, Anc D w t) := by
      intro w hw
      have hmem : w ∈ nodesOf x' (hop :: t) := by
        simp only [nodesOf, List.map_cons, List.mem_cons] at hw ⊢
        exact Or.inr hw
      refine ⟨hnodes w hmem, ?_⟩
      obtain ⟨tt, htt, hant⟩ := hall w hmem
      have hanc := T5.anc_of_ant su.un hant
      simp only [List.mem_append] at htt
      rcases htt with htt | htt | htt
      · exact Or.inr ⟨tt, by simp only [List.mem_append]; exact Or.inl htt, hanc⟩
      · exact Or.inr ⟨tt, by simp only [List.mem_append]; exact Or.inr htt, hanc⟩
      · exact Or.inl ⟨tt, htt, hanc⟩
    have hyG : Good D L S Z ([x'] ++ [y'] ++ Z) y' false :=
      ⟨hyo, Or.inr ⟨y', by simp, Anc.refl y'⟩, (by intro h; cases h), fun _ => hyZ y' (by simp)⟩
    obtain ⟨o, co, π, l, pv, pe, po, pex, pgood, pchain, pend, plast⟩ :=
      walk_to_chain su (fun t ht => (hT t ht).1) hyG t hop.nx hop.mn hv2 ho2 hall'
        (by simpa [endNode] using hend)
    have hchain : ChainOK D L S Z ([x'] ++ [y'] ++ Z) x' false ((o, co) :: l) :=
      ⟨lk_of_pending hv1 pv pe po pex (by intro h; cases h), pgood, pchain⟩
    obtain ⟨l', hc', hi', he', hf'⟩ := reduce_all _ _ (Nat.le_refl _) hchain
    have hlf : lastFlag false l' = false := by rw [hf']; exact plast
    obtain ⟨mv, mo, me⟩ := conv su l' x' false none hxo hc' hi' hlf (by intro h; cases h)
      (fun _ => Or.inr rfl)
    have mall := mkW_inAnt su hT l' x' false hxA hc' mv
    have hfin : endNode x' (mkW D S x' l') = y' := by
      rw [me, he']; exact pend
    have := hconn_of_semiOpen (A := AntSet M [x'] [y'] Z) (mkW D S x' l') x' x' [] trivial rfl trivial
      (by intro w hw; simp [nodesOf] at hw; rw [hw]; exact hxA) mv mo mall
      (by rw [hfin]; exact hyZ y' (by simp))
    rw [hfin] at this
    exact ⟨x', by simp, y', by simp, this⟩

end T5b
