import Pw.Core.Proto
import Pw.C01.Guard
import Pw.C12.Spec
open Proto

namespace C12

/-- edges of the DAG-moral specification (skeleton + married parents), pairs u < v -/
def dagMoralEdges (G : MG) : List (Nat × Nat) :=
  G.nodes.flatMap fun u => (G.nodes.filter fun v =>
    u < v && (decide ((u, v) ∈ G.dir) || decide ((v, u) ∈ G.dir) ||
      G.nodes.any fun c => decide ((u, c) ∈ G.dir) && decide ((v, c) ∈ G.dir))).map fun v => (u, v)

/-- `moral n=.. D= B= U=` → `N=<nodes> E=<model edges> S=<edges demanded by the spec (brute force)>` -/
def handleMoral : Handler := fun a =>
  let G := a.graph
  let H := moral G
  "N=" ++ fmtSet H.nodes ++ " E=" ++ fmtUndSet H.edges ++ " S=" ++ fmtUndSet (specEdges G)

/-- `moral0` – the code before the fix (for the counterexample / triage) -/
def handleMoral0 : Handler := fun a =>
  let H := moralUnfixed a.graph
  "N=" ++ fmtSet H.nodes ++ " E=" ++ fmtUndSet H.edges

/-- `dagmoral n=.. D=` → edges of skeleton + married parents -/
def handleDagMoral : Handler := fun a => "E=" ++ fmtUndSet (dagMoralEdges a.graph)

def ugOf (a : Args) : UG :=
  { nodes := if a.has "N" then a.nats "N" else List.range (a.nat "n"), edges := a.pairs "E" }

/-- `vcut n=.. E=a-b,.. X= Y= Z=` → `T`/`F`: Z is a vertex cut between X and Y -/
def handleVcut : Handler := fun a =>
  fmtBool (vcut (ugOf a) (a.nats "X") (a.nats "Y") (a.nats "Z"))

/-- `moralsep <graph> X= Y= Z=` → `msep=<T|F|err:..> cut=<T|F> ant=<anterior set>`:
    both sides of the second sentence of C12, by the models -/
def handleMoralSep : Handler := fun a =>
  let G := a.graph
  let X := a.nats "X"; let Y := a.nats "Y"; let Z := a.nats "Z"
  let ms := match MG.mSeparatedE G X Y Z with
    | .ok b => fmtBool b
    | .error e => "err:" ++ e
  "msep=" ++ ms ++ " cut=" ++ fmtBool (moralSep G X Y Z) ++ " ant=" ++ fmtSet (anterior G (X ++ Y ++ Z))

def handlers : List (String × Handler) :=
  [("moral", handleMoral), ("moral0", handleMoral0), ("dagmoral", handleDagMoral),
   ("vcut", handleVcut), ("moralsep", handleMoralSep)]
end C12
