import Pw.Core.Proto

/-! # C14 — lag array of a stationary time-series graph (`tsgraph_to_numpy` / `numpy_to_tsgraph`)

A node `(x, -lag)` of the library is the pair `(x, lag)` here (lag ≥ 0, variables `0..nv-1`). -/
namespace C14

abbrev TsNode := Nat × Nat

structure TsG where
  nv : Nat
  maxLag : Nat
  directed : Bool
  edges : List (TsNode × TsNode)
deriving Repr

/-- `G.has_edge(a, b)` of `nx.DiGraph` / `nx.Graph` -/
def TsG.hasEdge (G : TsG) (a b : TsNode) : Bool :=
  G.edges.contains (a, b) || (!G.directed && G.edges.contains (b, a))

abbrev Arr := Nat → Nat → Nat → Int

/-- `tsgraph_to_numpy`: `arr[i, j, lag] = 1` iff `G.has_edge((x_i, -lag), (x_j, 0))` -/
def tsEnc (G : TsG) : Arr := fun i j lag => if G.hasEdge (i, lag) (j, 0) then 1 else 0

/-- `add_homologous_edges((x, -lag), (y, 0))`: the copies `((x, -(lag+k)), (y, -k))`, `k = 0..L-lag` -/
def homologous (L x lag y : Nat) : List (TsNode × TsNode) :=
  (List.range (L + 1 - lag)).map fun k => ((x, lag + k), (y, k))

/-- `numpy_to_tsgraph`: for every `(y, 0)`, lag and `(x, -lag)` with `arr[x, y, lag] > 0` call
    `G.add_edge((x, -lag), (y, 0))` -/
def tsDec (directed : Bool) (nv L : Nat) (A : Arr) : TsG :=
  { nv := nv, maxLag := L, directed := directed,
    edges := (List.range nv).flatMap fun y => (List.range (L + 1)).flatMap fun lag =>
      (List.range nv).flatMap fun x => if A x y lag > 0 then homologous L x lag y else [] }

end C14
