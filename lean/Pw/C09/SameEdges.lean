import Pw.C09.ValidSep
open Closure

/-! # Graphs with the same edges (up to the listing of the edge lists) have the same marks, the same
ancestor relation and the same m-separations.  Used to state which class the PAG oracle enumerates. -/
namespace C09
open MG

/-- same edges, whatever the order, multiplicity and (for symmetric layers) orientation of the stored pairs -/
structure SameEdges (A B : MG) : Prop where
  dir : ∀ a b, (a, b) ∈ A.dir ↔ (a, b) ∈ B.dir
  bi : ∀ a b, ((a, b) ∈ A.bi ∨ (b, a) ∈ A.bi) ↔ ((a, b) ∈ B.bi ∨ (b, a) ∈ B.bi)
  un : ∀ a b, ((a, b) ∈ A.un ∨ (b, a) ∈ A.un) ↔ ((a, b) ∈ B.un ∨ (b, a) ∈ B.un)
  circ : ∀ a b, (a, b) ∈ A.circ ↔ (a, b) ∈ B.circ

variable {A B : MG}

theorem SameEdges.symm (h : SameEdges A B) : SameEdges B A :=
  ⟨fun a b => (h.dir a b).symm, fun a b => (h.bi a b).symm, fun a b => (h.un a b).symm,
   fun a b => (h.circ a b).symm⟩

theorem SameEdges.hasEdge (h : SameEdges A B) (a b : Nat) (ma mb : Mark) :
    HasEdge A a b ma mb ↔ HasEdge B a b ma mb := by
  simp only [HasEdge, h.dir, h.bi, h.un]

theorem SameEdges.markAt (h : SameEdges A B) (a b : Nat) : markAt A a b = markAt B a b := by
  have e1 : ((a, b) ∈ A.dir ∨ (a, b) ∈ A.bi ∨ (b, a) ∈ A.bi) ↔
      ((a, b) ∈ B.dir ∨ (a, b) ∈ B.bi ∨ (b, a) ∈ B.bi) := by rw [h.dir, h.bi]
  have e2 : ((b, a) ∈ A.dir ∨ (a, b) ∈ A.un ∨ (b, a) ∈ A.un ∨ (b, a) ∈ A.circ) ↔
      ((b, a) ∈ B.dir ∨ (a, b) ∈ B.un ∨ (b, a) ∈ B.un ∨ (b, a) ∈ B.circ) := by
    rw [← or_assoc (a := (a, b) ∈ A.un), ← or_assoc (a := (a, b) ∈ B.un), h.dir, h.un, h.circ]
  unfold C09.markAt
  simp only [h.circ a b, e1, e2]

theorem SameEdges.anc (h : SameEdges A B) {a b : Nat} (hab : Anc A a b) : Anc B a b := by
  induction hab with
  | refl a => exact Anc.refl a
  | step e _ ih => exact Anc.step ((h.dir _ _).mp e) ih

theorem SameEdges.anc_iff (h : SameEdges A B) (a b : Nat) : Anc A a b ↔ Anc B a b :=
  ⟨h.anc, h.symm.anc⟩

theorem SameEdges.validW (h : SameEdges A B) : ∀ (hs : List Hop) (a : Nat), ValidW A a hs ↔ ValidW B a hs
  | [], _ => Iff.rfl
  | hp :: t, a => by simp only [ValidW, h.hasEdge, h.validW t]

theorem SameEdges.colliderOpen (h : SameEdges A B) (Z : List Nat) (v : Nat) :
    ColliderOpen A Z v ↔ ColliderOpen B Z v := by
  unfold ColliderOpen; simp only [h.anc_iff]

theorem SameEdges.condS (h : SameEdges A B) (Z : List Nat) (mi mo : Mark) (v : Nat) :
    condS A Z mi mo v ↔ condS B Z mi mo v := by
  unfold MG.condS; simp only [h.colliderOpen]

theorem SameEdges.openS (h : SameEdges A B) (Z : List Nat) :
    ∀ (hs : List Hop) (e : Option Mark) (a : Nat), OpenS A Z e a hs ↔ OpenS B Z e a hs
  | [], e, a => by cases e <;> simp [OpenS]
  | hp :: t, none, a => by simp only [OpenS]; exact h.openS Z t _ _
  | hp :: t, some m, a => by simp only [OpenS, h.condS, h.openS Z t _ _]

theorem SameEdges.mSep (h : SameEdges A B) (X Y Z : List Nat) : MSep A X Y Z ↔ MSep B X Y Z := by
  unfold MSep MConnPath
  simp only [h.validW, h.openS]

theorem SameEdges.acyclic (h : SameEdges A B) : Acyclic A ↔ Acyclic B := by
  unfold Acyclic; simp only [h.dir, h.anc_iff]

theorem SameEdges.ancestral (h : SameEdges A B) : Ancestral A ↔ Ancestral B := by
  unfold Ancestral; simp only [h.acyclic, h.bi, h.anc_iff]

theorem SameEdges.markovEquiv (h : SameEdges A B) (M0 : MG) : MarkovEquiv M0 A ↔ MarkovEquiv M0 B := by
  unfold MarkovEquiv; simp only [h.mSep]

theorem SameEdges.wf (h : SameEdges A B) (hn : A.nodes = B.nodes) (hw : A.WF) : B.WF := by
  refine ⟨?_, ?_, ?_⟩
  · rintro ⟨a, b⟩ he; rw [← hn]; exact hw.1 _ ((h.dir a b).mpr he)
  · rintro ⟨a, b⟩ he
    rw [← hn]
    rcases (h.bi a b).mpr (Or.inl he) with h1 | h1
    · exact hw.2.1 _ h1
    · exact (hw.2.1 _ h1).symm
  · rintro ⟨a, b⟩ he
    rw [← hn]
    rcases (h.un a b).mpr (Or.inl he) with h1 | h1
    · exact hw.2.2 _ h1
    · exact (hw.2.2 _ h1).symm

end C09
