import Pw.C10.Spec
open Closure

/-! # C10, first sentence: the model satisfies the structure specification

For every label type, every *injective* name supply `fresh` and every well-formed input – including
inputs whose labels are generated names – `conv fresh G` is G's node dict followed by one new node
per bidirected edge; the new nodes are pairwise distinct, not nodes of G, parentless, and their
children are exactly the two endpoints. -/
namespace C10
variable {α : Type} [DecidableEq α]

/-! ## the `DiGraph` primitives -/

theorem DG.addNode_of_not_mem {R : DG α} {u : α} {a : Attr} (h : u ∉ R.names) :
    R.addNode u a = { R with nodes := R.nodes ++ [(u, a)] } := by
  simp [DG.addNode, h]

theorem DG.ensureNode_of_mem {R : DG α} {v : α} (h : v ∈ R.names) : R.ensureNode v = R := by
  simp [DG.ensureNode, h]

theorem DG.addEdge_nodes {R : DG α} {u v : α} (hu : u ∈ R.names) (hv : v ∈ R.names) :
    (R.addEdge u v).nodes = R.nodes := by
  simp only [DG.addEdge, DG.ensureNode_of_mem hu, DG.ensureNode_of_mem hv]
  split <;> rfl

theorem DG.mem_addEdge_edges {R : DG α} {u v : α} (hu : u ∈ R.names) (hv : v ∈ R.names) (q : α × α) :
    q ∈ (R.addEdge u v).edges ↔ q ∈ R.edges ∨ q = (u, v) := by
  simp only [DG.addEdge, DG.ensureNode_of_mem hu, DG.ensureNode_of_mem hv]
  split
  · rename_i h
    constructor
    · exact Or.inl
    · rintro (h' | rfl)
      · exact h'
      · exact h
  · simp

theorem DG.addEdge_names {R : DG α} {u v : α} (hu : u ∈ R.names) (hv : v ∈ R.names) :
    (R.addEdge u v).names = R.names := by
  simp [DG.names, DG.addEdge_nodes hu hv]

/-! ## `add_nodes_from`, `add_edges_from` -/

theorem foldl_addNode (l : List (α × Attr)) : ∀ (R : DG α), (l.map (·.1)).Nodup →
    (∀ p ∈ l, p.1 ∉ R.names) →
    (l.foldl (fun R p => R.addNode p.1 p.2) R).nodes = R.nodes ++ l ∧
    (l.foldl (fun R p => R.addNode p.1 p.2) R).edges = R.edges := by
  induction l with
  | nil => intro R _ _; simp
  | cons p l ih =>
    intro R hnd hdisj
    simp only [List.map_cons, List.nodup_cons] at hnd
    have hp : p.1 ∉ R.names := hdisj p List.mem_cons_self
    rw [List.foldl_cons, DG.addNode_of_not_mem hp]
    have := ih { R with nodes := R.nodes ++ [(p.1, p.2)] } hnd.2 (by
      intro q hq
      simp only [DG.names, List.map_append, List.map_cons, List.map_nil, List.mem_append,
        List.mem_singleton, not_or]
      refine ⟨hdisj q (List.mem_cons_of_mem _ hq), ?_⟩
      intro heq
      exact hnd.1 (heq ▸ List.mem_map.mpr ⟨q, hq, rfl⟩))
    simpa using this

theorem foldl_addEdge (l : List (α × α)) : ∀ (R : DG α), (∀ e ∈ l, e.1 ∈ R.names ∧ e.2 ∈ R.names) →
    (l.foldl (fun R e => R.addEdge e.1 e.2) R).nodes = R.nodes ∧
    ∀ q, q ∈ (l.foldl (fun R e => R.addEdge e.1 e.2) R).edges ↔ q ∈ R.edges ∨ q ∈ l := by
  induction l with
  | nil => intro R _; simp
  | cons e l ih =>
    intro R hmem
    obtain ⟨h1, h2⟩ := hmem e List.mem_cons_self
    rw [List.foldl_cons]
    have hn := DG.addEdge_names h1 h2
    obtain ⟨ihn, ihe⟩ := ih (R.addEdge e.1 e.2) (by
      intro e' he'; rw [hn]; exact hmem e' (List.mem_cons_of_mem _ he'))
    refine ⟨by rw [ihn, DG.addEdge_nodes h1 h2], ?_⟩
    intro q
    rw [ihe, DG.mem_addEdge_edges h1 h2]
    simp only [List.mem_cons]
    constructor
    · rintro ((h | h) | h)
      · exact Or.inl h
      · exact Or.inr (Or.inl h)
      · exact Or.inr (Or.inr h)
    · rintro (h | h | h)
      · exact Or.inl (Or.inl h)
      · exact Or.inl (Or.inr h)
      · exact Or.inr h

theorem base_spec {G : LG α} (hwf : G.WF) :
    (base G).nodes = G.nodes ∧ ∀ q, q ∈ (base G).edges ↔ q ∈ G.dir := by
  obtain ⟨hn, he⟩ := foldl_addNode G.nodes ({} : DG α) hwf.nodup (by intro p _; simp [DG.names])
  have hnames : (G.nodes.foldl (fun R p => R.addNode p.1 p.2) ({} : DG α)).names = G.names := by
    simp [DG.names, LG.names, hn]
  obtain ⟨hn2, he2⟩ := foldl_addEdge G.dir (G.nodes.foldl (fun R p => R.addNode p.1 p.2) ({} : DG α))
    (by intro e hmem; rw [hnames]; exact hwf.dir_mem e hmem)
  refine ⟨by simp [base, hn2, hn], ?_⟩
  intro q
  simp only [base]
  rw [he2, he]
  simp

/-! ## the `while` loop that looks for a free name -/

theorem skip_cases (fresh : Nat → α) (present : List α) : ∀ (f i : Nat),
    fresh (skip fresh present f i) ∉ present ∨ ∀ j, i ≤ j → j < i + f → fresh j ∈ present := by
  intro f
  induction f with
  | zero => intro i; right; intro j h1 h2; omega
  | succ f ih =>
    intro i
    by_cases h : fresh i ∈ present
    · simp only [skip, h, if_true]
      rcases ih (i + 1) with h' | h'
      · exact Or.inl h'
      · right
        intro j h1 h2
        by_cases hj : j = i
        · exact hj ▸ h
        · exact h' j (by omega) (by omega)
    · have hs : skip fresh present (f + 1) i = i := by simp [skip, h]
      rw [hs]; exact Or.inl h

/-- with an injective name supply the loop ends at a name that is not present -/
theorem skip_fresh (fresh : Nat → α) (hinj : ∀ i j, fresh i = fresh j → i = j) (present : List α)
    (i : Nat) : fresh (skip fresh present (present.length + 1) i) ∉ present := by
  rcases skip_cases fresh present (present.length + 1) i with h | h
  · exact h
  · exfalso
    let l := (List.range (present.length + 1)).map fun k => fresh (i + k)
    have hnd : l.Nodup := by
      show List.Pairwise _ _
      rw [List.pairwise_map]
      refine List.Pairwise.imp ?_ (List.nodup_range (n := present.length + 1))
      intro a b hab heq
      exact hab (by have := hinj _ _ heq; omega)
    have hsub : l ⊆ present := by
      intro a ha
      obtain ⟨k, hk, rfl⟩ := List.mem_map.mp ha
      exact h (i + k) (by omega) (by have := List.mem_range.mp hk; omega)
    have := hnd.length_le_of_subset hsub
    simp [l] at this
    omega

/-! ## the loop over the bidirected edges -/

/-- the list of (new node, bidirected edge) pairs produced by the loop -/
def asgOf (fresh : Nat → α) : List (α × α) → Nat → List α → List (α × (α × α))
  | [], _, _ => []
  | e :: es, idx, names =>
    let idx' := skip fresh names (names.length + 1) idx
    (fresh idx', e) :: asgOf fresh es idx' (names ++ [fresh idx'])

theorem asgOf_snd (fresh : Nat → α) : ∀ (es : List (α × α)) (idx : Nat) (names : List α),
    (asgOf fresh es idx names).map (·.2) = es
  | [], _, _ => rfl
  | e :: es, idx, names => by simp [asgOf, asgOf_snd fresh es]

theorem loop_spec (fresh : Nat → α) (hinj : ∀ i j, fresh i = fresh j → i = j) :
    ∀ (es : List (α × α)) (idx : Nat) (R : DG α), (∀ e ∈ es, e.1 ∈ R.names ∧ e.2 ∈ R.names) →
      (∀ p ∈ asgOf fresh es idx R.names, p.1 ∉ R.names) ∧
      ((asgOf fresh es idx R.names).map (·.1)).Nodup ∧
      (loop fresh es idx R).nodes = R.nodes ++ (asgOf fresh es idx R.names).map (fun p => (p.1, ucAttr)) ∧
      ∀ q, q ∈ (loop fresh es idx R).edges ↔
        q ∈ R.edges ∨ ∃ p ∈ asgOf fresh es idx R.names, q = (p.1, p.2.1) ∨ q = (p.1, p.2.2) := by
  intro es
  induction es with
  | nil => intro idx R _; simp [asgOf, loop]
  | cons e es ih =>
    intro idx R hmem
    have hu := skip_fresh fresh hinj R.names idx
    generalize hidx : skip fresh R.names (R.names.length + 1) idx = idx' at hu
    obtain ⟨he1, he2⟩ := hmem e List.mem_cons_self
    -- the state after the loop body
    have hR1 : (R.addNode (fresh idx') ucAttr) = { R with nodes := R.nodes ++ [(fresh idx', ucAttr)] } :=
      DG.addNode_of_not_mem hu
    have hn1 : (R.addNode (fresh idx') ucAttr).names = R.names ++ [fresh idx'] := by
      rw [hR1]; simp [DG.names]
    have hu1 : fresh idx' ∈ (R.addNode (fresh idx') ucAttr).names := by rw [hn1]; simp
    have ha1 : e.1 ∈ (R.addNode (fresh idx') ucAttr).names := by rw [hn1]; simp [he1]
    have hn2 := DG.addEdge_names hu1 ha1
    have hu2 : fresh idx' ∈ ((R.addNode (fresh idx') ucAttr).addEdge (fresh idx') e.1).names := by
      rw [hn2]; exact hu1
    have hb2 : e.2 ∈ ((R.addNode (fresh idx') ucAttr).addEdge (fresh idx') e.1).names := by
      rw [hn2, hn1]; simp [he2]
    have hn3 := DG.addEdge_names hu2 hb2
    let R' := ((R.addNode (fresh idx') ucAttr).addEdge (fresh idx') e.1).addEdge (fresh idx') e.2
    have hnames : R'.names = R.names ++ [fresh idx'] := by
      show (((R.addNode (fresh idx') ucAttr).addEdge (fresh idx') e.1).addEdge (fresh idx') e.2).names = _
      rw [hn3, hn2, hn1]
    have hnodes : R'.nodes = R.nodes ++ [(fresh idx', ucAttr)] := by
      show (((R.addNode (fresh idx') ucAttr).addEdge (fresh idx') e.1).addEdge (fresh idx') e.2).nodes = _
      rw [DG.addEdge_nodes hu2 hb2, DG.addEdge_nodes hu1 ha1, hR1]
    have hedges : ∀ q, q ∈ R'.edges ↔ q ∈ R.edges ∨ q = (fresh idx', e.1) ∨ q = (fresh idx', e.2) := by
      intro q
      show q ∈ (((R.addNode (fresh idx') ucAttr).addEdge (fresh idx') e.1).addEdge (fresh idx') e.2).edges ↔ _
      rw [DG.mem_addEdge_edges hu2 hb2, DG.mem_addEdge_edges hu1 ha1, hR1]
      simp only [or_assoc]
    obtain ⟨ih1, ih2, ih3, ih4⟩ := ih idx' R' (by
      intro e' he'
      rw [hnames]
      obtain ⟨h1, h2⟩ := hmem e' (List.mem_cons_of_mem _ he')
      exact ⟨List.mem_append_left _ h1, List.mem_append_left _ h2⟩)
    rw [hnames] at ih1 ih2 ih3 ih4
    have hasg : asgOf fresh (e :: es) idx R.names =
        (fresh idx', e) :: asgOf fresh es idx' (R.names ++ [fresh idx']) := by
      simp only [asgOf, hidx]
    have hloop : loop fresh (e :: es) idx R = loop fresh es idx' R' := by
      simp only [loop, hidx]; rfl
    rw [hasg, hloop]
    refine ⟨?_, ?_, ?_, ?_⟩
    · intro p hp
      rcases List.mem_cons.mp hp with rfl | hp
      · exact hu
      · intro hpR; exact ih1 p hp (List.mem_append_left _ hpR)
    · simp only [List.map_cons, List.nodup_cons]
      refine ⟨?_, ih2⟩
      intro hmem'
      obtain ⟨p, hp, hpe⟩ := List.mem_map.mp hmem'
      exact ih1 p hp (by rw [hpe]; simp)
    · rw [ih3, hnodes]; simp
    · intro q
      rw [ih4, hedges]
      simp only [List.mem_cons, exists_eq_or_imp, or_assoc]

/-! ## the conversion -/

/-- (new node, bidirected edge) pairs of `conv fresh G` -/
def convAsg (fresh : Nat → α) (G : LG α) : List (α × (α × α)) := asgOf fresh G.bi 0 G.names

/-- **closed form of the model's output**: G's node dict followed by the new nodes; the edges are
    G's directed edges and the two out-edges of each new node; the new nodes are pairwise distinct and
    are not nodes of G.  Holds for every label set. -/
theorem conv_spec (fresh : Nat → α) (hinj : ∀ i j, fresh i = fresh j → i = j) {G : LG α} (hwf : G.WF) :
    (convAsg fresh G).map (·.2) = G.bi ∧
    (∀ p ∈ convAsg fresh G, p.1 ∉ G.names) ∧
    ((convAsg fresh G).map (·.1)).Nodup ∧
    (conv fresh G).nodes = G.nodes ++ (convAsg fresh G).map (fun p => (p.1, ucAttr)) ∧
    ∀ q, q ∈ (conv fresh G).edges ↔
      q ∈ G.dir ∨ ∃ p ∈ convAsg fresh G, q = (p.1, p.2.1) ∨ q = (p.1, p.2.2) := by
  obtain ⟨hbn, hbe⟩ := base_spec hwf
  have hnames : (base G).names = G.names := by simp [DG.names, LG.names, hbn]
  obtain ⟨h1, h2, h3, h4⟩ := loop_spec fresh hinj G.bi 0 (base G) (by
    intro e he; rw [hnames]; exact hwf.bi_mem e he)
  rw [hnames] at h1 h2 h3 h4
  refine ⟨asgOf_snd fresh _ _ _, h1, h2, ?_, ?_⟩
  · simp only [conv, convAsg]; rw [h3, hbn]
  · intro q; simp only [conv, convAsg]; rw [h4, hbe]

theorem skip_prefix (fresh : Nat → α) (present : List α) : ∀ (f i : Nat),
    i ≤ skip fresh present f i ∧ ∀ j, i ≤ j → j < skip fresh present f i → fresh j ∈ present := by
  intro f
  induction f with
  | zero => intro i; exact ⟨Nat.le_refl _, fun j h1 h2 => by simp only [skip] at h2; omega⟩
  | succ f ih =>
    intro i
    by_cases h : fresh i ∈ present
    · have hs : skip fresh present (f + 1) i = skip fresh present f (i + 1) := by simp [skip, h]
      rw [hs]
      obtain ⟨h1, h2⟩ := ih (i + 1)
      refine ⟨by omega, ?_⟩
      intro j hj1 hj2
      by_cases hj : j = i
      · exact hj ▸ h
      · exact h2 j (by omega) hj2
    · have hs : skip fresh present (f + 1) i = i := by simp [skip, h]
      rw [hs]
      exact ⟨Nat.le_refl _, fun j h1 h2 => by omega⟩

/-- the fuelled loop computes what the `while` loop of the code computes: the least index ≥ `i`
    whose name is not present -/
theorem skip_least (fresh : Nat → α) (hinj : ∀ i j, fresh i = fresh j → i = j) (present : List α)
    (i : Nat) :
    i ≤ skip fresh present (present.length + 1) i ∧
    fresh (skip fresh present (present.length + 1) i) ∉ present ∧
    ∀ j, i ≤ j → j < skip fresh present (present.length + 1) i → fresh j ∈ present :=
  ⟨(skip_prefix fresh present _ i).1, skip_fresh fresh hinj present i, (skip_prefix fresh present _ i).2⟩

end C10
