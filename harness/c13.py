"""C13: stationary time-series graphs stay complete, ordered and shift-invariant.

The real classes are driven through operation histories; after every operation the observed state
(nodes, edges per edge type, max_lag, raised or not) is
  (1) decided by the Lean decider `C13.stationaryDec` (proved equivalent to the specification
      `C13.Stationary`, theorem C13.stationaryDec_iff) -- the property itself on the implementation state,
  (2) checked for the "raising operation changes no edge set and not max_lag" and "copy is an equal
      graph of the same class and max_lag (and independent of the original)" clauses,
  (3) compared with the Lean model `C13.run` (proved to keep the invariant for every history).
(1) and (2) are property clauses: a failure is a violation.  (3) alone is a correspondence break."""
import itertools
import json

from . import common as C
from .shrink import shrink_ops

PID = "C13"

# class table: constructor, layer names (None = plain graph), layer kinds for the Lean side
CLASSES = {
    "graph": {"kinds": "u", "names": None},
    "digraph": {"kinds": "d", "names": None},
    "mixed": {"kinds": "du", "names": ["directed", "bidirected"]},
    "cpdag": {"kinds": "du", "names": ["directed", "undirected"]},
    "pag": {"kinds": "dcuu", "names": ["directed", "circle", "undirected", "bidirected"]},
}
CLS_ORDER = ["graph", "digraph", "mixed", "cpdag", "pag"]


def make(cls, m):
    import pywhy_graphs.classes.timeseries as ts
    if cls == "graph":
        return ts.StationaryTimeSeriesGraph(max_lag=m)
    if cls == "digraph":
        return ts.StationaryTimeSeriesDiGraph(max_lag=m)
    if cls == "mixed":
        return ts.StationaryTimeSeriesMixedEdgeGraph(
            graphs=[ts.StationaryTimeSeriesDiGraph(max_lag=m), ts.StationaryTimeSeriesGraph(max_lag=m)],
            edge_types=["directed", "bidirected"], max_lag=m)
    if cls == "cpdag":
        return ts.StationaryTimeSeriesCPDAG(max_lag=m)
    if cls == "pag":
        return ts.StationaryTimeSeriesPAG(max_lag=m)
    raise ValueError(cls)


def var_label(fam, i):
    if fam == "str":
        return "".join(["v", str(i)])
    if fam == "tuple":
        return ("v", i)
    return i


# ----------------------------------------------------------------------------- observation
def observe(G, cls, inv):
    """canonical observation; `inv` maps variable label -> index.  Returns (state string, problems)"""
    info = CLASSES[cls]
    problems = []

    def node(n):
        if not isinstance(n, tuple) or len(n) != 2:
            problems.append("node %r is not a (variable, lag) pair" % (n,))
            return (-1, 0)
        t = int(n[1])
        if t > 0:
            problems.append("node %r has a positive time index" % (n,))
        return (inv.get(n[0], -1), -t)

    nodes = sorted(set(node(n) for n in G.nodes))
    if info["names"] is None:
        layers = [G]
    else:
        gs = G.get_graphs()
        if list(gs.keys()) != info["names"]:
            problems.append("edge types %r" % (list(gs.keys()),))
        layers = [gs[nm] for nm in info["names"] if nm in gs]
        for nm, gr in zip(info["names"], layers):
            ln = sorted(set(node(n) for n in gr.nodes))
            if ln != nodes:
                problems.append("edge type %s: its node set differs from the graph's node set" % nm)
            if gr.max_lag != G.max_lag:
                problems.append("edge type %s: max_lag %r differs from the graph's %r" % (nm, gr.max_lag, G.max_lag))
    lay = []
    for kind, gr in zip(info["kinds"], layers):
        es = set()
        for u, v in gr.edges():
            a, b = node(u), node(v)
            if kind == "u":  # earlier node first; contemporaneous: smaller variable first
                if a[1] < b[1] or (a[1] == b[1] and b[0] < a[0]):
                    a, b = b, a
            es.add((a, b))
        lay.append(sorted(es))
    st = "m=%d/N=%s/L=%s" % (int(G.max_lag), ",".join("%d.%d" % n for n in nodes),
                             "|".join(",".join("%d.%d>%d.%d" % (a + b) for a, b in es) for es in lay))
    return st, problems


def edges_part(st):
    """max_lag and edge sets of a state string (what a raising operation must not change)"""
    parts = st.split("/")
    return parts[0], parts[2]


def inv_line(cls, st):
    m, n, l = st.split("/")
    return "c13inv kinds=%s %s %s %s" % (",".join(CLASSES[cls]["kinds"]), m, n, l)


# ----------------------------------------------------------------------------- driving the implementation
def apply_op(G, cls, op, lab):
    """apply one operation; returns (graph to continue with, raised, copy-or-None)"""
    names = CLASSES[cls]["names"]

    def nd(n):
        return (lab(n[0]), n[1])

    def et(sel):
        return "all" if sel == "*" else names[sel]
    k = op[0]
    try:
        if k == "ae":
            if names is None:
                G.add_edge(nd(op[2]), nd(op[3]))
            else:
                G.add_edge(nd(op[2]), nd(op[3]), et(op[1]))
        elif k == "ab":
            es = [(nd(u), nd(v)) for u, v in op[2]]
            if names is None:
                G.add_edges_from(es)
            else:
                G.add_edges_from(es, et(op[1]))
        elif k == "re":
            if names is None:
                G.remove_edge(nd(op[2]), nd(op[3]))
            else:
                G.remove_edge(nd(op[2]), nd(op[3]), et(op[1]))
        elif k == "rb":
            es = [(nd(u), nd(v)) for u, v in op[2]]
            if names is None:
                G.remove_edges_from(es)
            else:
                G.remove_edges_from(es, et(op[1]))
        elif k == "av":
            G.add_variable(lab(op[1]))
        elif k == "rv":
            G.remove_variable(lab(op[1]))
        elif k == "ml":
            G.set_max_lag(op[1])
        elif k == "cp":
            return G, False, G.copy()
        elif k == "ou":
            G.orient_uncertain_edge(nd(op[1]), nd(op[2]))
        else:
            raise AssertionError(op)
    except AssertionError:
        raise
    except Exception as e:  # noqa: BLE001  "raises" = any exception escapes the public method
        return G, True, type(e).__name__
    return G, False, None


def impl_run(case):
    """returns list of per-step dicts {raised, st, problems, exc} plus end-of-history alias findings"""
    cls, fam = case["cls"], case.get("fam", "int")
    nvars = 1 + max([0] + [v for v in _vars_of(case["ops"])])
    labs = [var_label(fam, i) for i in range(nvars)]
    inv = {l: i for i, l in enumerate(labs)}
    lab = labs.__getitem__
    try:
        G = make(cls, case["m"])
        G.graph["note"] = ["user attribute"]      # "copy() returns an equal graph": graph attributes included
    except Exception as e:  # noqa: BLE001
        return {"steps": [], "build": type(e).__name__}
    steps, copies = [], []
    for op in case["ops"]:
        G, raised, extra = apply_op(G, cls, op, lab)
        step = {"raised": raised}
        if op[0] == "cp" and not raised:
            Cp = extra
            before, _ = observe(G, cls, inv)
            step["copy_class_ok"] = type(Cp) is type(G)
            try:
                step["copy_gattr_ok"] = dict(Cp.graph) == dict(G.graph)
            except Exception:
                step["copy_gattr_ok"] = False
            copies.append((G, before, len(steps)))
            G = Cp
        elif raised:
            step["exc"] = extra
        st, problems = observe(G, cls, inv)
        step["st"], step["problems"] = st, problems
        steps.append(step)
    alias = []
    for orig, before, i in copies:
        now, _ = observe(orig, cls, inv)
        if now != before:
            alias.append({"copy_step": i, "original_at_copy": before, "original_at_end": now})
    return {"steps": steps, "alias": alias}


def _vars_of(ops):
    for op in ops:
        if op[0] in ("ae", "re"):
            yield op[2][0]
            yield op[3][0]
        elif op[0] in ("ab", "rb"):
            for u, v in op[2]:
                yield u[0]
                yield v[0]
        elif op[0] in ("av", "rv"):
            yield op[1]
        elif op[0] == "ou":
            yield op[1][0]
            yield op[2][0]


# ----------------------------------------------------------------------------- Lean side
def fmt_node(n):
    return "%d.%d" % (n[0], n[1])


def fmt_op(op):
    k = op[0]
    if k in ("ae", "re"):
        return "%s:%s:%s:%s" % (k, op[1], fmt_node(op[2]), fmt_node(op[3]))
    if k in ("ab", "rb"):
        return "%s:%s:%s" % (k, op[1], "+".join("%s>%s" % (fmt_node(u), fmt_node(v)) for u, v in op[2]))
    if k == "cp":
        return "cp"
    if k == "ou":
        return "ou:%s:%s" % (fmt_node(op[1]), fmt_node(op[2]))
    return "%s:%d" % (k, op[1])


def run_line(case):
    if any(o[0] == "ou" for o in case["ops"]):  # CPDAG histories with orient_uncertain_edge: model C13.crun
        if case["cls"] != "cpdag":
            raise AssertionError("orient_uncertain_edge is modelled for the CPDAG only")
        return "c13crun m=%d ops=%s" % (case["m"], ";".join(fmt_op(o) for o in case["ops"]))
    return "c13run cls=%s m=%d ops=%s" % (case["cls"], case["m"], ";".join(fmt_op(o) for o in case["ops"]))


def parse_model(ans, n):
    if n == 0:
        return []
    parts = ans.split(";")
    if len(parts) != n:
        raise RuntimeError("driver answered %r for %d ops" % (ans[:200], n))
    out = []
    for p in parts:
        r, st = p.split("|", 1)
        out.append((r == "err", st))
    return out


# ----------------------------------------------------------------------------- judging
def spec_problems(case, res, inv_answers):
    """property clauses on the implementation alone.  inv_answers: state string -> 'T'/'F'.
    returns list of (step, kind, detail)"""
    bad = []
    if "build" in res:
        return [(-1, "construction", "constructor raised " + res["build"])]
    prev = "m=%d/N=/L=%s" % (case["m"], "|" * (len(CLASSES[case["cls"]]["kinds"]) - 1))
    for i, (op, step) in enumerate(zip(case["ops"], res["steps"])):
        st = step["st"]
        if step["problems"]:
            bad.append((i, "state", "; ".join(step["problems"])))
        elif inv_answers.get(st) != "T":
            bad.append((i, "invariant", "the state after the operation is not complete / shift closed / forward "
                                        "(Lean decider C13.stationaryDec = %s): %s" % (inv_answers.get(st), st)))
        if step["raised"] and edges_part(st) != edges_part(prev):
            bad.append((i, "raise-changed", "the operation raised %s but changed max_lag or an edge set: %s -> %s"
                        % (step.get("exc"), prev, st)))
        if op[0] == "cp" and step["raised"]:
            # no class raises in copy() on a state reached inside the calling convention (theorems C13_copy_classes,
            # C13_copy_cpdag)
            bad.append((i, "copy-raised", "copy() raised %s on %s" % (step.get("exc"), prev)))
        if op[0] == "cp" and not step["raised"]:
            if not step.get("copy_class_ok", True):
                bad.append((i, "copy-class", "copy() is not of the same class"))
            if not step.get("copy_gattr_ok", True):
                bad.append((i, "copy-graph-attributes", "copy() does not carry the graph attributes of the original"))
            if st != prev:
                bad.append((i, "copy-differs", "copy() differs from the original: %s vs %s" % (st, prev)))
        prev = st
    for a in res.get("alias", []):
        bad.append((a["copy_step"], "copy-alias", "mutating the copy changed the original: %s -> %s"
                    % (a["original_at_copy"], a["original_at_end"])))
    return bad


def model_diff(case, res, model):
    if "build" in res:
        return None
    for i, (step, (mr, mst)) in enumerate(zip(res["steps"], model)):
        if step["raised"] != mr:
            return (i, "raised: implementation=%s (%s) model=%s" % (step["raised"], step.get("exc"), mr))
        if step["st"] != mst:
            return (i, "state: implementation=%s model=%s" % (step["st"], mst))
    return None


def evaluate(cases):
    """run implementation + model + decider on many cases"""
    ress = C.pmap(impl_run, cases, chunksize=32)
    models = [parse_model(a, len(c["ops"])) for a, c in zip(C.lean_batch([run_line(c) for c in cases]), cases)]
    states = {}
    for c, r in zip(cases, ress):
        for s in r.get("steps", []):
            if not s["problems"]:
                states.setdefault((c["cls"], s["st"]), None)
    keys = list(states)
    for k, a in zip(keys, C.lean_batch([inv_line(cls, st) for cls, st in keys])):
        states[k] = a
    return list(zip(cases, ress, models)), states


def eval_one(case, drv):
    res = impl_run(case)
    model = parse_model(drv.ask(run_line(case)), len(case["ops"]))
    inv = {}
    for s in res.get("steps", []):
        if not s["problems"] and s["st"] not in inv:
            inv[s["st"]] = drv.ask(inv_line(case["cls"], s["st"]))
    return res, model, spec_problems(case, res, inv), model_diff(case, res, model)


# ----------------------------------------------------------------------------- generators
def in_quantifier(case):
    """calling convention: undirected-type layers get the earlier node first; no self loops;
    CPDAG/PAG never with edge_type 'all'; CPDAG/PAG bulk lists with pairwise distinct variable pairs"""
    kinds = CLASSES[case["cls"]]["kinds"]
    for op in case["ops"]:
        if op[0] == "ou" and (case["cls"] != "cpdag" or tuple(op[1]) == tuple(op[2])):
            return False
        if op[0] in ("ae", "re", "ab", "rb"):
            sel = op[1]
            if case["cls"] in ("cpdag", "pag") and sel == "*":
                return False
            ks = kinds if sel == "*" else kinds[sel]
            pairs = [(op[2], op[3])] if op[0] in ("ae", "re") else op[2]
            for u, v in pairs:
                if tuple(u) == tuple(v):
                    return False
                if "u" in ks and v[1] < u[1]:
                    return False
            if op[0] == "ab" and case["cls"] in ("cpdag", "pag"):
                vp = [frozenset((u[0], v[0])) for u, v in pairs]
                if len(set(vp)) != len(vp):
                    return False
    return True


def small_alphabet(cls, m):
    """reduced operation alphabet for the exhaustive stream (2 variables, a third one by add_variable)"""
    kinds = CLASSES[cls]["kinds"]
    sels = ["*"] if len(kinds) == 1 else list(range(len(kinds)))
    if cls == "mixed":
        sels.append("*")
    if cls == "pag":
        sels = [0, 2]  # directed, undirected; circle below on the reversed pair (o-> is a legal mark pair)
    ops = []
    for sel in sels[:3]:
        ops += [["ae", sel, [0, -1], [1, 0]], ["ae", sel, [0, 0], [1, 0]], ["re", sel, [0, -1], [1, 0]]]
    if cls == "pag":
        ops += [["ae", 1, [1, 0], [0, 0]], ["ae", 1, [1, -1], [0, 0]], ["re", 1, [1, 0], [0, 0]]]
    s0, s1 = sels[0], sels[-1]
    border = [[0, -m], [1, 0]] if cls == "pag" else [[1, -m], [0, 0]]
    ops += [["ae", s0] + border, ["ae", s0, [0, -m - 1], [1, 0]],
            ["re", s1, [0, 0], [1, 0]], ["re", s0, [0, -m], [1, -m + 1]],
            ["ab", s0, [[[0, -1], [0, 0]], [[1, -1], [0, -m - 1]]]],
            ["ab", s0, [[[1, -1], [1, 0]], [[0, -1], [1, -1]]]],
            ["rb", s0, [[[0, -1], [1, 0]], [[0, -m - 1], [1, 0]]]],
            ["av", 2], ["rv", 0], ["ml", m + 1], ["ml", m - 1], ["ml", m + 2], ["cp"]]
    if "d" in kinds or "c" in kinds:
        j = kinds.index("c") if "c" in kinds else kinds.index("d")
        ops.append(["ae", j if len(kinds) > 1 else "*", [1, 0], [0, -1]])  # backward in a directed-type layer
    return ops


def gen_exhaustive(ctx):
    depth = 2 if ctx["tier"] == "quick" else 3
    for cls in CLS_ORDER:
        for m in ((1, 2) if ctx["tier"] == "quick" else (1, 2, 3)):
            alpha = small_alphabet(cls, m)
            for d in range(1, depth + 1):
                for combo in itertools.product(alpha, repeat=d):
                    case = {"cls": cls, "m": m, "ops": [json.loads(json.dumps(o)) for o in combo], "src": "exh%d" % d}
                    if in_quantifier(case):
                        yield case


def rand_history(rng, cls, nvars, m0, length):
    kinds = CLASSES[cls]["kinds"]
    nl = len(kinds)
    m = m0          # the generator's idea of the current window (accepted set_max_lag calls)
    ops = []
    added = []      # edges added so far (sel, u, v) to aim removals / re-adds at
    pag_pairs = {}  # PAG: frozenset(vars) -> layers used (stay clear of mark conflicts, C03's subject)
    grown = False

    def pick_sel():
        if nl == 1:
            return "*"
        if cls == "mixed" and rng.random() < 0.2:
            return "*"
        return rng.randrange(nl)

    def pick_lag(border):
        r = rng.random()
        if r < 0.3:
            return 0
        if r < 0.5:
            return -m
        if r < 0.5 + border:
            return rng.choice((-m - 1, -m - 2, 1))
        return -rng.randint(0, m)

    def pick_edge(sel, border=0.06):
        x, y = rng.randrange(nvars), rng.randrange(nvars)
        a, b = pick_lag(border), pick_lag(border)
        r = rng.random()
        if r < 0.3:
            b = a  # contemporaneous
        ks = kinds if sel == "*" else kinds[sel]
        if (x, a) == (y, b):
            y = (x + 1) % nvars if nvars > 1 else x
            if (x, a) == (y, b):
                a = a - 1
        u, v = [x, a], [y, b]
        if v[1] < u[1] and ("u" in ks or rng.random() < 0.8):
            u, v = v, u
        return u, v

    def pag_ok(sel, u, v):
        """PAG: one arrow-type edge kind per variable pair, directed/circle edges from the lower to
        the higher variable index (no two marks that a mark guard, property C03, could object to)"""
        if cls != "pag":
            return True
        key = frozenset((u[0], v[0]))
        used = pag_pairs.setdefault(key, set())
        if sel in (0, 1) and u[0] > v[0]:
            return False
        if sel == 2 or not used or used <= {sel, 2}:
            return True
        return False

    while len(ops) < length:
        r = rng.random()
        if r < 0.34:
            sel = pick_sel()
            u, v = pick_edge(sel)
            if not pag_ok(sel, u, v):
                continue
            if cls == "pag":
                pag_pairs[frozenset((u[0], v[0]))].add(sel)
            ops.append(["ae", sel, u, v])
            added.append((sel, u, v))
        elif r < 0.44:
            sel = pick_sel()
            k = rng.choice((0, 1, 2, 2, 3))
            es, seen = [], set()
            for _ in range(k):
                u, v = pick_edge(sel, border=0.03)
                key = frozenset((u[0], v[0]))
                if cls in ("cpdag", "pag") and key in seen:
                    continue
                if not pag_ok(sel, u, v):
                    continue
                seen.add(key)
                es.append([u, v])
            if cls == "pag":
                for u, v in es:
                    pag_pairs[frozenset((u[0], v[0]))].add(sel)
            ops.append(["ab", sel, es])
            added += [(sel, u, v) for u, v in es]
        elif r < 0.58:
            if added and rng.random() < 0.75:
                sel, u, v = rng.choice(added)
                if rng.random() < 0.5:  # a homologous copy of it, maybe over the border
                    sh = rng.choice((-1, 1, 2, -2))
                    u, v = [u[0], u[1] - sh], [v[0], v[1] - sh]
                if rng.random() < 0.15:
                    sel = pick_sel()
            else:
                sel = pick_sel()
                u, v = pick_edge(sel)
            ks = kinds if sel == "*" else kinds[sel]
            if "u" in ks and v[1] < u[1]:
                u, v = v, u
            ops.append(["re", sel, u, v])
        elif r < 0.63:
            sel = pick_sel()
            es = []
            for _ in range(rng.choice((1, 2, 3))):
                if added and rng.random() < 0.7:
                    _, u, v = rng.choice(added)
                else:
                    u, v = pick_edge(sel)
                ks = kinds if sel == "*" else kinds[sel]
                if "u" in ks and v[1] < u[1]:
                    u, v = v, u
                if tuple(u) != tuple(v):
                    es.append([u, v])
            ops.append(["rb", sel, es])
        elif r < 0.69:
            ops.append(["av", rng.randrange(nvars + 1)])
        elif r < 0.74:
            ops.append(["rv", rng.randrange(nvars)])
        elif r < 0.92:
            q = rng.random()
            if grown and q < 0.45:
                k = rng.randint(1, max(1, m - 1))   # shrink after grow
            elif q < 0.75:
                k = min(4, m + rng.choice((1, 1, 2)))
            elif q < 0.9:
                k = rng.randint(1, 4)
            else:
                k = rng.choice((0, -1, m))
            ops.append(["ml", k])
            if k >= 1:
                grown = grown or k > m
                m = k
        else:
            ops.append(["cp"])
    return ops


def gen_random(ctx):
    rng = ctx["rng"]
    n = 1500 if ctx["tier"] == "quick" else 30000
    fams = ("int", "str", "tuple")
    for i in range(n):
        cls = CLS_ORDER[i % 5]
        case = {"cls": cls, "m": rng.choice((1, 1, 2, 2, 3, 4)), "fam": fams[(i // 5) % 3], "src": "rnd"}
        case["ops"] = rand_history(rng, cls, rng.choice((2, 2, 3)), case["m"], rng.choice((6, 12, 25)))
        if not in_quantifier(case):
            raise AssertionError("generator left the quantifier: %r" % case)
        yield case


def orient_alphabet(m):
    """CPDAG alphabet around orient_uncertain_edge: undirected / directed edges (lagged, contemporaneous),
    orientation asked in both argument orders, on a homologous copy, outside the window, without an edge"""
    return [["ae", 1, [0, -1], [1, 0]], ["ae", 1, [0, 0], [1, 0]], ["ae", 0, [0, -1], [1, 0]], ["ae", 0, [1, 0], [0, 0]],
            ["ou", [0, -1], [1, 0]], ["ou", [1, 0], [0, -1]], ["ou", [0, 0], [1, 0]], ["ou", [1, 0], [0, 0]],
            ["ou", [0, -m], [1, -m + 1]], ["ou", [1, -m], [0, -m]], ["ou", [0, -m - 1], [1, 0]],
            ["re", 1, [0, -1], [1, 0]], ["re", 0, [0, 0], [1, 0]], ["ml", m + 1], ["ml", m - 1], ["cp"], ["rv", 0]]


def gen_orient(ctx):
    """StationaryTimeSeriesCPDAG histories with orient_uncertain_edge (model C13.crun): exhaustive over
    `orient_alphabet` + random histories with orientations aimed at undirected edges added before.
    Uses its own random stream so that the other streams are what they were."""
    import random
    depth = 2 if ctx["tier"] == "quick" else 3
    for m in ((1, 2) if ctx["tier"] == "quick" else (1, 2, 3)):
        alpha = orient_alphabet(m)
        for d in range(1, depth + 1):
            for combo in itertools.product(alpha, repeat=d):
                if not any(o[0] == "ou" for o in combo):
                    continue
                case = {"cls": "cpdag", "m": m, "ops": [json.loads(json.dumps(o)) for o in combo], "src": "ou-exh%d" % d}
                if in_quantifier(case):
                    yield case
    rng = random.Random("c13-orient-%s" % ctx["seed"])
    fams = ("int", "str", "tuple")
    for i in range(400 if ctx["tier"] == "quick" else 8000):
        m = rng.choice((1, 1, 2, 2, 3, 4))
        nvars = rng.choice((2, 2, 3))
        base = rand_history(rng, "cpdag", nvars, m, rng.choice((6, 12, 25)))
        ops, und = [], []
        for op in base:
            ops.append(op)
            if op[0] == "ae" and op[1] == 1:
                und.append((op[2], op[3]))
            if op[0] == "ab" and op[1] == 1:
                und += [(u, v) for u, v in op[2]]
            if rng.random() < 0.3:
                if und and rng.random() < 0.8:
                    u, v = rng.choice(und)
                    if rng.random() < 0.4:   # a homologous copy, maybe over the border
                        sh = rng.choice((-1, 1, 2))
                        u, v = [u[0], u[1] - sh], [v[0], v[1] - sh]
                    if rng.random() < 0.5:
                        u, v = v, u
                else:
                    u = [rng.randrange(nvars), -rng.randint(0, m)]
                    v = [rng.randrange(nvars), -rng.randint(0, m)]
                if tuple(u) != tuple(v):
                    ops.append(["ou", list(u), list(v)])
        case = {"cls": "cpdag", "m": m, "fam": fams[i % 3], "src": "ou-rnd", "ops": ops}
        if not in_quantifier(case):
            raise AssertionError("generator left the quantifier: %r" % case)
        yield case


# ----------------------------------------------------------------------------- entry points
def nontrivial(case, model):
    """a window change or a rejected operation on a graph that has edges"""
    prev_edges = False
    for op, (raised, st) in zip(case["ops"], model):
        has = any(ch.isdigit() for ch in st.split("/L=")[1])
        if prev_edges and (raised or (op[0] == "ml" and not raised)):
            return True
        prev_edges = has
    return False


def shrink(case, pred):
    ops = shrink_ops(case["ops"], lambda o: pred(dict(case, ops=o)))
    small = dict(case, ops=ops)
    for fam in ("int",):
        c = dict(small, fam=fam)
        if pred(c):
            small = c
    for m in range(1, small["m"]):
        c = dict(small, m=m)
        try:
            if pred(c):
                small = c
                break
        except Exception:  # noqa: BLE001
            pass
    return small


def run(ctx):
    ev, out = ctx["ev"], ctx["out"]
    ev.rule = ("histories of add_edge / add_edges_from / remove_edge / remove_edges_from / add_variable / "
               "remove_variable / set_max_lag (grow, shrink, invalid) / copy on the five stationary classes; "
               "exhaustive: every history up to length 2 (thorough: 3) over a ~20 operation alphabet on 2-3 variables, "
               "max_lag 1-2 (thorough 1-3); random: length 6/12/25, 2-3 variables, max_lag 1-4, lags aimed at 0, "
               "-max_lag and just outside the window, contemporaneous edges, homologous copies of earlier edges for "
               "removal, shrink after grow, bulk calls with a rejected member, three label families; CPDAG histories "
               "with orient_uncertain_edge (model C13.crun): exhaustive to the same depth over a 17 operation alphabet "
               "(both argument orders, homologous copy, outside the window, no edge) + 400 / 8000 random. After every "
               "operation: nodes, edges per edge type, max_lag, raised or not, per-edge-type node set and max_lag. "
               "non-trivial = a successful set_max_lag or a rejected operation happens while the graph has edges")
    ev.assumptions = [
        "undirected-type layers are called with the earlier node first (documented convention); no self loops",
        "CPDAG/PAG are never called with edge_type='all' and their bulk lists name pairwise distinct variable pairs; "
        "PAG histories put at most one arrow-type edge kind on a variable pair (mark conflicts are property C03)",
        "remove_node of a single lag and attributes are outside the property",
        "label<->index bijection and canonicalisation in harness/c13.py",
    ]
    cases = list(C.load_corpus(PID)) + list(gen_exhaustive(ctx)) + list(gen_random(ctx)) + list(gen_orient(ctx))
    triples, states = evaluate(cases)
    bad_spec, bad_model = [], []
    for case, res, model in triples:
        inv = _InvView(states, case["cls"])
        sp = spec_problems(case, res, inv)
        md = model_diff(case, res, model)
        ev.case(case, nontrivial=nontrivial(case, model), sample_every=3000)
        ev.count("cls:" + case["cls"])
        ev.count("src:" + case.get("src", "corpus"))
        for op, (raised, _) in zip(case["ops"], model):
            ev.count("op:" + op[0] + (":raised" if raised else ""))
        if sp:
            bad_spec.append((case, sp))
        elif md:
            bad_model.append((case, md))
    # Tail stream (implementation only): after a history inside the calling convention, ONE bulk add whose
    # second member names the LATER node first on an undirected-type layer.  Such a call is outside the
    # documented convention, so nothing is demanded of it - except the property's last clause: IF it
    # raises, every edge set and max_lag are unchanged.  (Accepted calls are not judged.)
    tails = []
    for case in cases:
        kinds = CLASSES[case["cls"]]["kinds"]
        if "u" not in kinds or case.get("m", 0) < 1 or len(case["ops"]) > 8 or len(tails) >= (400 if ctx["tier"] == "quick" else 4000):
            continue
        if any(o[0] in ("ou", "cp", "rv") for o in case["ops"]):
            continue
        sel = "*" if len(kinds) == 1 else kinds.index("u")
        tail = ["ab", sel, [[[0, -1], [1, 0]], [[1, 0], [0, -1]]]]
        tails.append(dict(case, ops=case["ops"] + [tail], src="tail-unconventional"))
    tail_bad = []
    for tc, tr in zip(tails, C.pmap(impl_run, tails, chunksize=32)):
        ev.count("tail:bulk-add-later-node-first")
        steps = tr.get("steps", [])
        if len(steps) == len(tc["ops"]) and len(steps) >= 1 and steps[-1]["raised"]:
            prev_st = steps[-2]["st"] if len(steps) >= 2 else "m=%d/N=/L=%s" % (tc["m"], "|" * (len(CLASSES[tc["cls"]]["kinds"]) - 1))
            ev.count("tail:raised")
            if edges_part(steps[-1]["st"]) != edges_part(prev_st):
                tail_bad.append((tc, prev_st, steps[-1]))
    if tail_bad:
        tc, prev_st, last = min(tail_bad, key=lambda t: len(t[0]["ops"]))
        out.violation(tc, {"kind": "raise-changed", "step": len(tc["ops"]) - 1,
                           "detail": "the bulk add raised %s but changed max_lag or an edge set: %s -> %s"
                                     % (last.get("exc"), prev_st, last["st"]),
                           "note": "the last operation is outside the calling convention; only 'a raising call "
                                   "leaves every edge set and max_lag unchanged' is demanded of it",
                           "histories_with_this_problem": len(tail_bad)})
    ev.extra["states_decided_by_lean_decider"] = len(states)
    ev.extra["exhaustive_part"] = "all histories up to length %d over the reduced alphabet" % (2 if ctx["tier"] == "quick" else 3)
    if bad_spec or bad_model:
        drv = C.Driver()
        try:
            if bad_spec:
                case, sp = min(bad_spec, key=lambda t: len(t[0]["ops"]))
                case = dict(case, ops=case["ops"][:min(i for i, _, _ in sp if i >= 0) + 1] if any(i >= 0 for i, _, _ in sp) else case["ops"])
                small = shrink(case, lambda c: bool(eval_one(c, drv)[2]))
                res, model, sp2, md2 = eval_one(small, drv)
                out.violation(small, {"kind": sp2[0][1], "step": sp2[0][0], "detail": sp2[0][2],
                                      "all_problems": [list(p) for p in sp2][:6],
                                      "implementation": res, "model": model, "lean_request": run_line(small),
                                      "histories_with_property_violation": len(bad_spec),
                                      "histories_differing_from_model_only": len(bad_model)})
            else:
                case, md = min(bad_model, key=lambda t: len(t[0]["ops"]))
                case = dict(case, ops=case["ops"][:md[0] + 1])
                small = shrink(case, lambda c: eval_one(c, drv)[3] is not None)
                res, model, sp2, md2 = eval_one(small, drv)
                out.corr(small, {"detail": md2[1], "step": md2[0], "implementation": res, "model": model,
                                 "lean_request": run_line(small), "histories_differing": len(bad_model)})
        finally:
            drv.close()


class _InvView(dict):
    def __init__(self, states, cls):
        super().__init__()
        self._s, self._c = states, cls

    def get(self, st, default=None):
        return self._s.get((self._c, st), default)


def replay(ctx, payload):
    case = payload.get("case") or payload.get("correspondence", {}).get("case")
    drv = C.Driver()
    try:
        res, model, sp, md = eval_one(case, drv)
    finally:
        drv.close()
    for i, (op, step) in enumerate(zip(case["ops"], res.get("steps", []))):
        print(i, op, "raised" if step["raised"] else "ok", step["st"], "| model:", model[i])
    print("property problems:", sp)
    print("model difference:", md)
    bad = bool(sp) or md is not None
    print("REPRODUCED" if bad else "NOT-REPRODUCED")
    return 1 if bad else 0
