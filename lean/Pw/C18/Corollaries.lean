import Pw.C18.Findings

/-! # C18: corollaries — soundness without the "non-empty list" side condition on graphs below the
pop limit, absence of `KeyError`, independence of the iteration order -/
namespace C18

theorem uncov_no_limit {G : MG} (hW : WFG G) {nb : Nat → List Nat}
    (hnb : ∀ x y, y ∈ nb x ↔ adj G x y = true) (q : Query) (hu : q.u ∈ G.nodes) {maxLen : Nat}
    (hlen : G.nodes.length < maxLen) :
    (loop nb (uncovCls G q) true maxLen (uncovInit q)).limit = false := by
  refine loop_no_limit_aux (U := G.nodes) nb true (fun x y h => (hW x y ((hnb x y).mp h)).2) maxLen _ rfl ?_
  have : G.nodes.countP (fun x => decide (x ∉ (uncovInit q).explored)) < G.nodes.countP (fun _ => true) := by
    refine Closure.countP_lt' _ _ (by intro _ _; rfl) G.nodes q.u hu rfl ?_
    simp [uncovInit]
  rw [List.countP_true] at this
  simp only [meas, uncovInit, List.length_cons, List.length_nil] at this ⊢
  omega

/-- **Soundness of `uncovered_pd_path`, graphs below the pop limit**: with a faithful neighbour order
    on a graph with fewer than `maxLen` (=1000) nodes, `found = True` always comes with an uncovered pd
    path for the query (no side condition on the returned list). -/
theorem uncovPdPath_sound_nolimit (G : MG) (hS : Simple G) (hW : WFG G) (nb : Nat → List Nat)
    (hnb : ∀ x y, y ∈ nb x ↔ adj G x y = true) (q : Query) (hfu : q.first ≠ some q.u) (maxLen : Nat)
    (hlen : G.nodes.length < maxLen) (p : List Nat) (h : uncovPdPath G nb q maxLen = .ok (p, true)) :
    UncovPd G q p := by
  apply uncovPdPath_sound G hS nb q hfu maxLen p h
  intro hp; subst hp
  unfold uncovPdPath at h
  cases hg : uncovGuard G q with
  | true => rw [hg, if_pos rfl] at h; cases h
  | false =>
  rw [hg, if_neg (by simp)] at h
  cases hb : secondBad G q with
  | true => rw [hb, if_pos rfl] at h; injection h with h; injection h with _ h2; cases h2
  | false =>
  rw [hb, if_neg (by simp)] at h
  by_cases hsc : (q.second == some q.c) = true
  · rw [if_pos hsc] at h; injection h with h; injection h with h1 _; cases h1
  · rw [if_neg hsc] at h
    have hu : q.u ∈ G.nodes := by
      simp only [uncovGuard, Bool.or_eq_false_iff, Bool.not_eq_false', Bool.and_eq_true, decide_eq_true_eq] at hg
      exact hg.2.1.1.1
    have hlim := uncov_no_limit hW hnb q hu hlen
    have hi := loop_inv (uncov_hpush hS q) (uncov_hfin hS q) nb true maxLen _ (uncovInit_inv hS hfu hg hb)
    generalize loop nb (uncovCls G q) true maxLen (uncovInit q) = s at h hlim hi
    have hf : s.found = true := by
      unfold uncovFinish at h
      rw [if_neg (by simp [hlim])] at h
      cases hfd : s.found with
      | true => rfl
      | false => rw [hfd] at h; simp at h
    obtain ⟨p', hne, hp'⟩ := uncovFinish_found hi hf hlim
    rw [hp'] at h; injection h with h; injection h with h1 _; exact hne h1

/-- the model of `uncovered_pd_path` raises nothing but the documented `RuntimeError` of the argument
    guards: the back-pointer reconstruction never fails (`KeyError`) -/
theorem uncovPdPath_error (G : MG) (hS : Simple G) (nb : Nat → List Nat) (q : Query)
    (hfu : q.first ≠ some q.u) (maxLen : Nat) (e : String)
    (h : uncovPdPath G nb q maxLen = .error e) : e = "RuntimeError" ∧ uncovGuard G q = true := by
  unfold uncovPdPath at h
  cases hg : uncovGuard G q with
  | true => rw [hg, if_pos rfl] at h; injection h with h; exact ⟨h.symm, rfl⟩
  | false =>
  rw [hg, if_neg (by simp)] at h
  cases hb : secondBad G q with
  | true => rw [hb, if_pos rfl] at h; cases h
  | false =>
  rw [hb, if_neg (by simp)] at h
  by_cases hsc : (q.second == some q.c) = true
  · rw [if_pos hsc] at h; cases h
  · rw [if_neg hsc] at h
    have hi := loop_inv (uncov_hpush hS q) (uncov_hfin hS q) nb true maxLen _ (uncovInit_inv hS hfu hg hb)
    generalize loop nb (uncovCls G q) true maxLen (uncovInit q) = s at h hi
    exfalso
    cases hl : s.limit with
    | true => unfold uncovFinish at h; rw [hl, if_pos rfl] at h; cases h
    | false =>
      cases hf : s.found with
      | false => unfold uncovFinish at h; rw [hl, hf] at h; simp at h
      | true =>
        obtain ⟨p', _, hp'⟩ := uncovFinish_found hi hf hl
        rw [hp'] at h; cases h

/-- **the answer of `discriminating_path` does not depend on iteration orders** (outside the known
    finding): any two faithful orders of the neighbour sets / the bidirected layer give the same
    `found`. -/
theorem discPath_order_independent (G : MG) (hS : Simple G) (hW : WFG G)
    (nb bnb nb' bnb' : Nat → List Nat)
    (hnb : ∀ x y, y ∈ nb x ↔ adj G x y = true) (hbnb : ∀ x y, y ∈ bnb x ↔ hB G x y = true)
    (hnb' : ∀ x y, y ∈ nb' x ↔ adj G x y = true) (hbnb' : ∀ x y, y ∈ bnb' x ↔ hB G x y = true)
    (u a c maxLen : Nat) (hlen : G.nodes.length < maxLen) (hcirc : hC G c a = false) :
    (∃ p ex, p ≠ [] ∧ discPath G nb bnb u a c maxLen = .ok (true, p, ex)) ↔
    (∃ p ex, p ≠ [] ∧ discPath G nb' bnb' u a c maxLen = .ok (true, p, ex)) := by
  rw [discPath_found_iff G hS hW nb bnb hnb hbnb u a c maxLen hlen hcirc,
      discPath_found_iff G hS hW nb' bnb' hnb' hbnb' u a c maxLen hlen hcirc]

theorem disc_no_limit {G : MG} (hW : WFG G) {nb bnb : Nat → List Nat}
    (hnb : ∀ x y, y ∈ nb x ↔ adj G x y = true) (hbnb : ∀ x y, y ∈ bnb x ↔ hB G x y = true)
    (u a c : Nat) (ha : a ∈ G.nodes) {maxLen : Nat} (hlen : G.nodes.length < maxLen) :
    (loop (discIter G nb bnb) (discCls G c) false maxLen (discInit u a c)).limit = false := by
  refine loop_no_limit_aux (U := G.nodes) (discIter G nb bnb) false (discIter_nodes hW hnb hbnb) maxLen _ rfl ?_
  have : G.nodes.countP (fun x => decide (x ∉ (discInit u a c).explored)) < G.nodes.countP (fun _ => true) := by
    refine Closure.countP_lt' _ _ (by intro _ _; rfl) G.nodes a ha rfl ?_
    simp [discInit]
  rw [List.countP_true] at this
  simp only [meas, discInit, List.length_cons, List.length_nil] at this ⊢
  omega

/-- **Soundness of `discriminating_path`, graphs below the pop limit** (no side condition on the
    returned list): `found = True` with `a -> c` (no circle at a) always comes with a discriminating
    path. -/
theorem discPath_sound_nolimit (G : MG) (hS : Simple G) (hW : WFG G) (nb bnb : Nat → List Nat)
    (hnb : ∀ x y, y ∈ nb x ↔ adj G x y = true) (hbnb : ∀ x y, y ∈ bnb x ↔ hB G x y = true)
    (u a c maxLen : Nat) (hlen : G.nodes.length < maxLen) (p ex : List Nat)
    (h : discPath G nb bnb u a c maxLen = .ok (true, p, ex)) (hcirc : hC G c a = false) :
    DiscPath G u a c p := by
  apply discPath_sound G hS nb bnb u a c maxLen p ex h ?_ hcirc
  intro hp; subst hp
  unfold discPath at h
  cases he : discEntry G u a c with
  | false => rw [he] at h; simp at h
  | true =>
    rw [he] at h
    simp only [Bool.not_true, Bool.false_eq_true, if_false] at h
    have hac : hD G a c = true := by simp only [discEntry, Bool.and_eq_true] at he; exact he.1.2
    have ha : a ∈ G.nodes := (hW a c (by unfold adj; rw [hac]; simp)).1
    have hlim := disc_no_limit hW hnb hbnb u a c ha hlen
    have hi := loop_inv (disc_hpush G u a c) (disc_hfin G u a c) (discIter G nb bnb) false maxLen _
      (discInit_inv hS he)
    generalize loop (discIter G nb bnb) (discCls G c) false maxLen (discInit u a c) = s at h hlim hi
    have hf : s.found = true := by
      unfold discFinish at h
      rw [if_neg (by simp [hlim])] at h
      cases hfd : s.found with
      | true => rfl
      | false => rw [hfd] at h; simp at h
    obtain ⟨p', hne, hp'⟩ := discFinish_found hi hf hlim
    rw [hp'] at h; injection h with h; injection h with _ h2; injection h2 with h2 _; exact hne h2

/-! ## the degenerate query `first_node = u` -/

theorem inner_all_skip {cls : Option Nat → Nat → Nat → Cls} (this : Nat) (prev : Option Nat) :
    ∀ (l : List Nat) (s : St), (∀ next ∈ l, next ∈ s.explored ∨ cls prev this next = .skip) →
      inner cls this prev l s = s := by
  intro l
  induction l with
  | nil => intro s _; rfl
  | cons next rest ih =>
    intro s h
    have hr : ∀ n ∈ rest, n ∈ s.explored ∨ cls prev this n = .skip := fun n hn => h n (List.mem_cons_of_mem _ hn)
    unfold inner
    by_cases hex : next ∈ s.explored
    · simp only [hex, if_true]; exact ih s hr
    · simp only [hex, if_false]
      rcases h next (by simp) with h1 | h1
      · exact absurd h1 hex
      · rw [h1]; exact ih s hr

/-- with `first_node = u` every candidate is shielded by `u` itself or not adjacent: nothing is found -/
theorem uncovPdPath_first_eq_u (G : MG) (hS : Simple G) (nb : Nat → List Nat) (q : Query)
    (hfu : q.first = some q.u) (maxLen : Nat) (p : List Nat) :
    uncovPdPath G nb q maxLen ≠ .ok (p, true) := by
  intro h
  unfold uncovPdPath at h
  cases hg : uncovGuard G q with
  | true => rw [hg, if_pos rfl] at h; cases h
  | false =>
  rw [hg, if_neg (by simp)] at h
  have hsn : q.second = none := by
    cases hs : q.second with
    | none => rfl
    | some s => simp [uncovGuard, hfu, hs] at hg
  have hb : secondBad G q = false := by simp [secondBad, hsn]
  rw [hb, if_neg (by simp), if_neg (by simp [hsn])] at h
  have hloop : (loop nb (uncovCls G q) true maxLen (uncovInit q)).found = false := by
    have hinit : uncovInit q = { explored := [q.u, q.u], desc := [(q.u, q.u)], queue := [q.u] } := by
      simp [uncovInit, hfu, hsn, optList]
    rw [hinit]
    cases maxLen with
    | zero => simp [loop]
    | succ n =>
      unfold loop
      simp only [List.lookup_cons, beq_self_eq_true]
      rw [inner_all_skip]
      · cases n with
        | zero => simp [loop]
        | succ m => simp [loop]
      · intro next _
        by_cases hex : next ∈ [q.u, q.u]
        · exact Or.inl hex
        · right
          unfold uncovCls
          by_cases c1 : (q.u == q.u && q.forbid == some next) = true
          · rw [if_pos c1]
          · rw [if_neg c1]
            simp only
            by_cases hadj : adj G q.u next = true
            · rw [if_pos hadj]
            · rw [if_neg hadj]
              have : pdCode G q.fc q.u next = false := by
                cases hp : pdCode G q.fc q.u next with
                | false => rfl
                | true => exact absurd (pdCode_adj hp) hadj
              simp [this]
  generalize loop nb (uncovCls G q) true maxLen (uncovInit q) = s at h hloop
  unfold uncovFinish at h
  rw [hloop] at h
  by_cases hl : s.limit = true
  · rw [if_pos hl] at h; injection h with h; injection h with _ h2; cases h2
  · rw [if_neg hl] at h; simp at h

/-- **Soundness of `uncovered_pd_path`, every query** (also `first_node = u`) -/
theorem uncovPdPath_sound_all (G : MG) (hS : Simple G) (nb : Nat → List Nat) (q : Query) (maxLen : Nat)
    (p : List Nat) (h : uncovPdPath G nb q maxLen = .ok (p, true)) (hp : p ≠ []) : UncovPd G q p := by
  by_cases hfu : q.first = some q.u
  · exact absurd h (uncovPdPath_first_eq_u G hS nb q hfu maxLen p)
  · exact uncovPdPath_sound G hS nb q hfu maxLen p h hp

end C18
