import Pw.C05.Complete
import Pw.C04.Cond

/-! # C05 consequence clauses (round trips)

Unconditional, given *the* essential graph `C` of a DAG `D` (spec `C04.Essential`): `D` is a consistent
extension of `C`, `C` is in the domain of `pdag_to_dag`, hence (completeness + soundness) the model of
`pdag_to_dag` returns a DAG Markov equivalent to `D` (`roundtrip_of_essential`).

Conditional on Chickering's theorem (hypothesis `C04.T3`): this applies to `C = dag_to_cpdag D`
(`roundtrip_of_T3`) and `pdag_to_cpdag (dag_to_cpdag D)` is `dag_to_cpdag D` (`pdagToCpdag_fixpoint_of_T3`). -/
namespace C05
open C04 (IsDag Essential MarkovEquiv Compelled SameGraph T3 IsTopo dagToCpdag)

theorem ext_of_essential {D C : MG} (hd : IsDag D) (he : Essential D C) : ConsistentExt C D := by
  have hsub : ∀ e, e ∈ C.dir → e ∈ D.dir := fun ⟨a, b⟩ h => C04.compelled_mem hd ((he.directed a b).mp h)
  refine ⟨fun v => (he.nodes v).symm, hd.plain, hd.acyclic, fun a b => (he.skel a b).symm, hsub, ?_⟩
  intro a c b
  constructor
  · intro hv
    exact ⟨(he.directed a c).mpr (C04.vstruct_compelled hv),
           (he.directed b c).mpr (C04.vstruct_compelled (C04.vstruct_symm hv)),
           hv.2.2.1, fun h => hv.2.2.2 ((he.skel a b).mp h)⟩
  · rintro ⟨h1, h2, hne, hn⟩
    exact ⟨hsub _ h1, hsub _ h2, hne, fun h => hn ((he.skel a b).mpr h)⟩

theorem dom_of_essential {D C : MG} (hd : IsDag D) (hwf : D.WF) (he : Essential D C) : Dom C := by
  have hDu := hd.plain.1
  have adjD : ∀ a b, Adj D a b → ((a, b) ∈ D.dir ∨ (b, a) ∈ D.dir) := by
    intro a b h; simpa only [Adj, hDu, List.not_mem_nil, or_false] using h
  have unAdj : ∀ a b, (a, b) ∈ C.un → Adj D a b := fun a b h => ((he.undirected a b).mp (Or.inl h)).1
  refine ⟨?_, ?_, ?_, ?_⟩
  · rintro ⟨a, b⟩ h
    have := hwf.1 _ (C04.compelled_mem hd ((he.directed a b).mp h))
    exact ⟨(he.nodes _).mpr this.1, (he.nodes _).mpr this.2⟩
  · rintro ⟨a, b⟩ h
    rcases adjD a b (unAdj a b h) with h1 | h1
    · exact ⟨(he.nodes _).mpr (hwf.1 _ h1).1, (he.nodes _).mpr (hwf.1 _ h1).2⟩
    · exact ⟨(he.nodes _).mpr (hwf.1 _ h1).2, (he.nodes _).mpr (hwf.1 _ h1).1⟩
  · rintro ⟨a, b⟩ h hab
    simp only at hab
    subst hab
    rcases adjD a a (unAdj a a h) with h1 | h1 <;> exact hd.acyclic a a h1 (MG.Anc.refl a)
  · intro a b h
    have := (he.undirected a b).mp (Or.inl h)
    exact ⟨fun h' => this.2.1 ((he.directed a b).mp h'), fun h' => this.2.2 ((he.directed b a).mp h')⟩

/-- **round trip, unconditional form**: from the essential graph of `D` the model of `pdag_to_dag`
    returns (never raises) a DAG that is Markov equivalent to `D` – for every node order of `C`. -/
theorem roundtrip_of_essential {D C : MG} (hd : IsDag D) (hwf : D.WF) (he : Essential D C) :
    ∃ D2, pdagToDag C = .ok D2 ∧ IsDag D2 ∧ MarkovEquiv D D2 := by
  have hdom := dom_of_essential hd hwf he
  obtain ⟨D2, h2⟩ := pdagToDag_complete C hdom ⟨D, ext_of_essential hd he⟩
  have hext := pdagToDag_sound C D2 hdom.pwf h2
  refine ⟨D2, h2, ⟨hext.plain, hext.acyclic⟩, ?_, ?_, ?_⟩
  · intro v; exact (hext.nodes v).trans (he.nodes v)
  · intro a b; exact (hext.skel a b).trans (he.skel a b)
  · intro a c b; exact (hext.vstructs a c b).trans ((ext_of_essential hd he).vstructs a c b).symm

/-- round trip for the models, conditional on T3: `pdag_to_dag (dag_to_cpdag D)` is Markov equivalent to `D` -/
theorem roundtrip_of_T3 (h : T3) (D : MG) (topo : List Nat) (hd : IsDag D) (hwf : D.WF) (hn : D.dir.Nodup)
    (ht : IsTopo D topo) : ∃ D2, pdagToDag (dagToCpdag D topo) = .ok D2 ∧ IsDag D2 ∧ MarkovEquiv D D2 :=
  roundtrip_of_essential hd hwf (C04.C04_full_of_T3 h D topo hd hwf hn ht)

/-- `pdag_to_cpdag` maps the CPDAG of a DAG to itself, conditional on T3 (`topo2` is the topological
    order used by the second `dag_to_cpdag`) -/
theorem pdagToCpdag_fixpoint_of_T3 (h : T3) {D C : MG} (hd : IsDag D) (hwf : D.WF) (he : Essential D C)
    (D2 : MG) (h2 : pdagToDag C = .ok D2) (topo2 : List Nat) (hn2 : D2.dir.Nodup) (ht2 : IsTopo D2 topo2) :
    SameGraph (dagToCpdag D2 topo2) C := by
  have hdom := dom_of_essential hd hwf he
  have hext := pdagToDag_sound C D2 hdom.pwf h2
  have hd2 : IsDag D2 := ⟨hext.plain, hext.acyclic⟩
  have hwf2 : D2.WF := by
    refine ⟨?_, ?_, ?_⟩
    · intro e he'
      have := ext_edge_nodes hdom.pwf hext he'
      exact ⟨(hext.nodes _).mpr this.1, (hext.nodes _).mpr this.2⟩
    · rw [hext.plain.2.1]; intro e he'; cases he'
    · rw [hext.plain.1]; intro e he'; cases he'
  have hm : MarkovEquiv D2 D :=
    ⟨fun v => ((hext.nodes v).trans (he.nodes v)).symm, fun a b => ((hext.skel a b).trans (he.skel a b)).symm,
     fun a c b => ((hext.vstructs a c b).trans ((ext_of_essential hd he).vstructs a c b).symm).symm⟩
  exact (C04.sameGraph_iff_markovEquiv hd2 hd (C04.C04_full_of_T3 h D2 topo2 hd2 hwf2 hn2 ht2) he).mpr hm

end C05
