import Pw.Core.Proto
import Pw.C06.Dec
open Proto

namespace C06
def fmtOpt : Except String (Option (List Nat)) → String
  | .error e => "err:" ++ e
  | .ok none => "F"
  | .ok (some p) => "T:" ++ fmtPath p

/-- `indpath <graph> x= y= L= S=` → `T:<path>` | `F` | `err:value` (the model) -/
def hIndPath : Handler := fun a =>
  fmtOpt (inducingPath a.graph (a.nat "x") (a.nat "y") (a.nats "L") (a.nats "S"))

/-- `inddec <graph> x= y= L= S=` → `T` | `F` (brute force against the specification) -/
def hIndDec : Handler := fun a =>
  fmtBool (inducingDec a.graph (a.nats "L") (a.nats "S") (a.nat "x") (a.nat "y"))

/-- `indvalid <graph> x= y= L= S= P=..` → is the node list an inducing path -/
def hIndValid : Handler := fun a =>
  fmtBool (validNodePath a.graph (a.nats "L") (a.nats "S") (a.nat "x") (a.nat "y") (a.nats "P"))

/-- `dagtomag <graph> L= S=` → canonical graph of the model's MAG -/
def hDagToMag : Handler := fun a =>
  match dagToMag a.graph (a.nats "L") (a.nats "S") with
  | .ok M => fmtGraph M
  | .error e => "err:" ++ e

/-- `insep <graph> L= S=` → unordered pairs of remaining nodes no `Z ∪ S` separates -/
def hInsep : Handler := fun a =>
  fmtUndSet (insepPairs a.graph (a.nats "L") (a.nats "S"))

/-- `magsem <graph D> L= S= MN= MD= MB= MU=` → `T` or `F:x,y:Z` -/
def hMagSem : Handler := fun a =>
  let M : MG := { nodes := a.nats "MN", dir := a.pairs "MD", bi := a.pairs "MB", un := a.pairs "MU" }
  match magSemantics a.graph (a.nats "L") (a.nats "S") M with
  | none => "T"
  | some (x, y, Z) => "F:" ++ toString x ++ "," ++ toString y ++ ":" ++ fmtSet Z

def handlers : List (String × Handler) :=
  [("indpath", hIndPath), ("inddec", hIndDec), ("indvalid", hIndValid), ("dagtomag", hDagToMag),
   ("insep", hInsep), ("magsem", hMagSem)]
end C06
