import Pw.C08.Loop
open Closure

/-! # C08 proofs, part 3: a fixpoint of the sweep is closed under the textbook rules R1–R4;
completeness (conditional on Meek's theorem `MeekT3`), the pattern clause of C08 -/
namespace C08
open MG

theorem fire_false {G : MG} {i j : Nat} {c : Bool} (h : (fire G i j c).2 = false) :
    (fire G i j c).1 = G ∧ (hasUn G i j && c) = false := by
  unfold fire at *
  by_cases hc : (hasUn G i j && c) = true
  · rw [if_pos hc] at h; cases h
  · rw [if_neg hc]; exact ⟨rfl, by simpa using hc⟩

theorem applyPair_false {G : MG} {inner : List Nat} {i j : Nat}
    (h : (applyPair G inner i j).2 = false) :
    (applyPair G inner i j).1 = G ∧
    (i ≠ j → hasUn G i j = true →
      cond1 G i j = false ∧ cond2 G i j = false ∧ cond3 G inner i j = false ∧ cond4 G inner i j = false) := by
  unfold applyPair at *
  by_cases hij : (i == j) = true
  · rw [if_pos hij]
    exact ⟨rfl, fun hne => absurd (by simpa using hij) hne⟩
  · rw [if_neg hij] at h ⊢
    simp only [Bool.or_eq_false_iff] at h
    obtain ⟨⟨⟨h1, h2⟩, h3⟩, h4⟩ := h
    show (rule4 (rule3 (rule2 (rule1 G i j).1 i j).1 inner i j).1 inner i j).1 = G ∧ _
    obtain ⟨e1, c1⟩ := fire_false (show (fire G i j (cond1 G i j)).2 = false from h1)
    have e1' : (rule1 G i j).1 = G := e1
    rw [e1'] at h2 h3 h4 ⊢
    obtain ⟨e2, c2⟩ := fire_false (show (fire G i j (cond2 G i j)).2 = false from h2)
    have e2' : (rule2 G i j).1 = G := e2
    rw [e2'] at h3 h4 ⊢
    obtain ⟨e3, c3⟩ := fire_false (show (fire G i j (cond3 G inner i j)).2 = false from h3)
    have e3' : (rule3 G inner i j).1 = G := e3
    rw [e3'] at h4 ⊢
    obtain ⟨e4, c4⟩ := fire_false (show (fire G i j (cond4 G inner i j)).2 = false from h4)
    refine ⟨e4, fun _ hu => ?_⟩
    rw [hu] at c1 c2 c3 c4
    simp only [Bool.true_and] at c1 c2 c3 c4
    exact ⟨c1, c2, c3, c4⟩

theorem innerLoop_false {inner : List Nat} {i : Nat} :
    ∀ (js : List Nat) (G : MG) (ch : Bool), (innerLoop inner i js (G, ch)).2 = false →
      ch = false ∧ (innerLoop inner i js (G, ch)).1 = G ∧ ∀ j ∈ js, (applyPair G inner i j).2 = false
  | [], G, ch, h => ⟨h, rfl, fun _ hj => by cases hj⟩
  | j :: js, G, ch, h => by
    unfold innerLoop at h ⊢
    obtain ⟨h1, h2, h3⟩ := innerLoop_false js _ _ h
    simp only [Bool.or_eq_false_iff] at h1
    have e := (applyPair_false h1.2).1
    rw [e] at h2 h3
    refine ⟨h1.1, ?_, ?_⟩
    · show (innerLoop inner i js ((applyPair G inner i j).1, ch || (applyPair G inner i j).2)).1 = G
      rw [e]; exact h2
    intro j' hj'
    rcases List.mem_cons.mp hj' with rfl | hj'
    · exact h1.2
    · exact h3 j' hj'

theorem outerLoop_false {inner : List Nat} :
    ∀ (is : List Nat) (G : MG) (ch : Bool), (outerLoop inner is (G, ch)).2 = false →
      ch = false ∧ (outerLoop inner is (G, ch)).1 = G ∧
      ∀ i ∈ is, ∀ j ∈ nbrs G inner i, (applyPair G inner i j).2 = false
  | [], G, ch, h => ⟨h, rfl, fun _ hi => by cases hi⟩
  | i :: is, G, ch, h => by
    unfold outerLoop at h ⊢
    have hh : (outerLoop inner is ((innerLoop inner i (nbrs G inner i) (G, ch)).1,
        (innerLoop inner i (nbrs G inner i) (G, ch)).2)).2 = false := h
    obtain ⟨h1, h2, h3⟩ := outerLoop_false is _ _ hh
    obtain ⟨g1, g2, g3⟩ := innerLoop_false _ _ _ h1
    rw [g2] at h2 h3
    refine ⟨g1, ?_, ?_⟩
    · exact (congrArg (fun s => (outerLoop inner is s).1)
        (Prod.ext g2 rfl : innerLoop inner i (nbrs G inner i) (G, ch) = (G, _))).trans h2
    intro i' hi'
    rcases List.mem_cons.mp hi' with rfl | hi'
    · exact g3
    · exact h3 i' hi'

theorem combos_complete {l : List Nat} {a b : Nat} (ha : a ∈ l) (hb : b ∈ l) (hab : a ≠ b) :
    (a, b) ∈ combos l ∨ (b, a) ∈ combos l := by
  induction l with
  | nil => cases ha
  | cons x t ih =>
    simp only [combos, List.mem_append, List.mem_map, Prod.mk.injEq]
    rcases List.mem_cons.mp ha with rfl | ha' <;> rcases List.mem_cons.mp hb with rfl | hb'
    · exact absurd rfl hab
    · exact Or.inl (Or.inl ⟨b, hb', rfl, rfl⟩)
    · exact Or.inr (Or.inl ⟨a, ha', rfl, rfl⟩)
    · rcases ih ha' hb' with h | h
      · exact Or.inl (Or.inr h)
      · exact Or.inr (Or.inr h)

/-- **fixpoint ⇒ closed.** If a sweep over `G` reports no change, no textbook rule R1–R4 applies to
    any undirected edge of `G`. -/
theorem closed_of_pass_false {G : MG} {inner : List Nat} (hwf : G.WF) (hcov : ∀ v ∈ G.nodes, v ∈ inner)
    (hac : Acyclic G) (hirr : ∀ a, ¬ Skel G a a) (hp : (pass G inner).2 = false) : MeekClosed G := by
  obtain ⟨_, _, hall⟩ := outerLoop_false G.nodes G false hp
  intro i j hu
  have hi : i ∈ G.nodes := by
    rcases hu with h | h
    · exact (hwf.2.2 _ h).1
    · exact (hwf.2.2 _ h).2
  have hj : j ∈ G.nodes := by
    rcases hu with h | h
    · exact (hwf.2.2 _ h).2
    · exact (hwf.2.2 _ h).1
  have hne : i ≠ j := by rintro rfl; exact hirr _ hu.skel
  have hjn : j ∈ nbrs G inner i := List.mem_filter.mpr ⟨hcov _ hj, adj_iff.mpr hu.skel⟩
  obtain ⟨c1, c2, c3, c4⟩ := (applyPair_false (hall i hi j hjn)).2 hne (hasUn_iff.mpr hu)
  have nodir : ∀ {a b}, (a, b) ∈ G.dir → (b, a) ∉ G.dir :=
    fun h h' => hac _ _ h (Anc.step h' (Anc.refl _))
  have nbr : ∀ {k}, HasUn G i k → k ∈ nbrs G inner i := by
    intro k hk
    have hkn : k ∈ G.nodes := by
      rcases hk with h | h
      · exact (hwf.2.2 _ h).2
      · exact (hwf.2.2 _ h).1
    exact List.mem_filter.mpr ⟨hcov _ hkn, adj_iff.mpr hk.skel⟩
  refine ⟨?_, ?_, ?_, ?_⟩
  · rintro ⟨k, hki, hnk⟩
    have : cond1 G i j = true := by
      simp only [cond1, List.any_eq_true, Bool.not_eq_true']
      refine ⟨k, mem_parents.mpr hki, ?_⟩
      cases h : adj G k j with
      | false => rfl
      | true => exact absurd (adj_iff.mp h) hnk
    rw [c1] at this; cases this
  · rintro ⟨k, hik, hkj⟩
    have hk : k ∈ G.nodes := (hwf.1 _ hik).2
    have : cond2 G i j = true := by
      simp only [cond2, List.any_eq_true, List.mem_filter, decide_eq_true_eq, Bool.not_eq_true',
        descS, ancS, bne_iff_ne, ne_eq]
      refine ⟨k, ⟨⟨?_, ?_⟩, ?_⟩, ⟨?_, ?_⟩, ?_⟩
      · rw [mem_closure]; exact ⟨k, mem_children.mpr hik, hk, Reach.refl _⟩
      · rintro rfl; exact hirr _ (Or.inl hik)
      · cases h : hasDir G k i with
        | false => rfl
        | true => exact absurd (hasDir_iff.mp h) (nodir hik)
      · rw [mem_closure]; exact ⟨k, mem_parents.mpr hkj, hk, Reach.refl _⟩
      · rintro rfl; exact hirr _ (Or.inl hkj)
      · cases h : hasDir G j k with
        | false => rfl
        | true => exact absurd (hasDir_iff.mp h) (nodir hkj)
    rw [c2] at this; cases this
  · rintro ⟨k, l, hkl, hik, hil, hkj, hlj, hnadj⟩
    have key : ∀ k l, HasUn G i k → HasUn G i l → (k, j) ∈ G.dir → (l, j) ∈ G.dir → ¬ Skel G k l →
        (k, l) ∈ combos (nbrs G inner i) → cond3 G inner i j = true := by
      intro k l hik hil hkj hlj hnadj hmem
      simp only [cond3, List.any_eq_true]
      refine ⟨(k, l), hmem, ?_⟩
      have a1 : adj G k l = false := by
        cases h : adj G k l with
        | false => rfl
        | true => exact absurd (adj_iff.mp h) hnadj
      have a2 : hasDir G j k = false := by
        cases h : hasDir G j k with
        | false => rfl
        | true => exact absurd (hasDir_iff.mp h) (nodir hkj)
      have a3 : hasDir G j l = false := by
        cases h : hasDir G j l with
        | false => rfl
        | true => exact absurd (hasDir_iff.mp h) (nodir hlj)
      simp [a1, a2, a3, hasDir_iff.mpr hkj, hasDir_iff.mpr hlj, hasUn_iff.mpr hik.symm,
        hasUn_iff.mpr hil.symm]
    have : cond3 G inner i j = true := by
      rcases combos_complete (nbr hik) (nbr hil) hkl with h | h
      · exact key k l hik hil hkj hlj hnadj h
      · exact key l k hil hik hlj hkj (fun h' => hnadj h'.symm) h
    rw [c3] at this; cases this
  · rintro ⟨k, l, hkj, hik, hkl, hlj, hnadj⟩
    have : cond4 G inner i j = true := by
      simp only [cond4, List.any_eq_true]
      refine ⟨k, nbr hik, ?_⟩
      have a1 : adj G k j = false := by
        cases h : adj G k j with
        | false => rfl
        | true => exact absurd (adj_iff.mp h) hnadj
      have a2 : (G.children k).any (fun l => hasDir G l j) = true := by
        simp only [List.any_eq_true]
        exact ⟨l, mem_children.mpr hkl, hasDir_iff.mpr hlj⟩
      simp [a1, a2, hkj, hasUn_iff.mpr hik]
    rw [c4] at this; cases this

/-- WF, acyclicity and irreflexivity pass from a PDAG with an extension to the closure's result -/
theorem acyclic_of_ext {G D : MG} (hD : ConsistentExt G D) : Acyclic G :=
  fun a b hab hba => hD.acyclic a b (hD.dir _ hab) (anc_mono hD.dir hba)

theorem irrefl_of_ext {G D : MG} (hD : ConsistentExt G D) (a : Nat) : ¬ Skel G a a := by
  intro h
  rcases ext_dir_of_skel hD h with h | h <;> exact hD.acyclic a a h (Anc.refl _)

theorem Steps.wf {P G : MG} (h : Steps P G) (hwf : P.WF) : G.WF := by
  induction h with
  | refl => exact hwf
  | @step G i j _ hu _ ih =>
    obtain ⟨h1, h2, h3⟩ := ih
    have hij : i ∈ G.nodes ∧ j ∈ G.nodes := by
      rcases hu with h | h
      · exact h3 _ h
      · exact (h3 _ h).symm
    refine ⟨?_, h2, ?_⟩
    · intro e he
      rcases mem_orient_dir.mp he with he | rfl
      · exact h1 e he
      · exact hij
    · intro e he
      exact h3 e (mem_orient_un.mp he).1

/-- **completeness, conditional on Meek's theorem.**  For a PDAG of the `CPDAG` class with a
    consistent extension, the closure orients *exactly* the compelled undirected edges. -/
theorem meek_complete_of_T3 (hT3 : MeekT3) (P : MG) (inner : List Nat) (hs : Simple P) (hwf : P.WF)
    (hext : ∃ D, ConsistentExt P D) (hin : inner.Nodup) (hcov : ∀ v ∈ P.nodes, v ∈ inner) (a b : Nat) :
    (a, b) ∈ (meek P inner).dir ↔ (a, b) ∈ P.dir ∨ (HasUn P a b ∧ Compelled P a b) := by
  have st := meek_steps hs hin
  obtain ⟨D, hD⟩ := hext
  have hDG := st.ext hD
  have hclosed : MeekClosed (meek P inner) :=
    closed_of_pass_false (st.wf hwf) (by rw [st.nodes]; exact hcov) (acyclic_of_ext hDG)
      (irrefl_of_ext hDG) (by rw [meek_fixpoint hs hin])
  have hnot := hT3 P (meek P inner) hs ⟨D, hD⟩ st.nodes st.skel (st.simple hs) st.dir_mono
    (fun e he => (st.dir_sound e he).imp id And.right) hclosed
  constructor
  · exact st.dir_sound (a, b)
  · rintro (h | ⟨hu, hc⟩)
    · exact st.dir_mono _ h
    · rcases st.un_cases hu with h | h | h
      · exact absurd hc (hnot a b h)
      · exact h
      · exfalso
        rcases st.dir_sound _ h with h' | ⟨_, hc'⟩
        · have := hs _ _ h'
          rcases hu with hu | hu
          · exact this.2 hu
          · exact this.1 hu
        · exact hD.acyclic a b (hc D hD) (Anc.step (hc' D hD) (Anc.refl _))

/-- a DAG is a consistent extension of its own pattern -/
theorem ext_of_pattern {D Pt : MG} (hd : IsDAG D) (hp : IsPattern D Pt) : ConsistentExt Pt D where
  nodes := hp.nodes.symm
  noUn := hd.noUn
  acyclic := hd.acyclic
  skel := fun a b => (hp.skel a b).symm
  dir := by
    rintro ⟨a, c⟩ he
    obtain ⟨b, hv⟩ := (hp.dirIff a c).mp he
    exact hv.1
  vstruct := by
    intro a c b
    constructor
    · rintro ⟨h1, h2, h3, h4⟩
      refine ⟨(hp.dirIff a c).mpr ⟨b, h1, h2, h3, h4⟩,
        (hp.dirIff b c).mpr ⟨a, h2, h1, fun e => h3 e.symm, fun h => h4 h.symm⟩, h3,
        fun h => h4 ((hp.skel a b).mp h)⟩
    · rintro ⟨h1, h2, h3, h4⟩
      obtain ⟨_, hv1⟩ := (hp.dirIff a c).mp h1
      obtain ⟨_, hv2⟩ := (hp.dirIff b c).mp h2
      exact ⟨hv1.1, hv2.1, h3, fun h => h4 ((hp.skel a b).mpr h)⟩

/-- **C08, first sentence (conditional on `MeekT3`).**  On the pattern of any DAG the closure returns
    the essential graph: an edge is directed iff it is compelled in the Markov equivalence class. -/
theorem meek_pattern_essential_of_T3 (hT3 : MeekT3) (D Pt : MG) (inner : List Nat) (hd : IsDAG D)
    (hp : IsPattern D Pt) (hwf : Pt.WF) (hin : inner.Nodup) (hcov : ∀ v ∈ Pt.nodes, v ∈ inner) :
    IsEssential D Pt (meek Pt inner) := by
  have hext := ext_of_pattern hd hp
  have st := meek_steps hp.simple hin
  refine ⟨st.nodes.trans hp.nodes, fun a b => (st.skel a b).trans (hp.skel a b), ?_, st.simple hp.simple⟩
  intro a b
  rw [meek_complete_of_T3 hT3 Pt inner hp.simple hwf ⟨D, hext⟩ hin hcov a b]
  constructor
  · rintro (h | ⟨hu, hc⟩)
    · exact ⟨(hp.skel a b).mp (Or.inl h), fun D' hD' => hD'.dir _ h⟩
    · exact ⟨(hp.skel a b).mp hu.skel, hc⟩
  · rintro ⟨hsk, hc⟩
    rcases (hp.skel a b).mpr hsk with h | h | h | h
    · exact Or.inl h
    · exfalso
      exact hd.acyclic a b (hc D hext) (Anc.step (hext.dir _ h) (Anc.refl _))
    · exact Or.inr ⟨Or.inl h, hc⟩
    · exact Or.inr ⟨Or.inr h, hc⟩

end C08

namespace C08
open MG

/-- **order independence (conditional on `MeekT3`).** For a PDAG with a consistent extension the
    arrows and the remaining undirected edges of the result do not depend on the set-iteration order. -/
theorem meek_order_independent_of_T3 (hT3 : MeekT3) (P : MG) (inner₁ inner₂ : List Nat) (hs : Simple P)
    (hwf : P.WF) (hext : ∃ D, ConsistentExt P D) (h1 : inner₁.Nodup) (h2 : inner₂.Nodup)
    (c1 : ∀ v ∈ P.nodes, v ∈ inner₁) (c2 : ∀ v ∈ P.nodes, v ∈ inner₂) (a b : Nat) :
    ((a, b) ∈ (meek P inner₁).dir ↔ (a, b) ∈ (meek P inner₂).dir) ∧
    (HasUn (meek P inner₁) a b ↔ HasUn (meek P inner₂) a b) := by
  have d1 := meek_complete_of_T3 hT3 P inner₁ hs hwf hext h1 c1
  have d2 := meek_complete_of_T3 hT3 P inner₂ hs hwf hext h2 c2
  refine ⟨(d1 a b).trans (d2 a b).symm, ?_⟩
  have key : ∀ (i₁ i₂ : List Nat) (_ : i₁.Nodup) (_ : i₂.Nodup)
      (e1 : ∀ a b, (a, b) ∈ (meek P i₁).dir ↔ (a, b) ∈ P.dir ∨ (HasUn P a b ∧ Compelled P a b))
      (e2 : ∀ a b, (a, b) ∈ (meek P i₂).dir ↔ (a, b) ∈ P.dir ∨ (HasUn P a b ∧ Compelled P a b)),
      HasUn (meek P i₁) a b → HasUn (meek P i₂) a b := by
    intro i₁ i₂ n1 n2 e1 e2 hu
    have st1 := meek_steps (inner := i₁) hs n1
    have st2 := meek_steps (inner := i₂) hs n2
    have huP : HasUn P a b := hu.imp (st1.un_anti _) (st1.un_anti _)
    have s1 := st1.simple hs
    rcases st2.un_cases huP with h | h | h
    · exact h
    · have := (e1 a b).mpr ((e2 a b).mp h)
      have := s1 _ _ this
      rcases hu with hu | hu
      · exact absurd hu this.1
      · exact absurd hu this.2
    · have := (e1 b a).mpr ((e2 b a).mp h)
      have := s1 _ _ this
      rcases hu with hu | hu
      · exact absurd hu this.2
      · exact absurd hu this.1
  exact ⟨key inner₁ inner₂ h1 h2 d1 d2, key inner₂ inner₁ h2 h1 d2 d1⟩

end C08
