import Pw.C18.Bfs

/-! # C18: soundness of `uncovered_pd_path` — whenever `found` is True the returned list is an
uncovered potentially-directed path for the query (`UncovPd`), for every graph of the domain, every
neighbour iteration order and every option combination. -/
namespace C18

theorem hB_comm (G : MG) (a b : Nat) : hB G a b = hB G b a := by simp [hB, Bool.or_comm]
theorem hU_comm (G : MG) (a b : Nat) : hU G a b = hU G b a := by simp [hU, Bool.or_comm]
theorem adj_comm (G : MG) (a b : Nat) : adj G a b = adj G b a := by
  simp only [adj, hB_comm G a b, hU_comm G a b]
  cases hD G a b <;> cases hD G b a <;> cases hB G b a <;> cases hU G b a <;> cases hC G a b <;>
    cases hC G b a <;> rfl

/-- on the property's domain the mark test of the (fixed) code is the specification's edge test -/
theorem pdCode_eq_pdEdge {G : MG} (hS : Simple G) (fc : Bool) (x y : Nat) :
    pdCode G fc x y = pdEdge G fc x y := by
  obtain ⟨h1, h2, h3, _⟩ := hS x y
  obtain ⟨_, _, h3', _⟩ := hS y x
  simp only [pdCode, pdEdge, mark, adj, hB_comm G y x, hU_comm G y x] at *
  revert h1 h2 h3 h3'
  generalize hD G x y = d1
  generalize hD G y x = d2
  generalize hB G x y = b
  generalize hU G x y = u
  generalize hC G x y = c1
  generalize hC G y x = c2
  cases fc <;> cases d1 <;> cases d2 <;> cases b <;> cases u <;> cases c1 <;> cases c2 <;> decide

theorem pdCode_adj {G : MG} {fc : Bool} {x y : Nat} (h : pdCode G fc x y = true) : adj G x y = true := by
  simp only [pdCode, adj] at *
  revert h
  cases fc <;> cases hD G x y <;> cases hD G y x <;> cases hC G x y <;> cases hC G y x <;> simp

theorem pdCode_irrefl {G : MG} (hS : Simple G) {fc : Bool} {x : Nat} : pdCode G fc x x = false := by
  have h := (hS x x).2.2.2
  cases hp : pdCode G fc x x with
  | false => rfl
  | true => rw [pdCode_adj hp] at h; cases h

/-! ## list lemmas -/

theorem chainB_append_singleton (r : Nat → Nat → Bool) (l : List Nat) (x : Nat) :
    chainB r (l ++ [x]) = (chainB r l && match l.getLast? with | some y => r y x | none => true) := by
  induction l with
  | nil => simp [chainB]
  | cons a t ih =>
    cases t with
    | nil => simp [chainB]
    | cons b t' =>
      have : (a :: b :: t') ++ [x] = a :: b :: (t' ++ [x]) := rfl
      rw [this, chainB, chainB]
      have ih' : chainB r (b :: (t' ++ [x])) = _ := ih
      rw [ih', Bool.and_assoc]
      simp [List.getLast?_cons_cons]

theorem unsh_append_singleton (G : MG) (l : List Nat) (x : Nat) :
    unsh G (l ++ [x]) = (unsh G l && match penult l with | some p => !adj G p x | none => true) := by
  induction l with
  | nil => simp [unsh, penult]
  | cons a t ih =>
    cases t with
    | nil => simp [unsh, penult]
    | cons b t' =>
      cases t' with
      | nil => simp [unsh, penult]
      | cons c t'' =>
        have e : (a :: b :: c :: t'') ++ [x] = a :: b :: c :: (t'' ++ [x]) := rfl
        rw [e, unsh, unsh]
        have ih' : unsh G (b :: c :: (t'' ++ [x])) = _ := ih
        rw [ih', Bool.and_assoc]
        have : penult (a :: b :: c :: t'') = penult (b :: c :: t'') := by
          simp [penult, List.dropLast, List.getLast?_cons_cons]
        rw [this]

/-! ## valid partial paths -/

/-- `l = [first_node] ++ core` is a valid beginning of an uncovered pd path for the query -/
def UPre (G : MG) (q : Query) (l : List Nat) : Prop :=
  ∃ core, l = q.first.toList ++ core ∧ core.head? = some q.u ∧ l.Nodup ∧
    chainB (pdEdge G q.fc) core = true ∧ unsh G l = true ∧
    (∀ s, q.second = some s → core[1]? = some s) ∧
    (∀ f, q.forbid = some f → core[1]? ≠ some f)

theorem uncovPd_of_core {G : MG} {q : Query} {l core : List Nat} (hl : l = q.first.toList ++ core)
    (hh : core.head? = some q.u) (hc : core.getLast? = some q.c) (h2 : 2 ≤ core.length) (hn : l.Nodup)
    (hch : chainB (pdEdge G q.fc) core = true) (hu : unsh G l = true)
    (hs : ∀ s, q.second = some s → core[1]? = some s) (hf : ∀ f, q.forbid = some f → core[1]? ≠ some f) :
    UncovPd G q l := by
  subst hl
  unfold UncovPd
  simp only [List.drop_left', List.take_left']
  exact ⟨trivial, hh, hc, h2, hn, hch, hu, hs, hf⟩

theorem uncovCls_tail {pd : Bool} {next c : Nat} {r : Cls}
    (h : (if (!pd) = true then Cls.skip else if (next == c) = true then Cls.fin else Cls.push) = r)
    (hr : r ≠ .skip) : pd = true ∧ (next = c → r = .fin) ∧ (next ≠ c → r = .push) := by
  by_cases c3 : (!pd) = true
  · rw [if_pos c3] at h; exact absurd h.symm hr
  · rw [if_neg c3] at h
    refine ⟨by simpa using c3, ?_, ?_⟩
    · intro e; have : (next == c) = true := by simp [e]
      rw [if_pos this] at h; exact h.symm
    · intro e; have : ¬ (next == c) = true := by simp [e]
      rw [if_neg this] at h; exact h.symm

theorem uncovCls_cases {G : MG} {q : Query} {prev : Option Nat} {this next : Nat} {r : Cls}
    (h : uncovCls G q prev this next = r) (hr : r ≠ .skip) :
    ¬ (this = q.u ∧ q.forbid = some next) ∧ (∀ p, prev = some p → adj G p next = false) ∧
      pdCode G q.fc this next = true ∧ (next = q.c → r = .fin) ∧ (next ≠ q.c → r = .push) := by
  unfold uncovCls at h
  by_cases c1 : (this == q.u && q.forbid == some next) = true
  · rw [if_pos c1] at h; exact absurd h.symm hr
  · rw [if_neg c1] at h
    have n1 : ¬ (this = q.u ∧ q.forbid = some next) := by
      intro ⟨e1, e2⟩; apply c1; simp [e1, e2]
    cases prev with
    | none =>
      simp only at h
      rw [if_neg (by simp)] at h
      exact ⟨n1, fun p hp => (by cases hp), uncovCls_tail h hr⟩
    | some p =>
      simp only at h
      by_cases c2 : adj G p next = true
      · rw [if_pos c2] at h; exact absurd h.symm hr
      · rw [if_neg c2] at h
        refine ⟨n1, ?_, uncovCls_tail h hr⟩
        intro p' hp; injection hp with hp; subst hp; simpa using c2

theorem uncovCls_push {G : MG} {q : Query} {prev : Option Nat} {this next : Nat}
    (h : uncovCls G q prev this next = .push) :
    ¬ (this = q.u ∧ q.forbid = some next) ∧ (∀ p, prev = some p → adj G p next = false) ∧
      pdCode G q.fc this next = true ∧ next ≠ q.c := by
  obtain ⟨a, b, c, d, _⟩ := uncovCls_cases h (by simp)
  exact ⟨a, b, c, fun e => by cases d e⟩

theorem uncovCls_fin {G : MG} {q : Query} {prev : Option Nat} {this next : Nat}
    (h : uncovCls G q prev this next = .fin) :
    ¬ (this = q.u ∧ q.forbid = some next) ∧ (∀ p, prev = some p → adj G p next = false) ∧
      pdCode G q.fc this next = true ∧ next = q.c := by
  obtain ⟨a, b, c, _, e⟩ := uncovCls_cases h (by simp)
  refine ⟨a, b, c, ?_⟩
  by_cases hn : next = q.c
  · exact hn
  · cases e hn

/-- extension of a valid partial path by an admissible node -/
theorem UPre.extend {G : MG} (hS : Simple G) {q : Query} {l : List Nat} {this next : Nat}
    (hP : UPre G q l) (hlast : l.getLast? = some this) (hnl : next ∉ l)
    (h1 : ¬ (this = q.u ∧ q.forbid = some next)) (h2 : ∀ p, penult l = some p → adj G p next = false)
    (h3 : pdCode G q.fc this next = true) :
    ∃ core, l ++ [next] = q.first.toList ++ core ∧ core.head? = some q.u ∧ (l ++ [next]).Nodup ∧
      chainB (pdEdge G q.fc) core = true ∧ unsh G (l ++ [next]) = true ∧
      (∀ s, q.second = some s → core[1]? = some s) ∧
      (∀ f, q.forbid = some f → core[1]? ≠ some f) ∧ core.getLast? = some next ∧ 2 ≤ core.length := by
  obtain ⟨core, hl, hh, hn, hch, hu, hs, hf⟩ := hP
  have hcne : core ≠ [] := by intro e; simp [e] at hh
  have hclast : core.getLast? = some this := by
    rw [hl, List.getLast?_append] at hlast
    cases hcl : core.getLast? with
    | none => exact absurd (List.getLast?_eq_none_iff.mp hcl) hcne
    | some z => simpa [hcl] using hlast
  refine ⟨core ++ [next], by rw [hl, List.append_assoc], ?_, ?_, ?_, ?_, ?_, ?_, by simp, ?_⟩
  · cases core with
    | nil => exact absurd rfl hcne
    | cons a t => simpa using hh
  · rw [List.nodup_append]
    refine ⟨hn, by simp, ?_⟩
    intro a ha b hb; simp at hb; subst hb; intro e; exact hnl (e ▸ ha)
  · rw [chainB_append_singleton, hch, hclast]
    simp [← pdCode_eq_pdEdge hS, h3]
  · rw [unsh_append_singleton, hu]
    cases hp : penult l with
    | none => simp
    | some p => simp [h2 p hp]
  · intro s hs'
    have := hs s hs'
    have hlt : 1 < core.length := by
      rcases Nat.lt_or_ge 1 core.length with h | h
      · exact h
      · rw [List.getElem?_eq_none h] at this; cases this
    rw [List.getElem?_append_left hlt]; exact this
  · intro f hf'
    rcases Nat.lt_or_ge 1 core.length with h | h
    · rw [List.getElem?_append_left h]; exact hf f hf'
    · -- core = [u]
      have hlen : core.length = 1 := by
        cases core with
        | nil => exact absurd rfl hcne
        | cons a t => simp at h ⊢; omega
      rw [List.getElem?_append_right (by omega), hlen]
      simp only [Nat.sub_self, List.getElem?_cons_zero]
      intro e
      injection e with e
      apply h1
      refine ⟨?_, by rw [hf', e]⟩
      cases core with
      | nil => exact absurd rfl hcne
      | cons a t =>
        cases t with
        | nil => simp at hh hclast; rw [← hclast, hh]
        | cons b t' => simp at hlen
  · have : 1 ≤ core.length := by
      cases core with
      | nil => exact absurd rfl hcne
      | cons a t => simp
    simp; omega

theorem uncov_hpush {G : MG} (hS : Simple G) (q : Query) :
    ∀ l this next, UPre G q l → l.getLast? = some this → next ∉ l →
      uncovCls G q (penult l) this next = .push → UPre G q (l ++ [next]) := by
  intro l this next hP hlast hnl hc
  obtain ⟨h1, h2, h3, _⟩ := uncovCls_push hc
  obtain ⟨core, a, b, c, d, e, f, g, _, _⟩ := hP.extend hS hlast hnl h1 h2 h3
  exact ⟨core, a, b, c, d, e, f, g⟩

theorem uncov_hfin {G : MG} (hS : Simple G) (q : Query) :
    ∀ l this next, UPre G q l → l.getLast? = some this → next ∉ l →
      uncovCls G q (penult l) this next = .fin → UncovPd G q (l ++ [next]) := by
  intro l this next hP hlast hnl hc
  obtain ⟨h1, h2, h3, h4⟩ := uncovCls_fin hc
  obtain ⟨core, a, b, c, d, e, f, g, h, i⟩ := hP.extend hS hlast hnl h1 h2 h3
  exact uncovPd_of_core a b (h4 ▸ h) i c d e f g

theorem UncovPd.last {G : MG} {q : Query} {l : List Nat} (h : UncovPd G q l) : l.getLast? = some q.c := by
  obtain ⟨_, _, hc, h2, _⟩ := h
  have := List.getLast?_drop (l := l) (i := q.first.toList.length)
  rw [hc] at this
  split at this
  · rename_i hle; simp [List.drop_eq_nil_of_le hle] at h2
  · exact this.symm

/-- the state before the loop satisfies the invariant -/
theorem uncovInit_inv {G : MG} (hS : Simple G) {q : Query} (hfu : q.first ≠ some q.u)
    (hg : uncovGuard G q = false) (hb : secondBad G q = false) :
    Inv (q.first.getD q.u) (UPre G q) (UncovPd G q) (uncovInit q) := by
  have hboth : ¬ (q.first.isSome = true ∧ q.second.isSome = true) := by
    intro ⟨h1, h2⟩; simp [uncovGuard, h1, h2] at hg
  unfold uncovInit
  cases hf : q.first with
  | some f =>
    have hsn : q.second = none := by
      cases hs : q.second with
      | none => rfl
      | some s => exact absurd ⟨by simp [hf], by simp [hs]⟩ hboth
    have hfne : f ≠ q.u := fun e => hfu (by rw [hf, e])
    have hune : q.u ≠ f := fun e => hfne e.symm
    simp only [hsn, optList, Option.toList, Option.getD, List.nil_append, List.append_nil,
      List.cons_append]
    refine ⟨?_, by simp, ?_, by simp⟩
    · intro x hx
      simp at hx; subst hx
      refine ⟨[f] ++ [q.u], Tr.step hune (by simp [List.lookup_cons]) Tr.base, ?_, by simp, by simp⟩
      refine ⟨[q.u], by simp [hf], rfl, by simp [hfne], by simp [chainB], by simp [unsh], ?_, ?_⟩
      · intro s hs; rw [hsn] at hs; cases hs
      · intro f' _; simp
    · have : (f == q.u) = false := by simp [hfne]
      simp [List.lookup_cons, this]
  | none =>
    cases hs : q.second with
    | none =>
      simp only [optList, Option.toList, Option.getD, List.nil_append]
      refine ⟨?_, by simp, by simp, by simp⟩
      intro x hx
      simp at hx; subst hx
      refine ⟨[q.u], Tr.base, ?_, by simp, by simp⟩
      refine ⟨[q.u], by simp [hf], rfl, by simp, by simp [chainB], by simp [unsh], ?_, ?_⟩
      · intro s hs'; rw [hs] at hs'; cases hs'
      · intro f' _; simp
    | some s =>
      simp only [secondBad, hs, Bool.or_eq_false_iff, Bool.not_eq_false'] at hb
      have hpd : pdCode G q.fc q.u s = true := hb.1
      have hfb : (q.forbid == some s) = false := hb.2
      have hne : s ≠ q.u := by
        intro e; rw [e, pdCode_irrefl hS] at hpd; cases hpd
      have hune : q.u ≠ s := fun e => hne e.symm
      simp only [optList, Option.toList, Option.getD, List.nil_append, List.append_nil,
        List.cons_append]
      refine ⟨?_, by simp, ?_, by simp⟩
      · intro x hx
        simp at hx; subst hx
        refine ⟨[q.u] ++ [x], Tr.step hne (by simp [List.lookup_cons]) Tr.base, ?_, by simp, by simp⟩
        refine ⟨[q.u, x], by simp [hf], rfl, by simp [hune], ?_, by simp [unsh], ?_, ?_⟩
        · simp [chainB, ← pdCode_eq_pdEdge hS, hpd]
        · intro s' hs'; rw [hs] at hs'; injection hs' with hs'; simp [hs']
        · intro f' hf' e; simp at e; rw [hf', e] at hfb; simp at hfb
      · have : (q.u == s) = false := by simp [hune]
        simp [List.lookup_cons, this]

/-- rebuilding the path from a state that satisfies the invariant -/
theorem uncovFinish_sound {G : MG} {q : Query} {s : St}
    (hi : Inv (q.first.getD q.u) (UPre G q) (UncovPd G q) s) {p : List Nat}
    (h : uncovFinish q s = .ok (p, true)) (hp : p ≠ []) : UncovPd G q p := by
  unfold uncovFinish at h
  by_cases hl : s.limit = true
  · rw [if_pos hl] at h; injection h with h; injection h with h1 _; exact absurd h1.symm hp
  · rw [if_neg hl] at h
    by_cases hfound : s.found = true
    · rw [if_pos hfound] at h
      obtain ⟨e, _, l, htr, hQ, _, hlen⟩ := hi.fin hfound
      have he : e = q.c := by
        have h1 := htr.last; rw [hQ.last] at h1; injection h1 with h1; exact h1.symm
      subst he
      rw [recon_of_Tr htr _ [] (by omega)] at h
      simp at h
      rw [← h]; exact hQ
    · rw [if_neg hfound] at h; injection h with h; injection h with _ h2; cases h2

/-- **Soundness of `uncovered_pd_path`.**  On every graph with at most one edge kind per pair, for
    every neighbour iteration order `nb` (not even assumed to list the neighbours), every query with
    `first_node ≠ u` and every distance limit: if the model returns `found = True` with a non-empty
    list (the list is empty only if the 1000-pop limit was hit), the list is an uncovered pd path for
    the query in the sense of `UncovPd`. -/
theorem uncovPdPath_sound (G : MG) (hS : Simple G) (nb : Nat → List Nat) (q : Query)
    (hfu : q.first ≠ some q.u) (maxLen : Nat) (p : List Nat)
    (h : uncovPdPath G nb q maxLen = .ok (p, true)) (hp : p ≠ []) : UncovPd G q p := by
  unfold uncovPdPath at h
  cases hg : uncovGuard G q with
  | true => rw [hg, if_pos rfl] at h; cases h
  | false =>
  rw [hg, if_neg (by simp)] at h
  cases hb : secondBad G q with
  | true => rw [hb, if_pos rfl] at h; injection h with h; injection h with _ h2; cases h2
  | false =>
  rw [hb, if_neg (by simp)] at h
  by_cases hsc : (q.second == some q.c) = true
  · -- second_node == c: the one-edge path
    rw [if_pos hsc] at h
    injection h with h; injection h with h1 _; subst h1
    have hsec : q.second = some q.c := by simpa using hsc
    have hfirst : q.first = none := by
      cases hf : q.first with
      | none => rfl
      | some f => simp [uncovGuard, hf, hsec] at hg
    simp only [secondBad, hsec, Bool.or_eq_false_iff, Bool.not_eq_false'] at hb
    have hpd : pdCode G q.fc q.u q.c = true := hb.1
    have hfb : (q.forbid == some q.c) = false := hb.2
    have hne : q.u ≠ q.c := by
      intro e; rw [e, pdCode_irrefl hS] at hpd; cases hpd
    refine uncovPd_of_core (core := [q.u, q.c]) (by simp [hfirst]) rfl rfl (by simp) (by simp [hne]) ?_
      (by simp [unsh]) ?_ ?_
    · simp [chainB, ← pdCode_eq_pdEdge hS, hpd]
    · intro s hs; rw [hsec] at hs; injection hs with hs; simp [hs]
    · intro f hf e; simp at e; rw [hf, e] at hfb; simp at hfb
  · rw [if_neg hsc] at h
    exact uncovFinish_sound
      (loop_inv (uncov_hpush hS q) (uncov_hfin hS q) nb true maxLen _ (uncovInit_inv hS hfu hg hb)) h hp

end C18
