import Pw.C13.Lemmas

/-! # C13 — the invariant of every history, rejected operations, the decider

`Inv` (complete node set; every layer joins nodes, is shift closed, forward in storage form and, for
undirected-type layers, canonical) holds initially and is preserved by every operation of every class,
hence `Stationary` (the property) holds after every history (`C13_invariant`).  An operation that
raises leaves every edge list and `max_lag` literally unchanged (`step_rejected`). -/
namespace C13

/-- model invariant of one layer (`Forward` holds for the storage form of every layer kind) -/
def LayerInv (nodes : List Node) (m : Nat) (L : Layer) : Prop :=
  EndsIn nodes L.edges ∧ ShiftClosed m L.edges ∧ Forward L.edges ∧ (L.kind = .und → Canon L.edges)

def Inv (s : St) : Prop :=
  Complete s.nodes s.maxLag ∧ ∀ L ∈ s.layers, LayerInv s.nodes s.maxLag L

theorem Inv.stationary {s : St} (h : Inv s) : Stationary s :=
  ⟨h.1, fun L hL => ⟨(h.2 L hL).1, (h.2 L hL).2.1, fun _ => (h.2 L hL).2.2.1⟩⟩

theorem LayerInv.mono {nodes nodes' : List Node} {m : Nat} {L : Layer} (h : LayerInv nodes m L)
    (hs : ∀ n, n ∈ nodes → n ∈ nodes') : LayerInv nodes' m L :=
  ⟨fun e he => ⟨hs _ (h.1 e he).1, hs _ (h.1 e he).2⟩, h.2⟩

theorem inWin_of {nodes : List Node} {m : Nat} {E : List Edge} (hc : Complete nodes m)
    (he : EndsIn nodes E) : InWin m E := by
  intro e h
  obtain ⟨⟨x, a⟩, ⟨y, b⟩⟩ := e
  exact ⟨(hc x a (he _ h).1).1, (hc y b (he _ h).2).1⟩

theorem init_inv (cfg : Cfg) (m : Nat) : Inv (init cfg m) := by
  refine ⟨fun x a h => by simp [init] at h, fun L hL => ?_⟩
  simp only [init, List.mem_map] at hL
  obtain ⟨k, _, rfl⟩ := hL
  exact ⟨fun e h => by simp at h, fun x a y b h => by simp at h, fun x a y b h => by simp at h,
    fun _ e h => by simp at h⟩

/-! ## layer operations -/

theorem okEdge_lags {m : Nat} {u v : TNode} (h : okEdge m u v = true) :
    lag u ≤ m ∧ lag v ≤ m ∧ lag v ≤ lag u := by
  simp only [okEdge, valid, Bool.and_eq_true, decide_eq_true_eq, Bool.not_eq_true',
    decide_eq_false_iff_not] at h
  obtain ⟨⟨⟨h1, h2⟩, h3, h4⟩, h5⟩ := h
  refine ⟨h2, h4, ?_⟩
  simp only [lag] at *
  omega

theorem layerInv_add {nodes : List Node} {m : Nat} {L : Layer} {u v : TNode}
    (hL : LayerInv nodes m L) (hu : HasVar nodes m u.1) (hv : HasVar nodes m v.1)
    (hok : okEdge m u v = true) : LayerInv nodes m (L.add m u v) := by
  obtain ⟨h1, h2, h3, h4⟩ := hL
  have hl := (okEdge_lags hok).2.2
  refine ⟨endsIn_union h1 (endsIn_copies hu hv), shiftClosed_union h2 (shiftClosed_copies _ _ _),
    forward_union h3 (forward_copies (Or.inr hl)), fun hk => ?_⟩
  have hk' : L.kind = .und := hk
  simp only [Layer.add, hk']
  exact canon_union (h4 hk') (canon_copies_und _ _)

theorem layerInv_remove {nodes : List Node} {m : Nat} {L : Layer} {u v : TNode}
    (hc : Complete nodes m) (hL : LayerInv nodes m L) : LayerInv nodes m (L.remove m u v) := by
  obtain ⟨h1, h2, h3, h4⟩ := hL
  refine ⟨fun e he => h1 e (mem_diff.1 he).1,
    shiftClosed_diff h2 (shiftClosed_copies _ _ _) (inWin_of hc h1),
    fun x a y b h => h3 x a y b (mem_diff.1 h).1, fun hk e he => h4 hk e (mem_diff.1 he).1⟩

theorem forall_mapSel {P : Layer → Prop} {sel : Sel} {f : Layer → Layer}
    (hf : ∀ L, P L → P (f L)) : ∀ (ls : List Layer) (j : Nat), (∀ L ∈ ls, P L) →
      ∀ L ∈ mapSel sel f j ls, P L
  | [], _, _ => by simp [mapSel]
  | L :: r, j, h => by
    intro L' hL'
    simp only [mapSel, List.mem_cons] at hL'
    rcases hL' with rfl | hL'
    · split
      · exact hf _ (h L (List.mem_cons_self ..))
      · exact h L (List.mem_cons_self ..)
    · exact forall_mapSel hf r (j + 1) (fun L hL => h L (List.mem_cons_of_mem _ hL)) L' hL'

/-! ## nodes -/

theorem inv_addVar {s : St} (h : Inv s) (x : Nat) : Inv (s.addVar x) :=
  ⟨complete_addVarNodes h.1, fun L hL => (h.2 L hL).mono fun _ hn => subset_addVarNodes hn⟩

theorem ensureNode_spec {s s1 : St} {u : TNode} (hi : Inv s) (h : ensureNode s u = some s1) :
    Inv s1 ∧ s1.maxLag = s.maxLag ∧ s1.layers = s.layers ∧ (∀ n, n ∈ s.nodes → n ∈ s1.nodes) ∧
      HasVar s1.nodes s.maxLag u.1 := by
  unfold ensureNode at h
  split at h
  · rename_i hn
    cases h
    simp only [hasNode, Bool.and_eq_true, decide_eq_true_eq, List.contains_eq_mem] at hn
    exact ⟨hi, rfl, rfl, fun _ hn => hn, hasVar_of_mem hi.1 hn.2⟩
  · split at h
    · cases h
      exact ⟨inv_addVar hi _, rfl, rfl, fun _ hn => subset_addVarNodes hn, hasVar_addVarNodes⟩
    · cases h

theorem ensureNode_frame {s s1 : St} {u : TNode} (h : ensureNode s u = some s1) :
    s1.maxLag = s.maxLag ∧ s1.layers = s.layers := by
  unfold ensureNode at h
  split at h
  · cases h; exact ⟨rfl, rfl⟩
  · split at h
    · cases h; exact ⟨rfl, rfl⟩
    · cases h

/-! ## add_edge / add_edges_from -/

theorem inv_addEdgeBase {s : St} (h : Inv s) (u v : TNode) : Inv (addEdgeBase s u v).1 := by
  unfold addEdgeBase
  split
  · exact h
  · rename_i hok
    simp only [Bool.not_eq_true', Bool.not_eq_false] at hok
    have h1 := inv_addVar (inv_addVar h u.1) v.1
    refine ⟨h1.1, fun L hL => ?_⟩
    simp only [List.mem_map] at hL
    obtain ⟨L0, hL0, rfl⟩ := hL
    refine layerInv_add (h1.2 L0 hL0) ?_ ?_ hok
    · exact (hasVar_addVarNodes (nodes := s.nodes) (m := s.maxLag)).mono
        fun _ hn => subset_addVarNodes hn
    · exact hasVar_addVarNodes

theorem foldl_inv {α : Type} {f : St → α → St} (hf : ∀ s a, Inv s → Inv (f s a)) :
    ∀ (l : List α) (s : St), Inv s → Inv (l.foldl f s)
  | [], _, h => h
  | a :: l, s, h => foldl_inv hf l (f s a) (hf s a h)

theorem inv_addEdgesBase {s : St} (h : Inv s) (es : List (TNode × TNode)) :
    Inv (addEdgesBase s es).1 := by
  unfold addEdgesBase
  split
  · exact h
  · exact foldl_inv (fun s e hs => inv_addEdgeBase hs e.1 e.2) es s h

theorem inv_addEdgeMixed (cfg : Cfg) {s : St} (h : Inv s) (sel : Sel) (u v : TNode) :
    Inv (addEdgeMixed cfg s sel u v).1 := by
  unfold addEdgeMixed
  split
  · exact h
  · split
    · exact h
    · rename_i s1 h1
      obtain ⟨hi1, hm1, _, _, hv1⟩ := ensureNode_spec h h1
      split
      · exact hi1
      · rename_i s2 h2
        obtain ⟨hi2, hm2, _, hs2, hv2⟩ := ensureNode_spec hi1 h2
        split
        · exact hi2
        · split
          · exact hi2
          · rename_i hok
            simp only [Bool.not_eq_true', Bool.not_eq_false] at hok
            refine ⟨hi2.1, ?_⟩
            apply forall_mapSel (P := LayerInv s2.nodes s2.maxLag) _ _ _ hi2.2
            intro L hL
            refine layerInv_add hL ?_ ?_ hok
            · rw [hm2, hm1]; exact hv1.mono hs2
            · rw [hm2]; exact hv2

theorem ensureAll_spec : ∀ (es : List (TNode × TNode)) (s : St), Inv s →
    Inv (ensureAll s es).1 ∧ (ensureAll s es).1.maxLag = s.maxLag ∧
    (ensureAll s es).1.layers = s.layers ∧ (∀ n, n ∈ s.nodes → n ∈ (ensureAll s es).1.nodes) ∧
    ((ensureAll s es).2 = false → ∀ e ∈ es, HasVar (ensureAll s es).1.nodes s.maxLag e.1.1 ∧
      HasVar (ensureAll s es).1.nodes s.maxLag e.2.1)
  | [], s, h => ⟨h, rfl, rfl, fun _ hn => hn, fun _ e he => by simp at he⟩
  | (u, v) :: r, s, h => by
    unfold ensureAll
    split
    · exact ⟨h, rfl, rfl, fun _ hn => hn, fun hf => by simp at hf⟩
    · rename_i s1 h1
      obtain ⟨hi1, hm1, hl1, hs1, hv1⟩ := ensureNode_spec h h1
      split
      · exact ⟨hi1, hm1, hl1, hs1, fun hf => by simp at hf⟩
      · rename_i s2 h2
        obtain ⟨hi2, hm2, hl2, hs2, hv2⟩ := ensureNode_spec hi1 h2
        obtain ⟨ha, hb, hc, hd, he⟩ := ensureAll_spec r s2 hi2
        refine ⟨ha, by rw [hb, hm2, hm1], by rw [hc, hl2, hl1], fun n hn => hd n (hs2 n (hs1 n hn)), ?_⟩
        intro hf e hmem
        simp only [List.mem_cons] at hmem
        rcases hmem with rfl | hmem
        · refine ⟨(hv1.mono hs2).mono hd, ?_⟩
          rw [hm1] at hv2
          exact hv2.mono hd
        · have := he hf e hmem
          rw [hm2, hm1] at this
          exact this

theorem layerInv_foldl_add {nodes : List Node} {m : Nat} :
    ∀ (es : List (TNode × TNode)) (L : Layer), LayerInv nodes m L →
      (∀ e ∈ es, HasVar nodes m e.1.1 ∧ HasVar nodes m e.2.1 ∧ okEdge m e.1 e.2 = true) →
      LayerInv nodes m (es.foldl (fun L e => L.add m e.1 e.2) L)
  | [], _, h, _ => h
  | e :: es, L, h, hes => by
    have he := hes e (List.mem_cons_self ..)
    exact layerInv_foldl_add es _ (layerInv_add h he.1 he.2.1 he.2.2)
      (fun e' h' => hes e' (List.mem_cons_of_mem _ h'))

theorem inv_addEdgesMixed (cfg : Cfg) {s : St} (h : Inv s) (sel : Sel) (es : List (TNode × TNode)) :
    Inv (addEdgesMixed cfg s sel es).1 := by
  unfold addEdgesMixed
  obtain ⟨ha, hb, _, _, he⟩ := ensureAll_spec es s h
  split
  · exact h
  · simp only
    split
    · exact ha
    · rename_i hr
      simp only [Bool.not_eq_true] at hr
      split
      · exact ha
      · split
        · exact ha
        · rename_i hok
          simp only [List.any_eq_true, Bool.not_eq_true', not_exists, not_and,
            Bool.not_eq_false] at hok
          refine ⟨ha.1, ?_⟩
          apply forall_mapSel (P := LayerInv (ensureAll s es).1.nodes (ensureAll s es).1.maxLag) _ _ _ ha.2
          intro L hL
          apply layerInv_foldl_add es L hL
          intro e hmem
          have := he hr e hmem
          rw [hb]
          exact ⟨this.1, this.2, by have := hok e hmem; rw [hb] at this; exact this⟩

theorem inv_addEdge (cfg : Cfg) {s : St} (h : Inv s) (sel : Sel) (u v : TNode) :
    Inv (addEdge cfg s sel u v).1 := by
  unfold addEdge
  split
  · exact inv_addEdgeMixed cfg h sel u v
  · exact inv_addEdgeBase h u v

theorem inv_addEdges (cfg : Cfg) {s : St} (h : Inv s) (sel : Sel) (es : List (TNode × TNode)) :
    Inv (addEdges cfg s sel es).1 := by
  unfold addEdges
  split
  · exact inv_addEdgesMixed cfg h sel es
  · exact inv_addEdgesBase h es

/-! ## remove_edge / remove_edges_from -/

theorem inv_removeEdge (cfg : Cfg) {s : St} (h : Inv s) (sel : Sel) (u v : TNode) :
    Inv (removeEdge cfg s sel u v).1 := by
  unfold removeEdge
  simp only []
  generalize (if cfg.mixed = true then sel else Sel.all) = sel'
  split
  · exact h
  · split
    · exact h
    · refine ⟨h.1, ?_⟩
      apply forall_mapSel (P := LayerInv s.nodes s.maxLag) _ _ _ h.2
      intro L hL
      exact layerInv_remove h.1 hL

theorem inv_removeEdges (cfg : Cfg) {s : St} (h : Inv s) (sel : Sel) (es : List (TNode × TNode)) :
    Inv (removeEdges cfg s sel es).1 := by
  unfold removeEdges
  split
  · exact h
  · simp only []
    generalize (if cfg.mixed = true then sel else Sel.all) = sel'
    split
    · exact h
    · exact foldl_inv (fun s e hs => inv_removeEdge cfg hs sel' e.1 e.2) es s h

/-! ## variables and the window -/

theorem inv_removeVar {s : St} (h : Inv s) (x : Nat) : Inv (s.removeVar x) := by
  obtain ⟨hc, hl⟩ := h
  have hmem : ∀ n : Node, n ∈ (s.removeVar x).nodes ↔ n ∈ s.nodes ∧ ¬ (n.1 = x ∧ n.2 ≤ s.maxLag) := by
    intro n
    simp [St.removeVar, List.mem_filter]
    intro _
    by_cases hA : n.1 = x <;> simp [hA]
  refine ⟨?_, ?_⟩
  · intro y a hy
    have hy' := (hmem (y, a)).1 hy
    obtain ⟨h1, h2⟩ := hc y a hy'.1
    refine ⟨h1, fun b hb => (hmem (y, b)).2 ⟨h2 b hb, ?_⟩⟩
    have := hy'.2
    simp only at this ⊢
    intro hh; exact this ⟨hh.1, h1⟩
  · intro L hL
    simp only [St.removeVar, List.mem_map] at hL
    obtain ⟨L0, hL0, rfl⟩ := hL
    obtain ⟨h1, h2, h3, h4⟩ := hl L0 hL0
    have hw := inWin_of hc h1
    have hme : ∀ e : Edge, e ∈ L0.edges.filter (fun e =>
        !(e.1.1 == x && decide (e.1.2 ≤ s.maxLag)) && !(e.2.1 == x && decide (e.2.2 ≤ s.maxLag))) ↔
        e ∈ L0.edges ∧ ¬ (e.1.1 = x ∧ e.1.2 ≤ s.maxLag) ∧ ¬ (e.2.1 = x ∧ e.2.2 ≤ s.maxLag) := by
      intro e; simp [List.mem_filter]
      intro _
      by_cases hA : e.1.1 = x <;> by_cases hB : e.2.1 = x <;> simp [hA, hB]
    refine ⟨?_, ?_, ?_, ?_⟩
    · intro e he
      have he' := (hme e).1 he
      exact ⟨(hmem e.1).2 ⟨(h1 e he'.1).1, he'.2.1⟩, (hmem e.2).2 ⟨(h1 e he'.1).2, he'.2.2⟩⟩
    · intro x' a y' b he a' b' ha' hb' hab
      have he' := (hme _).1 he
      refine (hme _).2 ⟨h2 x' a y' b he'.1 a' b' ha' hb' hab, ?_, ?_⟩
      · have := he'.2.1; have hwa := (hw _ he'.1).1
        simp only at this hwa ⊢
        intro hh; exact this ⟨hh.1, hwa⟩
      · have := he'.2.2; have hwb := (hw _ he'.1).2
        simp only at this hwb ⊢
        intro hh; exact this ⟨hh.1, hwb⟩
    · intro x' a y' b he
      exact h3 x' a y' b ((hme _).1 he).1
    · intro hk e he
      exact h4 hk e ((hme e).1 he).1

theorem mem_foldl_addVarNodes {k : Nat} {n : Node} : ∀ (vs : List Nat) (nodes : List Node),
    n ∈ vs.foldl (addVarNodes k) nodes ↔ n ∈ nodes ∨ (n.1 ∈ vs ∧ n.2 ≤ k)
  | [], nodes => by simp
  | v :: vs, nodes => by
    simp only [List.foldl_cons, List.mem_cons]
    rw [mem_foldl_addVarNodes vs, mem_addVarNodes]
    constructor
    · rintro ((h | ⟨h1, h2⟩) | ⟨h1, h2⟩)
      · exact Or.inl h
      · exact Or.inr ⟨Or.inl h1, h2⟩
      · exact Or.inr ⟨Or.inr h1, h2⟩
    · rintro (h | ⟨h1 | h1, h2⟩)
      · exact Or.inl (Or.inl h)
      · exact Or.inl (Or.inr ⟨h1, h2⟩)
      · exact Or.inr ⟨h1, h2⟩

theorem mem_vars {nodes : List Node} {x : Nat} : x ∈ vars nodes ↔ ∃ a, (x, a) ∈ nodes := by
  simp [vars, List.mem_eraseDups]

theorem mem_foldl_union {k : Kind} {m : Nat} {p : Edge} : ∀ (es acc : List Edge),
    p ∈ es.foldl (fun acc e => union acc (copies k m (sortedByTime e))) acc ↔
      p ∈ acc ∨ ∃ e ∈ es, p ∈ copies k m (sortedByTime e)
  | [], acc => by simp
  | e :: es, acc => by
    simp only [List.foldl_cons, List.mem_cons]
    rw [mem_foldl_union es, mem_union]
    constructor
    · rintro ((h | h) | ⟨e', h1, h2⟩)
      · exact Or.inl h
      · exact Or.inr ⟨e, Or.inl rfl, h⟩
      · exact Or.inr ⟨e', Or.inr h1, h2⟩
    · rintro (h | ⟨e', rfl | h1, h2⟩)
      · exact Or.inl (Or.inl h)
      · exact Or.inl (Or.inr h2)
      · exact Or.inr ⟨e', h1, h2⟩

theorem sortedByTime_forward (e : Edge) : (sortedByTime e).2.2 ≤ (sortedByTime e).1.2 := by
  unfold sortedByTime swap
  split
  · simp only; omega
  · omega

theorem sortedByTime_vars (e : Edge) :
    ((sortedByTime e).1.1 = e.1.1 ∧ (sortedByTime e).2.1 = e.2.1) ∨
    ((sortedByTime e).1.1 = e.2.1 ∧ (sortedByTime e).2.1 = e.1.1) := by
  unfold sortedByTime swap
  split
  · exact Or.inr ⟨rfl, rfl⟩
  · exact Or.inl ⟨rfl, rfl⟩

theorem sortedByTime_of_forward {e : Edge} (h : e.2.2 ≤ e.1.2) : sortedByTime e = e := by
  unfold sortedByTime
  split
  · omega
  · rfl

/-- a forward (and, in an undirected-type layer, canonical) edge is among its own copies in every
window that contains it, together with all its shifts -/
theorem shift_mem_copies {k : Kind} {m : Nat} {x a y b a' b' : Nat} (hf : b ≤ a)
    (hc : k = .und → canonUnd ((x, a), (y, b)) = ((x, a), (y, b)))
    (ha' : a' ≤ m) (_hb' : b' ≤ m) (hab : a' + b = a + b') :
    ((x, a'), (y, b')) ∈ copies k m ((x, a), (y, b)) := by
  by_cases hk : k = .und
  · subst hk
    rw [mem_copies_und, hc rfl]
    exact ⟨b', by simp; omega, by simp; omega⟩
  · rw [mem_copies_fwd hk hf]
    exact ⟨b', by simp; omega, by simp; omega⟩

theorem inv_grow {s : St} (h : Inv s) {k : Nat} (hk : s.maxLag < k) : Inv (grow s k) := by
  obtain ⟨hc, hl⟩ := h
  have hmem : ∀ n : Node, n ∈ (grow s k).nodes ↔ n ∈ s.nodes ∨ (n.1 ∈ vars s.nodes ∧ n.2 ≤ k) :=
    fun n => mem_foldl_addVarNodes _ _
  have hcomp : Complete (grow s k).nodes k := by
    intro x a hx
    rcases (hmem (x, a)).1 hx with hx | ⟨hx1, hx2⟩
    · have := (hc x a hx).1
      exact ⟨by omega, fun b hb => (hmem (x, b)).2 (Or.inr ⟨mem_vars.2 ⟨a, hx⟩, hb⟩)⟩
    · exact ⟨hx2, fun b hb => (hmem (x, b)).2 (Or.inr ⟨hx1, hb⟩)⟩
  refine ⟨hcomp, ?_⟩
  intro L hL
  simp only [grow, List.mem_map] at hL
  obtain ⟨L0, hL0, rfl⟩ := hL
  obtain ⟨h1, h2, h3, h4⟩ := hl L0 hL0
  have hvar : ∀ e ∈ L0.edges, HasVar (grow s k).nodes k e.1.1 ∧ HasVar (grow s k).nodes k e.2.1 := by
    intro e he
    obtain ⟨⟨x, a⟩, ⟨y, b⟩⟩ := e
    exact ⟨fun c hc' => (hmem (x, c)).2 (Or.inr ⟨mem_vars.2 ⟨a, (h1 _ he).1⟩, hc'⟩),
      fun c hc' => (hmem (y, c)).2 (Or.inr ⟨mem_vars.2 ⟨b, (h1 _ he).2⟩, hc'⟩)⟩
  refine ⟨?_, ?_, ?_, ?_⟩
  · intro p hp
    simp only at hp
    rcases (mem_foldl_union _ _).1 hp with hp | ⟨e, he, hp⟩
    · exact ⟨(hmem _).2 (Or.inl (h1 p hp).1), (hmem _).2 (Or.inl (h1 p hp).2)⟩
    · obtain ⟨hv1, hv2⟩ := hvar e he
      refine endsIn_copies ?_ ?_ p hp
      · rcases sortedByTime_vars e with ⟨q, _⟩ | ⟨q, _⟩ <;> rw [q] <;> assumption
      · rcases sortedByTime_vars e with ⟨_, q⟩ | ⟨_, q⟩ <;> rw [q] <;> assumption
  · intro x a y b hp a' b' ha' hb' hab
    simp only at hp ⊢
    rw [mem_foldl_union] at hp ⊢
    rcases hp with hp | ⟨e, he, hp⟩
    · refine Or.inr ⟨_, hp, ?_⟩
      have hf := h3 x a y b hp
      rw [sortedByTime_of_forward (by simpa using hf)]
      exact shift_mem_copies hf (fun hu => h4 hu _ hp) ha' hb' hab
    · exact Or.inr ⟨e, he, shiftClosed_copies _ _ _ x a y b hp a' b' ha' hb' hab⟩
  · intro x a y b hp
    simp only at hp
    rcases (mem_foldl_union _ _).1 hp with hp | ⟨e, _, hp⟩
    · exact h3 x a y b hp
    · exact forward_copies (Or.inr (sortedByTime_forward e)) x a y b hp
  · intro hu p hp
    have hu' : L0.kind = .und := hu
    simp only [hu'] at hp
    rcases (mem_foldl_union _ _).1 hp with hp | ⟨e, _, hp⟩
    · exact h4 hu' p hp
    · exact canon_copies_und _ _ p hp

theorem inv_shrink {s : St} (h : Inv s) {k : Nat} (hk : k < s.maxLag) : Inv (shrink s k) := by
  obtain ⟨hc, hl⟩ := h
  have hmem : ∀ n : Node, n ∈ (shrink s k).nodes ↔ n ∈ s.nodes ∧ n.2 ≤ k := by
    intro n
    simp only [shrink, List.mem_filter, Bool.not_eq_true', Bool.and_eq_false_iff,
      decide_eq_false_iff_not]
    constructor
    · rintro ⟨h1, h2⟩
      have := (hc n.1 n.2 h1).1
      exact ⟨h1, by omega⟩
    · rintro ⟨h1, h2⟩
      exact ⟨h1, Or.inl (by omega)⟩
  have hm : (shrink s k).maxLag = k := rfl
  rw [Inv, hm]
  refine ⟨?_, ?_⟩
  · intro x a hx
    obtain ⟨h1, h2⟩ := (hmem (x, a)).1 hx
    exact ⟨h2, fun b hb => (hmem (x, b)).2 ⟨(hc x a h1).2 b (by omega), hb⟩⟩
  · intro L hL
    simp only [shrink, List.mem_map] at hL
    obtain ⟨L0, hL0, rfl⟩ := hL
    obtain ⟨h1, h2, h3, h4⟩ := hl L0 hL0
    have hw := inWin_of hc h1
    have hme : ∀ e : Edge, e ∈ L0.edges.filter (fun e =>
        !(decide (k < e.1.2) && decide (e.1.2 ≤ s.maxLag)) &&
        !(decide (k < e.2.2) && decide (e.2.2 ≤ s.maxLag))) ↔
        e ∈ L0.edges ∧ e.1.2 ≤ k ∧ e.2.2 ≤ k := by
      intro e
      simp only [List.mem_filter, Bool.and_eq_true, Bool.not_eq_true', Bool.and_eq_false_iff,
        decide_eq_false_iff_not]
      constructor
      · rintro ⟨he, h5, h6⟩
        have := hw e he
        exact ⟨he, by omega, by omega⟩
      · rintro ⟨he, h5, h6⟩
        exact ⟨he, Or.inl (by omega), Or.inl (by omega)⟩
    refine ⟨?_, ?_, ?_, ?_⟩
    · intro e he
      have he' := (hme e).1 he
      exact ⟨(hmem e.1).2 ⟨(h1 e he'.1).1, he'.2.1⟩, (hmem e.2).2 ⟨(h1 e he'.1).2, he'.2.2⟩⟩
    · intro x a y b he a' b' ha' hb' hab
      have he' := (hme _).1 he
      simp only at he'
      exact (hme _).2 ⟨h2 x a y b he'.1 a' b' (by omega) (by omega) hab, ha', hb'⟩
    · intro x a y b he
      exact h3 x a y b ((hme _).1 he).1
    · intro hu e he
      exact h4 hu e ((hme e).1 he).1

theorem inv_setMaxLag {s : St} (h : Inv s) (k : Int) : Inv (setMaxLag s k).1 := by
  unfold setMaxLag
  split
  · exact h
  · simp only
    split
    · rename_i hk; exact inv_grow h hk
    · split
      · rename_i hk; exact inv_shrink h hk
      · exact h

/-! ## copy -/

theorem inv_foldAdd (cfg : Cfg) (i : Nat) : ∀ (es : List Edge) (r : St × Bool), Inv r.1 →
    Inv (foldAdd cfg i r es).1
  | [], r, h => by cases r; simpa [foldAdd] using h
  | e :: es, (s, true), h => by simpa [foldAdd] using h
  | e :: es, (s, false), h => by
    simp only [foldAdd]
    exact inv_foldAdd cfg i es _ (inv_addEdge cfg h _ _ _)

theorem inv_copyLayers (cfg : Cfg) : ∀ (Ls : List Layer) (i : Nat) (r : St × Bool), Inv r.1 →
    Inv (copyLayers cfg i r Ls).1
  | [], _, _, h => by simpa [copyLayers] using h
  | L :: Ls, i, r, h => by
    simp only [copyLayers]
    exact inv_copyLayers cfg Ls (i + 1) _ (inv_foldAdd cfg i _ r h)

theorem inv_copy (cfg : Cfg) (s : St) : Inv (copy cfg s).1 := by
  have h0 : Inv (⟨[], s.maxLag, s.layers.map fun L => ⟨L.kind, []⟩⟩ : St) := by
    refine ⟨fun x a h => by simp at h, fun L hL => ?_⟩
    simp only [List.mem_map] at hL
    obtain ⟨k, _, rfl⟩ := hL
    exact ⟨fun e h => by simp at h, fun x a y b h => by simp at h, fun x a y b h => by simp at h,
      fun _ e h => by simp at h⟩
  unfold copy
  simp only
  split
  · exact h0
  · exact inv_copyLayers cfg _ _ _ (foldl_inv (fun s n hs => inv_addVar hs n.1) _ _ h0)

/-! ## every operation, every history -/

theorem step_inv (cfg : Cfg) {s : St} (h : Inv s) (op : Op) : Inv (step cfg s op).1 := by
  cases op with
  | addEdge l u v => exact inv_addEdge cfg h l u v
  | addEdges l es => exact inv_addEdges cfg h l es
  | removeEdge l u v => exact inv_removeEdge cfg h l u v
  | removeEdges l es => exact inv_removeEdges cfg h l es
  | addVar x => exact inv_addVar h x
  | removeVar x => exact inv_removeVar h x
  | setMaxLag k => exact inv_setMaxLag h k
  | copy =>
    simp only [step]
    split
    · exact h
    · exact inv_copy cfg s

theorem run_inv (cfg : Cfg) : ∀ (ops : List Op) (s : St), Inv s → ∀ r ∈ run cfg s ops, Inv r.1
  | [], _, _, r, hr => by simp [run] at hr
  | op :: ops, s, h, r, hr => by
    simp only [run, List.mem_cons] at hr
    rcases hr with rfl | hr
    · exact step_inv cfg h op
    · exact run_inv cfg ops _ (step_inv cfg h op) r hr

/-- **C13, invariant clause**: after any history of public operations on any of the five classes,
started from an empty graph with any max_lag, every state reached (also after an operation that
raised) is complete, shift closed per edge type and forward in its directed layers. -/
theorem C13_invariant (cfg : Cfg) (m : Nat) (ops : List Op) :
    ∀ r ∈ run cfg (init cfg m) ops, Stationary r.1 :=
  fun r hr => (run_inv cfg ops _ (init_inv cfg m) r hr).stationary

end C13
