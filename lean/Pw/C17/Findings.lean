import Pw.C17.Proofs
open Closure C16

/-! # C17: component / lag restrictions as intersections, counterexample theorems of the two known
findings, non-vacuity examples -/
namespace C17

/-- decidable form of "no self loops" -/
def NoLoopD (G : MG) : Prop :=
  (∀ e ∈ G.dir, e.1 ≠ e.2) ∧ (∀ e ∈ G.bi, e.1 ≠ e.2) ∧ (∀ e ∈ G.un, e.1 ≠ e.2) ∧ (∀ e ∈ G.circ, e.1 ≠ e.2)

instance (G : MG) : Decidable (NoLoopD G) := by unfold NoLoopD; infer_instance

theorem noLoop_of_D {G : MG} (h : NoLoopD G) : NoLoop G := by
  obtain ⟨hd, hb, hu, hc⟩ := h
  intro v ha
  rcases ha with h | h | h | h | h | h | h | h
  · exact hd _ h rfl
  · exact hd _ h rfl
  · exact hb _ h rfl
  · exact hb _ h rfl
  · exact hu _ h rfl
  · exact hu _ h rfl
  · exact hc _ h rfl
  · exact hc _ h rfl

/-! ## `pds_path`, `pds_t`, `pds_t_path` are plain intersections -/

/-- ★ the component model is the declarative "on a common simple cycle with the edge x–y" -/
theorem mem_bicomp {G : MG} {x y : Nat} (hx : x ∈ G.nodes) (w : Nat) : w ∈ bicomp G x y ↔ InBicomp G x y w := by
  unfold bicomp InBicomp
  by_cases ha : Adj G x y
  · simp only [ha, not_true_eq_false, if_false, List.mem_cons, List.mem_flatten, List.mem_filter, Bool.and_eq_true,
      decide_eq_true_eq, mem_simplePaths hx, true_and]
    constructor
    · rintro (h | h | ⟨p, ⟨⟨hp, hh⟩, hl, hlen⟩, hw⟩)
      · exact Or.inl h
      · exact Or.inr (Or.inl h)
      · exact Or.inr (Or.inr ⟨p, hp, hh, hl, hlen, hw⟩)
    · rintro (h | h | ⟨p, hp, hh, hl, hlen, hw⟩)
      · exact Or.inl h
      · exact Or.inr (Or.inl h)
      · exact Or.inr (Or.inr ⟨p, ⟨⟨hp, hh⟩, hl, hlen⟩, hw⟩)
  · simp [ha]

/-- ★ `pds_path(G, x, y) = pds(G, x, y) ∩ component(x–y)` -/
theorem mem_pdsPath {G : MG} {x y : Nat} (hx : x ∈ G.nodes) (v : Nat) :
    v ∈ pdsPath G x y ↔ v ∈ pds G x (some y) ∧ InBicomp G x y v := by
  unfold pdsPath
  rw [List.mem_filter, decide_eq_true_eq, mem_bicomp hx]

/-- ★ `pds_t(G, x, y) = pds(G, x, y) ∩ {v | |lag v| ≤ max(|lag x|, |lag y|)}` -/
theorem mem_pdsT {G : MG} {L : List Nat} {x y : Nat} (v : Nat) :
    v ∈ pdsT G L x y ↔ v ∈ pds G x (some y) ∧ LagOK L x y v := by
  unfold pdsT LagOK
  rw [List.mem_filter, decide_eq_true_eq]

/-- ★ `pds_t_path` = all three restrictions -/
theorem mem_pdsTPath {G : MG} {L : List Nat} {x y : Nat} (hx : x ∈ G.nodes) (v : Nat) :
    v ∈ pdsTPath G L x y ↔ v ∈ pds G x (some y) ∧ InBicomp G x y v ∧ LagOK L x y v := by
  unfold pdsTPath LagOK
  rw [List.mem_filter, decide_eq_true_eq, mem_pdsPath hx, and_assoc]

/-- the restricted sets inherit "never outside the definition" from `pds_subset_pdsDef` -/
theorem pdsPath_subset_pdsDef {G : MG} (hw : WF G) (hl : NoLoop G) {x y : Nat} (hx : x ∈ G.nodes) (hxy : x ≠ y)
    {v : Nat} (h : v ∈ pdsPath G x y) : PdsDef G x (some y) v ∧ InBicomp G x y v :=
  ⟨pds_subset_pdsDef hw hl hx (by simpa using hxy) ((mem_pdsPath hx v).mp h).1, ((mem_pdsPath hx v).mp h).2⟩

/-! ## known finding `C17-pds-queues-prev-next`: the code as it is returns too little -/

/-- `0 -> 1 <-> 2 <- 3` -/
def chainG : MG := { nodes := [0, 1, 2, 3], dir := [(0, 1), (3, 2)], bi := [(1, 2)] }

example : WF chainG ∧ NoLoopD chainG ∧ 0 ∈ chainG.nodes := by decide

/-- node 3 belongs to the definition of `pds(chainG, 0)`: on the path 0,1,2,3 both inner nodes are colliders -/
theorem chainG_def : PdsDef chainG 0 none 3 :=
  ⟨(by intro _ e; cases e), [0, 1, 2, 3], by decide, rfl⟩

/-- **counterexample (by `decide` on the witness)**: the literal model of the code – which the
    implementation equals on every run – does not contain the definition: `3 ∉ pds(chainG, 0)` -/
theorem pds_counterexample_too_small : ¬ (∀ v, PdsDef chainG 0 none v → v ∈ pds chainG 0 none) := by
  intro h
  have h3 := (mem_pds_imp (G := chainG) (by decide) (by decide) (h 3 chainG_def)).2
  revert h3
  unfold Near
  decide

/-! ## known finding `C17-walk-search-superset-of-path-definition` -/

/-- `3 -> 0`, `2 -> 4`, `0 <-> 4`, `1 <-> 3`, `1 o-o 4`, `3 o-o 4` -/
def walkG : MG := { nodes := [0, 1, 2, 3, 4], dir := [(3, 0), (2, 4)], bi := [(0, 4), (1, 3)],
                    circ := [(1, 4), (4, 1), (3, 4), (4, 3)] }

theorem walkG_noLoop : NoLoop walkG := noLoop_of_D (by decide)

/-- the intended search finds node 2 from node 1 along the WALK 1,4,3,0,4,2 (node 4 is entered twice) -/
theorem walkG_walk : 2 ∈ pdsW walkG 1 none :=
  (mem_pdsW_iff_walk (G := walkG) (by decide) walkG_noLoop (by decide) 2).mpr
    ⟨(by intro _ e; cases e), [4, 3, 0, 4, 2], by decide, by decide, rfl, by decide, by decide, by decide, by decide⟩

/-- no PATH of the definition reaches node 2 (brute force over all simple paths, kernel-checked) -/
theorem walkG_no_path : ¬ PdsDef walkG 1 none 2 := by
  rw [← mem_pdsDec (G := walkG) (by decide) (by decide)]
  decide

/-- **counterexample**: equality of the (intended) walk-based search with the PATH definition is false;
    the search returns a strict superset – the safe side for FCI (`pdsDef_subset_pdsW`) -/
theorem pdsW_counterexample_walk_not_path : ¬ (∀ v, v ∈ pdsW walkG 1 none → PdsDef walkG 1 none v) :=
  fun h => walkG_no_path (h 2 walkG_walk)

/-! ## non-vacuity -/

/-- `pdsDef_subset_pdsW` used on a concrete graph: hypotheses satisfiable, conclusion non-trivial -/
example : 3 ∈ pdsW chainG 0 none :=
  pdsDef_subset_pdsW (G := chainG) (by decide) (noLoop_of_D (by decide)) (by decide) chainG_def

/-- endpoint variant: with `y = 2` the chain is cut, node 3 is not in the definition -/
example : ¬ PdsDef chainG 0 (some 2) 3 := by
  rw [← mem_pdsDec (G := chainG) (by decide) (by decide)]
  decide

end C17
