import Pw.C06.Search
open Closure

/-! # C06: model-level node paths (`NodeOK`, per-triple collider test) ↔ specification (`InducingPath`,
one edge per hop)

* `spec_of_nodeOK`: choose on every hop the canonical edge (`canon`: the bidirected one if present).  It
  carries an arrowhead wherever any edge of the pair does, so "collider by the node triple" becomes
  "collider on the path".
* `nodeOK_of_spec`: the only case where the triple test looks at the wrong licence is a node that is a
  non-collider on the path (so it is in `L`) while the triple says "collider" (a bow is involved).  Such a
  node has a tail on the path, and following the directed edges along an inducing path one ends in a
  collider or in an endpoint – all ancestors of x, y or S (`rightGood` / the left-to-right invariant). -/
namespace C06
open MG

variable {G : MG} {L S : List Nat} {x y : Nat}

theorem endNode_mem : ∀ (a : Nat) (t : List Hop), endNode a t ∈ nodesOf a t
  | a, [] => by simp [endNode, nodesOf]
  | a, h :: t => by
    have := endNode_mem h.nx t
    simp only [endNode, nodesOf, List.map_cons, List.mem_cons] at this ⊢
    exact Or.inr this

/-- hops along a node list with the canonical edge choice -/
def canonHops (G : MG) : Nat → List Nat → List Hop
  | _, [] => []
  | a, b :: rest => ⟨(canon G a b).1, (canon G a b).2, b⟩ :: canonHops G b rest

theorem canonHops_nodes : ∀ (rest : List Nat) (a : Nat), (canonHops G a rest).map (·.nx) = rest
  | [], _ => rfl
  | b :: rest, _ => by simp [canonHops, canonHops_nodes rest b]

/-- model → spec, inner part -/
theorem spec_of_nodeOK (hwf : G.WF) (hun : G.un = [])
    (no2 : ∀ a b, (a, b) ∈ G.dir → (b, a) ∉ G.dir) :
    ∀ (rest : List Nat) (prev a : Nat), a ∈ nbrs G prev →
      NodeOK G y L S (allAnc G x y S) prev a rest →
      ValidW G a (canonHops G a rest) ∧ endNode a (canonHops G a rest) = y ∧
      InnerOK G L S x y (some (canon G prev a).2) a (canonHops G a rest)
  | [], prev, a, _, hok => by
    simp only [canonHops, ValidW, endNode, InnerOK, and_true, true_and]; exact hok
  | b :: rest, prev, a, hadj, hok => by
    obtain ⟨_, hab, hpass, hok'⟩ := hok
    obtain ⟨hv, he, hi⟩ := spec_of_nodeOK hwf hun no2 rest a b hab hok'
    refine ⟨⟨canon_hasEdge hun hab, hv⟩, he, ?_, hi⟩
    rw [passes_iff] at hpass
    have hcoll : IsCollider (canon G prev a).2 (canon G a b).1 ↔ isCollider G prev a b = true := by
      unfold IsCollider isCollider
      rw [canon_snd_head, canon_fst_head hun no2 hab, Bool.and_eq_true]
    unfold condI
    by_cases hc : isCollider G prev a b = true
    · rw [if_pos hc] at hpass
      exact ⟨Or.inr (hcoll.mpr hc), fun _ => ancOf_of_model hwf hpass⟩
    · rw [if_neg hc] at hpass
      exact ⟨Or.inl hpass, fun h => absurd (hcoll.mp h) hc⟩

/-- following tails to the right along an inducing path one stays inside the ancestors of x, y, S -/
theorem rightGood (hun : G.un = []) :
    ∀ (t : List Hop) (h : Hop) (e : Option Mark) (a : Nat),
      ValidW G a (h :: t) → InnerOK G L S x y e a (h :: t) → endNode a (h :: t) = y →
      h.mp = .tail → AncOf G x y S a
  | [], h, e, a, hv, _, hend, hm => by
    obtain ⟨he, _⟩ := hv
    rw [hm] at he
    have := (dir_of_tail hun he).1
    simp only [endNode] at hend
    rw [hend] at this
    exact ancOf_step this ancOf_y
  | h2 :: t, h, e, a, hv, hi, hend, hm => by
    obtain ⟨he, hv'⟩ := hv
    rw [hm] at he
    obtain ⟨hdir, hmn⟩ := dir_of_tail hun he
    have hi' : InnerOK G L S x y (some h.mn) h.nx (h2 :: t) := by
      cases e with
      | none => exact hi
      | some m => exact hi.2
    apply ancOf_step hdir
    by_cases h2m : h2.mp = .tail
    · exact rightGood hun t h2 (some h.mn) h.nx hv' hi' (by simpa [endNode] using hend) h2m
    · have hcol : IsCollider h.mn h2.mp := ⟨hmn, by cases hh : h2.mp <;> simp_all⟩
      exact hi'.1.2 hcol

/-- spec → model, inner part.  `m` is the entry mark at `a` (coming from `prev`). -/
theorem nodeOK_of_spec (hwf : G.WF) (hun : G.un = []) :
    ∀ (hs : List Hop) (m : Mark) (prev a : Nat),
      ValidW G a hs → InnerOK G L S x y (some m) a hs → endNode a hs = y →
      (nodesOf a hs).Nodup → x ∉ nodesOf a hs →
      (m = .head → into G prev a = true) → (m = .tail → AncOf G x y S a) →
      NodeOK G y L S (allAnc G x y S) prev a (hs.map (·.nx))
  | [], _, _, a, _, _, hend, _, _, _, _ => by simpa [NodeOK, endNode] using hend
  | h :: t, m, prev, a, hv, hi, hend, hnd, hx, hin, hgood => by
    obtain ⟨he, hv'⟩ := hv
    obtain ⟨hc, hi'⟩ := hi
    have hnd' : a ∉ nodesOf h.nx t ∧ (nodesOf h.nx t).Nodup := by
      simpa [nodesOf] using hnd
    have hy_mem : y ∈ nodesOf h.nx t := by
      rw [← hend]; simp only [endNode]
      exact endNode_mem h.nx t
    have hay : a ≠ y := fun h' => hnd'.1 (h' ▸ hy_mem)
    have hax : a ≠ x := fun h' => hx (by rw [← h']; simp [nodesOf])
    -- `a` is an ancestor of x, y, S as soon as it is not a collider on the path
    have hgood_a : ¬ IsCollider m h.mp → AncOf G x y S a := by
      intro hnc
      by_cases hm : m = .tail
      · exact hgood hm
      · have hmh : m = .head := by cases m <;> simp_all
        have : h.mp = .tail := by
          cases hh : h.mp
          · rfl
          · exact absurd ⟨hmh, hh⟩ hnc
        exact rightGood hun t h (some m) a ⟨he, hv'⟩ ⟨hc, hi'⟩ hend this
    have hanc_a : isCollider G prev a h.nx = true → AncOf G x y S a := by
      intro _
      by_cases hcol : IsCollider m h.mp
      · exact hc.2 hcol
      · exact hgood_a hcol
    refine ⟨hay, mem_nbrs_of_hasEdge he, ?_, ?_⟩
    · rw [passes_iff]
      by_cases hcm : isCollider G prev a h.nx = true
      · rw [if_pos hcm]
        exact model_of_ancOf hwf (hanc_a hcm) hax hay
      · rw [if_neg hcm]
        rcases hc.1 with hl | hcol
        · exact hl
        · exfalso; apply hcm
          unfold isCollider
          rw [Bool.and_eq_true]
          refine ⟨hin hcol.1, ?_⟩
          have := he.symm
          rw [hcol.2] at this
          exact into_of_hasEdge_head this
    · apply nodeOK_of_spec hwf hun t h.mn a h.nx hv' hi' (by simpa [endNode] using hend) hnd'.2
      · intro hc'; apply hx; simp only [nodesOf, List.map_cons, List.mem_cons] at hc' ⊢
        exact Or.inr hc'
      · intro hmn; rw [hmn] at he; exact into_of_hasEdge_head he
      · intro hmn
        rw [hmn] at he
        obtain ⟨hdir, hmp⟩ := dir_of_tail' hun he
        apply ancOf_step hdir
        by_cases hcol : IsCollider m h.mp
        · exact hc.2 hcol
        · exact hgood_a hcol

end C06
