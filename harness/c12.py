"""C12: mixed_edge_moral_graph.

Stream `moral`: implementation's moral graph (nodes, edges) vs the Lean specification decider
`C12.specEdges` (brute force over all simple paths: adjacent, or joined by a path whose inner nodes are all
colliders; proved to decide the specification: C12.ccDec_iff) and vs the Lean model `C12.moral` (proved equal to the specification for all inputs:
theorem C12.moral_adj_iff).  Plain DAGs are additionally compared with the Lean definition of
skeleton + married parents and cross-checked with networkx.moral_graph.

Stream `sep` (second sentence; proved for the model in Pw/C12/Cut.lean, here exercised on the code): the implementation's
moral graph of the implementation's anterior subgraph is handed to the Lean vertex-cut decider
`C12.vcut`; the answer must equal the verified m-separation model `MG.mSeparatedE` (C01)."""
import itertools
import random

from . import common as C
from .shrink import shrink_case

PID = "C12"
STATES7 = C.ADMG_STATES + [("U",)]
STATES5 = [(), ("D>",), ("D<",), ("B",), ("U",)]


def in_domain(g):
    """quantifier of C01: directed part acyclic, no self loops, no undirected edge at a node that
    carries an arrowhead"""
    heads = set(b for a, b in g["D"]) | set(x for e in g["B"] for x in e)
    if any(a in heads or b in heads for a, b in g["U"]):
        return False
    if any(a == b for k in "DBU" for a, b in g[k]):
        return False
    return C.is_acyclic(g["n"], g["D"])


# ----------------------------------------------------------------------------- implementation
def _build(case):
    g = case["g"]
    lab = C.Labels(case.get("fam", "int"))
    layers = case.get("layers", "DBU")
    return C.build_mixed(g, lab, layers=tuple(layers)), lab


def _canon_edges(H, lab):
    return C.canon_und([(lab.inv(u), lab.inv(v)) for u, v in H.edges()])


def impl_moral(case):
    import networkx as nx
    import pywhy_graphs.networkx as pywhy_nx
    try:
        G, lab = _build(case)
    except Exception as e:
        return {"err": "build:" + type(e).__name__}
    if C.warm_decide(case, 4):
        # query, edit the same object in place, query again (see common.warmup)
        import pywhy_graphs.networkx as _pn
        C.warmup(G, lambda: _pn.mixed_edge_moral_graph(G), layers=("directed", "bidirected", "undirected"))
    before = C.snapshot(G)
    try:
        H = pywhy_nx.mixed_edge_moral_graph(G)
    except Exception as e:
        return {"err": type(e).__name__ + ":" + str(e)[:80]}
    after = C.snapshot(G)
    out = {"nodes": C.fmt_set(lab.inv(v) for v in H.nodes()), "edges": _canon_edges(H, lab),
           "mutated": before != after, "directed": bool(H.is_directed())}
    g = case["g"]
    if not g["B"] and not g["U"] and "D" in case.get("layers", "DBU"):
        M = nx.moral_graph(G.get_graphs("directed"))
        out["nx"] = _canon_edges(M, lab)
    return out


def _own_anterior(G, S):
    """anterior closure of S (nodes with a path of directed / undirected edges into S), computed here from
    the public accessors: the property names the closure, not a helper of the library"""
    D = G.get_graphs("directed") if "directed" in G.edge_types else None
    U = G.get_graphs("undirected") if "undirected" in G.edge_types else None
    seen, todo = set(S), list(S)
    while todo:
        v = todo.pop()
        nxt = []
        if D is not None and v in D:
            nxt += list(D.predecessors(v))
        if U is not None and v in U:
            nxt += list(U.neighbors(v))
        for w in nxt:
            if w not in seen:
                seen.add(w)
                todo.append(w)
    return seen


def impl_sep(case):
    """moral graph of the anterior subgraph, both computed by the implementation"""
    import pywhy_graphs.networkx as pywhy_nx
    try:
        G, lab = _build(case)
    except Exception as e:
        return {"err": "build:" + type(e).__name__}
    S = set(lab(v) for v in case["X"] + case["Y"] + case["Z"])
    try:
        A = _own_anterior(G, set(S))
        Gs = G.copy()
        Gs.remove_nodes_from(set(G.nodes()) - A)
        H = pywhy_nx.mixed_edge_moral_graph(Gs)
    except Exception as e:
        return {"err": type(e).__name__ + ":" + str(e)[:80]}
    return {"ant": C.fmt_set(lab.inv(v) for v in A), "nodes": C.fmt_set(lab.inv(v) for v in H.nodes()),
            "edges": _canon_edges(H, lab)}


def impl(case):
    return impl_sep(case) if case.get("kind") == "sep" else impl_moral(case)


# ----------------------------------------------------------------------------- Lean requests
def moral_line(case):
    return "moral " + C.g_line(case["g"])


def dag_line(case):
    return "dagmoral " + C.g_line(case["g"])


def sep_line(case):
    return "moralsep %s X=%s Y=%s Z=%s" % (C.g_line(case["g"]), C.fmt_set(case["X"]), C.fmt_set(case["Y"]),
                                          C.fmt_set(case["Z"]))


def vcut_line(case, got):
    return "vcut N=%s E=%s X=%s Y=%s Z=%s" % (got["nodes"], got["edges"], C.fmt_set(case["X"]),
                                            C.fmt_set(case["Y"]), C.fmt_set(case["Z"]))


def kv(ans):
    return dict(t.split("=", 1) for t in ans.split(" ") if "=" in t)


def skeleton(g):
    return C.canon_und(g["D"] + g["B"] + g["U"])


# ----------------------------------------------------------------------------- verdicts
def verdict_moral(case, got, lean, dag=None):
    """returns (kind, detail) or None.  kind in nodes|adjacency|dag|mutation|error|model"""
    if "err" in got:
        return "error", "implementation raised " + got["err"]
    m = kv(lean)
    if m["E"] != m["S"]:
        return "lean-inconsistent", "model %s spec %s" % (m["E"], m["S"])
    if got["nodes"] != m["N"]:
        return "nodes", "implementation nodes {%s} expected {%s}" % (got["nodes"], m["N"])
    if got["edges"] != m["S"]:
        return "adjacency", "implementation edges [%s] specification (collider-connected pairs) [%s]" % (
            got["edges"], m["S"])
    if dag is not None and got["edges"] != kv(dag)["E"]:
        return "dag", "plain DAG: implementation [%s] skeleton+married parents [%s]" % (got["edges"], kv(dag)["E"])
    if got.get("nx") is not None and got["nx"] != got["edges"]:
        return "dag-nx", "plain DAG: implementation [%s] networkx.moral_graph [%s]" % (got["edges"], got["nx"])
    if got.get("mutated"):
        return "mutation", "the call changed G"
    if got.get("directed"):
        return "type", "result is not an undirected graph"
    return None


def verdict_sep(case, got, lean, cut):
    if "err" in got:
        return "error", "implementation raised " + got["err"]
    m = kv(lean)
    if m["msep"].startswith("err"):
        return None
    if cut != m["msep"]:
        return "separation", ("Z cuts X from Y in implementation's moral graph of the anterior subgraph: %s, "
                              "m-separated (verified model): %s; anterior impl {%s} model {%s}; moral edges [%s]"
                              % (cut, m["msep"], got["ant"], m["ant"], got["edges"]))
    return None


def fails(case, drv):
    got = impl(case)
    if case.get("kind") == "sep":
        if "err" in got:
            return True
        return verdict_sep(case, got, drv.ask(sep_line(case)), drv.ask(vcut_line(case, got))) is not None
    g = case["g"]
    dag = drv.ask(dag_line(case)) if not g["B"] and not g["U"] else None
    return verdict_moral(case, got, drv.ask(moral_line(case)), dag) is not None


# ----------------------------------------------------------------------------- generators
def rand_moral_graph(rng, n):
    kind = rng.random()
    if kind < 0.3:      # plain DAG, fairly dense: common children
        g = C.rand_dag_order_graph(rng, n, [("D>",)], density=rng.choice((0.3, 0.5, 0.7)))
    elif kind < 0.65:   # ADMG with districts that have several parents
        g = C.rand_dag_order_graph(rng, n, [("D>",), ("D>",), ("B",), ("D>", "B")], density=rng.choice((0.35, 0.55)))
    elif kind < 0.8:    # sparse bidirected chains + parents
        g = C.rand_dag_order_graph(rng, n, [("B",), ("D>",)], density=0.4)
    else:               # ancestral-style with undirected part
        g = C.rand_dag_order_graph(rng, n, [("D>",), ("B",), ("U",), ("U",), ("D>", "B")], density=0.5)
        heads = set(b for a, b in g["D"]) | set(x for e in g["B"] for x in e)
        g["U"] = [e for e in g["U"] if e[0] not in heads and e[1] not in heads]
    return g


def sep_queries(rng, n, k):
    nodes = list(range(n))
    out = []
    for _ in range(k):
        rng.shuffle(nodes)
        kx, ky = rng.choice((1, 1, 2)), rng.choice((1, 1, 2))
        if kx + ky > n:
            kx, ky = 1, 1
        X, Y = nodes[:kx], nodes[kx:kx + ky]
        Z = [v for v in nodes[kx + ky:] if rng.random() < rng.choice((0.2, 0.5))]
        out.append((sorted(X), sorted(Y), sorted(Z)))
    return out


def all_queries(n):
    nodes = list(range(n))
    for assign in itertools.product((0, 1, 2, 3), repeat=n):
        X = [v for v in nodes if assign[v] == 1]
        Y = [v for v in nodes if assign[v] == 2]
        Z = [v for v in nodes if assign[v] == 3]
        if X and Y:
            yield X, Y, Z


FAMS = C.Labels.FAMILIES


def gen_cases(ctx):
    tier, rng = ctx["tier"], ctx["rng"]
    for c in C.load_corpus(PID):
        c = dict(c)
        c["src"] = "corpus"
        yield c
    # exhaustive: moral on all domain graphs
    for n in (1, 2, 3):
        for g in C.enum_graphs(n, STATES7):
            if in_domain(g):
                yield {"g": g, "src": "exh%d" % n}
                for X, Y, Z in all_queries(n):
                    yield {"g": g, "kind": "sep", "X": X, "Y": Y, "Z": Z, "src": "exh%d-sep" % n}
    states4 = STATES7 if tier == "thorough" else STATES5
    i = 0
    for g in C.enum_graphs(4, states4):
        if in_domain(g):
            i += 1
            yield {"g": g, "src": "exh4", "fam": FAMS[i % len(FAMS)]}
            if tier == "thorough" or i % 8 == 0:
                qs = list(all_queries(4))
                for X, Y, Z in (qs if tier == "thorough" and i % 8 == 0 else rng.sample(qs, 4)):
                    yield {"g": g, "kind": "sep", "X": X, "Y": Y, "Z": Z, "src": "exh4-sep"}
    # structured random
    N = 6000 if tier == "quick" else 60000
    for i in range(N):
        n = rng.choice((5, 5, 6, 6, 7, 8))
        g = rand_moral_graph(rng, n)
        case = {"g": C.shuffled_graph(rng, g) if i % 3 == 0 else g, "src": "rnd", "fam": FAMS[i % len(FAMS)]}
        if i % 4 == 1:
            present = "".join(k for k in "DBU" if g[k] or rng.random() < 0.5)
            if present:
                case["layers"] = present
        yield case
        if i % 2 == 0:
            n5 = rng.choice((4, 5, 5))
            g5 = rand_moral_graph(rng, n5)
            for X, Y, Z in sep_queries(rng, n5, 3):
                yield {"g": g5, "kind": "sep", "X": X, "Y": Y, "Z": Z, "src": "rnd-sep", "fam": FAMS[i % len(FAMS)]}


# ----------------------------------------------------------------------------- main
def run(ctx):
    ev, out = ctx["ev"], ctx["out"]
    ev.rule = ("moral stream: every graph of the C01 domain (acyclic directed part, no undirected edge at an "
               "arrowhead, no loops) on 1-3 nodes over pair states {none,->,<-,<->,->+<->,<-+<->,--}, on 4 nodes over "
               "{none,->,<-,<->,--} (thorough: all seven states); random n in 5..8: dense DAGs, ADMGs whose districts "
               "have several parents, bidirected chains, graphs with undirected parts; shuffled insertion order, five "
               "label families, missing layers.  sep stream (test level): exhaustive disjoint (X,Y,Z) on n<=3, sampled "
               "on n=4 (thorough: every 8th graph all queries), random n in 4..5.  non-trivial (moral) = the "
               "specification demands at least one edge between nodes that are not adjacent in G (a marriage); "
               "non-trivial (sep) = the moral graph of the anterior subgraph contains a marriage")
    ev.assumptions = ["inputs inside the quantifier of C01 (acyclic, no self loops, undirected edges only at nodes "
                      "without arrowheads); X, Y, Z pairwise disjoint, X and Y non-empty",
                      "second sentence: proved for the model (C12.sep_iff_vcut, via the proved T2); for the implementation "
                      "it is compared on the generated inputs: its moral graph of its anterior subgraph, cut decided by "
                      "the verified C12.vcut, against the verified m-separation model",
                      "label->index bijection and canonicalisation in harness/common.py"]
    cases = list(gen_cases(ctx))
    gots = C.pmap(impl, cases, chunksize=256)
    lines = []
    for k, (case, got) in enumerate(zip(cases, gots)):
        if case.get("kind") == "sep":
            lines.append(sep_line(case))
            lines.append(vcut_line(case, got) if "err" not in got else "vcut n=0 E= X= Y= Z=")
        else:
            g = case["g"]
            lines.append(moral_line(case))
            lines.append(dag_line(case) if not g["B"] and not g["U"] else "dagmoral n=0 D=")
    ans = C.lean_batch(lines)
    bad = []
    for k, (case, got) in enumerate(zip(cases, gots)):
        a, b = ans[2 * k], ans[2 * k + 1]
        g = case["g"]
        ev.count("src:" + case["src"])
        if case.get("kind") == "sep":
            r = verdict_sep(case, got, a, b)
            married = False
            if "err" not in got:
                ns = set(int(t) for t in got["nodes"].split(",") if t)
                married = got["edges"] != C.canon_und([e for e in g["D"] + g["B"] + g["U"] if e[0] in ns and e[1] in ns])
            ev.case(case, nontrivial=married, sample_every=4000)
            ev.count("sep:msep=" + kv(a)["msep"])
        else:
            isdag = not g["B"] and not g["U"]
            r = verdict_moral(case, got, a, b if isdag else None)
            spec = kv(a)["S"]
            ev.case(case, nontrivial=(spec != skeleton(g)), sample_every=4000)
            ev.count("moral:dag" if isdag else "moral:mixed")
            if "nx" in got:
                ev.count("moral:cross-checked-with-networkx")
        if r:
            bad.append((case, r))
    ev.extra["exhaustive_part"] = "moral: all domain graphs on <=3 nodes (7 pair states) and 4 nodes (5 states quick / 7 thorough)"
    if bad:
        report(ctx, bad)


def report(ctx, bad):
    out = ctx["out"]
    drv = C.Driver()
    try:
        seen = set()
        for case, (kind, detail) in bad:
            if kind in seen:
                continue
            seen.add(kind)
            if kind == "lean-inconsistent":
                out.proof_breaks.append("C12.moral_adj_iff contradicted by the driver: " + detail)
                continue
            small = shrink_case(case, lambda c: in_domain(c["g"]) and fails(c, drv))
            got = impl(small)
            req = sep_line(small) if small.get("kind") == "sep" else moral_line(small)
            out.violation(small, {"kind": kind, "detail": detail, "impl": got, "lean": drv.ask(req),
                                  "lean_request": req, "original_case": case,
                                  "disagreements_total": sum(1 for _, r in bad if r[0] == kind)})
    finally:
        drv.close()


def replay(ctx, payload):
    case = payload["case"]
    drv = C.Driver()
    got = impl(case)
    req = sep_line(case) if case.get("kind") == "sep" else moral_line(case)
    print("implementation:", got)
    print("lean:", req, "->", drv.ask(req))
    bad = fails(case, drv)
    drv.close()
    print("REPRODUCED" if bad else "NOT-REPRODUCED")
    return 1 if bad else 0


# ----------------------------------------------------------------------------- C15 adapter
def c15_cases(rng, k):
    cases = []
    for i in range(k):
        n = rng.choice((3, 4, 5, 6))
        cases.append({"g": rand_moral_graph(rng, n)})
    return cases


def c15_eval(case, fam, order_seed):
    c = {"g": C.shuffled_graph(random.Random(order_seed), case["g"]), "fam": fam}
    got = impl_moral(c)
    if "err" in got:
        return "err:" + got["err"].split(":")[0]
    return "N=%s E=%s" % (got["nodes"], got["edges"])


def c15_expected(cases):
    ans = C.lean_batch([moral_line(c) for c in cases])
    return ["N=%s E=%s" % (kv(a)["N"], kv(a)["S"]) for a in ans]
