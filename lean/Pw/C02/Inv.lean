import Pw.C02.LayerLemmas

/-! # C02: the container invariant holds after every history

`MEG.Inv`: node ids duplicate-free, edge-type names duplicate-free, **every layer has exactly the
master node set**, every layer is well formed (**endpoints are nodes**, no edge stored twice). -/
namespace C02

theorem mem_of_lookup {α} {t : Nat} {l : List (Nat × α)} {x : α} (h : List.lookup t l = some x) : (t, x) ∈ l := by
  induction l with
  | nil => simp at h
  | cons p l ih =>
    obtain ⟨k, y⟩ := p
    simp only [List.lookup_cons] at h
    split at h
    · rename_i hk; simp at hk h; subst hk; subst h; simp
    · exact List.mem_cons_of_mem _ (ih h)

theorem lookup_of_mem {α} {t : Nat} {l : List (Nat × α)} {x : α} (hn : (l.map (·.1)).Nodup) (h : (t, x) ∈ l) :
    List.lookup t l = some x := by
  induction l with
  | nil => simp at h
  | cons p l ih =>
    obtain ⟨k, y⟩ := p
    simp only [List.map_cons, List.nodup_cons, List.mem_map, not_exists, not_and] at hn
    simp only [List.lookup_cons]
    rcases List.mem_cons.1 h with h | h
    · cases h; simp
    · have : t ≠ k := fun hk => hn.1 (t, x) h hk
      have : (t == k) = false := by simpa using this
      simp [this, ih hn.2 h]

theorem lookup_map_snd {α β} (t : Nat) (l : List (Nat × α)) (f : Nat → α → β) :
    List.lookup t (l.map fun p => (p.1, f p.1 p.2)) = (List.lookup t l).map (f t) := by
  induction l with
  | nil => simp
  | cons p l ih =>
    obtain ⟨k, y⟩ := p
    simp only [List.map_cons, List.lookup_cons]
    split
    · rename_i hk; simp at hk; subst hk; simp
    · exact ih

theorem lookup_isSome_iff {α} (t : Nat) (l : List (Nat × α)) : (List.lookup t l).isSome = (l.map (·.1)).contains t := by
  induction l with
  | nil => simp
  | cons p l ih =>
    obtain ⟨k, y⟩ := p
    simp only [List.lookup_cons, List.map_cons, List.contains_cons]
    split
    · rename_i hk; simp [hk]
    · rename_i hk; simp at hk; simp [ih]; grind

namespace MEG

structure Inv (g : MEG) : Prop where
  nodup : g.nodeIds.Nodup
  names : g.names.Nodup
  sync : ∀ p ∈ g.layers, ∀ v, v ∈ p.2.nodes ↔ v ∈ g.nodeIds
  wf : ∀ p ∈ g.layers, p.2.WF

/-- all mutations have this shape: new node list, every layer transformed -/
def remap (g : MEG) (nodes' : List (Nat × Attr)) (f : Nat → Layer → Layer) : MEG :=
  { g with nodes := nodes', layers := g.layers.map fun p => (p.1, f p.1 p.2) }

theorem inv_remap {g : MEG} (hnames : g.names.Nodup) (nodes' : List (Nat × Attr)) (f : Nat → Layer → Layer)
    (hn : (nodes'.map (·.1)).Nodup)
    (hf : ∀ p ∈ g.layers, (f p.1 p.2).WF ∧ ∀ v, v ∈ (f p.1 p.2).nodes ↔ v ∈ nodes'.map (·.1)) :
    (g.remap nodes' f).Inv := by
  refine ⟨hn, ?_, ?_, ?_⟩
  · have : (g.remap nodes' f).names = g.names := by simp [MEG.remap, names, List.map_map, Function.comp_def]
    rw [this]; exact hnames
  · intro p hp v
    simp only [MEG.remap, List.mem_map] at hp
    obtain ⟨q, hq, rfl⟩ := hp
    exact (hf q hq).2 v
  · intro p hp
    simp only [MEG.remap, List.mem_map] at hp
    obtain ⟨q, hq, rfl⟩ := hp
    exact (hf q hq).1

theorem Inv.remap {g : MEG} (h : g.Inv) (nodes' : List (Nat × Attr)) (f : Nat → Layer → Layer)
    (hn : (nodes'.map (·.1)).Nodup)
    (hf : ∀ p ∈ g.layers, (f p.1 p.2).WF ∧ ∀ v, v ∈ (f p.1 p.2).nodes ↔ v ∈ nodes'.map (·.1)) :
    (g.remap nodes' f).Inv := inv_remap h.names nodes' f hn hf

theorem applyAll_eq (g : MEG) (f : Layer → Layer) : g.applyAll f = g.remap g.nodes fun _ => f := rfl
theorem setLayer_eq (g : MEG) (t : Nat) (L : Layer) :
    g.setLayer t L = g.remap g.nodes fun t' L' => if t' == t then L else L' := by
  simp only [setLayer, MEG.remap]
  congr 1
  apply List.map_congr_left
  intro p _; split <;> rfl

theorem hasNode_iff {g : MEG} {v : Nat} : g.hasNode v = true ↔ v ∈ g.nodeIds := by simp [hasNode]

/-! ### node operations -/
theorem nodeIds_addNode (g : MEG) (v : Nat) (a : Attr) :
    (g.addNode v a).nodeIds = if g.hasNode v then g.nodeIds else g.nodeIds ++ [v] := by
  unfold addNode; simp only
  split
  · simp only [applyAll, nodeIds, List.map_map]
    apply List.map_congr_left; intro p _; simp only [Function.comp]; split <;> rfl
  · simp [applyAll, nodeIds]
theorem mem_nodeIds_addNode {g : MEG} {v x : Nat} {a : Attr} :
    x ∈ (g.addNode v a).nodeIds ↔ x ∈ g.nodeIds ∨ x = v := by
  rw [nodeIds_addNode]; split
  · rename_i h; have := hasNode_iff.1 h; grind
  · simp
theorem addNode_eq (g : MEG) (v : Nat) (a : Attr) :
    g.addNode v a = g.remap (g.addNode v a).nodes fun _ L => L.addNode v := by
  unfold addNode; simp only; split <;> rfl

theorem Inv.addNode {g : MEG} (h : g.Inv) (v : Nat) (a : Attr) : (g.addNode v a).Inv := by
  rw [addNode_eq]
  apply h.remap
  · show (g.addNode v a).nodeIds.Nodup
    rw [nodeIds_addNode]; split
    · exact h.nodup
    · rename_i hh
      have : v ∉ g.nodeIds := fun hc => hh (hasNode_iff.2 hc)
      simp only [List.nodup_append, List.nodup_cons, List.not_mem_nil, not_false_eq_true, List.nodup_nil,
        and_self, List.mem_cons, or_false, true_and]
      exact ⟨h.nodup, by grind⟩
  · intro p hp
    refine ⟨(h.wf p hp).addNode v, fun x => ?_⟩
    show _ ↔ x ∈ (g.addNode v a).nodeIds
    rw [Layer.mem_addNode, mem_nodeIds_addNode, h.sync p hp]

theorem Inv.addNodes {g : MEG} (h : g.Inv) (vs : List Nat) (a : Attr) : (g.addNodes vs a).Inv := by
  unfold MEG.addNodes
  induction vs generalizing g with
  | nil => exact h
  | cons v vs ih => exact ih (h.addNode v a)
theorem mem_nodeIds_addNodes {g : MEG} {vs : List Nat} {x : Nat} {a : Attr} :
    x ∈ (g.addNodes vs a).nodeIds ↔ x ∈ g.nodeIds ∨ x ∈ vs := by
  unfold addNodes
  induction vs generalizing g with
  | nil => simp
  | cons v vs ih => simp only [List.foldl_cons, ih, mem_nodeIds_addNode, List.mem_cons]; grind

theorem Inv.ensureNode {g : MEG} (h : g.Inv) (v : Nat) (a : Attr) : (g.ensureNode v a).Inv := by
  unfold MEG.ensureNode; split
  · exact h
  · exact h.addNode v a
theorem mem_nodeIds_ensureNode {g : MEG} {v x : Nat} {a : Attr} :
    x ∈ (g.ensureNode v a).nodeIds ↔ x ∈ g.nodeIds ∨ x = v := by
  unfold ensureNode; split
  · rename_i h; have := hasNode_iff.1 h; grind
  · exact mem_nodeIds_addNode

theorem filter_ids {α} (l : List (Nat × α)) (p : Nat → Bool) :
    (l.filter fun q => p q.1).map (·.1) = (l.map (·.1)).filter p := by
  induction l with
  | nil => rfl
  | cons q l ih => simp only [List.filter_cons, List.map_cons]; split <;> simp [ih]

theorem Inv.removeNode {g : MEG} (h : g.Inv) (v : Nat) : (g.removeNode v).1.Inv := by
  unfold MEG.removeNode; split
  · simp only [applyAll_eq]
    apply inv_remap (g := { g with nodes := g.nodes.filter (·.1 != v) }) h.names
    · rw [filter_ids g.nodes (· != v)]; exact h.nodup.filter _
    · intro p hp
      rw [Layer.removeNode_eq _ _ (h.wf p hp)]
      refine ⟨(h.wf p hp).dropNode v, fun x => ?_⟩
      rw [Layer.mem_dropNode_nodes, h.sync p hp, filter_ids g.nodes (· != v)]
      simp [nodeIds, List.mem_filter]
  · exact h

theorem Inv.removeNodes {g : MEG} (h : g.Inv) (vs : List Nat) : (g.removeNodes vs).Inv := by
  unfold MEG.removeNodes
  simp only [applyAll_eq]
  apply inv_remap (g := { g with nodes := g.nodes.filter fun p => !vs.contains p.1 }) h.names
  · rw [filter_ids g.nodes (fun x => !vs.contains x)]; exact h.nodup.filter _
  · intro p hp
    refine ⟨(h.wf p hp).removeNodes vs, fun x => ?_⟩
    rw [Layer.mem_removeNodes_nodes, h.sync p hp, filter_ids g.nodes (fun x => !vs.contains x)]
    simp [nodeIds, List.mem_filter]

/-! ### edge operations -/
theorem Inv.mapLayers {g : MEG} (h : g.Inv) (f : Nat → Layer → Layer)
    (hf : ∀ p ∈ g.layers, (p.2.WF → (f p.1 p.2).WF) ∧ ∀ v, v ∈ (f p.1 p.2).nodes ↔ v ∈ p.2.nodes ∨
      (v ∈ g.nodeIds ∧ v ∈ (f p.1 p.2).nodes)) :
    (g.remap g.nodes f).Inv := by
  apply h.remap _ _ h.nodup
  intro p hp
  refine ⟨(hf p hp).1 (h.wf p hp), fun v => ?_⟩
  have := (hf p hp).2 v
  have hs := h.sync p hp v
  show _ ↔ v ∈ g.nodeIds
  grind

theorem layer_mem {g : MEG} {t : Nat} {L : Layer} (h : g.layer? t = some L) : (t, L) ∈ g.layers := mem_of_lookup h

theorem Inv.addEdge {g : MEG} (h : g.Inv) (u v : Nat) (t : EType) (a : Attr) : (g.addEdge u v t a).1.Inv := by
  unfold MEG.addEdge
  have h2 := (h.ensureNode u []).ensureNode v []
  have hu : u ∈ ((g.ensureNode u []).ensureNode v []).nodeIds := by simp [mem_nodeIds_ensureNode]
  have hv : v ∈ ((g.ensureNode u []).ensureNode v []).nodeIds := by simp [mem_nodeIds_ensureNode]
  generalize (g.ensureNode u []).ensureNode v [] = g2 at *
  cases t with
  | all =>
    simp only [applyAll_eq]
    apply h2.mapLayers
    intro p hp
    refine ⟨fun w => w.addEdge u v a, fun x => ?_⟩
    rw [Layer.mem_addEdge_nodes]; have := h2.sync p hp x; grind
  | one t =>
    simp only
    split
    · exact h2
    · rename_i L hL
      simp only [setLayer_eq]
      apply h2.mapLayers
      intro p hp
      have hsL := h2.sync _ (layer_mem hL)
      have hwL := h2.wf _ (layer_mem hL)
      split
      · refine ⟨fun _ => hwL.addEdge u v a, fun x => ?_⟩
        rw [Layer.mem_addEdge_nodes]; have := h2.sync p hp x; have := hsL x; grind
      · exact ⟨id, by grind⟩

theorem Inv.ensureNodes {g : MEG} (h : g.Inv) (es : List (Nat × Nat)) (a : Attr) :
    (es.foldl (fun g e => (g.ensureNode e.1 a).ensureNode e.2 a) g).Inv := by
  induction es generalizing g with
  | nil => exact h
  | cons e es ih => exact ih ((h.ensureNode e.1 a).ensureNode e.2 a)
theorem mem_nodeIds_ensureNodes {g : MEG} {es : List (Nat × Nat)} {a : Attr} {x : Nat} :
    x ∈ (es.foldl (fun g e => (g.ensureNode e.1 a).ensureNode e.2 a) g).nodeIds ↔
      x ∈ g.nodeIds ∨ ∃ e ∈ es, x = e.1 ∨ x = e.2 := by
  induction es generalizing g with
  | nil => simp
  | cons e es ih => simp only [List.foldl_cons, ih, mem_nodeIds_ensureNode, List.mem_cons]; grind

theorem Inv.addEdges {g : MEG} (h : g.Inv) (es : List (Nat × Nat)) (t : EType) (a : Attr) :
    (g.addEdges es t a).1.Inv := by
  unfold MEG.addEdges
  have h2 := h.ensureNodes es a
  have hes : ∀ e ∈ es, e.1 ∈ (es.foldl (fun g e => (g.ensureNode e.1 a).ensureNode e.2 a) g).nodeIds ∧
      e.2 ∈ (es.foldl (fun g e => (g.ensureNode e.1 a).ensureNode e.2 a) g).nodeIds := by
    intro e he; simp only [mem_nodeIds_ensureNodes]; grind
  generalize es.foldl (fun g e => (g.ensureNode e.1 a).ensureNode e.2 a) g = g2 at *
  cases t with
  | all =>
    simp only [applyAll_eq]
    apply h2.mapLayers
    intro p hp
    refine ⟨fun w => w.addEdges es a, fun x => ?_⟩
    rw [Layer.mem_addEdges_nodes]; have := h2.sync p hp x; grind
  | one t =>
    simp only
    split
    · exact h2
    · rename_i L hL
      simp only [setLayer_eq]
      apply h2.mapLayers
      intro p hp
      have hsL := h2.sync _ (layer_mem hL)
      have hwL := h2.wf _ (layer_mem hL)
      split
      · refine ⟨fun _ => hwL.addEdges es a, fun x => ?_⟩
        rw [Layer.mem_addEdges_nodes]; have := h2.sync p hp x; have := hsL x; grind
      · exact ⟨id, by grind⟩

theorem Inv.removeEdge {g : MEG} (h : g.Inv) (u v : Nat) (t : EType) : (g.removeEdge u v t).1.Inv := by
  unfold MEG.removeEdge
  cases t with
  | all =>
    simp only [applyAll_eq]
    apply h.mapLayers
    intro p hp
    rw [Layer.removeEdge_eq]
    exact ⟨fun w => w.dropEdge u v, by simp⟩
  | one t =>
    simp only
    split
    · exact h
    · rename_i L hL
      split
      · exact h
      · rename_i L' hL'
        have : L' = L.dropEdge u v := by
          unfold Layer.removeEdge at hL'; split at hL' <;> simp_all
        subst this
        simp only [setLayer_eq]
        apply h.mapLayers
        intro p hp
        have hsL := h.sync _ (layer_mem hL)
        split
        · refine ⟨fun _ => (h.wf _ (layer_mem hL)).dropEdge u v, fun x => ?_⟩
          have := h.sync p hp x; have := hsL x; simp; grind
        · exact ⟨id, by grind⟩

theorem Inv.removeEdges {g : MEG} (h : g.Inv) (es : List (Nat × Nat)) (t : EType) : (g.removeEdges es t).1.Inv := by
  unfold MEG.removeEdges
  cases t with
  | all =>
    simp only [applyAll_eq]
    apply h.mapLayers
    intro p hp
    exact ⟨fun w => w.removeEdges es, by simp⟩
  | one t =>
    simp only
    split
    · exact h
    · rename_i L hL
      simp only [setLayer_eq]
      apply h.mapLayers
      intro p hp
      have hsL := h.sync _ (layer_mem hL)
      split
      · refine ⟨fun _ => (h.wf _ (layer_mem hL)).removeEdges es, fun x => ?_⟩
        have := h.sync p hp x; have := hsL x; simp; grind
      · exact ⟨id, by grind⟩

theorem Inv.clearEdges {g : MEG} (h : g.Inv) (t : EType) : (g.clearEdges t).1.Inv := by
  unfold MEG.clearEdges
  cases t with
  | all =>
    simp only [applyAll_eq]
    apply h.mapLayers
    intro p hp
    exact ⟨fun w => w.clearEdges, by simp⟩
  | one t =>
    simp only
    split
    · exact h
    · rename_i L hL
      simp only [setLayer_eq]
      apply h.mapLayers
      intro p hp
      have hsL := h.sync _ (layer_mem hL)
      split
      · refine ⟨fun _ => (h.wf _ (layer_mem hL)).clearEdges, fun x => ?_⟩
        have := h.sync p hp x; have := hsL x; simp; grind
      · exact ⟨id, by grind⟩

/-! ### edge types -/
/-- intermediate state inside `add_edge_type`: layers contain the master nodes, and at most nodes of `S` more -/
structure Pre (g : MEG) (S : List Nat) : Prop where
  nodup : g.nodeIds.Nodup
  names : g.names.Nodup
  wf : ∀ p ∈ g.layers, p.2.WF
  sup : ∀ p ∈ g.layers, ∀ x ∈ g.nodeIds, x ∈ p.2.nodes
  sub : ∀ p ∈ g.layers, ∀ x ∈ p.2.nodes, x ∈ g.nodeIds ∨ x ∈ S

theorem nodup_addNode {g : MEG} (h : g.nodeIds.Nodup) (v : Nat) (a : Attr) : (g.addNode v a).nodeIds.Nodup := by
  rw [nodeIds_addNode]; split
  · exact h
  · rename_i hh
    have : v ∉ g.nodeIds := fun hc => hh (hasNode_iff.2 hc)
    simp only [List.nodup_append, List.nodup_cons, List.not_mem_nil, not_false_eq_true, List.nodup_nil,
      and_self, List.mem_cons, or_false, true_and]
    exact ⟨h, by grind⟩

theorem Pre.addNode {g : MEG} {S : List Nat} (h : g.Pre S) (v : Nat) (a : Attr) : (g.addNode v a).Pre S := by
  have hl : (g.addNode v a).layers = g.layers.map fun p => (p.1, p.2.addNode v) := by
    rw [addNode_eq]; rfl
  refine ⟨nodup_addNode h.nodup v a, ?_, ?_, ?_, ?_⟩
  · have : (g.addNode v a).names = g.names := by simp [MEG.names, hl, List.map_map, Function.comp_def]
    rw [this]; exact h.names
  · intro p hp; rw [hl] at hp; simp only [List.mem_map] at hp
    obtain ⟨q, hq, rfl⟩ := hp; exact (h.wf q hq).addNode v
  · intro p hp x hx; rw [hl] at hp; simp only [List.mem_map] at hp
    obtain ⟨q, hq, rfl⟩ := hp
    rw [mem_nodeIds_addNode] at hx; rw [Layer.mem_addNode]
    rcases hx with hx | hx
    · exact Or.inl (h.sup q hq x hx)
    · exact Or.inr hx
  · intro p hp x hx; rw [hl] at hp; simp only [List.mem_map] at hp
    obtain ⟨q, hq, rfl⟩ := hp
    rw [Layer.mem_addNode] at hx; rw [mem_nodeIds_addNode]
    rcases hx with hx | hx
    · rcases h.sub q hq x hx with h1 | h1
      · exact Or.inl (Or.inl h1)
      · exact Or.inr h1
    · exact Or.inl (Or.inr hx)

theorem Pre.addNodes {g : MEG} {S : List Nat} (h : g.Pre S) (vs : List Nat) (a : Attr) : (g.addNodes vs a).Pre S := by
  unfold MEG.addNodes
  induction vs generalizing g with
  | nil => exact h
  | cons v vs ih => exact ih (h.addNode v a)

theorem Pre.inv {g : MEG} {S : List Nat} (h : g.Pre S) (hS : ∀ x ∈ S, x ∈ g.nodeIds) : g.Inv :=
  ⟨h.nodup, h.names, fun p hp v => ⟨fun hv => (h.sub p hp v hv).elim id (hS v), h.sup p hp v⟩, h.wf⟩

theorem Inv.addEdgeType {g : MEG} (h : g.Inv) (t : Nat) (L : Layer) (hL : L.WF) : (g.addEdgeType t L).1.Inv := by
  unfold MEG.addEdgeType
  split
  · exact h
  · rename_i hc
    simp only
    have hpre : ({ g with layers := g.layers ++ [(t, L.addNodes g.nodeIds)] } : MEG).Pre (L.addNodes g.nodeIds).nodes := by
      refine ⟨h.nodup, ?_, ?_, ?_, ?_⟩
      · simp only [MEG.names, List.map_append, List.map_cons, List.map_nil]
        simp only [MEG.names] at hc
        have hn := h.names; simp only [MEG.names] at hn
        simp only [List.nodup_append, hn, List.nodup_cons, List.not_mem_nil, not_false_eq_true, List.nodup_nil,
          and_self, List.mem_cons, or_false, true_and]
        intro a ha b hb; subst hb; intro hab; subst hab
        simp at hc; grind
      · intro p hp
        simp only [List.mem_append, List.mem_singleton] at hp
        rcases hp with hp | rfl
        · exact h.wf p hp
        · exact hL.addNodes _
      · intro p hp x hx
        simp only [List.mem_append, List.mem_singleton] at hp
        rcases hp with hp | rfl
        · exact (h.sync p hp x).2 hx
        · exact Layer.mem_addNodes.2 (Or.inr hx)
      · intro p hp x hx
        simp only [List.mem_append, List.mem_singleton] at hp
        rcases hp with hp | rfl
        · exact Or.inl ((h.sync p hp x).1 hx)
        · exact Or.inr hx
    exact (hpre.addNodes _ []).inv fun x hx => mem_nodeIds_addNodes.2 (Or.inr hx)

theorem Inv.removeEdgeType {g : MEG} (h : g.Inv) (t : Nat) : (g.removeEdgeType t).1.Inv := by
  unfold MEG.removeEdgeType
  split
  · refine ⟨h.nodup, ?_, fun p hp => h.sync p (List.mem_filter.1 hp).1, fun p hp => h.wf p (List.mem_filter.1 hp).1⟩
    show (List.map (·.1) (List.filter (fun x => x.1 != t) g.layers)).Nodup
    rw [filter_ids _ (· != t)]
    exact h.names.filter _
  · exact h

theorem Inv.setGAttr {g : MEG} (h : g.Inv) (a : Attr) : (g.setGAttr a).Inv := ⟨h.nodup, h.names, h.sync, h.wf⟩

theorem Inv.fresh (admg : Bool) : (MEG.fresh admg).Inv := by
  unfold MEG.fresh; split
  · refine ⟨by simp [nodeIds], by simp [MEG.names], ?_, ?_⟩
    · intro p hp v; simp at hp; rcases hp with rfl | rfl | rfl <;> simp [nodeIds]
    · intro p hp; simp at hp; rcases hp with rfl | rfl | rfl <;> exact Layer.WF.empty _
  · exact ⟨by simp [nodeIds], by simp [MEG.names], by simp, by simp⟩

/-- one public mutation preserves the invariant -/
theorem Inv.step {g : MEG} (h : g.Inv) (op : GOp) : (g.step op).1.Inv := by
  cases op with
  | addNode v a => exact h.addNode v a
  | addNodes vs a => exact h.addNodes vs a
  | removeNode v => exact h.removeNode v
  | removeNodes vs => exact h.removeNodes vs
  | addEdge u v t a => exact h.addEdge u v t a
  | addEdges es t a => exact h.addEdges es t a
  | removeEdge u v t => exact h.removeEdge u v t
  | removeEdges es t => exact h.removeEdges es t
  | clearEdges t => exact h.clearEdges t
  | addEdgeType t k ns es => exact h.addEdgeType t _ (Layer.WF.build k ns es)
  | removeEdgeType t => exact h.removeEdgeType t
  | setGAttr a => exact h.setGAttr a

/-! ### copy / subgraph -/
theorem Inv.skeleton (g : MEG) : g.skeleton.Inv := by
  unfold MEG.skeleton
  simp only
  have h0 : ({ MEG.fresh g.admg with layers := (MEG.fresh g.admg).layers.filter fun p => g.names.contains p.1 } : MEG).Inv := by
    have hf := Inv.fresh g.admg
    refine ⟨hf.nodup, ?_, fun p hp => hf.sync p (List.mem_filter.1 hp).1, fun p hp => hf.wf p (List.mem_filter.1 hp).1⟩
    show (List.map (·.1) (List.filter (fun p => g.names.contains p.1) (MEG.fresh g.admg).layers)).Nodup
    rw [filter_ids _ (fun t => g.names.contains t)]
    exact hf.names.filter _
  generalize ({ MEG.fresh g.admg with layers := (MEG.fresh g.admg).layers.filter fun p => g.names.contains p.1 } : MEG) = G at h0
  induction g.layers generalizing G with
  | nil => exact h0
  | cons p ps ih =>
    simp only [List.foldl_cons]
    apply ih
    split
    · exact h0
    · exact h0.addEdgeType _ _ (Layer.WF.empty _)

theorem Inv.copy (g : MEG) : g.copy.Inv := by
  unfold MEG.copy
  simp only
  have h0 : ({ g.skeleton with gattr := Attr.upd [] g.gattr } : MEG).Inv :=
    let h := Inv.skeleton g; ⟨h.nodup, h.names, h.sync, h.wf⟩
  generalize ({ g.skeleton with gattr := Attr.upd [] g.gattr } : MEG) = G at h0
  have h1 : (g.nodes.foldl (fun G p => G.addNode p.1 p.2) G).Inv := by
    induction g.nodes generalizing G with
    | nil => exact h0
    | cons p ps ih => exact ih _ (h0.addNode p.1 p.2)
  generalize g.nodes.foldl (fun G p => G.addNode p.1 p.2) G = G1 at h1
  induction g.layers generalizing G1 with
  | nil => exact h1
  | cons p ps ih =>
    simp only [List.foldl_cons]
    apply ih
    generalize p.2.nodes = us
    induction us generalizing G1 with
    | nil => exact h1
    | cons u us ihu =>
      simp only [List.foldl_cons]
      apply ihu
      generalize p.2.adj u = vas
      induction vas generalizing G1 with
      | nil => exact h1
      | cons va vas ihv => exact ihv _ (h1.addEdge _ _ _ _)

theorem Inv.subgraph (g : MEG) (ns : List Nat) : (g.subgraph ns).Inv := by
  unfold MEG.subgraph
  simp only
  have h0 : ({ g.skeleton with gattr := Attr.upd [] g.gattr } : MEG).Inv :=
    let h := Inv.skeleton g; ⟨h.nodup, h.names, h.sync, h.wf⟩
  generalize ({ g.skeleton with gattr := Attr.upd [] g.gattr } : MEG) = G at h0
  have h1 := h0.addNodes ns []
  have hns : ∀ x, ns.contains x = true → x ∈ (G.addNodes ns []).nodeIds := by
    intro x hx; exact mem_nodeIds_addNodes.2 (Or.inr (by simpa using hx))
  generalize G.addNodes ns [] = G1 at h1 hns
  -- the fold runs over the layer list of the *initial* `G1`; the state only changes by `setLayer`
  have key : ∀ (ls : List (Nat × Layer)) (G2 : MEG), G2.Inv → (∀ x, ns.contains x = true → x ∈ G2.nodeIds) →
      (ls.foldl (fun (G : MEG) (p : Nat × Layer) =>
        match g.layer? p.1 with
        | none => G
        | some L =>
          ns.foldl (fun G u =>
            (L.adj u).foldl (fun G va =>
              if ns.contains u && ns.contains va.1 then
                match G.layer? p.1 with
                | some LG => G.setLayer p.1 (LG.addEdge u va.1 [])
                | none => G
              else G) G) G) G2).Inv := by
    intro ls
    induction ls with
    | nil => intro G2 h _; exact h
    | cons p ps ih =>
      intro G2 h2 hn2
      simp only [List.foldl_cons]
      have step : ∀ (L : Layer) (us : List Nat) (G3 : MEG), G3.Inv → (∀ x, ns.contains x = true → x ∈ G3.nodeIds) →
          let R := us.foldl (fun G u =>
            (L.adj u).foldl (fun G va =>
              if ns.contains u && ns.contains va.1 then
                match G.layer? p.1 with
                | some LG => G.setLayer p.1 (LG.addEdge u va.1 [])
                | none => G
              else G) G) G3
          R.Inv ∧ (∀ x, ns.contains x = true → x ∈ R.nodeIds) := by
        intro L us
        induction us with
        | nil => intro G3 h3 hn3; exact ⟨h3, hn3⟩
        | cons u us ihu =>
          intro G3 h3 hn3
          simp only [List.foldl_cons]
          apply ihu
          all_goals
            generalize L.adj u = vas
            induction vas generalizing G3 with
            | nil => first | exact h3 | exact hn3
            | cons va vas ihv =>
              simp only [List.foldl_cons]
              have hstep : (if ns.contains u && ns.contains va.1 then
                  match G3.layer? p.1 with
                  | some LG => G3.setLayer p.1 (LG.addEdge u va.1 [])
                  | none => G3
                else G3).Inv ∧ (∀ x, ns.contains x = true → x ∈ (if ns.contains u && ns.contains va.1 then
                  match G3.layer? p.1 with
                  | some LG => G3.setLayer p.1 (LG.addEdge u va.1 [])
                  | none => G3
                else G3).nodeIds) := by
                split
                · rename_i hc
                  simp only [Bool.and_eq_true] at hc
                  split
                  · rename_i LG hLG
                    refine ⟨?_, fun x hx => by simpa [setLayer_eq, MEG.remap, nodeIds] using hn3 x hx⟩
                    simp only [setLayer_eq]
                    apply h3.mapLayers
                    intro q hq
                    have hsL := h3.sync _ (layer_mem hLG)
                    split
                    · refine ⟨fun _ => (h3.wf _ (layer_mem hLG)).addEdge _ _ _, fun x => ?_⟩
                      rw [Layer.mem_addEdge_nodes]
                      have := h3.sync q hq x; have := hsL x
                      have := hn3 u hc.1; have := hn3 va.1 hc.2
                      grind
                    · exact ⟨id, by grind⟩
                  · exact ⟨h3, hn3⟩
                · exact ⟨h3, hn3⟩
              exact ihv _ hstep.1 hstep.2
      split
      · exact ih G2 h2 hn2
      · rename_i L _
        have := step L ns G2 h2 hn2
        exact ih _ this.1 this.2
  exact key _ _ h1 hns

end MEG

/-! ### the store: every live object satisfies the invariant after every history -/
def Store.Inv (s : Store) : Prop := ∀ g ∈ s, g.Inv

theorem Store.Inv.step {s : Store} (h : s.Inv) (op : Op) : (s.step op).1.Inv := by
  cases op with
  | new a =>
    intro g hg; simp only [Store.step, List.mem_append, List.mem_singleton] at hg
    rcases hg with hg | rfl
    · exact h g hg
    · exact MEG.Inv.fresh a
  | on i op =>
    simp only [Store.step]
    split
    · exact h
    · rename_i g hg
      intro g' hg'
      rcases List.mem_or_eq_of_mem_set hg' with h1 | rfl
      · exact h g' h1
      · exact (h g (List.mem_of_getElem? hg)).step op
  | copy i =>
    simp only [Store.step]
    split
    · exact h
    · intro g' hg'
      simp only [List.mem_append, List.mem_singleton] at hg'
      rcases hg' with h1 | rfl
      · exact h g' h1
      · exact MEG.Inv.copy _
  | subgraph i ns =>
    simp only [Store.step]
    split
    · exact h
    · intro g' hg'
      simp only [List.mem_append, List.mem_singleton] at hg'
      rcases hg' with h1 | rfl
      · exact h g' h1
      · exact MEG.Inv.subgraph _ ns

/-- **C02 invariant**: after *any* history, every live object has duplicate-free node and edge-type
    lists, every layer has exactly the master node set, and every stored edge has its endpoints among
    the nodes and is stored once. -/
theorem Store.inv_exec (ops : List Op) : (Store.exec [] ops).Inv := by
  have : ∀ (s : Store), s.Inv → (Store.exec s ops).Inv := by
    induction ops with
    | nil => intro s h; exact h
    | cons op ops ih => intro s h; exact ih _ (h.step op)
  exact this [] (by intro g hg; simp at hg)

/-- the same for every intermediate store of `Store.run` -/
theorem Store.inv_run (ops : List Op) : ∀ r ∈ Store.run [] ops, r.1.Inv := by
  have : ∀ (s : Store), s.Inv → ∀ r ∈ Store.run s ops, r.1.Inv := by
    induction ops with
    | nil => intro s _ r hr; simp [Store.run] at hr
    | cons op ops ih =>
      intro s h r hr
      simp only [Store.run, List.mem_cons] at hr
      rcases hr with rfl | hr
      · exact h.step op
      · exact ih _ (h.step op) r hr
  exact this [] (by intro g hg; simp at hg)

end C02
