import Pw.C17.Corollaries
open Closure C16

/-! # C17: the deque / `seen_edges` loop of `pds`, literally, and its refinement to the worklist closure

`bfsRun` is the `while len(q) != 0` loop with marking **on push** (`if next_edge in seen_edges: continue;
seen_edges.add(next_edge); q.append(next_edge)`), one iteration per unit of fuel.  Every queued edge is
popped before the loop ends, so the set of popped edges is the final `seen_edges`.
`mem_bfsRun`: with enough fuel the final `seen_edges` is exactly the set reachable from the initial
edges – the same set as `Closure.closure` (`bfsRun_eq_closure`), which the model `pdsGen` uses. -/
namespace C17
variable {α : Type} [DecidableEq α]

/-- the `for next_node …` loop: append the unseen successors to the queue, marking them -/
def pushNew : List α → List α → List α → List α × List α
  | [], q, seen => (q, seen)
  | n :: ns, q, seen => if n ∈ seen then pushNew ns q seen else pushNew ns (q ++ [n]) (n :: seen)

/-- the `while` loop; returns the final `seen` -/
def bfsRun (step : α → List α) : Nat → List α → List α → List α
  | 0, _, seen => seen
  | _ + 1, [], seen => seen
  | fuel + 1, x :: q, seen => bfsRun step fuel (pushNew (step x) q seen).1 (pushNew (step x) q seen).2

theorem mem_pushNew_seen (ns q seen : List α) (a : α) :
    a ∈ (pushNew ns q seen).2 ↔ a ∈ seen ∨ a ∈ ns := by
  induction ns generalizing q seen with
  | nil => simp [pushNew]
  | cons n ns ih =>
    rw [pushNew]
    by_cases h : n ∈ seen
    · simp only [h, if_true, ih, List.mem_cons]
      constructor
      · rintro (h' | h')
        · exact Or.inl h'
        · exact Or.inr (Or.inr h')
      · rintro (h' | rfl | h')
        · exact Or.inl h'
        · exact Or.inl h
        · exact Or.inr h'
    · simp only [h, if_false, ih, List.mem_cons]
      constructor
      · rintro ((rfl | h') | h')
        · exact Or.inr (Or.inl rfl)
        · exact Or.inl h'
        · exact Or.inr (Or.inr h')
      · rintro (h' | rfl | h')
        · exact Or.inl (Or.inr h')
        · exact Or.inl (Or.inl rfl)
        · exact Or.inr h'

theorem mem_pushNew_queue (ns q seen : List α) (a : α) :
    a ∈ (pushNew ns q seen).1 ↔ a ∈ q ∨ (a ∈ ns ∧ a ∉ seen) := by
  induction ns generalizing q seen with
  | nil => simp [pushNew]
  | cons n ns ih =>
    rw [pushNew]
    by_cases h : n ∈ seen
    · simp only [h, if_true, ih, List.mem_cons]
      constructor
      · rintro (h' | ⟨h1, h2⟩)
        · exact Or.inl h'
        · exact Or.inr ⟨Or.inr h1, h2⟩
      · rintro (h' | ⟨rfl | h1, h2⟩)
        · exact Or.inl h'
        · exact absurd h h2
        · exact Or.inr ⟨h1, h2⟩
    · simp only [h, if_false, ih, List.mem_append, List.mem_cons, List.not_mem_nil, or_false, not_or]
      constructor
      · rintro ((h' | rfl) | ⟨h1, h2, h3⟩)
        · exact Or.inl h'
        · exact Or.inr ⟨Or.inl rfl, h⟩
        · exact Or.inr ⟨Or.inr h1, h3⟩
      · rintro (h' | ⟨rfl | h1, h2⟩)
        · exact Or.inl (Or.inl h')
        · exact Or.inl (Or.inr rfl)
        · by_cases e : a = n
          · exact Or.inl (Or.inr e)
          · exact Or.inr ⟨h1, e, h2⟩

/-- iterations still needed: queue length + number of unseen members of the universe -/
def work (U q seen : List α) : Nat := q.length + U.countP fun u => decide (u ∉ seen)

theorem work_pushNew (U ns q seen : List α) (hns : ∀ n ∈ ns, n ∈ U) :
    work U (pushNew ns q seen).1 (pushNew ns q seen).2 ≤ work U q seen := by
  induction ns generalizing q seen with
  | nil => simp [pushNew]
  | cons n ns ih =>
    rw [pushNew]
    by_cases h : n ∈ seen
    · simp only [h, if_true]
      exact ih q seen (fun m hm => hns m (List.mem_cons_of_mem _ hm))
    · simp only [h, if_false]
      refine Nat.le_trans (ih (q ++ [n]) (n :: seen) (fun m hm => hns m (List.mem_cons_of_mem _ hm))) ?_
      have hlt := countP_lt' (fun u => decide (u ∉ n :: seen)) (fun u => decide (u ∉ seen))
        (by intro a; simp only [decide_eq_true_eq, List.mem_cons, not_or]; exact fun h => h.2) U n
        (hns n List.mem_cons_self) (by simpa using h) (by simp)
      unfold work
      simp only [List.length_append, List.length_singleton]
      omega

/-- **the loop computes the reachable set** -/
theorem bfsRun_spec (U : List α) (step : α → List α) (init : List α)
    (hstep : ∀ a ∈ U, ∀ b ∈ step a, b ∈ U) :
    ∀ (fuel : Nat) (q seen : List α), work U q seen ≤ fuel →
      (∀ a ∈ q, a ∈ seen) → (∀ a ∈ seen, a ∈ U) →
      (∀ a ∈ seen, ∃ w ∈ init, Reach U step w a) →
      (∀ a ∈ seen, a ∉ q → ∀ b ∈ step a, b ∈ seen) →
      (∀ a ∈ seen, a ∈ bfsRun step fuel q seen) ∧
      (∀ a ∈ bfsRun step fuel q seen, ∃ w ∈ init, Reach U step w a) ∧
      (∀ a ∈ bfsRun step fuel q seen, ∀ b ∈ step a, b ∈ bfsRun step fuel q seen) := by
  intro fuel
  induction fuel with
  | zero =>
    intro q seen hw _ _ hsound hclosed
    have hq : q = [] := List.eq_nil_of_length_eq_zero (by unfold work at hw; omega)
    subst hq
    exact ⟨fun a h => h, hsound, fun a ha => hclosed a ha (by simp)⟩
  | succ fuel ih =>
    intro q seen hw hqs hU hsound hclosed
    cases q with
    | nil => exact ⟨fun a h => h, hsound, fun a ha => hclosed a ha (by simp)⟩
    | cons x q =>
      rw [bfsRun]
      have hxU : x ∈ U := hU x (hqs x List.mem_cons_self)
      have hsx : ∀ n ∈ step x, n ∈ U := hstep x hxU
      have hwork := work_pushNew U (step x) q seen hsx
      obtain ⟨h1, h2, h3⟩ := ih (pushNew (step x) q seen).1 (pushNew (step x) q seen).2
        (by unfold work at hw hwork ⊢; simp only [List.length_cons] at hw; omega)
        (by
          intro a ha
          rw [mem_pushNew_seen]
          rcases (mem_pushNew_queue _ _ _ _).mp ha with h | h
          · exact Or.inl (hqs a (List.mem_cons_of_mem _ h))
          · exact Or.inr h.1)
        (by
          intro a ha
          rcases (mem_pushNew_seen _ _ _ _).mp ha with h | h
          · exact hU a h
          · exact hsx a h)
        (by
          intro a ha
          rcases (mem_pushNew_seen _ _ _ _).mp ha with h | h
          · exact hsound a h
          · obtain ⟨w, hw', hr⟩ := hsound x (hqs x List.mem_cons_self)
            exact ⟨w, hw', Reach.tail hr ⟨h, hsx a h⟩⟩)
        (by
          intro a ha hnq b hb
          rw [mem_pushNew_seen]
          by_cases hax : a = x
          · subst hax; exact Or.inr hb
          · rcases (mem_pushNew_seen _ _ _ _).mp ha with h | h
            · have : a ∉ x :: q := by
                intro hm
                rcases List.mem_cons.mp hm with e | hm
                · exact hax e
                · exact hnq ((mem_pushNew_queue _ _ _ _).mpr (Or.inl hm))
              exact Or.inl (hclosed a h this b hb)
            · by_cases hs : a ∈ seen
              · have : a ∉ x :: q := by
                  intro hm
                  rcases List.mem_cons.mp hm with e | hm
                  · exact hax e
                  · exact hnq ((mem_pushNew_queue _ _ _ _).mpr (Or.inl hm))
                exact Or.inl (hclosed a hs this b hb)
              · exact absurd ((mem_pushNew_queue _ _ _ _).mpr (Or.inr ⟨h, hs⟩)) hnq)
      exact ⟨fun a ha => h1 a ((mem_pushNew_seen _ _ _ _).mpr (Or.inl ha)), h2, h3⟩

/-- ★ with `|init| + |U|` iterations the loop has emptied the queue and its `seen` set is the set of
    states reachable from the initial ones -/
theorem mem_bfsRun (U : List α) (step : α → List α) (init : List α) (hinit : ∀ a ∈ init, a ∈ U)
    (hstep : ∀ a ∈ U, ∀ b ∈ step a, b ∈ U) (fuel : Nat) (hfuel : init.length + U.length ≤ fuel) (r : α) :
    r ∈ bfsRun step fuel init init ↔ ∃ w ∈ init, w ∈ U ∧ Reach U step w r := by
  have hw : work U init init ≤ fuel := by
    unfold work
    have := List.countP_le_length (p := fun u => decide (u ∉ init)) (l := U)
    omega
  obtain ⟨h1, h2, h3⟩ := bfsRun_spec U step init hstep fuel init init hw (fun a h => h) hinit
    (fun a ha => ⟨a, ha, Reach.refl a⟩) (fun a ha hn => absurd ha hn)
  constructor
  · intro hr
    obtain ⟨w, hw', hreach⟩ := h2 r hr
    exact ⟨w, hw', hinit w hw', hreach⟩
  · rintro ⟨w, hw', -, hreach⟩
    induction hreach with
    | refl => exact h1 w hw'
    | tail _ hs ih => exact h3 _ ih _ hs.1

/-- ★ the mark-on-push loop and the worklist closure compute the same set -/
theorem bfsRun_eq_closure (U : List α) (step : α → List α) (init : List α) (hinit : ∀ a ∈ init, a ∈ U)
    (hstep : ∀ a ∈ U, ∀ b ∈ step a, b ∈ U) (r : α) :
    r ∈ bfsRun step (init.length + U.length) init init ↔ r ∈ closure U step init := by
  rw [mem_bfsRun U step init hinit hstep _ (Nat.le_refl _), mem_closure]

/-! ## instantiation: `pds` with its literal loop -/

/-- `pds(graph, node_x, node_y)` with the deque / `seen_edges` loop written out (fuel = number of initial
    edges + number of ordered node pairs, which `mem_bfsRun` shows is enough) -/
def pdsLoop (carry : Bool) (G : MG) (x : Nat) (y : Option Nat) : List Nat :=
  if !reachesY G y x then []
  else
    let seen := bfsRun (expand carry G x y) ((initEdges G x y).length + (states G).length)
      (initEdges G x y) (initEdges G x y)
    (initEdges G x y).map (·.2) ++ (seen.filter fun st => reachesY G y st.2).map (·.2)

theorem initEdges_states {G : MG} {x : Nat} (hx : x ∈ G.nodes) (y : Option Nat) :
    ∀ st ∈ initEdges G x y, st ∈ states G := by
  intro st hst
  unfold initEdges at hst
  simp only [List.mem_map, List.mem_filter, mem_nbrs] at hst
  obtain ⟨v, ⟨⟨hv, -⟩, -⟩, rfl⟩ := hst
  exact mem_states.mpr ⟨hx, hv⟩

theorem expand_states (carry : Bool) (G : MG) (x : Nat) (y : Option Nat) :
    ∀ a ∈ states G, ∀ b ∈ expand carry G x y a, b ∈ states G := by
  intro a ha b hb
  obtain ⟨p, t⟩ := a
  obtain ⟨hp, ht⟩ := mem_states.mp ha
  unfold expand at hb
  dsimp only at hb
  by_cases hr : (!reachesY G y t) = true
  · rw [if_pos hr] at hb; cases hb
  · rw [if_neg hr] at hb
    simp only [List.mem_map, List.mem_filter, mem_nbrs] at hb
    obtain ⟨n, ⟨⟨hn, -⟩, -⟩, rfl⟩ := hb
    cases carry
    · exact mem_states.mpr ⟨hp, hn⟩
    · exact mem_states.mpr ⟨ht, hn⟩

/-- ★ the model used everywhere (`pdsGen`, a worklist closure) returns the same set as the literal
    deque / `seen_edges` loop – for the code as it is (`carry = false`) and for the intended search -/
theorem mem_pdsLoop (carry : Bool) {G : MG} {x : Nat} (hx : x ∈ G.nodes) (y : Option Nat) (v : Nat) :
    v ∈ pdsLoop carry G x y ↔ v ∈ pdsGen carry G x y := by
  unfold pdsLoop pdsGen
  by_cases hr : (!reachesY G y x) = true
  · rw [if_pos hr, if_pos hr]
  · rw [if_neg hr, if_neg hr]
    simp only [List.mem_append, List.mem_map, List.mem_filter]
    have key := bfsRun_eq_closure (states G) (expand carry G x y) (initEdges G x y) (initEdges_states hx y)
      (expand_states carry G x y)
    constructor
    · rintro (h | ⟨st, ⟨hst, hry⟩, rfl⟩)
      · exact Or.inl h
      · exact Or.inr ⟨st, ⟨(key st).mp hst, hry⟩, rfl⟩
    · rintro (h | ⟨st, ⟨hst, hry⟩, rfl⟩)
      · exact Or.inl h
      · exact Or.inr ⟨st, ⟨(key st).mpr hst, hry⟩, rfl⟩

end C17
