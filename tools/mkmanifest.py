#!/venv/bin/python
"""Regenerates MANIFEST.json from tools/claims.json (one entry per claimed property)."""
import json, os
V = os.path.dirname(os.path.dirname(os.path.abspath(__file__)))
claims = {}
for f in sorted(os.listdir(os.path.join(V, "tools", "claims"))):
    if f.endswith(".json"):
        claims[f[:-5]] = json.load(open(os.path.join(V, "tools", "claims", f)))
props = [json.loads(l)["id"] for l in open(os.path.join(V, "properties.jsonl"))]
checks, na = [], []
for pid in props:
    c = claims.get(pid)
    if not c or c.get("not_applicable"):
        na.append({"property_id": pid, "reason": (c or {}).get("not_applicable", "no check built yet for this property; nothing is claimed")})
        continue
    checks.append({
        "property_id": pid,
        "quick_cmd": "./check %s --tier quick" % pid,
        "thorough_cmd": "./check %s --tier thorough" % pid,
        "evidence_file": "evidence/%s.json" % pid,
        "replay_cmd_template": "./check %s --replay {path}" % pid,
        "engine": "lean4-proof+correspondence",
        "level_claimed": {"category": "proof", "text": c["text"], "design_ref": c.get("design_ref", "DESIGN.md section 6, " + pid)},
        "level_note": c["note"],
        "technique": c["technique"],
    })
m = {
    "version": 1,
    "setup_cmd": "cd lean && lake build",
    "hooks": {"guard": "PYWHY_GRAPHS_VERIF", "enable": "no source hooks are needed: every observation uses the public API; checks set PYWHY_GRAPHS_VERIF=1 and put /repo first on PYTHONPATH",
              "baseline_off_cmd": "cd /repo && /venv/bin/python -m pytest -ra -q -p no:cacheprovider --timeout=900 --continue-on-collection-errors",
              "source_commits": [], "add_only": True},
    "engines": [{"name": "lean4-proof+correspondence", "path": "lean/ (model, specs, theorems, native driver) + harness/ (differential correspondence, failing-input search) + check",
                 "serves_properties": [c["property_id"] for c in checks],
                 "kind_free_text": "Lean 4 theorems about hand-written executable models; correspondence check runs the compiled model and the real Python code on the same inputs/histories; translator regenerates the propositional guard/codec tables from the source"}],
    "checks": checks,
    "notes": "See DESIGN.md. Exit codes: 0 held, 1 VIOLATION line, 2 infrastructure error. known_findings.json lists recorded genuine defects and fixed ones.",
    "not_applicable": na,
}
json.dump(m, open(os.path.join(V, "MANIFEST.json"), "w"), indent=1)
print("claimed:", [c["property_id"] for c in checks])
