import Pw.C02.Step

/-! # C02: every set-valued or boolean read query of the model equals the specification query

For a model state satisfying the invariant, whose edge-type names are `< m`, the observation record of
the model coincides with the observation record computed from the abstract edge sets in all fields
that are sets, relations or attribute maps.  (The counting fields `number_of_edges`, `size`, `degree`
are compared by the driver on every run; their proof needs a counting argument over duplicate-free key
lists and is not done here – see `obs_eq_partial`.) -/
namespace C02

theorem filterMap_congr' {α β} {l : List α} {f g : α → Option β} (h : ∀ x ∈ l, f x = g x) :
    l.filterMap f = l.filterMap g := by
  induction l with
  | nil => rfl
  | cons a l ih =>
    simp only [List.filterMap_cons, h a (by simp)]
    rw [ih fun x hx => h x (List.mem_cons_of_mem _ hx)]

theorem Layer.adj_any (L : Layer) (v w : Nat) : (L.adj v).any (·.1 == w) = L.has v w := by
  rw [Bool.eq_iff_iff]
  simp only [Layer.adj, List.any_filterMap, List.any_eq_true, Layer.has]
  constructor
  · rintro ⟨e, he, h⟩
    refine ⟨e, he, ?_⟩
    obtain ⟨⟨a, b⟩, at'⟩ := e
    cases hk : L.kind <;> simp [same, hk] at h ⊢ <;> grind
  · rintro ⟨e, he, h⟩
    refine ⟨e, he, ?_⟩
    obtain ⟨⟨a, b⟩, at'⟩ := e
    cases hk : L.kind <;> simp [same, hk] at h ⊢ <;> grind

theorem Layer.mem_allNeighbors (L : Layer) (v w : Nat) :
    (L.allNeighbors v).contains w = (L.has v w || L.has w v) := by
  rw [Bool.eq_iff_iff]
  simp only [List.contains_eq_mem, decide_eq_true_eq, Layer.allNeighbors, List.mem_filterMap, Bool.or_eq_true,
    Layer.has, List.any_eq_true]
  constructor
  · rintro ⟨e, he, h⟩
    obtain ⟨⟨a, b⟩, at'⟩ := e
    cases hk : L.kind <;> simp [same] at h ⊢ <;> grind
  · rintro (⟨e, he, h⟩ | ⟨e, he, h⟩) <;> refine ⟨e, he, ?_⟩ <;> obtain ⟨⟨a, b⟩, at'⟩ := e <;>
      cases hk : L.kind <;> simp [same, hk] at h ⊢ <;> grind

namespace MEG

/-- the edge-type names of `g` are inside the edge-type universe -/
def NamesBelow (g : MEG) (m : Nat) : Prop := ∀ t ∈ g.names, t < m

theorem any_layers {g : MEG} (hi : g.Inv) {m : Nat} (hm : g.NamesBelow m) (p : Layer → Bool) :
    (g.layers.any fun q => p q.2) = (List.range m).any fun t => match g.layer? t with | some L => p L | none => false := by
  rw [Bool.eq_iff_iff]
  simp only [List.any_eq_true, List.mem_range]
  constructor
  · rintro ⟨⟨t, L⟩, hq, hp⟩
    refine ⟨t, hm t (by simp only [names, List.mem_map]; exact ⟨(t, L), hq, rfl⟩), ?_⟩
    have : g.layer? t = some L := lookup_of_mem hi.names hq
    simp [this, hp]
  · rintro ⟨t, _, h⟩
    rcases Option.eq_none_or_eq_some (g.layer? t) with hL | ⟨L, hL⟩
    · simp [hL] at h
    · simp only [hL] at h
      exact ⟨(t, L), layer_mem hL, h⟩

theorem hasEdgeAny_eq {g : MEG} (hi : g.Inv) {m : Nat} (hm : g.NamesBelow m) (u v : Nat) :
    g.hasEdgeAny u v = g.abs.hasEdgeAny m u v := by
  simp only [hasEdgeAny, AG.hasEdgeAny, abs]
  exact any_layers hi hm fun L => L.has u v

theorem neighbors_eq {g : MEG} (hi : g.Inv) {m : Nat} (hm : g.NamesBelow m) (v w : Nat) :
    (g.neighbors v).contains w = g.abs.neighbor m v w := by
  have h1 : (g.neighbors v).contains w = g.layers.any fun q => (q.2.allNeighbors v).contains w := by
    rw [Bool.eq_iff_iff]
    simp only [neighbors, List.contains_eq_mem, decide_eq_true_eq, List.mem_flatMap, List.any_eq_true]
  rw [h1, any_layers hi hm fun L => (L.allNeighbors v).contains w]
  simp only [AG.neighbor, abs]
  congr 1; funext t
  cases g.layer? t with
  | none => rfl
  | some L => exact Layer.mem_allNeighbors L v w

theorem adjPairs_eq {g : MEG} (hi : g.Inv) {m : Nat} (hm : g.NamesBelow m) (u v : Nat) :
    g.adjPairs.contains (u, v) = g.abs.hasEdgeAny m u v := by
  rw [← hasEdgeAny_eq hi hm]
  rw [Bool.eq_iff_iff]
  simp only [adjPairs, List.contains_eq_mem, decide_eq_true_eq, List.mem_flatMap, List.mem_map, Prod.mk.injEq,
    hasEdgeAny, List.any_eq_true]
  constructor
  · rintro ⟨q, hq, u', hu', va, hva, rfl, rfl⟩
    refine ⟨q, hq, ?_⟩
    rw [← Layer.adj_any]
    exact List.any_eq_true.2 ⟨va, hva, by simp⟩
  · rintro ⟨q, hq, h⟩
    rw [← Layer.adj_any] at h
    obtain ⟨va, hva, hw⟩ := List.any_eq_true.1 h
    refine ⟨q, hq, u, ?_, va, hva, rfl, by simpa using hw⟩
    -- `u` is a node of the layer because it is an endpoint of a stored edge
    have hh : q.2.has u v = true := by rw [← Layer.adj_any]; exact List.any_eq_true.2 ⟨va, hva, hw⟩
    obtain ⟨e, he, hs⟩ := Layer.has_iff.1 hh
    have := (hi.wf q hq).ends e he
    rcases same_ends hs with ⟨h1, _⟩ | ⟨_, h2⟩
    · rw [← h1]; exact this.1
    · rw [← h2]; exact this.2

/-- the observation of one layer, without the three counting fields -/
theorem lobs_eq_partial {g : MEG} (hi : g.Inv) {t : Nat} {L : Layer} (hL : g.layer? t = some L) (n : Nat) :
    (L.obs t n).name = (g.abs.lobs t L.kind n).name ∧ (L.obs t n).kind = (g.abs.lobs t L.kind n).kind ∧
    (L.obs t n).lnodes = (g.abs.lobs t L.kind n).lnodes ∧ (L.obs t n).edges = (g.abs.lobs t L.kind n).edges ∧
    (L.obs t n).adj = (g.abs.lobs t L.kind n).adj ∧ (L.obs t n).hasT = (g.abs.lobs t L.kind n).hasT := by
  have hsync : ∀ v, L.nodes.contains v = g.abs.node v := by
    intro v
    rw [Bool.eq_iff_iff]
    simp only [List.contains_eq_mem, decide_eq_true_eq, abs, hasNode_iff]
    exact hi.sync _ (layer_mem hL) v
  have hnodes : (List.range n).filter L.nodes.contains = (List.range n).filter g.abs.node := by
    apply List.filter_congr; intro v _; exact hsync v
  have hedge : ∀ u v, g.abs.edge t u v = L.has u v := by intro u v; simp [abs, hL]
  have hattr : ∀ u v, g.abs.eattr t u v = attrOf (L.find u v) := by intro u v; simp [abs, hL]
  refine ⟨rfl, rfl, hnodes, ?_, ?_, ?_⟩
  · simp only [Layer.obs, AG.lobs]
    apply filterMap_congr'
    intro p _
    split
    · rfl
    · rw [hedge, hattr, ← Layer.find_isSome]
      cases L.find p.1 p.2 <;> rfl
  · simp only [Layer.obs, AG.lobs, hnodes]
    apply List.map_congr_left
    intro v _
    congr 1
    apply List.filter_congr
    intro w _
    rw [Layer.adj_any, hedge]
  · simp only [Layer.obs, AG.lobs]
    apply List.map_congr_left
    intro p _
    rw [hedge]

/-- **C02 observations (set-valued part)**: for a state with the invariant, every read query whose
    answer is a set, a relation or an attribute map – `nodes(data)`, `graph`, `has_edge` (any / per
    type), `get_edge_data`, `edges(data)`, `adj`, per-layer node sets, `neighbors`, `to_undirected`,
    `to_directed` – is answered from the abstract edge sets exactly as the specification says. -/
theorem obs_eq_partial {g : MEG} (hi : g.Inv) {m : Nat} (hm : g.NamesBelow m) (n : Nat) :
    (g.obs n m).nodes = (g.abs.obs n m).nodes ∧ (g.obs n m).gattr = (g.abs.obs n m).gattr ∧
    (g.obs n m).hasAny = (g.abs.obs n m).hasAny ∧ (g.obs n m).nbrs = (g.abs.obs n m).nbrs ∧
    (g.obs n m).toUnd = (g.abs.obs n m).toUnd ∧ (g.obs n m).toDir = (g.abs.obs n m).toDir ∧
    (g.obs n m).layers.map (fun o => (o.name, o.kind, o.lnodes, o.edges, o.adj, o.hasT)) =
      (g.abs.obs n m).layers.map (fun o => (o.name, o.kind, o.lnodes, o.edges, o.adj, o.hasT)) := by
  have hnode : ∀ v, g.nodeIds.contains v = g.abs.node v := fun v => rfl
  refine ⟨?_, rfl, ?_, ?_, ?_, ?_, ?_⟩
  · simp only [MEG.obs, AG.obs]
    apply filterMap_congr'
    intro v _
    have h1 : g.abs.node v = (List.lookup v g.nodes).isSome := by
      simp only [abs, hasNode, nodeIds]; exact (lookup_isSome_iff v g.nodes).symm
    have h2 : g.abs.nattr v = attrOf (List.lookup v g.nodes) := rfl
    rw [h1, h2]
    cases List.lookup v g.nodes <;> rfl
  · simp only [MEG.obs, AG.obs]
    apply List.map_congr_left
    intro p _
    exact hasEdgeAny_eq hi hm p.1 p.2
  · simp only [MEG.obs, AG.obs]
    apply List.map_congr_left
    intro v _
    congr 1
    apply List.filter_congr
    intro w _
    exact neighbors_eq hi hm v w
  · simp only [MEG.obs, AG.obs, AG.toUndirected]
    apply List.filter_congr
    intro p _
    rw [show p = (p.1, p.2) from rfl, adjPairs_eq hi hm, adjPairs_eq hi hm]
  · simp only [MEG.obs, AG.obs, AG.toDirected]
    apply List.filter_congr
    intro p _
    rw [show p = (p.1, p.2) from rfl, adjPairs_eq hi hm]
  · simp only [MEG.obs, AG.obs, List.map_filterMap]
    apply filterMap_congr'
    intro t _
    have hk : g.abs.kind t = (g.layer? t).map (·.kind) := rfl
    rw [hk]
    rcases Option.eq_none_or_eq_some (g.layer? t) with hL | ⟨L, hL⟩
    · simp [hL]
    · simp only [hL, Option.map_some, Option.some.injEq]
      obtain ⟨h1, h2, h3, h4, h5, h6⟩ := lobs_eq_partial hi hL n
      simp only [Prod.mk.injEq]
      exact ⟨h1, h2, h3, h4, h5, h6⟩

end MEG
end C02
