#!/venv/bin/python
"""known_findings.d/*.json -> known_findings.json + KNOWN_FINDINGS.txt (never run at check time).
For fixed entries the commit hash is looked up in /repo by commit subject."""
import json, os, subprocess, sys
V = os.path.dirname(os.path.dirname(os.path.abspath(__file__)))
log = subprocess.run(["git", "-C", "/repo", "log", "--format=%h\t%s"], capture_output=True, text=True).stdout
by_subject = {}
for line in log.splitlines():
    h, s = line.split("\t", 1)
    by_subject.setdefault(s.strip(), h)
allf, lines, missing = [], [], []
d = os.path.join(V, "known_findings.d")
for f in sorted(os.listdir(d)):
    if not f.endswith(".json"):
        continue
    for e in json.load(open(os.path.join(d, f)))["findings"]:
        if e.get("status") == "fixed":
            subj = (e.get("commit_subject") or "").strip()
            if subj in by_subject:
                e["commit"] = by_subject[subj]
            else:
                missing.append((e.get("id"), subj))
            lines.append("fixed: property=%s %s %s [%s]" % (e["property"], e.get("commit", "?"), e.get("description", "").replace("\n", " "), e.get("id")))
        else:
            lines.append("known: property=%s %s :: %s [%s]" % (e["property"], e.get("function", ""), e.get("description", "").replace("\n", " "), e.get("id")))
        allf.append(e)
json.dump({"findings": allf}, open(os.path.join(V, "known_findings.json"), "w"), indent=1)
open(os.path.join(V, "KNOWN_FINDINGS.txt"), "w").write("\n".join(lines) + "\n")
print("findings:", len(allf), "fixed without a matching commit in /repo:", missing)
