import Pw.C08.Spec
open Closure

/-! # C08 brute-force deciders (the run-time oracle): consistent extensions by enumerating every
orientation of the undirected edges; compelled edges; pattern and essential graph of a DAG. -/
namespace C08
open MG

/-- every way of orienting each listed pair -/
def orientations : List (Nat × Nat) → List (List (Nat × Nat))
  | [] => [[]]
  | (a, b) :: t => (orientations t).flatMap fun o => [(a, b) :: o, (b, a) :: o]

def skelB (G : MG) (a b : Nat) : Bool := adj G a b

def vstructB (G : MG) (a c b : Nat) : Bool :=
  hasDir G a c && hasDir G b c && a != b && !skelB G a b

/-- same v-structures (triples over the node list) -/
def sameV (P D : MG) : Bool :=
  P.nodes.all fun a => P.nodes.all fun c => P.nodes.all fun b => vstructB D a c b == vstructB P a c b

/-- candidate extension for one orientation of the undirected edges -/
def candidate (P : MG) (o : List (Nat × Nat)) : MG := { nodes := P.nodes, dir := P.dir ++ o }

/-- all consistent extensions (one per orientation of the undirected edges that is acyclic and has
    the same v-structures; the skeleton is the same by construction) -/
def extsDec (P : MG) : List MG :=
  ((orientations P.un).map (candidate P)).filter fun D => !hasCycle D && sameV P D

def hasExtDec (P : MG) : Bool := !(extsDec P).isEmpty

/-- `a -> b` in every consistent extension -/
def compelledDec (P : MG) (a b : Nat) : Bool := (extsDec P).all fun D => hasDir D a b

/-- the orientations `(a,b)` of undirected edges of `P` that are compelled -/
def compelledUn (P : MG) : List (Nat × Nat) :=
  let exts := extsDec P
  (P.un.flatMap fun (a, b) => [(a, b), (b, a)]).filter fun (a, b) => exts.all fun D => hasDir D a b

/-- pattern of a DAG: the edges taking part in a v-structure stay directed, the others become undirected -/
def patternOf (D : MG) : MG :=
  let inV := fun (e : Nat × Nat) => D.nodes.any fun b => vstructB D e.1 e.2 b
  { nodes := D.nodes, dir := D.dir.filter inV, un := D.dir.filter (fun e => !inV e) }

/-- essential graph by brute force: the pattern with every compelled undirected edge oriented -/
def essentialDec (D : MG) : MG :=
  let P := patternOf D
  let c := compelledUn P
  { nodes := D.nodes, dir := P.dir ++ c,
    un := P.un.filter fun (a, b) => !(decide ((a, b) ∈ c) || decide ((b, a) ∈ c)) }

end C08
