import Pw.C11.Sound
open Closure MG C12

/-! # C11: the brute-force deciders are the specification

`sepDec = Sep`, `existsSepDec = ∃ Z, Sep Z`, `minSepDec = MinSep` on the domain of C01 (x ∈ V, R ⊆ V,
x ∉ R).  These deciders are the oracle of the correspondence harness. -/
namespace C11

/-! ## m-separation depends on Z only through membership -/

theorem condS_congr {G : MG} {Z Z' : List Nat} (h : ∀ a, a ∈ Z ↔ a ∈ Z') (mi mo : Mark) (v : Nat) :
    condS G Z mi mo v ↔ condS G Z' mi mo v := by
  unfold condS ColliderOpen
  split
  · constructor
    · rintro ⟨z, hz, ha⟩; exact ⟨z, (h z).mp hz, ha⟩
    · rintro ⟨z, hz, ha⟩; exact ⟨z, (h z).mpr hz, ha⟩
  · rw [h v]

theorem openS_congr {G : MG} {Z Z' : List Nat} (h : ∀ a, a ∈ Z ↔ a ∈ Z') :
    ∀ (hs : List Hop) (e : Option Mark) (a : Nat), OpenS G Z e a hs ↔ OpenS G Z' e a hs
  | [], e, a => by cases e <;> simp [OpenS]
  | hp :: t, none, a => by simp only [OpenS]; exact openS_congr h t _ _
  | hp :: t, some m, a => by
    simp only [OpenS]; rw [condS_congr h, openS_congr h t]

theorem mSep_congr {G : MG} {X Y Z Z' : List Nat} (h : ∀ a, a ∈ Z ↔ a ∈ Z') :
    MSep G X Y Z ↔ MSep G X Y Z' := by
  unfold MSep MConnPath
  constructor
  · intro hm x hx y hy ⟨hs, hv, he, hn, ho⟩
    exact hm x hx y hy ⟨hs, hv, he, hn, (openS_congr h hs none x).mpr ho⟩
  · intro hm x hx y hy ⟨hs, hv, he, hn, ho⟩
    exact hm x hx y hy ⟨hs, hv, he, hn, (openS_congr h hs none x).mp ho⟩

theorem sep_congr {G : MG} {x y : Nat} {I R Z Z' : List Nat} (h : ∀ a, a ∈ Z ↔ a ∈ Z') :
    Sep G x y I R Z ↔ Sep G x y I R Z' := by
  unfold Sep
  rw [mSep_congr h]
  constructor
  · rintro ⟨h1, h2, h3⟩; exact ⟨fun i hi => (h i).mp (h1 i hi), fun z hz => h2 z ((h z).mpr hz), h3⟩
  · rintro ⟨h1, h2, h3⟩; exact ⟨fun i hi => (h i).mpr (h1 i hi), fun z hz => h2 z ((h z).mp hz), h3⟩

/-! ## sublists -/

theorem filter_mem_subl (p : Nat → Bool) : ∀ l : List Nat, l.filter p ∈ subl l
  | [] => by simp [subl]
  | a :: l => by
    simp only [subl, List.filter_cons, List.mem_append, List.mem_map]
    cases p a
    · exact Or.inl (filter_mem_subl p l)
    · exact Or.inr ⟨_, filter_mem_subl p l, rfl⟩

theorem mem_of_mem_subl : ∀ (l s : List Nat), s ∈ subl l → ∀ a ∈ s, a ∈ l
  | [], s, hs, a, ha => by
    simp only [subl, List.mem_singleton] at hs
    subst hs; cases ha
  | b :: l, s, hs, a, ha => by
    simp only [subl, List.mem_append, List.mem_map] at hs
    rcases hs with hs | ⟨s', hs', rfl⟩
    · exact List.mem_cons_of_mem _ (mem_of_mem_subl l s hs a ha)
    · rcases List.mem_cons.mp ha with rfl | ha
      · exact List.mem_cons_self
      · exact List.mem_cons_of_mem _ (mem_of_mem_subl l s' hs' a ha)

/-- every subset of `l` is represented by a sublist -/
theorem exists_subl {l Z : List Nat} (hZ : ∀ a ∈ Z, a ∈ l) :
    ∃ s ∈ subl l, ∀ a, a ∈ s ↔ a ∈ Z := by
  refine ⟨l.filter (fun a => decide (a ∈ Z)), filter_mem_subl _ l, fun a => ?_⟩
  simp only [List.mem_filter, decide_eq_true_eq]
  exact ⟨fun h => h.2, fun h => ⟨hZ a h, h⟩⟩

/-! ## the deciders -/

section
variable (G : MG) (hwf : G.WF) (hb : NoUndirAtHead G) (hsl : NoSelfLoop G) (x y : Nat)
  (I R : List Nat) (hx : x ∈ G.nodes) (hR : ∀ r ∈ R, r ∈ G.nodes) (hxR : x ∉ R)
include hwf hb hsl hx hR hxR

theorem sepDec_iff (Z : List Nat) : sepDec G x y I R Z = true ↔ Sep G x y I R Z := by
  unfold sepDec Sep
  simp only [Bool.and_eq_true, subset_iff]
  constructor
  · rintro ⟨⟨h1, h2⟩, h3⟩
    refine ⟨h1, h2, ?_⟩
    exact (mSeparated_iff_MSep G hwf hb hsl [x] [y] Z (by simpa using hx) (fun z hz => hR z (h2 z hz))
      (by intro x' hx' hm; simp only [List.mem_singleton] at hx'; subst hx'; exact hxR (h2 _ hm))).mp h3
  · rintro ⟨h1, h2, h3⟩
    refine ⟨⟨h1, h2⟩, ?_⟩
    exact (mSeparated_iff_MSep G hwf hb hsl [x] [y] Z (by simpa using hx) (fun z hz => hR z (h2 z hz))
      (by intro x' hx' hm; simp only [List.mem_singleton] at hx'; subst hx'; exact hxR (h2 _ hm))).mpr h3

/-- **the existence decider is the specification** -/
theorem existsSepDec_iff : existsSepDec G x y I R = true ↔ ∃ Z, Sep G x y I R Z := by
  unfold existsSepDec
  rw [List.any_eq_true]
  constructor
  · rintro ⟨Z, _, h⟩; exact ⟨Z, (sepDec_iff G hwf hb hsl x y I R hx hR hxR Z).mp h⟩
  · rintro ⟨Z, h⟩
    obtain ⟨s, hs, hmem⟩ := exists_subl (l := R) h.2.1
    exact ⟨s, hs, (sepDec_iff G hwf hb hsl x y I R hx hR hxR s).mpr ((sep_congr hmem).mpr h)⟩

/-- **the minimality decider is the specification** -/
theorem minSepDec_iff (Z : List Nat) : minSepDec G x y I R Z = true ↔ MinSep G x y I R Z := by
  unfold minSepDec MinSep
  rw [Bool.and_eq_true, sepDec_iff G hwf hb hsl x y I R hx hR hxR, List.all_eq_true]
  constructor
  · rintro ⟨hsep, hall⟩
    refine ⟨hsep, fun Z' hsub ⟨z, hz, hzn⟩ hsep' => ?_⟩
    obtain ⟨s, hs, hmem⟩ := exists_subl (l := Z) hsub
    have := hall s hs
    simp only [Bool.or_eq_true, subset_iff, Bool.not_eq_true'] at this
    rcases this with h | h
    · exact hzn ((hmem z).mp (h z hz))
    · have := (sepDec_iff G hwf hb hsl x y I R hx hR hxR s).mpr ((sep_congr hmem).mpr hsep')
      rw [h] at this; cases this
  · rintro ⟨hsep, hmin⟩
    refine ⟨hsep, fun s hs => ?_⟩
    simp only [Bool.or_eq_true, subset_iff, Bool.not_eq_true']
    by_cases hsub : ∀ a ∈ Z, a ∈ s
    · exact Or.inl hsub
    · right
      have hex : ∃ z ∈ Z, z ∉ s := by
        apply Classical.byContradiction
        intro hn
        apply hsub
        intro a ha
        apply Classical.byContradiction
        intro has
        exact hn ⟨a, ha, has⟩
      have hns := hmin s (mem_of_mem_subl Z s hs) hex
      cases hd : sepDec G x y I R s
      · rfl
      · exact absurd ((sepDec_iff G hwf hb hsl x y I R hx hR hxR s).mp hd) hns

end

end C11
