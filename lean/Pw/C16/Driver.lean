import Pw.Core.Proto
import Pw.C16.Model
import Pw.C16.Spec
open Proto

namespace C16

def lexLeList : List Nat → List Nat → Bool
  | [], _ => true
  | _ :: _, [] => false
  | a :: l, b :: m => a < b || (a == b && lexLeList l m)

/-- a list of paths as a sorted multiset `0-1-2;0-2` (duplicates kept: "once each" is compared) -/
def fmtPaths (ps : List (List Nat)) : String :=
  ";".intercalate ((ps.mergeSort lexLeList).map fmtPath)

def cutoffArg (a : Args) : Option Nat := a.nat? "c"

/-- `sdp <graph> s= T= c=<k>|none` → model of `all_semi_directed_paths` -/
def hSdp : Handler := fun a =>
  match allSemiDirectedPaths a.graph (a.nat "s") (a.nats "T") (cutoffArg a) with
  | none => "err:NodeNotFound"
  | some ps => fmtPaths ps

/-- same request → the brute-force oracle `wantedDec` -/
def hSdpSpec : Handler := fun a =>
  fmtPaths (wantedDec a.graph (a.nat "s") (a.nats "T") (cutoffArg a))

/-- `issdp <graph> P=0,1,2` → model of `is_semi_directed_path` / the spec predicate -/
def hIs : Handler := fun a => fmtBool (isSemiDirectedPath a.graph (a.nats "P"))
def hIsSpec : Handler := fun a => fmtBool (decide (SemiDirected a.graph (a.nats "P")))

def hDesc : Handler := fun a => fmtSet (possibleDescendants a.graph (a.nat "s"))
def hAnc : Handler := fun a => fmtSet (possibleAncestors a.graph (a.nat "s"))
def hDescSpec : Handler := fun a => fmtSet (possDescDec a.graph (a.nat "s"))
def hAncSpec : Handler := fun a => fmtSet (possAncDec a.graph (a.nat "s"))

/-! batched requests: many queries on one graph per line (`mode=model|spec`) -/

def parseDots (s : String) : List Nat := (s.splitOn ".").filterMap (·.toNat?)

/-- `sdpmulti <graph> mode= Q=s:t1.t2:c;…` (`c` = `n` for None) → answers joined by `/` -/
def hSdpMulti : Handler := fun a =>
  let G := a.graph
  let spec := a.get "mode" == "spec"
  let qs := ((a.get "Q").splitOn ";").filter (· ≠ "")
  "/".intercalate <| qs.map fun q =>
    match q.splitOn ":" with
    | [s, t, c] =>
      let s := s.toNat?.getD 0
      let T := parseDots t
      let c := c.toNat?
      if spec then fmtPaths (wantedDec G s T c)
      else match allSemiDirectedPaths G s T c with
        | none => "err:NodeNotFound"
        | some ps => fmtPaths ps
    | _ => "bad-query"

/-- `issdpmulti <graph> mode= P=0.1.2;0.2;…` → one `T`/`F` per list (`e` = the empty list) -/
def hIsMulti : Handler := fun a =>
  let G := a.graph
  let spec := a.get "mode" == "spec"
  let qs := ((a.get "P").splitOn ";").filter (· ≠ "")
  String.join <| qs.map fun q =>
    let p := parseDots q
    fmtBool (if spec then decide (SemiDirected G p) else isSemiDirectedPath G p)

/-- `pdmulti <graph> mode= S=0,1` → `desc:anc` per source joined by `/` -/
def hPdMulti : Handler := fun a =>
  let G := a.graph
  let spec := a.get "mode" == "spec"
  "/".intercalate <| (a.nats "S").map fun s =>
    if spec then fmtSet (possDescDec G s) ++ ":" ++ fmtSet (possAncDec G s)
    else fmtSet (possibleDescendants G s) ++ ":" ++ fmtSet (possibleAncestors G s)

def handlers : List (String × Handler) :=
  [("sdp", hSdp), ("sdpspec", hSdpSpec), ("issdp", hIs), ("issdpspec", hIsSpec),
   ("pdesc", hDesc), ("panc", hAnc), ("pdescspec", hDescSpec), ("pancspec", hAncSpec),
   ("sdpmulti", hSdpMulti), ("issdpmulti", hIsMulti), ("pdmulti", hPdMulti)]
end C16
