import Pw.C14.Ts

/-! # C14 — lag array of a stationary time-series graph round-trips (any number of variables, any max_lag) -/
namespace C14
set_option linter.unusedSimpArgs false

/-- stationarity of a time-series graph inside its window: every edge goes forward in time (directed
    case), stays inside the window and all its homologous copies `((x, d+k), (y, k))` are present -/
def ShiftClosed (G : TsG) : Prop :=
  ∀ x a y b, G.hasEdge (x, a) (y, b) = true →
    x < G.nv ∧ y < G.nv ∧ a ≤ G.maxLag ∧ b ≤ G.maxLag ∧ (G.directed = true → b ≤ a) ∧
    (b ≤ a → ∀ k, a - b + k ≤ G.maxLag → G.hasEdge (x, a - b + k) (y, k) = true)

theorem mem_tsDec_edges {d : Bool} {nv L : Nat} {A : Arr} {p q : TsNode} :
    (p, q) ∈ (tsDec d nv L A).edges ↔
      ∃ y, y < nv ∧ ∃ lag, lag ≤ L ∧ ∃ x, x < nv ∧ A x y lag > 0 ∧ ∃ k, k ≤ L - lag ∧ p = (x, lag + k) ∧ q = (y, k) := by
  simp only [tsDec, List.mem_flatMap, List.mem_range, homologous]
  constructor
  · rintro ⟨y, hy, lag, hl, x, hx, h⟩
    by_cases hA : A x y lag > 0
    · simp only [hA, if_true, List.mem_map, List.mem_range, Prod.mk.injEq] at h
      obtain ⟨k, hk, h1, h2⟩ := h
      exact ⟨y, hy, lag, by omega, x, hx, hA, k, by omega, h1.symm, h2.symm⟩
    · simp [hA] at h
  · rintro ⟨y, hy, lag, hl, x, hx, hA, k, hk, rfl, rfl⟩
    refine ⟨y, hy, lag, by omega, x, hx, ?_⟩
    simp only [hA, if_true, List.mem_map, List.mem_range]
    exact ⟨k, by omega, rfl⟩

theorem TsG.hasEdge_iff (G : TsG) (p q : TsNode) :
    G.hasEdge p q = true ↔ ((p, q) ∈ G.edges ∨ (G.directed = false ∧ (q, p) ∈ G.edges)) := by
  simp [TsG.hasEdge]

theorem TsG.hasEdge_symm (G : TsG) (h : G.directed = false) (p q : TsNode) : G.hasEdge p q = G.hasEdge q p := by
  simp [TsG.hasEdge, h, Bool.or_comm]

/-- **lag array round trip**: `numpy_to_tsgraph(tsgraph_to_numpy(G))` has exactly the edges of `G`, for
    every stationary directed or undirected time-series graph -/
theorem ts_export_import (G : TsG) (hG : ShiftClosed G) (p q : TsNode) :
    (tsDec G.directed G.nv G.maxLag (tsEnc G)).hasEdge p q = G.hasEdge p q := by
  have hpos : ∀ x y lag, tsEnc G x y lag > 0 ↔ G.hasEdge (x, lag) (y, 0) = true := by
    intro x y lag; unfold tsEnc; split <;> simp_all
  have fwd : ∀ p q, (p, q) ∈ (tsDec G.directed G.nv G.maxLag (tsEnc G)).edges → G.hasEdge p q = true := by
    intro p q h
    obtain ⟨y, _, lag, _, x, _, hA, k, hk, rfl, rfl⟩ := mem_tsDec_edges.1 h
    have := (hG x lag y 0 ((hpos x y lag).1 hA)).2.2.2.2.2 (Nat.zero_le _) k (by omega)
    simpa using this
  have bwd : ∀ x a y b, G.hasEdge (x, a) (y, b) = true → b ≤ a →
      ((x, a), (y, b)) ∈ (tsDec G.directed G.nv G.maxLag (tsEnc G)).edges := by
    intro x a y b h hba
    obtain ⟨hx, hy, ha, hb, _, hs⟩ := hG x a y b h
    have h0 := hs hba 0 (by omega)
    refine mem_tsDec_edges.2 ⟨y, hy, a - b, by omega, x, hx, (hpos x y (a - b)).2 (by simpa using h0), b, by omega, ?_, rfl⟩
    congr 1; omega
  apply Bool.eq_iff_iff.2
  obtain ⟨x, a⟩ := p
  obtain ⟨y, b⟩ := q
  constructor
  · intro h
    rcases (TsG.hasEdge_iff _ _ _).1 h with h | ⟨hd, h⟩
    · exact fwd _ _ h
    · have hd' : G.directed = false := hd
      rw [TsG.hasEdge_symm G hd']; exact fwd _ _ h
  · intro h
    by_cases hba : b ≤ a
    · exact (TsG.hasEdge_iff _ _ _).2 (Or.inl (bwd x a y b h hba))
    · cases hd : G.directed with
      | true => exact absurd ((hG x a y b h).2.2.2.2.1 hd) hba
      | false =>
        have h' : G.hasEdge (y, b) (x, a) = true := by rw [TsG.hasEdge_symm G hd]; exact h
        exact (TsG.hasEdge_iff _ _ _).2 (Or.inr ⟨by simp [tsDec, hd], bwd y b x a h' (by omega)⟩)

/-- well-formed lag array: 0/1 entries; for an undirected graph the lag-0 slice is symmetric -/
def WfArr (directed : Bool) (A : Arr) : Prop :=
  (∀ i j l, A i j l = 0 ∨ A i j l = 1) ∧ (directed = false → ∀ i j, A i j 0 = A j i 0)

/-- **lag array round trip, other direction**: `tsgraph_to_numpy(numpy_to_tsgraph(A)) = A` inside the window -/
theorem ts_import_export (d : Bool) (nv L : Nat) (A : Arr) (hA : WfArr d A) (i j l : Nat)
    (hi : i < nv) (hj : j < nv) (hl : l ≤ L) : tsEnc (tsDec d nv L A) i j l = A i j l := by
  have h1 : ((i, l), (j, 0)) ∈ (tsDec d nv L A).edges ↔ A i j l > 0 := by
    rw [mem_tsDec_edges]
    constructor
    · rintro ⟨y, _, lag, _, x, _, hpos, k, _, h1, h2⟩
      simp only [Prod.mk.injEq] at h1 h2
      obtain ⟨rfl, h3⟩ := h1
      obtain ⟨rfl, rfl⟩ := h2
      simp at h3; subst h3; exact hpos
    · intro hpos
      exact ⟨j, hj, l, hl, i, hi, hpos, 0, by omega, rfl, rfl⟩
  have h2 : ((j, 0), (i, l)) ∈ (tsDec d nv L A).edges ↔ (l = 0 ∧ A j i 0 > 0) := by
    rw [mem_tsDec_edges]
    constructor
    · rintro ⟨y, _, lag, _, x, _, hpos, k, _, h1, h2⟩
      simp only [Prod.mk.injEq] at h1 h2
      obtain ⟨rfl, h3⟩ := h1
      obtain ⟨rfl, rfl⟩ := h2
      have : lag = 0 ∧ l = 0 := by omega
      obtain ⟨rfl, rfl⟩ := this
      exact ⟨rfl, hpos⟩
    · rintro ⟨rfl, hpos⟩
      exact ⟨i, hi, 0, by omega, j, hj, hpos, 0, by omega, rfl, rfl⟩
  have hdir : (tsDec d nv L A).directed = d := rfl
  unfold tsEnc
  have key : (tsDec d nv L A).hasEdge (i, l) (j, 0) = true ↔ A i j l > 0 := by
    rw [TsG.hasEdge_iff, h1, h2, hdir]
    constructor
    · rintro (h | ⟨hd, rfl, h⟩)
      · exact h
      · rw [hA.2 hd i j]; exact h
    · intro h; exact Or.inl h
  rcases hA.1 i j l with h0 | h1'
  · rw [if_neg]; exact h0.symm
    rw [key, h0]; decide
  · rw [if_pos]; exact h1'.symm
    rw [key, h1']; decide

/-! non-vacuity: `x(t-1) → y(t)` with max_lag 2 -/
example : ShiftClosed { nv := 2, maxLag := 2, directed := true, edges := [((0, 1), (1, 0)), ((0, 2), (1, 1))] } := by
  intro x a y b h
  simp [TsG.hasEdge] at h
  rcases h with ⟨⟨rfl, rfl⟩, rfl, rfl⟩ | ⟨⟨rfl, rfl⟩, rfl, rfl⟩ <;>
    refine ⟨by decide, by decide, by decide, by decide, fun _ => by decide, fun _ k hk => ?_⟩ <;>
    (have : k = 0 ∨ k = 1 := by (simp at hk; omega)) <;> rcases this with rfl | rfl <;> decide

end C14
