import Pw.C01.Driver
import Pw.C16.Driver
import Pw.C17.Driver
open Proto

/-- all request handlers; each property contributes `CNN.handlers` -/
def handlers : List (String × Handler) :=
  C01.handlers
  ++ C16.handlers
  ++ C17.handlers

def dispatch (line : String) : String :=
  let (fn, args) := parseLine line
  match handlers.lookup fn with
  | some h => h args
  | none => "bad-op"
