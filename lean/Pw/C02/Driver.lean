import Pw.Core.Proto
import Pw.C02.Obs
open Proto

/-! driver for C02: `c02m n=4 m=5 ops=<op>;<op>;…` runs the model, `c02s …` the abstract spec.
Answer: one block per step joined by `|`; a block is `<ok>` followed by `#<obs of handle i>` for every
live object.  Ops: `new:0|1  an:h:v:attr  ans:h:vs:attr  rn:h:v  rns:h:vs  ae:h:u:v:t:attr
aes:h:es:t:attr  re:h:u:v:t  res:h:es:t  ce:h:t  aet:h:t:k:ns:es  ret:h:t  ga:h:attr  cp:h  sg:h:ns`
with `t` a number or `a` (= 'all'), `k` = `u`|`d`, attr = `k.v+k.v`, lists comma separated, edges `a-b`. -/
namespace C02

def parseAttr (s : String) : Attr :=
  (s.splitOn "+").filterMap fun kv =>
    match kv.splitOn "." with
    | [k, v] => match k.toNat?, v.toNat? with
      | some k, some v => some (k, v)
      | _, _ => none
    | _ => none

def parseEType (s : String) : EType := match s.toNat? with | some t => .one t | none => .all
def nat (s : String) : Nat := s.toNat?.getD 0

def parseOp (s : String) : Option Op :=
  match s.splitOn ":" with
  | ["new", c] => some (.new (c == "1"))
  | ["an", h, v, a] => some (.on (nat h) (.addNode (nat v) (parseAttr a)))
  | ["ans", h, vs, a] => some (.on (nat h) (.addNodes (parseNats vs) (parseAttr a)))
  | ["rn", h, v] => some (.on (nat h) (.removeNode (nat v)))
  | ["rns", h, vs] => some (.on (nat h) (.removeNodes (parseNats vs)))
  | ["ae", h, u, v, t, a] => some (.on (nat h) (.addEdge (nat u) (nat v) (parseEType t) (parseAttr a)))
  | ["aes", h, es, t, a] => some (.on (nat h) (.addEdges (parsePairs es) (parseEType t) (parseAttr a)))
  | ["re", h, u, v, t] => some (.on (nat h) (.removeEdge (nat u) (nat v) (parseEType t)))
  | ["res", h, es, t] => some (.on (nat h) (.removeEdges (parsePairs es) (parseEType t)))
  | ["ce", h, t] => some (.on (nat h) (.clearEdges (parseEType t)))
  | ["aet", h, t, k, ns, es] =>
    some (.on (nat h) (.addEdgeType (nat t) (if k == "d" then .dir else .und) (parseNats ns) (parsePairs es)))
  | ["ret", h, t] => some (.on (nat h) (.removeEdgeType (nat t)))
  | ["ga", h, a] => some (.on (nat h) (.setGAttr (parseAttr a)))
  | ["cp", h] => some (.copy (nat h))
  | ["sg", h, ns] => some (.subgraph (nat h) (parseNats ns))
  | _ => none

def parseOps (s : String) : List Op := (s.splitOn ";").filterMap parseOp

def fmtOpt : Option Nat → String | none => "_" | some v => toString v
def fmtAttrs (l : List (Option Nat)) : String := ".".intercalate (l.map fmtOpt)
def fmtBits (l : List Bool) : String := String.join (l.map fun b => if b then "1" else "0")
def fmtAdj (l : List (Nat × List Nat)) : String :=
  "/".intercalate (l.map fun p => toString p.1 ++ ":" ++ fmtNats p.2)

def LObs.fmt (o : LObs) : String :=
  "L" ++ toString o.name ++ "=" ++ (if o.kind == .dir then "d" else "u") ++
  " V:" ++ fmtNats o.lnodes ++
  " E:" ++ ",".intercalate (o.edges.map fun e => fmtPair (e.1, e.2.1) ++ "@" ++ fmtAttrs e.2.2) ++
  " A:" ++ fmtAdj o.adj ++
  " D:" ++ ",".intercalate (o.degree.map fun p => toString p.1 ++ ":" ++ toString p.2) ++
  " H:" ++ fmtBits o.hasT ++
  " n:" ++ toString o.nEdges ++ " s:" ++ toString o.sizeT

def GObs.fmt (o : GObs) : String :=
  "N:" ++ ",".intercalate (o.nodes.map fun p => toString p.1 ++ "@" ++ fmtAttrs p.2) ++
  " G:" ++ fmtAttrs o.gattr ++
  " HA:" ++ fmtBits o.hasAny ++
  " NE:" ++ toString o.nEdgesAll ++
  " NUV:" ++ fmtNats o.nEdgesUV ++
  " SZ:" ++ toString o.sizeAll ++
  " NB:" ++ fmtAdj o.nbrs ++
  " TU:" ++ fmtPairs o.toUnd ++
  " TD:" ++ fmtPairs o.toDir ++
  String.join (o.layers.map fun l => " " ++ l.fmt)

/-- blocks of a run: `<ok>` then `#<obs>` per live object; an object whose observation is literally
    the one of the previous step is printed as `=` (pure compression, same on the Python side) -/
def fmtRun (steps : List (Bool × List String)) : String :=
  let rec go (prev : List String) : List (Bool × List String) → List String
    | [] => []
    | (ok, obs) :: rest =>
      let cells := obs.zipIdx.map fun (o, i) => if prev[i]? == some o then "=" else o
      ((if ok then "ok" else "err") ++ String.join (cells.map fun c => "#" ++ c)) :: go obs rest
  "|".intercalate (go [] steps)

def handleModel : Handler := fun a =>
  let n := a.nat "n"; let m := a.nat "m"
  fmtRun ((Store.run [] (parseOps (a.get "ops"))).map fun r => (r.2, r.1.map fun g => (g.obs n m).fmt))

/-- the abstract state re-tabulated over the finite universe (nodes `< n`, edge types `< m`, attribute
    keys `akeys`): extensionally the same state on the universe, but stored as tables, so that running
    the specification costs O(universe) per step instead of O(history length) per lookup.  Only the
    driver uses this; histories sent to the driver mention nothing outside the universe. -/
def tabRow (a : AAttr) : Array (Option Nat) := ((List.range 2).map a).toArray

def tabAG (n m : Nat) (a : AG) : AG :=
  let nodeT := ((List.range n).map a.node).toArray
  let kindT := ((List.range m).map a.kind).toArray
  let edgeT := ((List.range (m * n * n)).map fun i => a.edge (i / (n * n)) (i / n % n) (i % n)).toArray
  let nattrT := ((List.range n).map fun v => tabRow (a.nattr v)).toArray
  let eattrT := ((List.range (m * n * n)).map fun i => tabRow (a.eattr (i / (n * n)) (i / n % n) (i % n))).toArray
  let gT := tabRow a.gattr
  { admg := a.admg
    node := fun v => nodeT.getD v false
    kind := fun t => kindT.getD t none
    edge := fun t u v => if t < m && u < n && v < n then edgeT.getD (t * n * n + u * n + v) false else false
    nattr := fun v k => (nattrT.getD v #[]).getD k none
    eattr := fun t u v k =>
      if t < m && u < n && v < n then (eattrT.getD (t * n * n + u * n + v) #[]).getD k none else none
    gattr := fun k => gT.getD k none }

def specRun (n m : Nat) (s : AStore) : List Op → List (AStore × Bool)
  | [] => []
  | op :: ops => let r := s.step op; let s' := r.1.map (tabAG n m); (s', r.2) :: specRun n m s' ops

def handleSpec : Handler := fun a =>
  let n := a.nat "n"; let m := a.nat "m"
  fmtRun ((specRun n m [] (parseOps (a.get "ops"))).map fun r => (r.2, r.1.map fun g => (g.obs n m).fmt))

/-- the un-tabulated run (`AStore.run` literally), for cross-checking the tabulation -/
def handleSpecRaw : Handler := fun a =>
  let n := a.nat "n"; let m := a.nat "m"
  fmtRun ((AStore.run [] (parseOps (a.get "ops"))).map fun r => (r.2, r.1.map fun g => (g.obs n m).fmt))

def handlers : List (String × Handler) := [("c02m", handleModel), ("c02s", handleSpec), ("c02sraw", handleSpecRaw)]
end C02
