import Pw.C02.StoreRefine

/-! # C02: `copy` and `subgraph` refine the specification – part A: folds of steps, closed forms -/
namespace C02

theorem foldl_flatMap' {α β γ} (l : List α) (f : α → List β) (g : γ → β → γ) (init : γ) :
    (l.flatMap f).foldl g init = l.foldl (fun acc x => (f x).foldl g acc) init := by
  induction l generalizing init with
  | nil => rfl
  | cons a l ih => simp only [List.flatMap_cons, List.foldl_append, List.foldl_cons, ih]

namespace MEG

/-- running a list of mutations commutes with abstraction -/
theorem abs_foldl_step (ops : List GOp) {G : MEG} (hi : G.Inv) :
    (ops.foldl (fun G op => (G.step op).1) G).abs = ops.foldl (fun S op => (S.step op).1) G.abs ∧
    (ops.foldl (fun G op => (G.step op).1) G).Inv := by
  induction ops generalizing G with
  | nil => exact ⟨rfl, hi⟩
  | cons op ops ih =>
    simp only [List.foldl_cons]
    have h := ih (hi.step op)
    rw [(abs_step hi op).1] at h
    exact h

theorem lookup_filter_key {α} (l : List (Nat × α)) (P : Nat → Bool) (x : Nat) :
    List.lookup x (l.filter fun p => P p.1) = if P x then List.lookup x l else none := by
  induction l with
  | nil => simp
  | cons p l ih =>
    obtain ⟨k, b⟩ := p
    simp only [List.filter_cons]
    by_cases hk : P k = true
    · simp only [hk, ite_true, List.lookup_cons, ih]
      by_cases hx : x = k
      · subst hx; simp [hk]
      · have : (x == k) = false := by simpa using hx
        simp [this]
    · have hk' : P k = false := by simpa using hk
      simp only [hk', Bool.false_eq_true, ite_false, ih, List.lookup_cons]
      by_cases hx : x = k
      · subst hx; simp [hk']
      · have : (x == k) = false := by simpa using hx
        simp [this]

end MEG

/-! ### closed forms in the abstract world -/
namespace AG

/-- no nodes, no edges, no attributes (only kinds and graph attributes) -/
structure Blank (S : AG) : Prop where
  node : S.node = fun _ => false
  edge : S.edge = fun _ _ _ => false
  nattr : S.nattr = fun _ => AAttr.empty
  eattr : S.eattr = fun _ _ _ => AAttr.empty

theorem step_addType_empty (S : AG) (hb : S.Blank) (t : Nat) (k : Kind) :
    let S' := (S.step (.addEdgeType t k [] [])).1
    S'.Blank ∧ S'.admg = S.admg ∧ S'.gattr = S.gattr ∧
    ∀ t', S'.kind t' = if (S.kind t).isSome then S.kind t' else if t' == t then some k else S.kind t' := by
  simp only [AG.step]
  split
  · rename_i h; exact ⟨hb, rfl, rfl, fun t' => by simp [h]⟩
  · rename_i h
    refine ⟨⟨?_, ?_, hb.nattr, hb.eattr⟩, rfl, rfl, fun t' => by simp [h]⟩
    · funext x; simp [hb.node]
    · funext t' x y; simp [hb.edge]

theorem foldl_addType_empty (ls : List (Nat × Layer)) (S : AG) (hb : S.Blank) :
    let S' := ls.foldl (fun S p => (S.step (.addEdgeType p.1 p.2.kind [] [])).1) S
    S'.Blank ∧ S'.admg = S.admg ∧ S'.gattr = S.gattr ∧
    ∀ t', S'.kind t' = match S.kind t' with | some k => some k | none => (List.lookup t' ls).map (·.kind) := by
  induction ls generalizing S with
  | nil => exact ⟨hb, rfl, rfl, fun t' => by cases hS : S.kind t' <;> simp [hS]⟩
  | cons p ls ih =>
    obtain ⟨hb1, ha1, hg1, hk1⟩ := step_addType_empty S hb p.1 p.2.kind
    obtain ⟨hb2, ha2, hg2, hk2⟩ := ih _ hb1
    simp only [List.foldl_cons]
    refine ⟨hb2, ha2.trans ha1, hg2.trans hg1, fun t' => ?_⟩
    rw [hk2 t', hk1 t']
    obtain ⟨pt, pL⟩ := p
    simp only [List.lookup_cons]
    by_cases h : t' = pt
    · subst h
      cases hS : S.kind t' <;> simp [hS]
    · have h1 : (t' == pt) = false := by simpa using h
      simp only [h1, Bool.false_eq_true, ite_false]
      cases hS : S.kind pt <;> simp

/-- closed form of a run of `add_node` calls over duplicate-free keys starting without nodes -/
theorem foldl_addNodeS (ps : List (Nat × Attr)) (S : AG) (hn : (ps.map (·.1)).Nodup)
    (hnode : ∀ x ∈ ps.map (·.1), S.nattr x = AAttr.empty) :
    let S' := ps.foldl (fun S p => S.addNodeS p.1 p.2) S
    S'.admg = S.admg ∧ S'.kind = S.kind ∧ S'.edge = S.edge ∧ S'.eattr = S.eattr ∧ S'.gattr = S.gattr ∧
    (∀ x, S'.node x = (S.node x || (ps.map (·.1)).contains x)) ∧
    (∀ x, S'.nattr x = match List.lookup x ps with | some a => attrOf (some a) | none => S.nattr x) := by
  induction ps generalizing S with
  | nil => exact ⟨rfl, rfl, rfl, rfl, rfl, fun x => by simp, fun x => rfl⟩
  | cons p ps ih =>
    obtain ⟨v, a⟩ := p
    simp only [List.map_cons, List.nodup_cons] at hn
    have hS1 : ∀ x ∈ ps.map (·.1), (S.addNodeS v a).nattr x = AAttr.empty := by
      intro x hx
      have hxv : x ≠ v := fun h => hn.1 (h ▸ hx)
      have : (x == v) = false := by simpa using hxv
      simp only [addNodeS, this, Bool.false_eq_true, ite_false]
      exact hnode x (by simp only [List.map_cons, List.mem_cons]; exact Or.inr hx)
    obtain ⟨h1, h2, h3, h4, h5, h6, h7⟩ := ih (S.addNodeS v a) hn.2 hS1
    simp only [List.foldl_cons]
    refine ⟨h1, h2, h3, h4, h5, fun x => ?_, fun x => ?_⟩
    · rw [h6 x]; simp only [addNodeS, List.map_cons, List.contains_cons, Bool.or_assoc]
    · rw [h7 x]
      simp only [List.lookup_cons]
      by_cases hx : x = v
      · subst hx
        have : List.lookup x ps = none := MEG.lookup_none_of_not_mem hn.1
        simp only [this, beq_self_eq_true, addNodeS, ite_true]
        rw [hnode x (by simp)]
        funext k; simp [AAttr.upd, attrOf, AAttr.empty]
      · have : (x == v) = false := by simpa using hx
        simp only [this, addNodeS, Bool.false_eq_true, ite_false]

end AG
end C02
