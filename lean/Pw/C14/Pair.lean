import Pw.C14.Spec

/-! # C14 — pair level: complete finite tables, proved by `decide`

For every class, format and documented table entry `(p, x, y)` (configuration `p` of the ordered
pair `(a,b)`, cells `x = M[a,b]`, `y = M[b,a]`):

* the exporter's per-pair code is `(x, y)` (documented code points),
* the importer's `add_edge` calls for that pair, in whatever order the two orientations of the pair
  are visited and however often, never raise and end in exactly `p`.

These are the inputs of the lifting theorems in `Lift.lean`. -/

namespace C14

/-- the documented table extended by the non-adjacent pair -/
def tableZ (c : Cls) (f : Fmt) : List (PB × Int × Int) := (PB.empty, 0, 0) :: table c f

def PB.or (p q : PB) : PB :=
  ⟨p.duv || q.duv, p.dvu || q.dvu, p.bi || q.bi, p.un || q.un, p.cuv || q.cuv, p.cvu || q.cvu⟩

instance : DecidableEq Cls := inferInstance

def allCls : List Cls := [.admg, .cpdag, .pag]
theorem mem_allCls (c : Cls) : c ∈ allCls := by cases c <;> simp [allCls]
def allBools : List Bool := [false, true]
theorem mem_allBools (b : Bool) : b ∈ allBools := by cases b <;> simp [allBools]

/-! ## tables are consistent -/

/-- swapping the pair swaps the cells; cells determine the configuration -/
theorem tableZ_swap_closed : ∀ c ∈ allCls, ∀ f ∈ [Fmt.numpy, .clearn, .pcalg], ∀ e ∈ tableZ c f,
    (e.1.swap, e.2.2, e.2.1) ∈ tableZ c f := by decide

theorem tableZ_cells_inj : ∀ c ∈ allCls, ∀ f ∈ [Fmt.numpy, .clearn, .pcalg], ∀ e ∈ tableZ c f, ∀ e' ∈ tableZ c f,
    e.2 = e'.2 → e.1 = e'.1 := by decide

theorem tableZ_cfg_inj : ∀ c ∈ allCls, ∀ f ∈ [Fmt.numpy, .clearn, .pcalg], ∀ e ∈ tableZ c f, ∀ e' ∈ tableZ c f,
    e.1 = e'.1 → e.2 = e'.2 := by decide

/-- table configurations only use layers of the class, and are admitted by the class -/
theorem table_mask : ∀ c ∈ allCls, ∀ f ∈ [Fmt.numpy, .clearn, .pcalg], ∀ e ∈ tableZ c f, e.1.mask c = e.1 := by decide

theorem table_admitted : ∀ c ∈ allCls, ∀ f ∈ [Fmt.numpy, .clearn, .pcalg], ∀ e ∈ table c f, e.1 ∈ admits c := by decide

/-- every configuration a class admits is expressible in numpy, causal-learn and (CPDAG, PAG) pcalg -/
theorem admits_expressible : ∀ c ∈ allCls, ∀ p ∈ admits c,
    expressible c .numpy p = true ∧ expressible c .clearn p = true ∧ (c ≠ .admg → expressible c .pcalg p = true) := by
  decide

/-! ## causal-learn -/

/-- export: documented endpoint codes -/
theorem clEncPair_table : ∀ c ∈ allCls, ∀ e ∈ table c .clearn, clEncPair (e.1.mask c) = some (e.2.1, e.2.2) := by decide

theorem clEncPair_adjacent : ∀ c ∈ allCls, ∀ e ∈ table c .clearn, (e.1.mask c).adjacent = true := by decide

/-- state of a pair during `clearn_to_graph`: target once any orientation has been visited -/
def fAny (p : PB) (s t : Bool) : PB := if s || t then p else PB.empty

/-- import: a visit of the pair, from any reachable state, succeeds and yields the target -/
theorem clDecPair_visit : ∀ c ∈ allCls, ∀ e ∈ tableZ c .clearn, ∀ s ∈ allBools, ∀ t ∈ allBools,
    ∃ ops, clDecPair c e.2.1 e.2.2 = some ops ∧ applyOps c (fAny e.1 s t) ops = some (fAny e.1 true t) := by
  decide

theorem clValid_table : ∀ c ∈ allCls, ∀ e ∈ tableZ c .clearn, clValid e.2.1 = true ∧ clValid e.2.2 = true := by decide

/-! ## pcalg -/

/-- export of a pair: causal-learn endpoints, transposed, remapped -/
def pcEncPair (c : Cls) (p : PB) : Option (Int × Int) := (clEncPair p).map fun e => pcRemap c e.2 e.1

theorem pcEncPair_table : ∀ c ∈ [Cls.cpdag, .pag], ∀ e ∈ table c .pcalg, pcEncPair c (e.1.mask c) = some (e.2.1, e.2.2) := by
  decide

/-- remapping the swapped pair gives the swapped cells (the visiting orientation is irrelevant) -/
theorem pcRemap_swap : ∀ c ∈ [Cls.cpdag, .pag], ∀ e ∈ table c .clearn,
    pcRemap c e.2.1 e.2.2 = ((pcRemap c e.2.2 e.2.1).2, (pcRemap c e.2.2 e.2.1).1) := by decide

theorem clearn_table_nonzero : ∀ c ∈ allCls, ∀ e ∈ table c .clearn, e.2.1 ≠ 0 ∧ e.2.2 ≠ 0 := by decide

/-- import: the single visit of a pair (at its first non-zero cell) yields the target -/
theorem pcDecPair_visit : ∀ c ∈ [Cls.cpdag, .pag], ∀ e ∈ tableZ c .pcalg,
    e.2.1 ≠ 0 → applyOps c PB.empty (pcDecPair c e.2.1 e.2.2) = some e.1 := by decide

theorem pcalg_table_nonzero : ∀ c ∈ [Cls.cpdag, .pag], ∀ e ∈ table c .pcalg, e.2.1 ≠ 0 ∨ e.2.2 ≠ 0 := by decide

/-! ## numpy -/

theorem npEncCell_table : ∀ c ∈ allCls, ∀ e ∈ tableZ c .numpy,
    npEncCell (e.1.mask c) = e.2.1 ∧ npEncCell (e.1.mask c).swap = e.2.2 := by decide

/-- ops of one cell -/
def npE (x : Int) : Option (List Op) :=
  if x == 0 then some [] else (npDecCell x).map fun ts => ts.map fun t => ⟨false, t⟩

/-- bits a cell contributes (edges u→v) -/
def npHalf (x : Int) : PB := ((npE x).getD []).foldl (fun p o => p.set o.t) PB.empty

/-- state of a pair during `numpy_to_graph`: contributions of the cells visited so far -/
def fNp (x y : Int) (s t : Bool) : PB :=
  (if s then npHalf x else PB.empty).or (if t then (npHalf y).swap else PB.empty)

theorem npDec_visit : ∀ c ∈ allCls, ∀ e ∈ tableZ c .numpy, ∀ s ∈ allBools, ∀ t ∈ allBools,
    ∃ ops, npE e.2.1 = some ops ∧ applyOps c (fNp e.2.1 e.2.2 s t) ops = some (fNp e.2.1 e.2.2 true t) := by
  decide

theorem npDec_final : ∀ c ∈ allCls, ∀ e ∈ tableZ c .numpy, fNp e.2.1 e.2.2 true true = e.1 := by decide

/-! ## Tetrad -/

def tetChars (e : TM × TM) : List Char := [e.1.left, '-', e.2.right]

/-- documented edge strings -/
def tetTableC : List (PB × List (List Char)) :=
  [(cRight, [['-', '-', '>']]), (cLeft, [['<', '-', '-']]), (cBi, [['<', '-', '>']]), (cUn, [['-', '-', '-']]),
   (cCC, [['o', '-', 'o']]), (cCR, [['o', '-', '>']]), (cLC, [['<', '-', 'o']]), (cTC, [['-', '-', 'o']]),
   (cCT, [['o', '-', '-']]), (cRightBi, [['-', '-', '>'], ['<', '-', '>']]), (cLeftBi, [['<', '-', '-'], ['<', '-', '>']]),
   (cRightUn, [['-', '-', '>'], ['-', '-', '-']]), (cLeftUn, [['<', '-', '-'], ['-', '-', '-']]),
   (cBiUn, [['<', '-', '>'], ['-', '-', '-']])]

theorem tetPairEdges_table : ∀ e ∈ tetTableC, (tetPairEdges e.1).map tetChars = e.2 := by decide

/-- ops of all lines of a pair, read in the written orientation -/
def tetOps (p : PB) : List Op := (tetPairEdges p).flatMap fun e => tetDecLine e.1.left e.2.right

/-- reading the lines written for a pair, from the empty pair or again from the result, yields it -/
theorem tet_visit : ∀ c ∈ allCls, ∀ p ∈ PB.empty :: admits c, ∀ s ∈ allBools, ∀ t ∈ allBools,
    applyOps c (fAny (p.mask c) s t) (tetOps (p.mask c)) = some (fAny (p.mask c) true t) := by decide

/-- a line may be written from either side: `b <flipped> a` is read like `a <e> b` -/
theorem tetDecLine_flip : ∀ c ∈ allCls, ∀ m1 ∈ [TM.tail, .arrow, .circle], ∀ m2 ∈ [TM.tail, .arrow, .circle],
    ∀ a b c' d e f : Bool,
    (applyOps c (PB.swap ⟨a, b, c', d, e, f⟩) (tetDecLine m2.left m1.right)).map PB.swap =
      applyOps c ⟨a, b, c', d, e, f⟩ (tetDecLine m1.left m2.right) := by decide

/-! ## documented code points, literally -/

/-- pcalg PAG: `amat[a,b] = 2, amat[b,a] = 3` ⇔ `a --> b` -/
theorem pcalg_pag_directed_codepoint :
    pcEncPair .pag cRight = some (2, 3) ∧ applyOps .pag PB.empty (pcDecPair .pag 2 3) = some cRight := by decide
/-- pcalg PAG: `amat[a,b] = 1, amat[b,a] = 3` ⇔ `a --o b`; `2,2` ⇔ `a <-> b` -/
theorem pcalg_pag_circle_codepoint :
    pcEncPair .pag cTC = some (1, 3) ∧ applyOps .pag PB.empty (pcDecPair .pag 1 3) = some cTC ∧
    pcEncPair .pag cBi = some (2, 2) ∧ applyOps .pag PB.empty (pcDecPair .pag 2 2) = some cBi := by decide
/-- pcalg CPDAG: `amat[a,b] = 0, amat[b,a] = 1` ⇔ `a --> b`; `1,1` ⇔ `a --- b` -/
theorem pcalg_cpdag_codepoints :
    pcEncPair .cpdag cRight = some (0, 1) ∧ (applyOps .cpdag PB.empty.swap (pcDecPair .cpdag 1 0)).map PB.swap = some cRight ∧
    pcEncPair .cpdag cUn = some (1, 1) ∧ applyOps .cpdag PB.empty (pcDecPair .cpdag 1 1) = some cUn := by decide
/-- numpy: `21` = directed + bidirected, `20` on the other side (docstring example) -/
theorem numpy_bow_codepoint : npEncCell cRightBi = 21 ∧ npEncCell cRightBi.swap = 20 ∧ fNp 21 20 true true = cRightBi := by
  decide
/-- causal-learn: `M[a,b] = -1` (tail at a), `M[b,a] = 1` (arrow at b) ⇔ `a --> b` -/
theorem clearn_directed_codepoint : clEncPair cRight = some (-1, 1) ∧ clDecPair .admg (-1) 1 = some [⟨false, .directed⟩] := by
  decide

end C14
