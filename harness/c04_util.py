"""Helpers shared by the C04 and C05 harnesses (DAG / PDAG generators, building the implementation's
graphs from encoded cases, canonical strings)."""
import contextlib
import io
import itertools

from . import common as C

DAG_STATES = [(), ("D>",), ("D<",)]
PDAG_STATES = [(), ("D>",), ("D<",), ("U",)]


def all_dags(n):
    for g in C.enum_graphs(n, DAG_STATES):
        if C.is_acyclic(n, g["D"]):
            yield g


def all_pdags(n):
    for g in C.enum_graphs(n, PDAG_STATES):
        if C.is_acyclic(n, g["D"]):
            yield g


def rand_dag(rng, n, density):
    perm = list(range(n))
    rng.shuffle(perm)
    g = C.g_new(n)
    for i in range(n):
        for j in range(i + 1, n):
            if rng.random() < density:
                g["D"].append([perm[i], perm[j]])
    rng.shuffle(g["D"])
    return g


def with_order(rng, g):
    """same graph with shuffled node / edge insertion order"""
    h = C.shuffled_graph(rng, g)
    return h


def build_digraph(g, lab):
    import networkx as nx
    G = nx.DiGraph()
    for v in C.g_nodes(g):
        G.add_node(lab(v))
    for a, b in g["D"]:
        G.add_edge(lab(a), lab(b))
    return G


def build_pdag(g, lab, cls="mixed"):
    import networkx as nx
    import pywhy_graphs.networkx as pywhy_nx
    if cls == "cpdag":
        from pywhy_graphs import CPDAG
        G = CPDAG()
    elif (len(g["D"]) + 2 * len(g["U"]) + g["n"]) % 3 == 0:
        # the layers are built separately (every label object created anew for each layer) and handed to the
        # constructor; both layers know every node
        dg, ug = nx.DiGraph(), nx.Graph()
        for v in C.g_nodes(g):
            dg.add_node(lab(v))
        for v in reversed(C.g_nodes(g)):
            ug.add_node(lab(v))
        dg.add_edges_from((lab(a), lab(b)) for a, b in g["D"])
        ug.add_edges_from((lab(a), lab(b)) for a, b in g["U"])
        return pywhy_nx.MixedEdgeGraph(graphs=[dg, ug], edge_types=["directed", "undirected"])
    else:
        G = pywhy_nx.MixedEdgeGraph(graphs=[nx.DiGraph(), nx.Graph()], edge_types=["directed", "undirected"])
    for v in C.g_nodes(g):
        G.add_node(lab(v))
    # edges in the encoded order, layers interleaved as listed in g.get("E") if present
    for a, b in g["D"]:
        G.add_edge(lab(a), lab(b), edge_type="directed")
    for a, b in g["U"]:
        G.add_edge(lab(a), lab(b), edge_type="undirected")
    return G


def mixed_canon(G, lab):
    """canonical string of a graph with directed + undirected layers, in indices"""
    gs = G.get_graphs()
    D = [(lab.inv(u), lab.inv(v)) for u, v in gs["directed"].edges]
    U = [(lab.inv(u), lab.inv(v)) for u, v in gs["undirected"].edges]
    extra = sorted(k for k, gr in gs.items() if k not in ("directed", "undirected") and gr.number_of_edges())
    s = C.canon_graph([lab.inv(v) for v in G.nodes], D=D, U=U)
    return s + (" extra=" + ",".join(extra) if extra else "")


def pdag_snapshot(G):
    return C.snapshot(G)


@contextlib.contextmanager
def capture_stdout():
    buf = io.StringIO()
    with contextlib.redirect_stdout(buf):
        yield buf


def topo_indices(G, lab):
    import networkx as nx
    return [lab.inv(v) for v in nx.topological_sort(G)]


def pdag_line(fn, g, extra=""):
    head = ("N=" + ",".join(map(str, g["N"]))) if "N" in g else ("n=%d" % g["n"])
    return "%s %s D=%s U=%s%s" % (fn, head, C.fmt_pairs(g["D"]), C.fmt_pairs(g.get("U", [])), (" " + extra) if extra else "")
