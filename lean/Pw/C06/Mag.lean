import Pw.C06.Proofs
open Closure

/-! # C06: structure theorem for `dag_to_mag`

For every graph with directed (and possibly bidirected) edges only and no 2-cycle – in particular every
DAG – and all `L`, `S`: the model's result has node set `V \ (L ∪ S)`; two remaining nodes are adjacent
iff an inducing path relative to `⟨L,S⟩` joins them; the mark at `b` on the edge `a ~ b` is a tail iff
`b` is a strict ancestor of a member of `S ∪ {a}`.  (That adjacency coincides with inseparability and
that the result represents the marginal/conditional independence model is Richardson–Spirtes, T5:
tested at run time against the all-subsets decider, not proved.) -/
namespace C06
open MG

variable {G : MG} {L S : List Nat}

theorem mem_dedup : ∀ (l acc : List (Nat × Nat)) (p : Nat × Nat),
    (p ∈ dedupUnordered acc l ∨ (p.2, p.1) ∈ dedupUnordered acc l) ↔
      (p ∈ acc ∨ (p.2, p.1) ∈ acc ∨ p ∈ l ∨ (p.2, p.1) ∈ l)
  | [], acc, p => by simp [dedupUnordered]
  | q :: rest, acc, p => by
    unfold dedupUnordered
    by_cases hq : q ∈ acc ∨ (q.2, q.1) ∈ acc
    · rw [if_pos hq, mem_dedup rest acc p]
      simp only [List.mem_cons]
      constructor
      · rintro (h | h | h | h)
        · exact Or.inl h
        · exact Or.inr (Or.inl h)
        · exact Or.inr (Or.inr (Or.inl (Or.inr h)))
        · exact Or.inr (Or.inr (Or.inr (Or.inr h)))
      · rintro (h | h | (rfl | h) | (h | h))
        · exact Or.inl h
        · exact Or.inr (Or.inl h)
        · rcases hq with hq | hq
          · exact Or.inl hq
          · exact Or.inr (Or.inl hq)
        · exact Or.inr (Or.inr (Or.inl h))
        · rw [← h] at hq
          rcases hq with hq | hq
          · exact Or.inr (Or.inl hq)
          · exact Or.inl hq
        · exact Or.inr (Or.inr (Or.inr h))
    · rw [if_neg hq, mem_dedup rest (q :: acc) p]
      simp only [List.mem_cons]
      constructor
      · rintro ((h | h) | (h | h) | h | h)
        · exact Or.inr (Or.inr (Or.inl (Or.inl h)))
        · exact Or.inl h
        · exact Or.inr (Or.inr (Or.inr (Or.inl h)))
        · exact Or.inr (Or.inl h)
        · exact Or.inr (Or.inr (Or.inl (Or.inr h)))
        · exact Or.inr (Or.inr (Or.inr (Or.inr h)))
      · rintro (h | h | (h | h) | (h | h))
        · exact Or.inl (Or.inr h)
        · exact Or.inr (Or.inl (Or.inr h))
        · exact Or.inl (Or.inl h)
        · exact Or.inr (Or.inr (Or.inl h))
        · exact Or.inr (Or.inl (Or.inl h))
        · exact Or.inr (Or.inr (Or.inr h))

/-- `inducing_path(...)[0]` for arbitrary distinct nodes: the guard plus the specification -/
theorem hasInd_full (hwf : G.WF) (hun : G.un = []) (hcirc : G.circ = [])
    (no2 : ∀ a b, (a, b) ∈ G.dir → (b, a) ∉ G.dir) {a b : Nat}
    (ha : a ∈ G.nodes) (hb : b ∈ G.nodes) (hab : a ≠ b) :
    hasInd G L S a b = true ↔
      (a ∉ L ∧ a ∉ S ∧ b ∉ L ∧ b ∉ S ∧ HasInducingPath G L S a b) := by
  by_cases hg : a ∈ L ∨ b ∈ L ∨ a ∈ S ∨ b ∈ S
  · have : hasInd G L S a b = false := by
      unfold hasInd; rw [inducingPath_guard ha hb hab hg]
    rw [this]
    constructor
    · intro h; cases h
    · rintro ⟨h1, h2, h3, h4, _⟩
      rcases hg with h | h | h | h
      · exact absurd h h1
      · exact absurd h h3
      · exact absurd h h2
      · exact absurd h h4
  · have h1 : a ∉ L := fun h => hg (Or.inl h)
    have h2 : b ∉ L := fun h => hg (Or.inr (Or.inl h))
    have h3 : a ∉ S := fun h => hg (Or.inr (Or.inr (Or.inl h)))
    have h4 : b ∉ S := fun h => hg (Or.inr (Or.inr (Or.inr h)))
    have dom : Dom G L S a b := ⟨hwf, hun, hcirc, no2, ha, hb, hab, h1, h2, h3, h4⟩
    rw [hasInd_iff dom]
    exact ⟨fun h => ⟨h1, h3, h2, h4, h⟩, fun h => h.2.2.2.2⟩

/-- the relation "adjacent in the MAG" collected by the first double loop -/
def AdjSpec (G : MG) (L S : List Nat) (a b : Nat) : Prop :=
  a ∈ G.nodes ∧ b ∈ G.nodes ∧ a ≠ b ∧ (HasInducingPath G L S a b ∨ HasInducingPath G L S b a) ∧
    a ∉ L ∧ a ∉ S ∧ b ∉ L ∧ b ∉ S

theorem mem_adjPairs (hwf : G.WF) (hun : G.un = []) (hcirc : G.circ = [])
    (no2 : ∀ a b, (a, b) ∈ G.dir → (b, a) ∉ G.dir) (a b : Nat) :
    ((a, b) ∈ adjPairs G L S ∨ (b, a) ∈ adjPairs G L S) ↔ AdjSpec G L S a b := by
  unfold adjPairs
  rw [mem_dedup _ [] (a, b)]
  simp only [List.not_mem_nil, false_or, List.mem_flatMap, List.mem_map, List.mem_filter,
    decide_eq_true_eq, Prod.mk.injEq]
  unfold AdjSpec
  constructor
  · rintro (⟨s, hs, d, ⟨⟨hd, hne⟩, hind⟩, rfl, rfl⟩ | ⟨s, hs, d, ⟨⟨hd, hne⟩, hind⟩, rfl, rfl⟩)
    · obtain ⟨h1, h2, h3, h4, h5⟩ := (hasInd_full hwf hun hcirc no2 hs hd (Ne.symm hne)).mp hind
      exact ⟨hs, hd, Ne.symm hne, Or.inl h5, h1, h2, h3, h4⟩
    · obtain ⟨h1, h2, h3, h4, h5⟩ := (hasInd_full hwf hun hcirc no2 hs hd (Ne.symm hne)).mp hind
      exact ⟨hd, hs, hne, Or.inr h5, h3, h4, h1, h2⟩
  · rintro ⟨ha, hb, hab, (h | h), h1, h2, h3, h4⟩
    · exact Or.inl ⟨a, ha, b, ⟨⟨hb, Ne.symm hab⟩,
        (hasInd_full hwf hun hcirc no2 ha hb hab).mpr ⟨h1, h2, h3, h4, h⟩⟩, rfl, rfl⟩
    · exact Or.inr ⟨b, hb, a, ⟨⟨ha, hab⟩,
        (hasInd_full hwf hun hcirc no2 hb ha (Ne.symm hab)).mpr ⟨h3, h4, h1, h2, h⟩⟩, rfl, rfl⟩

/-- `a in ansB` of the code is the specification's "tail at a" -/
theorem mem_ansOf (hwf : G.WF) {a b : Nat} : a ∈ ansOf G S b ↔ TailAt G S b a := by
  unfold ansOf TailAt SAncOfSet
  simp only [List.mem_flatMap, mem_ancStrict hwf]
  constructor
  · rintro ⟨t, ht, h⟩; exact ⟨t, ht, sanc_first_iff_last.mpr h⟩
  · rintro ⟨t, ht, h⟩; exact ⟨t, ht, sanc_first_iff_last.mp h⟩

/-- **C06, dag_to_mag, structural clause** (no size bound). -/
theorem dagToMag_structure (hwf : G.WF) (hun : G.un = []) (hcirc : G.circ = [])
    (no2 : ∀ a b, (a, b) ∈ G.dir → (b, a) ∉ G.dir) {M : MG} (h : dagToMag G L S = .ok M) :
    MagStructure G L S M := by
  unfold dagToMag at h
  have hg : ¬ (G.un ≠ [] ∨ G.circ ≠ []) := by
    rintro (h | h)
    · exact h hun
    · exact h hcirc
  rw [if_neg hg] at h
  injection h with h
  subst h
  have hadj := mem_adjPairs (L := L) (S := S) hwf hun hcirc no2
  refine ⟨?_, ?_, ?_, ?_, rfl⟩
  · intro v
    simp only [List.mem_filter, Bool.and_eq_true, decide_eq_true_eq]
  · intro a b
    simp only [List.mem_filterMap]
    constructor
    · rintro ⟨p, hp, hk⟩
      have hk1 : kindOf G S p = (decide (p.1 ∈ ansOf G S p.2), decide (p.2 ∈ ansOf G S p.1)) := rfl
      by_cases c1 : p.1 ∈ ansOf G S p.2 <;> by_cases c2 : p.2 ∈ ansOf G S p.1 <;>
        simp only [hk1, c1, c2, decide_true, decide_false] at hk
      · cases hk
      · injection hk with hk; injection hk with e1 e2; subst e1; subst e2
        obtain ⟨h1, h2, h3, h4, h5, h6, h7, h8⟩ := (hadj p.1 p.2).mp (Or.inl hp)
        exact ⟨h1, h2, h3, h4, h5, h6, h7, h8, (mem_ansOf hwf).mp c1, fun h => c2 ((mem_ansOf hwf).mpr h)⟩
      · injection hk with hk; injection hk with e1 e2; subst e1; subst e2
        obtain ⟨h1, h2, h3, h4, h5, h6, h7, h8⟩ := (hadj p.2 p.1).mp (Or.inr hp)
        exact ⟨h1, h2, h3, h4, h5, h6, h7, h8, (mem_ansOf hwf).mp c2, fun h => c1 ((mem_ansOf hwf).mpr h)⟩
      · cases hk
    · rintro ⟨h1, h2, h3, h4, h5, h6, h7, h8, ht, hnt⟩
      have c1 : a ∈ ansOf G S b := (mem_ansOf hwf).mpr ht
      have c2 : b ∉ ansOf G S a := fun h => hnt ((mem_ansOf hwf).mp h)
      rcases (hadj a b).mpr ⟨h1, h2, h3, h4, h5, h6, h7, h8⟩ with hp | hp
      · exact ⟨(a, b), hp, by simp [kindOf, c1, c2]⟩
      · exact ⟨(b, a), hp, by simp [kindOf, c1, c2]⟩
  · intro a b
    simp only [List.mem_map, List.mem_filter, beq_iff_eq, Prod.mk.injEq]
    constructor
    · rintro (⟨p, ⟨hp, hk⟩, rfl, rfl⟩ | ⟨p, ⟨hp, hk⟩, rfl, rfl⟩)
      · simp only [kindOf, Prod.mk.injEq, decide_eq_false_iff_not] at hk
        obtain ⟨h1, h2, h3, h4, h5, h6, h7, h8⟩ := (hadj p.2 p.1).mp (Or.inr hp)
        exact ⟨h1, h2, h3, h4, h5, h6, h7, h8, fun h => hk.2 ((mem_ansOf hwf).mpr h),
          fun h => hk.1 ((mem_ansOf hwf).mpr h)⟩
      · simp only [kindOf, Prod.mk.injEq, decide_eq_false_iff_not] at hk
        obtain ⟨h1, h2, h3, h4, h5, h6, h7, h8⟩ := (hadj p.1 p.2).mp (Or.inl hp)
        exact ⟨h1, h2, h3, h4, h5, h6, h7, h8, fun h => hk.1 ((mem_ansOf hwf).mpr h),
          fun h => hk.2 ((mem_ansOf hwf).mpr h)⟩
    · rintro ⟨h1, h2, h3, h4, h5, h6, h7, h8, hnt1, hnt2⟩
      have c1 : a ∉ ansOf G S b := fun h => hnt1 ((mem_ansOf hwf).mp h)
      have c2 : b ∉ ansOf G S a := fun h => hnt2 ((mem_ansOf hwf).mp h)
      rcases (hadj a b).mpr ⟨h1, h2, h3, h4, h5, h6, h7, h8⟩ with hp | hp
      · exact Or.inr ⟨(a, b), ⟨hp, by simp [kindOf, c1, c2]⟩, rfl, rfl⟩
      · exact Or.inl ⟨(b, a), ⟨hp, by simp [kindOf, c1, c2]⟩, rfl, rfl⟩
  · intro a b
    simp only [List.mem_map, List.mem_filter, beq_iff_eq, Prod.mk.injEq]
    constructor
    · rintro (⟨p, ⟨hp, hk⟩, rfl, rfl⟩ | ⟨p, ⟨hp, hk⟩, rfl, rfl⟩)
      · simp only [kindOf, Prod.mk.injEq, decide_eq_true_eq] at hk
        obtain ⟨h1, h2, h3, h4, h5, h6, h7, h8⟩ := (hadj p.2 p.1).mp (Or.inr hp)
        exact ⟨h1, h2, h3, h4, h5, h6, h7, h8, (mem_ansOf hwf).mp hk.2, (mem_ansOf hwf).mp hk.1⟩
      · simp only [kindOf, Prod.mk.injEq, decide_eq_true_eq] at hk
        obtain ⟨h1, h2, h3, h4, h5, h6, h7, h8⟩ := (hadj p.1 p.2).mp (Or.inl hp)
        exact ⟨h1, h2, h3, h4, h5, h6, h7, h8, (mem_ansOf hwf).mp hk.1, (mem_ansOf hwf).mp hk.2⟩
    · rintro ⟨h1, h2, h3, h4, h5, h6, h7, h8, ht1, ht2⟩
      have c1 : a ∈ ansOf G S b := (mem_ansOf hwf).mpr ht1
      have c2 : b ∈ ansOf G S a := (mem_ansOf hwf).mpr ht2
      rcases (hadj a b).mpr ⟨h1, h2, h3, h4, h5, h6, h7, h8⟩ with hp | hp
      · exact Or.inr ⟨(a, b), ⟨hp, by simp [kindOf, c1, c2]⟩, rfl, rfl⟩
      · exact Or.inl ⟨(b, a), ⟨hp, by simp [kindOf, c1, c2]⟩, rfl, rfl⟩

/-- `dag_to_mag` does not fail on graphs without undirected/circle edges -/
theorem dagToMag_ok (hun : G.un = []) (hcirc : G.circ = []) : ∃ M, dagToMag G L S = .ok M := by
  unfold dagToMag
  have hg : ¬ (G.un ≠ [] ∨ G.circ ≠ []) := by
    rintro (h | h)
    · exact h hun
    · exact h hcirc
  rw [if_neg hg]
  exact ⟨_, rfl⟩

/-- non-vacuity: the DAG `0 <- 1 -> 2 <- 3, 2 -> 4` of `exG` satisfies the hypotheses -/
example : ∃ M, dagToMag exG [1] [4] = .ok M ∧ MagStructure exG [1] [4] M := by
  obtain ⟨M, hM⟩ := dagToMag_ok (G := exG) (L := [1]) (S := [4]) rfl rfl
  exact ⟨M, hM, dagToMag_structure exG_dom.wf rfl rfl exG_dom.no2 hM⟩

end C06
