import Pw.C16.Possible

/-! # C16: the yielded list is a permutation of the specification's list ("once each and nothing else") -/
namespace C16

theorem nodup_extend (G : MG) (hn : G.nodes.Nodup) : ∀ (fuel cur : Nat) (before : List Nat),
    (extend G fuel cur before).Nodup
  | 0, _, _ => by simp [extend]
  | fuel + 1, cur, before => by
    rw [extend, List.nodup_cons]
    constructor
    · -- the current path is shorter than every extension
      intro hmem
      rw [List.mem_flatMap] at hmem
      obtain ⟨w, _, hp⟩ := hmem
      obtain ⟨ext, he, -⟩ := (mem_extend G fuel w (cur :: before) _).mp hp
      have := congrArg List.length he
      simp at this
    · rw [List.Nodup, List.pairwise_flatMap]
      refine ⟨fun w _ => nodup_extend G hn fuel w (cur :: before), ?_⟩
      refine List.Pairwise.imp ?_ (List.Pairwise.filter _ (nodup_nbrs hn cur))
      intro a b hab x hx y hy hxy
      obtain ⟨e1, rfl, -⟩ := (mem_extend G fuel a (cur :: before) x).mp hx
      obtain ⟨e2, h2, -⟩ := (mem_extend G fuel b (cur :: before) y).mp hy
      rw [h2] at hxy
      simp only [List.reverse_cons, List.append_assoc, List.cons_append, List.nil_append] at hxy
      have := List.append_cancel_left hxy
      simp only [List.cons.injEq] at this
      exact hab this.2.1

theorem nodup_simplePaths {G : MG} (hn : G.nodes.Nodup) (s : Nat) : (simplePaths G s).Nodup :=
  nodup_extend G hn _ _ _

theorem nodup_wantedDec {G : MG} (hn : G.nodes.Nodup) (s : Nat) (T : List Nat) (cutoff : Option Nat) :
    (wantedDec G s T cutoff).Nodup :=
  List.Pairwise.filter _ (nodup_simplePaths hn s)

/-- ★ **C16, first sentence, as one statement**: the list yielded by the model is a permutation of the
    duplicate-free list of all wanted paths – each wanted path once, nothing else -/
theorem allSemiDirectedPaths_perm_wantedDec {G : MG} (hn : G.nodes.Nodup) {s : Nat} {T : List Nat}
    {cutoff : Option Nat} {l : List (List Nat)} (hs : s ∈ G.nodes) (hsT : s ∉ T)
    (h : allSemiDirectedPaths G s T cutoff = some l) : l.Perm (wantedDec G s T cutoff) :=
  (List.perm_ext_iff_of_nodup (nodup_allSemiDirectedPaths hn h) (nodup_wantedDec hn s T cutoff)).mpr
    (allSemiDirectedPaths_eq_wantedDec hs hsT h)

/-- ★ "exactly the paths for which `is_semi_directed_path` is True": the yielded paths are the node lists
    accepted by the model of `is_semi_directed_path` that start at `s`, end in `T` and respect the cutoff -/
theorem mem_allSemiDirectedPaths_iff_isSemiDirectedPath {G : MG} (hc : CircOK G) {s : Nat} {T : List Nat}
    {cutoff : Option Nat} {l : List (List Nat)} (hs : s ∈ G.nodes) (hsT : s ∉ T)
    (h : allSemiDirectedPaths G s T cutoff = some l) (p : List Nat) :
    p ∈ l ↔ isSemiDirectedPath G p = true ∧ p.head? = some s ∧ (∃ t ∈ T, p.getLast? = some t) ∧
      2 ≤ p.length ∧ p.length ≤ effCutoff G cutoff + 1 := by
  rw [mem_allSemiDirectedPaths hs hsT h, isSemiDirectedPath_iff hc]
  rfl

end C16
