"""C07: valid_mag / is_maximal decide the MAG definition.

One Lean request `vm <graph>` answers, for the same graph:
  validMag      the model of valid_mag           (proved: = noUndirected & Simple & Acyclic & Ancestral & no inducing path
                                                  between non-adjacent nodes – lean/Pw/C07/Proofs.lean)
  validMagDec   the property's right-hand side decided from the definitions: maximality by enumerating ALL
                subsets of the other nodes with the proved MG.mSeparated of C01
  isMaximal / maximalDec   the same pair for is_maximal
  hasAdc / ancestralDec / hasCycle
The implementation is compared with the *Dec answers (definition); the model answers only serve to tell a
correspondence break from a violation."""
import itertools

from . import common as C
from .c06 import build_admg, _labels, chunks
from .shrink import shrink_case

PID = "C07"


def impl(case):
    from pywhy_graphs.algorithms import has_adc, is_maximal, valid_mag
    g = case["g"]
    lab = _labels(case, g)
    try:
        G = build_admg(g, lab)
    except Exception as e:
        return {"vm": "err:build:" + type(e).__name__}
    if C.warm_decide(case):
        # query, edit the same object in place, query again (see common.warmup)
        C.warmup(G, lambda: (valid_mag(G), is_maximal(G), has_adc(G)))
    before = C.snapshot(G)

    def call(f):
        try:
            r = f(G)
            return "T" if r is True else ("F" if r is False else "bad:" + repr(r)[:40])
        except Exception as e:
            return "err:" + type(e).__name__
    out = {"vm": call(valid_mag), "im": call(is_maximal), "adc": call(has_adc)}
    out["mutated"] = before != C.snapshot(G)
    return out


def line(case):
    return "vm " + C.g_line(case["g"])


def has_bow(g):
    D = set(map(tuple, g["D"]))
    return any((a, b) in D or (b, a) in D for a, b in g["B"])


KF_2CYCLE = "C07-is-maximal-directed-2-cycle"
KF_WHAT = {KF_2CYCLE: "is_maximal answers False on a graph with a directed 2-cycle (u -> v and v -> u) in which every "
                      "non-adjacent pair is m-separable: inducing_path's triple-based collider test treats the pair as "
                      "an arrowhead at both ends"}


def has_two_cycle(g):
    D = set(map(tuple, g["D"]))
    return any((b, a) in D for a, b in D)


def judge(case, got, ans):
    """-> list of (severity, kind, detail)"""
    g = case["g"]
    m_vm, d_vm, m_im, d_im, m_adc, d_anc, cyc = ans.split(" ")
    res = []
    if got["vm"] != d_vm:
        res.append(("violation", "valid_mag", "valid_mag=%s but the definition (one edge per pair, acyclic, ancestral, every "
                    "non-adjacent pair m-separable by some subset; no undirected edge) gives %s" % (got["vm"], d_vm)))
    elif got["vm"] != m_vm:
        res.append(("corr", "valid_mag-model", "model=%s decider=%s" % (m_vm, d_vm)))
    if not g["U"]:      # quantifier of the is_maximal clause: directed/bidirected edges (cyclic graphs included:
        # path-level m-separation is defined there and C07.maximalDec_iff has no acyclicity hypothesis)
        if got["im"] != d_im:
            if has_two_cycle(g) and got["im"] == "F" and d_im == "T" and m_im == "F":
                # recorded finding: with a directed 2-cycle u -> v, v -> u the triple-based collider test of
                # inducing_path reads the pair as an arrowhead at both ends (no single edge has that), so a
                # non-existent inducing path is found; the literal model does the same (its theorem excludes 2-cycles)
                res.append(("known", KF_2CYCLE, "is_maximal=F, all-subsets decider T, literal model F, graph has a directed 2-cycle"))
            else:
                res.append(("violation", "is_maximal", "is_maximal=%s but enumerating all separating sets gives %s" % (got["im"], d_im)))
        elif got["im"] != m_im:
            res.append(("corr", "is_maximal-model", "model=%s decider=%s" % (m_im, d_im)))
    # has_adc is a helper; the property only needs: True => not ancestral, and on pairs with one edge False => ancestral
    if got["adc"] == "T" and d_anc == "T":
        res.append(("corr", "has_adc", "has_adc=True on an ancestral graph"))
    if got["adc"] == "F" and d_anc == "F" and not has_bow(g) and cyc == "F":
        res.append(("corr", "has_adc", "has_adc=False although a bidirected edge joins a node and a non-parent ancestor"))
    return res


def gen(ctx):
    tier, rng = ctx["tier"], ctx["rng"]
    fams = C.Labels.FAMILIES
    i = 0
    for n in (1, 2, 3):
        for g in C.enum_graphs(n, C.ADMG_STATES_CYC + [("U",), ("U", "D>"), ("U", "B")]):
            i += 1
            yield {"g": g, "fam": fams[i % len(fams)], "src": "exh%d" % n}
    # an undirected SELF LOOP is an undirected edge too: never accepted (seen only through neighbours / edge data)
    for n in (1, 2, 3, 4):
        for t in range(6):
            g = C.rand_dag_order_graph(rng, n, [("D>",), ("D>",), ("B",)], density=1.0 if t % 2 == 0 else 0.6)
            g = make_ancestral(g) if n > 1 else g
            g["U"] = [[t % n, t % n]]
            i += 1
            yield {"g": g, "fam": fams[i % len(fams)], "src": "undirected-self-loop"}
    keep = 1.0      # all 46656 four-node graphs in both tiers
    for g in C.enum_graphs(4, C.ADMG_STATES):
        if keep < 1.0 and rng.random() > keep:
            continue
        i += 1
        yield {"g": g, "fam": ("int", "bigint", "str", "tuple", "falsy")[i % 5], "src": "exh4" if keep == 1.0 else "smp4"}
    N = 4000 if tier == "quick" else 150000
    for j in range(N):
        n = rng.choice((5, 5, 5, 6)) if tier == "quick" else rng.choice((5, 5, 6, 6, 7))
        k = rng.random()
        dens = rng.choice((0.3, 0.5, 0.7, 0.9))
        if k < 0.45:    # ancestral-ish: directed edges along an order, bidirected only between non-comparable-looking pairs
            g = C.rand_dag_order_graph(rng, n, [("D>",), ("D>",), ("B",)], density=dens)
            if rng.random() < 0.7:
                g = make_ancestral(g)
        elif k < 0.7:
            g = C.rand_dag_order_graph(rng, n, C.ADMG_STATES[1:], density=dens)
        elif k < 0.78:
            g = C.rand_graph(rng, n, C.ADMG_STATES_CYC, density=dens)
        elif k < 0.86:  # undirected-edge stream (rejection clause)
            g = C.rand_dag_order_graph(rng, n, [("D>",), ("B",), ("U",)], density=dens)
            if not g["U"]:
                a, b = rng.sample(range(n), 2)
                g["U"].append([a, b])
        elif k < 0.91:  # primitive-inducing-path shapes: collider chain a <-> c1 <-> ... <-> b with ci -> a or b
            g = chain_shape(rng, n)
        else:           # the same with cross edges among the colliders: many routes enter a collider through a tail first
            g = chain_shape(rng, max(n, 6), cross=True)
        if j % 3 == 0:
            g = C.shuffled_graph(rng, g)
        i += 1
        yield {"g": g, "fam": fams[i % len(fams)], "src": "rnd%d" % n}


def make_ancestral(g):
    """drop bidirected edges between a node and one of its ancestors"""
    n = g["n"]
    ch = {v: set() for v in range(n)}
    for a, b in g["D"]:
        ch[a].add(b)

    def desc(v):
        seen, st = set(), [v]
        while st:
            u = st.pop()
            for w in ch[u]:
                if w not in seen:
                    seen.add(w)
                    st.append(w)
        return seen
    d = {v: desc(v) for v in range(n)}
    h = dict(g)
    h["B"] = [e for e in g["B"] if e[1] not in d[e[0]] and e[0] not in d[e[1]]]
    return h


def chain_shape(rng, n, cross=False):
    nodes = list(range(n))
    rng.shuffle(nodes)
    k = rng.randint(3, n) if not cross else n
    ch = nodes[:k]
    g = C.g_new(n)
    a, b = ch[0], ch[-1]
    for u, v in zip(ch, ch[1:]):
        g["B"].append([u, v])
    for c in ch[1:-1]:
        r = rng.random()
        if r < 0.45:
            g["D"].append([c, a])
        elif r < 0.9:
            g["D"].append([c, b])
    if cross:
        inner = ch[1:-1]
        for i in range(len(inner)):
            for j in range(i + 1, len(inner)):
                r = rng.random()
                if r < 0.3:
                    g["D"].append([inner[i], inner[j]])
                elif r < 0.5 and abs(i - j) > 1:
                    g["B"].append([inner[i], inner[j]])
    for v in nodes[k:]:
        if rng.random() < 0.5:
            g["D"].append([v, rng.choice(ch)])
    if not C.is_acyclic(n, g["D"]):
        g["D"] = []
    return g


def nontrivial(g, ans):
    """the maximality stage decides: no undirected edge, simple, acyclic, ancestral, and at least one non-adjacent pair"""
    m_vm, d_vm, m_im, d_im, m_adc, d_anc, cyc = ans.split(" ")
    n = g["n"]
    adj = set(frozenset(e) for k in "DBU" for e in g[k])
    return (not g["U"] and cyc == "F" and d_anc == "T" and not has_bow(g) and len(adj) < n * (n - 1) // 2)


def eval_chunk(ctx, cases):
    ev = ctx["ev"]
    gots = C.pmap(impl, cases, chunksize=64)
    ans = C.lean_batch([line(c) for c in cases])
    bad = []
    for c, got, a in zip(cases, gots, ans):
        ev.case(c, nontrivial=nontrivial(c["g"], a), sample_every=10000)
        ev.count("src:" + c.get("src", ""))
        ev.count("fam:" + c.get("fam", "int"))
        ev.count("valid_mag:" + a.split(" ")[1])
        ev.count("maximal:" + a.split(" ")[3])
        if c["g"]["U"]:
            ev.count("with-undirected-edge")
        for v in judge(c, got, a):
            bad.append((c, v))
    return bad


def fails(case, drv, kind):
    g = case["g"]
    if any(a == b for k in "DBU" for a, b in g[k]):
        return False
    got = impl(case)
    return any(v[0] in ("violation", "known") and (v[1] == kind or v[0] == "known") for v in judge(case, got, drv.ask(line(case))))


def stress():
    """LARGE inputs with a known answer (labelled TESTS; they reach fixed-width counters, recursion depth and
    quadratic tables that graphs on <= 7 nodes cannot):
    layered: s -> 4 -> 4 -> 4 -> 4 -> 4 -> 2 -> t (complete between consecutive layers: thousands of directed
      paths from s to t) plus s <-> t  => s is an ancestor of t, not ancestral, valid_mag False;
    deep: a directed chain of 400 nodes plus a bidirected edge between its ends => not ancestral, False;
    chain: a directed chain of 30 nodes => a valid (maximal) MAG, True."""
    from pywhy_graphs import ADMG
    from pywhy_graphs.algorithms import valid_mag
    layers = [["s"]] + [[(k, i) for i in range(4)] for k in range(5)] + [[("m", 0), ("m", 1)], ["t"]]
    lay = [(a, b) for A, B in zip(layers, layers[1:]) for a in A for b in B]
    specs = [("layered-24-nodes", lay, [("s", "t")], False),
             ("deep-chain-400", [(i, i + 1) for i in range(400)], [(0, 400)], False),
             ("chain-30", [(i, i + 1) for i in range(30)], [], True)]
    for name, D, B, want in specs:
        G = ADMG()
        G.add_edges_from(D, "directed")
        G.add_edges_from(B, "bidirected")
        try:
            with C.time_limit(120):
                r = valid_mag(G)
            why = None if r is want else "valid_mag = %r, expected %r" % (r, want)
        except C.CallTimeout:
            why = None        # slow is not wrong: inconclusive
        except BaseException as e:
            why = "raised %s" % type(e).__name__
        yield name, why


def run(ctx):
    import time
    ev, out = ctx["ev"], ctx["out"]
    ev.rule = ("every graph on 1-3 nodes over pair states {none,->,<-,<->,->+<->,<-+<->,-><-,-><-+<->,--,--+->,--+<->} and every graph "
               "on 4 nodes over {none,->,<-,<->,->+<->,<-+<->} (46656 graphs, cyclic ones included for valid_mag); random n=5..7: "
               "ancestral graphs, arbitrary ADMGs with bows, cyclic graphs, graphs with undirected edges, collider-chain "
               "(primitive inducing path) shapes; shuffled insertion order, five label families. The implementation's booleans are "
               "compared with the definition decided in Lean by enumerating all subsets of the other nodes (proved m-separation). "
               "non-trivial = the graph passes the first three tests (no undirected edge, simple, acyclic, ancestral) and has a "
               "non-adjacent pair, so maximality decides")
    ev.assumptions = ["no self loops", "valid_mag / is_maximal are called with the default L = S = {}",
                      "is_maximal is compared with the all-subsets decider on every graph without undirected edges (cyclic "
                      "ones included); with undirected edges only model-vs-code", "has_adc is a helper: only the two facts valid_mag relies on are demanded of it"]
    for name, why in stress():
        ev.count("stress:" + name + (":ok" if why is None else ":BAD"))
        if why is not None:
            out.violation({"kind": "stress", "name": name},
                          {"kind": "valid_mag", "detail": why, "input": "see harness/c07.py stress(): " + name})
    bad = []
    corpus = C.load_corpus(PID)
    if corpus:
        bad += eval_chunk(ctx, corpus)
        ev.count("src:corpus", len(corpus))
    for ch in chunks(gen(ctx), 8000):
        if time.time() > ctx["deadline"] - 20:
            ev.extra["stopped_at_deadline"] = True
            break
        bad += eval_chunk(ctx, ch)
        if sum(1 for _, v in bad if v[0] == "violation") > 50:
            break
    ev.extra["exhaustive_part"] = "all graphs on <=3 nodes and all 46656 graphs on 4 nodes over the listed pair states"
    if bad:
        seen = set()
        kf_known = set()
        try:
            import json as _json
            import os as _os
            kf_known = set(f["id"] for f in _json.load(open(_os.path.join(C.VERIF, "known_findings.d", PID + ".json")))["findings"]
                           if f.get("status") == "known")
        except Exception:
            pass
        drv = C.Driver()
        try:
            for case, (sev, kind, detail) in bad:
                if (sev, kind) in seen:
                    continue
                seen.add((sev, kind))
                if sev == "known":
                    if kind in kf_known:
                        out.known(kind, KF_WHAT[kind], case)
                        continue
                    sev, kind = "violation", "is_maximal"
                if sev == "violation":
                    small = shrink_case(case, lambda c: fails(c, drv, kind))
                    out.violation(small, {"kind": kind, "detail": detail, "impl": impl(small), "lean": drv.ask(line(small)),
                                          "lean_answer_fields": "validMag validMagDec isMaximal maximalDec hasAdc ancestralDec hasCycle",
                                          "lean_request": line(small), "original_case": case,
                                          "disagreements_total": sum(1 for _, v in bad if v[0] == "violation")})
                else:
                    out.corr(case, {"kind": kind, "detail": detail, "impl": impl(case), "lean": drv.ask(line(case)),
                                    "lean_request": line(case)})
        finally:
            drv.close()


def replay(ctx, payload):
    case = payload.get("case") or payload.get("correspondence", {}).get("case")
    if case is None:
        print("nothing to replay: the payload names theorems only:", payload.get("theorems_not_checking"))
        return 0
    drv = C.Driver()
    got = impl(case)
    a = drv.ask(line(case))
    drv.close()
    vs = judge(case, got, a)
    print("implementation:", got)
    print("lean (validMag validMagDec isMaximal maximalDec hasAdc ancestralDec hasCycle):", a)
    print(vs)
    bad = any(v[0] == "violation" for v in vs)
    print("REPRODUCED" if bad else "NOT-REPRODUCED")
    return 1 if bad else 0


# ----------------------------------------------------------------------------- C15 adapter
def c15_cases(rng, k):
    out = []
    while len(out) < k:
        n = rng.choice((3, 4, 4, 5, 5))
        r = rng.random()
        if r < 0.5:
            g = make_ancestral(C.rand_dag_order_graph(rng, n, [("D>",), ("D>",), ("B",)], density=rng.choice((0.4, 0.6, 0.8))))
        elif r < 0.8:
            g = C.rand_dag_order_graph(rng, n, C.ADMG_STATES[1:], density=0.5)
        else:
            g = chain_shape(rng, n)
        out.append({"g": g})
    return out


def c15_eval(case, fam, order_seed):
    import random
    c = {"g": C.shuffled_graph(random.Random(order_seed), case["g"]), "fam": fam}
    got = impl(c)
    return "valid_mag=%s is_maximal=%s" % (got["vm"], got.get("im"))


def c15_expected(cases):
    ans = C.lean_batch([line(c) for c in cases], jobs=1 if len(cases) < 4000 else None)
    out = []
    for a in ans:
        f = a.split(" ")
        out.append("valid_mag=%s is_maximal=%s" % (f[1], f[3] if f[3] != "-" else f[2]))
    return out
