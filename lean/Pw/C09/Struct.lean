import Pw.C09.Spec
import Pw.C08.Loop
open Closure

/-! # C09 proofs: the structural clauses of `pag_to_mag` for every input and all iteration orders -/
namespace C09
open MG C08

/-! ## orientation sequences without the "compelled" side condition -/

inductive OSteps (P : MG) : MG → Prop
  | refl : OSteps P P
  | step {G : MG} {i j : Nat} : OSteps P G → HasUn G i j → OSteps P (orient G i j)

theorem OSteps.trans {P G H : MG} (h1 : OSteps P G) (h2 : OSteps G H) : OSteps P H := by
  induction h2 with
  | refl => exact h1
  | step _ hu ih => exact OSteps.step ih hu

theorem OSteps.of_steps {P G : MG} (h : Steps P G) : OSteps P G := by
  induction h with
  | refl => exact OSteps.refl
  | step _ hu _ ih => exact OSteps.step ih hu

theorem OSteps.nodes {P G : MG} (h : OSteps P G) : G.nodes = P.nodes := by
  induction h with
  | refl => rfl
  | step _ _ ih => exact ih

theorem OSteps.skel {P G : MG} (h : OSteps P G) (a b : Nat) : Skel G a b ↔ Skel P a b := by
  induction h with
  | refl => exact Iff.rfl
  | step _ hu ih => exact (skel_orient hu a b).trans ih

theorem OSteps.un_anti {P G : MG} (h : OSteps P G) : ∀ e ∈ G.un, e ∈ P.un := by
  induction h with
  | refl => exact fun _ h => h
  | step _ _ ih => exact fun e he => ih e (mem_orient_un.mp he).1

theorem OSteps.simple {P G : MG} (h : OSteps P G) (hs : Simple P) : Simple G := by
  induction h with
  | refl => exact hs
  | step _ _ ih => exact simple_orient ih

theorem OSteps.dir_from {P G : MG} (h : OSteps P G) : ∀ e ∈ G.dir, e ∈ P.dir ∨ HasUn P e.1 e.2 := by
  induction h with
  | refl => exact fun e he => Or.inl he
  | @step G i j hs hu ih =>
    intro e he
    rcases mem_orient_dir.mp he with he | rfl
    · exact ih e he
    · rcases hu with hu | hu
      · exact Or.inr (Or.inl (hs.un_anti _ hu))
      · exact Or.inr (Or.inr (hs.un_anti _ hu))

/-! ## the Meek closure never adds undirected edges -/

theorem meekLoop_mu_le {inner : List Nat} (hin : inner.Nodup) :
    ∀ (f : Nat) (G : MG), Simple G → mu (meekLoop inner f G) ≤ mu G
  | 0, G, _ => Nat.le_refl _
  | f + 1, G, hs => by
    unfold meekLoop
    have p := pass_prog (inner := inner) hs hin
    simp only
    split
    · exact Nat.le_trans (meekLoop_mu_le hin f _ (p.steps.simple hs)) p.le
    · exact p.le

/-! ## `firstUn` -/

theorem firstUn_some {T : MG} {u v : Nat} (h : firstUn T = some (u, v)) : HasUn T u v := by
  unfold firstUn at h
  obtain ⟨n, _, hn⟩ := List.exists_of_findSome?_eq_some h
  rw [Option.map_eq_some_iff] at hn
  obtain ⟨e, he, heq⟩ := hn
  have hmem := List.mem_of_find?_eq_some he
  have hp := List.find?_some he
  simp only [Bool.or_eq_true, beq_iff_eq] at hp
  by_cases h1 : e.1 = n
  · simp only [h1, beq_self_eq_true, if_true, Prod.mk.injEq] at heq
    obtain ⟨rfl, rfl⟩ := heq
    left; rw [← h1]; exact hmem
  · have h2 : e.2 = n := by rcases hp with hp | hp; exact absurd hp h1; exact hp
    have : (e.1 == n) = false := by simpa using h1
    simp only [this, Bool.false_eq_true, if_false, Prod.mk.injEq] at heq
    obtain ⟨rfl, rfl⟩ := heq
    right; rw [← h2]; exact hmem

theorem firstUn_none {T : MG} (hwf : ∀ e ∈ T.un, e.1 ∈ T.nodes) (h : firstUn T = none) : T.un = [] := by
  unfold firstUn at h
  rw [List.findSome?_eq_none_iff] at h
  cases hun : T.un with
  | nil => rfl
  | cons e t =>
    exfalso
    have he : e ∈ T.un := by rw [hun]; exact List.mem_cons_self
    have := h e.1 (hwf e he)
    rw [Option.map_eq_none_iff, List.find?_eq_none] at this
    have := this e he
    simp at this

/-! ## the orientation loop ends without undirected edges -/

theorem orientLoop_spec {inner : List Nat} (hin : inner.Nodup) :
    ∀ (f : Nat) (T : MG), Simple T → (∀ e ∈ T.un, e.1 ∈ T.nodes) → mu T ≤ f →
      (orientLoop inner f T).un = [] ∧ OSteps T (orientLoop inner f T)
  | 0, T, _, _, h => by
    unfold orientLoop
    exact ⟨List.eq_nil_of_length_eq_zero (Nat.le_zero.mp h), OSteps.refl⟩
  | f + 1, T, hs, hwf, h => by
    unfold orientLoop
    cases hf : firstUn T with
    | none => exact ⟨firstUn_none hwf hf, OSteps.refl⟩
    | some p =>
      obtain ⟨u, v⟩ := p
      have hu := firstUn_some hf
      have s1 : Simple (orient T u v) := simple_orient hs
      have st := meek_steps (inner := inner) s1 hin
      have o1 : OSteps T (meek (orient T u v) inner) :=
        (OSteps.step OSteps.refl hu).trans (OSteps.of_steps st)
      have hmu : mu (meek (orient T u v) inner) ≤ f := by
        have a := meekLoop_mu_le hin ((orient T u v).un.length + 1) _ s1
        have b := mu_orient_lt hu
        have : mu (meek (orient T u v) inner) ≤ mu (orient T u v) := a
        omega
      have hwf' : ∀ e ∈ (meek (orient T u v) inner).un, e.1 ∈ (meek (orient T u v) inner).nodes := by
        intro e he
        rw [o1.nodes]
        exact hwf e (o1.un_anti e he)
      obtain ⟨r1, r2⟩ := orientLoop_spec hin f _ (o1.simple hs) hwf' hmu
      exact ⟨r1, o1.trans r2⟩

/-! ## the classification loop -/

/-- what the three lists contain, as an invariant of the fold -/
structure ClsInv (P : MG) (seen : List (Nat × Nat)) (c : Cls) : Prop where
  reorient : ∀ e, e ∈ c.toReorient ↔ (e ∈ seen ∧ (e.2, e.1) ∉ P.dir ∧ (e.2, e.1) ∉ P.circ)
  addSound : ∀ e ∈ c.toAdd, e ∈ seen ∧ (e.2, e.1) ∈ P.circ
  addComplete : ∀ e ∈ seen, (e.2, e.1) ∉ P.dir → (e.2, e.1) ∈ P.circ → e ∈ c.toAdd ∨ (e.2, e.1) ∈ c.toAdd

theorem classifyStep_inv {P : MG} {seen : List (Nat × Nat)} {c : Cls} (h : ClsInv P seen c)
    (e : Nat × Nat) : ClsInv P (seen ++ [e]) (classifyStep P c e) := by
  unfold classifyStep
  by_cases h1 : (e.2, e.1) ∈ P.dir
  · simp only [h1, if_true]
    refine ⟨?_, ?_, ?_⟩
    · intro x
      rw [h.reorient x, List.mem_append, List.mem_singleton]
      constructor
      · rintro ⟨a, b⟩; exact ⟨Or.inl a, b⟩
      · rintro ⟨a | rfl, b⟩
        · exact ⟨a, b⟩
        · exact absurd h1 b.1
    · intro x hx
      obtain ⟨a, b⟩ := h.addSound x hx
      exact ⟨List.mem_append_left _ a, b⟩
    · intro x hx hd hc
      rcases List.mem_append.mp hx with hx | hx
      · exact h.addComplete x hx hd hc
      · rw [List.mem_singleton] at hx; subst hx; exact absurd h1 hd
  · by_cases h2 : (e.2, e.1) ∈ P.circ
    · simp only [h1, if_false, h2, not_true_eq_false]
      by_cases h3 : (e.2, e.1) ∈ c.toAdd
      · simp only [h3, not_true_eq_false, if_false]
        refine ⟨?_, ?_, ?_⟩
        · intro x
          rw [h.reorient x, List.mem_append, List.mem_singleton]
          constructor
          · rintro ⟨a, b⟩; exact ⟨Or.inl a, b⟩
          · rintro ⟨a | rfl, b⟩
            · exact ⟨a, b⟩
            · exact absurd h2 b.2
        · intro x hx
          obtain ⟨a, b⟩ := h.addSound x hx
          exact ⟨List.mem_append_left _ a, b⟩
        · intro x hx hd hc
          rcases List.mem_append.mp hx with hx | hx
          · exact h.addComplete x hx hd hc
          · rw [List.mem_singleton] at hx; subst hx; exact Or.inr h3
      · simp only [h3, not_false_eq_true, if_true]
        refine ⟨?_, ?_, ?_⟩
        · intro x
          rw [h.reorient x, List.mem_append, List.mem_singleton]
          constructor
          · rintro ⟨a, b⟩; exact ⟨Or.inl a, b⟩
          · rintro ⟨a | rfl, b⟩
            · exact ⟨a, b⟩
            · exact absurd h2 b.2
        · intro x hx
          rcases List.mem_append.mp hx with hx | hx
          · obtain ⟨a, b⟩ := h.addSound x hx
            exact ⟨List.mem_append_left _ a, b⟩
          · rw [List.mem_singleton] at hx; subst hx
            exact ⟨List.mem_append_right _ (List.mem_singleton.mpr rfl), h2⟩
        · intro x hx hd hc
          rcases List.mem_append.mp hx with hx | hx
          · rcases h.addComplete x hx hd hc with a | a
            · exact Or.inl (List.mem_append_left _ a)
            · exact Or.inr (List.mem_append_left _ a)
          · rw [List.mem_singleton] at hx; subst hx
            exact Or.inl (List.mem_append_right _ (List.mem_singleton.mpr rfl))
    · simp only [h1, if_false, h2, not_false_eq_true, if_true]
      refine ⟨?_, ?_, ?_⟩
      · intro x
        rw [List.mem_append, List.mem_singleton, h.reorient x, List.mem_append, List.mem_singleton]
        constructor
        · rintro (⟨a, b⟩ | rfl)
          · exact ⟨Or.inl a, b⟩
          · exact ⟨Or.inr rfl, h1, h2⟩
        · rintro ⟨a | rfl, b⟩
          · exact Or.inl ⟨a, b⟩
          · exact Or.inr rfl
      · intro x hx
        obtain ⟨a, b⟩ := h.addSound x hx
        exact ⟨List.mem_append_left _ a, b⟩
      · intro x hx hd hc
        rcases List.mem_append.mp hx with hx | hx
        · exact h.addComplete x hx hd hc
        · rw [List.mem_singleton] at hx; subst hx; exact absurd hc h2

theorem foldl_classify_inv {P : MG} :
    ∀ (l seen : List (Nat × Nat)) (c : Cls), ClsInv P seen c →
      ClsInv P (seen ++ l) (l.foldl (classifyStep P) c)
  | [], seen, c, h => by simpa using h
  | e :: l, seen, c, h => by
    have := foldl_classify_inv l (seen ++ [e]) _ (classifyStep_inv h e)
    simpa [List.append_assoc] using this

theorem classify_inv (P : MG) : ClsInv P P.circ (classify P) := by
  have h0 : ClsInv P [] ({} : Cls) :=
    ⟨fun e => (by simp), fun e he => (by cases he), fun e he => (by cases he)⟩
  simpa [classify] using foldl_classify_inv P.circ [] {} h0

/-! ## the temporary CPDAG -/

theorem tempCpdag_simple (c : Cls) : Simple (tempCpdag c) := by
  intro a b h; simp [tempCpdag] at h

theorem tempCpdag_wf (c : Cls) : ∀ e ∈ (tempCpdag c).un, e.1 ∈ (tempCpdag c).nodes := by
  intro e he
  simp only [tempCpdag, List.mem_map] at he
  obtain ⟨x, hx, rfl⟩ := he
  simp only [tempCpdag, tempNodes, List.mem_eraseDups, List.mem_flatMap]
  exact ⟨x, hx, by simp⟩

theorem hasUn_tempCpdag {c : Cls} {a b : Nat} :
    HasUn (tempCpdag c) a b ↔ ((b, a) ∈ c.toAdd ∨ (a, b) ∈ c.toAdd) := by
  unfold HasUn
  simp only [tempCpdag, List.mem_map, Prod.mk.injEq]
  constructor
  · rintro (⟨x, hx, rfl, rfl⟩ | ⟨x, hx, rfl, rfl⟩)
    · exact Or.inl hx
    · exact Or.inr hx
  · rintro (h | h)
    · exact Or.inl ⟨(b, a), h, rfl, rfl⟩
    · exact Or.inr ⟨(a, b), h, rfl, rfl⟩

/-! ## the structural clauses -/

/-- membership in the directed layer of the result -/
theorem mem_pagToMag_dir {P : MG} {inner : List Nat} (hin : inner.Nodup) {a b : Nat} :
    ((a, b) ∈ (pagToMag P inner).dir →
      (a, b) ∈ P.dir ∨ ((a, b) ∈ P.circ ∧ (b, a) ∉ P.dir ∧ (b, a) ∉ P.circ) ∨
      ((a, b) ∈ P.circ ∧ (b, a) ∈ P.circ)) ∧
    ((a, b) ∈ P.dir → (a, b) ∈ (pagToMag P inner).dir) ∧
    ((a, b) ∈ P.circ → (b, a) ∉ P.dir → (b, a) ∉ P.circ → (a, b) ∈ (pagToMag P inner).dir) ∧
    ((a, b) ∈ P.circ → (b, a) ∈ P.circ → (a, b) ∉ P.dir → (b, a) ∉ P.dir →
      (a, b) ∈ (pagToMag P inner).dir ∨ (b, a) ∈ (pagToMag P inner).dir) := by
  have inv := classify_inv P
  let T0 := tempCpdag (classify P)
  obtain ⟨hun, ho⟩ := orientLoop_spec hin T0.un.length T0 (tempCpdag_simple _) (tempCpdag_wf _)
    (Nat.le_refl _)
  have hdir : ∀ x y, (x, y) ∈ (pagToMag P inner).dir ↔
      ((x, y) ∈ P.dir ∨ (x, y) ∈ (classify P).toReorient) ∨
        (x, y) ∈ (orientLoop inner T0.un.length T0).dir := by
    intro x y
    simp only [pagToMag, copyGraph, List.mem_append]
    rfl
  refine ⟨?_, ?_, ?_, ?_⟩
  · intro h
    rcases (hdir a b).mp h with (h | h) | h
    · exact Or.inl h
    · exact Or.inr (Or.inl ((inv.reorient (a, b)).mp h))
    · rcases ho.dir_from _ h with h' | h'
      · simp [T0, tempCpdag] at h'
      · rcases hasUn_tempCpdag.mp h' with h' | h'
        · have := inv.addSound _ h'
          exact Or.inr (Or.inr ⟨this.2, this.1⟩)
        · have := inv.addSound _ h'
          exact Or.inr (Or.inr ⟨this.1, this.2⟩)
  · intro h; exact (hdir a b).mpr (Or.inl (Or.inl h))
  · intro h1 h2 h3
    exact (hdir a b).mpr (Or.inl (Or.inr ((inv.reorient (a, b)).mpr ⟨h1, h2, h3⟩)))
  · intro h1 h2 h3 h4
    have hadd : HasUn T0 a b := by
      apply hasUn_tempCpdag.mpr
      rcases inv.addComplete (a, b) h1 h4 h2 with h | h
      · exact Or.inr h
      · exact Or.inl h
    have hsk := (ho.skel a b).mpr hadd.skel
    unfold Skel at hsk
    rw [hun] at hsk
    rcases hsk with h | h | h | h
    · exact Or.inl ((hdir a b).mpr (Or.inr h))
    · exact Or.inr ((hdir b a).mpr (Or.inr h))
    · cases h
    · cases h

/-- **C09, structural clauses** – for *every* mixed graph `P` read as a PAG instance and every
    iteration order: same nodes, same adjacencies, every arrowhead and every tail kept, no circle
    left.  (The input is unchanged because the model is a pure function.) -/
theorem pagToMag_structural (P : MG) (inner : List Nat) (hin : inner.Nodup) :
    Structural P (pagToMag P inner) := by
  have hbi : (pagToMag P inner).bi = P.bi := rfl
  have hun : (pagToMag P inner).un = P.un := rfl
  have hci : (pagToMag P inner).circ = [] := rfl
  have key := fun a b => mem_pagToMag_dir (P := P) hin (a := a) (b := b)
  refine ⟨rfl, ?_, ?_, ?_, ?_⟩
  · intro a b
    obtain ⟨k1, k2, k3, k4⟩ := key a b
    obtain ⟨l1, l2, l3, l4⟩ := key b a
    unfold markAt
    rw [hbi, hun, hci]
    simp only [List.not_mem_nil, if_false, or_false]
    constructor
    · intro h
      by_cases c1 : (a, b) ∈ P.circ
      · simp [c1]
      · simp only [c1, if_false]
        by_cases hh : (a, b) ∈ (pagToMag P inner).dir ∨ (a, b) ∈ P.bi ∨ (b, a) ∈ P.bi
        · rcases hh with hh | hh
          · rcases k1 hh with d | ⟨d, _⟩ | ⟨d, _⟩
            · simp [d]
            · exact absurd d c1
            · exact absurd d c1
          · simp [hh]
        · simp only [hh, if_false] at h
          by_cases ht : (b, a) ∈ (pagToMag P inner).dir ∨ (a, b) ∈ P.un ∨ (b, a) ∈ P.un
          · rcases ht with ht | ht
            · rcases l1 ht with d | ⟨d, _⟩ | ⟨_, d⟩
              · split <;> simp [d]
              · split <;> simp [d]
              · exact absurd d c1
            · have : (a, b) ∈ P.un ∨ (b, a) ∈ P.un ∨ (b, a) ∈ P.circ := by
                rcases ht with ht | ht
                · exact Or.inl ht
                · exact Or.inr (Or.inl ht)
              split <;> simp [this]
          · simp [ht] at h
    · intro h
      by_cases hh : (a, b) ∈ (pagToMag P inner).dir ∨ (a, b) ∈ P.bi ∨ (b, a) ∈ P.bi
      · simp [hh]
      · simp only [hh, if_false]
        have na : (a, b) ∉ (pagToMag P inner).dir := fun x => hh (Or.inl x)
        have nb : ¬ ((a, b) ∈ P.bi ∨ (b, a) ∈ P.bi) := fun x => hh (Or.inr x)
        suffices hs : (b, a) ∈ (pagToMag P inner).dir ∨ (a, b) ∈ P.un ∨ (b, a) ∈ P.un by simp [hs]
        have nd : (a, b) ∉ P.dir := fun x => na (k2 x)
        by_cases d2 : (b, a) ∈ P.dir
        · exact Or.inl (l2 d2)
        · by_cases c1 : (a, b) ∈ P.circ
          · by_cases c2 : (b, a) ∈ P.circ
            · rcases k4 c1 c2 nd d2 with x | x
              · exact absurd x na
              · exact Or.inl x
            · exact absurd (k3 c1 d2 c2) na
          · simp only [c1, if_false, nd, nb, false_or, d2] at h
            by_cases hu : (a, b) ∈ P.un ∨ (b, a) ∈ P.un
            · exact Or.inr hu
            · have c2 : (b, a) ∈ P.circ := by
                by_cases c2 : (b, a) ∈ P.circ
                · exact c2
                · have : ¬ ((a, b) ∈ P.un ∨ (b, a) ∈ P.un ∨ (b, a) ∈ P.circ) := by
                    rintro (x | x | x)
                    · exact hu (Or.inl x)
                    · exact hu (Or.inr x)
                    · exact c2 x
                  simp [this] at h
              exact Or.inl (l3 c2 nd c1)
  · intro a b h
    obtain ⟨k1, k2, k3, k4⟩ := key a b
    unfold markAt at h ⊢
    rw [hbi, hun, hci]
    simp only [List.not_mem_nil, if_false]
    by_cases c1 : (a, b) ∈ P.circ
    · simp [c1] at h
    · simp only [c1, if_false] at h
      by_cases hh : (a, b) ∈ P.dir ∨ (a, b) ∈ P.bi ∨ (b, a) ∈ P.bi
      · have : (a, b) ∈ (pagToMag P inner).dir ∨ (a, b) ∈ P.bi ∨ (b, a) ∈ P.bi :=
          hh.imp k2 id
        simp [this]
      · simp only [hh, if_false] at h
        split at h <;> simp at h
  · intro a b h
    obtain ⟨k1, k2, k3, k4⟩ := key a b
    obtain ⟨l1, l2, l3, l4⟩ := key b a
    unfold markAt at h ⊢
    rw [hbi, hun, hci]
    simp only [List.not_mem_nil, if_false, or_false]
    by_cases c1 : (a, b) ∈ P.circ
    · simp [c1] at h
    · simp only [c1, if_false] at h
      by_cases hh : (a, b) ∈ P.dir ∨ (a, b) ∈ P.bi ∨ (b, a) ∈ P.bi
      · simp [hh] at h
      · simp only [hh, if_false] at h
        have nd : (a, b) ∉ P.dir := fun x => hh (Or.inl x)
        have nb : ¬ ((a, b) ∈ P.bi ∨ (b, a) ∈ P.bi) := fun x => hh (Or.inr x)
        have na : (a, b) ∉ (pagToMag P inner).dir := by
          intro x
          rcases k1 x with d | ⟨d, _⟩ | ⟨d, _⟩
          · exact nd d
          · exact c1 d
          · exact c1 d
        have hh' : ¬ ((a, b) ∈ (pagToMag P inner).dir ∨ (a, b) ∈ P.bi ∨ (b, a) ∈ P.bi) := by
          rintro (x | x)
          · exact na x
          · exact nb x
        simp only [hh', if_false]
        by_cases ht : (b, a) ∈ P.dir ∨ (a, b) ∈ P.un ∨ (b, a) ∈ P.un ∨ (b, a) ∈ P.circ
        · have : (b, a) ∈ (pagToMag P inner).dir ∨ (a, b) ∈ P.un ∨ (b, a) ∈ P.un := by
            rcases ht with x | x | x | x
            · exact Or.inl (l2 x)
            · exact Or.inr (Or.inl x)
            · exact Or.inr (Or.inr x)
            · exact Or.inl (l3 x nd c1)
          simp [this]
        · simp [ht] at h
  · intro a b
    unfold markAt
    rw [hci]
    simp only [List.not_mem_nil, if_false]
    split
    · simp
    · split <;> simp

end C09
