import Pw.T5b.ToD
open Closure MG

/-! # T5b, part 3a: inducing walks ("links") between observed nodes of `D`

`IW u v π`: a D-walk from u to v on which every inner non-collider is latent and every inner collider is an
ancestor of u, v or S.  Between distinct observed nodes such a walk shortens to an inducing path, hence
gives an M-edge whose marks are read off ancestry (`mkAt`). -/
namespace T5b
open C06

variable {D M : MG} {L S : List Nat}

/-- the non-latent nodes, as the "forbidden non-collider" list of `OpenP` -/
def NL (D : MG) (L : List Nat) : List Nat := D.nodes.filter (fun w => decide (w ∉ L))

theorem not_mem_NL {w : Nat} (h : w ∈ L) : w ∉ NL D L := by
  simp only [NL, List.mem_filter, decide_eq_true_eq, not_and]
  intro _ hn; exact hn h

theorem mem_L_of_not_NL {w : Nat} (hn : w ∈ D.nodes) (h : w ∉ NL D L) : w ∈ L := by
  simp only [NL, List.mem_filter, decide_eq_true_eq, not_and] at h
  exact Classical.not_not.mp (h hn)

/-- observed node -/
def Obs (D : MG) (L S : List Nat) (v : Nat) : Prop := v ∈ D.nodes ∧ v ∉ L ∧ v ∉ S

/-- ancestor of (a member of) S -/
def AnS (D : MG) (S : List Nat) (w : Nat) : Prop := ∃ s ∈ S, Anc D w s

structure IW (D : MG) (L S : List Nat) (u v : Nat) (π : List Hop) : Prop where
  valid : ValidW D u π
  endn : endNode u π = v
  opn : OpenP (AncOf D u v S) (NL D L) none u π

/-- a link: a non-empty inducing walk; the flags record arrowheads of `D` at the two ends -/
def Lk (D : MG) (L S : List Nat) (u v : Nat) (cu cv : Bool) : Prop :=
  ∃ π : List Hop, π ≠ [] ∧ IW D L S u v π ∧ (cu = true → ∀ p ∈ π.head?, p.mp = .head) ∧
    (cv = true → exitMark none π = some .head)

theorem nodesOf_mem_nodes (hwf : D.WF) {a : Nat} (ha : a ∈ D.nodes) {hs : List Hop}
    (hv : ValidW D a hs) : ∀ w ∈ nodesOf a hs, w ∈ D.nodes := by
  intro w hw
  simp only [nodesOf, List.mem_cons] at hw
  rcases hw with rfl | hw
  · exact ha
  · exact C06.validW_nodes hwf hs a hv w hw

theorem innerOK_of_openP {x y : Nat} :
    ∀ (hs : List Hop) (m : Mark) (a : Nat), OpenP (AncOf D x y S) (NL D L) (some m) a hs →
      (∀ w ∈ nodesOf a hs, w ∈ D.nodes) → InnerOK D L S x y (some m) a hs
  | [], _, _, _, _ => trivial
  | h :: t, m, a, ho, hn => by
    obtain ⟨ho1, ho2⟩ := ho
    refine ⟨?_, innerOK_of_openP t h.mn h.nx ho2 (by
      intro w hw; apply hn w
      simp only [nodesOf, List.map_cons, List.mem_cons] at hw ⊢
      exact Or.inr hw)⟩
    simp only [condPO, condP] at ho1
    by_cases hcol : m = .head ∧ h.mp = .head
    · simp only [hcol, and_self, if_true] at ho1
      exact ⟨Or.inr hcol, fun _ => ho1⟩
    · simp only [hcol, if_false] at ho1
      exact ⟨Or.inl (mem_L_of_not_NL (hn a (by simp [nodesOf])) ho1), fun hc => absurd hc hcol⟩

theorem ancOf_of_inAnt (hun : D.un = []) {u v w : Nat} (h : InAnt D (u :: v :: S) w) :
    AncOf D u v S w := by
  obtain ⟨t, ht, ha⟩ := h
  exact ⟨t, ht, T5.anc_of_ant hun ha⟩

theorem iw_all_ancOf (su : Setup D L S M) {u v : Nat} {π : List Hop} (h : IW D L S u v π) :
    ∀ w ∈ nodesOf u π, AncOf D u v S w := by
  have hb : NoUndirAtHead D := noUndirAtHead_of_un_nil D su.un
  have hall := all_inAnt hb (T := u :: v :: S) (fun w hw => by
    obtain ⟨t, ht, ha⟩ := hw
    exact ⟨t, ht, Ant.of_anc ha⟩) π u h.valid h.opn ⟨u, by simp, Ant.refl u⟩
    (by rw [h.endn]; exact ⟨v, by simp, Ant.refl v⟩)
  intro w hw
  exact ancOf_of_inAnt su.un (hall w hw)

/-- an inducing walk between distinct nodes shortens to an inducing path -/
theorem ind_of_IW (su : Setup D L S M) {u v : Nat} (hu : u ∈ D.nodes) (huv : u ≠ v) {π : List Hop}
    (h : IW D L S u v π) : HasInducingPath D L S u v := by
  have hallC := iw_all_ancOf su h
  obtain ⟨ps, pv, po, pe, pn, _⟩ := T5.openP_walk_to_path su.sl π none u h.valid h.opn hallC
  rw [h.endn] at pe
  refine ⟨ps, pv, pe, pn, ?_⟩
  cases ps with
  | nil => exact absurd pe huv
  | cons p t =>
    show InnerOK D L S u v (some p.mn) p.nx t
    apply innerOK_of_openP t p.mn p.nx po.2
    intro w hw
    apply nodesOf_mem_nodes su.wf hu pv w
    simp only [nodesOf, List.map_cons, List.mem_cons] at hw ⊢
    exact Or.inr hw

theorem exitMark_append (e e' : Option Mark) (P Q : List Hop) (hQ : Q ≠ []) :
    exitMark e (P ++ Q) = exitMark e' Q := by
  obtain ⟨s, hop, rfl⟩ := exists_snoc Q hQ
  rw [← List.append_assoc, exitMark_snoc, exitMark_snoc]

theorem ancOf_mono {u v u' v' w : Nat} (hu : Anc D u u' ∨ Anc D u v' ∨ AnS D S u)
    (hv : Anc D v u' ∨ Anc D v v' ∨ AnS D S v) (h : AncOf D u v S w) : AncOf D u' v' S w := by
  obtain ⟨t, ht, ha⟩ := h
  simp only [List.mem_cons] at ht
  rcases ht with rfl | rfl | ht
  · rcases hu with h | h | ⟨s, hs, h⟩
    · exact ⟨u', by simp, ha.trans h⟩
    · exact ⟨v', by simp, ha.trans h⟩
    · exact ⟨s, by simp [hs], ha.trans h⟩
  · rcases hv with h | h | ⟨s, hs, h⟩
    · exact ⟨u', by simp, ha.trans h⟩
    · exact ⟨v', by simp, ha.trans h⟩
    · exact ⟨s, by simp [hs], ha.trans h⟩
  · exact ⟨t, by simp [ht], ha⟩

/-- two links through a common end that carries arrowheads on both sides and is an ancestor of one of
    the outer ends (or of S) merge into one link -/
theorem lk_merge {q v w : Nat} {cq cw : Bool} (h1 : Lk D L S q v cq true) (h2 : Lk D L S v w true cw)
    (hanc : Anc D v q ∨ Anc D v w ∨ AnS D S v) : Lk D L S q w cq cw := by
  obtain ⟨π1, hne1, iw1, hf1, hl1⟩ := h1
  obtain ⟨π2, hne2, iw2, hf2, hl2⟩ := h2
  refine ⟨π1 ++ π2, by simp [hne1], ⟨?_, ?_, ?_⟩, ?_, ?_⟩
  · rw [validW_append, iw1.endn]; exact ⟨iw1.valid, iw2.valid⟩
  · rw [endNode_append, iw1.endn, iw2.endn]
  · rw [openP_append, iw1.endn, hl1 rfl]
    constructor
    · exact OpenP.mono (fun x hx => ancOf_mono (Or.inl (Anc.refl q)) hanc hx) π1 none q iw1.opn
    · cases π2 with
      | nil => exact absurd rfl hne2
      | cons p2 ps2 =>
        have hmp : p2.mp = .head := hf2 rfl p2 (by simp)
        have hrest := (OpenP.mono (fun x hx =>
          ancOf_mono (u' := q) (v' := w) hanc (Or.inr (Or.inl (Anc.refl w))) hx) (p2 :: ps2) none v iw2.opn).2
        refine ⟨?_, hrest⟩
        simp only [condPO, condP, hmp, and_self, if_true]
        rcases hanc with h | h | ⟨s, hs, h⟩
        · exact ⟨q, by simp, h⟩
        · exact ⟨w, by simp, h⟩
        · exact ⟨s, by simp [hs], h⟩
  · intro hc p hp
    apply hf1 hc p
    cases π1 with
    | nil => exact absurd rfl hne1
    | cons a b => simpa using hp
  · intro hc
    rw [exitMark_append none none π1 π2 hne2]
    exact hl2 hc

/-- weakening of the end flags -/
theorem lk_weaken {u v : Nat} {cu cv cu' cv' : Bool} (h : Lk D L S u v cu cv)
    (h1 : cu' = true → cu = true) (h2 : cv' = true → cv = true) : Lk D L S u v cu' cv' := by
  obtain ⟨π, hne, iw, hf, hl⟩ := h
  exact ⟨π, hne, iw, fun hc => hf (h1 hc), fun hc => hl (h2 hc)⟩

open Classical in
/-- the mark at `b` of the M-edge between `a` and `b` -/
noncomputable def mkAt (D : MG) (S : List Nat) (a b : Nat) : Mark :=
  if TailAt D S a b then .tail else .head

theorem mkAt_tail {a b : Nat} : mkAt D S a b = .tail ↔ TailAt D S a b := by
  unfold mkAt; split <;> simp [*]

/-- a link between distinct observed nodes is an M-edge -/
theorem edge_of_lk (su : Setup D L S M) {u v : Nat} {cu cv : Bool} (hu : Obs D L S u) (hv : Obs D L S v)
    (huv : u ≠ v) (h : Lk D L S u v cu cv) : HasEdge M u v (mkAt D S v u) (mkAt D S u v) := by
  obtain ⟨π, _, iw, _, _⟩ := h
  exact hasEdge_of_info su.hs
    ⟨hu.1, hv.1, huv, Or.inl (ind_of_IW su hu.1 huv iw), hu.2.1, hu.2.2, hv.2.1, hv.2.2, mkAt_tail, mkAt_tail⟩

/-- not a strict ancestor of `S ∪ {a}` -/
theorem mkAt_head {a b : Nat} (hS : ¬ AnS D S b) (hab : ¬ Anc D b a) : mkAt D S a b = .head := by
  cases h : mkAt D S a b with
  | head => rfl
  | tail =>
    exfalso
    obtain ⟨t, ht, c, hc, hct⟩ := mkAt_tail.mp h
    rcases List.mem_append.mp ht with ht | ht
    · exact hS ⟨t, ht, Anc.step hc hct⟩
    · simp at ht; subst ht; exact hab (Anc.step hc hct)

end T5b
