import Pw.C08.Spec
open Closure

/-! # C08 proofs, part 1: every rule application is sound; the closure only orients compelled edges -/
namespace C08
open MG

theorem hasDir_iff {G : MG} {a b : Nat} : hasDir G a b = true ↔ (a, b) ∈ G.dir := by
  simp [hasDir]

theorem hasUn_iff {G : MG} {a b : Nat} : hasUn G a b = true ↔ HasUn G a b := by
  simp [hasUn, HasUn]

theorem adj_iff {G : MG} {a b : Nat} : adj G a b = true ↔ Skel G a b := by
  simp [adj, hasDir, hasUn, Skel, or_assoc]

theorem HasUn.symm {G : MG} {a b : Nat} (h : HasUn G a b) : HasUn G b a := Or.symm h

theorem Skel.symm {G : MG} {a b : Nat} (h : Skel G a b) : Skel G b a := by
  unfold Skel at *
  rcases h with h | h | h | h
  · exact Or.inr (Or.inl h)
  · exact Or.inl h
  · exact Or.inr (Or.inr (Or.inr h))
  · exact Or.inr (Or.inr (Or.inl h))

theorem HasUn.skel {G : MG} {a b : Nat} (h : HasUn G a b) : Skel G a b := by
  unfold Skel; unfold HasUn at h
  rcases h with h | h
  · exact Or.inr (Or.inr (Or.inl h))
  · exact Or.inr (Or.inr (Or.inr h))

theorem HasUn.skel' {G : MG} {a b : Nat} (h : HasUn G a b) : Skel G b a := h.skel.symm

theorem mem_orient_dir {G : MG} {i j : Nat} {e : Nat × Nat} :
    e ∈ (orient G i j).dir ↔ e ∈ G.dir ∨ e = (i, j) := by
  simp [orient]

theorem mem_orient_un {G : MG} {i j : Nat} {e : Nat × Nat} :
    e ∈ (orient G i j).un ↔ e ∈ G.un ∧ e ≠ (i, j) ∧ e ≠ (j, i) := by
  simp [orient]

@[simp] theorem orient_nodes {G : MG} {i j : Nat} : (orient G i j).nodes = G.nodes := rfl

theorem skel_orient {G : MG} {i j : Nat} (h : HasUn G i j) (a b : Nat) :
    Skel (orient G i j) a b ↔ Skel G a b := by
  unfold Skel
  simp only [mem_orient_dir, mem_orient_un, Prod.mk.injEq, ne_eq]
  unfold HasUn at h
  constructor
  · rintro ((h1 | ⟨rfl, rfl⟩) | (h1 | ⟨rfl, rfl⟩) | ⟨h1, _⟩ | ⟨h1, _⟩)
    · exact Or.inl h1
    · rcases h with h | h
      · exact Or.inr (Or.inr (Or.inl h))
      · exact Or.inr (Or.inr (Or.inr h))
    · exact Or.inr (Or.inl h1)
    · rcases h with h | h
      · exact Or.inr (Or.inr (Or.inr h))
      · exact Or.inr (Or.inr (Or.inl h))
    · exact Or.inr (Or.inr (Or.inl h1))
    · exact Or.inr (Or.inr (Or.inr h1))
  · rintro (h1 | h1 | h1 | h1)
    · exact Or.inl (Or.inl h1)
    · exact Or.inr (Or.inl (Or.inl h1))
    · by_cases e1 : a = i ∧ b = j
      · exact Or.inl (Or.inr e1)
      · by_cases e2 : a = j ∧ b = i
        · exact Or.inr (Or.inl (Or.inr ⟨e2.2, e2.1⟩))
        · exact Or.inr (Or.inr (Or.inl ⟨h1, e1, e2⟩))
    · by_cases e1 : b = i ∧ a = j
      · exact Or.inr (Or.inl (Or.inr e1))
      · by_cases e2 : b = j ∧ a = i
        · exact Or.inl (Or.inr ⟨e2.2, e2.1⟩)
        · exact Or.inr (Or.inr (Or.inr ⟨h1, e1, e2⟩))

theorem simple_orient {G : MG} {i j : Nat} (hs : Simple G) : Simple (orient G i j) := by
  intro a b hab
  rw [mem_orient_dir] at hab
  simp only [mem_orient_un, ne_eq, Prod.mk.injEq]
  rcases hab with hab | hab
  · have := hs a b hab
    exact ⟨fun h => this.1 h.1, fun h => this.2 h.1⟩
  · cases hab
    exact ⟨fun h => h.2.1 ⟨rfl, rfl⟩, fun h => h.2.2 ⟨rfl, rfl⟩⟩

/-- an extension that contains `i -> j` is still an extension after orienting `i - j` -/
theorem ext_orient {G D : MG} {i j : Nat} (hD : ConsistentExt G D) (h : HasUn G i j)
    (hij : (i, j) ∈ D.dir) : ConsistentExt (orient G i j) D where
  nodes := hD.nodes
  noUn := hD.noUn
  acyclic := hD.acyclic
  skel := fun a b => (hD.skel a b).trans (skel_orient h a b).symm
  dir := by
    intro e he
    rcases mem_orient_dir.mp he with he | rfl
    · exact hD.dir e he
    · exact hij
  vstruct := by
    intro a c b
    constructor
    · intro hv
      obtain ⟨h1, h2, h3, h4⟩ := (hD.vstruct a c b).mp hv
      exact ⟨mem_orient_dir.mpr (Or.inl h1), mem_orient_dir.mpr (Or.inl h2), h3,
        fun hs => h4 ((skel_orient h a b).mp hs)⟩
    · rintro ⟨h1, h2, h3, h4⟩
      refine ⟨?_, ?_, h3, fun hs => h4 ((skel_orient h a b).mpr ((hD.skel a b).mp hs))⟩
      · rcases mem_orient_dir.mp h1 with h1 | h1
        · exact hD.dir _ h1
        · rw [h1]; exact hij
      · rcases mem_orient_dir.mp h2 with h2 | h2
        · exact hD.dir _ h2
        · rw [h2]; exact hij

/-- in an extension every skeleton edge is directed one way -/
theorem ext_dir_of_skel {G D : MG} (hD : ConsistentExt G D) {a b : Nat} (h : Skel G a b) :
    (a, b) ∈ D.dir ∨ (b, a) ∈ D.dir := by
  have := (hD.skel a b).mpr h
  unfold Skel at this
  rw [hD.noUn] at this
  simpa using this

/-! ## soundness of the four rule conditions -/

/-- to show `i -> j` compelled it suffices to refute `j -> i` in every extension -/
theorem compelled_of_not_rev {G : MG} {i j : Nat} (h : HasUn G i j)
    (hno : ∀ D, ConsistentExt G D → (j, i) ∈ D.dir → False) : Compelled G i j := by
  intro D hD
  have hs : Skel G i j := h.skel
  rcases ext_dir_of_skel hD hs with h1 | h1
  · exact h1
  · exact (hno D hD h1).elim

theorem cond1_sound {G : MG} {i j : Nat} (hs : Simple G) (hu : HasUn G i j)
    (hc : cond1 G i j = true) : Compelled G i j := by
  apply compelled_of_not_rev hu
  intro D hD hji
  simp only [cond1, List.any_eq_true, Bool.not_eq_true'] at hc
  obtain ⟨k, hk, hkj⟩ := hc
  have hki : (k, i) ∈ G.dir := mem_parents.mp hk
  have hnadj : ¬ Skel G k j := by
    intro h; have := adj_iff.mpr h; rw [hkj] at this; cases this
  have hkj' : k ≠ j := by
    rintro rfl
    have := hs _ _ hki
    rcases hu with h | h
    · exact this.2 h
    · exact this.1 h
  have hv : VStruct D k i j := ⟨hD.dir _ hki, hji, hkj', fun h => hnadj ((hD.skel k j).mp h)⟩
  have hv' := (hD.vstruct k i j).mp hv
  have := hs _ _ hv'.2.1
  rcases hu with h | h
  · exact this.2 h
  · exact this.1 h

theorem anc_of_mem_ancS {G : MG} {v k : Nat} (h : k ∈ ancS G v) : Anc G k v := by
  simp only [ancS, List.mem_filter] at h
  obtain ⟨h, _⟩ := h
  rw [mem_closure] at h
  obtain ⟨w, hw, _, hr⟩ := h
  exact (reach_parents_anc hr).tail (mem_parents.mp hw)

theorem anc_of_mem_descS {G : MG} {v k : Nat} (h : k ∈ descS G v) : Anc G v k := by
  simp only [descS, List.mem_filter] at h
  obtain ⟨h, _⟩ := h
  rw [mem_closure] at h
  obtain ⟨w, hw, _, hr⟩ := h
  exact Anc.step (mem_children.mp hw) (reach_children_anc hr)

theorem anc_mono {G D : MG} (h : ∀ e ∈ G.dir, e ∈ D.dir) {a b : Nat} (ha : Anc G a b) : Anc D a b := by
  induction ha with
  | refl => exact Anc.refl _
  | step e _ ih => exact Anc.step (h _ e) ih

theorem cond2_sound {G : MG} {i j : Nat} (hu : HasUn G i j)
    (hc : cond2 G i j = true) : Compelled G i j := by
  apply compelled_of_not_rev hu
  intro D hD hji
  simp only [cond2, List.any_eq_true, List.mem_filter, decide_eq_true_eq] at hc
  obtain ⟨k, ⟨hk1, _⟩, hk2, _⟩ := hc
  have h1 : Anc G i j := (anc_of_mem_descS hk1).trans (anc_of_mem_ancS hk2)
  exact hD.acyclic j i hji (anc_mono hD.dir h1)

theorem mem_combos {l : List Nat} {a b : Nat} (h : (a, b) ∈ combos l) (hn : l.Nodup) :
    a ∈ l ∧ b ∈ l ∧ a ≠ b := by
  induction l with
  | nil => simp [combos] at h
  | cons x t ih =>
    simp only [combos, List.mem_append, List.mem_map, Prod.mk.injEq] at h
    rw [List.nodup_cons] at hn
    rcases h with ⟨y, hy, rfl, rfl⟩ | h
    · exact ⟨List.mem_cons_self, List.mem_cons_of_mem _ hy, fun e => hn.1 (e ▸ hy)⟩
    · obtain ⟨h1, h2, h3⟩ := ih h hn.2
      exact ⟨List.mem_cons_of_mem _ h1, List.mem_cons_of_mem _ h2, h3⟩

theorem cond3_sound {G : MG} {inner : List Nat} {i j : Nat} (hs : Simple G) (hin : inner.Nodup)
    (hu : HasUn G i j) (hc : cond3 G inner i j = true) : Compelled G i j := by
  apply compelled_of_not_rev hu
  intro D hD hji
  simp only [cond3, List.any_eq_true] at hc
  obtain ⟨⟨k, l⟩, hkl, hc⟩ := hc
  simp only [Bool.and_eq_true, Bool.not_eq_true', Bool.or_eq_false_iff, Bool.not_eq_false'] at hc
  obtain ⟨⟨⟨hnadj, _, hkj⟩, _, hlj⟩, hki, hli⟩ := hc
  have hne : k ≠ l := (mem_combos hkl (List.Pairwise.filter _ hin)).2.2
  rw [hasDir_iff] at hkj hlj
  rw [hasUn_iff] at hki hli
  have hnadj' : ¬ Skel G k l := by
    intro h; have := adj_iff.mpr h; rw [hnadj] at this; cases this
  -- k -> i and l -> i in D, otherwise a cycle through j
  have hkD : (k, i) ∈ D.dir := by
    rcases ext_dir_of_skel hD hki.skel with h | h
    · exact h
    · exact (hD.acyclic j i hji (Anc.step h (Anc.step (hD.dir _ hkj) (Anc.refl _)))).elim
  have hlD : (l, i) ∈ D.dir := by
    rcases ext_dir_of_skel hD hli.skel with h | h
    · exact h
    · exact (hD.acyclic j i hji (Anc.step h (Anc.step (hD.dir _ hlj) (Anc.refl _)))).elim
  have hv' := (hD.vstruct k i l).mp ⟨hkD, hlD, hne, fun h => hnadj' ((hD.skel k l).mp h)⟩
  have := hs _ _ hv'.1
  rcases hki with h | h
  · exact this.1 h
  · exact this.2 h

theorem cond4_sound {G : MG} {inner : List Nat} {i j : Nat} (hs : Simple G)
    (hu : HasUn G i j) (hc : cond4 G inner i j = true) : Compelled G i j := by
  apply compelled_of_not_rev hu
  intro D hD hji
  simp only [cond4, List.any_eq_true] at hc
  obtain ⟨k, _, hc⟩ := hc
  simp only [Bool.and_eq_true, Bool.not_eq_true', Bool.or_eq_false_iff, Bool.not_eq_false',
    List.any_eq_true, beq_eq_false_iff_ne] at hc
  obtain ⟨⟨⟨hkj, hik⟩, hnadj⟩, l, hl, hlj⟩ := hc
  rw [hasUn_iff] at hik
  rw [hasDir_iff] at hlj
  have hkl : (k, l) ∈ G.dir := mem_children.mp hl
  have hnadj' : ¬ Skel G k j := by
    intro h; have := adj_iff.mpr h; rw [hnadj] at this; cases this
  have hkD : (k, i) ∈ D.dir := by
    rcases ext_dir_of_skel hD hik.skel' with h | h
    · exact h
    · exact (hD.acyclic j i hji
        (Anc.step h (Anc.step (hD.dir _ hkl) (Anc.step (hD.dir _ hlj) (Anc.refl _))))).elim
  have hv' := (hD.vstruct k i j).mp ⟨hkD, hji, hkj, fun h => hnadj' ((hD.skel k j).mp h)⟩
  have := hs _ _ hv'.1
  rcases hik with h | h
  · exact this.2 h
  · exact this.1 h

end C08
