import Pw.C17.Bfs
import Pw.C16.Corollaries
open Closure

/-! # C16: the level-synchronous loop of `_single_shortest_path_early_stop`, literally, and its refinement
to the worklist closure used by `possibleDescendants` / `possibleAncestors`

```
while nextlevel and cutoff > level:          # cutoff = inf
    thislevel = nextlevel; nextlevel = {}
    for v in thislevel:
        for w in G.neighbors(v):
            if w not in paths and valid_path(G, v, w):
                paths[w] = …; nextlevel[w] = 1
```
`levelStep` is the `for v in thislevel` loop (`C17.pushNew` is its inner loop: append the successors that are
not yet keys of `paths`), `levelRun` the `while` loop (one level per unit of fuel), result = the keys of
`paths`. -/
namespace C16
open C17
variable {α : Type} [DecidableEq α]

def levelStep (step : α → List α) : List α → List α → List α → List α × List α
  | [], next, seen => (next, seen)
  | v :: level, next, seen =>
    levelStep step level (pushNew (step v) next seen).1 (pushNew (step v) next seen).2

def levelRun (step : α → List α) : Nat → List α → List α → List α
  | 0, _, seen => seen
  | _ + 1, [], seen => seen
  | fuel + 1, v :: level, seen =>
    levelRun step fuel (levelStep step (v :: level) [] seen).1 (levelStep step (v :: level) [] seen).2

/-- number of members of the universe that are not yet keys of `paths` -/
def unseen (U seen : List α) : Nat := U.countP fun u => decide (u ∉ seen)

theorem levelStep_spec (U : List α) (step : α → List α) (init : List α)
    (hstep : ∀ a ∈ U, ∀ b ∈ step a, b ∈ U) :
    ∀ (level next seen : List α),
      (∀ a ∈ level ++ next, a ∈ seen) → (∀ a ∈ seen, a ∈ U) →
      (∀ a ∈ seen, ∃ w ∈ init, Reach U step w a) →
      (∀ a ∈ seen, a ∉ level ++ next → ∀ b ∈ step a, b ∈ seen) →
      (∀ a ∈ (levelStep step level next seen).1, a ∈ (levelStep step level next seen).2) ∧
      (∀ a ∈ seen, a ∈ (levelStep step level next seen).2) ∧
      (∀ a ∈ (levelStep step level next seen).2, a ∈ U) ∧
      (∀ a ∈ (levelStep step level next seen).2, ∃ w ∈ init, Reach U step w a) ∧
      (∀ a ∈ (levelStep step level next seen).2, a ∉ (levelStep step level next seen).1 →
        ∀ b ∈ step a, b ∈ (levelStep step level next seen).2) ∧
      (levelStep step level next seen).1.length + unseen U (levelStep step level next seen).2 ≤
        next.length + unseen U seen := by
  intro level
  induction level with
  | nil =>
    intro next seen h1 h2 h3 h4
    simp only [levelStep, List.nil_append] at h1 h4 ⊢
    exact ⟨h1, fun a h => h, h2, h3, h4, Nat.le_refl _⟩
  | cons v level ih =>
    intro next seen h1 h2 h3 h4
    rw [levelStep]
    have hvs : v ∈ seen := h1 v (by simp)
    have hvU : v ∈ U := h2 v hvs
    have hsv : ∀ n ∈ step v, n ∈ U := hstep v hvU
    obtain ⟨b1, b0, b2, b3, b4, b5⟩ := ih (pushNew (step v) next seen).1 (pushNew (step v) next seen).2
      (by
        intro a ha
        rw [mem_pushNew_seen]
        rcases List.mem_append.mp ha with h | h
        · exact Or.inl (h1 a (by simp [h]))
        · rcases (mem_pushNew_queue _ _ _ _).mp h with h' | h'
          · exact Or.inl (h1 a (by simp [h']))
          · exact Or.inr h'.1)
      (by
        intro a ha
        rcases (mem_pushNew_seen _ _ _ _).mp ha with h | h
        · exact h2 a h
        · exact hsv a h)
      (by
        intro a ha
        rcases (mem_pushNew_seen _ _ _ _).mp ha with h | h
        · exact h3 a h
        · obtain ⟨w, hw, hr⟩ := h3 v hvs
          exact ⟨w, hw, Reach.tail hr ⟨h, hsv a h⟩⟩)
      (by
        intro a ha hn b hb
        rw [mem_pushNew_seen]
        have hnl : a ∉ level := fun h => hn (List.mem_append_left _ h)
        have hnq : a ∉ (pushNew (step v) next seen).1 := fun h => hn (List.mem_append_right _ h)
        by_cases hav : a = v
        · subst hav; exact Or.inr hb
        · by_cases hs : a ∈ seen
          · have : a ∉ (v :: level) ++ next := by
              intro hm
              rcases List.mem_append.mp hm with hm | hm
              · rcases List.mem_cons.mp hm with e | hm
                · exact hav e
                · exact hnl hm
              · exact hnq ((mem_pushNew_queue _ _ _ _).mpr (Or.inl hm))
            exact Or.inl (h4 a hs this b hb)
          · rcases (mem_pushNew_seen _ _ _ _).mp ha with h | h
            · exact absurd h hs
            · exact absurd ((mem_pushNew_queue _ _ _ _).mpr (Or.inr ⟨h, hs⟩)) hnq)
    refine ⟨b1, fun a ha => b0 a ((mem_pushNew_seen _ _ _ _).mpr (Or.inl ha)), b2, b3, b4, ?_⟩
    have := work_pushNew U (step v) next seen hsv
    unfold work at this
    unfold unseen at b5 ⊢
    omega

theorem levelRun_spec (U : List α) (step : α → List α) (init : List α)
    (hstep : ∀ a ∈ U, ∀ b ∈ step a, b ∈ U) :
    ∀ (fuel : Nat) (level seen : List α), (level = [] ∨ unseen U seen + 1 ≤ fuel) →
      (∀ a ∈ level, a ∈ seen) → (∀ a ∈ seen, a ∈ U) →
      (∀ a ∈ seen, ∃ w ∈ init, Reach U step w a) →
      (∀ a ∈ seen, a ∉ level → ∀ b ∈ step a, b ∈ seen) →
      (∀ a ∈ seen, a ∈ levelRun step fuel level seen) ∧
      (∀ a ∈ levelRun step fuel level seen, ∃ w ∈ init, Reach U step w a) ∧
      (∀ a ∈ levelRun step fuel level seen, ∀ b ∈ step a, b ∈ levelRun step fuel level seen) := by
  intro fuel
  induction fuel with
  | zero =>
    intro level seen hf _ _ h3 h4
    rcases hf with rfl | hf
    · exact ⟨fun a h => h, h3, fun a ha => h4 a ha (by simp)⟩
    · omega
  | succ fuel ih =>
    intro level seen hf h1 h2 h3 h4
    cases level with
    | nil => exact ⟨fun a h => h, h3, fun a ha => h4 a ha (by simp)⟩
    | cons v level =>
      have hf' : unseen U seen + 1 ≤ fuel + 1 := by
        rcases hf with h | h
        · cases h
        · exact h
      rw [levelRun]
      obtain ⟨b1, b0, b2, b3, b4, b5⟩ := levelStep_spec U step init hstep (v :: level) [] seen
        (by simpa using h1) h2 h3 (by simpa using h4)
      obtain ⟨r1, r2, r3⟩ := ih (levelStep step (v :: level) [] seen).1 (levelStep step (v :: level) [] seen).2
        (by
          cases hq : (levelStep step (v :: level) [] seen).1 with
          | nil => exact Or.inl rfl
          | cons c q =>
            right
            rw [hq] at b5
            simp only [List.length_cons, List.length_nil] at b5
            omega)
        b1 b2 b3 b4
      exact ⟨fun a ha => r1 a (b0 a ha), r2, r3⟩

/-- ★ the level-synchronous loop, given `|U| + 1` levels of fuel, ends with `paths.keys()` = the set
    reachable from the source -/
theorem mem_levelRun (U : List α) (step : α → List α) (s : α) (hs : s ∈ U)
    (hstep : ∀ a ∈ U, ∀ b ∈ step a, b ∈ U) (r : α) :
    r ∈ levelRun step (U.length + 1) [s] [s] ↔ r ∈ closure U step [s] := by
  rw [mem_closure]
  have hu : unseen U [s] + 1 ≤ U.length + 1 := by
    unfold unseen
    have := List.countP_le_length (p := fun u => decide (u ∉ [s])) (l := U)
    omega
  obtain ⟨h1, h2, h3⟩ := levelRun_spec U step [s] hstep (U.length + 1) [s] [s] (Or.inr hu) (fun a h => h)
    (by intro a ha; simp only [List.mem_singleton] at ha; exact ha ▸ hs)
    (fun a ha => ⟨a, ha, Reach.refl a⟩) (fun a ha hn => absurd ha hn)
  constructor
  · intro hr
    obtain ⟨w, hw, hreach⟩ := h2 r hr
    simp only [List.mem_singleton] at hw
    subst hw
    exact ⟨w, by simp, hs, hreach⟩
  · rintro ⟨w, hw, -, hreach⟩
    simp only [List.mem_singleton] at hw
    subst hw
    induction hreach with
    | refl => exact h1 w (by simp)
    | tail _ hst ih => exact h3 _ ih _ hst.1

/-! ## instantiation -/

theorem pdStep_nodes (G : MG) (rev : Bool) : ∀ a ∈ G.nodes, ∀ b ∈ pdStep G rev a, b ∈ G.nodes := by
  intro a _ b hb
  unfold pdStep at hb
  exact (mem_nbrs.mp (List.mem_filter.mp hb).1).1

/-- `possible_descendants` / `possible_ancestors` with the literal loop of `single_source_shortest_mixed_path` -/
def possibleLoop (G : MG) (rev : Bool) (s : Nat) : List Nat :=
  levelRun (pdStep G rev) (G.nodes.length + 1) [s] [s]

/-- ★ the closure model of `possible_descendants` is the literal level-by-level BFS -/
theorem mem_possibleLoop_desc {G : MG} {s : Nat} (hs : s ∈ G.nodes) (v : Nat) :
    v ∈ possibleLoop G false s ↔ v ∈ possibleDescendants G s :=
  mem_levelRun G.nodes (pdStep G false) s hs (pdStep_nodes G false) v

theorem mem_possibleLoop_anc {G : MG} {s : Nat} (hs : s ∈ G.nodes) (v : Nat) :
    v ∈ possibleLoop G true s ↔ v ∈ possibleAncestors G s :=
  mem_levelRun G.nodes (pdStep G true) s hs (pdStep_nodes G true) v

end C16
