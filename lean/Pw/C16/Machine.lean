import Pw.C16.Proofs

/-! # C16: the `while stack:` loop of `_all_semi_directed_paths_graph`, literally, and its refinement to
the recursive model `dfs`

`run` is the loop as a state machine, one iteration per unit of fuel: the state is the stack of
neighbour iterators (each the list of neighbours not yet consumed), and `visited` (reversed, so its
head is `prev_nodes[-1]`).  Output = the yielded paths in order.
`run_refines_dfs`: after finitely many iterations the stack is empty and the yielded paths are exactly
`dfs` – so the recursive model used everywhere else *is* the loop. -/
namespace C16

/-- yields of the `len(visited) == cutoff` branch when the iterator still holds `l` (current `nbr` first) -/
def sweep (G : MG) (T : List Nat) (vis : List Nat) (prev : Nat) (l : List Nat) : List (List Nat) :=
  (l.filter fun t => decide (t ∈ T) && decide (t ∉ vis) && !decide (Arrow G t prev)).map fun t => (t :: vis).reverse

/-- the loop; `vis = prev :: before` is never empty while the stack is non-empty -/
def run (G : MG) (T : List Nat) (cutoff : Nat) : Nat → List (List Nat) → List Nat → List (List Nat)
  | 0, _, _ => []
  | _ + 1, [], _ => []                                            -- `while stack:` ends
  | fuel + 1, [] :: rest, vis => run G T cutoff fuel rest vis.tail   -- `nbr is None`: pop
  | fuel + 1, (nbr :: nbrs') :: rest, vis =>
    let prev := vis.headD 0
    if skip G vis prev nbr then run G T cutoff fuel (nbrs' :: rest) vis          -- `continue`
    else if vis.length < cutoff then
      if nbr ∈ vis then run G T cutoff fuel (nbrs' :: rest) vis                  -- `continue`
      else
        (if nbr ∈ T then [(nbr :: vis).reverse] else []) ++                       -- `yield`
        (if T.any (fun t => decide (t ∉ nbr :: vis)) then
            run G T cutoff fuel (nbrs G nbr :: nbrs' :: rest) (nbr :: vis)       -- push
          else run G T cutoff fuel (nbrs' :: rest) vis)                          -- `visited.popitem()`
    else
      sweep G T vis prev (nbr :: nbrs') ++ run G T cutoff fuel rest vis.tail     -- final sweep, pop

/-- what one frame contributes: the recursion the machine defunctionalises -/
def body (G : MG) (T : List Nat) : Nat → Nat → List Nat → List Nat → List (List Nat)
  | _, _, _, [] => []
  | rem, prev, before, nbr :: nbrs' =>
    if skip G (prev :: before) prev nbr then body G T rem prev before nbrs'
    else if 2 ≤ rem then
      if nbr ∈ prev :: before then body G T rem prev before nbrs'
      else
        (if nbr ∈ T then [(nbr :: prev :: before).reverse] else []) ++
        (if T.any (fun t => decide (t ∉ nbr :: prev :: before)) then dfs G T (rem - 1) nbr (prev :: before) else []) ++
        body G T rem prev before nbrs'
    else sweep G T (prev :: before) prev (nbr :: nbrs')

theorem body_eq_dfs_two (G : MG) (T : List Nat) (rem prev : Nat) (before frame : List Nat) :
    body G T (rem + 2) prev before frame =
      frame.flatMap fun nbr =>
        if skip G (prev :: before) prev nbr then []
        else if nbr ∈ prev :: before then []
        else
          (if nbr ∈ T then [(nbr :: prev :: before).reverse] else []) ++
          (if T.any (fun t => decide (t ∉ nbr :: prev :: before)) then dfs G T (rem + 1) nbr (prev :: before)
           else []) := by
  induction frame with
  | nil => rfl
  | cons nbr nbrs' ih =>
    rw [body, List.flatMap_cons, ih]
    by_cases h1 : skip G (prev :: before) prev nbr = true
    · simp [h1]
    · by_cases h2 : nbr ∈ prev :: before
      · simp [h1, h2]
      · simp [h1, h2]

theorem body_eq_dfs_one (G : MG) (T : List Nat) (prev : Nat) (before frame : List Nat) :
    body G T 1 prev before frame =
      match frame.dropWhile (skip G (prev :: before) prev) with
      | [] => []
      | nbr :: rest => sweep G T (prev :: before) prev (nbr :: rest) := by
  induction frame with
  | nil => rfl
  | cons nbr nbrs' ih =>
    rw [body, List.dropWhile_cons]
    by_cases h1 : skip G (prev :: before) prev nbr = true
    · simp only [h1, if_true, ih]
    · simp [h1]

/-- the frame of a node is the recursive model -/
theorem body_nbrs (G : MG) (T : List Nat) (rem prev : Nat) (before : List Nat) (hrem : 1 ≤ rem) :
    body G T rem prev before (nbrs G prev) = dfs G T rem prev before := by
  match rem, hrem with
  | 1, _ => rw [body_eq_dfs_one, dfs]; rfl
  | rem + 2, _ => rw [body_eq_dfs_two, dfs]

/-- **frame lemma**: started on a stack whose top frame is `frame` (an unconsumed suffix of the
    neighbours of `prev`), with `visited = prev :: before` and `len(visited) + rem = cutoff + 1`, the loop
    yields `body frame`, pops the frame after `k` iterations and continues with the rest of the stack -/
theorem run_frame (G : MG) (T : List Nat) (cutoff : Nat) :
    ∀ (rem : Nat), 1 ≤ rem → ∀ (frame : List Nat) (prev : Nat) (before : List Nat) (rest : List (List Nat)),
      before.length + 1 + rem = cutoff + 1 →
      ∃ k, ∀ fuel, run G T cutoff (fuel + k) (frame :: rest) (prev :: before) =
        body G T rem prev before frame ++ run G T cutoff fuel rest before := by
  intro rem
  induction rem using Nat.strongRecOn with
  | _ rem ihrem =>
    intro hrem frame
    induction frame with
    | nil =>
      intro prev before rest _
      exact ⟨1, fun fuel => by simp [run, body]⟩
    | cons nbr nbrs' ihf =>
      intro prev before rest hlen
      obtain ⟨k2, hk2⟩ := ihf prev before rest hlen
      by_cases h1 : skip G (prev :: before) prev nbr = true
      · refine ⟨k2 + 1, fun fuel => ?_⟩
        rw [← Nat.add_assoc, run, body]
        simp only [List.headD_cons, h1, if_true]
        exact hk2 fuel
      · by_cases hlt : (prev :: before).length < cutoff
        · have h2rem : 2 ≤ rem := by simp at hlt; omega
          by_cases h2 : nbr ∈ prev :: before
          · refine ⟨k2 + 1, fun fuel => ?_⟩
            rw [← Nat.add_assoc, run, body]
            simp only [List.headD_cons, h1, Bool.false_eq_true, if_false, hlt, if_true, h2, h2rem]
            exact hk2 fuel
          · by_cases h3 : (T.any fun t => decide (t ∉ nbr :: prev :: before)) = true
            · -- push the frame of `nbr`; by the outer induction it is processed and popped
              obtain ⟨k1, hk1⟩ := ihrem (rem - 1) (by omega) (by omega) (nbrs G nbr) nbr (prev :: before)
                (nbrs' :: rest) (by simp at hlen ⊢; omega)
              refine ⟨k2 + k1 + 1, fun fuel => ?_⟩
              rw [← Nat.add_assoc, run, body]
              simp only [List.headD_cons, h1, Bool.false_eq_true, if_false, hlt, if_true, h2, h2rem, h3]
              rw [← Nat.add_assoc, hk1 (fuel + k2), hk2 fuel, body_nbrs G T (rem - 1) nbr (prev :: before) (by omega)]
              simp [List.append_assoc]
            · refine ⟨k2 + 1, fun fuel => ?_⟩
              rw [← Nat.add_assoc, run, body]
              simp only [List.headD_cons, h1, Bool.false_eq_true, if_false, hlt, if_true, h2, h2rem, h3]
              rw [hk2 fuel]
              simp [List.append_assoc]
        · have h1rem : ¬ 2 ≤ rem := by simp at hlt; omega
          refine ⟨1, fun fuel => ?_⟩
          rw [run, body]
          simp only [List.headD_cons, h1, Bool.false_eq_true, if_false, hlt, h1rem, List.tail_cons]

/-- ★ **the loop is the recursive model**: started as in the code (`visited = {source}`,
    `stack = [iter(G.neighbors(source))]`) the loop stops after finitely many iterations with an empty
    stack, having yielded exactly `dfs G T cutoff source []`, in that order -/
theorem run_refines_dfs (G : MG) (T : List Nat) (cutoff : Nat) (hc : 1 ≤ cutoff) (s : Nat) :
    ∃ k, ∀ fuel, run G T cutoff (fuel + 1 + k) [nbrs G s] [s] = dfs G T cutoff s [] := by
  obtain ⟨k, hk⟩ := run_frame G T cutoff cutoff hc (nbrs G s) s [] [] (by simp; omega)
  refine ⟨k, fun fuel => ?_⟩
  rw [hk (fuel + 1), body_nbrs G T cutoff s [] hc]
  simp [run]

end C16

namespace C16
/-- the loop run on a concrete graph (`0 o-> 1 <-> 2 -- 3`, `0 o-o 3`, `1 <- 3`; source 0, targets {2,3},
    cutoff 3): 30 iterations suffice, the yields are those of `dfs` -/
example : run ⟨[0, 1, 2, 3], [(0, 1), (3, 1)], [(1, 2)], [(2, 3)], [(1, 0), (0, 3), (3, 0)]⟩ [2, 3] 3 30
    [nbrs ⟨[0, 1, 2, 3], [(0, 1), (3, 1)], [(1, 2)], [(2, 3)], [(1, 0), (0, 3), (3, 0)]⟩ 0] [0] = [[0, 3], [0, 3, 2]] := by
  decide
end C16
