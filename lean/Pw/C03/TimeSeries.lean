import Pw.C03.Stationary
import Pw.C13.Orient
/-! C03 — the stationary time-series CPDAG (built on the C13 model) and the unguarded time-series PAG.

The C13 model (`Pw/C13/Model.lean`, `Pw/C13/Orient.lean`) is the node-level model of
`StationaryTimeSeriesCPDAG`: guard on the *named* node pair, then the entry is stored on / removed
from every homologous copy.  Here the C03 vocabulary is put on top of it:

* `tsBitsAt s p q` – the three CPDAG mark bits of the ordered node pair `(p, q)`;
  `tsBits s p q` – **the pair state of the time-series graph**: the bits of the lag-0-anchored
  representative of the pair.  `tsBits_eq_at` / `tsBitsAt_shift`: by C13's `ShiftClosed` invariant
  all homologous pairs carry the bits of their representative (this is the stationarity hypothesis
  `hstat` of `C03_tscpdag_add_partial`, discharged in `C03_tscpdag_add`);
* the hand-written guard of the C13 model *is* the guard translated from the source, evaluated on the
  pair bits (`guardBad_eq_addC`);
* `C03_tscpdag`: along every history of guarded single/bulk additions, removals,
  `orient_uncertain_edge`, variable/window operations and copies (calling convention
  `C13.COp.Safe`) every node pair is `GoodC`, `is_valid_mec_graph` accepts it, an addition that
  would create contradictory marks raises and leaves the state as it was, every raising operation
  leaves all pair states unchanged, and `orient_uncertain_edge` turns the undirected mark of the
  (time-sorted) pair into an arrowhead and nothing else.

The StationaryTimeSeriesPAG has no guard in the library (known finding C03-tspag-unguarded): for it
only the counterexample `C03_counterexample_tspag` is stated. -/
namespace C03

/-- marks of the ordered node pair `(p, q)` of a time-series CPDAG state (layer 0 = directed,
layer 1 = undirected, looked up in both orientations like `nx.Graph.has_edge`) -/
def tsBitsAt (s : C13.St) (p q : C13.Node) : CBits :=
  ⟨(C13.layerEdges s 0).contains (p, q), (C13.layerEdges s 0).contains (q, p),
   (C13.layerEdges s 1).contains (p, q) || (C13.layerEdges s 1).contains (q, p)⟩

/-- the lag-0-anchored representative of a node pair: both nodes moved towards the present until
the later one is at lag 0 -/
def anchorPair (p q : C13.Node) : C13.Node × C13.Node :=
  ((p.1, p.2 - min p.2 q.2), (q.1, q.2 - min p.2 q.2))

/-- **pair state of a stationary time-series CPDAG**: the marks of the anchored representative -/
def tsBits (s : C13.St) (p q : C13.Node) : CBits :=
  tsBitsAt s (anchorPair p q).1 (anchorPair p q).2

theorem tsBitsAt_swap (s : C13.St) (p q : C13.Node) : (tsBitsAt s q p).swap = tsBitsAt s p q := by
  simp [tsBitsAt, CBits.swap, Bool.or_comm]

theorem tsBitsAt_congr {s t : C13.St} (h : t.layers = s.layers) (p q : C13.Node) :
    tsBitsAt t p q = tsBitsAt s p q := by
  simp [tsBitsAt, C13.layerEdges, h]

/-! ### stationarity of the pair states (from C13's invariant) -/

theorem shiftClosed_layerEdges {s : C13.St} (hi : C13.Inv s) (i : Nat) :
    C13.ShiftClosed s.maxLag (C13.layerEdges s i) := by
  rw [C13.layerEdges_eq]
  cases hL : s.layers[i]? with
  | none => intro x a y b h; simp at h
  | some L => exact (hi.2 L (List.mem_of_getElem? hL)).2.1

theorem contains_shift {m : Nat} {E : List C13.Edge} (hE : C13.ShiftClosed m E) {e e' : C13.Edge}
    (hs : C13.Shift e e') (h1 : e.1.2 ≤ m) (h2 : e.2.2 ≤ m) (h1' : e'.1.2 ≤ m) (h2' : e'.2.2 ≤ m) :
    E.contains e' = E.contains e := by
  rw [Bool.eq_iff_iff]
  simp only [List.contains_eq_mem, decide_eq_true_eq]
  exact ⟨fun h => hE.shift h hs.symm h1 h2, fun h => hE.shift h hs h1' h2'⟩

/-- **homologous node pairs carry equal marks** (the hypothesis `hstat` of the conditional theorems
of `Stationary.lean`), by `ShiftClosed` -/
theorem tsBitsAt_shift {s : C13.St} (hi : C13.Inv s) {p q p' q' : C13.Node}
    (hp : p.2 ≤ s.maxLag) (hq : q.2 ≤ s.maxLag) (hp' : p'.2 ≤ s.maxLag) (hq' : q'.2 ≤ s.maxLag)
    (hx : p'.1 = p.1) (hy : q'.1 = q.1) (hl : p'.2 + q.2 = p.2 + q'.2) :
    tsBitsAt s p' q' = tsBitsAt s p q := by
  have h0 := shiftClosed_layerEdges hi 0
  have h1 := shiftClosed_layerEdges hi 1
  have s1 : C13.Shift (p, q) (p', q') := ⟨hx, hy, hl⟩
  have s2 : C13.Shift (q, p) (q', p') := ⟨hy, hx, by simp only; omega⟩
  simp only [tsBitsAt]
  rw [contains_shift h0 s1 hp hq hp' hq', contains_shift h0 s2 hq hp hq' hp',
    contains_shift h1 s1 hp hq hp' hq', contains_shift h1 s2 hq hp hq' hp']

/-- the pair state (marks of the anchored representative) is the state of the pair itself -/
theorem tsBits_eq_at {s : C13.St} (hi : C13.Inv s) {p q : C13.Node} (hp : p.2 ≤ s.maxLag)
    (hq : q.2 ≤ s.maxLag) : tsBits s p q = tsBitsAt s p q := by
  unfold tsBits anchorPair
  refine tsBitsAt_shift hi hp hq ?_ ?_ rfl rfl ?_
  · simp only; omega
  · simp only; omega
  · simp only; omega

/-! ### `NoConf` is `GoodC` on every node pair -/

theorem goodC_of_noConf {s : C13.St} (hc : C13.NoConf s) (p q : C13.Node) :
    GoodC (tsBitsAt s p q) = true := by
  have h1 := hc p q
  have h2 := hc q p
  simp only [GoodC, tsBitsAt, List.contains_eq_mem]
  by_cases a : (p, q) ∈ C13.layerEdges s 0 <;> by_cases b : (q, p) ∈ C13.layerEdges s 0 <;>
    by_cases c : (p, q) ∈ C13.layerEdges s 1 <;> by_cases d : (q, p) ∈ C13.layerEdges s 1 <;>
    simp [a, b, c, d] at h1 h2 ⊢

theorem noConf_of_goodC {s : C13.St} (h : ∀ p q, GoodC (tsBitsAt s p q) = true) : C13.NoConf s := by
  intro p q hpq
  have h1 := h p q
  simp only [GoodC, tsBitsAt, List.contains_eq_mem] at h1
  by_cases b : (q, p) ∈ C13.layerEdges s 0 <;>
    by_cases c : (p, q) ∈ C13.layerEdges s 1 <;> by_cases d : (q, p) ∈ C13.layerEdges s 1 <;>
    simp [hpq, b, c, d] at h1 ⊢

/-! ### the guard of the C13 model is the guard translated from the source -/

/-- edge type named by a layer index of the CPDAG -/
def layerET : Nat → ET
  | 0 => .directed
  | 1 => .undirected
  | _ => .other

theorem checkCpdag_directed (b : CBits) : checkCpdag .directed b = (b.un || b.directed_vu) := by
  rcases b with ⟨x, y, z⟩
  revert x y z; decide

theorem checkCpdag_undirected (b : CBits) : checkCpdag .undirected b = (b.directed_uv || b.directed_vu) := by
  rcases b with ⟨x, y, z⟩
  revert x y z; decide

theorem addC_snd (t : ET) (ht : t = .directed ∨ t = .undirected) (b : CBits) :
    (addC t b).2 = checkCpdag t b := by
  rcases b with ⟨x, y, z⟩
  rcases ht with rfl | rfl <;> (revert x y z; decide)

/-- **the hand-written guard of the C13 model, on nodes the API accepts, is `_check_adding_cpdag_edge`
as translated from the source, evaluated on the bits of the named pair** -/
theorem guardBad_eq_addC (s : C13.St) (i : Nat) (hi : i = 0 ∨ i = 1) {u v : C13.TNode}
    (hu : u.2 ≤ 0) (hv : v.2 ≤ 0) :
    C13.guardBad C13.cfgCpdag s (.one i) u v =
      (addC (layerET i) (tsBitsAt s (C13.toNode u) (C13.toNode v))).2 := by
  rcases hi with rfl | rfl
  · show _ = (addC ET.directed _).2
    rw [addC_snd _ (Or.inl rfl), checkCpdag_directed]
    simp [C13.guardBad, C13.cfgCpdag, C13.hasUnd, C13.hasDir_eq hu hv, C13.hasDir_eq hv hu, tsBitsAt]
  · show _ = (addC ET.undirected _).2
    rw [addC_snd _ (Or.inr rfl), checkCpdag_undirected]
    simp [C13.guardBad, C13.cfgCpdag, C13.hasDir_eq hu hv, C13.hasDir_eq hv hu, tsBitsAt]

/-! ### the property along histories -/

/-- every node pair of a state satisfying the invariant is `GoodC`, also read through its anchored
representative, and `is_valid_mec_graph` accepts it -/
theorem good_of_cinv {s : C13.St} (h : C13.CInv s) (p q : C13.Node) :
    GoodC (tsBitsAt s p q) = true ∧ GoodC (tsBits s p q) = true ∧ isValidC (tsBitsAt s p q) = true :=
  ⟨goodC_of_noConf h.2.2 p q, goodC_of_noConf h.2.2 _ _, by rw [isValidC_eq_good]; exact goodC_of_noConf h.2.2 p q⟩

/-- **"a mutation that would break this raises and leaves the graph exactly as it was"** -/
theorem ts_add_rejects {s : C13.St} (h : C13.CInv s) (i : Nat) (hi : i = 0 ∨ i = 1) (u v : C13.TNode)
    (hu : u.2 ≤ 0) (hv : v.2 ≤ 0)
    (hbad : GoodC (rawAddC (layerET i) (tsBitsAt s (C13.toNode u) (C13.toNode v))) = false) :
    C13.addEdge C13.cfgCpdag s (.one i) u v = (s, true) := by
  apply C13.addEdge_guard_rejected
  rw [guardBad_eq_addC s i hi hu hv]
  have ht : layerET i = .directed ∨ layerET i = .undirected := by rcases hi with rfl | rfl <;> simp [layerET]
  have := addC_exact (layerET i) ht _ (goodC_of_noConf h.2.2 (C13.toNode u) (C13.toNode v))
  cases hr : (addC (layerET i) (tsBitsAt s (C13.toNode u) (C13.toNode v))).2 with
  | true => rfl
  | false => rw [this.1 hr] at hbad; exact absurd hbad (by simp)

theorem layerEdges_of_layers {t : C13.St} {A B : C13.Layer} (h : t.layers = [A, B]) :
    C13.layerEdges t 0 = A.edges ∧ C13.layerEdges t 1 = B.edges := by
  simp [C13.layerEdges, h]

/-- an accepted guarded addition acts on the named pair exactly like the pair-level model `addC` -/
theorem ts_add_named {s : C13.St} (h : C13.CInv s) (i : Nat) (hi : i = 0 ∨ i = 1) (u v : C13.TNode)
    (huv : u ≠ v) (hacc : (C13.addEdge C13.cfgCpdag s (.one i) u v).2 = false) :
    tsBitsAt (C13.addEdge C13.cfgCpdag s (.one i) u v).1 (C13.toNode u) (C13.toNode v) =
      (addC (layerET i) (tsBitsAt s (C13.toNode u) (C13.toNode v))).1 := by
  have h' := C13.cinv_addEdge h i u v huv
  rw [show C13.addEdge C13.cfgCpdag s (.one i) u v = C13.addEdgeMixed C13.cfgCpdag s (.one i) u v from rfl]
    at hacc h' ⊢
  obtain ⟨hg, hok, _, hlay⟩ := C13.addEdgeMixed_acc hacc
  obtain ⟨hu0, hv0⟩ := C13.okEdge_nonpos hok
  obtain ⟨hlu, hlv, hfw⟩ := C13.okEdge_lags hok
  have hl := h.2.1.layers
  rw [hl] at hlay
  have ht : layerET i = .directed ∨ layerET i = .undirected := by rcases hi with rfl | rfl <;> simp [layerET]
  have hg2 := hg
  rw [guardBad_eq_addC s i hi hu0 hv0] at hg2
  have hraw : (addC (layerET i) (tsBitsAt s (C13.toNode u) (C13.toNode v))).1 =
      rawAddC (layerET i) (tsBitsAt s (C13.toNode u) (C13.toNode v)) := by
    rw [addC_snd _ ht] at hg2
    unfold addC
    rw [if_neg (by simp [hg2])]
    rcases hi with rfl | rfl <;> simp [layerET]
  rw [hraw]
  rcases hi with rfl | rfl
  · -- directed: the named entry is among its own copies
    have hlay' : (C13.addEdgeMixed C13.cfgCpdag s (.one 0) u v).1.layers =
        [⟨.dir, C13.union (C13.layerEdges s 0) (C13.copies .dir s.maxLag (C13.toNode u, C13.toNode v))⟩,
         ⟨.und, C13.layerEdges s 1⟩] := by rw [hlay]; rfl
    obtain ⟨e0, e1⟩ := layerEdges_of_layers hlay'
    simp only at e0 e1
    have hin : (C13.toNode u, C13.toNode v) ∈
        C13.union (C13.layerEdges s 0) (C13.copies .dir s.maxLag (C13.toNode u, C13.toNode v)) :=
      C13.mem_union.2 (Or.inr (C13.shift_mem_copies (k := .dir) hfw (fun hh => by cases hh) hlu hlv rfl))
    have hc' := h'.2.2 _ _ (by rw [e0]; exact hin)
    rw [e0] at hc'
    simp only [C13.guardBad, C13.cfgCpdag, C13.hasUnd, C13.hasDir_eq hu0 hv0, C13.hasDir_eq hv0 hu0,
      Bool.or_eq_false_iff, List.contains_eq_mem, decide_eq_false_iff_not] at hg
    simp only [tsBitsAt, e0, e1, layerET, rawAddC, List.contains_eq_mem]
    simp [hin, hc'.1, hg.2]
  · -- undirected: the canonical form of the named entry is among its copies
    have hlay' : (C13.addEdgeMixed C13.cfgCpdag s (.one 1) u v).1.layers =
        [⟨.dir, C13.layerEdges s 0⟩,
         ⟨.und, C13.union (C13.layerEdges s 1) (C13.copies .und s.maxLag (C13.toNode u, C13.toNode v))⟩] := by
      rw [hlay]; rfl
    obtain ⟨e0, e1⟩ := layerEdges_of_layers hlay'
    simp only at e0 e1
    have hc := C13.self_mem_copies_und (m := s.maxLag) (e := (C13.toNode u, C13.toNode v)) (by
      rcases C13.canonUnd_cases (C13.toNode u, C13.toNode v) with hc | hc <;> rw [hc]
      · exact hlu
      · exact hlv)
    have hin : (C13.toNode u, C13.toNode v) ∈
          C13.union (C13.layerEdges s 1) (C13.copies .und s.maxLag (C13.toNode u, C13.toNode v)) ∨
        (C13.toNode v, C13.toNode u) ∈
          C13.union (C13.layerEdges s 1) (C13.copies .und s.maxLag (C13.toNode u, C13.toNode v)) := by
      rcases C13.canonUnd_cases (C13.toNode u, C13.toNode v) with hcc | hcc <;> rw [hcc] at hc
      · exact Or.inl (C13.mem_union.2 (Or.inr hc))
      · exact Or.inr (C13.mem_union.2 (Or.inr hc))
    simp only [tsBitsAt, e0, e1, layerET, rawAddC, List.contains_eq_mem]
    rcases hin with hh | hh <;> simp [hh]

/-- every raising operation (guard, window, unknown edge type, orient without an undirected edge)
leaves every pair state unchanged -/
theorem ts_atomic {s : C13.St} (h : C13.CInv s) (op : C13.COp) (hr : (C13.cstep s op).2 = true)
    (p q : C13.Node) : tsBitsAt (C13.cstep s op).1 p q = tsBitsAt s p q :=
  tsBitsAt_congr (C13.cstep_rejected h op hr).1 p q

/-- `orient_uncertain_edge(u, v)`, when it does not raise, turns the undirected mark of the pair into
the arrowhead earlier → later (the time-sorted pair `(a, b)`), keeps the rest of the pair (`OrientOnlyC`) -/
theorem ts_orient_only {s : C13.St} (h : C13.CInv s) (u v : C13.TNode) (huv : u ≠ v)
    (hacc : (C13.orientCpdag s u v).2 = false) :
    OrientOnlyC (tsBitsAt s (C13.toNode (C13.sortTime u v).1) (C13.toNode (C13.sortTime u v).2))
      (tsBitsAt (C13.orientCpdag s u v).1 (C13.toNode (C13.sortTime u v).1) (C13.toNode (C13.sortTime u v).2)) := by
  have h' := C13.cinv_orient h u v huv
  rcases C13.orient_spec h u v with ⟨_, h2⟩ | ⟨hund, h2⟩
  · rw [h2] at hacc; simp at hacc
  · obtain ⟨hs1, hs2⟩ := C13.hasUnd_sortTime hund
    obtain ⟨ha0, hb0, hwa, hwb, hmem⟩ := C13.hasUnd_facts h hs1
    generalize C13.sortTime u v = ab at *
    obtain ⟨a, b⟩ := ab
    simp only at hs1 hs2 ha0 hb0 hwa hwb hmem h2 ⊢
    have hfw : C13.lag b ≤ C13.lag a := by simp only [C13.lag]; omega
    have hin : (C13.toNode a, C13.toNode b) ∈
        C13.union (C13.layerEdges s 0) (C13.copies .dir s.maxLag (C13.toNode a, C13.toNode b)) :=
      C13.mem_union.2 (Or.inr (C13.shift_mem_copies (k := .dir) hfw (fun hh => by cases hh) hwa hwb rfl))
    rw [h2] at h' ⊢
    obtain ⟨e0, e1⟩ := layerEdges_of_layers (t := ({ s with layers :=
        [⟨.dir, C13.union (C13.layerEdges s 0) (C13.copies .dir s.maxLag (C13.toNode a, C13.toNode b))⟩,
         ⟨.und, C13.diff (C13.layerEdges s 1) (C13.copies .und s.maxLag (C13.toNode a, C13.toNode b))⟩] } : C13.St))
      rfl
    simp only at e0 e1
    have hc' := h'.2.2 _ _ (by rw [e0]; exact hin)
    rw [e0, e1] at hc'
    have hnd : (C13.toNode b, C13.toNode a) ∉ C13.layerEdges s 0 := by
      intro hh
      obtain ⟨_, k2, k3⟩ := h.2.2 _ _ hh
      rcases hmem with hm | hm
      · exact k3 hm
      · exact k2 hm
    simp only [OrientOnlyC, tsBitsAt, e0, e1, List.contains_eq_mem]
    refine ⟨?_, ?_, ?_, ?_⟩
    · rcases hmem with hm | hm <;> simp [hm]
    · simp [hc'.2.1, hc'.2.2]
    · simp [hin]
    · simp [hc'.1, hnd]

/-- **C03 for the StationaryTimeSeriesCPDAG** (C13 model + C03 pair vocabulary): for every history
inside the calling convention, started from the empty CPDAG with any max_lag, in every state reached
(also after an operation that raised): every node pair, read directly or through its lag-0-anchored
representative, is `GoodC` and accepted by `is_valid_mec_graph`; a single addition of a named edge
type that would create contradictory marks raises and leaves the whole state as it was; every
raising operation leaves all pair states unchanged; a successful `orient_uncertain_edge` changes the
undirected mark of the time-sorted pair into an arrowhead and nothing else on that pair; the state
satisfies the C13 invariant, so homologous pairs carry equal states. -/
theorem C03_tscpdag (m : Nat) (ops : List C13.COp) (hops : ∀ op ∈ ops, op.Safe) :
    ∀ r ∈ C13.crun (C13.init C13.cfgCpdag m) ops,
      (∀ p q, GoodC (tsBitsAt r.1 p q) = true ∧ GoodC (tsBits r.1 p q) = true ∧
        isValidC (tsBitsAt r.1 p q) = true) ∧
      (∀ i, i = 0 ∨ i = 1 → ∀ u v : C13.TNode, u.2 ≤ 0 → v.2 ≤ 0 →
        GoodC (rawAddC (layerET i) (tsBitsAt r.1 (C13.toNode u) (C13.toNode v))) = false →
        C13.cstep r.1 (.op (.addEdge (.one i) u v)) = (r.1, true)) ∧
      (∀ op, (C13.cstep r.1 op).2 = true → ∀ p q, tsBitsAt (C13.cstep r.1 op).1 p q = tsBitsAt r.1 p q) ∧
      (∀ u v : C13.TNode, u ≠ v → (C13.cstep r.1 (.orient u v)).2 = false →
        OrientOnlyC (tsBitsAt r.1 (C13.toNode (C13.sortTime u v).1) (C13.toNode (C13.sortTime u v).2))
          (tsBitsAt (C13.cstep r.1 (.orient u v)).1 (C13.toNode (C13.sortTime u v).1)
            (C13.toNode (C13.sortTime u v).2))) ∧
      (∀ p q p' q' : C13.Node, p.2 ≤ r.1.maxLag → q.2 ≤ r.1.maxLag → p'.2 ≤ r.1.maxLag →
        q'.2 ≤ r.1.maxLag → p'.1 = p.1 → q'.1 = q.1 → p'.2 + q.2 = p.2 + q'.2 →
        tsBitsAt r.1 p' q' = tsBitsAt r.1 p q) := by
  intro r hr
  have h := C13.cinv_crun ops _ (C13.init_cinv m) hops r hr
  exact ⟨good_of_cinv h, fun i hi u v hu hv hbad => ts_add_rejects h i hi u v hu hv hbad,
    fun op hrj p q => ts_atomic h op hrj p q, fun u v huv hacc => ts_orient_only h u v huv hacc,
    fun p q p' q' a b c d e f g => tsBitsAt_shift h.1 a b c d e f g⟩

/-- the "more general" form: one step from any state satisfying the invariants -/
theorem C03_tscpdag_step {s : C13.St} (h : C13.CInv s) (op : C13.COp) (hop : op.Safe) :
    (∀ p q, GoodC (tsBitsAt (C13.cstep s op).1 p q) = true) ∧
      ((C13.cstep s op).2 = true → ∀ p q, tsBitsAt (C13.cstep s op).1 p q = tsBitsAt s p q) :=
  ⟨fun p q => goodC_of_noConf (C13.cinv_cstep h op hop).2.2 p q, fun hr p q => ts_atomic h op hr p q⟩

/-! ### the conditional theorem of `Stationary.lean`, its stationarity hypothesis discharged

`C03_tscpdag_add_partial` speaks about a `PairMap` (pairs of natural numbers) and *assumes* that the
homologous copies of the named pair carry equal marks.  The nodes inside the window `0..m` are numbered
`(x, a) ↦ x * (m + 1) + a` (a bijection), the graph becomes the pair map `toPairMap`, the copies are
the node pairs the C13 model stores the edge on (`C13.homologous`), and the hypothesis follows from
`ShiftClosed` (`tsBitsAt_shift`). -/

def enc (m : Nat) (p : C13.Node) : Nat := p.1 * (m + 1) + p.2
def dec (m : Nat) (i : Nat) : C13.Node := (i / (m + 1), i % (m + 1))

theorem dec_enc {m : Nat} {p : C13.Node} (h : p.2 ≤ m) : dec m (enc m p) = p := by
  obtain ⟨x, a⟩ := p
  simp only at h
  simp only [dec, enc, Prod.mk.injEq]
  rw [Nat.add_comm (x * (m + 1)) a]
  constructor
  · rw [Nat.add_mul_div_right _ _ (by omega), Nat.div_eq_of_lt (by omega)]; omega
  · rw [Nat.add_mul_mod_self_right, Nat.mod_eq_of_lt (by omega)]

theorem dec_window (m i : Nat) : (dec m i).2 ≤ m := by
  have := Nat.mod_lt i (show 0 < m + 1 by omega)
  simp only [dec]; omega

/-- the time-series CPDAG state as a C03 pair map -/
def toPairMap (s : C13.St) : PairMap CBits :=
  fun a b => tsBitsAt s (dec s.maxLag a) (dec s.maxLag b)

theorem rd_toPairMap (s : C13.St) (a b : Nat) :
    (toPairMap s).rd a b = tsBitsAt s (dec s.maxLag a) (dec s.maxLag b) := by
  unfold PairMap.rd
  split
  · rfl
  · exact tsBitsAt_swap s _ _

theorem invC_toPairMap {s : C13.St} (hc : C13.NoConf s) : InvC (toPairMap s) :=
  fun _ _ _ => goodC_of_noConf hc _ _

/-- the node pairs on which the C13 model stores an edge named `(p, q)` (`q` not earlier than `p`),
numbered -/
def homPairs (m : Nat) (p q : C13.Node) : List (Nat × Nat) :=
  (C13.homologous m p.1 (p.2 - q.2) q.1).map fun e => (enc m e.1, enc m e.2)

theorem key_eq {u v u' v' : Nat} (h : PairMap.key u v = PairMap.key u' v') :
    (u = u' ∧ v = v') ∨ (u = v' ∧ v = u') := by
  unfold PairMap.key at h
  split at h <;> split at h <;> simp only [Prod.mk.injEq] at h
  · exact Or.inl h
  · exact Or.inr h
  · exact Or.inr ⟨h.2, h.1⟩
  · exact Or.inl ⟨h.2, h.1⟩

theorem homPairs_distinct (m : Nat) (p q : C13.Node) :
    (homPairs m p q).Pairwise fun e e' => PairMap.key e.1 e.2 ≠ PairMap.key e'.1 e'.2 := by
  unfold homPairs C13.homologous
  rw [List.map_map, List.pairwise_map]
  refine List.Pairwise.imp_of_mem ?_ List.pairwise_lt_range
  intro i j hi hj hij hk
  simp only [List.mem_range] at hi hj
  simp only [Function.comp] at hk
  have inj : ∀ {a b : C13.Node}, a.2 ≤ m → b.2 ≤ m → enc m a = enc m b → a = b := by
    intro a b ha hb hab
    rw [← dec_enc ha, ← dec_enc hb, hab]
  rcases key_eq hk with ⟨h1, _⟩ | ⟨h1, h2⟩
  · have := inj (by simp only; omega) (by simp only; omega) h1
    simp only [Prod.mk.injEq, true_and] at this
    omega
  · have e1 := inj (by simp only; omega) (by simp only; omega) h1
    have e2 := inj (by simp only; omega) (by simp only; omega) h2
    simp only [Prod.mk.injEq] at e1 e2
    omega

/-- **`C03_tscpdag_add_partial` without its stationarity hypothesis**: on a time-series CPDAG state
satisfying the C13 invariant and without contradictory marks, the guarded addition on the named pair
followed by the raw store on all homologous copies leaves no contradictory marks -/
theorem C03_tscpdag_add {s : C13.St} (h : C13.CInv s) (t : ET) (ht : t = .directed ∨ t = .undirected)
    (p q : C13.Node) (hp : p.2 ≤ s.maxLag) (hq : q.2 ≤ s.maxLag) (hf : q.2 ≤ p.2) (hne : p ≠ q) :
    InvC (tsAdd (fun b => (addC t b).2) (rawAddC t) (toPairMap s) (enc s.maxLag p) (enc s.maxLag q)
      (homPairs s.maxLag p q)).1 := by
  refine C03_tscpdag_add_partial t ht _ _ _ _ (invC_toPairMap h.2.2) ?_ (homPairs_distinct _ p q) ?_
  · intro hh
    apply hne
    rw [← dec_enc hp, ← dec_enc hq, hh]
  · intro e he
    simp only [homPairs, List.mem_map] at he
    obtain ⟨e0, he0, rfl⟩ := he
    rw [C13.mem_homologous] at he0
    obtain ⟨i, hi, rfl⟩ := he0
    simp only [rd_toPairMap]
    rw [dec_enc (by simp only; omega), dec_enc (by simp only; omega), dec_enc hp, dec_enc hq]
    exact tsBitsAt_shift h.1 hp hq (by simp only; omega) (by simp only; omega) rfl rfl (by simp only; omega)

-- non-vacuity of `C03_tscpdag_add`: after x(-1) -- y(0) (max_lag 2) the pair (x(-1), y(0)) and its copy
example : (tsAdd (fun b => (addC .directed b).2) (rawAddC .directed)
    (toPairMap (C13.step C13.cfgCpdag (C13.init C13.cfgCpdag 2) (.addEdge (.one 1) (0, -1) (1, 0))).1)
    (enc 2 (0, 1)) (enc 2 (1, 0)) (homPairs 2 (0, 1) (1, 0))).2 = true := by decide
example : homPairs 2 (0, 1) (1, 0) = [(1, 3), (2, 4)] := by decide

/-! ### the C13 model's guarded addition *is* `tsAdd` on the pair map

`tsAdd` (`Stationary.lean`) is the abstract description "guard on the named pair, raw store on all
homologous copies".  For the C13 model of `StationaryTimeSeriesCPDAG.add_edge` this is a theorem:
same raised flag, and the pair map of the resulting state is the pair map `tsAdd` returns
(`toPairMap_addEdge`; pair maps are compared on the stored keys `a < b`). -/

theorem storeCopies_other {σ : Type} [PairState σ] (raw : σ → σ) (a b : Nat) :
    ∀ (copies : List (Nat × Nat)) (g : PairMap σ), (∀ e ∈ copies, (a, b) ≠ PairMap.key e.1 e.2) →
      storeCopies raw g copies a b = g a b
  | [], _, _ => rfl
  | e :: es, g, h => by
    show storeCopies raw (g.wr e.1 e.2 (raw (g.rd e.1 e.2))) es a b = g a b
    rw [storeCopies_other raw a b es _ (fun e' he' => h e' (List.mem_cons_of_mem _ he')),
      PairMap.wr_other g e.1 e.2 _ a b (h e List.mem_cons_self)]

theorem enc_dec (m a : Nat) : enc m (dec m a) = a := by
  simp only [enc, dec]
  exact Nat.div_add_mod' a (m + 1)

theorem addC_fst_of_acc (t : ET) (ht : t = .directed ∨ t = .undirected) (b : CBits)
    (h : (addC t b).2 = false) : (addC t b).1 = rawAddC t b := by
  rcases b with ⟨x, y, z⟩
  rcases ht with rfl | rfl <;> (revert x y z; decide)

theorem addEdgeMixed_maxLag (cfg : C13.Cfg) (s : C13.St) (sel : C13.Sel) (u v : C13.TNode) :
    (C13.addEdgeMixed cfg s sel u v).1.maxLag = s.maxLag := by
  unfold C13.addEdgeMixed
  split
  · rfl
  · split
    · rfl
    · rename_i s1 h1
      obtain ⟨a1, _⟩ := C13.ensureNode_frame h1
      split
      · exact a1
      · rename_i s2 h2
        obtain ⟨a2, _⟩ := C13.ensureNode_frame h2
        split
        · rw [a2, a1]
        · split
          · rw [a2, a1]
          · show s2.maxLag = _; rw [a2, a1]

/-- the copies of an undirected-type edge given earlier node first are the homologous pairs, possibly
stored the other way round (contemporaneous edges: smaller variable first) -/
theorem mem_copies_und_cases {m : Nat} {a b : C13.Node} (hf : b.2 ≤ a.2) {e : C13.Edge}
    (he : e ∈ C13.copies .und m (a, b)) :
    e ∈ C13.homologous m a.1 (a.2 - b.2) b.1 ∨ C13.swap e ∈ C13.homologous m a.1 (a.2 - b.2) b.1 := by
  obtain ⟨x, i⟩ := a
  obtain ⟨y, j⟩ := b
  simp only at hf
  simp only [C13.copies, C13.canonUnd, C13.swap] at he ⊢
  split at he
  · omega
  · split at he
    · rename_i hc
      obtain ⟨hij, _⟩ := hc
      subst hij
      rw [C13.mem_homologous] at he
      obtain ⟨k, hk, rfl⟩ := he
      right
      rw [C13.mem_homologous]
      simp only at hk ⊢
      refine ⟨k, by omega, ?_⟩
      simp
    · exact Or.inl he

/-- with valid nodes, an existing edge type and a passing guard the addition is accepted -/
theorem addEdgeMixed_acc_of {cfg : C13.Cfg} {s : C13.St} {sel : C13.Sel} {u v : C13.TNode}
    (hg : C13.guardBad cfg s sel u v = false) (hok : C13.okEdge s.maxLag u v = true)
    (hs : C13.selOk s.layers.length sel = true) : (C13.addEdgeMixed cfg s sel u v).2 = false := by
  have hv : C13.valid s.maxLag u = true ∧ C13.valid s.maxLag v = true := by
    simp only [C13.okEdge, Bool.and_eq_true] at hok
    exact ⟨hok.1.1, hok.1.2⟩
  have e1 : ∃ s1, C13.ensureNode s u = some s1 := by
    unfold C13.ensureNode
    split
    · exact ⟨_, rfl⟩
    · simp [hv.1]
  obtain ⟨s1, h1⟩ := e1
  obtain ⟨a1, b1⟩ := C13.ensureNode_frame h1
  have e2 : ∃ s2, C13.ensureNode s1 v = some s2 := by
    unfold C13.ensureNode
    split
    · exact ⟨_, rfl⟩
    · rw [a1]; simp [hv.2]
  obtain ⟨s2, h2⟩ := e2
  obtain ⟨a2, b2⟩ := C13.ensureNode_frame h2
  have hs2 : C13.selOk s2.layers.length sel = true := by rw [b2, b1]; exact hs
  have hok2 : C13.okEdge s2.maxLag u v = true := by rw [a2, a1]; exact hok
  simp [C13.addEdgeMixed, hg, h1, h2, hs2, hok2]

section link
variable {s : C13.St} (h : C13.CInv s) (i : Nat) (hi : i = 0 ∨ i = 1) (u v : C13.TNode) (huv : u ≠ v)
  (hacc : (C13.addEdge C13.cfgCpdag s (.one i) u v).2 = false)
include h hi huv hacc

/-- every homologous copy of the named pair gets the raw store -/
theorem ts_add_copy {P Q : C13.Node}
    (hPQ : (P, Q) ∈ C13.homologous s.maxLag (C13.toNode u).1 ((C13.toNode u).2 - (C13.toNode v).2) (C13.toNode v).1) :
    tsBitsAt (C13.addEdge C13.cfgCpdag s (.one i) u v).1 P Q = rawAddC (layerET i) (tsBitsAt s P Q) := by
  have h' := C13.cinv_addEdge h i u v huv
  have hm : (C13.addEdge C13.cfgCpdag s (.one i) u v).1.maxLag = s.maxLag := addEdgeMixed_maxLag _ s _ u v
  have hacc' : (C13.addEdgeMixed C13.cfgCpdag s (.one i) u v).2 = false := hacc
  obtain ⟨hg, hok, _, _⟩ := C13.addEdgeMixed_acc hacc'
  obtain ⟨hu0, hv0⟩ := C13.okEdge_nonpos hok
  obtain ⟨hlu, hlv, hfw⟩ := C13.okEdge_lags hok
  rw [C13.mem_homologous] at hPQ
  obtain ⟨j, hj, hpq⟩ := hPQ
  simp only [Prod.mk.injEq] at hpq
  obtain ⟨rfl, rfl⟩ := hpq
  have ht : layerET i = .directed ∨ layerET i = .undirected := by rcases hi with rfl | rfl <;> simp [layerET]
  have hsh : ∀ t : C13.St, C13.Inv t → t.maxLag = s.maxLag →
      tsBitsAt t ((C13.toNode u).1, (C13.toNode u).2 - (C13.toNode v).2 + j) ((C13.toNode v).1, j) =
        tsBitsAt t (C13.toNode u) (C13.toNode v) := by
    intro t hit hmt
    refine tsBitsAt_shift hit ?_ ?_ ?_ ?_ rfl rfl ?_
    · rw [hmt]; exact hlu
    · rw [hmt]; exact hlv
    · rw [hmt]; simp only [C13.toNode] at hj ⊢; omega
    · rw [hmt]; simp only; omega
    · simp only [C13.toNode] at hfw ⊢; omega
  rw [hsh _ h'.1 hm, hsh s h.1 rfl, ts_add_named h i hi u v huv hacc]
  apply addC_fst_of_acc _ ht
  rw [← guardBad_eq_addC s i hi hu0 hv0]; exact hg

omit huv in
/-- pairs that are no homologous copy of the named pair (in either orientation) keep their marks -/
theorem ts_add_frame {P Q : C13.Node}
    (h1 : (P, Q) ∉ C13.homologous s.maxLag (C13.toNode u).1 ((C13.toNode u).2 - (C13.toNode v).2) (C13.toNode v).1)
    (h2 : (Q, P) ∉ C13.homologous s.maxLag (C13.toNode u).1 ((C13.toNode u).2 - (C13.toNode v).2) (C13.toNode v).1) :
    tsBitsAt (C13.addEdge C13.cfgCpdag s (.one i) u v).1 P Q = tsBitsAt s P Q := by
  have hacc' : (C13.addEdgeMixed C13.cfgCpdag s (.one i) u v).2 = false := hacc
  obtain ⟨_, hok, _, hlay⟩ := C13.addEdgeMixed_acc hacc'
  obtain ⟨_, _, hfw⟩ := C13.okEdge_lags hok
  have hfw' : (C13.toNode v).2 ≤ (C13.toNode u).2 := hfw
  rw [show C13.addEdge C13.cfgCpdag s (.one i) u v = C13.addEdgeMixed C13.cfgCpdag s (.one i) u v from rfl]
  have hl := h.2.1.layers
  rw [hl] at hlay
  rcases hi with rfl | rfl
  · have hlay' : (C13.addEdgeMixed C13.cfgCpdag s (.one 0) u v).1.layers =
        [⟨.dir, C13.union (C13.layerEdges s 0) (C13.copies .dir s.maxLag (C13.toNode u, C13.toNode v))⟩,
         ⟨.und, C13.layerEdges s 1⟩] := by rw [hlay]; rfl
    obtain ⟨e0, e1⟩ := layerEdges_of_layers hlay'
    simp only at e0 e1
    have hcp : C13.copies .dir s.maxLag (C13.toNode u, C13.toNode v) =
        C13.homologous s.maxLag (C13.toNode u).1 ((C13.toNode u).2 - (C13.toNode v).2) (C13.toNode v).1 := by
      simp [C13.copies, hfw']
    simp only [tsBitsAt, e0, e1, List.contains_eq_mem, C13.mem_union, hcp, h1, h2, or_false]
  · have hlay' : (C13.addEdgeMixed C13.cfgCpdag s (.one 1) u v).1.layers =
        [⟨.dir, C13.layerEdges s 0⟩,
         ⟨.und, C13.union (C13.layerEdges s 1) (C13.copies .und s.maxLag (C13.toNode u, C13.toNode v))⟩] := by
      rw [hlay]; rfl
    obtain ⟨e0, e1⟩ := layerEdges_of_layers hlay'
    simp only at e0 e1
    -- the copies of the undirected layer are the homologous pairs, possibly stored the other way round
    have hcp : ∀ e : C13.Edge, e ∈ C13.copies .und s.maxLag (C13.toNode u, C13.toNode v) →
        e ∈ C13.homologous s.maxLag (C13.toNode u).1 ((C13.toNode u).2 - (C13.toNode v).2) (C13.toNode v).1 ∨
        C13.swap e ∈ C13.homologous s.maxLag (C13.toNode u).1 ((C13.toNode u).2 - (C13.toNode v).2) (C13.toNode v).1 :=
      fun e he => mem_copies_und_cases hfw' he
    have n1 : (P, Q) ∉ C13.copies .und s.maxLag (C13.toNode u, C13.toNode v) := fun hh => by
      rcases hcp _ hh with k | k
      · exact h1 k
      · exact h2 k
    have n2 : (Q, P) ∉ C13.copies .und s.maxLag (C13.toNode u, C13.toNode v) := fun hh => by
      rcases hcp _ hh with k | k
      · exact h2 k
      · exact h1 k
    simp only [tsBitsAt, e0, e1, List.contains_eq_mem, C13.mem_union, n1, n2, or_false]

end link

/-- **the guarded `add_edge` of the C13 model of the StationaryTimeSeriesCPDAG is `tsAdd`**: on valid
nodes `u ≠ v` (to-node not earlier) and a named edge type, the call raises iff `tsAdd` on the pair map
does, and the pair map of the state it leaves is the pair map `tsAdd` returns -/
theorem toPairMap_addEdge {s : C13.St} (h : C13.CInv s) (i : Nat) (hi : i = 0 ∨ i = 1) (u v : C13.TNode)
    (huv : u ≠ v) (hok : C13.okEdge s.maxLag u v = true) :
    (C13.addEdge C13.cfgCpdag s (.one i) u v).2 =
      (tsAdd (fun b => (addC (layerET i) b).2) (rawAddC (layerET i)) (toPairMap s)
        (enc s.maxLag (C13.toNode u)) (enc s.maxLag (C13.toNode v))
        (homPairs s.maxLag (C13.toNode u) (C13.toNode v))).2 ∧
    ∀ a b, a < b → toPairMap (C13.addEdge C13.cfgCpdag s (.one i) u v).1 a b =
      (tsAdd (fun b => (addC (layerET i) b).2) (rawAddC (layerET i)) (toPairMap s)
        (enc s.maxLag (C13.toNode u)) (enc s.maxLag (C13.toNode v))
        (homPairs s.maxLag (C13.toNode u) (C13.toNode v))).1 a b := by
  obtain ⟨hu0, hv0⟩ := C13.okEdge_nonpos hok
  obtain ⟨hlu, hlv, hfw⟩ := C13.okEdge_lags hok
  have hne : C13.toNode u ≠ C13.toNode v := fun hh => huv (C13.toNode_inj hu0 hv0 hh)
  have ht : layerET i = .directed ∨ layerET i = .undirected := by rcases hi with rfl | rfl <;> simp [layerET]
  have hchk : (addC (layerET i) ((toPairMap s).rd (enc s.maxLag (C13.toNode u)) (enc s.maxLag (C13.toNode v)))).2 =
      C13.guardBad C13.cfgCpdag s (.one i) u v := by
    rw [rd_toPairMap, dec_enc hlu, dec_enc hlv, guardBad_eq_addC s i hi hu0 hv0]
  cases hg : C13.guardBad C13.cfgCpdag s (.one i) u v with
  | true =>
    rw [C13.addEdge_guard_rejected s _ u v hg]
    have : tsAdd (fun b => (addC (layerET i) b).2) (rawAddC (layerET i)) (toPairMap s)
        (enc s.maxLag (C13.toNode u)) (enc s.maxLag (C13.toNode v))
        (homPairs s.maxLag (C13.toNode u) (C13.toNode v)) = (toPairMap s, true) := by
      simp [tsAdd, hchk, hg]
    rw [this]
    exact ⟨rfl, fun _ _ _ => rfl⟩
  | false =>
    have hsel : C13.selOk s.layers.length (.one i) = true := by
      rw [h.2.1.layers]; rcases hi with rfl | rfl <;> simp [C13.selOk]
    have hacc : (C13.addEdge C13.cfgCpdag s (.one i) u v).2 = false := addEdgeMixed_acc_of hg hok hsel
    have hm : (C13.addEdge C13.cfgCpdag s (.one i) u v).1.maxLag = s.maxLag := addEdgeMixed_maxLag _ s _ u v
    have hts : tsAdd (fun b => (addC (layerET i) b).2) (rawAddC (layerET i)) (toPairMap s)
        (enc s.maxLag (C13.toNode u)) (enc s.maxLag (C13.toNode v))
        (homPairs s.maxLag (C13.toNode u) (C13.toNode v)) =
        (storeCopies (rawAddC (layerET i)) (toPairMap s) (homPairs s.maxLag (C13.toNode u) (C13.toNode v)), false) := by
      simp [tsAdd, hchk, hg]
    -- what `storeCopies` leaves on the copies (from the conditional theorem, its hypothesis discharged)
    have hstat : ∀ e ∈ homPairs s.maxLag (C13.toNode u) (C13.toNode v),
        (toPairMap s).rd e.1 e.2 = (toPairMap s).rd (enc s.maxLag (C13.toNode u)) (enc s.maxLag (C13.toNode v)) := by
      intro e he
      simp only [homPairs, List.mem_map] at he
      obtain ⟨e0, he0, rfl⟩ := he
      rw [C13.mem_homologous] at he0
      obtain ⟨j, hj, rfl⟩ := he0
      simp only [rd_toPairMap]
      rw [dec_enc (by simp only; omega), dec_enc (by simp only; omega), dec_enc hlu, dec_enc hlv]
      exact tsBitsAt_shift h.1 hlu hlv (by simp only; omega) (by simp only; omega) rfl rfl
        (by have : (C13.toNode v).2 ≤ (C13.toNode u).2 := hfw
            simp only; omega)
    have hcopies := (storeCopies_All (σ := CBits) (P := fun _ => True) (fun _ _ => trivial)
      (rawAddC (layerET i)) ((toPairMap s).rd (enc s.maxLag (C13.toNode u)) (enc s.maxLag (C13.toNode v)))
      trivial _ (homPairs_distinct s.maxLag (C13.toNode u) (C13.toNode v)) (toPairMap s)
      (fun _ _ _ => trivial) hstat).2
    rw [hts]
    refine ⟨hacc, fun a b hab => ?_⟩
    simp only [toPairMap, hm]
    by_cases hk : ∃ e ∈ homPairs s.maxLag (C13.toNode u) (C13.toNode v), (a, b) = PairMap.key e.1 e.2
    · obtain ⟨e, he, hkey⟩ := hk
      have hrd := hcopies e he
      simp only [homPairs, List.mem_map] at he
      obtain ⟨⟨P, Q⟩, hPQ, rfl⟩ := he
      have hw : P.2 ≤ s.maxLag ∧ Q.2 ≤ s.maxLag := by
        have := hPQ
        rw [C13.mem_homologous] at this
        obtain ⟨j, hj, hpq⟩ := this
        simp only [Prod.mk.injEq] at hpq
        obtain ⟨rfl, rfl⟩ := hpq
        exact ⟨by simp only; omega, by simp only; omega⟩
      have hcopy := ts_add_copy h i hi u v huv hacc hPQ
      have hbase : tsBitsAt s P Q = tsBitsAt s (C13.toNode u) (C13.toNode v) := by
        have := hstat _ (List.mem_map.2 ⟨(P, Q), hPQ, rfl⟩)
        simp only [rd_toPairMap] at this
        rwa [dec_enc hw.1, dec_enc hw.2, dec_enc hlu, dec_enc hlv] at this
      rw [rd_toPairMap, dec_enc hlu, dec_enc hlv] at hrd
      simp only at hkey hrd
      unfold PairMap.key at hkey
      unfold PairMap.rd at hrd
      split at hkey
      · rename_i hlt
        simp only [Prod.mk.injEq] at hkey
        obtain ⟨rfl, rfl⟩ := hkey
        simp only [hlt, if_true] at hrd
        rw [dec_enc hw.1, dec_enc hw.2, hcopy, hbase, hrd]
      · rename_i hlt
        simp only [Prod.mk.injEq] at hkey
        obtain ⟨rfl, rfl⟩ := hkey
        simp only [hlt, if_false] at hrd
        rw [dec_enc hw.1, dec_enc hw.2, ← tsBitsAt_swap, hcopy, hbase]
        have := congrArg CBits.swap hrd
        rw [show ∀ x : CBits, PairState.swap x = x.swap from fun _ => rfl, CBits.swap_swap] at this
        exact this.symm
    · rw [storeCopies_other _ a b _ _ (fun e he hh => hk ⟨e, he, hh⟩)]
      refine ts_add_frame h i hi u v hacc (fun hin => hk ⟨_, List.mem_map.2 ⟨_, hin, rfl⟩, ?_⟩)
        (fun hin => hk ⟨_, List.mem_map.2 ⟨_, hin, rfl⟩, ?_⟩)
      · simp only [enc_dec, PairMap.key, hab, if_true]
      · have : ¬ b < a := by omega
        simp only [enc_dec, PairMap.key, this, if_false]

/-! ### non-vacuity -/

/-- x(-1) -- y(0); orient it (asked the "wrong" way round: the edge is oriented forward in time);
x -- y contemporaneous; a directed edge on a homologous copy of that pair and an undirected edge on a
homologous copy of the directed pair are rejected by the guard; copy; orient the contemporaneous edge -/
def exTs : List C13.COp :=
  [.op (.addEdge (.one 1) (0, -1) (1, 0)), .orient (1, 0) (0, -1), .op (.addEdge (.one 1) (1, -2) (0, -2)),
   .op (.addEdge (.one 0) (0, -2) (1, -2)), .op (.addEdge (.one 1) (0, -2) (1, -1)), .op .copy,
   .orient (0, 0) (1, 0)]

example : ∀ op ∈ exTs, op.Safe := by
  intro op hop
  simp only [exTs, List.mem_cons, List.not_mem_nil, or_false] at hop
  rcases hop with rfl | rfl | rfl | rfl | rfl | rfl | rfl <;> simp [C13.COp.Safe, C13.Op.CpdagSafe]

example : (C13.crun (C13.init C13.cfgCpdag 2) exTs).map (·.2) =
    [false, false, false, true, true, false, false] := by decide

example : (C13.crun (C13.init C13.cfgCpdag 2) exTs).map (fun r => r.1.layers.map (·.edges.length)) =
    [[0, 2], [2, 0], [2, 3], [2, 3], [2, 3], [2, 3], [5, 0]] := by decide

/-! ### the time-series PAG is unguarded -/

/-- marks of a node pair of a time-series PAG state (layers: directed, circle, undirected, bidirected) -/
def tsBitsAtP (s : C13.St) (p q : C13.Node) : PBits :=
  ⟨(C13.layerEdges s 0).contains (p, q), (C13.layerEdges s 0).contains (q, p),
   (C13.layerEdges s 1).contains (p, q), (C13.layerEdges s 1).contains (q, p),
   (C13.layerEdges s 3).contains (p, q) || (C13.layerEdges s 3).contains (q, p),
   (C13.layerEdges s 2).contains (p, q) || (C13.layerEdges s 2).contains (q, p)⟩

/-- **known finding C03-tspag-unguarded**: on the StationaryTimeSeriesPAG (no mark guard in the
library, none in the model) `x(0) -> y(0)` followed by `x(0) *-o y(0)` is accepted twice and leaves an
arrowhead and a circle at `y(0)` – on the named pair and on its homologous copy -/
theorem C03_counterexample_tspag :
    (C13.run C13.cfgPag (C13.init C13.cfgPag 1)
      [.addEdge (.one 0) (0, 0) (1, 0), .addEdge (.one 1) (0, 0) (1, 0)]).map
      (fun r => (r.2, GoodP (tsBitsAtP r.1 (0, 0) (1, 0)), GoodP (tsBitsAtP r.1 (0, 1) (1, 1)))) =
    [(false, true, true), (false, false, false)] := by decide

end C03
