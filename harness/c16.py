"""C16: all_semi_directed_paths / is_semi_directed_path / possible_ancestors / possible_descendants.

Deciding oracle: the Lean brute-force enumeration of simple paths (`C16.wantedDec`, `SemiDirected`,
`possDescDec`, `possAncDec`; proved to be the specification, and proved equal to the Lean model).
One request line per graph carries many queries (`sdpmulti`, `issdpmulti`, `pdmulti`)."""
import itertools

import copy

from . import common as C

PID = "C16"
CIRCLE_FREE = [(), ("D>",), ("D<",), ("B",), ("U",)]


# ----------------------------------------------------------------------------- implementation side
def build(g, cls="PAG", lab=None):
    from pywhy_graphs import ADMG, PAG
    lab = lab or (lambda i: i)
    G = PAG() if cls == "PAG" else ADMG()
    # node and edge attributes are part of a graph instance and must not influence any answer: a third of the
    # graphs carry them (a shared node-attribute key, a weight on every other edge)
    deco = (len(g.get("D", [])) + 2 * len(g.get("C", [])) + g["n"]) % 3 == 0
    for v in C.g_nodes(g):
        if deco:
            G.add_node(lab(v), kind="variable", idx=v)
        else:
            G.add_node(lab(v))
    j = 0
    for k, nm in (("D", "directed"), ("B", "bidirected"), ("U", "undirected"), ("C", "circle")):
        for a, b in g.get(k, []):
            j += 1
            if deco and j % 2:
                G.add_edge(lab(a), lab(b), edge_type=nm, weight=0.5 * j)
            else:
                G.add_edge(lab(a), lab(b), edge_type=nm)
    return G


def fmt_paths(paths):
    return ";".join("-".join(str(v) for v in p) for p in sorted(tuple(p) for p in paths))


def impl_sdp(G, lab, q):
    import networkx as nx
    from pywhy_graphs.algorithms import all_semi_directed_paths
    s, T, tset, c = q
    try:
        target = {lab(t) for t in T} if tset else lab(T[0])
        res = list(all_semi_directed_paths(G, lab(s), target, cutoff=c))
        return fmt_paths([[lab.inv(v) for v in p] for p in res])
    except nx.NodeNotFound:
        return "err:NodeNotFound"
    except Exception as e:
        return "err:" + type(e).__name__


def _interleaved(G, lab, Q):
    import itertools
    import networkx as nx
    from pywhy_graphs.algorithms import all_semi_directed_paths
    gens, res = [], []
    for s, T, tset, c in Q:
        try:
            target = {lab(t) for t in T} if tset else lab(T[0])
            gens.append(iter(all_semi_directed_paths(G, lab(s), target, cutoff=c)))
            res.append([])
        except nx.NodeNotFound:
            gens.append(None)
            res.append("err:NodeNotFound")
        except Exception as e:
            gens.append(None)
            res.append("err:" + type(e).__name__)
    live = [i for i, g in enumerate(gens) if g is not None]
    while live:
        for i in list(live):
            try:
                res[i].append(next(gens[i]))
            except StopIteration:
                live.remove(i)
            except nx.NodeNotFound:
                res[i] = "err:NodeNotFound"
                live.remove(i)
            except Exception as e:
                res[i] = "err:" + type(e).__name__
                live.remove(i)
    return [r if isinstance(r, str) else fmt_paths([[lab.inv(v) for v in p] for p in r]) for r in res]


def impl_is(G, lab, p):
    from pywhy_graphs.algorithms import is_semi_directed_path
    try:
        r = is_semi_directed_path(G, [lab(v) if v >= 0 else ("no-such-node", v) for v in p])
        return "T" if r is True else ("F" if r is False else "?")
    except Exception:
        return "E"


def impl_pd(G, lab, s):
    from pywhy_graphs.algorithms import possible_ancestors, possible_descendants
    try:
        d = C.fmt_set(lab.inv(v) for v in possible_descendants(G, lab(s)))
        a = C.fmt_set(lab.inv(v) for v in possible_ancestors(G, lab(s)))
        return d + ":" + a
    except Exception as e:
        return "err:" + type(e).__name__


def impl(case):
    """evaluate every query of the case on the real code"""
    lab = C.Labels(case.get("fam", "int"))
    try:
        G = build(case["g"], case.get("cls", "PAG"), lab)
    except Exception as e:
        return {"build": "err:" + type(e).__name__}
    if C.warm_decide(case, 4):
        # query, edit the same object in place, query again (see common.warmup)
        def _warm():
            for q in case.get("Q", [])[:2]:
                impl_sdp(G, lab, q)
            for s_ in case.get("S", [])[:2]:
                impl_pd(G, lab, s_)
        C.warmup(G, _warm, layers=("circle", "directed", "bidirected", "undirected"), marks=True)
    before = C.snapshot(G)
    if C.warm_decide({"g": case["g"], "k": "interleave"}, 3) and len(case.get("Q", [])) >= 2:
        # the enumeration is a generator: two of them alive at the same time (consumed alternately) are two
        # independent enumerations
        sdp = _interleaved(G, lab, case["Q"])
    else:
        sdp = [impl_sdp(G, lab, q) for q in case.get("Q", [])]
    out = {"sdp": sdp,
           "is": "".join(impl_is(G, lab, p) for p in case.get("P", [])),
           "pd": [impl_pd(G, lab, s) for s in case.get("S", [])]}
    out["mutated"] = before != C.snapshot(G)
    return out


# ----------------------------------------------------------------------------- Lean side
def q_str(q):
    s, T, _, c = q
    return "%d:%s:%s" % (s, ".".join(map(str, T)), "n" if c is None else str(c))


def p_str(p):
    # a node that is not in the graph is sent as index 99
    return ".".join(str(v if v >= 0 else 99) for v in p) if p else "e"


def lean_lines(case, mode):
    gl = C.g_line(case["g"])
    return ["sdpmulti %s mode=%s Q=%s" % (gl, mode, ";".join(q_str(q) for q in case.get("Q", []))),
            "issdpmulti %s mode=%s P=%s" % (gl, mode, ";".join(p_str(p) for p in case.get("P", []))),
            "pdmulti %s mode=%s S=%s" % (gl, mode, ",".join(map(str, case.get("S", []))))]


def lean_parse(case, three):
    sdp = three[0].split("/") if case.get("Q") else []
    pd = three[2].split("/") if case.get("S") else []
    return {"sdp": sdp, "is": three[1], "pd": pd}


def lean_eval(cases, mode):
    lines = []
    for c in cases:
        lines += lean_lines(c, mode)
    ans = C.lean_batch(lines, jobs=min(16, max(1, len(cases) // 8)))
    return [lean_parse(c, ans[3 * i:3 * i + 3]) for i, c in enumerate(cases)]


# ----------------------------------------------------------------------------- queries
def full_queries(n, set_targets=True):
    """all ordered pairs x cutoff None,0..n (target as node), and every target set of >= 2 nodes"""
    cs = [None] + list(range(n + 1))
    Q = []
    for s in range(n):
        for t in range(n):
            if s != t:
                Q += [[s, [t], False, c] for c in cs]
                Q.append([s, [t], True, None])          # singleton set
        if set_targets:
            others = [v for v in range(n) if v != s]
            for r in range(2, len(others) + 1):
                for T in itertools.combinations(others, r):
                    Q += [[s, list(T), True, c] for c in cs]
    return Q


def all_seqs(n, maxlen):
    P = [[]]
    for L in range(1, maxlen + 1):
        P += [list(t) for t in itertools.product(range(n), repeat=L)]
    return P


def rand_queries(rng, n, k):
    Q = []
    for _ in range(k):
        s = rng.randrange(n)
        others = [v for v in range(n) if v != s]
        if rng.random() < 0.6:
            T, tset = [rng.choice(others)], rng.random() < 0.2
        else:
            T, tset = sorted(rng.sample(others, rng.randint(2, len(others)))), True
        c = rng.choice([None, None] + list(range(n + 1)))
        Q.append([s, T, tset, c])
    return Q


def rand_seqs(rng, g, k):
    """node lists biased to real paths: random walks in the adjacency graph, sometimes perturbed"""
    n = g["n"]
    adj = {v: set() for v in range(n)}
    for key in "DBUC":
        for a, b in g.get(key, []):
            adj[a].add(b)
            adj[b].add(a)
    P = []
    for _ in range(k):
        v = rng.randrange(n)
        p = [v]
        for _ in range(rng.randint(0, n)):
            cand = [w for w in sorted(adj[p[-1]]) if w not in p or rng.random() < 0.1]
            if not cand:
                break
            p.append(rng.choice(cand))
        r = rng.random()
        if r < 0.1 and len(p) > 1:
            p[rng.randrange(len(p))] = rng.randrange(n)
        elif r < 0.15:
            p.insert(rng.randrange(len(p) + 1), -1)     # a node that is not in the graph
        elif r < 0.25:
            p.reverse()
        P.append(p)
    return P


def graph_case(g, cls="PAG", src="", Q=None, P=None, S=None, fam="int"):
    n = g["n"]
    return {"g": g, "cls": cls, "src": src, "fam": fam,
            "Q": full_queries(n) if Q is None else Q,
            "P": all_seqs(n, min(n, 4)) if P is None else P,
            "S": list(range(n)) if S is None else S}


def rand_pag(rng, n):
    dens = rng.choice((0.4, 0.6, 0.8, 1.0))
    w = rng.choice(([1, 1, 1, 1, 1, 1, 1], [3, 3, 1, 1, 2, 2, 2], [1, 1, 2, 0, 3, 1, 1]))
    return C.rand_graph(rng, n, C.PAG_STATES[1:], weights=w, density=dens)


def chunks(it, k):
    buf = []
    for x in it:
        buf.append(x)
        if len(buf) >= k:
            yield buf
            buf = []
    if buf:
        yield buf


def exh4_queries():
    """4-node exhaustive stream: every ordered pair x cutoff None,0..4, singleton-set targets, and the set of
    all other nodes x cutoff None,1,2,3"""
    Q = []
    for s in range(4):
        for t in range(4):
            if s != t:
                Q += [[s, [t], False, c] for c in [None, 0, 1, 2, 3, 4]]
                Q.append([s, [t], True, None])
        others = [v for v in range(4) if v != s]
        Q += [[s, others, True, c] for c in (None, 1, 2, 3)]
        Q += [[s, others[:2], True, c] for c in (None, 2)]
    return Q


def rand_stream(rng, plan, fams, i0=0):
    i = i0
    for n, cnt in plan:
        for _ in range(cnt):
            i += 1
            g = rand_pag(rng, n)
            cls = "PAG"
            if i % 5 == 0:
                g = C.g_new(n, D=g["D"], B=g["B"], U=g["U"])
                cls = "ADMG"
            if i % 3 == 0:
                g = C.shuffled_graph(rng, g)
            if n == 4:
                Q, P = full_queries(4), all_seqs(4, 3) + rand_seqs(rng, g, 20)
            elif n == 5:
                Q, P = full_queries(5, set_targets=False) + rand_queries(rng, n, 20), rand_seqs(rng, g, 40)
            else:
                Q, P = rand_queries(rng, n, 40), rand_seqs(rng, g, 40)
            yield graph_case(g, cls, "rnd%d" % n, Q=Q, P=P, fam=fams[i % len(fams)])


def gen_cases(ctx):
    """corpus first (in run), then exhaustive <=3 nodes, the quick-sized random stream, and in the thorough
    tier the exhaustive 4-node stream and a larger random stream (so a deadline cuts the least important part)"""
    tier, rng = ctx["tier"], ctx["rng"]
    for n in (1, 2, 3):
        for g in C.enum_graphs(n, C.PAG_STATES):
            yield graph_case(g, "PAG", "exh%d" % n)
            if not g["C"]:
                yield graph_case(g, "ADMG", "exh%d-admg" % n)
    fams = C.Labels.FAMILIES
    yield from rand_stream(rng, ((4, 1500), (5, 500), (6, 150)), fams)
    if tier == "thorough":
        q4 = exh4_queries()
        for g in C.enum_graphs(4, C.PAG_STATES):
            yield graph_case(g, "PAG", "exh4", Q=q4, P=[])
        yield from rand_stream(rng, ((4, 1500), (5, 3000), (6, 1500), (7, 200)), fams, i0=7)


# ----------------------------------------------------------------------------- judging
def diffs(case, got, spec, model):
    """list of (fn, single-query case, impl, spec, model) for every disagreement impl vs spec;
    queries whose source is among the targets are outside the property and compared with the model"""
    bad = []
    base = {"g": case["g"], "cls": case.get("cls", "PAG"), "fam": case.get("fam", "int")}
    if "build" in got:
        return [("build", dict(base), got["build"], "", "")]
    for i, q in enumerate(case.get("Q", [])):
        ref = model["sdp"][i] if q[0] in q[1] else spec["sdp"][i]
        if got["sdp"][i] != ref:
            bad.append(("sdp", dict(base, Q=[q], P=[], S=[]), got["sdp"][i], spec["sdp"][i], model["sdp"][i]))
    for i, p in enumerate(case.get("P", [])):
        if got["is"][i] != spec["is"][i]:
            bad.append(("issdp", dict(base, Q=[], P=[p], S=[]), got["is"][i], spec["is"][i], model["is"][i]))
    for i, s in enumerate(case.get("S", [])):
        if got["pd"][i] != spec["pd"][i]:
            bad.append(("pd", dict(base, Q=[], P=[], S=[s]), got["pd"][i], spec["pd"][i], model["pd"][i]))
    if got.get("mutated"):
        bad.append(("mutation", dict(base, Q=case.get("Q", []), P=[], S=case.get("S", [])), "mutated", "", ""))
    return bad


def model_vs_spec(case, spec, model):
    out = []
    for i, q in enumerate(case.get("Q", [])):
        if q[0] not in q[1] and spec["sdp"][i] != model["sdp"][i]:
            out.append(("sdp", q))
    if spec["is"] != model["is"]:
        out.append(("issdp", None))
    if spec["pd"] != model["pd"]:
        out.append(("pd", None))
    return out


def shrink(case, fails, used_nodes, rename):
    """greedy: drop edges, then drop nodes the query does not mention (renumbering via `rename`)"""
    cur = copy.deepcopy(case)
    progress = True
    while progress:
        progress = False
        cands = []
        # drop all edges of one unordered pair (keeps the case inside the pair-kind domain)
        prs = sorted(set((min(a, b), max(a, b)) for k in ("D", "B", "U", "C") for a, b in cur["g"].get(k, [])))
        for pr in prs:
            c = copy.deepcopy(cur)
            for k in ("D", "B", "U", "C"):
                c["g"][k] = [e for e in c["g"].get(k, []) if (min(e), max(e)) != pr]
            cands.append(c)
        nodes = C.g_nodes(cur["g"])
        for v in nodes:
            if v in used_nodes(cur):
                continue
            ren = {u: i for i, u in enumerate(sorted(u for u in nodes if u != v))}
            g = cur["g"]
            h = {"n": g["n"] - 1}
            if "N" in g:
                h["N"] = [ren[u] for u in g["N"] if u != v]
            for k in ("D", "B", "U", "C"):
                h[k] = [[ren[a], ren[b]] for a, b in g.get(k, []) if a != v and b != v]
            if "lag" in g:
                h["lag"] = [l for u, l in sorted(zip(nodes, g["lag"])) if u != v]
            c = rename(copy.deepcopy(cur), ren)
            c["g"] = h
            cands.append(c)
        for c in cands:
            try:
                if fails(c):
                    cur, progress = c, True
                    break
            except Exception:
                continue
    return cur


def _used(case):
    u = set()
    for q in case.get("Q", []):
        u.add(q[0])
        u.update(q[1])
    for p in case.get("P", []):
        u.update(p)
    u.update(case.get("S", []))
    return u


def _rename(case, ren):
    case["Q"] = [[ren[q[0]], [ren[t] for t in q[1]], q[2], q[3]] for q in case.get("Q", [])]
    case["P"] = [[ren.get(v, v) for v in p] for p in case.get("P", [])]
    case["S"] = [ren[s] for s in case.get("S", [])]
    return case


def fails(case, drv=None):
    got = impl(case)
    spec = lean_eval([case], "spec")[0]
    model = lean_eval([case], "model")[0]
    return bool(diffs(case, got, spec, model))


def nontrivial_queries(case, spec):
    """queries that take the `len(visited) == cutoff` branch with a hit: some yielded path has exactly
    `cutoff` edges (with cutoff=None: |V|-1 edges)"""
    n = len(C.g_nodes(case["g"]))
    k = 0
    for q, ans in zip(case.get("Q", []), spec["sdp"]):
        if not ans:
            continue
        c = n - 1 if q[3] is None else q[3]
        if any(p.count("-") == c for p in ans.split(";")):
            k += 1
    return k


def run(ctx):
    ev, out = ctx["ev"], ctx["out"]
    ev.rule = ("per graph: all_semi_directed_paths for every ordered pair x cutoff None,0..|V| with the target as a "
               "node, as a singleton set and as every set of >=2 nodes; is_semi_directed_path on every node "
               "sequence (repeats allowed) up to length min(|V|,4) plus perturbed random walks and a foreign node; "
               "possible_descendants/ancestors of every node. graphs: every PAG on <=3 nodes over pair "
               "kinds {none,->,<-,<->,--,o-o,o->,<-o} (ADMG class too when circle-free); thorough adds every PAG on 4 "
               "nodes with every ordered pair x cutoff None,0..4, singleton-set targets and two target sets per source; "
               "random 4-6 (thorough: 7) nodes with all pairs x all cutoffs (4-5 nodes) or 40 random queries, "
               "shuffled insertion order, five label families. evaluations = number of single queries. "
               "non-trivial (counted per graph) = some query yields a path with exactly `cutoff` edges, i.e. the "
               "`len(visited) == cutoff` branch produced output, while another simple s-t path is rejected")
    ev.assumptions = ["at most one edge kind per pair (the property's quantifier); no self loops",
                      "queries whose source belongs to the target set are outside the property: compared with the model only",
                      "label->index bijection and canonicalisation in harness/common.py, harness/c16.py"]
    corpus = [dict(c, src="corpus") for c in C.load_corpus(PID)]
    bad = []
    ngraphs = 0
    first_case = None
    for cases in chunks(itertools.chain(corpus, gen_cases(ctx)), 12000):
        ngraphs += len(cases)
        first_case = first_case or cases[0]
        specs = lean_eval(cases, "spec")
        models = lean_eval(cases, "model")
        gots = C.pmap(impl, cases, chunksize=64)
        for case, got, spec, model in zip(cases, gots, specs, models):
            nq = len(case.get("Q", [])) + len(case.get("P", [])) + len(case.get("S", []))
            ev.evaluations += nq
            ev.count("src:" + case["src"])
            ev.count("queries:sdp", len(case.get("Q", [])))
            ev.count("queries:issdp", len(case.get("P", [])))
            ev.count("queries:possible", 2 * len(case.get("S", [])))
            ev.count("issdp:true", spec["is"].count("T"))
            ev.count("sdp:nonempty", sum(1 for a in spec["sdp"] if a))
            k = nontrivial_queries(case, spec)
            ev.count("sdp:cutoff-branch-hit", k)
            rejected = any(a != b for a, b in zip(spec["sdp"], spec["sdp"][1:]))
            if len(ev.samples) < 6 and case["src"].startswith("rnd"):
                ev.samples.append({k2: case[k2] for k2 in ("g", "cls", "fam", "src")} | {"Q": case["Q"][:4], "P": case["P"][:4], "S": case["S"][:2]})
            if k and rejected:
                ev.nontrivial.add(C.hashlib.sha1(C.json.dumps([case["g"], case["cls"]], sort_keys=True).encode()).hexdigest()[:16])
            for mv in model_vs_spec(case, spec, model):
                out.proof_breaks.append("Lean model and Lean oracle disagree (%s) on %s" % (mv[0], C.g_line(case["g"])))
            d = diffs(case, got, spec, model)
            if d and len(bad) < 50:
                bad.append((case, d))
        if bad:
            break
        if C.time.time() > ctx["deadline"]:
            ev.extra["truncated_by_deadline"] = True
            break
    cases = [first_case] if first_case else []
    if not ev.samples and cases:
        ev.samples.append({k2: cases[0][k2] for k2 in ("g", "cls", "src")})
    ev.extra["graphs"] = ngraphs
    ev.extra["exhaustive_part"] = "every labelled PAG on <=3 nodes (quick) / <=4 nodes (thorough) with every query listed in `rule`"
    if bad:
        # one violation per function kind, each shrunk
        seen = set()
        for case, d in bad:
            fn, small0, gi, sp, mo = d[0]
            if fn in seen:
                continue
            seen.add(fn)
            small = shrink(small0, fails, _used, _rename)
            got = impl(small)
            spec = lean_eval([small], "spec")[0]
            model = lean_eval([small], "model")[0]
            out.violation(small, {"kind": fn, "impl": got, "spec": spec, "model": model,
                                  "first_seen": {"impl": gi, "spec": sp, "model": mo, "case": small0},
                                  "lean_request": lean_lines(small, "spec"),
                                  "graphs_with_disagreement_at_least": len(bad)})


def replay(ctx, payload):
    case = payload["case"]
    got = impl(case)
    spec = lean_eval([case], "spec")[0]
    model = lean_eval([case], "model")[0]
    print("implementation:", got)
    print("spec (Lean oracle):", spec)
    print("model:", model)
    bad = bool(diffs(case, got, spec, model))
    print("REPRODUCED" if bad else "NOT-REPRODUCED")
    return 1 if bad else 0


# ----------------------------------------------------------------------------- C15 adapter
def c15_cases(rng, k):
    cases = []
    for i in range(k):
        n = rng.choice((3, 4, 4, 5))
        g = rand_pag(rng, n)
        cases.append({"g": g, "cls": "PAG", "Q": rand_queries(rng, n, 6), "P": rand_seqs(rng, g, 6),
                      "S": list(range(n))})
    return cases


def _canon(res):
    return "sdp=" + "/".join(res["sdp"]) + " is=" + res["is"] + " pd=" + "/".join(res["pd"])


def c15_eval(case, fam, order_seed):
    import random
    c = dict(case, fam=fam, g=C.shuffled_graph(random.Random(order_seed), case["g"]))
    got = impl(c)
    if "build" in got:
        return got["build"]
    return _canon(got)


def c15_expected(cases):
    # sources inside the target set are never generated by rand_queries, so the oracle decides
    return [_canon(r) for r in lean_eval(cases, "spec")]
