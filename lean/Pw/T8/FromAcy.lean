import Pw.T8.ToAcy
import Pw.C19.Acy
open Closure MG

/-! # T8, part B: an m-connecting walk in the acyclification A expands to a sigma-open walk in G

Each edge of A is replaced by a short walk of G: a directed edge `i -> j` by `i -> k ~> j` inside the
component of `j`, a bidirected edge between components by `i <~ a <-> b ~> j`, a bidirected edge inside
a component by a directed path `i ~> j`. Arrival marks are preserved. -/
namespace C19

/-- composable form of sigma-open walks: reached node and (previous node, arrival mark) -/
inductive ConnS (G : MG) (Z : List Nat) (x : Nat) : Nat → Option (Nat × Mark) → Prop
  | start : ConnS G Z x x none
  | step {v w : Nat} {e : Option (Nat × Mark)} {mv mw : Mark} : ConnS G Z x v e → HasEdge G v w mv mw →
      sigO G Z e v mv w → ConnS G Z x w (some (v, mw))

theorem walk_of_connS {G : MG} {Z : List Nat} {x v : Nat} {e : Option (Nat × Mark)}
    (hc : ConnS G Z x v e) :
    ∃ hs, ValidW G x hs ∧ OpenSig G Z none x hs ∧ endNode x hs = v ∧ exitS none x hs = e := by
  induction hc with
  | start => exact ⟨[], trivial, trivial, rfl, rfl⟩
  | @step v w e mv mw _ he hcond ih =>
    obtain ⟨hs, hv, ho, hend, hex⟩ := ih
    refine ⟨hs ++ [⟨mv, mw, w⟩], ?_, ?_, endNode_snoc _ _ _, ?_⟩
    · rw [validW_append]; exact ⟨hv, by rw [hend]; exact ⟨he, trivial⟩⟩
    · rw [openSig_append]
      refine ⟨ho, ?_⟩
      rw [hend, hex, openSig_cons]
      exact ⟨hcond, by simp [OpenSig]⟩
    · rw [exitS_snoc, hend]

theorem sigmaCond_of_not_col {G : MG} {Z : List Nat} {u : Nat} {m : Mark} {v : Nat} {mo : Mark} {w : Nat}
    (h : ¬ (m = .head ∧ mo = .head)) :
    sigmaCond G Z u m v mo w ↔ (v ∉ Z ∨ ((mo = .tail → SC G v w) ∧ (m = .tail → SC G v u))) := by
  unfold sigmaCond; rw [if_neg h]

theorem sigmaCond_col {G : MG} {Z : List Nat} {u v w : Nat} :
    sigmaCond G Z u .head v .head w ↔ ColliderOpen G Z v := by
  unfold sigmaCond; simp

variable {G A : MG} {Z : List Nat} {x : Nat}

/-- go down a directed path inside a component, having arrived through an arrowhead -/
theorem sig_down_head {k w : Nat} (hkw : Anc G k w) :
    Anc G w k → ∀ u, ConnS G Z x k (some (u, .head)) → ∃ p, ConnS G Z x w (some (p, .head)) := by
  induction hkw with
  | refl => intro _ u hc; exact ⟨u, hc⟩
  | @step a b c e hbc ih =>
    intro hca u hc
    have hsc : SC G a b := ⟨Anc.step e (Anc.refl b), hbc.trans hca⟩
    have hstep : ConnS G Z x b (some (a, .head)) :=
      ConnS.step hc (Or.inl ⟨rfl, rfl, e⟩ : HasEdge G a b .tail .head)
        (by
          show sigmaCond G Z u .head a .tail b
          rw [sigmaCond_of_not_col (by rintro ⟨_, hx⟩; cases hx)]
          exact Or.inr ⟨fun _ => hsc, fun hx => (by cases hx)⟩)
    exact ih (hca.tail e) a hstep

/-- climb a directed path inside a component against the arrows -/
theorem sig_up {k v : Nat} {e : Option (Nat × Mark)} (hkv : Anc G k v) :
    Anc G v k → ConnS G Z x v e → (∀ w, sigO G Z e v .head w) →
      ∃ e', ConnS G Z x k e' ∧ ((k = v ∧ e' = e) ∨ ∃ c, e' = some (c, .tail) ∧ SC G k c) := by
  induction hkv with
  | refl => intro _ hc _; exact ⟨e, hc, Or.inl ⟨rfl, rfl⟩⟩
  | @step a b c hab hbc ih =>
    intro hca hc hcond
    obtain ⟨eb, hcb, hdisj⟩ := ih (hca.tail hab) hc hcond
    have hsc : SC G a b := ⟨Anc.step hab (Anc.refl b), hbc.trans hca⟩
    refine ⟨some (b, .tail), ?_, Or.inr ⟨b, rfl, hsc⟩⟩
    refine ConnS.step hcb (Or.inr (Or.inl ⟨rfl, rfl, hab⟩) : HasEdge G b a .head .tail) ?_
    rcases hdisj with ⟨hbeq, heq⟩ | ⟨c', heq, hsc'⟩
    · subst hbeq; subst heq; exact hcond a
    · subst heq
      show sigmaCond G Z c' .tail b .head a
      rw [sigmaCond_of_not_col (by rintro ⟨hx, _⟩; cases hx)]
      exact Or.inr ⟨fun hx => (by cases hx), fun _ => hsc'⟩

/-- after climbing, the reached node may be left through an arrowhead -/
theorem sigO_head_after_up {k v : Nat} {e e' : Option (Nat × Mark)}
    (hcond : ∀ w, sigO G Z e v .head w)
    (hdisj : (k = v ∧ e' = e) ∨ ∃ c, e' = some (c, .tail) ∧ SC G k c) (w : Nat) :
    sigO G Z e' k .head w := by
  rcases hdisj with ⟨hk, heq⟩ | ⟨c, heq, hsc⟩
  · subst hk; subst heq; exact hcond w
  · subst heq
    show sigmaCond G Z c .tail k .head w
    rw [sigmaCond_of_not_col (by rintro ⟨hx, _⟩; cases hx)]
    exact Or.inr ⟨fun hx => (by cases hx), fun _ => hsc⟩

/-- arrival mark of an entry (`tail` convention for the start, as in `Conn.start`) -/
def arr : Option (Nat × Mark) → Mark
  | none => .tail
  | some (_, m) => m

/-- **T8, part B.** -/
theorem acy_to_sig (hd : Dom G) (hun : G.un = []) (hacy : IsAcyclification G A)
    (hZ : ∀ z ∈ Z, z ∈ G.nodes) {v : Nat} {m : Mark} (hc : Conn A Z (A.anc Z) x v m) :
    ∃ e, ConnS G Z x v e ∧ arr e = m := by
  have hAwf : A.WF := A_wf hd hun hacy
  have hZA : ∀ z ∈ Z, z ∈ A.nodes := by rw [hacy.nodes]; exact hZ
  induction hc with
  | start => exact ⟨none, ConnS.start, rfl⟩
  | @step v w m mv mw _ he hcond ih =>
    obtain ⟨e, hcs, harr⟩ := ih
    -- leaving v through an arrowhead is fine in G whenever it was fine in A
    have hheadOK : mv = .head → ∀ w', sigO G Z e v .head w' := by
      intro hmv w'
      cases e with
      | none => trivial
      | some p =>
        obtain ⟨u, m0⟩ := p
        simp only [arr] at harr
        subst harr
        show sigmaCond G Z u m0 v .head w'
        cases m0 with
        | head =>
          rw [sigmaCond_col]
          simp only [hmv, and_self, if_true] at hcond
          obtain ⟨z, hz, haz⟩ := (mem_anc hAwf hZA).mp hcond
          exact ⟨z, hz, anc_of_dirSpec hacy.dir haz⟩
        | tail =>
          rw [sigmaCond_of_not_col (by rintro ⟨hx, _⟩; cases hx)]
          have : ¬ (Mark.tail = .head ∧ mv = .head) := by rintro ⟨hx, _⟩; cases hx
          simp only [this, if_false] at hcond
          exact Or.inl hcond
    -- leaving v through a tail towards a node of its own component is fine in G
    have htailOK : mv = .head ∨ mv = .tail → ∀ w', SC G v w' → (mv = .tail → v ∉ Z) →
        (arr e = .tail → v ∉ Z) → sigO G Z e v .tail w' := by
      intro _ w' hsc _ harrZ
      cases e with
      | none => trivial
      | some p =>
        obtain ⟨u, m0⟩ := p
        show sigmaCond G Z u m0 v .tail w'
        rw [sigmaCond_of_not_col (by rintro ⟨_, hx⟩; cases hx)]
        cases m0 with
        | head => exact Or.inr ⟨fun _ => hsc, fun hx => (by cases hx)⟩
        | tail => exact Or.inl (harrZ rfl)
    -- non-collider at v in A means v ∉ Z
    have hvZ_of_tail : arr e = .tail → v ∉ Z := by
      intro ht
      rw [harr] at ht
      have : ¬ (m = .head ∧ mv = .head) := by rintro ⟨hx, _⟩; rw [ht] at hx; cases hx
      simp only [this, if_false] at hcond
      exact hcond
    rcases he with ⟨hmv, hmw, hvw⟩ | ⟨hmv, hmw, hwv⟩ | ⟨hmv, hmw, hbi⟩ | ⟨hmv, hmw, hun'⟩
    · -- v -> w in A : v -> k ~> w in G
      subst hmv; subst hmw
      obtain ⟨hnsc, k, hwk, hvk⟩ := (hacy.dir v w).mp hvw
      have hvZ : v ∉ Z := by
        have : ¬ (m = .head ∧ Mark.tail = .head) := by rintro ⟨_, hx⟩; cases hx
        simp only [this, if_false] at hcond
        exact hcond
      have h1 : ConnS G Z x k (some (v, .head)) :=
        ConnS.step hcs (Or.inl ⟨rfl, rfl, hvk⟩ : HasEdge G v k .tail .head)
          (by
            cases e with
            | none => trivial
            | some p =>
              obtain ⟨u, m0⟩ := p
              show sigmaCond G Z u m0 v .tail k
              rw [sigmaCond_of_not_col (by rintro ⟨_, hx⟩; cases hx)]
              exact Or.inl hvZ)
      obtain ⟨p, h2⟩ := sig_down_head hwk.2 hwk.1 v h1
      exact ⟨some (p, .head), h2, rfl⟩
    · -- v <- w in A : v <~ k <- w in G
      subst hmv; subst hmw
      obtain ⟨hnsc, k, hvk, hwk⟩ := (hacy.dir w v).mp hwv
      obtain ⟨e', hck, hdisj⟩ := sig_up hvk.2 hvk.1 hcs (hheadOK rfl)
      have h1 : ConnS G Z x w (some (k, .tail)) :=
        ConnS.step hck (Or.inr (Or.inl ⟨rfl, rfl, hwk⟩) : HasEdge G k w .head .tail)
          (sigO_head_after_up (hheadOK rfl) hdisj w)
      exact ⟨_, h1, rfl⟩
    · -- v <-> w in A
      subst hmv; subst hmw
      obtain ⟨hne, hsame | ⟨a, b, hva, hwb, hab⟩⟩ := (hacy.bi v w).mp hbi
      · -- same component: directed path v ~> w
        cases hsame.1 with
        | refl => exact absurd rfl hne
        | @step _ b _ hvb hbw =>
          have hscb : SC G v b := ⟨Anc.step hvb (Anc.refl b), hbw.trans hsame.2⟩
          have h1 : ConnS G Z x b (some (v, .head)) :=
            ConnS.step hcs (Or.inl ⟨rfl, rfl, hvb⟩ : HasEdge G v b .tail .head)
              (htailOK (Or.inl rfl) b hscb (fun hx => by cases hx) hvZ_of_tail)
          obtain ⟨p, h2⟩ := sig_down_head hbw (hsame.2.tail hvb) v h1
          exact ⟨some (p, .head), h2, rfl⟩
      · -- different components: v <~ a <-> b ~> w
        obtain ⟨e', hca, hdisj⟩ := sig_up hva.2 hva.1 hcs (hheadOK rfl)
        have h1 : ConnS G Z x b (some (a, .head)) :=
          ConnS.step hca (Or.inr (Or.inr (Or.inl ⟨rfl, rfl, hab⟩)) : HasEdge G a b .head .head)
            (sigO_head_after_up (hheadOK rfl) hdisj b)
        obtain ⟨p, h2⟩ := sig_down_head hwb.2 hwb.1 a h1
        exact ⟨some (p, .head), h2, rfl⟩
    · rw [hacy.un, hun] at hun'
      rcases hun' with h | h <;> cases h

end C19
