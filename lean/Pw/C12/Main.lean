import Pw.C12.Paths
open Closure MG

/-! # C12, first sentence: the model of `mixed_edge_moral_graph` is the moral graph

* `moral_adj_iff` : `(u,v)` is an edge of the model ⟺ `u ≠ v` and u, v are adjacent or joined by a path
  whose inner nodes are all colliders (all well-formed loop-free mixed graphs – no size bound, no
  acyclicity or ancestrality needed);
* `moral_nodes` : the node set is preserved;
* `moral_dag` : on a plain DAG the result is skeleton + married parents (`networkx.moral_graph`);
* `moralUnfixed_counterexample` : the code before the fix violates the first sentence on `0 -> 2 <- 1`. -/
namespace C12

/-- collider-connectedness (paths) = the district relation -/
theorem cc_iff_district {G : MG} (hwf : G.WF) {u v : Nat} (hne : u ≠ v) :
    ColliderConnected G u v ↔ (Adj G u v ∨ ∃ r ∈ G.nodes, InDP G r u ∧ InDP G r v) := by
  constructor
  · rintro (h | ⟨hs, hn, hv, hend, _, hc⟩)
    · exact Or.inl h
    · exact district_of_walk hwf hn hv hend ((allColl_iff_collW hs).mp hc)
  · rintro (h | ⟨r, hr, hu, hv⟩)
    · exact Or.inl h
    · exact cc_of_district hwf hne hr hu hv

theorem adj_ne {G : MG} (hsl : NoSelfLoop G) {u v : Nat} (h : Adj G u v) : u ≠ v := by
  rintro rfl
  obtain ⟨mu, mv, h⟩ := h
  exact hsl u mu mv h

/-- **C12, first sentence (adjacency).** For every well-formed mixed graph without self loops:
    `u — v` in the model's moral graph iff `u ≠ v` and u, v are adjacent in G or joined by a path on
    which every inner node is a collider. -/
theorem moral_adj_iff (G : MG) (hwf : G.WF) (hsl : NoSelfLoop G) (u v : Nat) :
    UAdj (moral G).edges u v ↔ (u ≠ v ∧ ColliderConnected G u v) := by
  show UAdj (moralEdges G) u v ↔ _
  rw [moral_adj_district]
  constructor
  · rintro (h | ⟨hne, h⟩)
    · exact ⟨adj_ne hsl h, Or.inl h⟩
    · exact ⟨hne, (cc_iff_district hwf hne).mpr (Or.inr h)⟩
  · rintro ⟨hne, h⟩
    rcases (cc_iff_district hwf hne).mp h with h | h
    · exact Or.inl h
    · exact Or.inr ⟨hne, h⟩

/-- **C12, first sentence (nodes).** -/
theorem moral_nodes (G : MG) : (moral G).nodes = G.nodes := rfl

/-- **C12, first sentence.** -/
theorem moral_isMoralOf (G : MG) (hwf : G.WF) (hsl : NoSelfLoop G) : IsMoralOf G (moral G) :=
  ⟨fun _ => Iff.rfl, moral_adj_iff G hwf hsl⟩

/-- walk form (used for the second sentence): for `u ≠ v`, a *walk* with only colliders inside exists
    iff a *path* does -/
theorem walk_iff_cc {G : MG} (hwf : G.WF) {u v : Nat} (hne : u ≠ v) :
    (∃ hs, hs ≠ [] ∧ ValidW G u hs ∧ endNode u hs = v ∧ CollW none hs) ↔ ColliderConnected G u v := by
  rw [cc_iff_district hwf hne]
  constructor
  · rintro ⟨hs, hn, hv, hend, hc⟩; exact district_of_walk hwf hn hv hend hc
  · intro h
    rcases (cc_iff_district hwf hne).mpr h with ⟨mu, mv, he⟩ | ⟨hs, hn, hv, hend, _, hc⟩
    · exact ⟨[⟨mu, mv, v⟩], by simp, ⟨he, trivial⟩, rfl, by simp [CollW]⟩
    · exact ⟨hs, hn, hv, hend, (allColl_iff_collW hs).mp hc⟩

/-! ## plain DAGs -/

theorem breach_eq_of_bi_nil {G : MG} (hbi : G.bi = []) {r u : Nat} (h : BReach G r u) : r = u := by
  induction h with
  | refl => rfl
  | tail _ s _ =>
    have := s.1
    simp [spouses, sym, hbi] at this

/-- **C12 on plain DAGs.** Without bidirected and undirected edges the model's moral graph is the
    skeleton plus an edge between any two parents of a common child – the definition of
    `networkx.moral_graph`. -/
theorem moral_dag (G : MG) (hwf : G.WF) (hsl : NoSelfLoop G) (hbi : G.bi = []) (hun : G.un = [])
    (u v : Nat) : UAdj (moral G).edges u v ↔ DagMoralAdj G u v := by
  show UAdj (moralEdges G) u v ↔ _
  rw [moral_adj_district]
  unfold DagMoralAdj
  have hadj : Adj G u v ↔ ((u, v) ∈ G.dir ∨ (v, u) ∈ G.dir) := by
    unfold Adj HasEdge
    constructor
    · rintro ⟨mu, mv, h⟩
      rcases h with ⟨_, _, h⟩ | ⟨_, _, h⟩ | ⟨_, _, h⟩ | ⟨_, _, h⟩
      · exact Or.inl h
      · exact Or.inr h
      · rw [hbi] at h; simp at h
      · rw [hun] at h; simp at h
    · rintro (h | h)
      · exact ⟨.tail, .head, Or.inl ⟨rfl, rfl, h⟩⟩
      · exact ⟨.head, .tail, Or.inr (Or.inl ⟨rfl, rfl, h⟩)⟩
  have hin : ∀ r w, InDP G r w ↔ (w = r ∨ (w, r) ∈ G.dir) := by
    intro r w
    constructor
    · rintro (h | ⟨c, hc, hd⟩)
      · exact Or.inl (breach_eq_of_bi_nil hbi h).symm
      · rw [← breach_eq_of_bi_nil hbi hc] at hd; exact Or.inr hd
    · rintro (rfl | h)
      · exact Or.inl (Reach.refl _)
      · exact Or.inr ⟨r, Reach.refl _, h⟩
  constructor
  · rintro (h | ⟨hne, r, _, hu, hv⟩)
    · exact ⟨adj_ne hsl h, (hadj.mp h).elim Or.inl (fun h => Or.inr (Or.inl h))⟩
    · refine ⟨hne, ?_⟩
      have h1 := (hin r u).mp hu
      have h2 := (hin r v).mp hv
      rcases h1 with rfl | hu <;> rcases h2 with rfl | hv
      · exact absurd rfl hne
      · exact Or.inr (Or.inl hv)
      · exact Or.inl hu
      · exact Or.inr (Or.inr ⟨r, hu, hv⟩)
  · rintro ⟨hne, h | h | ⟨c, hu, hv⟩⟩
    · exact Or.inl (hadj.mpr (Or.inl h))
    · exact Or.inl (hadj.mpr (Or.inr h))
    · exact Or.inr ⟨hne, c, (hwf.1 _ hu).2, (hin c u).mpr (Or.inr hu), (hin c v).mpr (Or.inr hv)⟩

/-! ## the defect that was repaired, and non-vacuity -/

/-- `0 -> 2 <- 1` -/
def G0 : MG := { nodes := [0, 1, 2], dir := [(0, 2), (1, 2)] }

/-- `0 -> 2 <-> 3 <- 1` with an extra undirected edge `0 - 4`? no: keep the C01 domain:
    `0 -> 2 <-> 3 <- 1`, `4 -> 0` -/
def G1 : MG := { nodes := [0, 1, 2, 3, 4], dir := [(0, 2), (1, 3), (4, 0)], bi := [(2, 3)] }

theorem G0_wf : G0.WF := by
  refine ⟨?_, ?_, ?_⟩ <;> intro e he <;> simp [G0] at he ⊢
  rcases he with rfl | rfl <;> simp

theorem G0_nsl : NoSelfLoop G0 := by
  intro a ma mb h
  simp [HasEdge, G0] at h
  omega

theorem G1_wf : G1.WF := by
  refine ⟨?_, ?_, ?_⟩ <;> intro e he <;> simp [G1] at he ⊢
  · rcases he with rfl | rfl | rfl <;> simp
  · subst he; simp

theorem G1_nsl : NoSelfLoop G1 := by
  intro a ma mb h
  simp [HasEdge, G1] at h
  omega

/-- the parents 0 and 1 of the common child 2 are collider connected … -/
theorem G0_cc : ColliderConnected G0 0 1 :=
  Or.inr ⟨[⟨.tail, .head, 2⟩, ⟨.head, .tail, 1⟩], by simp, by simp [ValidW, HasEdge, G0], rfl,
    by simp [nodesOf], by simp [AllColl]⟩

theorem mem_compEdgesUnfixed {G : MG} {c : List Nat} {u v : Nat} :
    (u, v) ∈ compEdgesUnfixed G c → u ∈ c ∧ (v ∈ c ∨ v ∈ allParents G c) := by
  simp only [compEdgesUnfixed, List.mem_append, mem_pairsOf, mem_nodeParent]
  rintro (⟨h1, h2, _⟩ | ⟨h1, h2, _⟩)
  · exact ⟨h1, Or.inl h2⟩
  · exact ⟨h1, Or.inr h2⟩

/-- what the unrepaired loop can produce: one end point always lies *in* the district -/
theorem moralUnfixed_adj {G : MG} {u v : Nat} (h : UAdj (moralUnfixed G).edges u v) :
    Adj G u v ∨ ∃ r ∈ G.nodes, (BReach G r u ∧ InDP G r v) ∨ (BReach G r v ∧ InDP G r u) := by
  have key : ∀ a b, (a, b) ∈ (comps G).flatMap (compEdgesUnfixed G) →
      ∃ r ∈ G.nodes, BReach G r a ∧ InDP G r b := by
    intro a b hab
    obtain ⟨c, hc, he⟩ := List.mem_flatMap.mp hab
    obtain ⟨r, hr, rfl⟩ := (comps_spec G).1 c hc
    obtain ⟨h1, h2⟩ := mem_compEdgesUnfixed he
    exact ⟨r, hr, (mem_bicomp.mp h1).2, inDP_of_mem hr h2⟩
  unfold UAdj moralUnfixed at h
  simp only [List.mem_append] at h
  rcases h with (h | h) | (h | h)
  · exact Or.inl (adj_iff_base.mpr (Or.inl h))
  · obtain ⟨r, hr, h1, h2⟩ := key u v h; exact Or.inr ⟨r, hr, Or.inl ⟨h1, h2⟩⟩
  · exact Or.inl (adj_iff_base.mpr (Or.inr h))
  · obtain ⟨r, hr, h1, h2⟩ := key v u h; exact Or.inr ⟨r, hr, Or.inr ⟨h1, h2⟩⟩

/-- … but the code before the fix did not join them: it violated C12. -/
theorem moralUnfixed_counterexample : ¬ IsMoralOf G0 (moralUnfixed G0) := by
  rintro ⟨_, h⟩
  have hadj := (h 0 1).mpr ⟨by decide, G0_cc⟩
  have hin : ∀ a b, InDP G0 a b → b = a ∨ (b, a) ∈ G0.dir := by
    rintro a b (h | ⟨c, hc, hd⟩)
    · exact Or.inl (breach_eq_of_bi_nil rfl h).symm
    · rw [← breach_eq_of_bi_nil rfl hc] at hd; exact Or.inr hd
  rcases moralUnfixed_adj hadj with ⟨mu, mv, he⟩ | ⟨r, _, ⟨h1, h2⟩ | ⟨h1, h2⟩⟩
  · simp [HasEdge, G0] at he
  · have := breach_eq_of_bi_nil (G := G0) rfl h1
    subst this
    have := hin _ _ h2
    simp [G0] at this
  · have := breach_eq_of_bi_nil (G := G0) rfl h1
    subst this
    have := hin _ _ h2
    simp [G0] at this

/-- non-vacuity: the hypotheses of `moral_adj_iff` hold for a graph with a two-node district with two
    parents, and the theorem then yields the marriage 0 — 1 of the parents of the district {2,3} -/
example : G1.WF ∧ NoSelfLoop G1 ∧ UAdj (moral G1).edges 0 1 :=
  ⟨G1_wf, G1_nsl, (moral_adj_iff G1 G1_wf G1_nsl 0 1).mpr ⟨by decide,
    Or.inr ⟨[⟨.tail, .head, 2⟩, ⟨.head, .head, 3⟩, ⟨.head, .tail, 1⟩], by simp,
      by simp [ValidW, HasEdge, G1], rfl, by simp [nodesOf], by simp [AllColl]⟩⟩⟩

example : G0.WF ∧ NoSelfLoop G0 ∧ G0.bi = [] ∧ G0.un = [] ∧ DagMoralAdj G0 0 1 :=
  ⟨G0_wf, G0_nsl, rfl, rfl, by decide, Or.inr (Or.inr ⟨2, by simp [G0], by simp [G0]⟩)⟩

end C12
