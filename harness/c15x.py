"""C15, unmodelled part: public algorithms that no other property models (proper_possibly_directed_path,
all_vstructures, is_node_common_cause, set_nodes_as_latent_confounders, is_definite_noncollider,
single_source_shortest_mixed_path).  There is no Lean model for them, so the comparison is purely
metamorphic (this is a TEST of the C15 relation, not backed by a theorem): the expected answer is what the
implementation itself returns for the canonical naming (labels 0..n-1, the case's own insertion order), and
every other label family / insertion order / hash seed must give the renaming of it.  A defect that is the same
under every naming is invisible here by construction."""
from . import common as C


def _pag(g, lab):
    from pywhy_graphs import PAG
    G = PAG()
    for v in C.g_nodes(g):
        G.add_node(lab(v))
    for k, nm in (("D", "directed"), ("B", "bidirected"), ("U", "undirected"), ("C", "circle")):
        for a, b in g[k]:
            G.add_edge(lab(a), lab(b), nm)
    return G


def _dag(g, lab):
    import networkx as nx
    G = nx.DiGraph()
    for v in C.g_nodes(g):
        G.add_node(lab(v))
    for a, b in g["D"]:
        G.add_edge(lab(a), lab(b))
    return G


def _inv_path(lab, p):
    return "-".join(str(lab.inv(v)) for v in p)


def _run(case, fam):
    """-> canonical string in indices"""
    lab = C.Labels(fam)
    g = case["g"]
    k = case["fn"]
    try:
        if k == "pppd":
            from pywhy_graphs.algorithms import proper_possibly_directed_path
            G = _pag(g, lab)
            r = proper_possibly_directed_path(G, {lab.fresh(v) for v in case["X"]}, {lab.fresh(v) for v in case["Y"]})
            return "paths=" + "/".join(sorted(_inv_path(lab, p) for p in r))
        if k == "vs":
            from pywhy_graphs.algorithms import all_vstructures
            G = _dag(g, lab)
            r1 = all_vstructures(G)
            r2 = all_vstructures(G, as_edges=True)
            a = sorted("%d>%d<%d" % ((lab.inv(t[0]), lab.inv(t[1]), lab.inv(t[2])) if lab.inv(t[0]) < lab.inv(t[2])
                                      else (lab.inv(t[2]), lab.inv(t[1]), lab.inv(t[0]))) for t in r1)
            b = sorted("%d>%d" % (lab.inv(u), lab.inv(v)) for u, v in r2)
            return "vs=" + ",".join(sorted(set(a))) + " edges=" + ",".join(sorted(set(b)))
        if k == "cc":
            from pywhy_graphs.algorithms import is_node_common_cause
            G = _dag(g, lab)
            out = []
            for v in range(g["n"]):
                out.append("T" if is_node_common_cause(G, lab.fresh(v)) else "F")
            ex = [lab.fresh(v) for v in case["X"]]
            for v in range(g["n"]):
                if v not in case["X"]:
                    out.append("T" if is_node_common_cause(G, lab.fresh(v), exclude_nodes=list(ex)) else "F")
            return "cc=" + "".join(out)
        if k == "lat":
            from pywhy_graphs.algorithms import set_nodes_as_latent_confounders
            G = _dag(g, lab)
            H = set_nodes_as_latent_confounders(G, [lab.fresh(v) for v in case["X"]])
            es = H.edges()
            D = [(lab.inv(a), lab.inv(b)) for a, b in es.get("directed", [])]
            B = [(lab.inv(a), lab.inv(b)) for a, b in es.get("bidirected", [])]
            # the children of a removed node are joined by a CHAIN of bidirected edges in successor order: which
            # chain is a witness; what is compared are the districts (components of the bidirected layer)
            comp = {v: v for v in range(g["n"])}

            def find(v):
                while comp[v] != v:
                    v = comp[v]
                return v
            for a, b in B:
                comp[find(a)] = find(b)
            nodes = sorted(lab.inv(v) for v in H.nodes)
            dist = sorted(sorted(v for v in nodes if find(v) == r) for r in set(find(v) for v in nodes))
            return "N=%s D=%s districts=%s" % (C.fmt_set(nodes), C.fmt_pairs(sorted(D)),
                                                     "|".join(C.fmt_set(d) for d in dist if len(d) > 1))
        if k == "dnc":
            from pywhy_graphs.algorithms import is_definite_noncollider
            G = _pag(g, lab)
            out = []
            for a, b, c in case["T"]:
                out.append("T" if is_definite_noncollider(G, lab.fresh(a), lab.fresh(b), lab.fresh(c)) else "F")
            return "dnc=" + "".join(out)
        if k == "sssp":
            from pywhy_graphs.algorithms import single_source_shortest_mixed_path
            G = _pag(g, lab)
            r = single_source_shortest_mixed_path(G, lab.fresh(case["X"][0]))
            # one shortest path per reachable node is a witness: reachable set and lengths are compared
            return "sp=" + ",".join("%d:%d" % (lab.inv(t), len(p)) for t, p in sorted(r.items(), key=lambda kv: lab.inv(kv[0])))
    except Exception as e:
        return "err:" + type(e).__name__
    raise ValueError(k)


def _rand_pag(rng, n):
    """valid-looking PAG edges: at most one edge kind per pair among ->, <-, <->, o-o, o->, <-o, --"""
    g = C.g_new(n)
    for a in range(n):
        for b in range(a + 1, n):
            if rng.random() < 0.5:
                continue
            k = rng.choice(("->", "<-", "<->", "oo", "o>", "<o", "--", "->", "oo"))
            if k == "->":
                g["D"].append([a, b])
            elif k == "<-":
                g["D"].append([b, a])
            elif k == "<->":
                g["B"].append([a, b])
            elif k == "oo":
                g["C"] += [[a, b], [b, a]]
            elif k == "o>":       # a o-> b : circle at a (edge (b, a) in the circle layer), arrowhead at b
                g["C"].append([b, a])
                g["D"].append([a, b])
            elif k == "<o":
                g["C"].append([a, b])
                g["D"].append([b, a])
            else:
                g["U"].append([a, b])
    return g


def c15_cases(rng, k):
    out = []
    fns = ("pppd", "vs", "cc", "lat", "dnc", "sssp")
    for i in range(k):
        fn = fns[i % len(fns)]
        n = rng.choice((3, 4, 4, 5))
        nodes = list(range(n))
        rng.shuffle(nodes)
        if fn in ("vs", "cc", "lat"):
            g = C.rand_dag_order_graph(rng, n, [("D>",)], density=rng.choice((0.4, 0.6)))
            case = {"fn": fn, "g": g, "X": sorted(nodes[:rng.choice((1, 1, 2))])}
            if fn == "lat":
                # the documented precondition: every listed node is a common cause (>= 2 children)
                ch = {v: [b for a, b in g["D"] if a == v] for v in range(n)}
                ok = [v for v in range(n) if len(ch[v]) >= 2]
                if not ok:
                    case = {"fn": "vs", "g": g, "X": []}
                else:
                    case["X"] = sorted(rng.sample(ok, min(len(ok), rng.choice((1, 1, 2)))))
        else:
            g = _rand_pag(rng, n)
            case = {"fn": fn, "g": g, "X": sorted(nodes[:1]), "Y": sorted(nodes[1:rng.choice((2, 3))])}
            if fn == "pppd":
                case["X"] = sorted(nodes[:rng.choice((1, 2))])
                case["Y"] = sorted(nodes[2:rng.choice((3, 4))]) or [nodes[-1]]
                if set(case["X"]) & set(case["Y"]):
                    case["Y"] = sorted(set(case["Y"]) - set(case["X"])) or [v for v in range(n) if v not in case["X"]][:1]
            if fn == "dnc":
                case["T"] = [rng.sample(range(n), 3) for _ in range(6)]
        out.append(case)
    return out


def c15_eval(case, fam, order_seed):
    import random
    c = dict(case, g=C.shuffled_graph(random.Random(order_seed), case["g"]))
    return _run(c, fam)


def c15_expected(cases):
    """no Lean model: the implementation's own answer under the canonical naming (see the module docstring)"""
    return [_run(c, "int") for c in cases]
