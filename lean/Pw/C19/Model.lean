import Pw.Core.Graph
import Pw.C01.Guard
open Closure

/-! # C19 model: `acyclification` / `sigma_separated` (pywhy_graphs/algorithms/cyclic.py)

Mirrors the code *after* the two `fix:` commits on branch f-a19 (the unchanged code is mirrored by
`procCompOld`/`acyOld`, used for the counterexample theorems only).

* `directed_G`, `bidirected_G` (the snapshots the loop reads) are the input graph `G0`;
  the graph that is written is the accumulator `H` of the fold.
* `nx.strongly_connected_components(directed_G)` = the classes of mutual reachability; networkx
  fixes *some* order of the components, which the model takes as a parameter: `order` is any list
  of the nodes, the components are listed by first representative (`comps`).  All theorems hold for
  every order that mentions every node.
* python sets are lists read as sets (duplicates allowed, the driver prints sorted sets). -/
namespace C19

/-- `b` is reachable from `a` along directed edges (reflexive on nodes) -/
def reach (G : MG) (a b : Nat) : Bool := decide (b ∈ closure G.nodes G.children [a])

/-- the strongly connected component of `v`: all nodes mutually reachable with `v` -/
def sc (G : MG) (v : Nat) : List Nat := G.nodes.filter fun w => reach G v w && reach G w v

/-- the components in the order of their first representative in `order` -/
def compsAux (G : MG) : List Nat → List Nat → List (List Nat)
  | [], _ => []
  | v :: vs, seen =>
    if v ∈ seen then compsAux G vs seen
    else sc G v :: compsAux G vs (sc G v ++ seen)

def comps (G : MG) (order : List Nat) : List (List Nat) := compsAux G order []

/-- `scomp_parents`: predecessors (in the snapshot) of members of `comp` that are outside `comp` -/
def scompParents (G0 : MG) (comp : List Nat) : List Nat :=
  (comp.flatMap G0.parents).filter (· ∉ comp)

/-- `scomp_c_components`: for every bidirected neighbour (in the snapshot) of a member of `comp`
    that is outside `comp`, the whole strongly connected component of that neighbour -/
def scompCC (G0 : MG) (comp : List Nat) : List Nat :=
  ((comp.flatMap G0.spouses).filter (· ∉ comp)).flatMap (sc G0)

/-- the directed edges of the snapshot inside `comp` (the list handed to `remove_edges_from`) -/
def intra (G0 : MG) (comp : List Nat) : List (Nat × Nat) :=
  comp.flatMap fun u => ((G0.children u).filter (· ∈ comp)).map (u, ·)

/-- `nx.complete_graph(comp).edges` (as ordered pairs, both orientations) -/
def complete (comp : List Nat) : List (Nat × Nat) :=
  comp.flatMap fun a => (comp.filter (· ≠ a)).map (a, ·)

/-- one iteration of the component loop: reads `G0`, writes `H` -/
def procComp (G0 : MG) (H : MG) (comp : List Nat) : MG :=
  if comp.length ≤ 1 then H          -- `if len(comp) == 1: continue`
  else
    let ps := scompParents G0 comp
    let cc := scompCC G0 comp
    { H with
      dir := (H.dir.filter (· ∉ intra G0 comp)) ++ comp.flatMap (fun v => ps.map (·, v)),
      bi := H.bi ++ complete comp ++ comp.flatMap (fun v => cc.map (·, v)) }

/-- `acyclification(G)` with the components visited in the order induced by `order` -/
def acy (G : MG) (order : List Nat) : MG := (comps G order).foldl (procComp G) G

/-- `sigma_separated(G, x, y, z) = m_separated(acyclification(G), x, y, z)` (with `m_separated`'s
    acyclicity guard) -/
def sigmaSeparatedE (G : MG) (order X Y Z : List Nat) : Except String Bool :=
  MG.mSeparatedE (acy G order) X Y Z

def sigmaSeparated (G : MG) (order X Y Z : List Nat) : Bool :=
  MG.mSeparated (acy G order) X Y Z

/-- state model of the `copy` flag: returns (the caller's graph after the call, the result).
    `copy=True` works on `G.copy()`, `copy=False` writes the caller's object. -/
def acyclificationCall (copy : Bool) (G : MG) (order : List Nat) : MG × MG :=
  if copy then (G, acy G order) else (acy G order, acy G order)

/-! ## the unchanged code (before the fixes), for the counterexample theorems -/

/-- `scomp_children` of the unchanged code -/
def scompChildren (G0 : MG) (comp : List Nat) : List (Nat × Nat) :=
  comp.flatMap fun u => ((G0.children u).filter (· ∉ comp)).map (u, ·)

/-- unchanged loop body: remove the component's nodes from `H` (all incident edges), re-add the
    complete bidirected graph, the out-edges, parents and *direct* bidirected neighbours -/
def procCompOld (G0 : MG) (H : MG) (comp : List Nat) : MG :=
  if comp.length ≤ 1 then H
  else
    let ps := scompParents G0 comp
    let cc := (comp.flatMap G0.spouses).filter (· ∉ comp)
    { H with
      dir := (H.dir.filter fun e => e.1 ∉ comp ∧ e.2 ∉ comp) ++ scompChildren G0 comp ++
        comp.flatMap (fun v => ps.map (·, v)),
      bi := (H.bi.filter fun e => e.1 ∉ comp ∧ e.2 ∉ comp) ++ complete comp ++
        comp.flatMap (fun v => cc.map (·, v)) }

def acyOld (G : MG) (order : List Nat) : MG := (comps G order).foldl (procCompOld G) G

end C19
