import Pw.C02.SubB

/-! # C02: the unconditional refinement theorem over all histories (default kinds for the ADMG names) -/
namespace C02

/-- `add_edge_type` uses the default kind for the three names an ADMG pre-creates
    (0 = directed → DiGraph, 1 = bidirected → Graph, 2 = undirected → Graph); this is the
    quantifier of C02 ("the default edge-type names and all four layer kinds") -/
def GOp.WellKinded : GOp → Prop
  | .addEdgeType t k _ _ => (t = 0 → k = .dir) ∧ (t = 1 → k = .und) ∧ (t = 2 → k = .und)
  | _ => True

def Op.WellKinded : Op → Prop
  | .on _ op => op.WellKinded
  | _ => True

namespace AG

def KindOK (a : AG) : Prop :=
  a.admg = true → (∀ k, a.kind 0 = some k → k = .dir) ∧ (∀ k, a.kind 1 = some k → k = .und) ∧
    (∀ k, a.kind 2 = some k → k = .und)

theorem foldl_keep {β} (l : List β) (f : AG → β → AG) (h : ∀ a b, (f a b).kind = a.kind ∧ (f a b).admg = a.admg)
    (a : AG) : (l.foldl f a).kind = a.kind ∧ (l.foldl f a).admg = a.admg := by
  induction l generalizing a with
  | nil => exact ⟨rfl, rfl⟩
  | cons b l ih =>
    have h1 := h a b
    have h2 := ih (f a b)
    exact ⟨h2.1.trans h1.1, h2.2.trans h1.2⟩

theorem ensureS_keep (a : AG) (v : Nat) (at' : Attr) : (a.ensureS v at').kind = a.kind ∧ (a.ensureS v at').admg = a.admg := by
  unfold ensureS; split <;> exact ⟨rfl, rfl⟩

/-- no mutation other than `add_edge_type` / `remove_edge_type` changes the kinds -/
theorem step_keep (a : AG) (op : GOp) (h : (∀ t k ns es, op ≠ .addEdgeType t k ns es) ∧ ∀ t, op ≠ .removeEdgeType t) :
    (a.step op).1.kind = a.kind ∧ (a.step op).1.admg = a.admg := by
  cases op with
  | addNode v at' => exact ⟨rfl, rfl⟩
  | addNodes vs at' => exact foldl_keep vs (fun a v => a.addNodeS v at') (fun _ _ => ⟨rfl, rfl⟩) a
  | removeNode v => simp only [AG.step]; split <;> exact ⟨rfl, rfl⟩
  | removeNodes vs => exact foldl_keep vs dropNodeS (fun _ _ => ⟨rfl, rfl⟩) a
  | addEdge u v t at' =>
    simp only [AG.step]
    have h1 := ensureS_keep a u []
    have h2 := ensureS_keep (a.ensureS u []) v []
    split
    · exact ⟨h2.1.trans h1.1, h2.2.trans h1.2⟩
    · exact ⟨h2.1.trans h1.1, h2.2.trans h1.2⟩
  | addEdges es t at' =>
    simp only [AG.step]
    have h1 := foldl_keep es (fun a e => (a.ensureS e.1 at').ensureS e.2 at')
      (fun a e => ⟨(ensureS_keep _ _ _).1.trans (ensureS_keep _ _ _).1, (ensureS_keep _ _ _).2.trans (ensureS_keep _ _ _).2⟩) a
    split
    · have h2 := foldl_keep es (fun a e => a.putEdge t e.1 e.2 at') (fun _ _ => ⟨rfl, rfl⟩)
        (es.foldl (fun a e => (a.ensureS e.1 at').ensureS e.2 at') a)
      exact ⟨h2.1.trans h1.1, h2.2.trans h1.2⟩
    · exact h1
  | removeEdge u v t =>
    simp only [AG.step]
    cases t with
    | all => exact ⟨rfl, rfl⟩
    | one t' => simp only; split <;> exact ⟨rfl, rfl⟩
  | removeEdges es t =>
    simp only [AG.step]
    split
    · exact foldl_keep es (fun a e => a.dropEdgeS t e.1 e.2) (fun _ _ => ⟨rfl, rfl⟩) a
    · exact ⟨rfl, rfl⟩
  | clearEdges t => simp only [AG.step]; split <;> exact ⟨rfl, rfl⟩
  | addEdgeType t k ns es => exact absurd rfl (h.1 t k ns es)
  | removeEdgeType t => exact absurd rfl (h.2 t)
  | setGAttr at' => exact ⟨rfl, rfl⟩

theorem KindOK.step {a : AG} (h : a.KindOK) {op : GOp} (hw : op.WellKinded) : (a.step op).1.KindOK := by
  by_cases hop : (∀ t k ns es, op ≠ .addEdgeType t k ns es) ∧ ∀ t, op ≠ .removeEdgeType t
  · obtain ⟨hk, ha⟩ := step_keep a op hop
    intro hadm; rw [ha] at hadm; rw [hk]; exact h hadm
  · cases op with
    | addEdgeType t k ns es =>
      simp only [AG.step]
      split
      · exact h
      · intro hadm
        have h0 := h hadm
        simp only [GOp.WellKinded] at hw
        refine ⟨fun k' hk' => ?_, fun k' hk' => ?_, fun k' hk' => ?_⟩ <;> simp only at hk' <;>
          split at hk' <;> rename_i heq <;> simp only [beq_iff_eq] at heq
        · cases hk'; exact hw.1 heq.symm
        · exact h0.1 k' hk'
        · cases hk'; exact hw.2.1 heq.symm
        · exact h0.2.1 k' hk'
        · cases hk'; exact hw.2.2 heq.symm
        · exact h0.2.2 k' hk'
    | removeEdgeType t =>
      simp only [AG.step]
      split
      · intro hadm
        have h0 := h hadm
        refine ⟨fun k' hk' => ?_, fun k' hk' => ?_, fun k' hk' => ?_⟩ <;> simp only at hk' <;>
          split at hk' <;> first | (cases hk') | skip
        · exact h0.1 k' hk'
        · exact h0.2.1 k' hk'
        · exact h0.2.2 k' hk'
      · exact h
    | _ => simp at hop

theorem KindOK.empty (admg : Bool) : (AG.empty admg).KindOK := by
  intro h
  simp only [AG.empty] at h ⊢
  subst h
  refine ⟨fun k hk => ?_, fun k hk => ?_, fun k hk => ?_⟩ <;> simp at hk <;> exact hk.symm

end AG

theorem MEG.kindOK_of_abs {g : MEG} (h : g.abs.KindOK) : g.KindOK := by
  intro hadm t L hL
  have h0 := h hadm
  have hk : g.abs.kind t = some L.kind := by simp [MEG.abs, hL]
  refine ⟨fun ht => ?_, fun ht => ?_, fun ht => ?_⟩ <;> subst ht
  · exact h0.1 _ hk
  · exact h0.2.1 _ hk
  · exact h0.2.2 _ hk

/-- every live object has the default kinds on the ADMG names -/
def Store.KindOK (s : Store) : Prop := ∀ g ∈ s, g.abs.KindOK

theorem Store.KindOK.step {s : Store} (hi : s.Inv) (hk : s.KindOK) {op : Op} (hw : op.WellKinded) :
    (s.step op).1.KindOK := by
  cases op with
  | new a =>
    intro g hg; simp only [Store.step, List.mem_append, List.mem_singleton] at hg
    rcases hg with hg | rfl
    · exact hk g hg
    · rw [abs_fresh]; exact AG.KindOK.empty a
  | on i op =>
    simp only [Store.step]
    split
    · exact hk
    · rename_i g hg
      intro g' hg'
      rcases List.mem_or_eq_of_mem_set hg' with h1 | rfl
      · exact hk g' h1
      · have hmem := List.mem_of_getElem? hg
        rw [(MEG.abs_step (hi g hmem) op).1]
        exact (hk g hmem).step hw
  | copy i =>
    simp only [Store.step]
    split
    · exact hk
    · rename_i g hg
      intro g' hg'
      simp only [List.mem_append, List.mem_singleton] at hg'
      rcases hg' with h1 | rfl
      · exact hk g' h1
      · have hmem := List.mem_of_getElem? hg
        rw [MEG.abs_copy (hi g hmem) (MEG.kindOK_of_abs (hk g hmem))]
        exact hk g hmem
  | subgraph i ns =>
    simp only [Store.step]
    split
    · exact hk
    · rename_i g hg
      intro g' hg'
      simp only [List.mem_append, List.mem_singleton] at hg'
      rcases hg' with h1 | rfl
      · exact hk g' h1
      · have hmem := List.mem_of_getElem? hg
        rw [MEG.abs_subgraph (hi g hmem) (MEG.kindOK_of_abs (hk g hmem))]
        exact hk g hmem

/-- one step of any history refines the specification (all sixteen operations) -/
theorem Store.abs_step {s : Store} (hi : s.Inv) (hk : s.KindOK) (op : Op) :
    (s.step op).1.abs = (s.abs.step op).1 ∧ (s.step op).2 = (s.abs.step op).2 := by
  cases op with
  | copy h =>
    simp only [Store.step, AStore.step, Store.abs, List.getElem?_map]
    cases hg : s[h]? with
    | none => simp
    | some g =>
      have hmem := List.mem_of_getElem? hg
      simp [MEG.abs_copy (hi g hmem) (MEG.kindOK_of_abs (hk g hmem))]
  | subgraph h ns =>
    simp only [Store.step, AStore.step, Store.abs, List.getElem?_map]
    cases hg : s[h]? with
    | none => simp
    | some g =>
      have hmem := List.mem_of_getElem? hg
      simp [MEG.abs_subgraph (hi g hmem) (MEG.kindOK_of_abs (hk g hmem))]
  | new a => exact Store.abs_step_core hi (.new a) (Or.inr rfl)
  | on h op => exact Store.abs_step_core hi (.on h op) (Or.inr rfl)

/-- **C02 refinement over all histories**: for every finite sequence of `new`, the twelve public
    mutations, `copy` and `subgraph` on any number of `MixedEdgeGraph`/`ADMG` objects (edge types added
    under the three ADMG names with their default kinds), the model run and the run of the abstract
    specification agree after every step: the states are related by `abs` (so by `MEG.obs_eq` every read
    query of every live object answers according to the abstract edge sets) and the same calls raise.
    In particular `copy()` yields an equal graph including node, edge and graph attributes and
    `subgraph(ns)` exactly the induced one. -/
theorem Store.run_refines (ops : List Op) (hw : ∀ op ∈ ops, op.WellKinded) :
    (Store.run [] ops).map (fun r => (r.1.abs, r.2)) = AStore.run [] ops := by
  have : ∀ s : Store, s.Inv → s.KindOK → (Store.run s ops).map (fun r => (r.1.abs, r.2)) = AStore.run s.abs ops := by
    induction ops with
    | nil => intro s _ _; rfl
    | cons op ops ih =>
      intro s hi hk
      have h := Store.abs_step hi hk op
      simp only [Store.run, AStore.run, List.map_cons, List.cons.injEq]
      refine ⟨Prod.ext h.1 h.2, ?_⟩
      rw [ih (fun o ho => hw o (by simp [ho])) _ (hi.step op) (hk.step hi (hw op (by simp))), h.1]
  exact this [] (by intro g hg; simp at hg) (by intro g hg; simp at hg)

end C02
