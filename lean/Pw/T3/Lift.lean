import Pw.T3.Ext
open Closure

/-! # T3, part 5: re-orienting one bucket of a consistent extension

`Estar`: inside the bucket of `a0` use the orientation `E`, elsewhere keep `D`. -/
namespace T3
open C08 MG

variable {G D : MG}

/-- the bucket (undirected component) of `a0` -/
def Bk (G : MG) (a0 v : Nat) : Prop := UnConn G a0 v

def Estar (G D : MG) (a0 : Nat) (E : Nat → Nat → Prop) (x y : Nat) : Prop :=
  (Bk G a0 x ∧ Bk G a0 y ∧ E x y) ∨ (¬ (Bk G a0 x ∧ Bk G a0 y) ∧ (x, y) ∈ D.dir)

/-- an edge of `D` that enters the bucket is a directed edge of `G` -/
theorem Ctx.enter (h : Ctx G D) {a0 p q : Nat} (hp : ¬ Bk G a0 p) (hq : Bk G a0 q)
    (e : (p, q) ∈ D.dir) : (p, q) ∈ G.dir := by
  rcases skel_cases ((h.ext.skel p q).mp (Or.inl e)) with a | a | a
  · exact a
  · exact absurd (h.sub a) (h.asymD e)
  · exact absurd (UnConn.snoc hq a.symm) hp

/-- ... and its tail is a parent (in `G`) of every node of the bucket -/
theorem Ctx.enter_all (h : Ctx G D) {a0 p q q' : Nat} (hp : ¬ Bk G a0 p) (hq : Bk G a0 q)
    (e : (p, q) ∈ D.dir) (hq' : Bk G a0 q') : (p, q') ∈ G.dir :=
  h.parent_bucket (h.enter hp hq e) (fun c => hp (UnConn.trans hq c)) ((UnConn.symm hq).trans hq')

/-- a path of `D` from outside the bucket to inside has a first entering edge -/
theorem first_entry {a0 x c : Nat} (hp : TC (dr D) x c) (hx : ¬ Bk G a0 x) (hc : Bk G a0 c) :
    ∃ p q, ¬ Bk G a0 p ∧ Bk G a0 q ∧ (x = p ∨ TC (dr D) x p) ∧ (p, q) ∈ D.dir := by
  induction hp with
  | base e => exact ⟨x, _, hx, hc, Or.inl rfl, e⟩
  | @snoc c' c hxc e ih =>
    by_cases hc' : Bk G a0 c'
    · exact ih hc'
    · exact ⟨c', c, hc', hc, Or.inr hxc, e⟩

/-- a path of `Estar` that starts outside the bucket can be replayed in `D` -/
theorem Ctx.estar_out (h : Ctx G D) {a0 : Nat} {E : Nat → Nat → Prop} {x y : Nat}
    (hx : ¬ Bk G a0 x) (hp : TC (Estar G D a0 E) x y) : TC (dr D) x y := by
  induction hp with
  | base e =>
    rcases e with ⟨a, _, _⟩ | ⟨_, e⟩
    · exact absurd a hx
    · exact TC.base e
  | @snoc c y hxc e ih =>
    rcases e with ⟨hc, hy, _⟩ | ⟨_, e⟩
    · obtain ⟨p, q, hp, hq, hxp, hpq⟩ := first_entry ih hx hc
      have : (p, y) ∈ D.dir := h.sub (h.enter_all hp hq hpq hy)
      rcases hxp with rfl | hxp
      · exact TC.base this
      · exact TC.snoc hxp this
    · exact TC.snoc ih e

/-- a path of `Estar` that starts inside the bucket either stays inside (and is a path of `E`) or
    leaves the bucket along an edge of `D` -/
theorem estar_in {a0 : Nat} {E : Nat → Nat → Prop} {x y : Nat} (hx : Bk G a0 x)
    (hp : TC (Estar G D a0 E) x y) :
    (Bk G a0 y ∧ TC E x y) ∨
    ∃ q w, Bk G a0 q ∧ ¬ Bk G a0 w ∧ (q, w) ∈ D.dir ∧ (w = y ∨ TC (Estar G D a0 E) w y) := by
  have step : ∀ c y, Bk G a0 c → Estar G D a0 E c y →
      (Bk G a0 y ∧ E c y) ∨ (¬ Bk G a0 y ∧ (c, y) ∈ D.dir) := by
    intro c y hc e
    rcases e with ⟨_, hy, e⟩ | ⟨hn, e⟩
    · exact Or.inl ⟨hy, e⟩
    · exact Or.inr ⟨fun hy => hn ⟨hc, hy⟩, e⟩
  induction hp with
  | base e =>
    rcases step _ _ hx e with ⟨a, b⟩ | ⟨a, b⟩
    · exact Or.inl ⟨a, TC.base b⟩
    · exact Or.inr ⟨x, _, hx, a, b, Or.inl rfl⟩
  | @snoc c y hxc e ih =>
    rcases ih with ⟨hc, hlt⟩ | ⟨q, w, hq, hw, hqw, hwc⟩
    · rcases step _ _ hc e with ⟨a, b⟩ | ⟨a, b⟩
      · exact Or.inl ⟨a, TC.snoc hlt b⟩
      · exact Or.inr ⟨c, y, hc, a, b, Or.inl rfl⟩
    · refine Or.inr ⟨q, w, hq, hw, hqw, Or.inr ?_⟩
      rcases hwc with rfl | hwc
      · exact TC.base e
      · exact TC.snoc hwc e

/-- `Estar` has no cycle -/
theorem Ctx.estar_acyclic (h : Ctx G D) {a0 : Nat} {E : Nat → Nat → Prop}
    (hac : ∀ x, ¬ TC E x x) (x : Nat) : ¬ TC (Estar G D a0 E) x x := by
  intro hp
  by_cases hx : Bk G a0 x
  · rcases estar_in hx hp with ⟨_, hlt⟩ | ⟨q, w, hq, hw, hqw, hwx⟩
    · exact hac x hlt
    · rcases hwx with rfl | hwx
      · exact hw hx
      · obtain ⟨p, q', hp', hq', hwp, hpq⟩ := first_entry (h.estar_out hw hwx) hw hx
        have hpq2 : (p, q) ∈ D.dir := h.sub (h.enter_all hp' hq' hpq hq)
        apply h.no_cycleD q
        rcases hwp with rfl | hwp
        · exact TC.cons hqw (TC.base hpq2)
        · exact TC.cons hqw (TC.snoc hwp hpq2)
  · exact h.no_cycleD x (h.estar_out hx hp)

/-- an acyclic, collider-free orientation of the skeleton inside the bucket of `a0` -/
structure BOr (G : MG) (a0 : Nat) (E : Nat → Nat → Prop) : Prop where
  dom : ∀ x y, E x y → Skel G x y
  total : ∀ x y, Bk G a0 x → Bk G a0 y → Skel G x y → E x y ∨ E y x
  acyc : ∀ x, ¬ TC E x x
  nocoll : ∀ x y z, E x z → E y z → x ≠ y → Skel G x y

theorem tc_rank {E : Nat → Nat → Prop} {r : Nat → Nat} (hr : ∀ x y, E x y → r y < r x) {x y : Nat}
    (h : TC E x y) : r y < r x := by
  induction h with
  | base e => exact hr _ _ e
  | snoc _ e ih => exact Nat.lt_trans (hr _ _ e) ih

theorem ExtOn.bor {a0 : Nat} {A : List Nat} {E : Nat → Nat → Prop} (hE : ExtOn G A E)
    (hA : ∀ x y, Bk G a0 x → Bk G a0 y → Skel G x y → x ∈ A ∧ y ∈ A) : BOr G a0 E := by
  obtain ⟨r, hr⟩ := hE.rank
  exact ⟨fun x y e => (hE.dom x y e).2.2,
    fun x y hx hy hs => hE.total x (hA x y hx hy hs).1 y (hA x y hx hy hs).2 hs,
    fun x c => Nat.lt_irrefl _ (tc_rank hr c), hE.nocoll⟩

section
variable {a0 : Nat} {E : Nat → Nat → Prop}

theorem Ctx.estar_skel (h : Ctx G D) (hE : BOr G a0 E) {x y : Nat} (e : Estar G D a0 E x y) :
    Skel G x y := by
  rcases e with ⟨_, _, e⟩ | ⟨_, e⟩
  · exact hE.dom x y e
  · exact (h.ext.skel x y).mp (Or.inl e)

theorem Ctx.estar_total (h : Ctx G D) (hE : BOr G a0 E) {x y : Nat} (hs : Skel G x y) :
    Estar G D a0 E x y ∨ Estar G D a0 E y x := by
  by_cases hb : Bk G a0 x ∧ Bk G a0 y
  · rcases hE.total x y hb.1 hb.2 hs with e | e
    · exact Or.inl (Or.inl ⟨hb.1, hb.2, e⟩)
    · exact Or.inr (Or.inl ⟨hb.2, hb.1, e⟩)
  · rcases ext_dir_of_skel h.ext hs with e | e
    · exact Or.inl (Or.inr ⟨hb, e⟩)
    · exact Or.inr (Or.inr ⟨fun c => hb ⟨c.2, c.1⟩, e⟩)

/-- every unshielded collider of `Estar` is a v-structure of `G` -/
theorem Ctx.estar_coll (h : Ctx G D) (hE : BOr G a0 E) {x y z : Nat} (e1 : Estar G D a0 E x z)
    (e2 : Estar G D a0 E y z) (hxy : x ≠ y) (hn : ¬ Skel G x y) : C08.VStruct G x z y := by
  rcases e1 with ⟨hx, hz, e1⟩ | ⟨n1, e1⟩ <;> rcases e2 with ⟨hy, hz', e2⟩ | ⟨n2, e2⟩
  · exact absurd (hE.nocoll x y z e1 e2 hxy) hn
  · have hy : ¬ Bk G a0 y := fun c => n2 ⟨c, hz⟩
    exact absurd (skel_of_dir' (h.enter_all hy hz e2 hx)) hn
  · have hx : ¬ Bk G a0 x := fun c => n1 ⟨c, hz'⟩
    exact absurd (skel_of_dir (h.enter_all hx hz' e1 hy)) hn
  · exact (h.ext.vstruct x z y).mp ⟨e1, e2, hxy, fun c => hn ((h.ext.skel x y).mp c)⟩

open Classical in
/-- the DAG whose edges are the pairs in `Estar` -/
noncomputable def liftDag (G D : MG) (a0 : Nat) (E : Nat → Nat → Prop) : MG :=
  { nodes := G.nodes
    dir := (D.dir ++ D.dir.map Prod.swap).filter fun e => decide (Estar G D a0 E e.1 e.2) }

theorem Ctx.mem_lift (h : Ctx G D) (hE : BOr G a0 E) {x y : Nat} :
    (x, y) ∈ (liftDag G D a0 E).dir ↔ Estar G D a0 E x y := by
  simp only [liftDag, List.mem_filter, decide_eq_true_eq, List.mem_append, List.mem_map]
  constructor
  · exact fun c => c.2
  · intro e
    refine ⟨?_, e⟩
    rcases ext_dir_of_skel h.ext (h.estar_skel hE e) with c | c
    · exact Or.inl c
    · exact Or.inr ⟨(y, x), c, rfl⟩

theorem Ctx.lift_skel (h : Ctx G D) (hE : BOr G a0 E) (x y : Nat) :
    Skel (liftDag G D a0 E) x y ↔ Skel G x y := by
  constructor
  · intro c
    rcases skel_cases c with c | c | c
    · exact h.estar_skel hE ((h.mem_lift hE).mp c)
    · exact (h.estar_skel hE ((h.mem_lift hE).mp c)).symm
    · rcases c with c | c <;> exact absurd c (by simp [liftDag])
  · intro c
    rcases h.estar_total hE c with e | e
    · exact Or.inl ((h.mem_lift hE).mpr e)
    · exact Or.inr (Or.inl ((h.mem_lift hE).mpr e))

/-- **lifting, general form**: the re-oriented graph is a consistent extension of every PDAG `P`
    with the skeleton and v-structures of `G` whose directed edges are kept by `Estar` -/
theorem Ctx.lift_ext_gen (h : Ctx G D) (hE : BOr G a0 E) (P : MG) (hnodes : P.nodes = G.nodes)
    (hskel : ∀ a b, Skel P a b ↔ Skel G a b)
    (hvs : ∀ a c b, C08.VStruct P a c b ↔ C08.VStruct G a c b)
    (hkeep : ∀ x y, (x, y) ∈ P.dir → Estar G D a0 E x y) :
    ConsistentExt P (liftDag G D a0 E) := by
  refine ⟨hnodes.symm, rfl, ?_, fun a b => (h.lift_skel hE a b).trans (hskel a b).symm,
    fun e he => (h.mem_lift hE).mpr (hkeep e.1 e.2 he), ?_⟩
  · intro a b e hba
    have e' := (h.mem_lift hE).mp e
    rcases anc_tc hba with rfl | hp
    · exact h.irrefl _ (h.estar_skel hE e')
    · exact h.estar_acyclic hE.acyc a
        (TC.cons e' (hp.mono fun _ _ c => (h.mem_lift hE).mp c))
  · intro a c b
    rw [hvs a c b]
    constructor
    · rintro ⟨h1, h2, hab, hn⟩
      exact h.estar_coll hE ((h.mem_lift hE).mp h1) ((h.mem_lift hE).mp h2) hab
        fun s => hn ((h.lift_skel hE a b).mpr s)
    · intro hv
      obtain ⟨h1, h2, hab, hn⟩ := (hvs a c b).mpr hv
      exact ⟨(h.mem_lift hE).mpr (hkeep _ _ h1), (h.mem_lift hE).mpr (hkeep _ _ h2),
        hab, fun s => hv.2.2.2 ((h.lift_skel hE a b).mp s)⟩

/-- **lifting**: the re-oriented graph is a consistent extension of `G` -/
theorem Ctx.lift_ext (h : Ctx G D) {A : List Nat} (hE : ExtOn G A E)
    (hA : ∀ x y, Bk G a0 x → Bk G a0 y → Skel G x y → x ∈ A ∧ y ∈ A) :
    ConsistentExt G (liftDag G D a0 E) := by
  refine h.lift_ext_gen (hE.bor hA) G rfl (fun _ _ => Iff.rfl) (fun _ _ _ => Iff.rfl) ?_
  intro x y e
  by_cases hb : Bk G a0 x ∧ Bk G a0 y
  · obtain ⟨hx, hy⟩ := hA x y hb.1 hb.2 (skel_of_dir e)
    exact Or.inl ⟨hb.1, hb.2, hE.keeps x hx y hy e⟩
  · exact Or.inr ⟨hb, h.sub e⟩

end

end T3
