import Pw.C02.CopyA

/-! # C02: `copy` / `subgraph` – part B: closed form of a run of `add_edge` calls -/
namespace C02

/-- one `add_edge(u, w, t, **a)` -/
abbrev Quad := Nat × Nat × Nat × Attr

namespace AG

/-- does the call `q` put (or update) the pair `x,y` of layer `t'` -/
def hit (S : AG) (q : Quad) (t' x y : Nat) : Bool :=
  q.1 == t' && match S.kind t' with | some k => sameP k x y q.2.1 q.2.2.1 | none => false

theorem AAttr.upd_upd_same (s : AAttr) (a : Attr) : (s.upd a).upd a = s.upd a := by
  funext k; simp only [AAttr.upd]; cases Attr.get a k <;> simp

theorem putEdge_fields (S : AG) (q : Quad) :
    let S' := S.putEdge (.one q.1) q.2.1 q.2.2.1 q.2.2.2
    S'.admg = S.admg ∧ S'.node = S.node ∧ S'.kind = S.kind ∧ S'.nattr = S.nattr ∧ S'.gattr = S.gattr ∧
    (∀ t' x y, S'.edge t' x y = (S.edge t' x y || hit S q t' x y)) ∧
    (∀ t' x y, S'.eattr t' x y = if hit S q t' x y then (S.eattr t' x y).upd q.2.2.2 else S.eattr t' x y) :=
  ⟨rfl, rfl, rfl, rfl, rfl, fun _ _ _ => rfl, fun _ _ _ => rfl⟩

theorem hit_congr {S S' : AG} (h : S'.kind = S.kind) (q : Quad) (t' x y : Nat) : hit S' q t' x y = hit S q t' x y := by
  simp only [hit, h]

theorem foldl_putEdge (tr : List Quad) (S : AG) :
    let S' := tr.foldl (fun S q => S.putEdge (.one q.1) q.2.1 q.2.2.1 q.2.2.2) S
    S'.admg = S.admg ∧ S'.node = S.node ∧ S'.kind = S.kind ∧ S'.nattr = S.nattr ∧ S'.gattr = S.gattr ∧
    (∀ t' x y, S'.edge t' x y = (S.edge t' x y || tr.any fun q => hit S q t' x y)) ∧
    (∀ t' x y, S'.eattr t' x y =
      tr.foldl (fun acc q => if hit S q t' x y then acc.upd q.2.2.2 else acc) (S.eattr t' x y)) := by
  induction tr generalizing S with
  | nil => exact ⟨rfl, rfl, rfl, rfl, rfl, fun _ _ _ => by simp, fun _ _ _ => rfl⟩
  | cons q tr ih =>
    obtain ⟨a1, a2, a3, a4, a5, a6, a7⟩ := putEdge_fields S q
    obtain ⟨b1, b2, b3, b4, b5, b6, b7⟩ := ih (S.putEdge (.one q.1) q.2.1 q.2.2.1 q.2.2.2)
    simp only [List.foldl_cons]
    refine ⟨b1.trans a1, b2.trans a2, b3.trans a3, b4.trans a4, b5.trans a5, fun t' x y => ?_, fun t' x y => ?_⟩
    · rw [b6, a6]
      simp only [List.any_cons, Bool.or_assoc, hit_congr a3]
    · rw [b7, a7]
      simp only [hit_congr a3]

/-- a run of updates that all carry the same dict is one update -/
theorem foldl_upd_same (tr : List Quad) (P : Quad → Bool) (a0 : Attr) (h : ∀ q ∈ tr, P q = true → q.2.2.2 = a0)
    (s : AAttr) :
    tr.foldl (fun acc q => if P q then acc.upd q.2.2.2 else acc) s = if tr.any P then s.upd a0 else s := by
  induction tr generalizing s with
  | nil => rfl
  | cons q tr ih =>
    have ih' := fun s => ih (fun q' hq' => h q' (List.mem_cons_of_mem _ hq')) s
    simp only [List.foldl_cons, List.any_cons]
    by_cases hq : P q = true
    · have := h q (by simp) hq
      simp only [hq, ite_true, Bool.true_or, this, ih']
      split <;> simp [AAttr.upd_upd_same]
    · have hq' : P q = false := by simpa using hq
      simp only [hq', Bool.false_eq_true, ite_false, Bool.false_or, ih']

/-- `add_edge` between existing nodes into an existing layer is exactly `putEdge` -/
theorem step_addEdge_eq (S : AG) (q : Quad) (hu : S.node q.2.1 = true) (hw : S.node q.2.2.1 = true)
    (hk : (S.kind q.1).isSome = true) :
    (S.step (.addEdge q.2.1 q.2.2.1 (.one q.1) q.2.2.2)).1 = S.putEdge (.one q.1) q.2.1 q.2.2.1 q.2.2.2 := by
  simp only [AG.step, ensureS, hu, hw, ite_true, known, hk]

theorem foldl_step_addEdge (tr : List Quad) (S : AG)
    (h : ∀ q ∈ tr, S.node q.2.1 = true ∧ S.node q.2.2.1 = true ∧ (S.kind q.1).isSome = true) :
    tr.foldl (fun S q => (S.step (.addEdge q.2.1 q.2.2.1 (.one q.1) q.2.2.2)).1) S =
      tr.foldl (fun S q => S.putEdge (.one q.1) q.2.1 q.2.2.1 q.2.2.2) S := by
  induction tr generalizing S with
  | nil => rfl
  | cons q tr ih =>
    obtain ⟨hu, hw, hk⟩ := h q (by simp)
    simp only [List.foldl_cons, step_addEdge_eq S q hu hw hk]
    apply ih
    intro q' hq'
    obtain ⟨a1, a2, a3, _⟩ := putEdge_fields S q
    have := h q' (List.mem_cons_of_mem _ hq')
    rw [a2, a3]; exact this

end AG
end C02
