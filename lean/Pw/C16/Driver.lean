import Pw.Core.Proto
import Pw.C16.Model
import Pw.C16.Spec
open Proto

namespace C16

def lexLeList : List Nat → List Nat → Bool
  | [], _ => true
  | _ :: _, [] => false
  | a :: l, b :: m => a < b || (a == b && lexLeList l m)

/-- a list of paths as a sorted multiset `0-1-2;0-2` (duplicates kept: "once each" is compared) -/
def fmtPaths (ps : List (List Nat)) : String :=
  ";".intercalate ((ps.mergeSort lexLeList).map fmtPath)

def cutoffArg (a : Args) : Option Nat := a.nat? "c"

/-- `sdp <graph> s= T= c=<k>|none` → model of `all_semi_directed_paths` -/
def hSdp : Handler := fun a =>
  match allSemiDirectedPaths a.graph (a.nat "s") (a.nats "T") (cutoffArg a) with
  | none => "err:NodeNotFound"
  | some ps => fmtPaths ps

/-- same request → the brute-force oracle `wantedDec` -/
def hSdpSpec : Handler := fun a =>
  fmtPaths (wantedDec a.graph (a.nat "s") (a.nats "T") (cutoffArg a))

/-- `issdp <graph> P=0,1,2` → model of `is_semi_directed_path` / the spec predicate -/
def hIs : Handler := fun a => fmtBool (isSemiDirectedPath a.graph (a.nats "P"))
def hIsSpec : Handler := fun a => fmtBool (decide (SemiDirected a.graph (a.nats "P")))

def hDesc : Handler := fun a => fmtSet (possibleDescendants a.graph (a.nat "s"))
def hAnc : Handler := fun a => fmtSet (possibleAncestors a.graph (a.nat "s"))
def hDescSpec : Handler := fun a => fmtSet (possDescDec a.graph (a.nat "s"))
def hAncSpec : Handler := fun a => fmtSet (possAncDec a.graph (a.nat "s"))

def handlers : List (String × Handler) :=
  [("sdp", hSdp), ("sdpspec", hSdpSpec), ("issdp", hIs), ("issdpspec", hIsSpec),
   ("pdesc", hDesc), ("panc", hAnc), ("pdescspec", hDescSpec), ("pancspec", hAncSpec)]
end C16
