import Pw.C19.Oracle
import Pw.T8.Main
import Pw.C01.Symm
open Closure MG

/-! # C19, sigma clause, unconditional

T8 (Forré–Mooij) is proved in `Pw/T8` (`C19.sigmaSep_iff_mSep`).  It discharges the hypothesis
`ForreMooij` of the conditional theorems of `Pw/C19/Full.lean`. -/
namespace C19

/-- T8 in the form in which `Full.lean` assumed it -/
theorem forreMooij : ForreMooij := by
  intro G A hd hu hA X Y Z _ _ hZ hXYZ hYZ
  exact (sigmaSep_iff_mSep hd hu hA X Y Z hZ (fun x hx => (hXYZ x hx).2) hYZ).symm

/-- **C19, second sentence.** On every input of the property and for every order in which the
    components are visited, the model of `sigma_separated` returns (never raises, the acyclicity
    guard of `m_separated` cannot fire) and answers `True` iff every path between X and Y is
    sigma-blocked by Z. -/
theorem C19_sigma_full_holds : C19_sigma_full := C19_sigma_full_of_T8 forreMooij

/-- the model of `sigma_separated` equals the brute-force path decider used as run-time oracle -/
theorem sigmaSeparated_eq_dec {G : MG} {order : List Nat} (hd : Dom G) (hu : G.un = [])
    (ho : IsOrder G order) (X Y Z : List Nat) (hX : ∀ x ∈ X, x ∈ G.nodes)
    (hY : ∀ y ∈ Y, y ∈ G.nodes) (hZ : ∀ z ∈ Z, z ∈ G.nodes) (hXYZ : ∀ x ∈ X, x ∉ Y ∧ x ∉ Z)
    (hYZ : ∀ y ∈ Y, y ∉ Z) :
    sigmaSeparated G order X Y Z = sigmaSepDec G X Y Z :=
  sigmaSeparated_eq_dec_of_T8 forreMooij hd hu ho X Y Z hX hY hZ hXYZ hYZ

/-- the answer of `sigma_separated` does not depend on the order of the components -/
theorem sigmaSeparated_order_indep {G : MG} {o1 o2 : List Nat} (hd : Dom G) (hu : G.un = [])
    (h1 : IsOrder G o1) (h2 : IsOrder G o2) (X Y Z : List Nat) (hX : ∀ x ∈ X, x ∈ G.nodes)
    (hY : ∀ y ∈ Y, y ∈ G.nodes) (hZ : ∀ z ∈ Z, z ∈ G.nodes) (hXYZ : ∀ x ∈ X, x ∉ Y ∧ x ∉ Z)
    (hYZ : ∀ y ∈ Y, y ∉ Z) :
    sigmaSeparated G o1 X Y Z = sigmaSeparated G o2 X Y Z := by
  rw [sigmaSeparated_eq_dec hd hu h1 X Y Z hX hY hZ hXYZ hYZ,
    sigmaSeparated_eq_dec hd hu h2 X Y Z hX hY hZ hXYZ hYZ]

/-- swapping X and Y never changes the answer of the model of `sigma_separated` -/
theorem sigmaSeparated_symm {G : MG} {order : List Nat} (hd : Dom G) (hu : G.un = [])
    (ho : IsOrder G order) (X Y Z : List Nat) (hX : ∀ x ∈ X, x ∈ G.nodes) (hY : ∀ y ∈ Y, y ∈ G.nodes)
    (hZ : ∀ z ∈ Z, z ∈ G.nodes) (hXZ : ∀ x ∈ X, x ∉ Z) (hYZ : ∀ y ∈ Y, y ∉ Z) :
    sigmaSeparated G order X Y Z = sigmaSeparated G order Y X Z := by
  have hA := acy_isAcyclification hd ho
  unfold sigmaSeparated
  apply mSeparated_symm _ (hA.wf hd.wf hu) (noUndirAtHead_of_un_nil _ (by rw [acy_un, hu]))
    (hA.noSelfLoop hu) X Y Z
  · intro x hx; rw [acy_nodes]; exact hX x hx
  · intro y hy; rw [acy_nodes]; exact hY y hy
  · intro z hz; rw [acy_nodes]; exact hZ z hz
  · exact hXZ
  · exact hYZ

/-- sigma-separation itself is symmetric (path reversal), so the clause is consistent -/
theorem SigmaSep.symm_of_dom {G : MG} {order : List Nat} (hd : Dom G) (hu : G.un = [])
    (ho : IsOrder G order) {X Y Z : List Nat} (hZ : ∀ z ∈ Z, z ∈ G.nodes) (hXZ : ∀ x ∈ X, x ∉ Z)
    (hYZ : ∀ y ∈ Y, y ∉ Z) (h : SigmaSep G X Y Z) : SigmaSep G Y X Z := by
  have hA := acy_isAcyclification hd ho
  rw [sigmaSep_iff_mSep hd hu hA Y X Z hZ hYZ hXZ]
  exact MSep.symm ((sigmaSep_iff_mSep hd hu hA X Y Z hZ hXZ hYZ).mp h)

/-- non-vacuity: the sigma clause on the two adjacent 2-cycles `0 ⇄ 3 → 1 ⇄ 2`, query (0, 2 | 3) -/
example : SigmaSpec (fun G X Y Z => sigmaSeparated G [2, 3, 0, 1] X Y Z) W1 [0] [2] [3] :=
  sigmaSeparated_spec W1_dom rfl W1_order [0] [2] [3] (by decide) (by decide) (by decide) (by decide)

example : sigmaSeparatedE W1 [2, 3, 0, 1] [0] [2] [3] = .ok true ↔ SigmaSep W1 [0] [2] [3] :=
  (C19_sigma_full_holds W1 [2, 3, 0, 1] W1_dom rfl W1_order [0] [2] [3] (by decide) (by decide)
    (by decide) (by decide) (by decide)).1

end C19
