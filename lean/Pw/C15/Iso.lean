import Pw.C01.Symm
open Closure

/-! # C15 for m-separation: independence of node names and of insertion order

`Iso σ τ G G'`: `σ` renames the nodes of `G` into those of `G'` (`τ` is a left inverse of `σ`).
With `σ = id` and `G'` any re-ordering / re-orientation of the same edge *sets* this is independence of
insertion order; with `G' = G.map σ` for an injective `σ` it is independence of node names. -/
namespace MG

structure Iso (σ τ : Nat → Nat) (G G' : MG) : Prop where
  left : ∀ v, τ (σ v) = v
  nodes : ∀ v, v ∈ G.nodes ↔ σ v ∈ G'.nodes
  edge : ∀ a b ma mb, HasEdge G a b ma mb ↔ HasEdge G' (σ a) (σ b) ma mb
  img : ∀ a b ma mb, HasEdge G' a b ma mb → σ (τ a) = a ∧ σ (τ b) = b

namespace Iso
variable {σ τ : Nat → Nat} {G G' : MG}

theorem inj (h : Iso σ τ G G') {a b : Nat} (hab : σ a = σ b) : a = b := by
  have := congrArg τ hab
  rwa [h.left, h.left] at this

theorem hasEdge_dir {G : MG} {a b : Nat} : (a, b) ∈ G.dir ↔ HasEdge G a b .tail .head := by
  constructor
  · intro h; exact Or.inl ⟨rfl, rfl, h⟩
  · exact HasEdge.dir_of_tail_head

theorem anc_fwd (h : Iso σ τ G G') {a c : Nat} (ha : Anc G a c) : Anc G' (σ a) (σ c) := by
  induction ha with
  | refl => exact Anc.refl _
  | step e _ ih => exact Anc.step (hasEdge_dir.mpr ((h.edge _ _ _ _).mp (hasEdge_dir.mp e))) ih

theorem anc_bwd (h : Iso σ τ G G') {a' c' : Nat} (ha : Anc G' a' c') :
    σ (τ a') = a' → Anc G (τ a') (τ c') ∧ σ (τ c') = c' := by
  induction ha with
  | refl => intro h1; exact ⟨Anc.refl _, h1⟩
  | @step x y z e _ ih =>
    intro h1
    have he := hasEdge_dir.mp e
    obtain ⟨_, h2⟩ := h.img _ _ _ _ he
    obtain ⟨h3, h4⟩ := ih h2
    have : HasEdge G (τ x) (τ y) .tail .head := by
      rw [h.edge, h1, h2]; exact he
    exact ⟨Anc.step (hasEdge_dir.mpr this) h3, h4⟩

theorem anc_iff (h : Iso σ τ G G') {a c : Nat} : Anc G a c ↔ Anc G' (σ a) (σ c) := by
  constructor
  · exact h.anc_fwd
  · intro ha
    have := h.anc_bwd ha (by rw [h.left])
    rw [h.left, h.left] at this
    exact this.1

theorem mem_map_iff (h : Iso σ τ G G') {Z : List Nat} {v : Nat} : σ v ∈ Z.map σ ↔ v ∈ Z := by
  rw [List.mem_map]
  constructor
  · rintro ⟨z, hz, hzv⟩; rw [← h.inj hzv]; exact hz
  · intro hv; exact ⟨v, hv, rfl⟩

theorem colliderOpen_iff (h : Iso σ τ G G') {Z : List Nat} {v : Nat} :
    ColliderOpen G Z v ↔ ColliderOpen G' (Z.map σ) (σ v) := by
  unfold ColliderOpen
  constructor
  · rintro ⟨z, hz, ha⟩; exact ⟨σ z, List.mem_map.mpr ⟨z, hz, rfl⟩, h.anc_fwd ha⟩
  · rintro ⟨z', hz', ha⟩
    obtain ⟨z, hz, rfl⟩ := List.mem_map.mp hz'
    exact ⟨z, hz, h.anc_iff.mpr ha⟩

theorem condS_iff (h : Iso σ τ G G') {Z : List Nat} {mi mo : Mark} {v : Nat} :
    condS G Z mi mo v ↔ condS G' (Z.map σ) mi mo (σ v) := by
  unfold condS
  split
  · exact h.colliderOpen_iff
  · rw [h.mem_map_iff]

/-- renaming of a hop list -/
def mapHops (f : Nat → Nat) (hs : List Hop) : List Hop := hs.map fun h => ⟨h.mp, h.mn, f h.nx⟩

theorem validW_fwd (h : Iso σ τ G G') : ∀ (hs : List Hop) (a : Nat),
    ValidW G a hs → ValidW G' (σ a) (mapHops σ hs)
  | [], _, _ => trivial
  | x :: t, a, hv => ⟨(h.edge _ _ _ _).mp hv.1, validW_fwd h t x.nx hv.2⟩

theorem validW_bwd (h : Iso σ τ G G') : ∀ (hs : List Hop) (a : Nat), σ (τ a) = a →
    ValidW G' a hs → ValidW G (τ a) (mapHops τ hs) ∧ mapHops σ (mapHops τ hs) = hs
  | [], _, _, _ => ⟨trivial, rfl⟩
  | x :: t, a, ha, hv => by
    obtain ⟨_, h2⟩ := h.img _ _ _ _ hv.1
    obtain ⟨ih1, ih2⟩ := validW_bwd h t x.nx h2 hv.2
    refine ⟨⟨?_, ih1⟩, ?_⟩
    · show HasEdge G (τ a) (τ x.nx) x.mp x.mn
      rw [h.edge, ha, h2]; exact hv.1
    · simp only [mapHops, List.map_cons, List.map_map] at ih2 ⊢
      rw [ih2]
      simp [h2]

theorem endNode_map (f : Nat → Nat) : ∀ (hs : List Hop) (a : Nat),
    endNode (f a) (mapHops f hs) = f (endNode a hs)
  | [], _ => rfl
  | x :: t, _ => by simp only [mapHops, List.map_cons, endNode]; exact endNode_map f t x.nx

theorem nodesOf_map (f : Nat → Nat) (hs : List Hop) (a : Nat) :
    nodesOf (f a) (mapHops f hs) = (nodesOf a hs).map f := by
  simp [nodesOf, mapHops, List.map_map, Function.comp_def]

theorem openS_iff (h : Iso σ τ G G') {Z : List Nat} : ∀ (hs : List Hop) (e : Option Mark) (a : Nat),
    OpenS G Z e a hs ↔ OpenS G' (Z.map σ) e (σ a) (mapHops σ hs)
  | [], e, a => by cases e <;> simp [OpenS, mapHops]
  | x :: t, none, a => by
    simp only [mapHops, List.map_cons, OpenS]
    exact openS_iff h t _ _
  | x :: t, some m, a => by
    simp only [mapHops, List.map_cons, OpenS]
    rw [h.condS_iff (Z := Z), openS_iff h t _ _]
    rfl

theorem nodup_map_inj (h : Iso σ τ G G') {l : List Nat} : (l.map σ).Nodup ↔ l.Nodup := by
  induction l with
  | nil => simp
  | cons a t ih =>
    simp only [List.map_cons, List.nodup_cons, ih, List.mem_map]
    constructor
    · rintro ⟨h1, h2⟩; exact ⟨fun ha => h1 ⟨a, ha, rfl⟩, h2⟩
    · rintro ⟨h1, h2⟩
      refine ⟨?_, h2⟩
      rintro ⟨b, hb, hba⟩
      rw [h.inj hba] at hb; exact h1 hb

/-- m-connecting paths correspond under renaming -/
theorem mConnPath_iff (h : Iso σ τ G G') {Z : List Nat} {x y : Nat} :
    MConnPath G Z x y ↔ MConnPath G' (Z.map σ) (σ x) (σ y) := by
  constructor
  · rintro ⟨hs, hv, hend, hn, ho⟩
    refine ⟨mapHops σ hs, h.validW_fwd hs x hv, ?_, ?_, (h.openS_iff hs none x).mp ho⟩
    · rw [endNode_map, hend]
    · rw [nodesOf_map]; exact h.nodup_map_inj.mpr hn
  · rintro ⟨hs', hv, hend, hn, ho⟩
    obtain ⟨hv2, hround⟩ := h.validW_bwd hs' (σ x) (by rw [h.left]) hv
    rw [h.left] at hv2
    refine ⟨mapHops τ hs', hv2, ?_, ?_, ?_⟩
    · apply h.inj
      rw [← endNode_map σ, hround, hend]
    · rw [← h.nodup_map_inj, ← nodesOf_map σ, hround]; exact hn
    · rw [h.openS_iff, hround]; exact ho

/-- **C15 / C01 (spec level).** m-separation is invariant under renaming of nodes and does not
    depend on the order in which nodes and edges are stored. -/
theorem mSep_iff (h : Iso σ τ G G') {X Y Z : List Nat} :
    MSep G X Y Z ↔ MSep G' (X.map σ) (Y.map σ) (Z.map σ) := by
  unfold MSep
  constructor
  · intro hs x' hx' y' hy' hp
    obtain ⟨x, hx, rfl⟩ := List.mem_map.mp hx'
    obtain ⟨y, hy, rfl⟩ := List.mem_map.mp hy'
    exact hs x hx y hy (h.mConnPath_iff.mpr hp)
  · intro hs x hx y hy hp
    exact hs (σ x) (List.mem_map.mpr ⟨x, hx, rfl⟩) (σ y) (List.mem_map.mpr ⟨y, hy, rfl⟩)
      (h.mConnPath_iff.mp hp)

theorem noSelfLoop (h : Iso σ τ G G') (hs : NoSelfLoop G) : NoSelfLoop G' := by
  intro a ma mb he
  obtain ⟨h1, _⟩ := h.img _ _ _ _ he
  apply hs (τ a) ma mb
  rw [h.edge, h1]; exact he

theorem noUndirAtHead (h : Iso σ τ G G') (hb : NoUndirAtHead G) : NoUndirAtHead G' := by
  intro a p mp hp c hc
  obtain ⟨h1, h2⟩ := h.img _ _ _ _ hp
  obtain ⟨_, h3⟩ := h.img _ _ _ _ hc
  apply hb (τ a) (τ p) mp _ (τ c)
  · rw [h.edge, h2, h3]; exact hc
  · rw [h.edge, h1, h2]; exact hp

end Iso

/-- **C15 / C01 (model level).** On the property's domain the model of `m_separated` gives the same
    answer on a renamed / re-ordered copy of the graph and query. -/
theorem mSeparated_iso {σ τ : Nat → Nat} {G G' : MG} (h : Iso σ τ G G')
    (hwf : G.WF) (hwf' : G'.WF) (hb : NoUndirAtHead G) (hsl : NoSelfLoop G)
    (X Y Z : List Nat) (hX : ∀ x ∈ X, x ∈ G.nodes) (hZ : ∀ z ∈ Z, z ∈ G.nodes)
    (hXZ : ∀ x ∈ X, x ∉ Z) :
    mSeparated G' (X.map σ) (Y.map σ) (Z.map σ) = mSeparated G X Y Z := by
  have h1 := mSeparated_iff_MSep G hwf hb hsl X Y Z hX hZ hXZ
  have h2 := mSeparated_iff_MSep G' hwf' (h.noUndirAtHead hb) (h.noSelfLoop hsl)
    (X.map σ) (Y.map σ) (Z.map σ)
    (by intro x' hx'; obtain ⟨x, hx, rfl⟩ := List.mem_map.mp hx'; exact (h.nodes x).mp (hX x hx))
    (by intro z' hz'; obtain ⟨z, hz, rfl⟩ := List.mem_map.mp hz'; exact (h.nodes z).mp (hZ z hz))
    (by
      intro x' hx' hz'
      obtain ⟨x, hx, rfl⟩ := List.mem_map.mp hx'
      exact hXZ x hx (h.mem_map_iff.mp hz'))
  have h3 := h.mSep_iff (X := X) (Y := Y) (Z := Z)
  cases ha : mSeparated G X Y Z <;> cases hb' : mSeparated G' (X.map σ) (Y.map σ) (Z.map σ) <;> simp_all

end MG

namespace MG

/-- the graph with every node renamed by `σ` -/
def mapG (σ : Nat → Nat) (G : MG) : MG :=
  { nodes := G.nodes.map σ, dir := G.dir.map (Prod.map σ σ), bi := G.bi.map (Prod.map σ σ),
    un := G.un.map (Prod.map σ σ), circ := G.circ.map (Prod.map σ σ) }

theorem mem_map_pair {σ τ : Nat → Nat} (hl : ∀ v, τ (σ v) = v) {l : List (Nat × Nat)} {a b : Nat} :
    (σ a, σ b) ∈ l.map (Prod.map σ σ) ↔ (a, b) ∈ l := by
  rw [List.mem_map]
  constructor
  · rintro ⟨⟨c, d⟩, hcd, heq⟩
    simp only [Prod.map, Prod.mk.injEq] at heq
    have h1 := congrArg τ heq.1
    have h2 := congrArg τ heq.2
    rw [hl, hl] at h1 h2
    rw [← h1, ← h2]; exact hcd
  · intro h; exact ⟨(a, b), h, rfl⟩

theorem mem_map_pair_img {σ τ : Nat → Nat} (hl : ∀ v, τ (σ v) = v) {l : List (Nat × Nat)} {a b : Nat}
    (h : (a, b) ∈ l.map (Prod.map σ σ)) : σ (τ a) = a ∧ σ (τ b) = b := by
  obtain ⟨⟨c, d⟩, _, heq⟩ := List.mem_map.mp h
  simp only [Prod.map, Prod.mk.injEq] at heq
  rw [← heq.1, ← heq.2, hl, hl]; exact ⟨rfl, rfl⟩

/-- renaming by any `σ` with a left inverse (i.e. any injective renaming) is an `Iso` -/
theorem iso_mapG {σ τ : Nat → Nat} (hl : ∀ v, τ (σ v) = v) (G : MG) : Iso σ τ G (mapG σ G) where
  left := hl
  nodes := by
    intro v
    simp only [mapG, List.mem_map]
    constructor
    · intro h; exact ⟨v, h, rfl⟩
    · rintro ⟨w, hw, hwv⟩
      have := congrArg τ hwv
      rw [hl, hl] at this; rw [← this]; exact hw
  edge := by
    intro a b ma mb
    simp only [HasEdge, mapG, mem_map_pair hl]
  img := by
    intro a b ma mb he
    simp only [HasEdge, mapG] at he
    rcases he with ⟨_, _, h⟩ | ⟨_, _, h⟩ | ⟨_, _, h | h⟩ | ⟨_, _, h | h⟩
    · exact mem_map_pair_img hl h
    · exact (mem_map_pair_img hl h).symm
    · exact mem_map_pair_img hl h
    · exact (mem_map_pair_img hl h).symm
    · exact mem_map_pair_img hl h
    · exact (mem_map_pair_img hl h).symm

/-- same node set and same edge sets (any storage order, any orientation of unordered pairs) -/
structure SameSets (G G' : MG) : Prop where
  nodes : ∀ v, v ∈ G.nodes ↔ v ∈ G'.nodes
  dir : ∀ e, e ∈ G.dir ↔ e ∈ G'.dir
  bi : ∀ a b, ((a, b) ∈ G.bi ∨ (b, a) ∈ G.bi) ↔ ((a, b) ∈ G'.bi ∨ (b, a) ∈ G'.bi)
  un : ∀ a b, ((a, b) ∈ G.un ∨ (b, a) ∈ G.un) ↔ ((a, b) ∈ G'.un ∨ (b, a) ∈ G'.un)

/-- insertion order / stored orientation is irrelevant: identity is an `Iso` -/
theorem iso_of_sameSets {G G' : MG} (h : SameSets G G') : Iso id id G G' where
  left := fun _ => rfl
  nodes := h.nodes
  edge := by
    intro a b ma mb
    simp only [HasEdge, id, h.dir, h.bi, h.un]
  img := fun _ _ _ _ _ => ⟨rfl, rfl⟩

/-- non-vacuity: a 3-node collider renamed by `v ↦ v + 10` -/
example : Iso (· + 10) (· - 10) { nodes := [0, 1, 2], dir := [(0, 2), (1, 2)] }
    (mapG (· + 10) { nodes := [0, 1, 2], dir := [(0, 2), (1, 2)] }) :=
  iso_mapG (by intro v; simp) _

end MG
