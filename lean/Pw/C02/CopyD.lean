import Pw.C02.CopyC

/-! # C02: `copy` – part D: `abs (copy g) = abs g` -/
namespace C02

theorem pairwise_unique {α} {l : List α} {R : α → α → Prop} (hp : l.Pairwise fun a b => ¬R a b)
    (hsymm : ∀ a b, R a b → R b a) {a b : α} (ha : a ∈ l) (hb : b ∈ l) (hab : R a b) : a = b := by
  induction l with
  | nil => simp at ha
  | cons x xs ih =>
    rw [List.pairwise_cons] at hp
    rcases List.mem_cons.1 ha with rfl | ha' <;> rcases List.mem_cons.1 hb with rfl | hb'
    · rfl
    · exact absurd hab (hp.1 b hb')
    · exact absurd (hsymm _ _ hab) (hp.1 a ha')
    · exact ih hp.2 ha' hb'

namespace Layer

theorem WF.unique {L : Layer} (hw : L.WF) {e e' : (Nat × Nat) × Attr} (he : e ∈ L.edges) (he' : e' ∈ L.edges)
    (hs : same L.kind e.1 e'.1 = true) : e = e' := by
  apply pairwise_unique (R := fun a b => same L.kind a.1 b.1 = true) _ _ he he' hs
  · exact hw.keys.imp fun h => by simp [h]
  · intro a b h; rw [same_symm]; exact h

theorem mem_adj {L : Layer} {u w : Nat} {a : Attr} :
    (w, a) ∈ L.adj u ↔ ∃ e ∈ L.edges, e.2 = a ∧
      ((e.1.1 = u ∧ e.1.2 = w) ∨ (e.1.1 ≠ u ∧ L.kind = .und ∧ e.1.2 = u ∧ e.1.1 = w)) := by
  simp only [adj, List.mem_filterMap]
  constructor
  · rintro ⟨e, he, h⟩
    refine ⟨e, he, ?_⟩
    split at h
    · rename_i h1; simp at h1 h; exact ⟨h.2, Or.inl ⟨h1, h.1⟩⟩
    · rename_i h1
      split at h
      · rename_i h2; simp at h1 h2 h; exact ⟨h.2, Or.inr ⟨h1, h2.1, h2.2, h.1⟩⟩
      · simp at h
  · rintro ⟨e, he, rfl, h⟩
    refine ⟨e, he, ?_⟩
    rcases h with ⟨h1, h2⟩ | ⟨h1, hk, h2, h3⟩
    · simp [h1, h2]
    · obtain ⟨⟨a, b⟩, at'⟩ := e
      simp only at h1 h2 h3
      subst h2 h3
      have : (a == b) = false := by simpa using h1
      simp [this, hk]

theorem adj_same {L : Layer} {u w : Nat} {a : Attr} (h : (w, a) ∈ L.adj u) :
    ∃ e ∈ L.edges, e.2 = a ∧ same L.kind e.1 (u, w) = true := by
  obtain ⟨e, he, ha, h⟩ := mem_adj.1 h
  refine ⟨e, he, ha, ?_⟩
  rcases h with ⟨h1, h2⟩ | ⟨_, hk, h2, h3⟩
  · simp [same, h1, h2]
  · simp [same, hk, h2, h3]

theorem find_eq_some {L : Layer} (hw : L.WF) {e : (Nat × Nat) × Attr} (he : e ∈ L.edges) {x y : Nat}
    (hs : same L.kind e.1 (x, y) = true) : L.find x y = some e.2 := by
  unfold find
  cases hf : L.edges.find? (fun e => same L.kind e.1 (x, y)) with
  | none => simp only [List.find?_eq_none] at hf; exact absurd hs (hf e he)
  | some e0 =>
    have h0 : same L.kind e0.1 (x, y) = true := by simpa using List.find?_some hf
    have : e0 = e := hw.unique (List.mem_of_find?_eq_some hf) he (same_trans h0 (by rw [same_symm]; exact hs))
    simp [this]

end Layer

namespace MEG

def copyQuads (g : MEG) : List Quad :=
  g.layers.flatMap fun p => p.2.nodes.flatMap fun u => (p.2.adj u).map fun va => (p.1, u, va.1, va.2)

theorem mem_copyQuads {g : MEG} {q : Quad} :
    q ∈ copyQuads g ↔ ∃ p ∈ g.layers, q.1 = p.1 ∧ q.2.1 ∈ p.2.nodes ∧ (q.2.2.1, q.2.2.2) ∈ p.2.adj q.2.1 := by
  obtain ⟨t, u, w, a⟩ := q
  simp only [copyQuads, List.mem_flatMap, List.mem_map, Prod.mk.injEq]
  constructor
  · rintro ⟨p, hp, u', hu', va, hva, rfl, rfl, rfl, rfl⟩
    exact ⟨p, hp, rfl, hu', hva⟩
  · rintro ⟨p, hp, rfl, hu, hva⟩
    exact ⟨p, hp, u, hu, (w, a), hva, rfl, rfl, rfl, rfl⟩

theorem copy_eq (g : MEG) :
    g.copy = (copyQuads g).foldl (fun G q => (G.step (.addEdge q.2.1 q.2.2.1 (.one q.1) q.2.2.2)).1)
      (g.nodes.foldl (fun G p => (G.step (GOp.addNode p.1 p.2)).1)
        { g.skeleton with gattr := Attr.upd [] g.gattr }) := by
  unfold copy copyQuads
  simp only [foldl_flatMap', List.foldl_map]
  rfl

/-- the hits of the copy's `add_edge` calls on the pair `x,y` of layer `t` -/
theorem copy_hits {g : MEG} (hi : g.Inv) {S : AG} (hk : S.kind = g.abs.kind) {t : Nat} {L : Layer}
    (hL : g.layer? t = some L) (x y : Nat) :
    ((copyQuads g).any fun q => S.hit q t x y) = L.has x y ∧
    ∀ q ∈ copyQuads g, S.hit q t x y = true → ∃ e ∈ L.edges, e.2 = q.2.2.2 ∧ same L.kind e.1 (x, y) = true := by
  have hSk : S.kind t = some L.kind := by rw [hk]; simp [abs, hL]
  have hw := hi.wf _ (layer_mem hL)
  have hhit : ∀ q ∈ copyQuads g, S.hit q t x y = true →
      ∃ e ∈ L.edges, e.2 = q.2.2.2 ∧ same L.kind e.1 (x, y) = true := by
    intro q hq hh
    obtain ⟨p, hp, h1, _, hadj⟩ := mem_copyQuads.1 hq
    simp only [AG.hit, hSk, Bool.and_eq_true, beq_iff_eq] at hh
    have hpt : p = (t, L) := by
      have := lookup_of_mem hi.names hp
      rw [← h1, hh.1] at this
      have h2 : List.lookup t g.layers = some L := hL
      rw [h2] at this
      cases p; simp at this hh h1 ⊢; exact ⟨by rw [← h1, hh.1], this.symm⟩
    subst hpt
    obtain ⟨e, he, ha, hs⟩ := Layer.adj_same hadj
    refine ⟨e, he, ha, ?_⟩
    have h3 : same L.kind (x, y) (q.2.1, q.2.2.1) = true := by rw [same_eq_sameP]; exact hh.2
    exact same_trans hs (by rw [same_symm]; exact h3)
  refine ⟨?_, hhit⟩
  rw [Bool.eq_iff_iff, List.any_eq_true]
  constructor
  · rintro ⟨q, hq, hh⟩
    obtain ⟨e, he, _, hs⟩ := hhit q hq hh
    exact Layer.has_iff.2 ⟨e, he, hs⟩
  · intro hh
    obtain ⟨e, he, hs⟩ := Layer.has_iff.1 hh
    refine ⟨(t, e.1.1, e.1.2, e.2), mem_copyQuads.2 ⟨(t, L), layer_mem hL, rfl, (hw.ends e he).1, ?_⟩, ?_⟩
    · exact Layer.mem_adj.2 ⟨e, he, rfl, Or.inl ⟨rfl, rfl⟩⟩
    · simp only [AG.hit, hSk, beq_self_eq_true, Bool.true_and]
      rw [← same_eq_sameP, same_symm]; exact hs

end MEG
end C02
