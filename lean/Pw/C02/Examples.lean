import Pw.C02.Final
import Pw.C02.ObsFull
import Pw.C02.Capstone

/-! # C02: non-vacuity examples (concrete histories satisfying the hypotheses of the main theorems)
and kernel-checked sample evaluations (labelled tests, not part of the unbounded claims) -/
namespace C02

/-- a history with a late layer, a bow, remove-then-re-add, a copy mutated on both sides and a subgraph -/
def sampleOps : List Op :=
  [.new true, .on 0 (.addEdge 0 1 (.one 0) [(0, 3)]), .on 0 (.addEdgeType 3 .dir [2] [(2, 0)]),
   .on 0 (.addEdge 1 0 (.one 1) []), .copy 0, .on 1 (.removeNode 0), .on 0 (.removeEdge 0 1 .all),
   .on 0 (.addEdge 0 1 .all [(1, 5)]), .subgraph 0 [0, 1], .on 0 (.addEdge 2 3 (.one 4) [])]

/-- hypothesis of `Store.run_refines` is satisfiable by a non-trivial history -/
example : ∀ op ∈ sampleOps, op.WellKinded := by
  intro op h
  simp only [sampleOps, List.mem_cons, List.not_mem_nil, or_false] at h
  rcases h with rfl | rfl | rfl | rfl | rfl | rfl | rfl | rfl | rfl | rfl <;>
    simp [Op.WellKinded, GOp.WellKinded]

/-- hypotheses of `Store.obs_run` are satisfiable (universe 4 nodes, 5 edge-type names) -/
example : ∀ op ∈ sampleOps, op.Below 4 5 := by
  intro op h
  simp only [sampleOps, List.mem_cons, List.not_mem_nil, or_false] at h
  rcases h with rfl | rfl | rfl | rfl | rfl | rfl | rfl | rfl | rfl | rfl <;>
    simp [Op.Below, GOp.Below]

/-- hypotheses of `MEG.obs_eq` are satisfiable: the first object after the sample history -/
example : ∃ g ∈ Store.exec [] sampleOps, g.Inv ∧ g.NodesBelow 4 ∧ g.NamesBelow 5 ∧ g.numEdgesAll = 5 := by
  refine ⟨(Store.exec [] sampleOps)[0]'(by decide), List.getElem_mem _, Store.inv_exec sampleOps _ (List.getElem_mem _),
    ?_, ?_, ?_⟩
  · intro v hv; revert v; decide
  · intro t ht; revert t; decide
  · decide

/-- TEST (one evaluation, kernel-checked): on the sample history the last call is rejected (unknown edge
    type) but has already added its endpoints, and the original is unaffected by the mutation of its copy -/
example : ((Store.run [] sampleOps).map (·.2)) = [true, true, true, true, true, true, true, true, true, false] := by
  decide
example : ((Store.exec [] sampleOps)[0]?.map (·.nodeIds)) = some [0, 1, 2, 3] := by decide
example : ((Store.exec [] sampleOps)[1]?.map (·.nodeIds)) = some [1, 2] := by decide
example : ((Store.exec [] sampleOps)[2]?.map fun g => (g.nodeIds, g.hasEdgeAny 0 1, g.hasEdgeAny 1 0, g.numEdgesAll)) =
    some ([0, 1], true, true, 4) := by decide

end C02
