import Pw.C17.Model
import Pw.C17.Spec
import Pw.C16.Possible
open Closure C16

/-! # C17 theorems

* `mem_pdsW_iff_walk` – the intended edge-state search computes exactly the WALK characterisation;
* `pdsDef_subset_pdsW` – it contains the property's PATH definition (the direction FCI needs);
* `mem_pdsDec` – the brute-force oracle of the harness is the PATH definition;
* `pds_subset_pdsDef`, `mem_pds_imp` – the code as it is (literal model) never returns a node outside
  the definition and only finds nodes within two edges of `x`;
* intersections: `mem_pdsPath`, `mem_bicomp`, `mem_pdsT`, `mem_pdsTPath`. -/
namespace C17

/-- no self loops -/
def NoLoop (G : MG) : Prop := ∀ v, ¬ Adj G v v

/-! ## connectivity (`nx.has_path`) -/

theorem Conn.refl (G : MG) (a : Nat) : Conn G a a := ⟨[], trivial, rfl⟩

theorem Conn.snoc {G : MG} {a b c : Nat} (h : Conn G a b) (hbc : Adj G b c) : Conn G a c := by
  obtain ⟨l, hc, hl⟩ := h
  exact ⟨l ++ [c], chainP_snoc hc (hl ▸ hbc), by rw [lastOf_append]; rfl⟩

theorem Conn.trans {G : MG} {a b c : Nat} (h1 : Conn G a b) (h2 : Conn G b c) : Conn G a c := by
  obtain ⟨l, hc, hl⟩ := h2
  induction l generalizing b with
  | nil => simp only [lastOf_nil] at hl; subst hl; exact h1
  | cons d l ih => exact ih (h1.snoc hc.1) hc.2 (by simpa using hl)

theorem Conn.symm {G : MG} {a b : Nat} (h : Conn G a b) : Conn G b a := by
  obtain ⟨l, hc, hl⟩ := h
  induction l generalizing a with
  | nil => simp only [lastOf_nil] at hl; subst hl; exact Conn.refl G _
  | cons d l ih => exact (ih hc.2 (by simpa using hl)).snoc hc.1.symm

theorem Conn.of_adj {G : MG} {a b : Nat} (h : Adj G a b) : Conn G a b := (Conn.refl G a).snoc h

theorem step_nbrs {G : MG} (hw : WF G) {u v : Nat} : Step G.nodes (nbrs G) u v ↔ Adj G u v := by
  unfold Step
  rw [mem_nbrs]
  exact ⟨fun h => h.1.2, fun h => ⟨⟨(h.mem_nodes hw).2, h⟩, (h.mem_nodes hw).2⟩⟩

theorem hasPath_iff {G : MG} (hw : WF G) {a b : Nat} : hasPath G a b = true ↔ a ∈ G.nodes ∧ Conn G a b := by
  unfold hasPath Conn
  rw [decide_eq_true_eq, mem_closure]
  simp only [List.mem_singleton, exists_eq_left, reach_iff_chain]
  constructor
  · rintro ⟨ha, l, hc, hl⟩
    exact ⟨ha, l, hc.imp fun _ _ h => (step_nbrs hw).mp h, hl⟩
  · rintro ⟨ha, l, hc, hl⟩
    exact ⟨ha, l, hc.imp fun _ _ h => (step_nbrs hw).mpr h, hl⟩

/-- the connectivity side condition of `pds(G, x, y)` -/
def YConn (G : MG) (x : Nat) (y : Option Nat) : Prop := ∀ y', y = some y' → Conn G x y'

theorem reachesY_iff {G : MG} (hw : WF G) {y : Option Nat} {v : Nat} (hv : v ∈ G.nodes) :
    reachesY G y v = true ↔ YConn G v y := by
  unfold reachesY YConn
  cases y with
  | none => simp
  | some y' => simp [hasPath_iff hw, hv]

/-! ## the edge-state search as an inductive relation -/

/-- states `(prev, this)` the intended search visits -/
inductive WalkSt (G : MG) (x : Nat) (y : Option Nat) : St → Prop
  | init {v : Nat} : Adj G x v → some v ≠ y → WalkSt G x y (x, v)
  | step {p t n : Nat} : WalkSt G x y (p, t) → Adj G t n → n ≠ p → n ≠ x → some n ≠ y →
      TripleOK G p t n → WalkSt G x y (t, n)

theorem WalkSt.facts {G : MG} {x : Nat} {y : Option Nat} {st : St} (h : WalkSt G x y st) :
    Adj G st.1 st.2 ∧ Conn G x st.2 ∧ some st.2 ≠ y := by
  induction h with
  | init ha hy => exact ⟨ha, Conn.of_adj ha, hy⟩
  | step _ ha _ _ hy _ ih => exact ⟨ha, ih.2.1.snoc ha, hy⟩

theorem mem_states {G : MG} {a b : Nat} : (a, b) ∈ states G ↔ a ∈ G.nodes ∧ b ∈ G.nodes := by
  simp [states]

theorem mem_initEdges {G : MG} (hw : WF G) {x : Nat} {y : Option Nat} (hyc : YConn G x y) {st : St} :
    st ∈ initEdges G x y ↔ st.1 = x ∧ Adj G x st.2 ∧ some st.2 ≠ y := by
  unfold initEdges
  simp only [List.mem_map, List.mem_filter, mem_nbrs, Bool.and_eq_true, Bool.not_eq_eq_eq_not, Bool.not_true,
    beq_eq_false_iff_ne, ne_eq]
  constructor
  · rintro ⟨v, ⟨⟨_, ha⟩, hy, _⟩, rfl⟩
    exact ⟨rfl, ha, hy⟩
  · rintro ⟨h1, ha, hy⟩
    obtain ⟨p, t⟩ := st
    simp only at h1 ha hy
    subst h1
    have hn := ha.mem_nodes hw
    refine ⟨t, ⟨⟨hn.2, ha⟩, hy, ?_⟩, rfl⟩
    rw [reachesY_iff hw hn.2]
    intro y' e
    exact (Conn.of_adj ha).symm.trans (hyc y' e)

theorem mem_expand_true {G : MG} (hw : WF G) {x : Nat} {y : Option Nat} {p t : Nat} (ht : t ∈ G.nodes)
    (hty : YConn G t y) {st : St} :
    st ∈ expand true G x y (p, t) ↔
      st.1 = t ∧ Adj G t st.2 ∧ st.2 ≠ p ∧ st.2 ≠ x ∧ some st.2 ≠ y ∧ TripleOK G p t st.2 := by
  unfold expand
  have hr : reachesY G y t = true := (reachesY_iff hw ht).mpr hty
  simp only [hr, Bool.not_true, Bool.false_eq_true, if_false, if_true, List.mem_map, List.mem_filter, mem_nbrs,
    candidate, Bool.and_eq_true, Bool.not_eq_eq_eq_not, Bool.or_eq_false_iff, beq_eq_false_iff_ne, ne_eq,
    Bool.or_eq_true, decide_eq_true_eq, TripleOK]
  constructor
  · rintro ⟨n, ⟨⟨_, ha⟩, ⟨⟨h1, h2⟩, h3⟩, h4⟩, rfl⟩
    refine ⟨rfl, ha, h1, h2, h3, ?_⟩
    rcases h4 with h4 | h4
    · exact Or.inl h4
    · exact Or.inr h4.2
  · rintro ⟨h0, ha, h1, h2, h3, h4⟩
    obtain ⟨a, n⟩ := st
    simp only at h0 ha h1 h2 h3 h4
    subst h0
    refine ⟨n, ⟨⟨(ha.mem_nodes hw).2, ha⟩, ⟨⟨h1, h2⟩, h3⟩, ?_⟩, rfl⟩
    rcases h4 with h4 | h4
    · exact Or.inl h4
    · exact Or.inr ⟨(h4.mem_nodes hw).2, h4⟩

/-- the closure of the intended search = the inductive relation -/
theorem mem_reach_iff_walkSt {G : MG} (hw : WF G) {x : Nat} (hx : x ∈ G.nodes) {y : Option Nat}
    (hyc : YConn G x y) (st : St) :
    st ∈ closure (states G) (expand true G x y) (initEdges G x y) ↔ WalkSt G x y st := by
  rw [mem_closure]
  have conn_of : ∀ {st : St}, WalkSt G x y st → YConn G st.2 y := by
    intro st h y' e
    exact h.facts.2.1.symm.trans (hyc y' e)
  constructor
  · rintro ⟨w, hwi, -, hr⟩
    have hw0 : WalkSt G x y w := by
      obtain ⟨h1, h2, h3⟩ := (mem_initEdges hw hyc).mp hwi
      obtain ⟨a, b⟩ := w
      simp only at h1 h2 h3
      subst h1
      exact WalkSt.init h2 h3
    induction hr with
    | refl => exact hw0
    | @tail b c _ hs ih =>
      have ht : b.2 ∈ G.nodes := (ih.facts.1.mem_nodes hw).2
      obtain ⟨h0, ha, h1, h2, h3, h4⟩ := (mem_expand_true hw (p := b.1) (t := b.2) ht (conn_of ih)).mp hs.1
      have hc : c = (b.2, c.2) := by rw [← h0]
      rw [hc]
      exact WalkSt.step (p := b.1) (t := b.2) ih ha h1 h2 h3 h4
  · intro h
    induction h with
    | @init v ha hy =>
      refine ⟨(x, v), (mem_initEdges hw hyc).mpr ⟨rfl, ha, hy⟩, mem_states.mpr ⟨hx, (ha.mem_nodes hw).2⟩,
        Reach.refl _⟩
    | @step p t n hprev ha h1 h2 h3 h4 ih =>
      obtain ⟨w, hwi, hwU, hr⟩ := ih
      have ht : t ∈ G.nodes := (ha.mem_nodes hw).1
      refine ⟨w, hwi, hwU, Reach.tail hr ⟨?_, mem_states.mpr ⟨ht, (ha.mem_nodes hw).2⟩⟩⟩
      exact (mem_expand_true hw ht (conn_of hprev)).mpr ⟨rfl, ha, h1, h2, h3, h4⟩

/-- members of the intended search = ends of visited states -/
theorem mem_pdsW_iff_walkSt {G : MG} (hw : WF G) {x : Nat} (hx : x ∈ G.nodes) {y : Option Nat} (v : Nat) :
    v ∈ pdsW G x y ↔ YConn G x y ∧ ∃ p, WalkSt G x y (p, v) := by
  unfold pdsW pdsGen
  by_cases hyc : YConn G x y
  · have hr : reachesY G y x = true := (reachesY_iff hw hx).mpr hyc
    simp only [hr, Bool.not_true, Bool.false_eq_true, if_false, List.mem_append, List.mem_map, List.mem_filter,
      hyc, true_and]
    constructor
    · rintro (⟨st, hst, rfl⟩ | ⟨st, ⟨hst, _⟩, rfl⟩)
      · obtain ⟨h1, h2, h3⟩ := (mem_initEdges hw hyc).mp hst
        obtain ⟨a, b⟩ := st
        simp only at h1 h2 h3
        subst h1
        exact ⟨_, WalkSt.init h2 h3⟩
      · obtain ⟨a, b⟩ := st
        exact ⟨a, (mem_reach_iff_walkSt hw hx hyc _).mp hst⟩
    · rintro ⟨p, h⟩
      right
      refine ⟨(p, v), ⟨(mem_reach_iff_walkSt hw hx hyc _).mpr h, ?_⟩, rfl⟩
      rw [reachesY_iff hw (h.facts.1.mem_nodes hw).2]
      intro y' e
      exact h.facts.2.1.symm.trans (hyc y' e)
  · have hr : reachesY G y x = false := by
      cases h : reachesY G y x
      · rfl
      · exact absurd ((reachesY_iff hw hx).mp h) hyc
    simp [hr, hyc]

/-! ## inductive relation ↔ list-shaped walks -/

/-- the conditions of `PdsWalk` on the node list `x :: l` -/
def GoodWalk (G : MG) (x : Nat) (y : Option Nat) (l : List Nat) : Prop :=
  ChainP (Adj G) (x :: l) ∧ x ∉ l ∧ Avoids y l ∧ NoBacktrack (x :: l) ∧ TriplesOK G (x :: l)

theorem noBacktrack_snoc {a : Nat} {m : List Nat} {t n : Nat} (h : NoBacktrack (a :: (m ++ [t])))
    (hn : n ≠ lastOf a m) : NoBacktrack (a :: (m ++ [t] ++ [n])) := by
  induction m generalizing a with
  | nil => exact ⟨by simpa using hn, trivial⟩
  | cons b m ih =>
    cases m with
    | nil =>
      simp only [List.cons_append, List.nil_append, lastOf_cons, lastOf_nil] at *
      exact ⟨h.1, hn, trivial⟩
    | cons c m =>
      simp only [List.cons_append] at *
      exact ⟨h.1, ih h.2 (by simpa using hn)⟩

theorem triplesOK_snoc {G : MG} {a : Nat} {m : List Nat} {t n : Nat} (h : TriplesOK G (a :: (m ++ [t])))
    (hn : TripleOK G (lastOf a m) t n) : TriplesOK G (a :: (m ++ [t] ++ [n])) := by
  induction m generalizing a with
  | nil => exact ⟨by simpa using hn, trivial⟩
  | cons b m ih =>
    cases m with
    | nil =>
      simp only [List.cons_append, List.nil_append, lastOf_cons, lastOf_nil] at *
      exact ⟨h.1, hn, trivial⟩
    | cons c m =>
      simp only [List.cons_append] at *
      exact ⟨h.1, ih h.2 (by simpa using hn)⟩

theorem lastOf_snoc {a : Nat} {m : List Nat} {t : Nat} : lastOf a (m ++ [t]) = t := by
  rw [lastOf_append]; rfl

theorem walkSt_to_list {G : MG} (hl : NoLoop G) {x : Nat} {y : Option Nat} {st : St} (h : WalkSt G x y st) :
    ∃ m, st.1 = lastOf x m ∧ GoodWalk G x y (m ++ [st.2]) := by
  induction h with
  | @init v ha hy =>
    refine ⟨[], rfl, ⟨ha, trivial⟩, ?_, ?_, trivial, trivial⟩
    · simp only [List.nil_append, List.mem_singleton]
      intro e; subst e; exact hl _ ha
    · intro y' e hm
      simp only [List.nil_append, List.mem_singleton] at hm
      subst hm; exact hy e.symm
  | @step p t n _ ha h1 h2 h3 h4 ih =>
    obtain ⟨m, hp, hc, hx, hav, hnb, htr⟩ := ih
    simp only at hp
    refine ⟨m ++ [t], lastOf_snoc.symm, ?_, ?_, ?_, ?_, ?_⟩
    · exact chainP_snoc hc (by rw [lastOf_snoc]; exact ha)
    · simp only [List.mem_append, List.mem_singleton, not_or] at hx ⊢
      exact ⟨hx, fun e => h2 e.symm⟩
    · intro y' e hm
      rcases List.mem_append.mp hm with hm | hm
      · exact hav y' e hm
      · simp only [List.mem_singleton] at hm
        subst hm; exact h3 e.symm
    · exact noBacktrack_snoc hnb (hp ▸ h1)
    · exact triplesOK_snoc htr (hp ▸ h4)

theorem list_to_walkSt {G : MG} {x : Nat} {y : Option Nat} {p t : Nat} (h : WalkSt G x y (p, t)) (l : List Nat)
    (hc : ChainP (Adj G) (t :: l)) (hx : x ∉ l) (hav : Avoids y l) (hnb : NoBacktrack (p :: t :: l))
    (htr : TriplesOK G (p :: t :: l)) : ∃ p', WalkSt G x y (p', lastOf t l) := by
  induction l generalizing p t with
  | nil => exact ⟨p, h⟩
  | cons n l ih =>
    have hn : WalkSt G x y (t, n) :=
      WalkSt.step h hc.1 hnb.1 (fun e => hx (e ▸ List.mem_cons_self))
        (fun e => hav _ e.symm List.mem_cons_self) htr.1
    obtain ⟨p', h'⟩ := ih hn hc.2 (fun hm => hx (List.mem_cons_of_mem _ hm))
      (fun y' e hm => hav y' e (List.mem_cons_of_mem _ hm)) hnb.2 htr.2
    exact ⟨p', by simpa using h'⟩

/-- ★ **walk characterisation**: the intended edge-state search returns exactly the ends of walks from
    `x` that never return to `x`, never touch `y`, never step straight back and whose consecutive
    triples are all collider-or-triangle (and nothing when `y` is not connected to `x`) -/
theorem mem_pdsW_iff_walk {G : MG} (hw : WF G) (hl : NoLoop G) {x : Nat} (hx : x ∈ G.nodes) {y : Option Nat}
    (v : Nat) : v ∈ pdsW G x y ↔ YConn G x y ∧ PdsWalk G x y v := by
  rw [mem_pdsW_iff_walkSt hw hx]
  refine and_congr_right fun _ => ?_
  constructor
  · rintro ⟨p, h⟩
    obtain ⟨m, -, hc, hx', hav, hnb, htr⟩ := walkSt_to_list hl h
    exact ⟨m ++ [v], by simp, hc, lastOf_snoc, hx', hav, hnb, htr⟩
  · rintro ⟨l, hne, hc, hlast, hx', hav, hnb, htr⟩
    match l, hne with
    | t :: l, _ =>
      have h0 : WalkSt G x y (x, t) :=
        WalkSt.init hc.1 (fun e => hav _ e.symm List.mem_cons_self)
      obtain ⟨p', h'⟩ := list_to_walkSt h0 l hc.2 (fun hm => hx' (List.mem_cons_of_mem _ hm))
        (fun y' e hm => hav y' e (List.mem_cons_of_mem _ hm)) hnb htr
      exact ⟨p', by simpa using hlast ▸ h'⟩

/-! ## the path definition is contained in the intended search -/

theorem noBacktrack_of_nodup : ∀ {l : List Nat}, l.Nodup → NoBacktrack l
  | [], _ => trivial
  | [_], _ => trivial
  | [_, _], _ => trivial
  | a :: b :: c :: l, h => by
    refine ⟨?_, noBacktrack_of_nodup (List.nodup_cons.mp h).2⟩
    intro e
    have := (List.nodup_cons.mp h).1
    exact this (e ▸ List.mem_cons_of_mem _ List.mem_cons_self)

/-- a path of the definition is a walk of the characterisation -/
theorem PdsDef.walk {G : MG} {x : Nat} {y : Option Nat} {v : Nat} (h : PdsDef G x y v) : PdsWalk G x y v := by
  obtain ⟨-, p, ⟨⟨-, hnd, hch⟩, hh, hlen, hav, htr⟩, hlast⟩ := h
  match p, hh, hlen with
  | a :: l, hh, hlen =>
    simp only [List.head?_cons, Option.some.injEq] at hh
    subst hh
    refine ⟨l, ?_, hch, ?_, (List.nodup_cons.mp hnd).1, ?_, noBacktrack_of_nodup hnd, htr⟩
    · intro e; subst e; simp at hlen
    · rw [getLast?_cons_eq_lastOf] at hlast; exact Option.some.inj hlast
    · intro y' e hm; exact hav y' e (List.mem_cons_of_mem _ hm)

/-- ★ **safety direction**: every node of the property's PATH definition is returned by the intended
    search (`pdsW ⊇ definition`) -/
theorem pdsDef_subset_pdsW {G : MG} (hw : WF G) (hl : NoLoop G) {x : Nat} (hx : x ∈ G.nodes) {y : Option Nat}
    {v : Nat} (h : PdsDef G x y v) : v ∈ pdsW G x y :=
  (mem_pdsW_iff_walk hw hl hx v).mpr ⟨h.1, h.walk⟩

/-! ## the oracle is the path definition -/

theorem any_last_iff_conn {G : MG} (hw : WF G) {x : Nat} (hx : x ∈ G.nodes) (y' : Nat) :
    ((simplePaths G x).any fun p => decide (p.getLast? = some y')) = true ↔ Conn G x y' := by
  simp only [List.any_eq_true, decide_eq_true_eq, mem_simplePaths hx]
  constructor
  · rintro ⟨p, ⟨⟨-, -, hch⟩, hh⟩, hlast⟩
    match p, hh with
    | a :: l, hh =>
      simp only [List.head?_cons, Option.some.injEq] at hh
      subst hh
      rw [getLast?_cons_eq_lastOf] at hlast
      exact ⟨l, hch, Option.some.inj hlast⟩
  · rintro ⟨l, hc, hlast⟩
    obtain ⟨l', hc', hnd, hlast', -⟩ := chain_to_path x l hc
    refine ⟨x :: l', ⟨⟨?_, hnd, hc'⟩, rfl⟩, by rw [getLast?_cons_eq_lastOf, hlast', hlast]⟩
    have : ∀ (a : Nat) (m : List Nat), a ∈ G.nodes → ChainP (Adj G) (a :: m) → ∀ v ∈ a :: m, v ∈ G.nodes := by
      intro a m
      induction m generalizing a with
      | nil => intro ha _ v hv; simp only [List.mem_singleton] at hv; exact hv ▸ ha
      | cons b m ih =>
        intro ha hch v hv
        rcases List.mem_cons.mp hv with rfl | hv
        · exact ha
        · exact ih b (hch.1.mem_nodes hw).2 hch.2 v hv
    exact this x l' hx hc'

/-- ★ the brute-force oracle of the harness *is* the property's path definition -/
theorem mem_pdsDec {G : MG} (hw : WF G) {x : Nat} (hx : x ∈ G.nodes) {y : Option Nat} (v : Nat) :
    v ∈ pdsDec G x y ↔ PdsDef G x y v := by
  unfold pdsDec PdsDef
  dsimp only
  cases y with
  | none =>
    simp only [if_true, List.mem_filterMap, List.mem_filter, decide_eq_true_eq, mem_simplePaths hx]
    constructor
    · rintro ⟨p, ⟨_, hg⟩, hl⟩; exact ⟨(by intro _ e; cases e), p, hg, hl⟩
    · rintro ⟨_, p, hg, hl⟩; exact ⟨p, ⟨⟨hg.1, hg.2.1⟩, hg⟩, hl⟩
  | some y' =>
    dsimp only
    by_cases hc : Conn G x y'
    · rw [if_pos ((any_last_iff_conn hw hx y').mpr hc)]
      simp only [List.mem_filterMap, List.mem_filter, decide_eq_true_eq, mem_simplePaths hx]
      constructor
      · rintro ⟨p, ⟨_, hg⟩, hl⟩; exact ⟨(by intro _ e; cases e; exact hc), p, hg, hl⟩
      · rintro ⟨_, p, hg, hl⟩; exact ⟨p, ⟨⟨hg.1, hg.2.1⟩, hg⟩, hl⟩
    · rw [if_neg (fun h => hc ((any_last_iff_conn hw hx y').mp h))]
      simp only [List.not_mem_nil, false_iff]
      exact fun h => hc (h.1 y' rfl)

/-! ## the code as it is (literal model): sound but short-sighted -/

/-- states the literal search visits: `prev` never changes -/
inductive LitSt (G : MG) (x : Nat) (y : Option Nat) : St → Prop
  | init {v : Nat} : Adj G x v → some v ≠ y → LitSt G x y (x, v)
  | step {p t n : Nat} : LitSt G x y (p, t) → Adj G t n → n ≠ p → n ≠ x → some n ≠ y →
      TripleOK G p t n → LitSt G x y (p, n)

/-- what a literal state looks like: a neighbour of `x`, or a second node behind a collider at a
    neighbour of `x` -/
def Near (G : MG) (x : Nat) (y : Option Nat) (v : Nat) : Prop :=
  some v ≠ y ∧ (Adj G x v ∨ (v ≠ x ∧ ∃ u ∈ G.nodes, Adj G x u ∧ some u ≠ y ∧ Adj G u v ∧ Collider G x u v))

theorem Collider.adj_left {G : MG} {a b c : Nat} (h : Collider G a b c) : Adj G a b := by
  unfold Adj
  rcases h.1 with h | h | h <;> simp [h]

theorem LitSt.near {G : MG} (hw : WF G) {x : Nat} {y : Option Nat} {st : St} (h : LitSt G x y st) :
    st.1 = x ∧ Near G x y st.2 := by
  induction h with
  | init ha hy => exact ⟨rfl, hy, Or.inl ha⟩
  | @step p t n _ ha _ h2 h3 h4 ih =>
    obtain ⟨hp, hty, _⟩ := ih
    simp only at hp
    subst hp
    refine ⟨rfl, h3, ?_⟩
    rcases h4 with hcol | hadj
    · exact Or.inr ⟨h2, t, (ha.mem_nodes hw).1, hcol.adj_left, hty, ha, hcol⟩
    · exact Or.inl hadj

theorem mem_expand_false_imp {G : MG} {x : Nat} {y : Option Nat} {p t : Nat} {st : St}
    (h : st ∈ expand false G x y (p, t)) :
    st.1 = p ∧ Adj G t st.2 ∧ st.2 ≠ p ∧ st.2 ≠ x ∧ some st.2 ≠ y ∧ TripleOK G p t st.2 := by
  unfold expand at h
  dsimp only at h
  by_cases hr : (!reachesY G y t) = true
  · rw [if_pos hr] at h; cases h
  · rw [if_neg hr] at h
    simp only [Bool.false_eq_true, if_false, List.mem_map, List.mem_filter, mem_nbrs, candidate, Bool.and_eq_true,
      Bool.not_eq_eq_eq_not, Bool.not_true, Bool.or_eq_false_iff, beq_eq_false_iff_ne, ne_eq, Bool.or_eq_true,
      decide_eq_true_eq] at h
    obtain ⟨n, ⟨⟨_, ha⟩, ⟨⟨h1, h2⟩, h3⟩, h4⟩, rfl⟩ := h
    refine ⟨rfl, ha, h1, h2, h3, ?_⟩
    rcases h4 with h4 | h4
    · exact Or.inl h4
    · exact Or.inr h4.2

/-- every node the code (as it is) returns lies within two edges of `x` along a qualifying path -/
theorem mem_pds_imp {G : MG} (hw : WF G) {x : Nat} (hx : x ∈ G.nodes) {y : Option Nat} {v : Nat}
    (h : v ∈ pds G x y) : YConn G x y ∧ Near G x y v := by
  unfold pds pdsGen at h
  split at h
  · cases h
  · rename_i hr
    have hyc : YConn G x y := by
      rw [← reachesY_iff hw hx]
      cases h' : reachesY G y x
      · simp [h'] at hr
      · rfl
    refine ⟨hyc, ?_⟩
    have init_lit : ∀ st ∈ initEdges G x y, LitSt G x y st := by
      intro st hst
      obtain ⟨h1, h2, h3⟩ := (mem_initEdges hw hyc).mp hst
      obtain ⟨a, b⟩ := st
      simp only at h1 h2 h3
      subst h1
      exact LitSt.init h2 h3
    simp only [List.mem_append, List.mem_map, List.mem_filter] at h
    rcases h with ⟨st, hst, rfl⟩ | ⟨st, ⟨hst, -⟩, rfl⟩
    · exact ((init_lit st hst).near hw).2
    · rw [mem_closure] at hst
      obtain ⟨w, hwi, -, hreach⟩ := hst
      have : LitSt G x y st := by
        induction hreach with
        | refl => exact init_lit w hwi
        | @tail b c _ hs ih =>
          obtain ⟨h0, ha, h1, h2, h3, h4⟩ := mem_expand_false_imp (p := b.1) (t := b.2) hs.1
          have hc : c = (b.1, c.2) := by rw [← h0]
          rw [hc]
          exact LitSt.step (p := b.1) (t := b.2) ih ha h1 h2 h3 h4
      exact (this.near hw).2

/-- ★ the code as it is never returns a node outside the path definition (`pds ⊆ definition`); by
    `pds_counterexample_too_small` the inclusion can be strict – the unsafe direction -/
theorem pds_subset_pdsDef {G : MG} (hw : WF G) (hl : NoLoop G) {x : Nat} (hx : x ∈ G.nodes) {y : Option Nat}
    (hxy : some x ≠ y) {v : Nat} (h : v ∈ pds G x y) : PdsDef G x y v := by
  obtain ⟨hyc, hvy, hnear⟩ := mem_pds_imp hw hx h
  refine ⟨hyc, ?_⟩
  rcases hnear with ha | ⟨hvx, u, _, hxu, huy, huv, hcol⟩
  · have hn := ha.mem_nodes hw
    have hne : x ≠ v := fun e => hl x (e ▸ ha)
    refine ⟨[x, v], ⟨⟨by simp [hn.1, hn.2], by simp [hne], ⟨ha, trivial⟩⟩, rfl, by simp, ?_, trivial⟩, rfl⟩
    intro y' e hm
    simp only [List.mem_cons, List.not_mem_nil, or_false] at hm
    rcases hm with rfl | rfl
    · exact hxy e.symm
    · exact hvy e.symm
  · have hn1 := hxu.mem_nodes hw
    have hn2 := huv.mem_nodes hw
    have hxu' : x ≠ u := fun e => hl x (e ▸ hxu)
    have huv' : u ≠ v := fun e => hl u (e ▸ huv)
    refine ⟨[x, u, v], ⟨⟨by simp [hn1.1, hn1.2, hn2.2], ?_, ⟨hxu, huv, trivial⟩⟩, rfl, by simp, ?_,
      ⟨Or.inl hcol, trivial⟩⟩, rfl⟩
    · simp only [List.nodup_cons, List.mem_cons, List.not_mem_nil, or_false, not_or, List.nodup_nil, and_true,
        not_false_eq_true]
      exact ⟨⟨hxu', fun e => hvx e.symm⟩, huv'⟩
    · intro y' e hm
      simp only [List.mem_cons, List.not_mem_nil, or_false] at hm
      rcases hm with rfl | rfl | rfl
      · exact hxy e.symm
      · exact huy e.symm
      · exact hvy e.symm

end C17
