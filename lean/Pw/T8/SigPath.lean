import Pw.C19.Scc
import Pw.T2.Basic
open Closure MG

/-! # T8 (Forré–Mooij), part A: every sigma-open walk shortens to a sigma-open path

Same surgery as `MG.walk_to_path` (T1); the condition at a node now also looks at its two
neighbours on the walk (does an outgoing walk edge stay inside the strongly connected component?). -/
namespace C19

/-- entry information after walking `hs` from `a` (previous node, mark at the end node) -/
def exitS : Option (Nat × Mark) → Nat → List Hop → Option (Nat × Mark)
  | e, _, [] => e
  | _, a, h :: t => exitS (some (a, h.mn)) h.nx t

/-- condition with optional entry -/
def sigO (G : MG) (Z : List Nat) : Option (Nat × Mark) → Nat → Mark → Nat → Prop
  | none, _, _, _ => True
  | some (u, m), v, mo, w => sigmaCond G Z u m v mo w

theorem openSig_cons {G : MG} {Z : List Nat} (e : Option (Nat × Mark)) (a : Nat) (h : Hop) (t : List Hop) :
    OpenSig G Z e a (h :: t) ↔ sigO G Z e a h.mp h.nx ∧ OpenSig G Z (some (a, h.mn)) h.nx t := by
  cases e with
  | none => simp [OpenSig, sigO]
  | some p => obtain ⟨u, m⟩ := p; simp [OpenSig, sigO]

theorem openSig_append {G : MG} {Z : List Nat} : ∀ (P1 P2 : List Hop) (e : Option (Nat × Mark)) (w : Nat),
    OpenSig G Z e w (P1 ++ P2) ↔
      OpenSig G Z e w P1 ∧ OpenSig G Z (exitS e w P1) (endNode w P1) P2
  | [], P2, e, w => by cases e <;> simp [OpenSig, exitS, endNode]
  | h :: t, P2, e, w => by
    have ih := openSig_append (G := G) (Z := Z) t P2 (some (w, h.mn)) h.nx
    rw [List.cons_append, openSig_cons, openSig_cons, ih, and_assoc]
    rfl

theorem exitS_snoc : ∀ (s : List Hop) (e : Option (Nat × Mark)) (a : Nat) (hop : Hop),
    exitS e a (s ++ [hop]) = some (endNode a s, hop.mn)
  | [], _, _, _ => rfl
  | h :: t, _, a, hop => by simp [exitS, endNode, exitS_snoc t _ h.nx hop]

/-- no undirected edges: a tail at one end forces a head at the other -/
theorem head_of_tail {G : MG} (hun : G.un = []) {a b : Nat} {mb : Mark} (h : HasEdge G a b .tail mb) :
    mb = .head := by
  cases mb with
  | head => rfl
  | tail =>
    rcases h with ⟨_, h2, _⟩ | ⟨h1, _, _⟩ | ⟨h1, _, _⟩ | ⟨_, _, h3⟩
    · cases h2
    · cases h1
    · cases h1
    · rw [hun] at h3; simp at h3

theorem colliderOpen_up {G : MG} {Z : List Nat} {p c : Nat} (e : (p, c) ∈ G.dir)
    (h : ColliderOpen G Z c) : ColliderOpen G Z p := by
  obtain ⟨z, hz, ha⟩ := h
  exact ⟨z, hz, Anc.step e ha⟩

/-- chain lemma: a segment entered through an arrowhead whose last hop leaves its source through an
    arrowhead contains a collider below the entry node -/
theorem chainS {G : MG} {Z : List Nat} (hun : G.un = []) :
    ∀ (hs : List Hop) (w u : Nat), ValidW G w hs → OpenSig G Z (some (u, .head)) w hs → hs ≠ [] →
      (∀ h ∈ hs.getLast?, h.mp = .head) → ColliderOpen G Z w
  | [], _, _, _, _, hne, _ => absurd rfl hne
  | h :: t, w, u, hv, ho, _, hl => by
    obtain ⟨hv1, hv2⟩ := hv
    rw [openSig_cons] at ho
    obtain ⟨ho1, ho2⟩ := ho
    cases hmp : h.mp with
    | head =>
      simp only [sigO, sigmaCond, hmp, and_self, if_true] at ho1
      exact ho1
    | tail =>
      cases t with
      | nil =>
        have := hl h (by simp)
        rw [hmp] at this; cases this
      | cons h2 t2 =>
        rw [hmp] at hv1
        have hmn := head_of_tail hun hv1
        rw [hmn] at hv1 ho2
        have hnx : ColliderOpen G Z h.nx := by
          refine chainS hun (h2 :: t2) h.nx w hv2 ho2 (by simp) ?_
          intro h' hh'
          apply hl h'
          simpa [List.getLast?_cons_cons] using hh'
        exact colliderOpen_up hv1.dir_of_tail_head hnx

/-- **T8, part A.** Every sigma-open walk can be shortened to a sigma-open path with the same end
    points and the same condition at the first node. -/
theorem sigWalk_to_path {G : MG} {Z : List Nat} (hun : G.un = []) (hsl : NoSelfLoop G) :
    ∀ (hs : List Hop) (e : Option (Nat × Mark)) (a : Nat), ValidW G a hs → OpenSig G Z e a hs →
      ∃ ps, ValidW G a ps ∧ OpenSig G Z e a ps ∧ endNode a ps = endNode a hs ∧ (nodesOf a ps).Nodup
  | [], e, a, _, _ => ⟨[], trivial, by cases e <;> trivial, rfl, by simp [nodesOf]⟩
  | h :: t, e, a, hv, ho => by
    obtain ⟨hv1, hv2⟩ := hv
    rw [openSig_cons] at ho
    obtain ⟨ho1, ho2⟩ := ho
    obtain ⟨ps, pv, po, pe, pn⟩ := sigWalk_to_path hun hsl t (some (a, h.mn)) h.nx hv2 ho2
    have hne : a ≠ h.nx := by
      intro heq
      apply hsl a h.mp h.mn
      have := hv1
      rwa [← heq] at this
    by_cases hmem : a ∈ ps.map (·.nx)
    · obtain ⟨hop, hhop, hnx⟩ := List.mem_map.mp hmem
      obtain ⟨s, t2, rfl⟩ := List.append_of_mem hhop
      have hsplit : s ++ hop :: t2 = (s ++ [hop]) ++ t2 := by simp
      rw [hsplit] at pv po pe pn
      rw [validW_append] at pv
      rw [openSig_append] at po
      rw [endNode_append] at pe
      rw [endNode_snoc, hnx] at pv po pe
      rw [exitS_snoc] at po
      obtain ⟨pv1, pv2⟩ := pv
      obtain ⟨po1, po2⟩ := po
      have hnod : (nodesOf a t2).Nodup := by
        simp only [nodesOf, List.map_append, List.map_cons, List.map_nil, List.nodup_cons,
          List.nodup_append, List.mem_append, List.mem_cons, List.mem_map] at pn ⊢
        obtain ⟨_, ⟨_, hn2, hdisj⟩⟩ := pn
        refine ⟨?_, hn2⟩
        rintro ⟨x, hx, hxa⟩
        exact hdisj a (Or.inr (Or.inl hnx.symm)) x.nx (⟨x, hx, rfl⟩) hxa.symm
      refine ⟨t2, pv2, ?_, ?_, hnod⟩
      · cases t2 with
        | nil => cases e <;> trivial
        | cons h2 t3 =>
          rw [openSig_cons] at po2 ⊢
          obtain ⟨c2, po3⟩ := po2
          refine ⟨?_, po3⟩
          cases e with
          | none => trivial
          | some p =>
            obtain ⟨u0, m0⟩ := p
            simp only [sigO, sigmaCond] at ho1 c2 ⊢
            -- the hop of `ps` that arrives at `a`
            have hlast : HasEdge G (endNode h.nx s) a hop.mp hop.mn := by
              have := (validW_append s [hop] h.nx).mp pv1
              obtain ⟨_, hl, _⟩ := this
              rwa [hnx] at hl
            by_cases hcol : m0 = .head ∧ h2.mp = .head
            · obtain ⟨hm0, hm2⟩ := hcol
              simp only [hm0, hm2, and_self, if_true]
              simp only [hm0, true_and] at ho1
              simp only [hm2, and_true] at c2
              cases hmp : h.mp with
              | head => simp only [hmp, if_true] at ho1; exact ho1
              | tail =>
                cases hm3 : hop.mn with
                | head => simp only [hm3, if_true] at c2; exact c2
                | tail =>
                  -- a -> h.nx ... prev <- a : the loop contains a collider below h.nx
                  rw [hmp] at hv1
                  have hhmn := head_of_tail hun hv1
                  rw [hm3] at hlast
                  have hhopmp : hop.mp = .head := head_of_tail hun hlast.symm
                  rw [hhmn] at hv1 po1
                  have hw1 : ColliderOpen G Z h.nx := by
                    refine chainS hun (s ++ [hop]) h.nx a pv1 po1 (by simp) ?_
                    intro h' hh'
                    simp at hh'
                    rw [← hh']; exact hhopmp
                  exact colliderOpen_up hv1.dir_of_tail_head hw1
            · simp only [hcol, if_false]
              by_cases haZ : a ∈ Z
              · refine Or.inr ⟨?_, ?_⟩
                · intro hm2
                  have hc2 : ¬ (hop.mn = .head ∧ h2.mp = .head) := by
                    rintro ⟨_, hx⟩; rw [hm2] at hx; cases hx
                  simp only [hc2, if_false] at c2
                  rcases c2 with c2 | c2
                  · exact absurd haZ c2
                  · exact c2.1 hm2
                · intro hm0
                  have hc1 : ¬ (m0 = .head ∧ h.mp = .head) := by
                    rintro ⟨hx, _⟩; rw [hm0] at hx; cases hx
                  simp only [hc1, if_false] at ho1
                  rcases ho1 with ho1 | ho1
                  · exact absurd haZ ho1
                  · exact ho1.2 hm0
              · exact Or.inl haZ
      · rw [pe]; simp [endNode]
    · refine ⟨h :: ps, ⟨hv1, pv⟩, ?_, by simp [endNode, pe], ?_⟩
      · rw [openSig_cons]; exact ⟨ho1, po⟩
      · simp only [nodesOf, List.map_cons, List.nodup_cons, List.mem_cons, not_or] at pn ⊢
        exact ⟨⟨hne, hmem⟩, pn⟩

end C19
