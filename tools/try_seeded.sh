#!/bin/bash
# usage: tools/try_seeded.sh <patch-dir> <CNN> [quick|thorough]  — apply patch to /repo, run the check, undo
d=$1; p=$2; tier=${3:-quick}
cd /verif
git -C /repo apply $d/patch.diff || { echo "PATCH DOES NOT APPLY"; exit 2; }
./check $p --tier $tier > /tmp/try-$p.log 2>&1; rc=$?
git -C /repo checkout -- .
echo "$(basename $d) vs $p ($tier): rc=$rc $(grep -h VIOLATION /tmp/try-$p.log | head -1)"
