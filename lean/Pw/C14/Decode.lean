import Pw.C14.Lift

/-! # C14 — the importers on well-formed matrices (whole matrix, any size) -/
namespace C14
set_option linter.unusedSimpArgs false

theorem mem_allPairs {n a b : Nat} : (a, b) ∈ allPairs n ↔ a < n ∧ b < n := by
  simp [allPairs, List.mem_flatMap, List.mem_map, List.mem_range]

theorem foldl_congr_mem {α β : Type} (f f' : α → β → α) (l : List β) (a : α)
    (h : ∀ s x, x ∈ l → f s x = f' s x) : l.foldl f a = l.foldl f' a := by
  induction l generalizing a with
  | nil => rfl
  | cons x xs ih =>
    simp only [List.foldl_cons]
    rw [h a x List.mem_cons_self]
    exact ih _ (fun s y hy => h s y (List.mem_cons_of_mem _ hy))

/-- `T` is the documented reading of the matrix `A` (hypothesis form of well-formedness):
    zero diagonal, and the two cells of every pair are the table codes of the configuration `T a b` -/
def Denotes (c : Cls) (f : Fmt) (A : Mat) (n : Nat) (T : Nat → Nat → PB) : Prop :=
  (∀ a, a < n → A a a = 0) ∧ ∀ a b, a < n → b < n → a ≠ b → (T a b, A a b, A b a) ∈ tableZ c f

theorem mem_fmts (f : Fmt) : f ∈ [Fmt.numpy, .clearn, .pcalg] := by cases f <;> simp

theorem Denotes.swap {c f A n T} (h : Denotes c f A n T) {a b : Nat} (ha : a < n) (hb : b < n) (hab : a ≠ b) :
    T b a = (T a b).swap := by
  have h1 := h.2 a b ha hb hab
  have h2 := h.2 b a hb ha (fun e => hab e.symm)
  have h3 := tableZ_swap_closed c (mem_allCls c) f (mem_fmts f) _ h1
  exact tableZ_cells_inj c (mem_allCls c) f (mem_fmts f) _ h2 _ h3 rfl

theorem bits_emptyG (n a b : Nat) : bits (emptyG n) a b = PB.empty := by
  simp [bits, emptyG, PB.empty]

theorem fAny_swap (p : PB) (s t : Bool) : (fAny p s t).swap = fAny p.swap t s := by
  cases s <;> cases t <;> simp [fAny, PB.swap, PB.empty]

/-- what an importer must produce: the nodes `0..n-1`, the configuration `T a b` on every pair -/
def Decodes (g : MG) (n : Nat) (T : Nat → Nat → PB) : Prop :=
  g.nodes = List.range n ∧ (∀ a b, a < n → b < n → a ≠ b → bits g a b = T a b) ∧
  (∀ a, bits g a a = PB.empty) ∧ ∀ a b, ¬(a < n ∧ b < n) → bits g a b = PB.empty

/-- **`clearn_to_graph` on a well-formed matrix** returns the graph the documentation assigns to it -/
theorem clDec_spec (c : Cls) (A : Mat) (n : Nat) (T : Nat → Nat → PB) (hT : Denotes c .clearn A n T) :
    ∃ g, clDec c A n = some g ∧ Decodes g n T := by
  let F : Nat → Nat → Bool → Bool → PB := fun a b s t =>
    if a < n ∧ b < n ∧ a ≠ b then fAny (T a b) s t else PB.empty
  have hsw : ∀ a b s t, (F a b s t).swap = F b a t s := by
    intro a b s t
    by_cases h : a < n ∧ b < n ∧ a ≠ b
    · have h' : b < n ∧ a < n ∧ b ≠ a := ⟨h.2.1, h.1, fun e => h.2.2 e.symm⟩
      simp only [F]; rw [if_pos h, if_pos h', fAny_swap, hT.swap h.1 h.2.1 h.2.2]
    · have h' : ¬(b < n ∧ a < n ∧ b ≠ a) := fun e => h ⟨e.2.1, e.1, fun x => e.2.2 x.symm⟩
      simp only [F]; rw [if_neg h, if_neg h']; rfl
  have hvisit : ∀ a b s t, (a, b) ∈ allPairs n → a ≠ b →
      ∃ ops, clDecPair c (A a b) (A b a) = some ops ∧ applyOps c (F a b s t) ops = some (F a b true t) := by
    intro a b s t hm hab
    obtain ⟨ha, hb⟩ := mem_allPairs.1 hm
    have := clDecPair_visit c (mem_allCls c) _ (hT.2 a b ha hb hab) s (mem_allBools s) t (mem_allBools t)
    simpa [F, ha, hb, hab] using this
  obtain ⟨g, hg, hn, hbits, hd⟩ := pairFold_spec c (fun a b => clDecPair c (A a b) (A b a)) F (allPairs n) (emptyG n)
    hsw hvisit (fun a b _ => by simp [F, bits_emptyG, fAny])
  refine ⟨g, ?_, hn, ?_, fun a => by rw [hd a, bits_emptyG], ?_⟩
  · have hv : (allPairs n).all (fun ij => clValid (A ij.1 ij.2)) = true := by
      rw [List.all_eq_true]
      rintro ⟨a, b⟩ hm
      obtain ⟨ha, hb⟩ := mem_allPairs.1 hm
      by_cases hab : a = b
      · subst hab; simp [hT.1 a ha]; decide
      · exact (clValid_table c (mem_allCls c) _ (hT.2 a b ha hb hab)).1
    unfold clDec
    simp only [hv, Bool.not_true, Bool.false_eq_true, if_false]
    exact hg
  · intro a b ha hb hab
    rw [hbits a b hab]
    simp [F, ha, hb, hab, mem_allPairs, fAny]
  · intro a b hnot
    by_cases hab : a = b
    · subst hab; rw [hd a, bits_emptyG]
    · rw [hbits a b hab]; simp only [F]; rw [if_neg (fun e => hnot ⟨e.1, e.2.1⟩)]

theorem PB.or_swap (p q : PB) : (p.or q).swap = p.swap.or q.swap := rfl
theorem PB.or_comm (p q : PB) : p.or q = q.or p := by simp [PB.or, Bool.or_comm]
theorem PB.swap_swap (p : PB) : p.swap.swap = p := rfl

theorem fNp_swap (x y : Int) (s t : Bool) : (fNp x y s t).swap = fNp y x t s := by
  unfold fNp
  rw [PB.or_swap, PB.or_comm]
  cases s <;> cases t <;> rfl

theorem npDecStep_eq (c : Cls) (A : Mat) (n : Nat) (hd : ∀ a, a < n → A a a = 0) (g : Option MG)
    (ij : Nat × Nat) (hm : ij ∈ allPairs n) :
    npDecStep c A g ij = pairStep c (fun a b => npE (A a b)) g ij := by
  obtain ⟨i, j⟩ := ij
  obtain ⟨hi, hj⟩ := mem_allPairs.1 hm
  cases g with
  | none => rfl
  | some g =>
    simp only [npDecStep, pairStep, Option.bind_some, npE]
    by_cases hij : i = j
    · subst hij; simp [hd i hi]
    · by_cases hz : A i j = 0
      · simp [hz, hij, applyOpsG]
      · simp [hz, hij, Option.bind_map, Function.comp_def]

/-- **`numpy_to_graph` on a well-formed matrix** returns the graph the documentation assigns to it -/
theorem npDec_spec (c : Cls) (A : Mat) (n : Nat) (T : Nat → Nat → PB) (hT : Denotes c .numpy A n T) :
    ∃ g, npDec c A n = some g ∧ Decodes g n T := by
  let F : Nat → Nat → Bool → Bool → PB := fun a b s t =>
    if a < n ∧ b < n ∧ a ≠ b then fNp (A a b) (A b a) s t else PB.empty
  have hsw : ∀ a b s t, (F a b s t).swap = F b a t s := by
    intro a b s t
    by_cases h : a < n ∧ b < n ∧ a ≠ b
    · have h' : b < n ∧ a < n ∧ b ≠ a := ⟨h.2.1, h.1, fun e => h.2.2 e.symm⟩
      simp only [F]; rw [if_pos h, if_pos h', fNp_swap]
    · have h' : ¬(b < n ∧ a < n ∧ b ≠ a) := fun e => h ⟨e.2.1, e.1, fun x => e.2.2 x.symm⟩
      simp only [F]; rw [if_neg h, if_neg h']; rfl
  have hvisit : ∀ a b s t, (a, b) ∈ allPairs n → a ≠ b →
      ∃ ops, npE (A a b) = some ops ∧ applyOps c (F a b s t) ops = some (F a b true t) := by
    intro a b s t hm hab
    obtain ⟨ha, hb⟩ := mem_allPairs.1 hm
    have := npDec_visit c (mem_allCls c) _ (hT.2 a b ha hb hab) s (mem_allBools s) t (mem_allBools t)
    simpa [F, ha, hb, hab] using this
  obtain ⟨g, hg, hn, hbits, hd⟩ := pairFold_spec c (fun a b => npE (A a b)) F (allPairs n) (emptyG n)
    hsw hvisit (fun a b _ => by
      simp only [F, bits_emptyG]; split <;> rfl)
  refine ⟨g, ?_, hn, ?_, fun a => by rw [hd a, bits_emptyG], ?_⟩
  · unfold npDec
    rw [foldl_congr_mem _ _ _ _ (fun s x hx => npDecStep_eq c A n hT.1 s x hx)]
    exact hg
  · intro a b ha hb hab
    rw [hbits a b hab]
    have := npDec_final c (mem_allCls c) _ (hT.2 a b ha hb hab)
    simpa [F, ha, hb, hab, mem_allPairs] using this
  · intro a b hnot
    by_cases hab : a = b
    · subst hab; rw [hd a, bits_emptyG]
    · rw [hbits a b hab]; simp only [F]; rw [if_neg (fun e => hnot ⟨e.1, e.2.1⟩)]

/-- invariant of the `pcalg_to_graph` loop: `memo_map` holds exactly the visited pairs (both
    orientations), visited pairs carry their documented configuration, all others are empty -/
def PcInv (A : Mat) (n : Nat) (T : Nat → Nat → PB) (done : List (Nat × Nat)) (st : MG × List (Nat × Nat)) : Prop :=
  st.1.nodes = List.range n ∧
  (∀ a b, (a, b) ∈ st.2 → (b, a) ∈ st.2 ∧ a ≠ b ∧ a < n ∧ b < n) ∧
  (∀ a b, a ≠ b → bits st.1 a b = if (a, b) ∈ st.2 then T a b else PB.empty) ∧
  (∀ a, bits st.1 a a = PB.empty) ∧
  (∀ a b, (a, b) ∈ done → A a b ≠ 0 → (a, b) ∈ st.2)

theorem pcDecStep_inv (c : Cls) (hc : c ∈ [Cls.cpdag, .pag]) (A : Mat) (n : Nat) (T : Nat → Nat → PB)
    (hT : Denotes c .pcalg A n T) (u v : Nat) (hu : u < n) (hv : v < n)
    (done : List (Nat × Nat)) (st : MG × List (Nat × Nat)) (hinv : PcInv A n T done st) :
    ∃ st', pcDecStep c A (some st) (u, v) = some st' ∧ PcInv A n T (done ++ [(u, v)]) st' := by
  obtain ⟨hn, hm, hb, hd, hdone⟩ := hinv
  by_cases hz : A u v = 0
  · refine ⟨st, by simp [pcDecStep, hz], hn, hm, hb, hd, ?_⟩
    intro a b hab hnz
    rcases List.mem_append.1 hab with h | h
    · exact hdone a b h hnz
    · simp at h; obtain ⟨rfl, rfl⟩ := h; exact absurd hz hnz
  · by_cases hmem : (u, v) ∈ st.2
    · refine ⟨st, by simp [pcDecStep, hz, hmem], hn, hm, hb, hd, ?_⟩
      intro a b hab hnz
      rcases List.mem_append.1 hab with h | h
      · exact hdone a b h hnz
      · simp at h; obtain ⟨rfl, rfl⟩ := h; exact hmem
    · have huv : u ≠ v := by
        intro e; subst e; exact hz (hT.1 u hu)
      have hvis := pcDecPair_visit c hc _ (hT.2 u v hu hv huv) hz
      have hspec := applyOpsG_spec c u v huv (pcDecPair c (A u v) (A v u)) st.1
      have hbe : bits st.1 u v = PB.empty := by rw [hb u v huv, if_neg hmem]
      rw [hbe, hvis] at hspec
      obtain ⟨h, e1, e2, e3, e4⟩ := hspec
      refine ⟨(h, (u, v) :: (v, u) :: st.2), by simp [pcDecStep, hz, hmem, e1], e2.trans hn, ?_, ?_, ?_, ?_⟩
      · intro a b hab
        simp only [List.mem_cons, Prod.mk.injEq] at hab ⊢
        rcases hab with ⟨rfl, rfl⟩ | ⟨rfl, rfl⟩ | h
        · exact ⟨Or.inr (Or.inl ⟨rfl, rfl⟩), huv, hu, hv⟩
        · exact ⟨Or.inl ⟨rfl, rfl⟩, fun e => huv e.symm, hv, hu⟩
        · obtain ⟨h1, h2⟩ := hm a b h
          exact ⟨Or.inr (Or.inr h1), h2⟩
      · intro a b hab
        by_cases c1 : a = u ∧ b = v
        · obtain ⟨rfl, rfl⟩ := c1
          simp [e3]
        · by_cases c2 : a = v ∧ b = u
          · obtain ⟨rfl, rfl⟩ := c2
            rw [bits_swap h b a, e3]
            simp [hT.swap hu hv huv]
          · rw [e4 a b c1 c2, hb a b hab]
            simp only [List.mem_cons, Prod.mk.injEq, c1, c2, false_or]
      · intro a
        rw [e4 a a (fun e => huv (e.1.symm.trans e.2)) (fun e => huv (e.2.symm.trans e.1)), hd a]
      · intro a b hab hnz
        simp only [List.mem_cons, Prod.mk.injEq]
        rcases List.mem_append.1 hab with h | h
        · exact Or.inr (Or.inr (hdone a b h hnz))
        · simp at h; exact Or.inl h

/-- **`pcalg_to_graph` on a well-formed matrix** returns the graph the documentation assigns to it -/
theorem pcDec_spec (c : Cls) (hc : c ∈ [Cls.cpdag, .pag]) (A : Mat) (n : Nat) (T : Nat → Nat → PB)
    (hT : Denotes c .pcalg A n T) : ∃ g, pcDec c A n = some g ∧ Decodes g n T := by
  have aux : ∀ (rest done : List (Nat × Nat)) (st : MG × List (Nat × Nat)), (∀ x ∈ rest, x ∈ allPairs n) →
      PcInv A n T done st →
      ∃ st', rest.foldl (pcDecStep c A) (some st) = some st' ∧ PcInv A n T (done ++ rest) st' := by
    intro rest
    induction rest with
    | nil => intro done st _ hinv; exact ⟨st, rfl, by simpa using hinv⟩
    | cons x rest ih =>
      intro done st hmem hinv
      obtain ⟨u, v⟩ := x
      obtain ⟨hu, hv⟩ := mem_allPairs.1 (hmem _ List.mem_cons_self)
      obtain ⟨s1, hs1, hinv1⟩ := pcDecStep_inv c hc A n T hT u v hu hv done st hinv
      obtain ⟨s2, hs2, hinv2⟩ := ih (done ++ [(u, v)]) s1 (fun y hy => hmem y (List.mem_cons_of_mem _ hy)) hinv1
      exact ⟨s2, by rw [List.foldl_cons, hs1, hs2], by simpa [List.append_assoc] using hinv2⟩
  obtain ⟨st, hst, hn, hm, hb, hd, hdone⟩ := aux (allPairs n) [] (emptyG n, []) (fun _ h => h)
    ⟨rfl, by simp, by simp [bits_emptyG], fun a => bits_emptyG n a a, by simp⟩
  have hne : c ≠ .admg := by
    intro e; subst e; simp at hc
  refine ⟨st.1, by simp [pcDec, hne, hst], hn, ?_, hd, ?_⟩
  · intro a b ha hb' hab
    rw [hb a b hab]
    by_cases hmem : (a, b) ∈ st.2
    · rw [if_pos hmem]
    · rw [if_neg hmem]
      -- both cells are zero, so the documented configuration is the empty one
      have h1 : A a b = 0 := by
        apply Classical.byContradiction; intro hnz
        exact hmem (hdone a b (by simpa using mem_allPairs.2 ⟨ha, hb'⟩) hnz)
      have h2 : A b a = 0 := by
        apply Classical.byContradiction; intro hnz
        exact hmem (hm b a (hdone b a (by simpa using mem_allPairs.2 ⟨hb', ha⟩) hnz)).1
      have he := hT.2 a b ha hb' hab
      rw [h1, h2] at he
      have : (PB.empty, (0 : Int), (0 : Int)) ∈ tableZ c .pcalg := by simp [tableZ]
      exact (tableZ_cells_inj c (mem_allCls c) .pcalg (mem_fmts _) _ he _ this rfl).symm
  · intro a b hnot
    by_cases hab : a = b
    · subst hab; exact hd a
    · rw [hb a b hab, if_neg]
      intro hmem; exact hnot ⟨(hm a b hmem).2.2.1, (hm a b hmem).2.2.2⟩

end C14
