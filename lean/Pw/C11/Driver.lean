import Pw.Core.Proto
import Pw.C11.Spec
import Pw.C12.Driver
open Proto

namespace C11

def fmtBr (l : List Nat) : String := "{" ++ fmtSet l ++ "}"

def fmtEB : Except String Bool → String
  | .ok b => fmtBool b
  | .error e => "err:" ++ e

/-- `minsep <graph> x= y= I= R=` →
    `ans=<none|{..}|err:..> exists=<T|F> mins=<{..};{..}>`
    (model answer; spec: does a separator exist; spec: all I-minimal separators) -/
def handleMinsep : Handler := fun a =>
  let G := a.graph
  let x := a.nat "x"; let y := a.nat "y"; let I := a.nats "I"; let R := a.nats "R"
  let ans := match minimalMSep G x y I R with
    | .error e => "err:" ++ e
    | .ok none => "none"
    | .ok (some Z) => fmtBr Z
  "ans=" ++ ans ++ " exists=" ++ fmtBool (existsSepDec G x y I R) ++
  " mins=" ++ ";".intercalate ((allMinSeps G x y I R).map fmtBr)

/-- `ismin <graph> x= y= I= R= Z=` → `model=<T|F|err:nx> spec=<T|F>` -/
def handleIsmin : Handler := fun a =>
  let G := a.graph
  let x := a.nat "x"; let y := a.nat "y"; let I := a.nats "I"; let R := a.nats "R"; let Z := a.nats "Z"
  "model=" ++ fmtEB (isMinimalMSep G x y Z I R) ++ " spec=" ++ fmtBool (minSepDec G x y I R Z)

/-- `isminall <graph> x= y= I= R= K=` → for every sublist Z of K: `{Z}:<model>:<spec>` joined by `|` -/
def handleIsminAll : Handler := fun a =>
  let G := a.graph
  let x := a.nat "x"; let y := a.nat "y"; let I := a.nats "I"; let R := a.nats "R"
  "|".intercalate ((subl (a.nats "K")).map fun Z =>
    fmtBr Z ++ ":" ++ fmtEB (isMinimalMSep G x y Z I R) ++ ":" ++ fmtBool (minSepDec G x y I R Z))

/-- `anterior <graph> S=` → set -/
def handleAnterior : Handler := fun a => fmtSet (C12.anterior a.graph (a.nats "S"))

/-- `bfsmarks n=.. E=.. s= K=` → marked set -/
def handleBfs : Handler := fun a =>
  fmtSet (bfsWithMarks (C12.ugOf a) (a.nat "s") (a.nats "K"))

def handlers : List (String × Handler) :=
  [("minsep", handleMinsep), ("ismin", handleIsmin), ("isminall", handleIsminAll),
   ("anterior", handleAnterior), ("bfsmarks", handleBfs)]
end C11
