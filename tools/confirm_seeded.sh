#!/bin/bash
# usage: tools/confirm_seeded.sh seeded/<id>   — confirms patch applies, suite still passes, demo flips
d=$(realpath $1); id=$(basename $d); wt=/tmp/confirm-$id-$$
git -C /repo worktree add -q --detach $wt HEAD || exit 2
cp -r /repo/pywhy_graphs.egg-info $wt/ 2>/dev/null
cd $wt
PYTHONPATH=$wt /venv/bin/python $d/demo.py >/dev/null 2>&1; before=$?
git apply $d/patch.diff || { echo "$id: PATCH DOES NOT APPLY"; cd /; git -C /repo worktree remove --force $wt; exit 1; }
PYTHONPATH=$wt /venv/bin/python $d/demo.py >/dev/null 2>&1; after=$?
suite=$(/verif/tools/baseline.py $wt | head -1)
cd /; git -C /repo worktree remove --force $wt
echo "$id: demo before=$before after=$after; $suite"
