#!/bin/bash
# usage: tools/runall.sh [quick|thorough] [seed] [jobs]  — run every claimed check, print rc and wall time
tier=${1:-quick}; seed=${2:-20260930}; jobs=${3:-4}
cd /verif
ids=$(/venv/bin/python -c "import json;print(' '.join(c['property_id'] for c in json.load(open('MANIFEST.json'))['checks']))")
run1() { p=$1; s=$(date +%s); VERIF_SEED=$seed ./check $p --tier $tier > /tmp/runall-$p.log 2>&1; rc=$?; e=$(date +%s); echo "$p rc=$rc $((e-s))s $(grep -c '^VIOLATION' /tmp/runall-$p.log) violations $(grep -c '^KNOWN-FINDING' /tmp/runall-$p.log) known"; }
export -f run1; export tier seed
echo $ids | tr ' ' '\n' | xargs -P $jobs -I{} bash -c 'run1 {}'
