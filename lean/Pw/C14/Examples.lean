import Pw.C14.Tetrad

/-! # C14 — link between the driver's oracle and the theorems; non-vacuity examples -/
namespace C14
set_option linter.unusedSimpArgs false

theorem lookupCfg_table_empty : ∀ c ∈ allCls, ∀ f ∈ [Fmt.numpy, .clearn, .pcalg], lookupCfg (table c f) PB.empty = none := by
  decide

/-- the matrix printed by the driver's `c14spec` (the oracle of the correspondence check) is the
    documented matrix `docMat` of the theorems -/
theorem specEnc_eq_docMat (c : Cls) (f : Fmt) (g : MG) (n a b : Nat) (ha : a < n) (hb : b < n) :
    specEnc c f g a b = docMat c f g n a b := by
  by_cases hab : a = b
  · subst hab; simp [specEnc, docMat]
  · simp only [specEnc, docMat, hab, if_false, ha, hb, ne_eq, not_false_eq_true, and_self, if_true, cellOf, tableZ, lookupCfg]
    rw [List.find?_cons]
    by_cases he : bits g a b = PB.empty
    · have := lookupCfg_table_empty c (mem_allCls c) f (mem_fmts f)
      unfold lookupCfg at this
      simp [he, this]
    · have : (PB.empty == bits g a b) = false := by
        simp only [beq_eq_false_iff_ne, ne_eq]; exact fun e => he e.symm
      simp only [this]
      cases (List.find? (fun e => e.1 == bits g a b) (table c f)) <;> rfl

/-! ## non-vacuity of the hypotheses of the main theorems -/

/-- ADMG with a bow `0 -> 1, 0 <-> 1` and `1 -- 2` -/
def exAdmg : MG := { nodes := [0, 1, 2], dir := [(0, 1)], bi := [(0, 1)], un := [(1, 2)] }
theorem exAdmg_ok : GraphOK exAdmg 3 :=
  ⟨rfl, by intro a; simp [bits, exAdmg, PB.empty]; omega, by intro a b h; simp [bits, exAdmg, PB.empty]; omega⟩
example : InDom .admg .numpy exAdmg 3 ∧ InDom .admg .clearn exAdmg 3 := ⟨inDomain_sound (by decide), inDomain_sound (by decide)⟩
example : TetDom .admg exAdmg 3 := by
  intro a b ha hb hab
  have : a = 0 ∨ a = 1 ∨ a = 2 := by omega
  have : b = 0 ∨ b = 1 ∨ b = 2 := by omega
  rcases ‹a = 0 ∨ a = 1 ∨ a = 2› with rfl | rfl | rfl <;> rcases ‹b = 0 ∨ b = 1 ∨ b = 2› with rfl | rfl | rfl <;> first | (exact absurd rfl hab) | decide
example : (npEnc .admg exAdmg 3).toLists 3 = [[0, 21, 0], [20, 0, 10], [0, 10, 0]] := by decide
example : (tetEnc .admg exAdmg 3).map (fun l => (l.1, tetChars l.2.1, l.2.2)) =
    [(0, ['-', '-', '>'], 1), (0, ['<', '-', '>'], 1), (1, ['-', '-', '-'], 2)] := by decide
example : Denotes .admg .numpy (Mat.ofLists [[0, 21, 0], [20, 0, 10], [0, 10, 0]]) 3
    (specDecBits .admg .numpy (Mat.ofLists [[0, 21, 0], [20, 0, 10], [0, 10, 0]])) := wfMatrix_sound (by decide)

/-! the unrepaired `graph_to_pcalg` PAG branch (ARROW/NULL instead of ARROW/TAIL) left the causal-learn
codes in place: the old remap applied to `a --> b` does not produce the documented code point -/
def pcRemapOld (x y : Int) : Int × Int :=
  if x == clARROW && y == clNULL then (pgARROW, pgNULL)
  else if x == clNULL && y == clARROW then (pgNULL, pgARROW)
  else (x, y)
theorem C14_counterexample_old_pcalg_pag_directed :
    ¬ ((clEncPair cRight).map (fun e => pcRemapOld e.2 e.1) = some (2, 3)) := by decide

end C14
