import Pw.C05.Spec

/-! # C04 specification: the essential graph of a DAG -/
namespace C04
open C05 (Adj VStruct orientations vstructs subsetB adjB')

/-- a plain directed acyclic graph -/
structure IsDag (D : MG) : Prop where
  plain : D.un = [] ∧ D.bi = [] ∧ D.circ = []
  acyclic : D.Acyclic

/-- same nodes, same skeleton, same v-structures -/
structure MarkovEquiv (D D' : MG) : Prop where
  nodes : ∀ v, v ∈ D'.nodes ↔ v ∈ D.nodes
  skel : ∀ a b, Adj D' a b ↔ Adj D a b
  vstructs : ∀ a c b, VStruct D' a c b ↔ VStruct D a c b

/-- every DAG with D's skeleton and v-structures contains `a -> b` -/
def Compelled (D : MG) (a b : Nat) : Prop :=
  ∀ D', IsDag D' → MarkovEquiv D D' → (a, b) ∈ D'.dir

/-- `C` is the essential graph of `D`: D's nodes and skeleton, `a -> b` directed iff compelled,
    undirected otherwise -/
structure Essential (D C : MG) : Prop where
  nodes : ∀ v, v ∈ C.nodes ↔ v ∈ D.nodes
  plain : C.bi = [] ∧ C.circ = []
  skel : ∀ a b, Adj C a b ↔ Adj D a b
  directed : ∀ a b, (a, b) ∈ C.dir ↔ Compelled D a b
  undirected : ∀ a b, ((a, b) ∈ C.un ∨ (b, a) ∈ C.un) ↔ (Adj D a b ∧ ¬ Compelled D a b ∧ ¬ Compelled D b a)

/-- equality of CPDAGs as graphs (edge *sets*) -/
def SameGraph (C C' : MG) : Prop :=
  (∀ v, v ∈ C.nodes ↔ v ∈ C'.nodes) ∧ (∀ e, e ∈ C.dir ↔ e ∈ C'.dir) ∧
  (∀ a b, ((a, b) ∈ C.un ∨ (b, a) ∈ C.un) ↔ ((a, b) ∈ C'.un ∨ (b, a) ∈ C'.un))

/-! ## brute-force deciders -/

def sameVB (D D' : MG) : Bool := subsetB (vstructs D) (vstructs D') && subsetB (vstructs D') (vstructs D)

/-- the Markov equivalence class of D by enumeration: all acyclic orientations of D's skeleton with
    D's v-structures -/
def classOf (D : MG) : List (List (Nat × Nat)) :=
  (orientations D.dir).filter fun o =>
    let D' : MG := { nodes := D.nodes, dir := o }
    !D'.hasCycle && sameVB D D'

/-- the essential graph from the definition -/
def essentialDec (D : MG) : MG :=
  let cls := classOf D
  { nodes := D.nodes,
    dir := D.dir.filter fun e => cls.all (·.contains e),
    un := D.dir.filter fun e => !cls.all (·.contains e) }

/-- same skeleton and same v-structures, decided -/
def meqDec (D D' : MG) : Bool :=
  subsetB D.nodes D'.nodes && subsetB D'.nodes D.nodes &&
  D.dir.all (fun e => adjB' D' e.1 e.2) && D'.dir.all (fun e => adjB' D e.1 e.2) && sameVB D D'

end C04
