import Pw.C09.SameEdges
open Closure

/-! # C09 PAG oracle, part 1: which class `equivClass M0` enumerates

For a well-formed MAG `M0` without undirected edges:
* `member_of_mem_equivClass`: every enumerated graph is a `Member M0 ·` (a well-formed MAG on the nodes
  of `M0`, Markov equivalent to `M0`);
* `exists_mem_equivClass`: every `Member M0 M'` is enumerated, up to the listing of its edge lists
  (`SameEdges M' M''`): in particular the enumeration misses no MAG on the same nodes (and, as a
  consequence of maximality, the same adjacencies) that is Markov equivalent to `M0`. -/
namespace C09
open MG

/-! ## `assignments` -/

theorem assignments_sound : ∀ (prs d b : List (Nat × Nat)), (d, b) ∈ assignments prs →
    (∀ e ∈ d, e ∈ prs ∨ (e.2, e.1) ∈ prs) ∧ (∀ e ∈ b, e ∈ prs) ∧
    (∀ e ∈ prs, e ∈ d ∨ (e.2, e.1) ∈ d ∨ e ∈ b)
  | [], d, b, h => by
    simp only [assignments, List.mem_singleton, Prod.mk.injEq] at h
    obtain ⟨rfl, rfl⟩ := h
    simp
  | (x, y) :: t, d, b, h => by
    simp only [assignments, List.mem_flatMap, List.mem_cons, List.not_mem_nil, or_false,
      Prod.mk.injEq, Prod.exists] at h
    obtain ⟨d0, b0, h0, hc⟩ := h
    obtain ⟨i1, i2, i3⟩ := assignments_sound t d0 b0 h0
    rcases hc with ⟨rfl, rfl⟩ | ⟨rfl, rfl⟩ | ⟨rfl, rfl⟩
    · refine ⟨?_, ?_, ?_⟩
      · intro e he
        rcases List.mem_cons.mp he with rfl | he
        · exact Or.inl List.mem_cons_self
        · rcases i1 e he with h | h
          · exact Or.inl (List.mem_cons_of_mem _ h)
          · exact Or.inr (List.mem_cons_of_mem _ h)
      · intro e he; exact List.mem_cons_of_mem _ (i2 e he)
      · intro e he
        rcases List.mem_cons.mp he with rfl | he
        · exact Or.inl List.mem_cons_self
        · rcases i3 e he with h | h | h
          · exact Or.inl (List.mem_cons_of_mem _ h)
          · exact Or.inr (Or.inl (List.mem_cons_of_mem _ h))
          · exact Or.inr (Or.inr h)
    · refine ⟨?_, ?_, ?_⟩
      · intro e he
        rcases List.mem_cons.mp he with rfl | he
        · exact Or.inr List.mem_cons_self
        · rcases i1 e he with h | h
          · exact Or.inl (List.mem_cons_of_mem _ h)
          · exact Or.inr (List.mem_cons_of_mem _ h)
      · intro e he; exact List.mem_cons_of_mem _ (i2 e he)
      · intro e he
        rcases List.mem_cons.mp he with rfl | he
        · exact Or.inr (Or.inl List.mem_cons_self)
        · rcases i3 e he with h | h | h
          · exact Or.inl (List.mem_cons_of_mem _ h)
          · exact Or.inr (Or.inl (List.mem_cons_of_mem _ h))
          · exact Or.inr (Or.inr h)
    · refine ⟨?_, ?_, ?_⟩
      · intro e he
        rcases i1 e he with h | h
        · exact Or.inl (List.mem_cons_of_mem _ h)
        · exact Or.inr (List.mem_cons_of_mem _ h)
      · intro e he
        rcases List.mem_cons.mp he with rfl | he
        · exact List.mem_cons_self
        · exact List.mem_cons_of_mem _ (i2 e he)
      · intro e he
        rcases List.mem_cons.mp he with rfl | he
        · exact Or.inr (Or.inr List.mem_cons_self)
        · rcases i3 e he with h | h | h
          · exact Or.inl h
          · exact Or.inr (Or.inl h)
          · exact Or.inr (Or.inr (List.mem_cons_of_mem _ h))

/-- the assignment that follows a choice function: `0` keep `(a, b)` as `a -> b`, `1` as `b -> a`,
    anything else as `a <-> b` -/
def assignOf (c : Nat × Nat → Nat) : List (Nat × Nat) → List (Nat × Nat) × List (Nat × Nat)
  | [] => ([], [])
  | (a, b) :: t =>
    if c (a, b) = 0 then ((a, b) :: (assignOf c t).1, (assignOf c t).2)
    else if c (a, b) = 1 then ((b, a) :: (assignOf c t).1, (assignOf c t).2)
    else ((assignOf c t).1, (a, b) :: (assignOf c t).2)

theorem assignOf_cons (c : Nat × Nat → Nat) (a b : Nat) (t : List (Nat × Nat)) :
    assignOf c ((a, b) :: t) =
      if c (a, b) = 0 then ((a, b) :: (assignOf c t).1, (assignOf c t).2)
      else if c (a, b) = 1 then ((b, a) :: (assignOf c t).1, (assignOf c t).2)
      else ((assignOf c t).1, (a, b) :: (assignOf c t).2) := rfl

theorem assignOf_mem (c : Nat × Nat → Nat) : ∀ prs, assignOf c prs ∈ assignments prs
  | [] => by simp [assignOf, assignments]
  | (a, b) :: t => by
    simp only [assignments, List.mem_flatMap, List.mem_cons, List.not_mem_nil, or_false, Prod.exists]
    refine ⟨(assignOf c t).1, (assignOf c t).2, assignOf_mem c t, ?_⟩
    rw [assignOf_cons]
    by_cases h0 : c (a, b) = 0
    · rw [if_pos h0]; exact Or.inl rfl
    · rw [if_neg h0]
      by_cases h1 : c (a, b) = 1
      · rw [if_pos h1]; exact Or.inr (Or.inl rfl)
      · rw [if_neg h1]; exact Or.inr (Or.inr rfl)

theorem mem_assignOf_dir (c : Nat × Nat → Nat) (x y : Nat) : ∀ prs,
    (x, y) ∈ (assignOf c prs).1 ↔ ((x, y) ∈ prs ∧ c (x, y) = 0) ∨ ((y, x) ∈ prs ∧ c (y, x) = 1)
  | [] => by simp [assignOf]
  | (a, b) :: t => by
    have ih := mem_assignOf_dir c x y t
    rw [assignOf_cons]
    by_cases h0 : c (a, b) = 0
    · rw [if_pos h0]
      simp only [List.mem_cons, ih, Prod.mk.injEq]
      constructor
      · rintro (⟨rfl, rfl⟩ | h | h)
        · exact Or.inl ⟨Or.inl ⟨rfl, rfl⟩, h0⟩
        · exact Or.inl ⟨Or.inr h.1, h.2⟩
        · exact Or.inr ⟨Or.inr h.1, h.2⟩
      · rintro (⟨⟨rfl, rfl⟩ | h, hc⟩ | ⟨⟨rfl, rfl⟩ | h, hc⟩)
        · exact Or.inl ⟨rfl, rfl⟩
        · exact Or.inr (Or.inl ⟨h, hc⟩)
        · rw [h0] at hc; cases hc
        · exact Or.inr (Or.inr ⟨h, hc⟩)
    · rw [if_neg h0]
      by_cases h1 : c (a, b) = 1
      · rw [if_pos h1]
        simp only [List.mem_cons, ih, Prod.mk.injEq]
        constructor
        · rintro (⟨rfl, rfl⟩ | h | h)
          · exact Or.inr ⟨Or.inl ⟨rfl, rfl⟩, h1⟩
          · exact Or.inl ⟨Or.inr h.1, h.2⟩
          · exact Or.inr ⟨Or.inr h.1, h.2⟩
        · rintro (⟨⟨rfl, rfl⟩ | h, hc⟩ | ⟨⟨rfl, rfl⟩ | h, hc⟩)
          · exact absurd hc h0
          · exact Or.inr (Or.inl ⟨h, hc⟩)
          · exact Or.inl ⟨rfl, rfl⟩
          · exact Or.inr (Or.inr ⟨h, hc⟩)
      · rw [if_neg h1]
        simp only [List.mem_cons, ih, Prod.mk.injEq]
        constructor
        · rintro (h | h)
          · exact Or.inl ⟨Or.inr h.1, h.2⟩
          · exact Or.inr ⟨Or.inr h.1, h.2⟩
        · rintro (⟨⟨rfl, rfl⟩ | h, hc⟩ | ⟨⟨rfl, rfl⟩ | h, hc⟩)
          · exact absurd hc h0
          · exact Or.inl ⟨h, hc⟩
          · exact absurd hc h1
          · exact Or.inr ⟨h, hc⟩

theorem mem_assignOf_bi (c : Nat × Nat → Nat) (x y : Nat) : ∀ prs,
    (x, y) ∈ (assignOf c prs).2 ↔ ((x, y) ∈ prs ∧ c (x, y) ≠ 0 ∧ c (x, y) ≠ 1)
  | [] => by simp [assignOf]
  | (a, b) :: t => by
    have ih := mem_assignOf_bi c x y t
    rw [assignOf_cons]
    by_cases h0 : c (a, b) = 0
    · rw [if_pos h0]
      simp only [List.mem_cons, ih, Prod.mk.injEq]
      constructor
      · rintro h; exact ⟨Or.inr h.1, h.2⟩
      · rintro ⟨⟨rfl, rfl⟩ | h, hc⟩
        · exact absurd h0 hc.1
        · exact ⟨h, hc⟩
    · rw [if_neg h0]
      by_cases h1 : c (a, b) = 1
      · rw [if_pos h1]
        simp only [List.mem_cons, ih, Prod.mk.injEq]
        constructor
        · rintro h; exact ⟨Or.inr h.1, h.2⟩
        · rintro ⟨⟨rfl, rfl⟩ | h, hc⟩
          · exact absurd h1 hc.2
          · exact ⟨h, hc⟩
      · rw [if_neg h1]
        simp only [List.mem_cons, ih, Prod.mk.injEq]
        constructor
        · rintro (⟨rfl, rfl⟩ | h)
          · exact ⟨Or.inl ⟨rfl, rfl⟩, h0, h1⟩
          · exact ⟨Or.inr h.1, h.2⟩
        · rintro ⟨⟨rfl, rfl⟩ | h, hc⟩
          · exact Or.inl ⟨rfl, rfl⟩
          · exact Or.inr ⟨h, hc⟩

/-! ## adjacency in graphs with directed and bidirected edges only -/

theorem adj_db {G : MG} (hu : G.un = []) (hc : G.circ = []) {a b : Nat} :
    markAt G a b ≠ none ↔ ((a, b) ∈ G.dir ∨ (b, a) ∈ G.dir ∨ (a, b) ∈ G.bi ∨ (b, a) ∈ G.bi) := by
  rw [Ne, markAt_none_iff, hu, hc]
  simp only [List.not_mem_nil, not_false_eq_true, true_and, and_true]
  constructor
  · intro h
    apply Classical.byContradiction
    intro hn
    simp only [not_or] at hn
    exact h ⟨hn.1, hn.2.2.1, hn.2.2.2, hn.2.1⟩
  · rintro h ⟨h1, h2, h3, h4⟩
    rcases h with h | h | h | h <;> contradiction

theorem hasEdge_of_adj {G : MG} (hu : G.un = []) (hc : G.circ = []) {a b : Nat}
    (h : markAt G a b ≠ none) : ∃ ma mb, HasEdge G a b ma mb := by
  rcases (adj_db hu hc).mp h with h | h | h | h
  · exact ⟨.tail, .head, Or.inl ⟨rfl, rfl, h⟩⟩
  · exact ⟨.head, .tail, Or.inr (Or.inl ⟨rfl, rfl, h⟩)⟩
  · exact ⟨.head, .head, Or.inr (Or.inr (Or.inl ⟨rfl, rfl, Or.inl h⟩))⟩
  · exact ⟨.head, .head, Or.inr (Or.inr (Or.inl ⟨rfl, rfl, Or.inr h⟩))⟩

theorem markAt_ne_none_symm {G : MG} {a b : Nat} (h : markAt G a b ≠ none) : markAt G b a ≠ none :=
  fun hn => h (markAt_none_symm hn)

theorem connects_of_hasEdge {G : MG} {Z : List Nat} {x y : Nat} {ma mb : Mark} (hxy : x ≠ y)
    (h : HasEdge G x y ma mb) : MConnPath G Z x y :=
  ⟨[⟨ma, mb, y⟩], ⟨h, trivial⟩, rfl, by simp [nodesOf, hxy], by simp [OpenS]⟩

theorem IsMAG.noSelfLoop {G : MG} (h : IsMAG G) : NoSelfLoop G :=
  noSelfLoop_of_ancestral h.ancestral h.noUn

theorem ne_of_adj {G : MG} (hm : IsMAG G) {a b : Nat} (h : markAt G a b ≠ none) : a ≠ b := by
  obtain ⟨ma, mb, he⟩ := hasEdge_of_adj hm.noUn hm.noCirc h
  rintro rfl
  exact hm.noSelfLoop _ _ _ he

theorem mem_nodes_of_adj {G : MG} (hwf : G.WF) (hm : IsMAG G) {a b : Nat} (h : markAt G a b ≠ none) :
    a ∈ G.nodes ∧ b ∈ G.nodes := by
  obtain ⟨ma, mb, he⟩ := hasEdge_of_adj hm.noUn hm.noCirc h
  exact ⟨he.symm.mem_nodes hwf, he.mem_nodes hwf⟩

/-- adjacent nodes are m-separated by no set -/
theorem not_mSep_of_adj {G : MG} (hm : IsMAG G) {x y : Nat} (h : markAt G x y ≠ none) (Z : List Nat) :
    ¬ MSep G [x] [y] Z := by
  obtain ⟨ma, mb, he⟩ := hasEdge_of_adj hm.noUn hm.noCirc h
  intro hs
  exact hs x List.mem_cons_self y List.mem_cons_self (connects_of_hasEdge (ne_of_adj hm h) he)

theorem MarkovEquiv.symm_of_nodes {A B : MG} (hn : B.nodes = A.nodes) (h : MarkovEquiv A B) :
    MarkovEquiv B A := by
  intro x y Z hx hy hxy hZ
  rw [hn] at hx hy
  exact (h x y Z hx hy hxy (fun z hz => by have := hZ z hz; rw [hn] at this; exact this)).symm

theorem MarkovEquiv.refl (A : MG) : MarkovEquiv A A := fun _ _ _ _ _ _ _ => Iff.rfl

/-- Markov equivalent MAGs on the same nodes have the same adjacencies (maximality) -/
theorem adj_transfer {A B : MG} (hA : A.WF) (mA : IsMAG A) (mB : IsMAG B) (hn : B.nodes = A.nodes)
    (he : MarkovEquiv A B) {x y : Nat} (h : markAt A x y ≠ none) : markAt B x y ≠ none := by
  intro hnone
  obtain ⟨hx, hy⟩ := mem_nodes_of_adj hA mA h
  have hxy := ne_of_adj mA h
  obtain ⟨Z, hZ, hs⟩ := mB.maximal x y (hn ▸ hx) (hn ▸ hy) hxy hnone
  have hZ' : ∀ z ∈ Z, z ∈ A.nodes ∧ z ≠ x ∧ z ≠ y := fun z hz => by
    have := hZ z hz; rw [hn] at this; exact this
  exact not_mSep_of_adj mA h Z ((he x y Z hx hy hxy hZ').mpr hs)

theorem Member.adj_iff {M0 M' : MG} (hwf : M0.WF) (hm : IsMAG M0) (h : Member M0 M') (x y : Nat) :
    markAt M' x y ≠ none ↔ markAt M0 x y ≠ none :=
  ⟨adj_transfer h.wf h.mag hm h.nodes.symm (h.equiv.symm_of_nodes h.nodes),
   adj_transfer hwf hm h.mag h.nodes h.equiv⟩

/-! ## the skeleton pairs -/

theorem mem_skelPairs {M : MG} {a b : Nat} :
    (a, b) ∈ skelPairs M ↔ (a, b) ∈ C08.combos M.nodes ∧ markAt M a b ≠ none := by
  unfold skelPairs
  rw [List.mem_filter]
  show _ ∧ adjB M a b = true ↔ _
  rw [adjB_iff, Option.isSome_iff_ne_none]

theorem skel_iff {M : MG} (hwf : M.WF) (hm : IsMAG M) (a b : Nat) :
    markAt M a b ≠ none ↔ ((a, b) ∈ skelPairs M ∨ (b, a) ∈ skelPairs M) := by
  constructor
  · intro h
    obtain ⟨ha, hb⟩ := mem_nodes_of_adj hwf hm h
    rcases C08.combos_complete ha hb (ne_of_adj hm h) with hc | hc
    · exact Or.inl (mem_skelPairs.mpr ⟨hc, h⟩)
    · exact Or.inr (mem_skelPairs.mpr ⟨hc, markAt_ne_none_symm h⟩)
  · rintro (h | h)
    · exact (mem_skelPairs.mp h).2
    · exact markAt_ne_none_symm (mem_skelPairs.mp h).2

/-! ## candidates -/

theorem cand_wf {M0 : MG} {d b : List (Nat × Nat)} (hs : (d, b) ∈ assignments (skelPairs M0)) :
    (cand M0 d b).WF := by
  obtain ⟨i1, i2, _⟩ := assignments_sound _ d b hs
  refine ⟨?_, ?_, ?_⟩
  · rintro ⟨x, y⟩ he
    rcases i1 _ he with h | h
    · exact mem_of_mem_combos (mem_skelPairs.mp h).1
    · exact (mem_of_mem_combos (mem_skelPairs.mp h).1).symm
  · rintro ⟨x, y⟩ he
    exact mem_of_mem_combos (mem_skelPairs.mp (i2 _ he)).1
  · intro e he; cases he

theorem cand_adj {M0 : MG} (hwf : M0.WF) (hm : IsMAG M0) {d b : List (Nat × Nat)}
    (hs : (d, b) ∈ assignments (skelPairs M0)) (x y : Nat) :
    markAt (cand M0 d b) x y ≠ none ↔ markAt M0 x y ≠ none := by
  obtain ⟨i1, i2, i3⟩ := assignments_sound _ d b hs
  rw [adj_db (G := cand M0 d b) rfl rfl, skel_iff hwf hm]
  show ((x, y) ∈ d ∨ (y, x) ∈ d ∨ (x, y) ∈ b ∨ (y, x) ∈ b) ↔ _
  constructor
  · rintro (h | h | h | h)
    · exact i1 _ h
    · exact (i1 _ h).symm
    · exact Or.inl (i2 _ h)
    · exact Or.inr (i2 _ h)
  · rintro (h | h)
    · rcases i3 _ h with h | h | h
      · exact Or.inl h
      · exact Or.inr (Or.inl h)
      · exact Or.inr (Or.inr (Or.inl h))
    · rcases i3 _ h with h | h | h
      · exact Or.inr (Or.inl h)
      · exact Or.inl h
      · exact Or.inr (Or.inr (Or.inr h))

/-! ## membership in the enumeration -/

theorem all_zip_map {α β : Type} (f : α → β) (p : α → β → Bool) : ∀ l : List α,
    ((l.zip (l.map f)).all fun (q, r) => p q r) = l.all fun q => p q (f q)
  | [] => rfl
  | a :: t => by simp [all_zip_map f p t]

theorem mem_equivClass {M0 M'' : MG} :
    M'' ∈ equivClass M0 ↔ ∃ d b, (d, b) ∈ assignments (skelPairs M0) ∧ M'' = cand M0 d b ∧
      ancestralB M'' = true ∧ sameSepB M0 M'' = true := by
  unfold equivClass
  simp only [List.mem_filter, List.mem_map, Prod.exists, Bool.and_eq_true]
  rw [all_zip_map (sepOf M0) (fun q r => sepOf M'' q == r)]
  have hc : ((queries M0.nodes).all fun q => sepOf M'' q == sepOf M0 q) = sameSepB M0 M'' := by
    unfold sameSepB
    congr 1; funext q; exact Bool.beq_comm
  rw [hc]
  constructor
  · rintro ⟨⟨d, b, hs, rfl⟩, h1, h2⟩; exact ⟨d, b, hs, rfl, h1, h2⟩
  · rintro ⟨d, b, hs, rfl, h1, h2⟩; exact ⟨⟨d, b, hs, rfl⟩, h1, h2⟩

/-- **soundness of the enumeration**: every enumerated graph is a member of the class -/
theorem member_of_mem_equivClass {M0 M'' : MG} (hwf : M0.WF) (hm : IsMAG M0)
    (h : M'' ∈ equivClass M0) : Member M0 M'' := by
  obtain ⟨d, b, hs, rfl, ha, hq⟩ := mem_equivClass.mp h
  have hwf' := cand_wf hs
  have hanc := (ancestralB_iff hwf').mp ha
  have hsl := noSelfLoop_of_ancestral hanc (M := cand M0 d b) rfl
  have heq : MarkovEquiv M0 (cand M0 d b) :=
    (sameSepB_iff hwf hm.noUn hm.noSelfLoop hwf' rfl hsl (fun _ => Iff.rfl)).mp hq
  refine ⟨rfl, hwf', ⟨rfl, rfl, hanc, ?_⟩, heq⟩
  intro x y hx hy hxy hnone
  have h0 : markAt M0 x y = none := by
    apply Classical.byContradiction
    intro hn
    exact (cand_adj hwf hm hs x y).mpr hn hnone
  obtain ⟨Z, hZ, hsep⟩ := hm.maximal x y hx hy hxy h0
  exact ⟨Z, hZ, (heq x y Z hx hy hxy hZ).mp hsep⟩

/-- **completeness of the enumeration**: every member of the class is enumerated (with its edges
    listed in the oracle's canonical way) -/
theorem exists_mem_equivClass {M0 M' : MG} (hwf : M0.WF) (hm : IsMAG M0) (h : Member M0 M') :
    ∃ M'' ∈ equivClass M0, SameEdges M' M'' := by
  let c : Nat × Nat → Nat := fun e =>
    if e ∈ M'.dir then 0 else if (e.2, e.1) ∈ M'.dir then 1 else 2
  let prs := skelPairs M0
  have hs := assignOf_mem c prs
  have hadj := h.adj_iff hwf hm
  -- the edges of M' lie on skeleton pairs
  have hskel : ∀ x y, markAt M' x y ≠ none → (x, y) ∈ prs ∨ (y, x) ∈ prs := fun x y hxy =>
    (skel_iff hwf hm x y).mp ((hadj x y).mp hxy)
  have hdb := fun x y => adj_db (G := M') h.mag.noUn h.mag.noCirc (a := x) (b := y)
  have hse : SameEdges M' (cand M0 (assignOf c prs).1 (assignOf c prs).2) := by
    refine ⟨?_, ?_, ?_, ?_⟩
    · intro x y
      show _ ↔ (x, y) ∈ (assignOf c prs).1
      rw [mem_assignOf_dir]
      constructor
      · intro hd
        have hyx : (y, x) ∉ M'.dir := fun hyx =>
          h.mag.ancestral.1 x y hd (Anc.step hyx (Anc.refl x))
        rcases hskel x y ((hdb x y).mpr (Or.inl hd)) with hp | hp
        · exact Or.inl ⟨hp, by simp [c, hd]⟩
        · exact Or.inr ⟨hp, by simp [c, hd, hyx]⟩
      · rintro (⟨_, hc⟩ | ⟨_, hc⟩)
        · by_cases hd : (x, y) ∈ M'.dir
          · exact hd
          · simp only [c, hd, if_false] at hc
            split at hc <;> cases hc
        · by_cases hd : (y, x) ∈ M'.dir
          · simp [c, hd] at hc
          · simp only [c, hd, if_false] at hc
            by_cases hd2 : (x, y) ∈ M'.dir
            · exact hd2
            · simp [hd2] at hc
    · intro x y
      show _ ↔ ((x, y) ∈ (assignOf c prs).2 ∨ (y, x) ∈ (assignOf c prs).2)
      rw [mem_assignOf_bi, mem_assignOf_bi]
      have hnd : ((x, y) ∈ M'.bi ∨ (y, x) ∈ M'.bi) → (x, y) ∉ M'.dir ∧ (y, x) ∉ M'.dir := by
        intro hb
        exact ⟨fun hd => h.mag.ancestral.2 x y hb (Anc.step hd (Anc.refl y)),
          fun hd => h.mag.ancestral.2 y x hb.symm (Anc.step hd (Anc.refl x))⟩
      constructor
      · intro hb
        obtain ⟨n1, n2⟩ := hnd hb
        have hxy : markAt M' x y ≠ none := (hdb x y).mpr (Or.inr (Or.inr hb))
        rcases hskel x y hxy with hp | hp
        · exact Or.inl ⟨hp, by simp [c, n1, n2], by simp [c, n1, n2]⟩
        · exact Or.inr ⟨hp, by simp [c, n1, n2], by simp [c, n1, n2]⟩
      · have aux : ∀ u v, (u, v) ∈ prs → c (u, v) ≠ 0 → c (u, v) ≠ 1 →
            ((u, v) ∈ M'.bi ∨ (v, u) ∈ M'.bi) := by
          intro u v hp c0 c1
          have n1 : (u, v) ∉ M'.dir := fun hd => c0 (by simp [c, hd])
          have n2 : (v, u) ∉ M'.dir := fun hd => c1 (by simp [c, hd, n1])
          have : markAt M' u v ≠ none := (hadj u v).mpr ((skel_iff hwf hm u v).mpr (Or.inl hp))
          rcases (hdb u v).mp this with h | h | h | h
          · exact absurd h n1
          · exact absurd h n2
          · exact Or.inl h
          · exact Or.inr h
        rintro (⟨hp, c0, c1⟩ | ⟨hp, c0, c1⟩)
        · exact aux x y hp c0 c1
        · exact (aux y x hp c0 c1).symm
    · intro x y
      show _ ↔ ((x, y) ∈ ([] : List (Nat × Nat)) ∨ (y, x) ∈ ([] : List (Nat × Nat)))
      rw [h.mag.noUn]
    · intro x y
      show _ ↔ (x, y) ∈ ([] : List (Nat × Nat))
      rw [h.mag.noCirc]
  refine ⟨_, mem_equivClass.mpr ⟨_, _, hs, rfl, ?_, ?_⟩, hse⟩
  · exact (ancestralB_iff (cand_wf hs)).mpr ((hse.ancestral).mp h.mag.ancestral)
  · have hanc := (hse.ancestral).mp h.mag.ancestral
    exact (sameSepB_iff hwf hm.noUn hm.noSelfLoop (cand_wf hs) rfl
      (noSelfLoop_of_ancestral hanc rfl) (fun _ => Iff.rfl)).mpr ((hse.markovEquiv M0).mp h.equiv)

end C09
