import Pw.T5b.ToD
open Closure MG

/-! # T5b (Richardson–Spirtes 2002, Thm 4.18, for ADMGs without undirected edges): statements -/
namespace T5b
open C06

variable {D M : MG} {L S : List Nat}

/-- **T5b.1** the MAG of an acyclic `D` is a well-formed ancestral graph without self loops, so the
    C01 / T2 theorems apply to it. -/
theorem mag_ancestral (hs : MagStructure D L S M) (hacy : Acyclic D) :
    NoUndirAtHead M ∧ NoSelfLoop M ∧ M.WF :=
  ⟨mag_noUndirAtHead hs hacy, mag_noSelfLoop hs, mag_wf hs⟩

/-- **T5b.2** (Thm 4.18, "⇐" half): d/m-separation in `D` given `Z ∪ S` implies m-separation in the
    MAG `M` given `Z`, for observed x, y and Z a list of observed nodes other than x, y. -/
theorem msep_mag_of_dsep (su : Setup D L S M) {x y : Nat} {Z : List Nat}
    (hx : x ∈ M.nodes) (hy : y ∈ M.nodes) (hZ : ∀ z ∈ Z, z ∈ M.nodes ∧ z ≠ x ∧ z ≠ y)
    (h : MSep D [x] [y] (Z ++ S)) : MSep M [x] [y] Z :=
  Classical.byContradiction fun hn => not_msep_D_of_not_msep_M su hx hy hZ hn h

end T5b
