import Pw.C06.Dec
import Pw.C06.Proofs
open Closure

/-! # C06: the brute-force oracles are correct

* `validNodePath_iff`: the validator used on the implementation's returned path decides
  `NodePathInducing` (the specification, existentially over the choice of one edge per hop).
* `inducingDec_iff`: the brute-force decider over all simple paths × all edge choices decides
  `HasInducingPath`. -/
namespace C06
open MG

variable {G : MG} {L S : List Nat} {x y : Nat}

theorem hasEdgeB_iff {a b : Nat} {ma mb : Mark} : hasEdgeB G a b ma mb = true ↔ HasEdge G a b ma mb := by
  cases ma <;> cases mb <;> simp [hasEdgeB, HasEdge]

theorem mem_allMarks (m : Mark × Mark) : m ∈ allMarks := by
  obtain ⟨a, b⟩ := m
  cases a <;> cases b <;> simp [allMarks]

/-- `hopLists` enumerates exactly the ways of walking a node list -/
theorem mem_hopLists : ∀ (rest : List Nat) (a : Nat) (hs : List Hop),
    hs ∈ hopLists G a rest ↔ (ValidW G a hs ∧ hs.map (·.nx) = rest)
  | [], a, hs => by
    simp only [hopLists, List.mem_singleton]
    constructor
    · rintro rfl; exact ⟨trivial, rfl⟩
    · rintro ⟨_, h⟩; exact List.map_eq_nil_iff.mp h
  | b :: rest, a, hs => by
    simp only [hopLists, List.mem_flatMap, List.mem_filter, List.mem_map]
    constructor
    · rintro ⟨m, ⟨_, hm⟩, t, ht, rfl⟩
      obtain ⟨hv, hn⟩ := (mem_hopLists rest b t).mp ht
      exact ⟨⟨hasEdgeB_iff.mp hm, hv⟩, by simp [hn]⟩
    · rintro ⟨hv, hn⟩
      cases hs with
      | nil => simp at hn
      | cons h t =>
        simp only [List.map_cons, List.cons.injEq] at hn
        obtain ⟨hb, hn⟩ := hn
        obtain ⟨he, hv'⟩ := hv
        refine ⟨(h.mp, h.mn), ⟨mem_allMarks _, ?_⟩, t, ?_, ?_⟩
        · rw [← hb]; exact hasEdgeB_iff.mpr he
        · rw [← hb]; exact (mem_hopLists rest h.nx t).mpr ⟨hv', hn⟩
        · rw [← hb]

theorem isColliderB_iff {a b : Mark} : isColliderB a b = true ↔ IsCollider a b := by
  cases a <;> cases b <;> simp [isColliderB, IsCollider]

theorem condIB_iff (hwf : G.WF) (hZ : ∀ z ∈ x :: y :: S, z ∈ G.nodes) {mi mo : Mark} {v : Nat} :
    condIB L (G.anc (x :: y :: S)) mi mo v = true ↔ condI G L S x y mi mo v := by
  have hanc : v ∈ G.anc (x :: y :: S) ↔ AncOf G x y S v := mem_anc hwf hZ
  unfold condIB condI
  simp only [Bool.and_eq_true, Bool.or_eq_true, decide_eq_true_eq, isColliderB_iff,
    Bool.not_eq_true', hanc]
  constructor
  · rintro ⟨h1, h2⟩
    refine ⟨h1, fun hc => ?_⟩
    rcases h2 with h2 | h2
    · rw [← Bool.not_eq_true, isColliderB_iff] at h2; exact absurd hc h2
    · exact h2
  · rintro ⟨h1, h2⟩
    refine ⟨h1, ?_⟩
    by_cases hc : IsCollider mi mo
    · exact Or.inr (h2 hc)
    · left; rw [← Bool.not_eq_true, isColliderB_iff]; exact hc

theorem innerOKB_iff (hwf : G.WF) (hZ : ∀ z ∈ x :: y :: S, z ∈ G.nodes) :
    ∀ (hs : List Hop) (e : Option Mark) (a : Nat),
      innerOKB L (G.anc (x :: y :: S)) e a hs = true ↔ InnerOK G L S x y e a hs
  | [], e, a => by cases e <;> simp [innerOKB, InnerOK]
  | h :: t, none, a => by
    simp only [innerOKB, InnerOK]; exact innerOKB_iff hwf hZ t _ _
  | h :: t, some m, a => by
    simp only [innerOKB, InnerOK, Bool.and_eq_true, condIB_iff hwf hZ, innerOKB_iff hwf hZ t _ _]

theorem getLast_nodesOf : ∀ (hs : List Hop) (a : Nat), (nodesOf a hs).getLast? = some (endNode a hs)
  | [], a => by simp [nodesOf, endNode]
  | h :: t, a => by
    have := getLast_nodesOf t h.nx
    simp only [nodesOf, List.map_cons, endNode] at this ⊢
    rw [List.getLast?_cons_cons]; exact this

/-- **the path validator decides the specification** -/
theorem validNodePath_iff (hwf : G.WF) (hZ : ∀ z ∈ x :: y :: S, z ∈ G.nodes) (p : List Nat) :
    validNodePath G L S x y p = true ↔ NodePathInducing G L S x y p := by
  unfold NodePathInducing InducingPath
  cases p with
  | nil =>
    simp only [validNodePath]
    constructor
    · intro h; cases h
    · rintro ⟨hs, _, h⟩; simp [nodesOf] at h
  | cons a rest =>
    simp only [validNodePath, Bool.and_eq_true, beq_iff_eq, decide_eq_true_eq, List.any_eq_true]
    constructor
    · rintro ⟨⟨⟨rfl, hlast⟩, hnd⟩, hs, hmem, hok⟩
      obtain ⟨hv, hn⟩ := (mem_hopLists rest a hs).mp hmem
      have hp : nodesOf a hs = a :: rest := by simp [nodesOf, hn]
      refine ⟨hs, ⟨hv, ?_, by rw [hp]; exact hnd, (innerOKB_iff hwf hZ hs none a).mp hok⟩, hp⟩
      have := getLast_nodesOf hs a
      rw [hp, hlast] at this
      exact (Option.some.inj this).symm
    · rintro ⟨hs, ⟨hv, hend, hnd, hok⟩, hp⟩
      have ha : x = a := by simp [nodesOf] at hp; exact hp.1
      subst ha
      have hn : hs.map (·.nx) = rest := by simp [nodesOf] at hp; exact hp
      refine ⟨⟨⟨rfl, ?_⟩, by rw [← hp]; exact hnd⟩, hs, (mem_hopLists rest x hs).mpr ⟨hv, hn⟩,
        (innerOKB_iff hwf hZ hs none x).mpr hok⟩
      rw [← hp, getLast_nodesOf, hend]

end C06

namespace C06
open MG

variable {G : MG} {L S : List Nat} {x y : Nat}

/-- consecutive nodes are neighbours, the list ends in `y` and `y` occurs only there -/
def ChainTo (G : MG) (y : Nat) : Nat → List Nat → Prop
  | cur, [] => cur = y
  | cur, nx :: rest => cur ≠ y ∧ nx ∈ nbrs G cur ∧ ChainTo G y nx rest

theorem simplePaths_sound (y : Nat) : ∀ (fuel : Nat) (visited : List Nat) (cur : Nat) (p : List Nat),
    p ∈ simplePaths G y fuel visited cur →
      ChainTo G y cur p ∧ (cur :: p).Nodup ∧ ∀ v ∈ p, v ∉ cur :: visited := by
  intro fuel
  induction fuel with
  | zero => intro visited cur p h; simp [simplePaths] at h
  | succ fuel ih =>
    intro visited cur p h
    simp only [simplePaths] at h
    by_cases hy : cur = y
    · simp only [hy, if_true, List.mem_singleton] at h
      subst h; exact ⟨hy, by simp, by simp⟩
    · simp only [hy, if_false, List.mem_flatMap] at h
      obtain ⟨nx, hnx, hp⟩ := h
      by_cases hv : nx ∈ cur :: visited
      · simp [hv] at hp
      · simp only [hv, if_false, List.mem_map] at hp
        obtain ⟨q, hq, rfl⟩ := hp
        obtain ⟨hc, hnd, hav⟩ := ih (cur :: visited) nx q hq
        refine ⟨⟨hy, List.mem_eraseDups.mp hnx, hc⟩, ?_, ?_⟩
        · rw [List.nodup_cons]
          refine ⟨?_, hnd⟩
          intro hcm
          rcases List.mem_cons.mp hcm with rfl | hcm
          · exact hv List.mem_cons_self
          · exact hav cur hcm (List.mem_cons_of_mem _ List.mem_cons_self)
        · intro v hvm
          rcases List.mem_cons.mp hvm with rfl | hvm
          · exact hv
          · intro hcm; exact hav v hvm (List.mem_cons_of_mem _ hcm)

theorem simplePaths_complete (y : Nat) : ∀ (fuel : Nat) (visited : List Nat) (cur : Nat) (p : List Nat),
    ChainTo G y cur p → (cur :: p).Nodup → (∀ v ∈ p, v ∉ cur :: visited) → p.length < fuel →
      p ∈ simplePaths G y fuel visited cur := by
  intro fuel
  induction fuel with
  | zero => intro visited cur p _ _ _ h; omega
  | succ fuel ih =>
    intro visited cur p hc hnd hav hlen
    simp only [simplePaths]
    cases p with
    | nil =>
      have : cur = y := hc
      simp [this]
    | cons nx rest =>
      obtain ⟨hy, hadj, hc'⟩ := hc
      simp only [hy, if_false, List.mem_flatMap]
      refine ⟨nx, List.mem_eraseDups.mpr hadj, ?_⟩
      have hv : nx ∉ cur :: visited := hav nx List.mem_cons_self
      simp only [hv, if_false, List.mem_map]
      refine ⟨rest, ?_, rfl⟩
      apply ih (cur :: visited) nx rest hc' (List.nodup_cons.mp hnd).2
      · intro v hvm hcm
        rcases List.mem_cons.mp hcm with rfl | hcm
        · exact (List.nodup_cons.mp (List.nodup_cons.mp hnd).2).1 hvm
        · exact hav v (List.mem_cons_of_mem _ hvm) hcm
      · simp only [List.length_cons] at hlen; omega

theorem chain_getLast (y : Nat) : ∀ (p : List Nat) (cur : Nat), ChainTo G y cur p →
    (cur :: p).getLast? = some y
  | [], cur, h => by simp [show cur = y from h]
  | nx :: rest, cur, h => by
    rw [List.getLast?_cons_cons]; exact chain_getLast y rest nx h.2.2

theorem chain_of_valid (y : Nat) : ∀ (hs : List Hop) (a : Nat), ValidW G a hs → endNode a hs = y →
    (nodesOf a hs).Nodup → ChainTo G y a (hs.map (·.nx))
  | [], a, _, hend, _ => by simpa [ChainTo, endNode] using hend
  | h :: t, a, hv, hend, hnd => by
    have hnd' : a ∉ nodesOf h.nx t ∧ (nodesOf h.nx t).Nodup := by simpa [nodesOf] using hnd
    have hy_mem : y ∈ nodesOf h.nx t := by
      rw [← hend]; simp only [endNode]; exact endNode_mem h.nx t
    refine ⟨fun h' => hnd'.1 (h' ▸ hy_mem), mem_nbrs_of_hasEdge hv.1, ?_⟩
    exact chain_of_valid y t h.nx hv.2 (by simpa [endNode] using hend) hnd'.2

/-- **the brute-force decider decides the specification** -/
theorem inducingDec_iff (hwf : G.WF) (hZ : ∀ z ∈ x :: y :: S, z ∈ G.nodes) :
    inducingDec G L S x y = true ↔ HasInducingPath G L S x y := by
  unfold inducingDec HasInducingPath InducingPath
  simp only [List.any_eq_true]
  constructor
  · rintro ⟨p, hp, hs, hmem, hok⟩
    obtain ⟨hc, hnd, _⟩ := simplePaths_sound y _ _ _ _ hp
    obtain ⟨hv, hn⟩ := (mem_hopLists p x hs).mp hmem
    have hnodes : nodesOf x hs = x :: p := by simp [nodesOf, hn]
    refine ⟨hs, hv, ?_, by rw [hnodes]; exact hnd, (innerOKB_iff hwf hZ hs none x).mp hok⟩
    have h1 := getLast_nodesOf hs x
    rw [hnodes, chain_getLast y p x hc] at h1
    exact (Option.some.inj h1).symm
  · rintro ⟨hs, hv, hend, hnd, hok⟩
    refine ⟨hs.map (·.nx), ?_, hs, (mem_hopLists _ x hs).mpr ⟨hv, rfl⟩,
      (innerOKB_iff hwf hZ hs none x).mpr hok⟩
    apply simplePaths_complete y _ _ _ _ (chain_of_valid y hs x hv hend hnd)
    · simpa [nodesOf] using hnd
    · intro v hvm hcm
      rw [List.mem_singleton] at hcm
      subst hcm
      have : (v :: hs.map (·.nx)).Nodup := by simpa [nodesOf] using hnd
      exact (List.nodup_cons.mp this).1 hvm
    · have hsub : ∀ a ∈ x :: hs.map (·.nx), a ∈ G.nodes := by
        intro a ha
        rcases List.mem_cons.mp ha with rfl | ha
        · exact hZ _ (by simp)
        · exact validW_nodes hwf hs _ hv a ha
      have := nodup_length_le _ _ (by simpa [nodesOf] using hnd) hsub
      simp only [List.length_cons] at this; omega

end C06
