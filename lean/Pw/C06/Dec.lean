import Pw.C06.Spec
import Pw.C06.Model
import Pw.C01.Guard
open Closure

/-! # C06 brute-force deciders (oracles), written directly against the specification

* `inducingDec`: enumerate every simple node path from `x` to `y`, every choice of one edge per hop,
  and test `InnerOK` literally.  Independent of the model's per-triple collider test.
* `validNodePath`: validates a node list returned by the implementation.
* `insepPairs` / `magSemantics`: the semantic clauses of `dag_to_mag` (all conditioning sets), decided
  with the proved `MG.mSeparated` of C01. -/
namespace C06
open MG

def hasEdgeB (G : MG) (a b : Nat) (ma mb : Mark) : Bool :=
  match ma, mb with
  | .tail, .head => decide ((a, b) ∈ G.dir)
  | .head, .tail => decide ((b, a) ∈ G.dir)
  | .head, .head => decide ((a, b) ∈ G.bi) || decide ((b, a) ∈ G.bi)
  | .tail, .tail => decide ((a, b) ∈ G.un) || decide ((b, a) ∈ G.un)

def allMarks : List (Mark × Mark) := [(.tail, .head), (.head, .tail), (.head, .head), (.tail, .tail)]

/-- every way of walking the node list `p` from `a`, one edge per hop -/
def hopLists (G : MG) : Nat → List Nat → List (List Hop)
  | _, [] => [[]]
  | a, b :: rest =>
    (allMarks.filter fun m => hasEdgeB G a b m.1 m.2).flatMap fun m =>
      (hopLists G b rest).map (⟨m.1, m.2, b⟩ :: ·)

def isColliderB (min mout : Mark) : Bool := min == .head && mout == .head

/-- `condI` with `AncOf` decided by membership in `anc = G.anc (x :: y :: S)` -/
def condIB (L anc : List Nat) (min mout : Mark) (v : Nat) : Bool :=
  (decide (v ∈ L) || isColliderB min mout) && (!isColliderB min mout || decide (v ∈ anc))

def innerOKB (L anc : List Nat) : Option Mark → Nat → List Hop → Bool
  | _, _, [] => true
  | none, _, h :: t => innerOKB L anc (some h.mn) h.nx t
  | some m, a, h :: t => condIB L anc m h.mp a && innerOKB L anc (some h.mn) h.nx t

/-- all simple node paths from `cur` to `y` avoiding `visited` (lists of the nodes after `cur`) -/
def simplePaths (G : MG) (y : Nat) : Nat → List Nat → Nat → List (List Nat)
  | 0, _, _ => []
  | fuel + 1, visited, cur =>
    if cur = y then [[]] else
    (nbrs G cur).eraseDups.flatMap fun nx =>
      if nx ∈ cur :: visited then [] else (simplePaths G y fuel (cur :: visited) nx).map (nx :: ·)

/-- brute-force: is there an inducing path from x to y relative to L, S -/
def inducingDec (G : MG) (L S : List Nat) (x y : Nat) : Bool :=
  let anc := G.anc (x :: y :: S)
  (simplePaths G y (G.nodes.length + 1) [] x).any fun p =>
    (hopLists G x p).any fun hs => innerOKB L anc none x hs

/-- validate a node list `p = [x, …, y]` returned by the implementation -/
def validNodePath (G : MG) (L S : List Nat) (x y : Nat) (p : List Nat) : Bool :=
  match p with
  | [] => false
  | a :: rest =>
    a == x && (a :: rest).getLast? == some y && decide ((a :: rest).Nodup) &&
    (hopLists G x rest).any fun hs => innerOKB L (G.anc (x :: y :: S)) none x hs

/-- all sublists -/
def subsets : List Nat → List (List Nat)
  | [] => [[]]
  | a :: t => subsets t ++ (subsets t).map (a :: ·)

/-- x and y cannot be m-separated in D by any `Z ∪ S`, `Z ⊆ O \ {x,y}`, `O = V \ (L ∪ S)` -/
def inseparable (D : MG) (L S : List Nat) (x y : Nat) : Bool :=
  let O := D.nodes.filter fun v => decide (v ∉ L) && decide (v ∉ S) && v != x && v != y
  (subsets O).all fun Z => !(mSeparated D [x] [y] (Z ++ S))

/-- the unordered pairs `a < b` of remaining nodes that are inseparable -/
def insepPairs (D : MG) (L S : List Nat) : List (Nat × Nat) :=
  let O := D.nodes.filter fun v => decide (v ∉ L) && decide (v ∉ S)
  O.flatMap fun a => (O.filter fun b => a < b && inseparable D L S a b).map (a, ·)

/-- first `(x, y, Z)` with `m_separated(M, x, y, Z) ≠ d_separated(D, x, y, Z ∪ S)`, if any -/
def magSemantics (D : MG) (L S : List Nat) (M : MG) : Option (Nat × Nat × List Nat) :=
  let O := D.nodes.filter fun v => decide (v ∉ L) && decide (v ∉ S)
  O.findSome? fun a => O.findSome? fun b =>
    if a < b then
      (subsets (O.filter fun v => v != a && v != b)).findSome? fun Z =>
        if mSeparated M [a] [b] Z != mSeparated D [a] [b] (Z ++ S) then some (a, b, Z) else none
    else none

end C06
