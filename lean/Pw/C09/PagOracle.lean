import Pw.C09.PagClass
open Closure

/-! # C09 PAG oracle, part 2: `pagOf M0` is the PAG of `M0` from the definition

`pagOf_isPagOf`: for a well-formed MAG `M0` (directed and bidirected edges), `pagOf M0` has the nodes and
adjacencies of `M0`, and its mark at an endpoint is an arrowhead (a tail) iff **every** member of the
Markov equivalence class of `M0` – every well-formed MAG without undirected edges on the nodes of `M0`
that is Markov equivalent to `M0` – has an arrowhead (a tail) there; otherwise it is a circle.
`isMagB_iff`: the filter "is a MAG" of the oracle decides `IsMAG`. -/
namespace C09
open MG

/-- **the MAG filter of the oracle** decides `IsMAG` -/
theorem isMagB_iff {M : MG} (hwf : M.WF) : isMagB M = true ↔ IsMAG M := by
  unfold isMagB
  simp only [Bool.and_eq_true, List.isEmpty_iff]
  constructor
  · rintro ⟨⟨⟨hu, hc⟩, ha⟩, hm⟩
    have hanc := (ancestralB_iff hwf).mp ha
    exact ⟨hu, hc, hanc, (maximalB_iff hwf hu (noSelfLoop_of_ancestral hanc hu)).mp hm⟩
  · intro h
    exact ⟨⟨⟨h.noUn, h.noCirc⟩, (ancestralB_iff hwf).mpr h.ancestral⟩,
      (maximalB_iff hwf h.noUn h.noSelfLoop).mpr h.maximal⟩

/-! ## the shared mark -/

theorem headAt_iff {M : MG} {a b : Nat} : headAt M a b = true ↔ markAt M a b = some .head := by
  unfold headAt; rw [beq_iff_eq, markB_eq_two]

theorem sharedMark_cases (cls : List MG) (a b : Nat) :
    sharedMark cls a b = 2 ∨ sharedMark cls a b = 1 ∨ sharedMark cls a b = 3 := by
  unfold sharedMark
  split
  · exact Or.inl rfl
  · split
    · exact Or.inr (Or.inl rfl)
    · exact Or.inr (Or.inr rfl)

theorem sharedMark_eq_two {cls : List MG} {a b : Nat} :
    sharedMark cls a b = 2 ↔ ∀ M ∈ cls, markAt M a b = some .head := by
  unfold sharedMark
  simp only [← headAt_iff, ← List.all_eq_true]
  split
  · simp [*]
  · split <;> simp [*]

theorem sharedMark_eq_one {cls : List MG} {a b : Nat} :
    sharedMark cls a b = 1 ↔
      (¬ ∀ M ∈ cls, markAt M a b = some .head) ∧ ∀ M ∈ cls, markAt M a b ≠ some .head := by
  have e2 : (∀ M ∈ cls, markAt M a b ≠ some .head) ↔ (cls.all fun M' => !headAt M' a b) = true := by
    simp only [List.all_eq_true, Bool.not_eq_true', ← Bool.not_eq_true, headAt_iff, Ne]
  rw [e2]
  unfold sharedMark
  simp only [← headAt_iff, ← List.all_eq_true]
  split
  · simp [*]
  · split <;> simp [*]

theorem markAt_tail_iff {G : MG} {a b : Nat} :
    markAt G a b = some .tail ↔
      (a, b) ∉ G.circ ∧ ¬ ((a, b) ∈ G.dir ∨ (a, b) ∈ G.bi ∨ (b, a) ∈ G.bi) ∧
      ((b, a) ∈ G.dir ∨ (a, b) ∈ G.un ∨ (b, a) ∈ G.un ∨ (b, a) ∈ G.circ) := by
  unfold markAt
  by_cases h1 : (a, b) ∈ G.circ
  · simp [h1]
  · rw [if_neg h1]
    by_cases h2 : (a, b) ∈ G.dir ∨ (a, b) ∈ G.bi ∨ (b, a) ∈ G.bi
    · rw [if_pos h2]
      exact ⟨fun h => (by cases h), fun h => absurd h2 h.2.1⟩
    · rw [if_neg h2]
      by_cases h3 : (b, a) ∈ G.dir ∨ (a, b) ∈ G.un ∨ (b, a) ∈ G.un ∨ (b, a) ∈ G.circ
      · rw [if_pos h3]; exact ⟨fun _ => ⟨h1, h2, h3⟩, fun _ => rfl⟩
      · rw [if_neg h3]
        exact ⟨fun h => (by cases h), fun h => absurd h.2.2 h3⟩

/-! ## the layers of `pagOf` -/

/-- `a`, `b` is one of the skeleton pairs (in either order) -/
def SkelP (M : MG) (a b : Nat) : Prop := (a, b) ∈ skelPairs M ∨ (b, a) ∈ skelPairs M

theorem SkelP.symm {M : MG} {a b : Nat} (h : SkelP M a b) : SkelP M b a := Or.symm h

theorem mem_ord {M : MG} {a b : Nat} :
    (a, b) ∈ ((skelPairs M).flatMap fun (e : Nat × Nat) => [(e.1, e.2), (e.2, e.1)]) ↔ SkelP M a b := by
  simp only [List.mem_flatMap, List.mem_cons, List.not_mem_nil, or_false, Prod.mk.injEq, Prod.exists]
  constructor
  · rintro ⟨x, y, h, ⟨rfl, rfl⟩ | ⟨rfl, rfl⟩⟩
    · exact Or.inl h
    · exact Or.inr h
  · rintro (h | h)
    · exact ⟨a, b, h, Or.inl ⟨rfl, rfl⟩⟩
    · exact ⟨b, a, h, Or.inr ⟨rfl, rfl⟩⟩

/-- the mark function of the oracle -/
abbrev mkOf (M : MG) : Nat → Nat → Nat := sharedMark (equivClass M)

theorem mem_pagOf_circ {M : MG} {a b : Nat} :
    (a, b) ∈ (pagOf M).circ ↔ SkelP M a b ∧ mkOf M a b = 3 := by
  show (a, b) ∈ List.filter _ _ ↔ _
  rw [List.mem_filter, mem_ord]; simp

theorem mem_pagOf_dir {M : MG} {a b : Nat} :
    (a, b) ∈ (pagOf M).dir ↔ SkelP M a b ∧ mkOf M a b = 2 ∧ mkOf M b a ≠ 2 := by
  show (a, b) ∈ List.filter _ _ ↔ _
  rw [List.mem_filter, mem_ord]; simp

theorem mem_pagOf_bi {M : MG} {a b : Nat} :
    (a, b) ∈ (pagOf M).bi ↔ (a, b) ∈ skelPairs M ∧ mkOf M a b = 2 ∧ mkOf M b a = 2 := by
  show (a, b) ∈ List.filter _ _ ↔ _
  rw [List.mem_filter]; simp

theorem mem_pagOf_un {M : MG} {a b : Nat} :
    (a, b) ∈ (pagOf M).un ↔ (a, b) ∈ skelPairs M ∧ mkOf M a b = 1 ∧ mkOf M b a = 1 := by
  show (a, b) ∈ List.filter _ _ ↔ _
  rw [List.mem_filter]; simp

theorem markAt_pagOf_none {M : MG} {a b : Nat} (h : ¬ SkelP M a b) : markAt (pagOf M) a b = none := by
  have h' : ¬ SkelP M b a := fun hs => h hs.symm
  rw [markAt_none_iff]
  simp only [mem_pagOf_circ, mem_pagOf_dir, mem_pagOf_bi, mem_pagOf_un]
  refine ⟨fun x => h x.1, fun x => h x.1, fun x => h (Or.inl x.1), fun x => h (Or.inr x.1),
    fun x => h' x.1, fun x => h (Or.inl x.1), fun x => h (Or.inr x.1), fun x => h' x.1⟩

/-- on a skeleton pair the oracle's graph carries exactly the shared mark -/
theorem markAt_pagOf {M : MG} {a b : Nat} (h : SkelP M a b) :
    (mkOf M a b = 2 → markAt (pagOf M) a b = some .head) ∧
    (mkOf M a b = 1 → markAt (pagOf M) a b = some .tail) ∧
    (mkOf M a b = 3 → markAt (pagOf M) a b = some .circle) := by
  refine ⟨?_, ?_, ?_⟩
  · intro h2
    rw [markAt_head_iff]
    simp only [mem_pagOf_circ, mem_pagOf_dir, mem_pagOf_bi]
    refine ⟨fun x => by rw [h2] at x; exact absurd x.2 (by decide), ?_⟩
    by_cases hb : mkOf M b a = 2
    · rcases h with h | h
      · exact Or.inr (Or.inl ⟨h, h2, hb⟩)
      · exact Or.inr (Or.inr ⟨h, hb, h2⟩)
    · exact Or.inl ⟨h, h2, hb⟩
  · intro h1
    rw [markAt_tail_iff]
    simp only [mem_pagOf_circ, mem_pagOf_dir, mem_pagOf_bi, mem_pagOf_un]
    refine ⟨fun x => by rw [h1] at x; exact absurd x.2 (by decide), ?_, ?_⟩
    · rintro (x | x | x)
      · rw [h1] at x; exact absurd x.2.1 (by decide)
      · rw [h1] at x; exact absurd x.2.1 (by decide)
      · rw [h1] at x; exact absurd x.2.2 (by decide)
    · rcases sharedMark_cases (equivClass M) b a with hb | hb | hb
      · exact Or.inl ⟨h.symm, hb, by rw [h1]; decide⟩
      · rcases h with h | h
        · exact Or.inr (Or.inl ⟨h, h1, hb⟩)
        · exact Or.inr (Or.inr (Or.inl ⟨h, hb, h1⟩))
      · exact Or.inr (Or.inr (Or.inr ⟨h.symm, hb⟩))
  · intro h3
    rw [markAt_circle_iff, mem_pagOf_circ]
    exact ⟨h, h3⟩

theorem markAt_pagOf_head_iff {M : MG} {a b : Nat} (h : SkelP M a b) :
    markAt (pagOf M) a b = some .head ↔ mkOf M a b = 2 := by
  obtain ⟨p2, p1, p3⟩ := markAt_pagOf h
  constructor
  · intro hh
    rcases sharedMark_cases (equivClass M) a b with hc | hc | hc
    · exact hc
    · rw [p1 hc] at hh; cases hh
    · rw [p3 hc] at hh; cases hh
  · exact p2

theorem markAt_pagOf_tail_iff {M : MG} {a b : Nat} (h : SkelP M a b) :
    markAt (pagOf M) a b = some .tail ↔ mkOf M a b = 1 := by
  obtain ⟨p2, p1, p3⟩ := markAt_pagOf h
  constructor
  · intro hh
    rcases sharedMark_cases (equivClass M) a b with hc | hc | hc
    · rw [p2 hc] at hh; cases hh
    · exact hc
    · rw [p3 hc] at hh; cases hh
  · exact p1

theorem markAt_pagOf_ne_none {M : MG} {a b : Nat} (h : SkelP M a b) : markAt (pagOf M) a b ≠ none := by
  obtain ⟨p2, p1, p3⟩ := markAt_pagOf h
  rcases sharedMark_cases (equivClass M) a b with hc | hc | hc
  · rw [p2 hc]; simp
  · rw [p1 hc]; simp
  · rw [p3 hc]; simp

/-! ## piece 6: the oracle's graph is the PAG from the definition -/

/-- a graph with directed and bidirected edges only carries a head or a tail at an adjacent endpoint -/
theorem head_or_tail {G : MG} (hc : G.circ = []) {a b : Nat} (h : markAt G a b ≠ none) :
    markAt G a b = some .head ∨ markAt G a b = some .tail := by
  cases hm : markAt G a b with
  | none => exact absurd hm h
  | some m =>
    cases m with
    | tail => exact Or.inr rfl
    | head => exact Or.inl rfl
    | circle => rw [markAt_circle_iff, hc] at hm; cases hm

/-- **piece 6.** `pagOf M0` is the PAG of the MAG `M0` from the definition. -/
theorem pagOf_isPagOf {M0 : MG} (hwf : M0.WF) (hm : IsMAG M0) : IsPagOf M0 (pagOf M0) := by
  have hself : Member M0 M0 := ⟨rfl, hwf, hm, MarkovEquiv.refl M0⟩
  -- marks shared by the enumeration = marks shared by the class
  have hall : ∀ (a b : Nat) (m : Mark3),
      (∀ M'' ∈ equivClass M0, markAt M'' a b = some m) ↔ (∀ M', Member M0 M' → markAt M' a b = some m) := by
    intro a b m
    constructor
    · intro h M' hM'
      obtain ⟨M'', hin, hse⟩ := exists_mem_equivClass hwf hm hM'
      rw [hse.markAt]; exact h M'' hin
    · intro h M'' hin
      exact h M'' (member_of_mem_equivClass hwf hm hin)
  refine ⟨rfl, ?_, ?_, ?_⟩
  · intro a b
    rw [Option.isSome_iff_ne_none, Option.isSome_iff_ne_none, skel_iff hwf hm]
    constructor
    · intro h
      apply Classical.byContradiction
      intro hn
      exact h (markAt_pagOf_none hn)
    · exact markAt_pagOf_ne_none
  · intro a b hab
    rw [Option.isSome_iff_ne_none, skel_iff hwf hm] at hab
    rw [markAt_pagOf_head_iff hab, sharedMark_eq_two]
    exact hall a b .head
  · intro a b hab
    rw [Option.isSome_iff_ne_none] at hab
    have hsk := (skel_iff hwf hm a b).mp hab
    rw [markAt_pagOf_tail_iff hsk, sharedMark_eq_one, ← hall a b .tail]
    -- every enumerated graph has the adjacencies of M0 and no circle
    have hht : ∀ M'' ∈ equivClass M0,
        markAt M'' a b = some .head ∨ markAt M'' a b = some .tail := by
      intro M'' hin
      have hmem := member_of_mem_equivClass hwf hm hin
      exact head_or_tail hmem.mag.noCirc ((hmem.adj_iff hwf hm a b).mpr hab)
    constructor
    · rintro ⟨_, h⟩ M'' hin
      rcases hht M'' hin with hh | hh
      · exact absurd hh (h M'' hin)
      · exact hh
    · intro h
      obtain ⟨M'', hin, _⟩ := exists_mem_equivClass hwf hm hself
      refine ⟨fun hall2 => ?_, fun M1 h1 => ?_⟩
      · have := h M'' hin
        rw [hall2 M'' hin] at this; cases this
      · rw [h M1 h1]; simp

/-- in particular the circles of the oracle's PAG are exactly the marks on which two members differ -/
theorem pagOf_circle_iff {M0 : MG} (hwf : M0.WF) (hm : IsMAG M0) {a b : Nat}
    (hab : markAt M0 a b ≠ none) :
    markAt (pagOf M0) a b = some .circle ↔
      (∃ M1, Member M0 M1 ∧ markAt M1 a b = some .head) ∧
      (∃ M2, Member M0 M2 ∧ markAt M2 a b = some .tail) := by
  have hp := pagOf_isPagOf hwf hm
  have hs : (markAt M0 a b).isSome := Option.isSome_iff_ne_none.mpr hab
  have hP : markAt (pagOf M0) a b ≠ none := Option.isSome_iff_ne_none.mp ((hp.adj a b).mpr hs)
  have hmem : ∀ M', Member M0 M' → markAt M' a b = some .head ∨ markAt M' a b = some .tail :=
    fun M' hM' => head_or_tail hM'.mag.noCirc ((hM'.adj_iff hwf hm a b).mpr hab)
  constructor
  · intro hc
    have nh : ¬ ∀ M', Member M0 M' → markAt M' a b = some .head := fun h => by
      have := (hp.head a b hs).mpr h; rw [hc] at this; cases this
    have nt : ¬ ∀ M', Member M0 M' → markAt M' a b = some .tail := fun h => by
      have := (hp.tail a b hs).mpr h; rw [hc] at this; cases this
    constructor
    · apply Classical.byContradiction
      intro hne
      apply nt
      intro M' hM'
      rcases hmem M' hM' with h | h
      · exact absurd ⟨M', hM', h⟩ hne
      · exact h
    · apply Classical.byContradiction
      intro hne
      apply nh
      intro M' hM'
      rcases hmem M' hM' with h | h
      · exact h
      · exact absurd ⟨M', hM', h⟩ hne
  · rintro ⟨⟨M1, h1, e1⟩, ⟨M2, h2, e2⟩⟩
    cases hmk : markAt (pagOf M0) a b with
    | none => exact absurd hmk hP
    | some m =>
      cases m with
      | circle => rfl
      | head =>
        have := (hp.head a b hs).mp hmk M2 h2
        rw [e2] at this; cases this
      | tail =>
        have := (hp.tail a b hs).mp hmk M1 h1
        rw [e1] at this; cases this

end C09
