import Pw.C07.Dec
import Pw.C07.Proofs
open Closure

/-! # C07: the definitional deciders used as run-time oracles are correct

`maximalDec_iff`: enumerating all subsets of the other nodes with the proved `MG.mSeparated` decides
`Maximal`; `validMagDec_iff`: the whole right-hand side of the property. -/
namespace C07
open MG C06

variable {G : MG}

/-! ## m-separation depends on Z only through membership -/

theorem colliderOpen_congr {Z Z' : List Nat} (h : ∀ v, v ∈ Z ↔ v ∈ Z') (v : Nat) :
    ColliderOpen G Z v ↔ ColliderOpen G Z' v := by
  unfold ColliderOpen
  constructor
  · rintro ⟨z, hz, ha⟩; exact ⟨z, (h z).mp hz, ha⟩
  · rintro ⟨z, hz, ha⟩; exact ⟨z, (h z).mpr hz, ha⟩

theorem condS_congr {Z Z' : List Nat} (h : ∀ v, v ∈ Z ↔ v ∈ Z') (mi mo : Mark) (v : Nat) :
    condS G Z mi mo v ↔ condS G Z' mi mo v := by
  unfold condS
  by_cases hc : mi = .head ∧ mo = .head
  · rw [if_pos hc, if_pos hc]; exact colliderOpen_congr h v
  · rw [if_neg hc, if_neg hc, h v]

theorem openS_congr {Z Z' : List Nat} (h : ∀ v, v ∈ Z ↔ v ∈ Z') :
    ∀ (hs : List Hop) (e : Option Mark) (a : Nat), OpenS G Z e a hs ↔ OpenS G Z' e a hs
  | [], e, a => by cases e <;> simp [OpenS]
  | hp :: t, none, a => by simp only [OpenS]; exact openS_congr h t _ _
  | hp :: t, some m, a => by simp only [OpenS, condS_congr h, openS_congr h t _ _]

theorem mSep_congr {Z Z' : List Nat} (h : ∀ v, v ∈ Z ↔ v ∈ Z') (X Y : List Nat) :
    MSep G X Y Z ↔ MSep G X Y Z' := by
  unfold MSep MConnPath
  constructor
  · intro hs x hx y hy ⟨p, h1, h2, h3, h4⟩
    exact hs x hx y hy ⟨p, h1, h2, h3, (openS_congr h p none x).mpr h4⟩
  · intro hs x hx y hy ⟨p, h1, h2, h3, h4⟩
    exact hs x hx y hy ⟨p, h1, h2, h3, (openS_congr h p none x).mp h4⟩

/-! ## subsets -/

theorem subsets_sub : ∀ (l Z : List Nat), Z ∈ subsets l → ∀ z ∈ Z, z ∈ l
  | [], Z, h, z, hz => by simp [subsets] at h; subst h; cases hz
  | a :: t, Z, h, z, hz => by
    simp only [subsets, List.mem_append, List.mem_map] at h
    rcases h with h | ⟨Z0, h, rfl⟩
    · exact List.mem_cons_of_mem _ (subsets_sub t Z h z hz)
    · rcases List.mem_cons.mp hz with rfl | hz
      · exact List.mem_cons_self
      · exact List.mem_cons_of_mem _ (subsets_sub t Z0 h z hz)

theorem filter_mem_subsets (p : Nat → Bool) : ∀ l : List Nat, l.filter p ∈ subsets l
  | [] => by simp [subsets]
  | a :: t => by
    simp only [subsets, List.mem_append, List.mem_map, List.filter_cons]
    cases p a
    · exact Or.inl (filter_mem_subsets p t)
    · exact Or.inr ⟨_, filter_mem_subsets p t, rfl⟩

theorem adjacentB_iff {a b : Nat} : adjacentB G a b = true ↔ Adjacent G a b := by
  simp [adjacentB, Adjacent, Dir, biB_iff, unB_iff, or_assoc]

/-- **the all-subsets decider decides `Maximal`** (ADMG without self loops) -/
theorem maximalDec_iff (hwf : G.WF) (hun : G.un = []) (hsl : NoSelfLoop G) :
    maximalDec G = true ↔ Maximal G := by
  have hb := noUndirAtHead_of_un_nil G hun
  unfold maximalDec Maximal
  simp only [List.all_eq_true, Bool.or_eq_true, beq_iff_eq, adjacentB_iff, List.any_eq_true]
  constructor
  · intro h a ha b hb' hab hnadj
    rcases h a ha b hb' with (h1 | h1) | ⟨Z, hZ, hsep⟩
    · exact absurd h1 hab
    · exact absurd h1 hnadj
    · have hsub := subsets_sub _ Z hZ
      have hmem : ∀ z ∈ Z, z ∈ G.nodes ∧ z ≠ a ∧ z ≠ b := by
        intro z hz
        have := hsub z hz
        simpa [List.mem_filter] using this
      refine ⟨Z, hmem, ?_⟩
      refine (mSeparated_iff_MSep G hwf hb hsl [a] [b] Z ?_ (fun z hz => (hmem z hz).1) ?_).mp hsep
      · intro x hx; rw [List.mem_singleton] at hx; subst hx; exact ha
      · intro x hx hxz; rw [List.mem_singleton] at hx; subst hx; exact (hmem x hxz).2.1 rfl
  · intro h a ha b hb'
    by_cases hab : a = b
    · exact Or.inl (Or.inl hab)
    · by_cases hadj : Adjacent G a b
      · exact Or.inl (Or.inr hadj)
      · right
        obtain ⟨Z, hZ, hsep⟩ := h a ha b hb' hab hadj
        let O := G.nodes.filter fun v => v != a && v != b
        have hcongr : ∀ v, v ∈ O.filter (fun v => decide (v ∈ Z)) ↔ v ∈ Z := by
          intro v
          simp only [O, List.mem_filter, Bool.and_eq_true, bne_iff_ne, decide_eq_true_eq]
          constructor
          · exact fun h => h.2
          · intro hv; exact ⟨⟨(hZ v hv).1, (hZ v hv).2.1, (hZ v hv).2.2⟩, hv⟩
        refine ⟨O.filter (fun v => decide (v ∈ Z)), filter_mem_subsets _ O, ?_⟩
        refine (mSeparated_iff_MSep G hwf hb hsl [a] [b] _ ?_ ?_ ?_).mpr
          ((mSep_congr hcongr [a] [b]).mpr hsep)
        · intro x hx; rw [List.mem_singleton] at hx; subst hx; exact ha
        · intro z hz; exact (hZ z ((hcongr z).mp hz)).1
        · intro x hx hxz; rw [List.mem_singleton] at hx; subst hx
          exact (hZ x ((hcongr x).mp hxz)).2.1 rfl

theorem simpleDec_iff (hwf : G.WF) : simpleDec G = true ↔ Simple G := by
  unfold simpleDec Simple Dir
  simp only [List.all_eq_true, Bool.and_eq_true, Bool.not_eq_true', ← Bool.not_eq_true, biB_iff,
    unB_iff, decide_eq_true_eq]
  constructor
  · intro h a b
    by_cases ha : a ∈ G.nodes
    · by_cases hb : b ∈ G.nodes
      · obtain ⟨⟨⟨h1, h2⟩, h3⟩, h4⟩ := h a ha b hb
        exact ⟨h1, h2, h3, h4⟩
      · have nd : ¬ (a, b) ∈ G.dir := fun h => hb (hwf.1 _ h).2
        have nb : ¬ Bi G a b := by
          rintro (h | h)
          · exact hb (hwf.2.1 _ h).2
          · exact hb (hwf.2.1 _ h).1
        exact ⟨fun h => nd h.1, fun h => nd h.1, fun h => nd h.1, fun h => nb h.1⟩
    · have nd : ¬ (a, b) ∈ G.dir := fun h => ha (hwf.1 _ h).1
      have nb : ¬ Bi G a b := by
        rintro (h | h)
        · exact ha (hwf.2.1 _ h).1
        · exact ha (hwf.2.1 _ h).2
      exact ⟨fun h => nd h.1, fun h => nd h.1, fun h => nd h.1, fun h => nb h.1⟩
  · intro h a _ b _
    obtain ⟨h1, h2, h3, h4⟩ := h a b
    exact ⟨⟨⟨h1, h2⟩, h3⟩, h4⟩

theorem ancestralDec_iff (hwf : G.WF) : ancestralDec G = true ↔ Ancestral G := by
  unfold ancestralDec Ancestral SAnc
  simp only [List.all_eq_true, Bool.and_eq_true, Bool.not_eq_true', List.any_eq_false,
    decide_eq_true_eq, mem_children]
  have hmem : ∀ (c t : Nat), t ∈ G.nodes → (c ∈ G.anc [t] ↔ Anc G c t) := by
    intro c t ht
    rw [mem_anc hwf (by intro z hz; rw [List.mem_singleton] at hz; subst hz; exact ht)]
    unfold ColliderOpen
    simp
  constructor
  · intro h a b hbi ⟨c, hac, hcb⟩
    rcases hbi with hbi | hbi
    · exact (h _ hbi).1 c hac ((hmem c b (hwf.2.1 _ hbi).2).mpr hcb)
    · exact (h _ hbi).2 c hac ((hmem c b (hwf.2.1 _ hbi).1).mpr hcb)
  · intro h e he
    constructor
    · intro c hc hanc
      exact h e.1 e.2 (Or.inl he) ⟨c, hc, (hmem c e.2 (hwf.2.1 _ he).2).mp hanc⟩
    · intro c hc hanc
      exact h e.2 e.1 (Or.inr he) ⟨c, hc, (hmem c e.1 (hwf.2.1 _ he).1).mp hanc⟩

/-- **the run-time oracle for `valid_mag` decides the property's right-hand side** -/
theorem validMagDec_iff (hwf : G.WF) (hsl : NoSelfLoop G) : validMagDec G = true ↔ ValidMAG G := by
  unfold validMagDec ValidMAG NoUndirected
  by_cases hun : G.un = []
  · simp only [hun, List.isEmpty_nil, Bool.true_and, Bool.and_eq_true, Bool.not_eq_true',
      simpleDec_iff hwf, hasCycle_false_iff G hwf, ancestralDec_iff hwf, maximalDec_iff hwf hun hsl,
      true_and, and_assoc]
  · have : G.un.isEmpty = false := by
      cases h : G.un with
      | nil => exact absurd h hun
      | cons _ _ => rfl
    simp [this, hun]

end C07
