"""C04: dag_to_cpdag returns the essential graph.  The deciding oracle is the Lean brute-force decider
`C04.essentialDec` (enumerate every acyclic orientation of the skeleton with the same v-structures; proved
to be the spec: C04.essentialDec_spec).  The model `C04.dagToCpdag` (order_edges/label_edges with networkx's
topological order as input) is compared too; `model = essential graph` is only conditional on Chickering's
theorem, so a model/decider difference is reported separately.  Second clause: two DAGs receive equal CPDAGs
iff they are Markov equivalent (`c04meq`)."""
import copy

from . import common as C
from . import c04_util as U
from .shrink import shrink_case

PID = "C04"


def impl_one(g, lab, reuse=0, stale=False):
    from pywhy_graphs.algorithms.cpdag import dag_to_cpdag
    if reuse and len(g["D"]) > reuse:
        # the same DiGraph object is converted, extended by edges, and converted again: the DAG handed to
        # the second call carries whatever the first call left on it
        g0 = dict(g)
        g0["D"] = g["D"][:-reuse]
        G = U.build_digraph(g0, lab)
        try:
            dag_to_cpdag(G)
        except Exception:
            pass
        for a, b in g["D"][-reuse:]:
            G.add_edge(lab(a), lab(b))
    else:
        G = U.build_digraph(g, lab)
    if stale:
        # a DAG whose edges already carry 'order' / 'label' attributes (e.g. from an earlier call) is a DAG
        for i, (a, b) in enumerate(G.edges):
            G[a][b]["order"] = (7 * i + 3) % (G.number_of_edges() + 1)
            G[a][b]["label"] = ("compelled", "reversible", "unknown")[i % 3]
    topo = U.topo_indices(G, lab)
    try:
        cp = dag_to_cpdag(G)
        from pywhy_graphs import CPDAG
        return {"res": U.mixed_canon(cp, lab), "topo": topo,
                "type": "CPDAG" if isinstance(cp, CPDAG) else type(cp).__name__}
    except Exception as e:
        return {"res": "err:" + type(e).__name__, "topo": topo}


def impl(case):
    lab = C.Labels(case.get("fam", "int"))
    out = impl_one(case["g"], lab, reuse=case.get("reuse", 0), stale=case.get("stale", False))
    if "g2" in case:
        out["second"] = impl_one(case["g2"], C.Labels(case.get("fam", "int")))
    return out


def lines(case, got):
    g = case["g"]
    ls = ["c04ess n=%d D=%s" % (g["n"], C.fmt_pairs(g["D"])),
          "c04model N=%s D=%s" % (",".join(map(str, got["topo"])), C.fmt_pairs(g["D"]))]
    if "g2" in case:
        h = case["g2"]
        ls.append("c04meq n=%d D=%s R=%s RN=%s" % (g["n"], C.fmt_pairs(g["D"]), C.fmt_pairs(h["D"]), C.fmt_set(C.g_nodes(h))))
    return ls


def judge(case, got, ans):
    ess, model = ans[0], ans[1]
    if got["res"] != ess:
        return "essential", "dag_to_cpdag = %s but the essential graph (Lean essentialDec) is %s; model: %s" % (got["res"], ess, model)
    if got.get("type") != "CPDAG":
        return "type", "returned a %s, not a CPDAG" % got.get("type")
    if "g2" in case:
        same = got["second"]["res"] == got["res"]
        meq = ans[2] == "T"
        if same != meq:
            return "markov", "CPDAGs equal: %s, Markov equivalent (Lean meqDec): %s; second CPDAG %s" % (same, meq, got["second"]["res"])
    return None


def evaluate(case, ask_many):
    got = impl(case)
    ans = ask_many(lines(case, got))
    return got, ans, judge(case, got, ans)


def fails_with(drv):
    def f(c):
        g = c["g"]
        if not C.is_acyclic(g["n"], g["D"]):
            return False
        if "g2" in c:
            return False  # pairs are re-derived, not shrunk jointly
        return evaluate(c, lambda ls: [drv.ask(l) for l in ls])[2] is not None
    return f


def variant(rng, g):
    """a second DAG on the same nodes: reverse or drop/add one edge, or a random member-like reorientation"""
    h = copy.deepcopy(g)
    h.pop("N", None)
    n = g["n"]
    for _ in range(8):
        k = copy.deepcopy(h)
        r = rng.random()
        if k["D"] and r < 0.7:
            i = rng.randrange(len(k["D"]))
            a, b = k["D"][i]
            k["D"][i] = [b, a]
            if rng.random() < 0.3 and len(k["D"]) > 1:
                j = rng.randrange(len(k["D"]))
                if j != i:
                    a, b = k["D"][j]
                    k["D"][j] = [b, a]
        elif k["D"] and r < 0.85:
            del k["D"][rng.randrange(len(k["D"]))]
        else:
            a, b = rng.sample(range(n), 2) if n > 1 else (0, 0)
            if a != b and [a, b] not in k["D"] and [b, a] not in k["D"]:
                k["D"].append([a, b])
        if C.is_acyclic(n, k["D"]):
            return k
    return h


def gen_cases(ctx):
    tier, rng = ctx["tier"], ctx["rng"]
    fams = C.Labels.FAMILIES
    k = 0
    for n in range(1, 6 if tier == "thorough" else 5):
        for g in U.all_dags(n):
            k += 1
            reps = 1 if n == 5 else 2
            for r in range(reps):
                c = {"g": g if r == 0 else C.shuffled_graph(rng, g), "src": "exh%d" % n,
                     "fam": fams[(k + r) % len(fams)] if r else "int"}
                if (r == 1 or n == 5) and n > 1 and k % 2 == 0:
                    c["g2"] = variant(rng, g)
                yield c
            if n >= 3 and len(g["D"]) >= 2 and k % 3 == 0:
                # convert, add edges to the same object, convert again / edges that already carry attributes
                gs = C.shuffled_graph(rng, g)
                yield {"g": gs, "src": "reuse%d" % n, "fam": "int", "reuse": rng.choice((1, 2))}
                yield {"g": gs, "src": "stale%d" % n, "fam": "int", "stale": True}
    if tier == "quick":
        # a slice of the 5-node DAGs every run
        five = [g for i, g in enumerate(U.all_dags(5)) if i % 12 == ctx["seed"] % 12]
        for g in five:
            k += 1
            yield {"g": g, "src": "exh5(1/12)", "fam": fams[k % len(fams)]}
    for i in range(3000 if tier == "quick" else 40000):
        n = rng.choice((5, 6, 6, 7, 7))
        g = U.rand_dag(rng, n, rng.choice((0.25, 0.4, 0.6)))
        if len(g["D"]) > 12:
            continue
        # isolated nodes and disconnected graphs arise from the low densities; add explicit ones too
        c = {"g": C.shuffled_graph(rng, g), "src": "random", "fam": fams[i % len(fams)]}
        if i % 2 == 0:
            c["g2"] = variant(rng, g)
        elif i % 5 == 1 and len(g["D"]) >= 3:
            c["reuse"] = rng.choice((1, 2, 3))
        elif i % 5 == 3:
            c["stale"] = True
        yield c


def _impl(case):
    return impl(case)


def stress(ctx):
    """three LARGE DAGs whose essential graph is known in closed form (labelled TESTS: no Lean decider at this
    size; they reach what small inputs cannot - recursion depth, fixed-width counters, quadratic tables):
    common-parents: 130 pairwise non-adjacent nodes each a parent of x and y, x -> y  => all 260 parent edges are
      compelled (v-structures), x - y is reversible (reversing it creates no v-structure and no cycle);
    long-chain: v0 -> v1 -> ... -> v1500 => no v-structure, everything reversible;
    collider-chain: p -> c <- q, c -> d1 -> ... -> d1000 => everything compelled (rule 1 down the chain)."""
    import networkx as nx
    from pywhy_graphs.algorithms import dag_to_cpdag
    K = 130
    cp = [(("p", i), "x") for i in range(K)] + [(("p", i), "y") for i in range(K)] + [("x", "y")]
    chain = [(i, i + 1) for i in range(1500)]
    coll = [("p", "c"), ("q", "c"), ("c", 1)] + [(i, i + 1) for i in range(1, 1000)]
    specs = [("common-parents-130", cp, set(cp) - {("x", "y")}, {frozenset(("x", "y"))}),
             ("long-chain-1500", chain, set(), set(frozenset(e) for e in chain)),
             ("collider-chain-1000", coll, set(coll), set())]
    for name, edges, wantD, wantU in specs:
        G = nx.DiGraph()
        G.add_edges_from(edges)
        try:
            with C.time_limit(120):
                R = dag_to_cpdag(G)
            gotD = set(R.directed_edges)
            gotU = set(frozenset(e) for e in R.undirected_edges)
            why = None
            if set(R.nodes) != set(G.nodes):
                why = "node set differs"
            elif gotD != wantD or gotU != wantU:
                why = "directed edges: %d expected %d; undirected: %d expected %d; e.g. wrongly directed %s, wrongly undirected %s" % (
                    len(gotD), len(wantD), len(gotU), len(wantU), sorted(map(str, gotD - wantD))[:3],
                    sorted(map(lambda e: str(sorted(map(str, e))), gotU - wantU))[:3])
        except C.CallTimeout:
            yield name, None      # slow is not wrong: inconclusive, counted as ok
            continue
        except BaseException as e:
            why = "raised %s" % type(e).__name__
        yield name, why


def run(ctx):
    ev, out = ctx["ev"], ctx["out"]
    ev.rule = ("every labelled DAG on <=4 nodes (thorough: <=5 nodes, 29281 DAGs; quick: a seed-dependent twelfth of "
               "them), each also with shuffled node/edge insertion order and another label family; random DAGs on "
               "5..7 nodes (<=12 edges) with densities 0.25/0.4/0.6 (isolated nodes, disconnected graphs), five label "
               "families. Half of the cases carry a second DAG (one or two edges reversed, an edge dropped or added) for the "
               "clause 'equal CPDAGs iff Markov equivalent'. non-trivial = the essential graph (Lean decider) has both a "
               "directed and an undirected edge.")
    ev.assumptions = ["input is an acyclic networkx DiGraph (the property's quantifier)",
                      "model = essential graph is conditional on Chickering's theorem (hypothesis T3); the implementation is "
                      "therefore compared with the enumerating decider on every case (testing)",
                      "label->index bijection and canonicalisation in harness/common.py, harness/c04_util.py"]
    for name, why in stress(ctx):
        ev.count("stress:" + name + (":ok" if why is None else ":BAD"))
        if why is not None:
            out.violation({"kind": "stress", "name": name},
                          {"kind": "large structured input (closed-form essential graph)", "detail": why,
                           "input": "see harness/c04.py stress(): " + name})
    cases = C.load_corpus(PID) + list(gen_cases(ctx))
    gots = C.pmap(_impl, cases, chunksize=128)
    ls, spans = [], []
    for c, got in zip(cases, gots):
        l = lines(c, got)
        spans.append((len(ls), len(l)))
        ls += l
    answers = C.lean_batch(ls)
    bad, model_diff = [], []
    for c, got, (s, k) in zip(cases, gots, spans):
        ans = answers[s:s + k]
        r = judge(c, got, ans)
        e = ans[0]
        nt = " D= " not in e and " U= " not in e
        ev.case(c, nontrivial=nt, sample_every=3000)
        ev.count("src:" + c.get("src", "corpus"))
        if "g2" in c:
            ev.count("pair:" + ("equivalent" if ans[2] == "T" else "not-equivalent"))
        if ans[1] != ans[0]:
            model_diff.append((c, ans))
        if r:
            bad.append((c, r))
    ev.extra["exhaustive_part"] = "all DAGs on <=4 nodes (quick) / <=5 nodes (thorough)"
    ev.extra["model_vs_decider_differences"] = len(model_diff)
    if bad:
        drv = C.Driver()
        try:
            case, (kind, detail) = bad[0]
            small = case if "g2" in case else shrink_case(case, fails_with(drv), setkeys=(), optional_sets=())
            got, ans, r = evaluate(small, lambda ls_: [drv.ask(l) for l in ls_])
            out.violation(small, {"kind": r[0] if r else kind, "detail": r[1] if r else detail, "impl": got,
                                  "lean": ans, "original_case": case, "disagreements_total": len(bad),
                                  "kinds": sorted(set(b[1][0] for b in bad))})
        finally:
            drv.close()
    elif model_diff:
        c, ans = model_diff[0]
        out.corr(c, {"what": "Lean model C04.dagToCpdag differs from the enumerating decider although the implementation "
                             "agrees with the decider (hypothesis T3 / the model no longer mirrors the code)",
                     "model": ans[1], "decider": ans[0], "count": len(model_diff)})


def replay(ctx, payload):
    case = payload["case"]
    drv = C.Driver()
    got, ans, r = evaluate(case, lambda ls: [drv.ask(l) for l in ls])
    drv.close()
    print("implementation:", got)
    print("lean (essentialDec, model[, meq]):", ans)
    print("verdict:", r)
    print("REPRODUCED" if r else "NOT-REPRODUCED")
    return 1 if r else 0


# ----------------------------------------------------------------------------- C15 adapter
def c15_cases(rng, k):
    cases = []
    while len(cases) < k:
        n = rng.choice((3, 4, 5, 5, 6))
        g = U.rand_dag(rng, n, rng.choice((0.3, 0.5, 0.7)))
        if len(g["D"]) <= 10:
            cases.append({"g": g})
    return cases


def c15_eval(case, fam, order_seed):
    import random
    g = C.shuffled_graph(random.Random(order_seed), case["g"])
    return impl_one(g, C.Labels(fam))["res"]


def c15_expected(cases):
    return C.lean_batch(["c04ess n=%d D=%s" % (c["g"]["n"], C.fmt_pairs(c["g"]["D"])) for c in cases])
